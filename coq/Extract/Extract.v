(* Extract.v - extraction of the executable model for the correspondence driver.
   ExtrOcamlBasic only; N / Z / positive / nat stay the extracted inductive types. *)
From Coq Require Import Extraction ExtrOcamlBasic.
From DTN Require Import Base Bbc.
Extraction Language OCaml.
Extraction "model.ml"
  N.add N.mul N.sub N.div N.modulo N.eqb N.ltb N.leb N.of_nat N.to_nat Z.add Z.mul Z.sub Z.eqb Z.ltb Z.leb Z.of_N Z.to_N
  Base.bytes_eqb
  Bbc.new_fragment Bbc.f_seq Bbc.f_start Bbc.f_end Bbc.f_fail Bbc.frag_bytes Bbc.parse_fragment
  Bbc.report_failure Bbc.next_seq Bbc.next_tid Bbc.out_fragments Bbc.handle_fragment Bbc.handle_all
  Bbc.fragment_eqb.
