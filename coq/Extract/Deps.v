(* Deps.v - requires every model file that Extract.v extracts from (so `make Extract/Deps.vo`
   builds exactly what extraction needs, even when a proof file is broken). *)
From DTN Require Import Base Bbc.
