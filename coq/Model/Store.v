(* Store.v - executable model of pkg/storage (store.go, bundle_item.go) and of the two callers
   that matter for restart safety (routing.BundleDescriptor.Bundle, Core.checkPendingBundles).

   Concrete state  = badgerhold index (scrubbed sbundle ID -> BundleItem)  x  part files
                     (bndl/<sha256 of the full sbundle ID> -> bytes).
   Every operation = a list of atomic micro-steps (write file, remove file, index insert /
                     update / delete) computed from what the operation reads first.
   Abstract state  = association list  id -> record  whose parts carry the loaded sbundle.

   What is assumed about the world (see lib/propdefs/C08.py):
   - a completed badgerhold Insert / Update / Delete is atomic and durable, Get fails only with
     ErrNotFound, a process kill does not lose completed file writes / removals;
   - sha256 of the sbundle-ID string is injective on the IDs in play (file name = the ID);
   - the sbundle codec is a prefix code: parsing a file stops at the end of the sbundle that was
     written first into it (storeBundle opens WITHOUT O_TRUNC, so a shorter rewrite keeps a stale
     tail).  The decoder is a parameter [dec]; the theorems assume
     dec (bytes b ++ tail) = if live b then Some b else None   ([live]: see [view] below).
   No proofs in this file. *)
From DTN Require Import Base.
Open Scope N_scope.

(* ---------- association lists (first match wins; set = delete all, then cons) ---------- *)
Section Assoc.
  Context {K V : Type} (eqb : K -> K -> bool).
  Fixpoint alookup (k : K) (l : list (K * V)) : option V :=
    match l with
    | [] => None
    | (k', v) :: l => if eqb k k' then Some v else alookup k l
    end.
  Fixpoint adel (k : K) (l : list (K * V)) : list (K * V) :=
    match l with
    | [] => []
    | (k', v) :: l => if eqb k k' then adel k l else (k', v) :: adel k l
    end.
  Definition aset (k : K) (v : V) (l : list (K * V)) : list (K * V) := (k, v) :: adel k l.
End Assoc.

(* ---------- bundles as the store sees them ---------- *)
Record sbundle := mkB {
  b_id : N;            (* the scrubbed sbundle ID (source node, creation timestamp, sequence no.) *)
  b_frag : bool;       (* primary block has the fragment flag *)
  b_off : N;           (* fragment offset (0 when not a fragment) *)
  b_total : N;         (* total application data length (0 when not a fragment) *)
  b_plen : N;          (* length of the payload carried by this sbundle *)
  b_exp : Z;           (* creation time + lifetime, unix ms (calcExpirationDate) *)
  b_bytes : list N     (* CBOR serialisation (WriteBundle) *)
}.

(* file name = sha256 (BundleID.String ()); the string contains offset and total only for fragments *)
Record fname := mkF { f_id : N; f_frag : bool; f_off : N; f_total : N }.
Definition fname_eqb (a b : fname) : bool :=
  (f_id a =? f_id b) && Bool.eqb (f_frag a) (f_frag b) && (f_off a =? f_off b) && (f_total a =? f_total b).
Definition bundle_name (b : sbundle) : fname :=
  if b_frag b then mkF (b_id b) true (b_off b) (b_total b) else mkF (b_id b) false 0 0.

(* ---------- concrete state ---------- *)
Record cpart := mkP { p_name : fname; p_off : N; p_total : N }.
Record crec := mkR { r_pending : bool; r_exp : Z; r_frag : bool; r_props : N; r_parts : list cpart }.
Record cstate := mkC { c_idx : list (N * crec); c_files : list (fname * list N) }.
Definition store_init : cstate := mkC [] [].

Definition ilookup {V} := @alookup N V N.eqb.
Definition idel {V} := @adel N V N.eqb.
Definition iset {V} := @aset N V N.eqb.
Definition flookup := @alookup fname (list N) fname_eqb.
Definition fdel := @adel fname (list N) fname_eqb.
Definition fset := @aset fname (list N) fname_eqb.

(* newBundleItem *)
Definition mk_part (b : sbundle) : cpart := mkP (bundle_name b) (b_off b) (b_total b).
Definition new_item (b : sbundle) : crec := mkR false (b_exp b) (b_frag b) 0 [mk_part b].

(* ---------- micro-steps ---------- *)
Inductive st_mstep :=
| MWrite (n : fname) (bs : list N)     (* storeBundle: OpenFile (O_WRONLY|O_CREATE), write - no truncation *)
| MRemove (n : fname)                  (* deleteBundle: os.Remove (a missing file is logged, not fatal) *)
| MInsert (k : N) (r : crec)           (* badgerhold Insert: ErrKeyExists when present *)
| MUpdate (k : N) (r : crec)           (* badgerhold Update: ErrNotFound when absent *)
| MDelete (k : N).                     (* badgerhold Delete *)

Definition write_over (old new : list N) : list N := new ++ skipn (length new) old.

Definition apply_step (c : cstate) (m : st_mstep) : cstate :=
  match m with
  | MWrite n bs =>
    let old := match flookup n (c_files c) with Some o => o | None => [] end in
    mkC (c_idx c) (fset n (write_over old bs) (c_files c))
  | MRemove n => mkC (c_idx c) (fdel n (c_files c))
  | MInsert k r => match ilookup k (c_idx c) with Some _ => c | None => mkC (iset k r (c_idx c)) (c_files c) end
  | MUpdate k r => match ilookup k (c_idx c) with Some _ => mkC (iset k r (c_idx c)) (c_files c) | None => c end
  | MDelete k => mkC (idel k (c_idx c)) (c_files c)
  end.
Definition apply_steps (c : cstate) (ms : list st_mstep) : cstate := fold_left apply_step ms c.

(* Store.Push after its QueryId returned q *)
Definition same_frag (b : sbundle) (p : cpart) : bool := (p_off p =? b_off b) && (p_total p =? b_total b).
Definition push_plan (q : option crec) (b : sbundle) : list st_mstep :=
  match q with
  | None => [MWrite (bundle_name b) (b_bytes b); MInsert (b_id b) (new_item b)]
  | Some r =>
    if b_frag b then
      if negb (r_frag r) then []                                   (* whole sbundle already stored *)
      else if existsb (same_frag b) (r_parts r) then []            (* fragment already stored *)
      else [MWrite (bundle_name b) (b_bytes b);
            MUpdate (b_id b) (mkR (r_pending r) (r_exp r) (r_frag r) (r_props r) (r_parts r ++ [mk_part b]))]
    else []                                                        (* ID known, push ignored *)
  end.

(* caller pattern of Store.Update (BundleDescriptor.Sync, routing algorithms): QueryId, change
   Pending / Properties / Expires, Update *)
Definition update_plan (q : option crec) (k : N) (pe : bool) (pr : N) (ex : Z) : list st_mstep :=
  match q with
  | None => []
  | Some r => [MUpdate k (mkR pe ex (r_frag r) pr (r_parts r))]
  end.

(* Store.Delete after its QueryId returned q *)
Definition delete_plan (q : option crec) (k : N) : list st_mstep :=
  match q with
  | None => []
  | Some r => map (fun p => MRemove (p_name p)) (r_parts r) ++ [MDelete k]
  end.

(* Store.DeleteExpired: Find (Expires < now), then Delete (which queries again) for each *)
Definition expired_keys {V} (ex : V -> Z) (l : list (N * V)) (now : Z) : list N :=
  map fst (filter (fun kv => Z.ltb (ex (snd kv)) now) l).
Fixpoint sweep_steps (c : cstate) (ks : list N) : list st_mstep :=
  match ks with
  | [] => []
  | k :: ks => let st := delete_plan (ilookup k (c_idx c)) k in st ++ sweep_steps (apply_steps c st) ks
  end.

(* ---------- operations and their results ---------- *)
Inductive op :=
| OPush (b : sbundle)
| OUpdate (k : N) (pending : bool) (props : N) (expires : Z)
| ODelete (k : N)
| OSweep (now : Z)
| OQueryId (k : N)
| OQueryPending
| OKnows (k : N)
| OComplete (k : N)
| OReopen.

Definition op_steps (c : cstate) (o : op) : list st_mstep :=
  match o with
  | OPush b => push_plan (ilookup (b_id b) (c_idx c)) b
  | OUpdate k pe pr ex => update_plan (ilookup k (c_idx c)) k pe pr ex
  | ODelete k => delete_plan (ilookup k (c_idx c)) k
  | OSweep now => sweep_steps c (expired_keys r_exp (c_idx c) now)
  | _ => []
  end.
(* close + reopen is the identity on index and files (the durability assumption) *)
Definition apply_op (c : cstate) (o : op) : cstate := apply_steps c (op_steps c o).

(* ---------- abstract records (what QueryId + Load show) ---------- *)
Record apart := mkAP { ap_off : N; ap_total : N; ap_data : option sbundle }.
Record arec := mkA { a_pending : bool; a_exp : Z; a_frag : bool; a_props : N; a_parts : list apart }.

Definition load (dec : list N -> option sbundle) (fs : list (fname * list N)) (n : fname) : option sbundle :=
  match flookup n fs with Some bs => dec bs | None => None end.
Definition abs_part dec fs (p : cpart) : apart := mkAP (p_off p) (p_total p) (load dec fs (p_name p)).
Definition abs_rec dec fs (r : crec) : arec :=
  mkA (r_pending r) (r_exp r) (r_frag r) (r_props r) (map (abs_part dec fs) (r_parts r)).
Definition abs dec (c : cstate) : list (N * arec) :=
  map (fun kr => (fst kr, abs_rec dec (c_files c) (snd kr))) (c_idx c).

(* ---------- IsComplete: bundleParts (load every part), bpv7.IsBundleReassemblable ---------- *)
Fixpoint all_data (ps : list apart) : option (list sbundle) :=
  match ps with
  | [] => Some []
  | p :: ps => match ap_data p, all_data ps with Some b, Some bs => Some (b :: bs) | _, _ => None end
  end.
(* sort.Slice by fragment offset (insertion sort for <= 12 elements: stable) *)
Fixpoint ins_by_off (b : sbundle) (l : list sbundle) : list sbundle :=
  match l with
  | [] => [b]
  | x :: l' => if b_off b <=? b_off x then b :: l else x :: ins_by_off b l'
  end.
Definition sort_by_off (l : list sbundle) : list sbundle := fold_right ins_by_off [] l.
(* prepareReassembly's gap scan with the running maximum (the repaired code) *)
Fixpoint scan_parts (hi : N) (l : list sbundle) : option N :=
  match l with
  | [] => Some hi
  | b :: l =>
    if negb (b_frag b) then None
    else if hi <? b_off b then None
    else scan_parts (N.max hi (b_off b + b_plen b)) l
  end.
(* the scan as it was before the repair: lastIndex = fragOff + len *)
Fixpoint scan_parts_orig (hi : N) (l : list sbundle) : option N :=
  match l with
  | [] => Some hi
  | b :: l =>
    if negb (b_frag b) then None
    else if hi <? b_off b then None
    else scan_parts_orig (b_off b + b_plen b) l
  end.
Definition reassemblable_with (scan : N -> list sbundle -> option N) (bs : list sbundle) : bool :=
  match sort_by_off bs with
  | [] => false
  | f :: _ => match scan 0 (sort_by_off bs) with Some hi => b_total f =? hi | None => false end
  end.
Definition reassemblable := reassemblable_with scan_parts.
Definition reassemblable_orig := reassemblable_with scan_parts_orig.
Definition arec_complete (r : arec) : bool :=
  if negb (a_frag r) then true
  else match all_data (a_parts r) with Some bs => reassemblable bs | None => false end.

(* ---------- results ---------- *)
Inductive result :=
| RUnit (ok : bool)
| RRec (r : option arec)
| RRecs (l : list (N * arec))
| RBool (b : bool)
| ROptBool (o : option bool).

Definition spec_result (a : list (N * arec)) (o : op) : result :=
  match o with
  | OPush _ => RUnit true
  | OUpdate k _ _ _ => RUnit (match ilookup k a with Some _ => true | None => false end)
  | ODelete _ => RUnit true
  | OSweep _ => RUnit true
  | OQueryId k => RRec (ilookup k a)
  | OQueryPending => RRecs (filter (fun kr => a_pending (snd kr)) a)
  | OKnows k => RBool (match ilookup k a with Some _ => true | None => false end)
  | OComplete k => ROptBool (option_map arec_complete (ilookup k a))
  | OReopen => RUnit true
  end.
(* what the implementation answers in state c: everything observable goes through abs *)
Definition op_result dec (c : cstate) (o : op) : result := spec_result (abs dec c) o.

Fixpoint run dec (c : cstate) (ops : list op) : cstate * list result :=
  match ops with
  | [] => (c, [])
  | o :: ops => let r := op_result dec c o in
                let (c', rs) := run dec (apply_op c o) ops in (c', r :: rs)
  end.

(* ---------- the reference map (abstract specification) ---------- *)
(* [live b]: the sbundle's own lifetime is not exceeded at the time of observation.  ParseBundle ends
   with CheckValid, which refuses a sbundle whose lifetime is exceeded, so BundlePart.Load of such a
   part is an error value.  The state never depends on it - only what a reader sees. *)
Definition view (live : sbundle -> bool) (b : sbundle) : option sbundle := if live b then Some b else None.
Definition new_arec live (b : sbundle) : arec := mkA false (b_exp b) (b_frag b) 0 [mkAP (b_off b) (b_total b) (view live b)].
Definition same_afrag (b : sbundle) (p : apart) : bool := (ap_off p =? b_off b) && (ap_total p =? b_total b).
Definition spec_apply live (a : list (N * arec)) (o : op) : list (N * arec) :=
  match o with
  | OPush b =>
    match ilookup (b_id b) a with
    | None => iset (b_id b) (new_arec live b) a
    | Some r =>
      if b_frag b then
        if negb (a_frag r) then a
        else if existsb (same_afrag b) (a_parts r) then a
        else iset (b_id b) (mkA (a_pending r) (a_exp r) (a_frag r) (a_props r)
                               (a_parts r ++ [mkAP (b_off b) (b_total b) (view live b)])) a
      else a
    end
  | OUpdate k pe pr ex =>
    match ilookup k a with
    | None => a
    | Some r => iset k (mkA pe ex (a_frag r) pr (a_parts r)) a
    end
  | ODelete k => idel k a
  | OSweep now => fold_left (fun a k => idel k a) (expired_keys a_exp a now) a
  | _ => a
  end.
Fixpoint spec_run live (a : list (N * arec)) (ops : list op) : list (N * arec) * list result :=
  match ops with
  | [] => (a, [])
  | o :: ops => let r := spec_result a o in
                let (a', rs) := spec_run live (spec_apply live a o) ops in (a', r :: rs)
  end.

(* ---------- crash: the process is killed after the first n micro-steps, then reopened ---------- *)
Definition crash_state (c : cstate) (o : op) (n : nat) : cstate := apply_steps c (firstn n (op_steps c o)).

(* ---------- restart entry points, with the panic made explicit ---------- *)
Inductive bres := BOk (b : sbundle) | BErr | BPanic.
(* BundleDescriptor.Bundle(): QueryId, bi.Parts[0].Load();  Parts[0] of an empty slice panics,
   a missing / unparsable file is an error value *)
Definition descriptor_bundle dec (c : cstate) (k : N) : bres :=
  match ilookup k (c_idx c) with
  | None => BErr
  | Some r =>
    match r_parts r with
    | [] => BPanic
    | p :: _ => match load dec (c_files c) (p_name p) with Some b => BOk b | None => BErr end
    end
  end.
Inductive outcome := Finished | Panicked.
(* Core.dispatching: DispatchingAllowed never touches the sbundle; bp.Bundle() error => Warn, return;
   on success the sbundle is cached in the descriptor, so every later MustBundle() succeeds.
   BundleDescriptor.MustBundle() = Bundle() with the error turned into a panic. *)
Definition dispatch_outcome dec c k : outcome :=
  match descriptor_bundle dec c k with BPanic => Panicked | _ => Finished end.
Definition must_bundle_outcome dec c k : outcome :=
  match descriptor_bundle dec c k with BOk _ => Finished | _ => Panicked end.
(* Core.checkPendingBundles: QueryPending, dispatching each *)
Definition check_pending_outcome dec (c : cstate) : outcome :=
  if forallb (fun kr => match dispatch_outcome dec c (fst kr) with Finished => true | Panicked => false end)
             (filter (fun kr => r_pending (snd kr)) (c_idx c))
  then Finished else Panicked.

(* ---------- two concurrent Push calls ---------- *)
Inductive tstate := TInit | TRun (ms : list st_mstep) | TDone.
Record conf := mkConf { cf_st : cstate; cf_a : tstate; cf_b : tstate }.
Definition is_run (t : tstate) : bool := match t with TRun _ => true | _ => false end.
(* one step of a thread pushing b; [locked]: Push holds the store mutex from its QueryId to its
   last write (the repaired code), so a thread cannot start while the other one is inside *)
Definition thread_step (locked : bool) (b : sbundle) (me other : tstate) (c : cstate) : tstate * cstate :=
  match me with
  | TInit => if locked && is_run other then (TInit, c)
             else (TRun (push_plan (ilookup (b_id b) (c_idx c)) b), c)
  | TRun [] => (TDone, c)
  | TRun (m :: ms) => (TRun ms, apply_step c m)
  | TDone => (TDone, c)
  end.
(* schedule: true = thread a moves, false = thread b moves *)
Definition conf_step (locked : bool) (ba bb : sbundle) (cf : conf) (who : bool) : conf :=
  if who then let (t, c) := thread_step locked ba (cf_a cf) (cf_b cf) (cf_st cf) in mkConf c t (cf_b cf)
  else let (t, c) := thread_step locked bb (cf_b cf) (cf_a cf) (cf_st cf) in mkConf c (cf_a cf) t.
Definition run_sched (locked : bool) (ba bb : sbundle) (cf : conf) (sched : list bool) : conf :=
  fold_left (conf_step locked ba bb) sched cf.

(* does record k hold a part (off, total)? *)
Definition has_part (c : cstate) (b : sbundle) : bool :=
  match ilookup (b_id b) (c_idx c) with
  | Some r => existsb (same_frag b) (r_parts r)
  | None => false
  end.
