(* SpecClaMgr.v - the constants / literal shapes of pkg/cla (manager.go, manager_elem.go) the
   model Model/ClaMgr.v is written against.  Proofs/ConstsOkClaMgr.v ties them to gen/Consts.v. *)
From Coq Require Import ZArith List.
Import ListNotations.
Open Scope Z_scope.

(* NewManager: queueTtl: 10, retryTime: 10 * time.Second, inChnl buffer 100 *)
Definition cm_spec_queue_ttl : Z := 10.
Definition cm_spec_retry_seconds : Z := 10.
Definition cm_spec_in_chnl_cap : Z := 100.

(* go/token codes as emitted by tools/goconsts (unary = 1000 + code) *)
Definition tk_land : Z := 34.   (* && *)
Definition tk_eql : Z := 39.    (* == *)
Definition tk_lss : Z := 40.    (* <  *)
Definition tk_gtr : Z := 41.    (* >  *)
Definition tk_neq : Z := 44.    (* != *)
Definition tk_mul : Z := 14.    (* *  *)
Definition tk_not : Z := 1043.  (* !x *)
Definition tk_addr : Z := 1017. (* &x *)
Definition tk_neg : Z := 1013.  (* -x *)
Definition tk_recv : Z := 1036. (* <-ch *)

(* isActive: atomic.LoadInt32(&ce.ttl) < 0 *)
Definition cm_spec_isActive_lits : list Z := [0].
Definition cm_spec_isActive_ops : list Z := [tk_lss; tk_addr].

(* activate (repaired):  ttl == 0 && !permanent ; claErr == nil ; Store(-1) ;
   if claRetry { if ttl > 0 { Add(-1) } } else { Store(0) } *)
Definition cm_spec_activate_lits : list Z := [0; 1; 0; 1; 0].
Definition cm_spec_activate_ops : list Z :=
  [tk_land; tk_eql; tk_addr; tk_not; tk_eql; tk_addr; tk_neg; tk_addr; tk_gtr; tk_addr; tk_addr; tk_neg; tk_addr].

(* deactivate: !isActive ; (under the mutex, fix 047ccad) !isActive ; <-stopAck ; Store(&ttl, ttl) *)
Definition cm_spec_deactivate_ops : list Z := [tk_not; tk_not; tk_recv; tk_addr].

(* Manager.handler: three receives (stopSyn, inChnl, ticker), !successful && !retry *)
Definition cm_spec_handler_ops : list Z := [tk_recv; tk_recv; tk_recv; tk_land; tk_not; tk_not].
(* registerConvergence: GetEndpointID() == GetPeerEndpointID() ; !successful && !retry *)
Definition cm_spec_register_ops : list Z := [tk_eql; tk_land; tk_not; tk_not].
(* unregisterConvergence: !exists ; element.conv != conv *)
Definition cm_spec_unregister_ops : list Z := [tk_not; tk_neq].
(* convergenceElem.handler: <-stopSyn ; err != nil ; <-conv.Channel() *)
Definition cm_spec_elem_handler_ops : list Z := [tk_recv; tk_neq; tk_recv].
