(* PRoPHET routing (pkg/routing/algorithm_prophet.go), executable model over Flocq binary64.
   Definitions only.  Floating-point values are IEEE-754 binary64 (Flocq [binary64]); all
   arithmetic is round-to-nearest-even in the evaluation order of the Go expressions (amd64, no FMA
   contraction).  Node identifiers are abstract numbers (the harness numbers the endpoint IDs). *)
From Coq Require Import ZArith NArith List Bool.
From Flocq Require Import IEEE754.BinarySingleNaN IEEE754.Binary IEEE754.Bits.
From DTN Require Import Base.
Import ListNotations.

Definition f64 := binary64.

Definition pf_add : f64 -> f64 -> f64 := b64_plus mode_NE.
Definition pf_sub : f64 -> f64 -> f64 := b64_minus mode_NE.
Definition pf_mul : f64 -> f64 -> f64 := b64_mult mode_NE.
Definition pf_zero : f64 := B754_zero 53 1024 false.
Definition pf_one : f64 := Bone 53 1024 eq_refl eq_refl.
(* Go's [a > b] on float64: false when unordered *)
Definition pf_gt (a b : f64) : bool :=
  match b64_compare a b with Some Gt => true | _ => false end.
Definition pf_le (a b : f64) : bool :=
  match b64_compare a b with Some Lt | Some Eq => true | _ => false end.
Definition pf_of_bits (n : N) : f64 := b64_of_bits (Z.of_N n).
Definition pf_bits (x : f64) : N := Z.to_N (bits_of_b64 x).
Definition pf_in01 (x : f64) : bool := pf_le pf_zero x && pf_le x pf_one.

(* ---- maps: map[EndpointID]float64 as association lists; a missing key reads as 0 ---- *)
Definition pmap := list (N * f64).

Fixpoint pm_get (m : pmap) (k : N) : f64 :=
  match m with
  | [] => pf_zero
  | (k', v) :: r => if N.eqb k k' then v else pm_get r k
  end.

Fixpoint pm_set (m : pmap) (k : N) (v : f64) : pmap :=
  match m with
  | [] => [(k, v)]
  | (k', v') :: r => if N.eqb k k' then (k', v) :: r else (k', v') :: pm_set r k v
  end.

Fixpoint pm_find {A} (m : list (N * A)) (k : N) : option A :=
  match m with
  | [] => None
  | (k', v) :: r => if N.eqb k k' then Some v else pm_find r k
  end.

Fixpoint pm_put {A} (m : list (N * A)) (k : N) (v : A) : list (N * A) :=
  match m with
  | [] => [(k, v)]
  | (k', v') :: r => if N.eqb k k' then (k', v) :: r else (k', v') :: pm_put r k v
  end.

Record pconf := { pc_pinit : f64; pc_beta : f64; pc_gamma : f64 }.

(* predictabilities, peerPredictabilities *)
Record pstate := { ps_own : pmap; ps_peers : list (N * pmap) }.

Definition prophet_init : pstate := {| ps_own := []; ps_peers := [] |}.

(* encounter:  pNew := pOld + ((1 - pOld) * PInit) *)
Definition encounter_val (c : pconf) (p : f64) : f64 :=
  pf_add p (pf_mul (pf_sub pf_one p) (pc_pinit c)).

(* agePred:  pNew := pOld * Gamma *)
Definition age_val (c : pconf) (p : f64) : f64 := pf_mul p (pc_gamma c).

(* transitivity:  pNew := pOld + ((1 - pOld) * peerPred * otherPeerPred * Beta)   (left-assoc) *)
Definition trans_val (c : pconf) (pold peerpred other : f64) : f64 :=
  pf_add pold (pf_mul (pf_mul (pf_mul (pf_sub pf_one pold) peerpred) other) (pc_beta c)).

Definition prophet_encounter (c : pconf) (s : pstate) (peer : N) : pstate :=
  {| ps_own := pm_set (ps_own s) peer (encounter_val c (pm_get (ps_own s) peer));
     ps_peers := ps_peers s |}.

(* ageCron: every stored key is aged once; the iteration order is irrelevant (each key is read
   and written independently) *)
Definition prophet_age (c : pconf) (s : pstate) : pstate :=
  {| ps_own := map (fun kv => (fst kv, age_val c (snd kv))) (ps_own s);
     ps_peers := ps_peers s |}.

(* transitivity(peer): [vec] is the peer's vector *in the order Go's range visits it* (oracle);
   predictabilities[peer] is re-read in every iteration, exactly like the code *)
Definition trans_step (c : pconf) (peer : N) (own : pmap) (e : N * f64) : pmap :=
  pm_set own (fst e) (trans_val c (pm_get own (fst e)) (pm_get own peer) (snd e)).

Definition prophet_transitivity (c : pconf) (own : pmap) (peer : N) (vec : pmap) : pmap :=
  fold_left (trans_step c peer) vec own.

(* NotifyNewBundle with a metadata block addressed to this node *)
Definition prophet_import (c : pconf) (s : pstate) (peer : N) (vec : pmap) : pstate :=
  {| ps_own := prophet_transitivity c (ps_own s) peer vec;
     ps_peers := pm_put (ps_peers s) peer vec |}.

Inductive pevent :=
  | PEncounter (peer : N)
  | PAge
  | PImport (peer : N) (vec : pmap).

Definition prophet_step (c : pconf) (s : pstate) (e : pevent) : pstate :=
  match e with
  | PEncounter p => prophet_encounter c s p
  | PAge => prophet_age c s
  | PImport p v => prophet_import c s p v
  end.

Definition prophet_run (c : pconf) (s : pstate) (es : list pevent) : pstate :=
  fold_left (prophet_step c) es s.

(* ---- forwarding ---- *)
(* peerPredictabilities[peerID][destination]: both missing levels read as 0 *)
Definition peer_pred (s : pstate) (peer dest : N) : f64 :=
  match pm_find (ps_peers s) peer with
  | Some v => pm_get v dest
  | None => pf_zero
  end.

Fixpoint nmem (x : N) (l : list N) : bool :=
  match l with [] => false | y :: r => N.eqb x y || nmem x r end.

(* SenderForBundle for a data bundle: [css] are the peers of the registered senders in the order
   of claManager.Sender(), [sent] the stored "routing/prophet/sent" list.  Result: chosen peers
   and the new sent list. *)
Fixpoint prophet_senders (s : pstate) (dest : N) (sent : list N) (css : list N) : list N * list N :=
  match css with
  | [] => ([], sent)
  | p :: r =>
    if pf_gt (peer_pred s p dest) (pm_get (ps_own s) dest) && negb (nmem p sent)
    then let (ch, st) := prophet_senders s dest (sent ++ [p]) r in (p :: ch, st)
    else prophet_senders s dest sent r
  end.

(* Core.forward: direct delivery when a sender for the destination node exists, otherwise the
   algorithm is consulted *)
Definition prophet_offer (s : pstate) (dest : N) (sent : list N) (css : list N) : list N :=
  match filter (N.eqb dest) css with
  | [] => fst (prophet_senders s dest sent css)
  | d => d
  end.

(* ---- sharing of the predictabilities map with metadata blocks in flight ----
   Interleaving model of the goroutines that touch Go maps.  Map objects: [OOwn] stands for the
   node's own [predictabilities] map, [OPeers] for the outer [peerPredictabilities] map (both
   guarded by dataMutex) and [OCopy t] for the private copy made for the metadata block of
   thread t.  (The vector of a received block is stored as it is and only ever read afterwards;
   it is not an object here.)  A thread is a list of atomic actions; a Go map faults ("concurrent map
   iteration and map write" / "concurrent map read and map write") when a write to an object
   happens while another thread is inside a read span (iteration or lookup) of the same object. *)
Inductive mobj := OOwn | OPeers | OCopy (t : nat).

(* the objects several goroutines can reach (a copy belongs to one thread) *)
Definition mshared (o : mobj) : bool := match o with OCopy _ => false | _ => true end.
Inductive mact :=
  | ALock | AUnlock | ARLock | ARUnlock
  | ABegin (o : mobj)     (* start of a read span: range loop / lookup *)
  | ANext (o : mobj)      (* one iteration step *)
  | AEnd (o : mobj)
  | AWrite (o : mobj).

Inductive mop :=
  | OpAge (nkeys : nat)            (* ageCron: Lock; write every key; Unlock *)
  | OpPeerAppeared (nkeys : nat)   (* ReportPeerAppeared: Lock; encounter; Unlock; sendMetadata *)
  | OpImport (nkeys : nat)         (* NotifyNewBundle(metadata): Lock; look-up and store of the peer's vector;
                                      transitivity: look-up of the vector, writes; Unlock *)
  | OpSenderFor.                   (* SenderForBundle: lookups in predictabilities and peerPredictabilities *)

Definition mobj_eqb (a b : mobj) : bool :=
  match a, b with OOwn, OOwn => true | OPeers, OPeers => true | OCopy x, OCopy y => Nat.eqb x y | _, _ => false end.

(* [fixed = true]: the repaired code (block holds a copy made under the read lock; SenderForBundle
   takes the read lock).  [fixed = false]: the code as found (block aliases the live map, marshalled
   after RUnlock; SenderForBundle reads without the lock). *)
Definition send_metadata_prog (fixed : bool) (t n : nat) : list mact :=
  if fixed
  then [ARLock; ABegin OOwn] ++ repeat (ANext OOwn) n ++ [AEnd OOwn; ARUnlock]   (* copy under RLock *)
       ++ [ABegin (OCopy t)] ++ repeat (ANext (OCopy t)) n ++ [AEnd (OCopy t)]   (* marshal the copy *)
  else [ARLock; ARUnlock]
       ++ [ABegin OOwn] ++ repeat (ANext OOwn) n ++ [AEnd OOwn].                 (* marshal the live map *)

Definition mop_prog (fixed : bool) (t : nat) (op : mop) : list mact :=
  match op with
  | OpAge n => [ALock; ABegin OOwn] ++ repeat (AWrite OOwn) n ++ [AEnd OOwn; AUnlock]
  | OpPeerAppeared n => [ALock; AWrite OOwn; AUnlock] ++ send_metadata_prog fixed t n
  | OpImport n => [ALock; ABegin OPeers; AEnd OPeers; AWrite OPeers; ABegin OPeers; AEnd OPeers]
                  ++ repeat (AWrite OOwn) n ++ [AUnlock]
  | OpSenderFor => if fixed then [ARLock; ABegin OOwn; AEnd OOwn; ABegin OPeers; AEnd OPeers; ARUnlock]
                   else [ABegin OOwn; AEnd OOwn; ABegin OPeers; AEnd OPeers]
  end.

Inductive mheld := HNone | HRead | HWrite.

Record mthread := { mt_prog : list mact; mt_held : mheld; mt_span : option mobj }.

Definition mheld_is (h : mheld) (t : mthread) : bool :=
  match h, mt_held t with HNone, HNone | HRead, HRead | HWrite, HWrite => true | _, _ => false end.

Definition span_on (o : mobj) (t : mthread) : bool :=
  match mt_span t with Some o' => mobj_eqb o o' | None => false end.

Fixpoint others {A} (i : nat) (l : list A) : list A :=
  match l, i with
  | [], _ => []
  | _ :: r, O => r
  | x :: r, S j => x :: others j r
  end.

Fixpoint upd {A} (i : nat) (x : A) (l : list A) : list A :=
  match l, i with
  | [], _ => []
  | _ :: r, O => x :: r
  | y :: r, S j => y :: upd j x r
  end.

Inductive mres := MStuck | MFault | MOk (ts : list mthread).

(* thread [i] performs its next action.  Lock acquisition blocks (MStuck = not enabled, the
   schedule entry is skipped); a write while another thread is inside a read span of the same
   object is the Go runtime's fatal error. *)
Definition mstep (ts : list mthread) (i : nat) : mres :=
  match nth_error ts i with
  | None => MStuck
  | Some t =>
    match mt_prog t with
    | [] => MStuck
    | a :: rest =>
      let oth := others i ts in
      let fin h sp := MOk (upd i {| mt_prog := rest; mt_held := h; mt_span := sp |} ts) in
      match a with
      | ALock => if forallb (mheld_is HNone) oth then fin HWrite (mt_span t) else MStuck
      | ARLock => if forallb (fun u => negb (mheld_is HWrite u)) oth then fin HRead (mt_span t) else MStuck
      | AUnlock | ARUnlock => fin HNone (mt_span t)
      | ABegin o => fin (mt_held t) (Some o)
      | ANext o => fin (mt_held t) (mt_span t)
      | AEnd o => fin (mt_held t) None
      | AWrite o => if existsb (span_on o) oth then MFault else fin (mt_held t) (mt_span t)
      end
    end
  end.

(* run a schedule (list of thread indices); true = a fault occurred *)
Fixpoint mrun (ts : list mthread) (sched : list nat) : bool :=
  match sched with
  | [] => false
  | i :: r =>
    match mstep ts i with
    | MFault => true
    | MStuck => mrun ts r
    | MOk ts' => mrun ts' r
    end
  end.

Fixpoint mthreads_from (fixed : bool) (t : nat) (ops : list mop) : list mthread :=
  match ops with
  | [] => []
  | op :: r => {| mt_prog := mop_prog fixed t op; mt_held := HNone; mt_span := None |}
               :: mthreads_from fixed (S t) r
  end.

Definition mthreads (fixed : bool) (ops : list mop) : list mthread := mthreads_from fixed 0 ops.

(* like [mrun] but returns the final thread states ([None] = fault) *)
Fixpoint mexec (ts : list mthread) (sched : list nat) : option (list mthread) :=
  match sched with
  | [] => Some ts
  | i :: r =>
    match mstep ts i with
    | MFault => None
    | MStuck => mexec ts r
    | MOk ts' => mexec ts' r
    end
  end.

Definition mall_done (ts : list mthread) : bool :=
  forallb (fun t => match mt_prog t with [] => true | _ => false end) ts.
