(* ClaMgr.v - executable model of pkg/cla Manager / convergenceElem (manager.go, manager_elem.go)
   as repaired by the `fix:` commit "cla: a failing start must not make an element active"
   (activate() no longer decrements the ttl below 0).  Definitions only; proofs in
   Proofs/ClaMgrProofs.v.

   An adapter (Convergence instance) is identified by its index in [cfg_ads].  The registry maps
   an address to an element { instance, ttl, stop channel }.  ttl < 0 = active (isActive()).
   The stop channel is CNil until the first successful start, COpen while the element's handler
   goroutine runs, CClosed after deactivate(); closing a CNil / CClosed channel is a Go panic and
   is the explicit error state [st_panic].

   Everything the environment decides - the result of each Start() call - enters through the
   per-step oracle: a list of outcomes indexed by adapter (each step calls Start at most once per
   adapter). *)
From DTN Require Import Base.
Open Scope Z_scope.

Inductive cm_outcome := SOk | SFailRetry | SFailNo.
Inductive cm_role := RSender | RReceiver | RBoth.

Record cm_adapter := mkAd {
  ad_addr : N;        (* Address() *)
  ad_perm : bool;     (* IsPermanent() *)
  ad_role : cm_role;  (* which of ConvergenceSender / ConvergenceReceiver it implements *)
  ad_eid : N;         (* GetEndpointID() of a receiver *)
  ad_peer : N         (* GetPeerEndpointID() of a sender *)
}.

Record cm_cfg := mkCfg {
  cfg_ttl : Z;                  (* Manager.queueTtl *)
  cfg_ads : list cm_adapter
}.

Inductive cm_chan := CNil | COpen | CClosed.

Record cm_elem := mkElem { e_inst : nat; e_ttl : Z; e_chan : cm_chan }.

Inductive cm_call := CStart (id : nat) (o : cm_outcome) | CClose (id : nat).

Inductive cm_event :=
| ERegister (id : nat) | EUnregister (id : nat) | ERestart (id : nat)
| ETick | EPeerGone (id : nat) | EClose.

Definition cm_reg := list (N * cm_elem).

Record cm_state := mkSt {
  st_reg : cm_reg;          (* Manager.convs *)
  st_closed : bool;         (* stopFlag / handler goroutine gone *)
  st_panic : bool;          (* a Go panic happened (close of nil / closed channel) *)
  st_log : list cm_call     (* every Start / Close call made on the adapters, oldest first *)
}.

Definition cm_init : cm_state := mkSt [] false false [].

Definition cm_default_ad : cm_adapter := mkAd 0%N false RSender 0%N 0%N.
Definition cm_ad (cfg : cm_cfg) (id : nat) : cm_adapter := nth id (cfg_ads cfg) cm_default_ad.

Definition cm_is_sender (a : cm_adapter) : bool :=
  match ad_role a with RSender | RBoth => true | RReceiver => false end.
Definition cm_is_receiver (a : cm_adapter) : bool :=
  match ad_role a with RReceiver | RBoth => true | RSender => false end.

Definition cm_orc (o : list cm_outcome) (id : nat) : cm_outcome := nth id o SOk.

(* ---- registry (sync.Map keyed by address) ---- *)
Fixpoint reg_get (k : N) (r : cm_reg) : option cm_elem :=
  match r with
  | [] => None
  | (k', e) :: r => if N.eqb k k' then Some e else reg_get k r
  end.
Fixpoint reg_set (k : N) (e : cm_elem) (r : cm_reg) : cm_reg :=
  match r with
  | [] => [(k, e)]
  | (k', e') :: r => if N.eqb k k' then (k, e) :: r else (k', e') :: reg_set k e r
  end.
Fixpoint reg_del (k : N) (r : cm_reg) : cm_reg :=
  match r with
  | [] => []
  | (k', e') :: r => if N.eqb k k' then r else (k', e') :: reg_del k r
  end.

(* isActive() *)
Definition cm_active (e : cm_elem) : bool := e_ttl e <? 0.

(* convergenceElem.activate(): new element, (successful, retry), calls made *)
Definition cm_activate (perm : bool) (o : cm_outcome) (e : cm_elem)
  : cm_elem * (bool * bool) * list cm_call :=
  if cm_active e then (e, (false, false), [])
  else if (e_ttl e =? 0) && negb perm then (e, (false, false), [])       (* "TTL expired" *)
  else match o with
       | SOk => (mkElem (e_inst e) (-1) COpen, (true, false), [CStart (e_inst e) SOk])
       | SFailRetry =>
         (mkElem (e_inst e) (if 0 <? e_ttl e then e_ttl e - 1 else e_ttl e) (e_chan e),
          (false, true), [CStart (e_inst e) SFailRetry])
       | SFailNo => (mkElem (e_inst e) 0 (e_chan e), (false, false), [CStart (e_inst e) SFailNo])
       end.

(* convergenceElem.deactivate(ttl): None = panic (close of a nil or closed channel) *)
Definition cm_deactivate (qttl : Z) (e : cm_elem) : option (cm_elem * list cm_call) :=
  if cm_active e then
    match e_chan e with
    | COpen => Some (mkElem (e_inst e) qttl CClosed, [CClose (e_inst e)])
    | _ => None
    end
  else Some (e, []).

(* is an active receiver with endpoint id [peer] registered? (loop over manager.Receiver()) *)
Definition cm_recv_conflict (cfg : cm_cfg) (r : cm_reg) (peer : N) : bool :=
  existsb (fun ke => cm_active (snd ke) && cm_is_receiver (cm_ad cfg (e_inst (snd ke)))
                     && N.eqb (ad_eid (cm_ad cfg (e_inst (snd ke)))) peer) r.

(* Manager.registerConvergence *)
Definition cm_register (cfg : cm_cfg) (o : list cm_outcome) (r : cm_reg) (id : nat)
  : cm_reg * list cm_call :=
  match nth_error (cfg_ads cfg) id with
  | None => (r, [])
  | Some a =>
    let go (e : cm_elem) (existing : bool) :=
        let ea := cm_ad cfg (e_inst e) in
        if cm_is_sender ea && cm_recv_conflict cfg r (ad_peer ea) then (r, [])
        else
          let '(e', (succ, retry), calls) := cm_activate (ad_perm ea) (cm_orc o (e_inst e)) e in
          (* an existing element is a pointer: its ttl mutation persists even without Store *)
          if existing || succ || retry then (reg_set (ad_addr a) e' r, calls) else (r, calls) in
    match reg_get (ad_addr a) r with
    | Some e => if cm_active e then (r, []) else go e true
    | None => go (mkElem id (cfg_ttl cfg) CNil) false
    end
  end.

(* Manager.unregisterConvergence: None = panic *)
Definition cm_unregister (cfg : cm_cfg) (r : cm_reg) (id : nat) : option (cm_reg * list cm_call) :=
  match nth_error (cfg_ads cfg) id with
  | None => Some (r, [])
  | Some a =>
    match reg_get (ad_addr a) r with
    | None => Some (r, [])
    | Some e =>
      if Nat.eqb (e_inst e) id then
        match cm_deactivate (cfg_ttl cfg) e with
        | None => None
        | Some (_, calls) => Some (reg_del (ad_addr a) r, calls)
        end
      else Some (r, [])      (* "different instance" *)
    end
  end.

(* the ticker branch of Manager.handler: one retry pass over the registry *)
Fixpoint cm_tick_pass (cfg : cm_cfg) (o : list cm_outcome) (r : cm_reg) : cm_reg * list cm_call :=
  match r with
  | [] => ([], [])
  | (k, e) :: r =>
    let (r', cs) := cm_tick_pass cfg o r in
    if cm_active e then ((k, e) :: r', cs)
    else
      let '(e', (succ, retry), c) :=
          cm_activate (ad_perm (cm_ad cfg (e_inst e))) (cm_orc o (e_inst e)) e in
      if negb succ && negb retry then (r', c ++ cs) else ((k, e') :: r', c ++ cs)
  end.

(* the stopSyn branch of Manager.handler: Unregister every element; None = panic *)
Fixpoint cm_close_all (qttl : Z) (r : cm_reg) : option (list cm_call) :=
  match r with
  | [] => Some []
  | (_, e) :: r =>
    match cm_deactivate qttl e with
    | None => None
    | Some (_, c) => match cm_close_all qttl r with None => None | Some cs => Some (c ++ cs) end
    end
  end.

(* is the element handler goroutine of instance [id] running (it forwards the adapter's status
   messages to the Manager)? *)
Definition cm_handler_running (r : cm_reg) (id : nat) : bool :=
  existsb (fun ke => Nat.eqb (e_inst (snd ke)) id &&
                     match e_chan (snd ke) with COpen => true | _ => false end) r.

Definition cm_upd (st : cm_state) (r : cm_reg) (cs : list cm_call) : cm_state :=
  mkSt r (st_closed st) (st_panic st) (st_log st ++ cs).
Definition cm_set_panic (st : cm_state) : cm_state :=
  mkSt (st_reg st) (st_closed st) true (st_log st).

(* Manager.Restart = Unregister; Register (Register is a no-op once stopFlag is set) *)
Definition cm_restart (cfg : cm_cfg) (o : list cm_outcome) (st : cm_state) (id : nat) : cm_state :=
  match cm_unregister cfg (st_reg st) id with
  | None => cm_set_panic st
  | Some (r1, c1) =>
    if st_closed st then cm_upd st r1 c1
    else let (r2, c2) := cm_register cfg o r1 id in cm_upd st r2 (c1 ++ c2)
  end.

Definition cm_step (cfg : cm_cfg) (st : cm_state) (ev : cm_event) (o : list cm_outcome) : cm_state :=
  if st_panic st then st else
  match ev with
  | ERegister id =>
    if st_closed st then st
    else let (r, c) := cm_register cfg o (st_reg st) id in cm_upd st r c
  | EUnregister id =>
    match cm_unregister cfg (st_reg st) id with
    | None => cm_set_panic st
    | Some (r, c) => cm_upd st r c
    end
  | ERestart id => cm_restart cfg o st id
  | ETick =>
    if st_closed st then st
    else let (r, c) := cm_tick_pass cfg o (st_reg st) in cm_upd st r c
  | EPeerGone id =>
    (* only a running element handler forwards the message; the Manager then restarts the CLA *)
    if st_closed st then st
    else if cm_handler_running (st_reg st) id then cm_restart cfg o st id else st
  | EClose =>
    if st_closed st then cm_set_panic st        (* close(manager.stopSyn) of a closed channel *)
    else match cm_close_all (cfg_ttl cfg) (st_reg st) with
         | None => cm_set_panic st
         | Some cs => mkSt [] true (st_panic st) (st_log st ++ cs)
         end
  end.

Definition cm_run_from (cfg : cm_cfg) (st : cm_state) (tr : list (cm_event * list cm_outcome)) : cm_state :=
  fold_left (fun st eo => cm_step cfg st (fst eo) (snd eo)) tr st.
Definition cm_run (cfg : cm_cfg) (tr : list (cm_event * list cm_outcome)) : cm_state :=
  cm_run_from cfg cm_init tr.

(* ---- Manager.Close() while PeerDisappeared messages are still queued in the handler ----
   Close() sets stopFlag and closes stopSyn; the handler goroutine's select may still take queued
   messages from inChnl before it takes the stopSyn branch.  A PeerDisappeared message taken
   before the flag was set is a full Restart ([pre], with the oracle of its Start call); one taken
   after the flag was set is a Restart whose Register returns at once, i.e. an Unregister ([post]);
   whatever is still queued when the stopSyn branch runs is dropped.  Every schedule of the handler
   is one such trace. *)
Definition cm_conc_trace (pre : list (nat * list cm_outcome)) (post : list nat)
  : list (cm_event * list cm_outcome) :=
  map (fun p => (ERestart (fst p), snd p)) pre
  ++ map (fun id => (EUnregister id, @nil cm_outcome)) post
  ++ [(EClose, [])].
Definition cm_conc_close (cfg : cm_cfg) (st : cm_state) (pre : list (nat * list cm_outcome)) (post : list nat)
  : cm_state := cm_run_from cfg st (cm_conc_trace pre post).

(* ---- observables ---- *)
(* Manager.Sender() / Receiver(): instances of the active elements with that role *)
Definition cm_senders (cfg : cm_cfg) (st : cm_state) : list nat :=
  map (fun ke => e_inst (snd ke))
      (filter (fun ke => cm_active (snd ke) && cm_is_sender (cm_ad cfg (e_inst (snd ke)))) (st_reg st)).
Definition cm_receivers (cfg : cm_cfg) (st : cm_state) : list nat :=
  map (fun ke => e_inst (snd ke))
      (filter (fun ke => cm_active (snd ke) && cm_is_receiver (cm_ad cfg (e_inst (snd ke)))) (st_reg st)).
Definition cm_listed (cfg : cm_cfg) (st : cm_state) (id : nat) : bool :=
  existsb (Nat.eqb id) (cm_senders cfg st) || existsb (Nat.eqb id) (cm_receivers cfg st).

(* "its most recent start succeeded and it has not been stopped since", read off the call log *)
Definition cm_started_step (id : nat) (b : bool) (c : cm_call) : bool :=
  match c with
  | CStart i o => if Nat.eqb i id then match o with SOk => true | _ => false end else b
  | CClose i => if Nat.eqb i id then false else b
  end.
Definition cm_started (log : list cm_call) (id : nat) : bool :=
  fold_left (cm_started_step id) log false.

(* call counting *)
Definition cm_is_start_of (id : nat) (c : cm_call) : bool :=
  match c with CStart i _ => Nat.eqb i id | _ => false end.
Definition cm_is_close_of (id : nat) (c : cm_call) : bool :=
  match c with CClose i => Nat.eqb i id | _ => false end.
Definition cm_count (f : cm_call -> bool) (l : list cm_call) : nat := length (filter f l).

Definition cm_in_registry (st : cm_state) (id : nat) : bool :=
  existsb (fun ke => Nat.eqb (e_inst (snd ke)) id) (st_reg st).

(* the element that wraps instance id, if any *)
Fixpoint cm_find (r : cm_reg) (id : nat) : option cm_elem :=
  match r with
  | [] => None
  | (_, e) :: r => if Nat.eqb (e_inst e) id then Some e else cm_find r id
  end.
(* instance id is registered but not active: it waits for the next retry pass *)
Definition cm_waiting (st : cm_state) (id : nat) : bool :=
  match cm_find (st_reg st) id with Some e => negb (cm_active e) | None => false end.

Definition cm_ticks (os : list (list cm_outcome)) : list (cm_event * list cm_outcome) :=
  map (fun o => (ETick, o)) os.
Definition cm_nclose (tr : list (cm_event * list cm_outcome)) : nat :=
  length (filter (fun eo => match fst eo with EClose => true | _ => false end) tr).

Definition cm_is_close_ev (ev : cm_event) : bool := match ev with EClose => true | _ => false end.
Definition cm_is_tick_ev (ev : cm_event) : bool := match ev with ETick => true | _ => false end.

(* example configurations used by the non-vacuity examples of Properties/C16.v *)
Definition cm_ex_perm : cm_cfg := mkCfg 1 [mkAd 7%N true RBoth 1%N 2%N].
Definition cm_ex_nonperm (n : Z) : cm_cfg := mkCfg n [mkAd 7%N false RSender 1%N 2%N].
Definition cm_fr : list cm_outcome := [SFailRetry].
