(* SpecDtlsr.v - the literal / operator shapes of the Go functions the DTLSR model (Model/Dtlsr.v)
   is written against.  Token codes are those of go/token (tools/goconsts adds 1000 to unary
   operators and 2000 to ++/--):  12 +, 13 -, 34 &&, 35 ||, 39 ==, 40 <, 41 >, 44 !=, 45 <=,
   1043 unary !, 2037 ++.  Proofs/ConstsOkDtlsr.v proves gen/Consts.v equal to these. *)
From Coq Require Import ZArith List.
Import ListNotations.
Open Scope Z_scope.

(* ShouldReplace: one strict "greater than"  (dt_should_replace: old <? new) *)
Definition dtlsr_should_replace_ops : list Z := [41].
Definition dtlsr_should_replace_lits : list Z := [].

(* computeRoutingTable:
     for i := 0; i < length; i++                       lits 0        ops <, ++
     if timestamp == 0 { cost = 0 } else { now - ts }   lits 0 0      ops ==, -      (own arcs)
     AddArc(0, ...) ... err != nil                      lits 0        ops !=
     if timestamp == 0 { cost = 0 } else { now - ts }   lits 0 0      ops ==, -      (received arcs)
     err != nil                                                       ops !=
     for i := 1; i < length; i++                       lits 1        ops <, ++
     err == nil;  len(Path) <= 1;  Path[1]              lits 0? ...   ops ==, <=            *)
Definition dtlsr_compute_lits : list Z := [0; 0; 0; 0; 0; 0; 1; 0; 1; 1].
Definition dtlsr_compute_ops : list Z := [40; 2037; 39; 13; 44; 39; 13; 44; 40; 2037; 39; 45].

(* newNode: length + 1 *)
Definition dtlsr_new_node_lits : list Z := [1].
Definition dtlsr_new_node_ops : list Z := [12].

(* purgePeers: timestamp != 0 && ...Before(now) *)
Definition dtlsr_purge_lits : list Z := [0].
Definition dtlsr_purge_ops : list Z := [34; 44].

(* recomputeCron: peerChange || receivedChange *)
Definition dtlsr_cron_ops : list Z := [35].

(* ReportPeerAppeared: Peers[peer] = 0 ; ReportPeerDisappeared: no literal *)
Definition dtlsr_appear_lits : list Z := [0].
Definition dtlsr_disappear_lits : list Z := [].

(* NotifyNewBundle: err == nil, !present, err != nil, err == nil, !ok, err != nil; make(.., 0) *)
Definition dtlsr_notify_ops : list Z := [39; 1043; 44; 39; 1043; 44].
Definition dtlsr_notify_lits : list Z := [0].

(* SenderForBundle: err != nil, dest == broadcast, err != nil, err != nil, !present, peer == forwarder *)
Definition dtlsr_sender_ops : list Z := [44; 39; 44; 44; 1043; 39].

(* filterCLAs: "routing/"+algorithm+"/sent", !ok, peer == eid, !skip *)
Definition dtlsr_filter_ops : list Z := [12; 12; 1043; 39; 1043].

(* the DTLSR extension block type and the broadcast endpoint *)
Definition dtlsr_block_type : Z := 193.
Definition dtlsr_broadcast_address : list Z :=
  [100; 116; 110; 58; 47; 47; 114; 111; 117; 116; 105; 110; 103; 47; 100; 116; 108; 115; 114; 47;
   98; 114; 111; 97; 100; 99; 97; 115; 116; 47].   (* "dtn://routing/dtlsr/broadcast/" *)
