(* Alloc.v - what cboring.ReadRawBytes allocates before the bytes are known to be there:
   lengths above MaxInt32 are refused, lengths up to 1 MiB are allocated at once (make), longer
   ones are streamed through a growing buffer (io.CopyN), i.e. sized by what actually arrives. *)
From DTN Require Import Base Cbor.
Open Scope N_scope.

Definition raw_chunk : N := 1048576.
Definition raw_prealloc (n : N) : N :=
  if max_raw <? n then 0 else if n <=? raw_chunk then n else 0.
