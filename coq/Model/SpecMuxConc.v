(* SpecMuxConc.v - literal / operator shapes of the Go functions the sub-step model Model/MuxConc.v is written
   against (compared with the shapes regenerated from the Go source in Proofs/ConstsOkMuxConc.v).
   Token codes of go/token: 12 +, 34 &&, 39 ==, 44 !=; 1000 + code = unary (1017 &x, 1036 <-ch receive,
   1043 !x).  An empty literal list of a constructor means: every `make(chan Message)` is unbuffered - a
   capacity would show up as a literal. *)
From Coq Require Import ZArith List.
Import ListNotations.
Open Scope Z_scope.

(* pkg/agent/mux_agent.go *)
Definition smx_NewMuxAgent_lits : list Z := [].          (* receiver, sender: make(chan Message) *)
Definition smx_NewMuxAgent_ops : list Z := [1017].
Definition smx_Register_lits : list Z := [].
Definition smx_Register_ops : list Z := [].
Definition smx_handleChild_lits : list Z := [].
Definition smx_handleChild_ops : list Z := [].
Definition smx_unregister_lits : list Z := [1].           (* children[i+1:] *)
Definition smx_unregister_ops : list Z := [39; 12].       (* child == agent, i+1 *)
Definition smx_handle_lits : list Z := [].
Definition smx_handle_ops : list Z := [35; 39].           (* rec == nil || ... *)
Definition smx_Endpoints_lits : list Z := [].
Definition smx_Endpoints_ops : list Z := [].
(* pkg/agent/application_agent.go *)
Definition smx_AppAgentContainsEndpoint_lits : list Z := [].
Definition smx_AppAgentContainsEndpoint_ops : list Z := [].
Definition smx_AppAgentHasEndpoint_lits : list Z := [].
Definition smx_AppAgentHasEndpoint_ops : list Z := [].
(* pkg/agent/ws_agent.go, ws_agent_client.go *)
Definition smx_NewWebSocketAgent_lits : list Z := [].
Definition smx_NewWebSocketAgent_ops : list Z := [1017].
Definition smx_wsHandler_lits : list Z := [].
Definition smx_wsHandler_ops : list Z := [].
Definition smx_ServeHTTP_lits : list Z := [].
Definition smx_ServeHTTP_ops : list Z := [44].
Definition smx_wsEndpoints_lits : list Z := [].
Definition smx_wsEndpoints_ops : list Z := [].
Definition smx_newWebAgentClient_lits : list Z := [].     (* receiver, sender: make(chan Message) *)
Definition smx_newWebAgentClient_ops : list Z := [1017].
Definition smx_start_lits : list Z := [].
Definition smx_start_ops : list Z := [].
Definition smx_shutdown_lits : list Z := [].
Definition smx_shutdown_ops : list Z := [].
Definition smx_handleReceiver_lits : list Z := [].
Definition smx_handleReceiver_ops : list Z := [44; 44].
Definition smx_handleConn_lits : list Z := [].
Definition smx_handleConn_ops : list Z := [44; 34; 39; 44; 44; 44; 44].
Definition smx_handleIncomingRegister_lits : list Z := [].
Definition smx_handleIncomingRegister_ops : list Z := [39; 44].
Definition smx_clientEndpoints_lits : list Z := [].
Definition smx_clientEndpoints_ops : list Z := [39].
(* pkg/agent/ping_agent.go (after 56aabd8: the pong is sent by a goroutine of its own) *)
Definition smx_NewPing_lits : list Z := [].               (* receiver, sender: make(chan Message) *)
Definition smx_NewPing_ops : list Z := [1017].
Definition smx_pingHandler_lits : list Z := [].
Definition smx_pingHandler_ops : list Z := [].
Definition smx_ackBundle_lits : list Z := [64; 1].        (* default hop count; pending.Add(1) *)
Definition smx_ackBundle_ops : list Z := [39; 44; 1036].  (* ...; <-p.closing in the pong's own goroutine *)
(* pkg/routing/agent_manager.go, processing.go *)
Definition smx_NewAgentManager_lits : list Z := [].
Definition smx_NewAgentManager_ops : list Z := [1017].
Definition smx_amHandler_lits : list Z := [].
Definition smx_amHandler_ops : list Z := [1036; 1036].    (* <-closeSyn, <-mux.MessageSender() *)
Definition smx_handleMessage_lits : list Z := [].
Definition smx_handleMessage_ops : list Z := [1017].
Definition smx_amHasEndpoint_lits : list Z := [].
Definition smx_amHasEndpoint_ops : list Z := [].
Definition smx_Deliver_lits : list Z := [].
Definition smx_Deliver_ops : list Z := [44; 1043; 44].    (* bErr != nil, !HasEndpoint, err != nil *)
Definition smx_SendBundle_lits : list Z := [].
Definition smx_SendBundle_ops : list Z := [34; 44].
Definition smx_transmit_lits : list Z := [].
Definition smx_transmit_ops : list Z := [34; 44; 1043].   (* src != none && !HasEndpoint(src) *)
Definition smx_dispatching_lits : list Z := [].
Definition smx_dispatching_ops : list Z := [1043; 44].
