(* Eid.v - endpoint IDs (pkg/bpv7/endpoint*.go): structure, validity, CBOR codec, URI text. *)
From DTN Require Import Base Cbor.
Open Scope N_scope.

Inductive eid :=
| DtnNone
| Dtn (node demux : list N)
| Ipn (node service : N).

(* the regexp class backslash-w, minus, dot, underscore: ASCII letters, digits, underscore, minus, dot *)
Definition is_node_char (c : N) : bool :=
  ((48 <=? c) && (c <=? 57)) || ((65 <=? c) && (c <=? 90)) || ((97 <=? c) && (c <=? 122))
  || (c =? 95) || (c =? 45) || (c =? 46).

Definition no_newline (s : list N) : bool := forallb (fun c => negb (c =? 10)) s.

Definition eid_eqb (a b : eid) : bool :=
  match a, b with
  | DtnNone, DtnNone => true
  | Dtn n1 d1, Dtn n2 d2 => bytes_eqb n1 n2 && bytes_eqb d1 d2
  | Ipn n1 s1, Ipn n2 s2 => (n1 =? n2) && (s1 =? s2)
  | _, _ => false
  end.

(* CheckValid: dtn - the printed URI matches the full dtn regexp (node: one or more of the
   node characters; demux: anything without a newline); ipn - both numbers >= 1 *)
Definition eid_valid (e : eid) : bool :=
  match e with
  | DtnNone => true
  | Dtn node demux => negb (match node with [] => true | _ => false end)
                      && forallb is_node_char node && no_newline demux
  | Ipn n s => (1 <=? n) && (1 <=? s)
  end.

(* range well-formedness of a structure (what the Go types can hold / ReadRawBytes can read) *)
Definition eid_wf (e : eid) : bool :=
  match e with
  | DtnNone => true
  | Dtn node demux => bytes_ok node && bytes_ok demux && (nlen node + nlen demux + 3 <=? max_raw)
  | Ipn n s => u64_ok n && u64_ok s
  end.

Definition ssp_bytes (node demux : list N) : list N := 47 :: 47 :: node ++ 47 :: demux.   (* //node/demux *)

(* parseDtnSsp on an SSP other than none: two slashes, node characters, slash, demux *)
Fixpoint span_node (s : list N) : list N * list N :=
  match s with
  | c :: r => if is_node_char c then let '(a, b) := span_node r in (c :: a, b) else ([], s)
  | [] => ([], [])
  end.

Definition str_none : list N := [110; 111; 110; 101].

Definition parse_ssp (s : list N) : option (list N * list N) :=
  match s with
  | 47 :: 47 :: r =>
      let '(node, r') := span_node r in
      match node, r' with
      | _ :: _, 47 :: demux => if no_newline demux then Some (node, demux) else None
      | _, _ => None
      end
  | _ => None
  end.

(* EndpointID.MarshalCbor refuses invalid IDs *)
Definition enc_eid_body (e : eid) : list N :=
  match e with
  | DtnNone => enc_arr 2 ++ enc_uint 1 ++ enc_uint 0
  | Dtn node demux => enc_arr 2 ++ enc_uint 1 ++ enc_tstr (ssp_bytes node demux)
  | Ipn n s => enc_arr 2 ++ enc_uint 2 ++ enc_arr 2 ++ enc_uint n ++ enc_uint s
  end.
Definition enc_eid (e : eid) : option (list N) :=
  if eid_valid e then Some (enc_eid_body e) else None.

(* EndpointID.UnmarshalCbor (no validity check here: ipn 0 decodes) *)
Definition dec_eid (bs : list N) : res eid :=
  bind (read_arr bs) (fun l r =>
  if negb (l =? 2) then Err else
  bind (read_uint r) (fun scheme r =>
  if scheme =? 1 then
    bind (read_head r) (fun mn r =>
      let '(m, n) := mn in
      if m =? mUInt then Ok DtnNone r                (* any unsigned integer means dtn:none *)
      else if m =? mText then
        bind (read_raw n r) (fun ssp r =>
          if bytes_eqb ssp str_none then Err
          else match parse_ssp ssp with
               | Some (node, demux) => Ok (Dtn node demux) r
               | None => Err
               end)
      else Err)
  else if scheme =? 2 then
    bind (read_arr r) (fun l2 r =>
    if negb (l2 =? 2) then Err else
    bind (read_uint r) (fun n r =>
    bind (read_uint r) (fun s r => Ok (Ipn n s) r)))
  else Err)).

(* ---- URI text ---- *)
Fixpoint dec_digits_pos (fuel : nat) (n : N) (acc : list N) : list N :=
  match fuel with
  | O => acc
  | S f => if n =? 0 then acc else dec_digits_pos f (n / 10) ((48 + n mod 10) :: acc)
  end.
Definition dec_digits (n : N) : list N :=
  if n =? 0 then [48] else dec_digits_pos 25 n [].

Definition str_dtn_colon : list N := [100; 116; 110; 58].     (* "dtn:" *)
Definition str_ipn_colon : list N := [105; 112; 110; 58].     (* "ipn:" *)

Definition eid_print (e : eid) : list N :=
  match e with
  | DtnNone => str_dtn_colon ++ str_none
  | Dtn node demux => str_dtn_colon ++ ssp_bytes node demux
  | Ipn n s => str_ipn_colon ++ dec_digits n ++ [46] ++ dec_digits s
  end.

Definition is_digit (c : N) : bool := (48 <=? c) && (c <=? 57).
Fixpoint span_digits (s : list N) : list N * list N :=
  match s with
  | c :: r => if is_digit c then let '(a, b) := span_digits r in (c :: a, b) else ([], s)
  | [] => ([], [])
  end.
(* strconv.ParseUint(s, 10, 64): value, error on overflow *)
Fixpoint parse_uint_acc (acc : N) (s : list N) : option N :=
  match s with
  | [] => Some acc
  | c :: r => let v := acc * 10 + (c - 48) in
              if u64_ok v then parse_uint_acc v r else None
  end.

Fixpoint strip_prefix (p s : list N) : option (list N) :=
  match p, s with
  | [], _ => Some s
  | a :: p, b :: s => if a =? b then strip_prefix p s else None
  | _ :: _, [] => None
  end.

(* NewEndpointID: scheme regexp, then the scheme's constructor, then CheckValid *)
Definition eid_parse (uri : list N) : option eid :=
  match strip_prefix str_dtn_colon uri with
  | Some ssp =>
      if bytes_eqb ssp str_none then Some DtnNone
      else match parse_ssp ssp with
           | Some (node, demux) => Some (Dtn node demux)
           | None => None
           end
  | None =>
      match strip_prefix str_ipn_colon uri with
      | Some r =>
          let '(d1, r1) := span_digits r in
          match d1, r1 with
          | _ :: _, 46 :: r2 =>
              let '(d2, r3) := span_digits r2 in
              match d2, r3 with
              | _ :: _, [] =>
                  match parse_uint_acc 0 d1, parse_uint_acc 0 d2 with
                  | Some n, Some s => if (1 <=? n) && (1 <=? s) then Some (Ipn n s) else None
                  | _, _ => None
                  end
              | _, _ => None
              end
          | _, _ => None
          end
      | None => None
      end
  end.

(* SameNode / Authority *)
Definition eid_same_node (a b : eid) : bool :=
  match a, b with
  | DtnNone, DtnNone => true
  | Dtn n1 _, Dtn n2 _ => bytes_eqb n1 n2
  | DtnNone, Dtn n2 _ => bytes_eqb str_none n2
  | Dtn n1 _, DtnNone => bytes_eqb n1 str_none
  | Ipn n1 _, Ipn n2 _ => n1 =? n2
  | _, _ => false
  end.
