(* Bundle.v - executable model of the BPv7 bundle codec of pkg/bpv7: primary block, canonical
   blocks with the eight registered extension-block types plus generic ones, CRCs, the bundle
   framing and CheckValid.  All eight block types are taken as registered (the harness registers
   them); map-valued blocks are association lists (decode: last duplicate wins). *)
From DTN Require Import Base Cbor Crc Eid.
Open Scope N_scope.

Definition has (flags bit : N) : bool := negb (N.land flags bit =? 0).

(* bundle processing control flags *)
Definition F_FRAG : N := 1.
Definition F_ADMIN : N := 2.
Definition F_NOFRAG : N := 4.
Definition F_ACK : N := 32.
Definition F_TIME : N := 64.
Definition F_RECEPTION : N := 16384.
Definition F_FORWARD : N := 65536.
Definition F_DELIVERY : N := 131072.
Definition F_DELETION : N := 262144.
Definition any_status_request (f : N) : bool :=
  has f F_RECEPTION || has f F_FORWARD || has f F_DELIVERY || has f F_DELETION.
(* block processing control flags *)
Definition BF_REPLICATE : N := 1.
Definition BF_REPORT : N := 2.
Definition BF_DELETE : N := 4.
Definition BF_REMOVE : N := 16.

(* block type codes *)
Definition T_PAYLOAD : N := 1.
Definition T_PREV : N := 6.
Definition T_AGE : N := 7.
Definition T_HOP : N := 10.
Definition T_SPRAY : N := 192.
Definition T_DTLSR : N := 193.
Definition T_PROPHET : N := 194.
Definition T_SIG : N := 195.
Definition known_type (t : N) : bool :=
  (t =? 1) || (t =? 6) || (t =? 7) || (t =? 10) || (t =? 192) || (t =? 193) || (t =? 194) || (t =? 195).

Record primary := {
  p_flags : N; p_crc : N; p_dst : eid; p_src : eid; p_rpt : eid;
  p_time : N; p_seq : N; p_life : N; p_off : N; p_total : N }.

Inductive ext :=
| XPayload (d : list N)
| XPrev (e : eid)
| XAge (n : N)
| XHop (limit count : N)
| XSpray (n : N)
| XDtlsr (id : eid) (ts : N) (peers : list (eid * N))
| XProphet (preds : list (eid * N))      (* value = float64 bit pattern *)
| XSig (pk sg : list N)
| XGeneric (tc : N) (d : list N).

Record cblock := { c_num : N; c_flags : N; c_crc : N; c_val : ext }.
Record bundle := { b_pri : primary; b_blocks : list cblock }.

Definition ext_type (v : ext) : N :=
  match v with
  | XPayload _ => 1 | XPrev _ => 6 | XAge _ => 7 | XHop _ _ => 10 | XSpray _ => 192
  | XDtlsr _ _ _ => 193 | XProphet _ => 194 | XSig _ _ => 195 | XGeneric tc _ => tc
  end.
Definition c_type (c : cblock) : N := ext_type (c_val c).

(* ---------------- encoding ---------------- *)
Definition obind {A B} (o : option A) (f : A -> option B) : option B :=
  match o with Some a => f a | None => None end.

Fixpoint enc_pairs (encv : N -> list N) (l : list (eid * N)) : option (list N) :=
  match l with
  | [] => Some []
  | (k, v) :: l => obind (enc_eid k) (fun kb => obind (enc_pairs encv l) (fun rest => Some (kb ++ encv v ++ rest)))
  end.

(* the bytes inside the block-type-specific byte string *)
Definition enc_ext_inner (v : ext) : option (list N) :=
  match v with
  | XPayload d => Some d
  | XGeneric _ d => Some d
  | XPrev e => enc_eid e
  | XAge n => Some (enc_uint n)
  | XHop l c => Some (enc_arr 2 ++ enc_uint l ++ enc_uint c)
  | XSpray n => Some (enc_uint n)
  | XDtlsr id ts peers =>
      obind (enc_eid id) (fun idb => obind (enc_pairs enc_uint peers) (fun ps =>
        Some (enc_arr 3 ++ idb ++ enc_uint ts ++ enc_maplen (nlen peers) ++ ps)))
  | XProphet preds =>
      obind (enc_pairs enc_f64 preds) (fun ps => Some (enc_maplen (nlen preds) ++ ps))
  | XSig pk sg => Some (enc_arr 2 ++ enc_bstr pk ++ enc_bstr sg)
  end.

Definition zeros (k : nat) : list N := repeat 0 k.

(* appends the CRC field to [body] (the block's bytes up to the CRC field) *)
Definition add_crc (t : N) (body : list N) : option (list N) :=
  if t =? 0 then Some body
  else match crc_len t with
       | Some len => Some (body ++ enc_bstr (be_encode len (crc_value t (body ++ enc_bstr (zeros len)))))
       | None => None
       end.

Definition enc_cblock (c : cblock) : option (list N) :=
  obind (enc_ext_inner (c_val c)) (fun inner =>
    let n := if c_crc c =? 0 then 5 else 6 in
    add_crc (c_crc c)
      (enc_arr n ++ enc_uint (c_type c) ++ enc_uint (c_num c) ++ enc_uint (c_flags c) ++ enc_uint (c_crc c)
       ++ enc_bstr inner)).

Definition enc_primary (p : primary) : option (list N) :=
  obind (enc_eid (p_dst p)) (fun d => obind (enc_eid (p_src p)) (fun s => obind (enc_eid (p_rpt p)) (fun r =>
    let frag := has (p_flags p) F_FRAG in
    let n := 8 + (if frag then 2 else 0) + (if p_crc p =? 0 then 0 else 1) in
    add_crc (p_crc p)
      (enc_arr n ++ enc_uint 7 ++ enc_uint (p_flags p) ++ enc_uint (p_crc p) ++ d ++ s ++ r
       ++ enc_arr 2 ++ enc_uint (p_time p) ++ enc_uint (p_seq p) ++ enc_uint (p_life p)
       ++ (if frag then enc_uint (p_off p) ++ enc_uint (p_total p) else []))))).

Fixpoint enc_blocks (l : list cblock) : option (list N) :=
  match l with
  | [] => Some []
  | c :: l => obind (enc_cblock c) (fun cb => obind (enc_blocks l) (fun rest => Some (cb ++ rest)))
  end.

Definition enc_bundle (b : bundle) : option (list N) :=
  obind (enc_primary (b_pri b)) (fun p => obind (enc_blocks (b_blocks b)) (fun bl =>
    Some (159 :: p ++ bl ++ [255]))).

(* ---------------- decoding ---------------- *)
Definition consumed (bs rest : list N) : list N := firstn (length bs - length rest) bs.

(* Go map insert: replace the value of an existing key, else add *)
Fixpoint map_set (k : eid) (v : N) (l : list (eid * N)) : list (eid * N) :=
  match l with
  | [] => [(k, v)]
  | (k', v') :: l => if eid_eqb k k' then (k', v) :: l else (k', v') :: map_set k v l
  end.

Fixpoint dec_pairs (fuel : nat) (readv : list N -> res N) (n : N) (acc : list (eid * N)) (bs : list N)
  : res (list (eid * N)) :=
  if n =? 0 then Ok acc bs else
  match fuel with
  | O => Err
  | S fuel =>
      bind (dec_eid bs) (fun k r => bind (readv r) (fun v r =>
        dec_pairs fuel readv (n - 1) (map_set k v acc) r))
  end.

Definition dec_ext (tc : N) (bs : list N) : res ext :=
  nobrk (bind (read_bstr bs) (fun data rest =>
    let inner :=
      if tc =? 1 then Ok (XPayload data) []
      else if tc =? 6 then bind (dec_eid data) (fun e r => Ok (XPrev e) r)
      else if tc =? 7 then bind (read_uint data) (fun n r => Ok (XAge n) r)
      else if tc =? 10 then
        bind (read_arr data) (fun l r => if negb (l =? 2) then Err else
        bind (read_uint r) (fun lim r => if 255 <? lim then Err else
        bind (read_uint r) (fun cnt r => if 255 <? cnt then Err else Ok (XHop lim cnt) r)))
      else if tc =? 192 then bind (read_uint data) (fun n r => Ok (XSpray n) r)
      else if tc =? 193 then
        bind (read_arr data) (fun l r => if negb (l =? 3) then Err else
        bind (dec_eid r) (fun id r => bind (read_uint r) (fun ts r =>
        bind (read_maplen r) (fun n r =>
        bind (dec_pairs (S (length r)) read_uint n [] r) (fun ps r => Ok (XDtlsr id ts ps) r)))))
      else if tc =? 194 then
        bind (read_maplen data) (fun n r =>
        bind (dec_pairs (S (length r)) read_f64 n [] r) (fun ps r => Ok (XProphet ps) r))
      else if tc =? 195 then
        bind (read_arr data) (fun l r => if negb (l =? 2) then Err else
        bind (read_bstr r) (fun pk r => bind (read_bstr r) (fun sg r => Ok (XSig pk sg) r)))
      else Ok (XGeneric tc data) []
    in
    (* bytes left over inside the byte string are ignored *)
    match inner with Ok v _ => Ok v rest | _ => Err end)).

(* checkCRCBuff: the transmitted value is read first; [bs] is the input from the first byte of the
   block, so that [consumed bs r'] is the whole block exactly as received (TeeReader); the CRC is
   computed over it with the value of the CRC field replaced by zeros. *)
Definition check_crc (t : N) (bs : list N) (r : list N) : res unit :=
  bind (read_bstr r) (fun cv r' =>
    match crc_len t with
    | None => Err
    | Some len =>
        if negb (Nat.eqb (length cv) len) then Err else
        let whole := consumed bs r' in
        let data := firstn (length whole - len) whole ++ zeros len in
        if bytes_eqb (be_encode len (crc_value t data)) cv then Ok tt r' else Err
    end).

Definition dec_cblock (bs : list N) : res cblock :=
  bind (read_arr bs) (fun l r0 =>
  if negb ((l =? 5) || (l =? 6)) then Err else
  bind (read_uint r0) (fun tc r => bind (read_uint r) (fun num r => bind (read_uint r) (fun fl r =>
  bind (read_uint r) (fun crc r => if 2 <? crc then Err else
  if negb (Bool.eqb (l =? 6) (negb (crc =? 0))) then Err else
  bind (dec_ext tc r) (fun v r =>
    let cb := {| c_num := num; c_flags := fl; c_crc := crc; c_val := v |} in
    if l =? 6 then bind (check_crc crc bs r) (fun _ r => Ok cb r)
    else Ok cb r)))))).

Definition dec_primary (bs : list N) : res primary :=
  bind (read_arr bs) (fun l r =>
  if negb ((8 <=? l) && (l <=? 11)) then Err else
  bind (read_uint r) (fun ver r => if negb (ver =? 7) then Err else
  bind (read_uint r) (fun fl r => bind (read_uint r) (fun crc r => if 2 <? crc then Err else
  if negb (Bool.eqb ((l =? 9) || (l =? 11)) (negb (crc =? 0))) then Err else
  bind (dec_eid r) (fun dst r => bind (dec_eid r) (fun src r => bind (dec_eid r) (fun rpt r =>
  bind (read_arr r) (fun l2 r => if negb (l2 =? 2) then Err else
  bind (read_uint r) (fun tm r => bind (read_uint r) (fun sq r =>
  bind (read_uint r) (fun life r =>
  bind (if (l =? 10) || (l =? 11)
        then bind (read_uint r) (fun off r => bind (read_uint r) (fun tot r => Ok (off, tot) r))
        else Ok (0, 0) r) (fun ot r =>
    let p := {| p_flags := fl; p_crc := crc; p_dst := dst; p_src := src; p_rpt := rpt;
                p_time := tm; p_seq := sq; p_life := life; p_off := fst ot; p_total := snd ot |} in
    if (l =? 9) || (l =? 11)
    then bind (check_crc crc bs r) (fun _ r => Ok p r)
    else Ok p r)))))))))))).

(* ---------------- validity ---------------- *)
Definition ext_valid (v : ext) : bool :=
  match v with
  | XPrev e => eid_valid e
  | XHop l c => c <=? l
  | XSig pk sg => (length pk =? 32)%nat && (length sg =? 64)%nat
  | XDtlsr id _ peers => eid_valid id && forallb (fun kv => eid_valid (fst kv)) peers
  | XProphet preds => forallb (fun kv => eid_valid (fst kv)) preds
  | _ => true
  end.

Definition cblock_valid (c : cblock) : bool :=
  ext_valid (c_val c) && (negb (c_type c =? 1) || (c_num c =? 1)).

Definition primary_valid (p : primary) : bool :=
  negb (has (p_flags p) F_FRAG && has (p_flags p) F_NOFRAG)
  && (negb (has (p_flags p) F_ADMIN) || negb (any_status_request (p_flags p)))
  && eid_valid (p_dst p) && eid_valid (p_src p) && eid_valid (p_rpt p)
  && (negb (eid_eqb (p_src p) DtnNone) || (has (p_flags p) F_NOFRAG && negb (any_status_request (p_flags p)))).

Fixpoint nodup_N (l : list N) : bool :=
  match l with [] => true | x :: l => negb (existsb (N.eqb x) l) && nodup_N l end.

Definition find_type (t : N) (l : list cblock) : option cblock :=
  find (fun c => c_type c =? t) l.

(* IsLifetimeExceeded; [now] in ms since the DTN epoch.  The Go code computes with int64
   milliseconds / nanoseconds that wrap; wrapping only ever makes the deadline earlier. *)
Definition wrap64s (z : Z) : Z := ((z + 9223372036854775808) mod 18446744073709551616 - 9223372036854775808)%Z.
Definition ms1970to2k : Z := 946684800000%Z.
Definition deadline_ns (p : primary) : Z :=
  (wrap64s (wrap64s (Z.of_N (p_time p)) + ms1970to2k) * 1000000
   + wrap64s (wrap64s (Z.of_N (p_life p)) * 1000000))%Z.
Definition lifetime_exceeded (now : N) (b : bundle) : bool :=
  let p := b_pri b in
  if p_time p =? 0 then
    match find_type 7 (b_blocks b) with
    | Some {| c_val := XAge age |} => p_life p <? age
    | _ => true
    end
  else (deadline_ns p <? (Z.of_N now + ms1970to2k) * 1000000)%Z.

Definition check_valid (now : N) (b : bundle) : bool :=
  let p := b_pri b in
  let bl := b_blocks b in
  primary_valid p
  && forallb cblock_valid bl
  && negb (match bl with [] => true | _ => false end)
  && (negb (has (p_flags p) F_ADMIN || eid_eqb (p_src p) DtnNone)
      || forallb (fun c => negb (has (c_flags c) BF_REPORT)) bl)
  && nodup_N (map c_num bl)
  && nodup_N (map c_type bl)
  && (match last (map c_type bl) 0 with 1 => true | _ => false end)
  && (negb (p_time p =? 0) || (match find_type 7 bl with Some _ => true | None => false end))
  && negb (lifetime_exceeded now b).

(* ---------------- bundle ---------------- *)
Definition starts_with (x : N) (bs : list N) : bool :=
  match bs with b :: _ => b =? x | [] => false end.

Fixpoint dec_blocks (fuel : nat) (bs : list N) (acc : list cblock) : option (list cblock * list N) :=
  match fuel with
  | O => None
  | S fuel =>
      if starts_with 255 bs then Some (acc, tl bs)
      else
        match dec_cblock bs with
        | Ok c r => dec_blocks fuel r (acc ++ [c])
        | Brk => Some (acc, [])      (* break flag met inside a block: the bundle ends there *)
        | Err => None
        end
  end.

Definition dec_bundle (now : N) (bs : list N) : option (bundle * list N) :=
  if starts_with 159 bs then
    match nobrk (dec_primary (tl bs)) with
    | Ok p r =>
        match dec_blocks (S (length r)) r [] with
        | Some (bl, rest) =>
            let b := {| b_pri := p; b_blocks := bl |} in
            if check_valid now b then Some (b, rest) else None
        | None => None
        end
    | _ => None
    end
  else None.

(* bundle ID as printed by BundleID.String *)
Definition id_str (b : bundle) : list N :=
  let p := b_pri b in
  eid_print (p_src p) ++ [45] ++ dec_digits (p_time p) ++ [45] ++ dec_digits (p_seq p)
  ++ (if has (p_flags p) F_FRAG then [45] ++ dec_digits (p_off p) ++ [45] ++ dec_digits (p_total p) else []).

Definition payload_of (b : bundle) : option (list N) :=
  match find_type 1 (b_blocks b) with
  | Some {| c_val := XPayload d |} => Some d
  | _ => None
  end.
