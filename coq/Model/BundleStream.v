(* Reading several bundles from one byte stream (MTCP connection, TCPCL transfer payloads written
   back to back, a file of concatenated bundles): every parse starts where the previous one stopped.
   Model of repeated bpv7.ParseBundle / Bundle.UnmarshalCbor calls on one io.Reader. *)
From DTN Require Import Base Cbor Crc Eid Bundle.
Open Scope N_scope.

Fixpoint dec_bundles (now : N) (n : nat) (bs : list N) : option (list bundle * list N) :=
  match n with
  | O => Some ([], bs)
  | S k => match dec_bundle now bs with
           | None => None
           | Some (b, r) => match dec_bundles now k r with
                            | None => None
                            | Some (l, r') => Some (b :: l, r')
                            end
           end
  end.
