(* SpecReasm.v - the literal / operator shapes of the Go functions the reassembly model (Reasm.v)
   transcribes, written against go/token's operator codes.  ConstsOkReasm.v proves that the shapes
   regenerated from the Go source coincide with these; a changed comparison, a dropped maximum or a
   different de-duplication test in the Go code breaks that proof. *)
From Coq Require Import ZArith List.
Import ListNotations.
Open Scope Z_scope.

(* go/token codes; 1000+ = unary, 3000+ = assignment operator *)
Definition tk_add := 12.  Definition tk_sub := 13.  Definition tk_or := 18.
Definition tk_land := 34. Definition tk_eql := 39.  Definition tk_lss := 40.
Definition tk_gtr := 41.  Definition tk_neq := 44.  Definition tk_not := 1043.
Definition tk_add_assign := 3023. Definition tk_andnot_assign := 3033.

Definition reasm_isfragment_flag := 1.      (* bundle control flag IsFragment *)
Definition reasm_payload_block_type := 1.

(* prepareReassembly: len(bs) == 0; sort by FragmentOffset <; !Has(IsFragment); fragOff > lastIndex
   (gap); err != nil; fragEnd := fragOff + len; fragEnd > lastIndex (running maximum);
   total != lastIndex.  lastIndex starts at 0; bs[0] supplies the total. *)
Definition reasm_prepare_ops := [tk_eql; tk_lss; tk_not; tk_gtr; tk_neq; tk_add; tk_gtr; tk_neq].
Definition reasm_prepare_lits := [0; 0; 0].
(* mergeFragmentPayload: err != nil; fragEndIndex := start + len; fragEndIndex > lastIndex;
   data[lastIndex - start:] *)
Definition reasm_merge_ops := [tk_neq; tk_add; tk_gtr; tk_sub].
Definition reasm_merge_lits := [0].
Definition reasm_isre_ops := [tk_eql].
(* ReassembleFragments: err != nil; flags &^= IsFragment; type == payload (skip); two error tests;
   offsets / total reset to 0, payload block number 1 *)
Definition reasm_reassemble_ops := [tk_neq; tk_andnot_assign; tk_eql; tk_neq; tk_neq].
Definition reasm_reassemble_lits := [0; 0; 0; 0; 0; 1].
(* fragmentPrimaryBlock: offset += parent offset (when the input is a fragment); flags | IsFragment *)
Definition reasm_fragpb_ops := [tk_add_assign; tk_or].
(* Store.Push (de-duplication by offset == && total ==) is owned by the store property C08 and is
   tied here only through the differential check of the part lists. *)
(* IsComplete: !Fragmented; err == nil && IsBundleReassemblable.  Load: err == nil *)
Definition reasm_iscomplete_ops := [tk_not; tk_land; tk_eql].
Definition reasm_load_ops := [tk_eql].
