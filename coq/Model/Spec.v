(* Spec.v - constants of the specifications (RFC 9171 / TCPCLv4 / BBC design) the model is
   written against.  Proofs/ConstsOk.v proves that the values regenerated from /repo on
   every run (gen/Consts.v) coincide with these. *)
From Coq Require Import ZArith List.
Import ListNotations.
Open Scope Z_scope.

(* BBC fragment header *)
Definition bbc_header_size : Z := 2.
Definition bbc_seq_mask : Z := 31.       (* 0x1F *)
Definition bbc_seq_shift : Z := 3.
Definition bbc_start_bit : Z := 4.
Definition bbc_end_bit : Z := 2.
Definition bbc_fail_bit : Z := 1.
Definition bbc_seq_modulus : Z := 16.
