(* SpecScf.v - the literal / operator shapes of the Go functions the store-carry-forward model
   (Model/Scf.v) is written against.  Token codes are those of go/token (tools/goconsts adds 1000 to
   unary operators and 2000 to ++/--):  12 +, 13 -, 14 *, 34 &&, 35 ||, 39 ==, 40 <, 41 >, 44 !=,
   1017 unary &, 1043 unary !, 2037 ++, 2038 --, 46 >=.  Proofs/ConstsOkScf.v proves gen/Consts.v equal to these. *)
From Coq Require Import ZArith List.
Import ListNotations.
Open Scope Z_scope.

(* retention constraints (constraint.go); the model's si_dp, si_fp, si_ci, si_le *)
Definition scf_c_dispatch_pending : Z := 0.
Definition scf_c_forward_pending : Z := 1.
Definition scf_c_reassembly_pending : Z := 2.
Definition scf_c_contraindicated : Z := 3.
Definition scf_c_local_endpoint : Z := 4.

(* Sync: !Knows.. ; err != nil ; len(..) == 0 ;
   Pending = !Has(Reassembly) && (Has(Forward) || Has(Contraindicated) || Has(Dispatch)) ; updateErr != nil
   (scf_sync: si_fp || si_ci || si_dp; scf_purge: no constraint left => deleted) *)
(* after fix 8e09450 (properties stored together with the first push when constraints exist) *)
Definition scf_sync_ops : list Z := [1043; 35; 44; 39; 44; 39; 34; 1043; 35; 35; 44].
Definition scf_sync_lits : list Z := [0; 0].

(* PurgeConstraints: c != LocalEndpoint *)
Definition scf_purge_ops : list Z := [44].

(* checkPendingBundles: err != nil, then every pending item is dispatched *)
Definition scf_check_pending_ops : list Z := [44].

(* dispatching: !DispatchingAllowed ; err != nil *)
Definition scf_dispatching_ops : list Z := [1043; 44].

(* epidemic DispatchingAllowed: biErr != nil ; len(css) == 0 ; err != nil ; len(css) > 0 *)
Definition scf_gate_ops : list Z := [44; 39; 44; 41].
Definition scf_gate_lits : list Z := [0; 0].

(* ReportFailure (epidemic and prophet): err != nil ; !ok ; i < len ; i++ ; sent[i] == peer ; i+1 ; err != nil *)
Definition scf_report_failure_ops : list Z := [44; 1043; 40; 2037; 39; 12; 44].
Definition scf_report_failure_epidemic_lits : list Z := [0; 0; 1].
Definition scf_report_failure_prophet_lits : list Z := [0; 1].

(* calcExpirationDate: Lifetime * Millisecond ; IsZeroTime() ; err == nil ; Age * Millisecond ; lifetime - age
   (scf_expiry) *)
Definition scf_expiry_ops : list Z := [14; 39; 14; 13].

(* DeleteExpired: &bis ; err != nil ; err != nil   (Where("Expires").Lt(now)) *)
Definition scf_delete_expired_ops : list Z := [1017; 44; 44].

(* HopCountBlock.IsExceeded: Count > Limit  (scf_hop_exceeded: lim <? cnt + 1 after Increment) *)
Definition scf_hop_ops : list Z := [41].

(* receive: len(Constraints) > 0 ; the block loop  i := len-1 ; i >= 0 ; i-- ; cb = &blocks[i] ; removal
   blocks[:i] ++ blocks[i+1:]   (scf_rx_scan: index len-1 down to 0, scf_remove_at i) *)
Definition scf_receive_ops : list Z := [41; 13; 46; 2038; 1017; 12].
Definition scf_receive_lits : list Z := [0; 1; 0; 1].
