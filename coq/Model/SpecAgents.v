(* SpecAgents.v - constants / operator shapes of the Go functions that Model/Agents.v is written
   against (property C07).  Proofs/ConstsOkAgents.v ties them to gen/Consts.v. *)
From Coq Require Import ZArith List.
Import ListNotations.
Open Scope Z_scope.

(* retention constraints (pkg/routing/constraint.go) *)
Definition ag_c_dispatch_pending : Z := 0.
Definition ag_c_forward_pending : Z := 1.
Definition ag_c_reassembly_pending : Z := 2.
Definition ag_c_contraindicated : Z := 3.
Definition ag_c_local_endpoint : Z := 4.

(* go/token codes as emitted by tools/goconsts: binary ops as is, unary ops + 1000 *)
Definition tok_lor : Z := 35.    (* || *)
Definition tok_eql : Z := 39.    (* == *)
Definition tok_neq : Z := 44.    (* != *)
Definition tok_not : Z := 1043.  (* !x *)
Definition tok_addr : Z := 1017. (* &x *)

(* MuxAgent.handle: "rec == nil || AppAgentContainsEndpoint(child, rec)" *)
Definition ag_shape_mux_handle : list Z := [tok_lor; tok_eql].
(* RestAgent.receiveBundleMessage: one "!ok" (Load failed => fresh list, else append) *)
Definition ag_shape_rest_receive : list Z := [tok_not].
(* RestAgent.handleFetch: decode error test, "!ok" branch for the empty response *)
Definition ag_shape_rest_fetch : list Z := [tok_addr; tok_neq; tok_not; tok_neq].
(* AgentManager.Deliver: bErr != nil, !HasEndpoint, Sync err != nil *)
Definition ag_shape_am_deliver : list Z := [tok_neq; tok_not; tok_neq].
(* Core.localDelivery: !checkAdministrativeRecord, Deliver err != nil *)
Definition ag_shape_local_delivery : list Z := [tok_not; tok_neq].
(* BundleDescriptor.PurgeConstraints: c != LocalEndpoint *)
Definition ag_shape_purge : list Z := [tok_neq].
