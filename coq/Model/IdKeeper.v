(* IdKeeper.v - executable model of the sequence-number bookkeeping for locally originated bundles
   (pkg/routing/id_keeper.go, SendBundle / transmit in processing.go, the store key of
   bundle_descriptor.go / storage/store.go).  Definitions only.

   A submission (one call of Core.SendBundle, whatever the path: AgentManager, SendBundle, status
   report, routing metadata) is split into its sub-steps so that a history is an arbitrary
   interleaving of the sub-steps of several submissions:

     IkAssign   IdKeeper.update's critical section (under the mutex): the counter of
                (source, creation time) is read, incremented or created at 0, and written into the
                bundle's creation timestamp
     IkClean    IdKeeper.clean (called by update after the mutex was released, hence a step of
                its own): drops every entry with time < now - 60*60*24 (milliseconds!) that is
                not the epoch time
     IkPush     NewBundleDescriptorFromBundle: the bundle is filed in the store under the ID it
                has at that moment (Store.Push ignores the push when the key exists)
     IkSend     first transmission: the in-memory bundle is handed to a convergence sender
     IkRetry    checkPendingBundles: the copy loaded from the store is handed to a sender
     IkDrop     the store item is deleted (delivered, expired, purged)
     IkRestart  the Core is closed and opened again on the same store: the IdKeeper is new

   The order inside one submission is the repaired one: IkAssign, IkClean, IkPush, IkSend*. *)
From DTN Require Import Base.
Open Scope N_scope.

(* ---- the IdKeeper proper: association list ((source, time), counter) ---- *)
Record ik_entry := { ike_src : N; ike_time : N; ike_cnt : N }.

Definition ik_same (src t : N) (e : ik_entry) : bool := (ike_src e =? src) && (ike_time e =? t).

Fixpoint ik_lookup (k : list ik_entry) (src t : N) : option N :=
  match k with
  | [] => None
  | e :: k => if ik_same src t e then Some (ike_cnt e) else ik_lookup k src t
  end.

Fixpoint ik_set (k : list ik_entry) (src t c : N) : list ik_entry :=
  match k with
  | [] => [ {| ike_src := src; ike_time := t; ike_cnt := c |} ]
  | e :: k => if ik_same src t e then {| ike_src := src; ike_time := t; ike_cnt := c |} :: k
              else e :: ik_set k src t c
  end.

Definition ik_first : N := 0.   (* the `else` branch of update *)
Definition ik_incr : N := 1.    (* state + 1 *)

(* update's critical section: new keeper and the sequence number written into the bundle.
   (Go's counter is a uint64; the wrap-around after 2^64 submissions for one (source,
   millisecond) is not modelled.) *)
Definition ik_update (k : list ik_entry) (src t : N) : list ik_entry * N :=
  match ik_lookup k src t with
  | Some c => (ik_set k src t (c + ik_incr), c + ik_incr)
  | None => (ik_set k src t ik_first, ik_first)
  end.

Definition ik_window : N := 60 * 60 * 24.     (* milliseconds: 86.4 s *)
Definition ik_epoch : N := 0.
Definition ik_two64 : N := 18446744073709551616.

(* DtnTimeNow() - 60*60*24 on uint64 *)
Definition ik_threshold (now : N) : N := (now + ik_two64 - ik_window) mod ik_two64.

Definition ik_keep (now : N) (e : ik_entry) : bool :=
  negb ((ike_time e <? ik_threshold now) && negb (ike_time e =? ik_epoch)).

Definition ik_clean (now : N) (k : list ik_entry) : list ik_entry := filter (ik_keep now) k.

(* ---- the node: keeper + submissions seen so far + store ---- *)
Record ik_thread := { th_id : N; th_src : N; th_time : N; th_seq : N }.
Record ik_item := { it_src : N; it_time : N; it_seq : N;       (* the store key *)
                    it_tid : N; it_fseq : N }.                   (* the stored part file: which bundle, with which number *)
Record ik_st := { ik_keeper : list ik_entry; ik_threads : list ik_thread; ik_store : list ik_item }.

Definition ik_init : ik_st := {| ik_keeper := []; ik_threads := []; ik_store := [] |}.

Inductive ik_ev :=
| IkAssign (tid src t : N)
| IkClean (now : N)
| IkPush (tid : N)
| IkSend (tid peer : N)
| IkRetry (src t seq peer : N)
| IkDrop (src t seq : N)
| IkRestart.

(* a bundle handed to a convergence sender: peer, bundle ID (source, time, sequence number) and
   which submitted bundle it is *)
Record ik_out := { o_peer : N; o_src : N; o_time : N; o_seq : N; o_tid : N }.

Fixpoint ik_thread_of (ths : list ik_thread) (tid : N) : option ik_thread :=
  match ths with
  | [] => None
  | th :: ths => if th_id th =? tid then Some th else ik_thread_of ths tid
  end.

Definition ik_key_is (src t seq : N) (it : ik_item) : bool :=
  (it_src it =? src) && (it_time it =? t) && (it_seq it =? seq).

Fixpoint ik_item_of (st : list ik_item) (src t seq : N) : option ik_item :=
  match st with
  | [] => None
  | it :: st => if ik_key_is src t seq it then Some it else ik_item_of st src t seq
  end.

Definition ik_step (s : ik_st) (e : ik_ev) : option (ik_st * list ik_out) :=
  match e with
  | IkAssign tid src t =>
      match ik_thread_of (ik_threads s) tid with
      | Some _ => None                       (* a bundle is numbered once *)
      | None =>
          let (k, c) := ik_update (ik_keeper s) src t in
          Some ({| ik_keeper := k;
                   ik_threads := {| th_id := tid; th_src := src; th_time := t; th_seq := c |} :: ik_threads s;
                   ik_store := ik_store s |}, [])
      end
  | IkClean now =>
      Some ({| ik_keeper := ik_clean now (ik_keeper s); ik_threads := ik_threads s; ik_store := ik_store s |}, [])
  | IkPush tid =>
      match ik_thread_of (ik_threads s) tid with
      | None => None
      | Some th =>
          match ik_item_of (ik_store s) (th_src th) (th_time th) (th_seq th) with
          | Some _ => Some (s, [])           (* "Bundle ID is known, ignoring push" *)
          | None =>
              Some ({| ik_keeper := ik_keeper s; ik_threads := ik_threads s;
                       ik_store := {| it_src := th_src th; it_time := th_time th; it_seq := th_seq th;
                                      it_tid := tid; it_fseq := th_seq th |} :: ik_store s |}, [])
          end
      end
  | IkSend tid peer =>
      match ik_thread_of (ik_threads s) tid with
      | None => None
      | Some th => Some (s, [ {| o_peer := peer; o_src := th_src th; o_time := th_time th; o_seq := th_seq th; o_tid := tid |} ])
      end
  | IkRetry src t seq peer =>
      match ik_item_of (ik_store s) src t seq with
      | None => None
      | Some it => Some (s, [ {| o_peer := peer; o_src := src; o_time := t; o_seq := it_fseq it; o_tid := it_tid it |} ])
      end
  | IkDrop src t seq =>
      Some ({| ik_keeper := ik_keeper s; ik_threads := ik_threads s;
               ik_store := filter (fun it => negb (ik_key_is src t seq it)) (ik_store s) |}, [])
  | IkRestart =>
      Some ({| ik_keeper := []; ik_threads := ik_threads s; ik_store := ik_store s |}, [])
  end.

Fixpoint ik_run (s : ik_st) (h : list ik_ev) : option (ik_st * list ik_out) :=
  match h with
  | [] => Some (s, [])
  | e :: h =>
      match ik_step s e with
      | None => None
      | Some (s1, o1) =>
          match ik_run s1 h with
          | None => None
          | Some (s2, o2) => Some (s2, o1 ++ o2)
          end
      end
  end.

Definition ik_seq_of (s : ik_st) (tid : N) : option N :=
  match ik_thread_of (ik_threads s) tid with Some th => Some (th_seq th) | None => None end.

(* the sub-steps of one sequential submission that is transmitted at once to `peers` *)
Definition ik_submit (tid src t now : N) (peers : list N) : list ik_ev :=
  IkAssign tid src t :: IkClean now :: IkPush tid :: map (IkSend tid) peers.
