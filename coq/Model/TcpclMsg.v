(* TcpclMsg.v - executable model of the TCPCLv4 message codec of dtn7-go
   (pkg/cla/tcpclv4/internal/msgs: contact_header.go, sess_init.go, sess_term.go, xfer_segment.go,
   xfer_ack.go, xfer_refuse.go, keepalive.go, reject.go, message.go).  Definitions only; proofs are in
   Proofs/TcpclMsgProofs.v.

   Every decoder is a stream reader that returns a pair: the outcome ([TmOk v rest | TmErr | TmPanic])
   and the *allocation account*: the bytes the Go code allocates with a size taken from a wire field
   (make([]byte, n) before the n bytes are known to be there, or the growth of a buffer that is
   filled from the stream).  Fixed-size scratch (binary.Read's <= 17-byte buffers, the MultiReader,
   error values, io.Discard's pooled 8 KiB block) is not in the account; the harness allows a constant
   for it.

   The model describes the code *after* three repairs (one per site):
     - XFER_SEGMENT data:  io.ReadAll(io.LimitReader(r, len)) instead of make([]byte, len) + ReadFull,
     - XFER_SEGMENT transfer extension items: io.CopyN(io.Discard, r, len) instead of make + ReadFull,
     - SESS_INIT session extension items:     io.CopyN(io.Discard, r, len) instead of make + ReadFull.
   The parameter [fx : bool] of the two decoders selects the repaired ([true]) or the original
   ([false]) reading of these three fields; [tm_read] is the repaired code, [tm_read_orig] the code
   before the repairs (used for the refutation examples and by the driver to name a regression).
   The SESS_INIT node id is still read with make([]byte, uint16) and copied into a string: at most
   65535 bytes each. *)
From DTN Require Import Base.
Open Scope N_scope.

(* ---- constants (tied to the Go source in Proofs/ConstsOkTcpclMsg.v via Model/SpecTcpclMsg.v) ---- *)
Definition tm_xfer_segment : N := 1.
Definition tm_xfer_ack : N := 2.
Definition tm_xfer_refuse : N := 3.
Definition tm_keepalive : N := 4.
Definition tm_sess_term : N := 5.
Definition tm_msg_reject : N := 6.
Definition tm_sess_init : N := 7.
Definition tm_contact : N := 100.                       (* 'd', first octet of the magic *)
Definition tm_head : list N := [100; 116; 110; 33; 4].  (* "dtn!" and version 4 *)

Definition tm_term_max : N := 5.     (* SESS_TERM reason codes 0..5 *)
Definition tm_refuse_max : N := 6.   (* XFER_REFUSE reason codes 0..6 *)
Definition tm_reject_min : N := 1.   (* MSG_REJECT reason codes 1..3 *)
Definition tm_reject_max : N := 3.

Definition tm_u8 : N := 256.
Definition tm_u16 : N := 65536.
Definition tm_u32 : N := 4294967296.
Definition tm_u64 : N := 18446744073709551616.
Definition tm_i63 : N := 9223372036854775808.     (* 2^63: int64(n) is negative from here on *)
Definition tm_max_alloc : N := 281474976710656.   (* 2^48: make([]byte, n) panics above (linux/amd64 maxAlloc) *)

(* growth of io.ReadAll's buffer: 512 bytes to start with, then append's policy (at most x1.25+192 and
   size-class rounding per step): everything it ever allocates for k bytes read is below this *)
Definition tm_grow (k : N) : N := 8 * k + 1024.

(* ---- messages ---- *)
Inductive tm_msg :=
| TmContact (flags : N)
| TmSessInit (keepalive segment_mru transfer_mru : N) (node_id : list N)
| TmSessTerm (flags reason : N)
| TmXferSegment (flags tid : N) (data : list N)
| TmXferAck (flags tid len : N)
| TmXferRefuse (reason tid : N)
| TmKeepalive
| TmMsgReject (reason header : N).

Definition tm_msg_eqb (a b : tm_msg) : bool :=
  match a, b with
  | TmContact f, TmContact f' => f =? f'
  | TmSessInit k s t n, TmSessInit k' s' t' n' => (k =? k') && (s =? s') && (t =? t') && bytes_eqb n n'
  | TmSessTerm f c, TmSessTerm f' c' => (f =? f') && (c =? c')
  | TmXferSegment f t d, TmXferSegment f' t' d' => (f =? f') && (t =? t') && bytes_eqb d d'
  | TmXferAck f t l, TmXferAck f' t' l' => (f =? f') && (t =? t') && (l =? l')
  | TmXferRefuse c t, TmXferRefuse c' t' => (c =? c') && (t =? t')
  | TmKeepalive, TmKeepalive => true
  | TmMsgReject c h, TmMsgReject c' h' => (c =? c') && (h =? h')
  | _, _ => false
  end.

Definition tm_term_valid (c : N) : bool := c <=? tm_term_max.
Definition tm_refuse_valid (c : N) : bool := c <=? tm_refuse_max.
Definition tm_reject_valid (c : N) : bool := (tm_reject_min <=? c) && (c <=? tm_reject_max).
Definition tm_type_known (b : N) : bool :=
  ((1 <=? b) && (b <=? 7)) || (b =? tm_contact).

(* the values the Go types can hold and the decoders accept: the encoders' silent limits.
   Beyond them: Marshal writes uint16(len(NodeId)) - the length wraps modulo 65536 while all bytes
   of the node id are written; Marshal writes any reason code, valid or not. *)
Definition tm_wf (m : tm_msg) : bool :=
  match m with
  | TmContact f => f <? tm_u8
  | TmSessInit k s t n => (k <? tm_u16) && (s <? tm_u64) && (t <? tm_u64) && (nlen n <? tm_u16)
  | TmSessTerm f c => (f <? tm_u8) && tm_term_valid c
  | TmXferSegment f t d => (f <? tm_u8) && (t <? tm_u64) && (nlen d <? tm_i63)
  | TmXferAck f t l => (f <? tm_u8) && (t <? tm_u64) && (l <? tm_u64)
  | TmXferRefuse c t => tm_refuse_valid c && (t <? tm_u64)
  | TmKeepalive => true
  | TmMsgReject c h => tm_reject_valid c && (h <? tm_u8)
  end.

(* ---- Marshal ---- *)
Definition tm_enc (m : tm_msg) : list N :=
  match m with
  | TmContact f => tm_head ++ be_encode 1 f
  | TmSessInit k s t n =>
      [tm_sess_init] ++ be_encode 2 k ++ be_encode 8 s ++ be_encode 8 t
      ++ be_encode 2 (nlen n) ++ n ++ be_encode 4 0
  | TmSessTerm f c => [tm_sess_term] ++ be_encode 1 f ++ be_encode 1 c
  | TmXferSegment f t d =>
      [tm_xfer_segment] ++ be_encode 1 f ++ be_encode 8 t ++ be_encode 4 0 ++ be_encode 8 (nlen d) ++ d
  | TmXferAck f t l => [tm_xfer_ack] ++ be_encode 1 f ++ be_encode 8 t ++ be_encode 8 l
  | TmXferRefuse c t => [tm_xfer_refuse] ++ be_encode 1 c ++ be_encode 8 t
  | TmKeepalive => [tm_keepalive]
  | TmMsgReject c h => [tm_msg_reject] ++ be_encode 1 c ++ be_encode 1 h
  end.

(* ---- reader monad: outcome and allocation account ---- *)
Inductive tm_res (A : Type) : Type :=
| TmOk (a : A) (rest : list N)
| TmErr
| TmPanic.
Arguments TmOk {A} a rest.
Arguments TmErr {A}.
Arguments TmPanic {A}.

Definition tm_out (A : Type) : Type := (tm_res A * N)%type.
Definition tm_reader (A : Type) : Type := list N -> tm_out A.

Definition tm_ret {A} (a : A) : tm_reader A := fun r => (TmOk a r, 0).
Definition tm_fail {A} : tm_reader A := fun _ => (TmErr, 0).

Definition tm_bind {A B} (p : tm_reader A) (f : A -> tm_reader B) : tm_reader B := fun bs =>
  match p bs with
  | (TmOk a r, n) => let q := f a r in (fst q, n + snd q)
  | (TmErr, n) => (TmErr, n)
  | (TmPanic, n) => (TmPanic, n)
  end.

Notation "x <-- p ;; q" := (tm_bind p (fun x => q))
  (at level 61, p at next level, right associativity, only parsing).

(* binary.Read of one big-endian unsigned integer of [w] bytes *)
Definition tm_u (w : nat) : tm_reader N := fun bs =>
  match take_exact w bs with
  | Some (x, r) => tm_ret (be_decode x) r
  | None => tm_fail bs
  end.

Definition tm_split (n : N) (bs : list N) : option (list N * list N) :=
  if nlen bs <? n then None else Some (firstn (N.to_nat n) bs, skipn (N.to_nat n) bs).

(* buf := make([]byte, n); io.ReadFull(r, buf): the allocation happens before the bytes are there *)
Definition tm_make_full (n : N) : tm_reader (list N) := fun bs =>
  if tm_max_alloc <? n then (TmPanic, 0)
  else match tm_split n bs with
       | Some (d, r) => (TmOk d r, n)
       | None => (TmErr, n)
       end.

(* buf := make([]byte, n); io.ReadFull(r, buf); s := string(buf): the conversion copies the bytes *)
Definition tm_make_str (n : N) : tm_reader (list N) := fun bs =>
  match tm_make_full n bs with
  | (TmOk d r, a) => (TmOk d r, a + n)
  | x => x
  end.

(* io.CopyN(io.Discard, r, int64(n)) for n < 2^32: nothing is allocated for the skipped bytes *)
Definition tm_discard (n : N) : tm_reader unit := fun bs =>
  match tm_split n bs with
  | Some (_, r) => tm_ret tt r
  | None => tm_fail bs
  end.

(* io.ReadAll(io.LimitReader(r, int64(n))) followed by the length comparison: the buffer grows with the
   bytes that arrive; for n >= 2^63 the limit is negative, nothing is read and the lengths differ *)
Definition tm_read_grow (n : N) : tm_reader (list N) := fun bs =>
  if tm_i63 <=? n then (TmErr, tm_grow 0)
  else match tm_split n bs with
       | Some (d, r) => (TmOk d r, tm_grow n)
       | None => (TmErr, tm_grow (nlen bs))
       end.

(* skipped extension items / data field, repaired ([fx = true]) or original code *)
Definition tm_skip (fx : bool) (n : N) : tm_reader unit :=
  if fx then tm_discard n else (_x <-- tm_make_full n ;; tm_ret tt).
Definition tm_data (fx : bool) (n : N) : tm_reader (list N) :=
  if fx then tm_read_grow n else tm_make_full n.

(* the message header octet every Unmarshal re-reads through the MultiReader *)
Definition tm_expect (t : N) : tm_reader unit :=
  b <-- tm_u 1 ;; if b =? t then tm_ret tt else tm_fail.

(* ---- Unmarshal of each type ---- *)
Definition tm_dec_contact : tm_reader tm_msg := fun bs =>
  match take_exact 6 bs with
  | Some (x, r) =>
      if bytes_eqb (firstn 5 x) tm_head then tm_ret (TmContact (be_decode (skipn 5 x))) r else tm_fail bs
  | None => tm_fail bs
  end.

Definition tm_dec_sess_init_gen (fx : bool) : tm_reader tm_msg :=
  _h <-- tm_expect tm_sess_init ;;
  k <-- tm_u 2 ;;
  s <-- tm_u 8 ;;
  t <-- tm_u 8 ;;
  nl <-- tm_u 2 ;;
  nid <-- tm_make_str nl ;;
  el <-- tm_u 4 ;;
  _e <-- (if el =? 0 then tm_ret tt else tm_skip fx el) ;;
  tm_ret (TmSessInit k s t nid).

Definition tm_dec_sess_term : tm_reader tm_msg :=
  _h <-- tm_expect tm_sess_term ;;
  f <-- tm_u 1 ;;
  c <-- tm_u 1 ;;
  if tm_term_valid c then tm_ret (TmSessTerm f c) else tm_fail.

Definition tm_dec_xfer_segment_gen (fx : bool) : tm_reader tm_msg :=
  _h <-- tm_expect tm_xfer_segment ;;
  f <-- tm_u 1 ;;
  t <-- tm_u 8 ;;
  el <-- tm_u 4 ;;
  _e <-- (if el =? 0 then tm_ret tt else tm_skip fx el) ;;
  dl <-- tm_u 8 ;;
  d <-- (if dl =? 0 then tm_ret [] else tm_data fx dl) ;;
  tm_ret (TmXferSegment f t d).

Definition tm_dec_xfer_ack : tm_reader tm_msg :=
  _h <-- tm_expect tm_xfer_ack ;;
  f <-- tm_u 1 ;;
  t <-- tm_u 8 ;;
  l <-- tm_u 8 ;;
  tm_ret (TmXferAck f t l).

Definition tm_dec_xfer_refuse : tm_reader tm_msg :=
  _h <-- tm_expect tm_xfer_refuse ;;
  c <-- tm_u 1 ;;
  t <-- tm_u 8 ;;
  if tm_refuse_valid c then tm_ret (TmXferRefuse c t) else tm_fail.

Definition tm_dec_keepalive : tm_reader tm_msg :=
  _h <-- tm_expect tm_keepalive ;; tm_ret TmKeepalive.

Definition tm_dec_msg_reject : tm_reader tm_msg :=
  _h <-- tm_expect tm_msg_reject ;;
  c <-- tm_u 1 ;;
  h <-- tm_u 1 ;;
  if tm_reject_valid c then tm_ret (TmMsgReject c h) else tm_fail.

Definition tm_dec_sess_init := tm_dec_sess_init_gen true.
Definition tm_dec_xfer_segment := tm_dec_xfer_segment_gen true.

(* ---- ReadMessage: dispatch on the first octet, which the chosen Unmarshal reads again ---- *)
Definition tm_read_gen (fx : bool) : tm_reader tm_msg := fun bs =>
  match bs with
  | [] => tm_fail bs                                (* io.EOF *)
  | b :: _ =>
      if b =? tm_xfer_segment then tm_dec_xfer_segment_gen fx bs
      else if b =? tm_xfer_ack then tm_dec_xfer_ack bs
      else if b =? tm_xfer_refuse then tm_dec_xfer_refuse bs
      else if b =? tm_keepalive then tm_dec_keepalive bs
      else if b =? tm_sess_term then tm_dec_sess_term bs
      else if b =? tm_msg_reject then tm_dec_msg_reject bs
      else if b =? tm_sess_init then tm_dec_sess_init_gen fx bs
      else if b =? tm_contact then tm_dec_contact bs
      else tm_fail bs                               (* no message registered for the type code *)
  end.

Definition tm_read := tm_read_gen true.
Definition tm_read_orig := tm_read_gen false.

Definition tm_is_ok {A} (o : tm_out A) : bool :=
  match fst o with TmOk _ _ => true | _ => false end.
Definition tm_is_panic {A} (o : tm_out A) : bool :=
  match fst o with TmPanic => true | _ => false end.

(* ---- a stream of messages, read with ReadMessage until the end or the first error
   (utils.MessageSwitchReaderWriter.handleIn) ---- *)
Inductive tm_end := TmEof | TmBad | TmCrash.

(* result: the messages, how the stream ended, the allocation account of the whole loop *)
Fixpoint tm_stream_fuel (fx : bool) (fuel : nat) (bs : list N) : list tm_msg * tm_end * N :=
  match bs with
  | [] => ([], TmEof, 0)
  | _ =>
    match fuel with
    | O => ([], TmBad, 0)
    | S fuel' =>
      match tm_read_gen fx bs with
      | (TmOk m r, a) =>
          let '(ms, e, a') := tm_stream_fuel fx fuel' r in (m :: ms, e, a + a')
      | (TmErr, a) => ([], TmBad, a)
      | (TmPanic, a) => ([], TmCrash, a)
      end
    end
  end.

(* every message takes at least one byte, so [length bs] rounds suffice *)
Definition tm_stream (bs : list N) : list tm_msg * tm_end * N := tm_stream_fuel true (length bs) bs.
Definition tm_stream_orig (bs : list N) : list tm_msg * tm_end * N := tm_stream_fuel false (length bs) bs.

(* the allocation bound of the property: c1 * length + c0 *)
Definition tm_alloc_c1 : N := 8.
Definition tm_alloc_c0 : N := 65535.
Definition tm_alloc_bound (len : N) : N := tm_alloc_c1 * len + tm_alloc_c0.
(* for a whole stream the 1024-byte start of a data buffer is paid once per message, and every
   message takes at least one byte *)
Definition tm_stream_c1 : N := 1032.
Definition tm_stream_bound (len : N) : N := tm_stream_c1 * len + tm_alloc_c0.
