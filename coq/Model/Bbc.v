(* Bbc.v - executable model of pkg/cla/bbc: fragment header, outgoing / incoming transmission,
   connector's transmission table.  Bytes are N < 256. *)
From DTN Require Import Base.
Open Scope N_scope.

Record fragment := { f_tid : N; f_ident : N; f_payload : list N }.

(* NewFragment: identifier |= (seq & 0x1F) << 3 (truncated to a byte); |= 4/2/1 *)
Definition new_fragment (tid seq : N) (st en fl : bool) (payload : list N) : fragment :=
  {| f_tid := tid;
     f_ident := N.lor (N.lor (N.lor ((N.shiftl (N.land seq 31) 3) mod 256)
                                    (if st then 4 else 0))
                             (if en then 2 else 0))
                      (if fl then 1 else 0);
     f_payload := payload |}.

Definition f_seq (f : fragment) : N := N.land (N.shiftr (f_ident f) 3) 31.
Definition f_start (f : fragment) : bool := negb (N.land (f_ident f) 4 =? 0).
Definition f_end (f : fragment) : bool := negb (N.land (f_ident f) 2 =? 0).
Definition f_fail (f : fragment) : bool := negb (N.land (f_ident f) 1 =? 0).

Definition frag_bytes (f : fragment) : list N := f_tid f :: f_ident f :: f_payload f.

Definition parse_fragment (data : list N) : option fragment :=
  match data with
  | t :: i :: p => Some {| f_tid := t; f_ident := i; f_payload := p |}
  | _ => None
  end.

Definition report_failure (f : fragment) : fragment :=
  new_fragment (f_tid f) (f_seq f) false false true [].

Definition next_seq (s : N) : N := ((s + 1) mod 256) mod 16.
Definition next_tid (t : N) : N := (t + 1) mod 256.

Definition fragment_eqb (a b : fragment) : bool :=
  (f_tid a =? f_tid b) && (f_ident a =? f_ident b) && bytes_eqb (f_payload a) (f_payload b).

(* ---- outgoing transmission ---------------------------------------------------------- *)
(* newPlainOutgoingTransmission + repeated WriteFragment until finished.
   [room] = mtu - 2 as a *signed* Go int; the model takes room : Z.
   WriteFragment: if len(payload) <= room then last fragment else payload[:room] (panics for
   negative room; room = 0 with a non-empty payload never finishes). The model is defined for
   room >= 1 (mtu >= 3, the property's range); [out_fragments] returns None otherwise unless the
   payload is empty (then the transmission is born finished and WriteFragment errs: no fragment
   at all). *)

Fixpoint out_loop (fuel : nat) (tid : N) (room : nat) (payload : list N) (start : bool) (seq : N)
  : list fragment :=
  match fuel with
  | O => []
  | S fuel =>
      let s' := next_seq seq in
      if Nat.leb (length payload) room then
        [new_fragment tid s' start true false payload]
      else
        new_fragment tid s' start false false (firstn room payload)
        :: out_loop fuel tid room (skipn room payload) false s'
  end.

Definition out_fragments (tid : N) (room : nat) (payload : list N) : option (list fragment) :=
  match payload with
  | [] => Some []      (* born finished: WriteFragment returns an error, nothing is sent *)
  | _ => match room with
         | O => None
         | _ => Some (out_loop (S (length payload)) tid room payload true 0)
         end
  end.

(* ---- incoming transmission ---------------------------------------------------------- *)
Record incoming := { i_tid : N; i_payload : list N; i_finished : bool; i_prev : N }.

Definition new_incoming (f : fragment) : option incoming :=
  if f_start f then
    Some {| i_tid := f_tid f; i_payload := f_payload f; i_finished := f_end f; i_prev := f_seq f |}
  else None.

Definition read_fragment (t : incoming) (f : fragment) : option incoming :=
  if i_finished t then None
  else if negb (f_tid f =? i_tid t) then None
  else if negb (f_seq f =? next_seq (i_prev t)) then None
  else if f_start f then None
  else Some {| i_tid := i_tid t; i_payload := i_payload t ++ f_payload f;
               i_finished := f_end f; i_prev := f_seq f |}.

(* ---- connector: transmission table ---------------------------------------------------- *)
(* table: association list tid -> incoming (at most one entry per tid) *)
Definition table := list (N * incoming).

Fixpoint tbl_find (tb : table) (tid : N) : option incoming :=
  match tb with
  | [] => None
  | (k, v) :: tb => if k =? tid then Some v else tbl_find tb tid
  end.
Fixpoint tbl_remove (tb : table) (tid : N) : table :=
  match tb with
  | [] => []
  | (k, v) :: tb => if k =? tid then tbl_remove tb tid else (k, v) :: tbl_remove tb tid
  end.
Definition tbl_set (tb : table) (tid : N) (v : incoming) : table := (tid, v) :: tbl_remove tb tid.

(* What handling one incoming fragment produces. *)
Inductive conn_out :=
| OutFailFrag (f : fragment)      (* failure fragment queued for broadcast *)
| OutFailedTid (tid : N)          (* a peer's failure fragment: tid pushed to failTransmission *)
| OutBlob (tid : N) (blob : list N). (* finished transmission: compressed blob handed to the decoder *)

(* [decodes blob] : does Transmission.Bundle() succeed on the blob (xz + CBOR - outside this
   model, supplied by the caller / observed from the run). *)
Definition handle_fragment (decodes : list N -> bool) (tb : table) (f : fragment)
  : table * list conn_out :=
  if f_fail f then (tb, [OutFailedTid (f_tid f)])
  else
    match tbl_find tb (f_tid f) with
    | None =>
        match new_incoming f with
        | None => (tb, [OutFailFrag (report_failure f)])
        | Some t =>
            let tb' := tbl_set tb (f_tid f) t in
            if i_finished t then
              if decodes (i_payload t)
              then (tbl_remove tb' (i_tid t), [OutBlob (i_tid t) (i_payload t)])
              else (tbl_remove tb' (i_tid t), [OutFailFrag (report_failure f)])
            else (tb', [])
        end
    | Some t =>
        match read_fragment t f with
        | None => (tbl_remove tb (i_tid t), [OutFailFrag (report_failure f)])
        | Some t' =>
            (* Go mutates the transmission in place inside the map *)
            let tb' := tbl_set tb (f_tid f) t' in
            if i_finished t' then
              if decodes (i_payload t')
              then (tbl_remove tb' (i_tid t'), [OutBlob (i_tid t') (i_payload t')])
              else (tbl_remove tb' (i_tid t'), [OutFailFrag (report_failure f)])
            else (tb', [])
        end
    end.

Fixpoint handle_all (decodes : list N -> bool) (tb : table) (fs : list fragment)
  : table * list conn_out :=
  match fs with
  | [] => (tb, [])
  | f :: fs =>
      let '(tb1, o1) := handle_fragment decodes tb f in
      let '(tb2, o2) := handle_all decodes tb1 fs in
      (tb2, o1 ++ o2)
  end.

(* ---- connector: the shared outgoing queue ---------------------------------------------- *)
(* Connector.fragmentOut is ONE bounded FIFO (capacity 64).  Two producers write to it, both with a
   blocking channel send: Connector.Send (the fragments of the node's own transmission, [BqOwn]) and
   the deferred failure report of handleIncomingFragment ([BqFail]); handlerWrite empties it into
   the modem ([BqPop]).  A producer whose send would exceed the capacity is not enabled (it blocks);
   nothing is ever discarded. *)
Inductive bbcq_ev := BqOwn | BqFail | BqPop.

Record bbcq_state := { bq_own : list fragment;      (* own fragments not yet queued, in order *)
                       bq_fail : list fragment;     (* failure fragments not yet queued, in order *)
                       bq_queue : list fragment;    (* fragmentOut *)
                       bq_sent : list fragment }.   (* handed to Modem.Send, in order *)

Definition bbcq_init (own fails : list fragment) : bbcq_state :=
  {| bq_own := own; bq_fail := fails; bq_queue := []; bq_sent := [] |}.

Definition bbcq_step (cap : nat) (s : bbcq_state) (e : bbcq_ev) : option bbcq_state :=
  match e with
  | BqOwn =>
      match bq_own s with
      | f :: r => if Nat.ltb (length (bq_queue s)) cap
                  then Some {| bq_own := r; bq_fail := bq_fail s; bq_queue := bq_queue s ++ [f]; bq_sent := bq_sent s |}
                  else None
      | [] => None
      end
  | BqFail =>
      match bq_fail s with
      | f :: r => if Nat.ltb (length (bq_queue s)) cap
                  then Some {| bq_own := bq_own s; bq_fail := r; bq_queue := bq_queue s ++ [f]; bq_sent := bq_sent s |}
                  else None
      | [] => None
      end
  | BqPop =>
      match bq_queue s with
      | f :: r => Some {| bq_own := bq_own s; bq_fail := bq_fail s; bq_queue := r; bq_sent := bq_sent s ++ [f] |}
      | [] => None
      end
  end.

Fixpoint bbcq_run (cap : nat) (s : bbcq_state) (evs : list bbcq_ev) : option bbcq_state :=
  match evs with
  | [] => Some s
  | e :: evs => match bbcq_step cap s e with Some s' => bbcq_run cap s' evs | None => None end
  end.

Definition bbcq_done (s : bbcq_state) : bool :=
  match bq_own s, bq_fail s, bq_queue s with [], [], [] => true | _, _, _ => false end.

Fixpoint bbc_frags_eqb (a b : list fragment) : bool :=
  match a, b with
  | [], [] => true
  | x :: a, y :: b => fragment_eqb x y && bbc_frags_eqb a b
  | _, _ => false
  end.

(* what a modem must have seen once everything has drained: a loss-free, order-preserving merge of
   the own fragments and the failure fragments (which is which is told by the fail bit) *)
Definition bbcq_sent_ok (own fails sent : list fragment) : bool :=
  bbc_frags_eqb (filter (fun f => negb (f_fail f)) sent) own && bbc_frags_eqb (filter f_fail sent) fails.
