(* MuxConc.v - sub-step (interleaving) model of pkg/agent MuxAgent with its children, property C07.
   Executable definitions only; proofs are in Proofs/MuxConcProofs.v.

   What is modelled (granularity = one synchronisation operation per step):
   - MuxAgent.handle: `for msg := range mux.receiver` (rendezvous with a deliverer: receiver is unbuffered),
     mux.Lock, the range over mux.children (slice header read once, under the lock), per child the
     AppAgentContainsEndpoint check (reads the child's endpoint) and the send `child.MessageReceiver() <- msg`
     (rendezvous: every receiver channel is unbuffered) WHILE HOLDING THE LOCK, mux.Unlock.
   - MuxAgent.Register: Lock, append + `go handleChild`, Unlock; then (WebSocketAgent.ServeHTTP) client.start().
   - MuxAgent.handleChild: range over the child's sender (rendezvous / observes close(sender)), forward
     `mux.sender <- msg` (unbuffered) to the upstream consumer, on close: unregister = Lock,
     close(child.receiver), in-place removal from the slice, Unlock.
   - MuxAgent.Endpoints (AgentManager.HasEndpoint, Core.HasEndpoint, the first half of AgentManager.Deliver):
     Lock, iteration cell by cell, Unlock.  With [mxc_nocopy] (seeded defect C07-r2-1) the slice header is
     taken under the lock, the lock released and the cells of the shared backing array are read afterwards.
   - AgentManager.Deliver: Endpoints query, then `mux.receiver <- msg`.
   - the upstream consumer AgentManager.handler: takes a message from mux.sender and runs handleMessage ->
     Core.SendBundle -> transmit / dispatching itself, i.e. a HasEndpoint query on the same multiplexer and, if
     somebody is registered for the destination, Deliver (one query stands for Core.HasEndpoint and the one
     inside Deliver): callers with [mxl_up] take their work from mux.sender when idle ([mxc_upsync], the code).
     Without [mxc_upsync] (variant `go manager.handleMessage(msg)`) the handler is always ready and a new
     goroutine works the message off.
   - a child (webAgentClient / PingAgent / mock agent): reader goroutine (handleReceiver / PingAgent.handler:
     takes from its receiver; may fail at any point = write error; then shutdown() = close(sender) once, and
     - with [mxc_drain], commit 7ebd25e - keeps taking until the multiplexer closes the receiver; a child of
     kind [mxh_reply] - the PingAgent before commit 56aabd8, no agent of the tree any more - sends an answer to
     its own sender from the reader goroutine before it reads again), connection goroutine (handleConn: sets the endpoint once, sends bundles upstream, may end at any
     point: shutdown()).  A reader may also stall (stop reading without disconnecting; environment fault).
   Leaf critical sections (webAgentClient's own mutex: Endpoints, handleIncomingRegister, writeMessage) contain
   no operation on the modelled objects and are single steps; network writes are assumed to return.
   A send on a closed channel: MuxAgent.handle sending to a closed receiver sets [mxs_panic] (proved
   unreachable); handleConn sending on the sender its own client has closed panics inside the goroutine
   net/http runs ServeHTTP in, which net/http recovers: that goroutine ends, the message is lost.
   The slice: [mxs_children] are the cells below len, [mxs_stale] the written cells between len and cap of
   the live backing array, [mxs_cap] its capacity; append re-allocates when len = cap (readers that hold the
   old header keep the old array: [fz]).  ShutdownMessage / AgentManager.Close are not modelled. *)
From DTN Require Import Base.
Open Scope nat_scope.

Record mxc_cfg := mk_mxc_cfg {
  mxc_drain : bool;     (* the drain loop of commit 7ebd25e in webAgentClient.handleReceiver *)
  mxc_nocopy : bool;    (* seeded defect: Endpoints() iterates the un-copied slice after unlocking *)
  mxc_upsync : bool     (* AgentManager.handler runs handleMessage itself (the code); false: `go handleMessage` *)
}.
Definition mxc_real : mxc_cfg := mk_mxc_cfg true false true.
Definition mxc_async : mxc_cfg := mk_mxc_cfg true false false.

(* a bundle as far as the multiplexer looks at it: identity (stands for the content), destination, report-to *)
Record mxc_bundle := mk_mxb { mxb_id : N; mxb_dst : N; mxb_rpt : N }.
Definition mxc_reply (b : mxc_bundle) : mxc_bundle := mk_mxb (mxb_id b) (mxb_rpt b) (mxb_rpt b).

Inductive mxc_cop := MxSetEp (e : N) | MxSend (b : mxc_bundle).
Inductive mxc_op := MxQuery (e : N) | MxDeliver (b : mxc_bundle).
(* outcomes of a caller's operations; [must] = endpoints of the children registered when the query took the lock *)
Inductive mxc_res := MxHas (e : N) (r : bool) (must : list N) | MxSent (b : mxc_bundle) | MxNoAgent (b : mxc_bundle) (must : list N).

Inductive mxc_gpc := MxG0 | MxG1 | MxG2 | MxG3 | MxG4.
Inductive mxc_rpc := MxR0 | MxRrun | MxRreply (b : mxc_bundle) | MxRstall | MxRshut | MxRdrain | MxRdone.
Inductive mxc_npc := MxN0 | MxNrun | MxNdone.
Inductive mxc_kpc := MxK0 | MxKrecv | MxKfwd (b : mxc_bundle) | MxKlock | MxKclose | MxKrm | MxKunl | MxKdone.

Record mxc_child := mk_mxch {
  mxh_ep : option N;            (* the endpoint the child answers to (a WebSocket client sets it once) *)
  mxh_reply : bool;             (* answers upstream from the reader goroutine (PingAgent before 56aabd8), no connection *)
  mxh_reg : mxc_gpc;            (* the goroutine calling Register / start *)
  mxh_rd : mxc_rpc;             (* reader goroutine *)
  mxh_cn : mxc_npc;             (* connection goroutine *)
  mxh_script : list mxc_cop;    (* what the connection goroutine still does *)
  mxh_kid : mxc_kpc;            (* MuxAgent.handleChild of this child *)
  mxh_rclosed : bool;           (* close(receiver) happened *)
  mxh_sclosed : bool;           (* close(sender) happened *)
  mxh_log : list mxc_bundle;    (* messages the reader took while reading (ghost) *)
  mxh_since : option nat        (* ghost: number of fan-outs that had passed the child when it became registered with an endpoint *)
}.
Definition mxc_dch : mxc_child := mk_mxch None false MxG0 MxR0 MxN0 [] MxK0 false false [] None.

Definition mxh_set_ep v c := mk_mxch v (mxh_reply c) (mxh_reg c) (mxh_rd c) (mxh_cn c) (mxh_script c) (mxh_kid c) (mxh_rclosed c) (mxh_sclosed c) (mxh_log c) (mxh_since c).
Definition mxh_set_reg v c := mk_mxch (mxh_ep c) (mxh_reply c) v (mxh_rd c) (mxh_cn c) (mxh_script c) (mxh_kid c) (mxh_rclosed c) (mxh_sclosed c) (mxh_log c) (mxh_since c).
Definition mxh_set_rd v c := mk_mxch (mxh_ep c) (mxh_reply c) (mxh_reg c) v (mxh_cn c) (mxh_script c) (mxh_kid c) (mxh_rclosed c) (mxh_sclosed c) (mxh_log c) (mxh_since c).
Definition mxh_set_cn v c := mk_mxch (mxh_ep c) (mxh_reply c) (mxh_reg c) (mxh_rd c) v (mxh_script c) (mxh_kid c) (mxh_rclosed c) (mxh_sclosed c) (mxh_log c) (mxh_since c).
Definition mxh_set_script v c := mk_mxch (mxh_ep c) (mxh_reply c) (mxh_reg c) (mxh_rd c) (mxh_cn c) v (mxh_kid c) (mxh_rclosed c) (mxh_sclosed c) (mxh_log c) (mxh_since c).
Definition mxh_set_kid v c := mk_mxch (mxh_ep c) (mxh_reply c) (mxh_reg c) (mxh_rd c) (mxh_cn c) (mxh_script c) v (mxh_rclosed c) (mxh_sclosed c) (mxh_log c) (mxh_since c).
Definition mxh_set_rclosed v c := mk_mxch (mxh_ep c) (mxh_reply c) (mxh_reg c) (mxh_rd c) (mxh_cn c) (mxh_script c) (mxh_kid c) v (mxh_sclosed c) (mxh_log c) (mxh_since c).
Definition mxh_set_sclosed v c := mk_mxch (mxh_ep c) (mxh_reply c) (mxh_reg c) (mxh_rd c) (mxh_cn c) (mxh_script c) (mxh_kid c) (mxh_rclosed c) v (mxh_log c) (mxh_since c).
Definition mxh_set_log v c := mk_mxch (mxh_ep c) (mxh_reply c) (mxh_reg c) (mxh_rd c) (mxh_cn c) (mxh_script c) (mxh_kid c) (mxh_rclosed c) (mxh_sclosed c) v (mxh_since c).
Definition mxh_set_since v c := mk_mxch (mxh_ep c) (mxh_reply c) (mxh_reg c) (mxh_rd c) (mxh_cn c) (mxh_script c) (mxh_kid c) (mxh_rclosed c) (mxh_sclosed c) (mxh_log c) v.

(* a caller: a goroutine running Endpoints queries / Deliver calls one after the other *)
Inductive mxc_cpc :=
| MxCidle
| MxCearly (n : nat)                                              (* nocopy: header taken, about to unlock *)
| MxCiter (n j : nat) (fz : option (list nat)) (acc : list N)     (* iterating; holds the lock unless nocopy *)
| MxCsend (b : mxc_bundle).                                       (* Deliver: mux.receiver <- b *)
Record mxc_caller := mk_mxcl {
  mxl_ops : list mxc_op; mxl_pc : mxc_cpc;
  mxl_up : bool;                 (* AgentManager.handler: takes its work from mux.sender when idle *)
  mxl_must : list N;             (* ghost: endpoints registered when the running query took the lock *)
  mxl_res : list mxc_res }.
Definition mxc_dcl : mxc_caller := mk_mxcl [] MxCidle false [] [].
Definition mxl_set_ops v l := mk_mxcl v (mxl_pc l) (mxl_up l) (mxl_must l) (mxl_res l).
Definition mxl_set_pc v l := mk_mxcl (mxl_ops l) v (mxl_up l) (mxl_must l) (mxl_res l).
Definition mxl_set_must v l := mk_mxcl (mxl_ops l) (mxl_pc l) (mxl_up l) v (mxl_res l).
Definition mxl_set_res v l := mk_mxcl (mxl_ops l) (mxl_pc l) (mxl_up l) (mxl_must l) v.

Inductive mxc_hpc :=
| MxHrecv | MxHlock (m : mxc_bundle) | MxHloop (m : mxc_bundle) (rest : list nat)
| MxHsend (m : mxc_bundle) (c : nat) (rest : list nat).
Inductive mxc_owner := MxOH | MxOC (i : nat) | MxOG (c : nat) | MxOK (c : nat).

Record mxc_state := mk_mxs {
  mxs_lock : option mxc_owner;
  mxs_hd : mxc_hpc;
  mxs_children : list nat;
  mxs_stale : list nat;
  mxs_cap : nat;
  mxs_chs : list mxc_child;
  mxs_cls : list mxc_caller;
  mxs_acc : list mxc_bundle;        (* ghost: messages handle took from mux.receiver, in order *)
  mxs_panic : bool }.
Definition mxs_set_lock v s := mk_mxs v (mxs_hd s) (mxs_children s) (mxs_stale s) (mxs_cap s) (mxs_chs s) (mxs_cls s) (mxs_acc s) (mxs_panic s).
Definition mxs_set_hd v s := mk_mxs (mxs_lock s) v (mxs_children s) (mxs_stale s) (mxs_cap s) (mxs_chs s) (mxs_cls s) (mxs_acc s) (mxs_panic s).
Definition mxs_set_arr ch st cap s := mk_mxs (mxs_lock s) (mxs_hd s) ch st cap (mxs_chs s) (mxs_cls s) (mxs_acc s) (mxs_panic s).
Definition mxs_set_chs v s := mk_mxs (mxs_lock s) (mxs_hd s) (mxs_children s) (mxs_stale s) (mxs_cap s) v (mxs_cls s) (mxs_acc s) (mxs_panic s).
Definition mxs_set_cls v s := mk_mxs (mxs_lock s) (mxs_hd s) (mxs_children s) (mxs_stale s) (mxs_cap s) (mxs_chs s) v (mxs_acc s) (mxs_panic s).
Definition mxs_set_acc v s := mk_mxs (mxs_lock s) (mxs_hd s) (mxs_children s) (mxs_stale s) (mxs_cap s) (mxs_chs s) (mxs_cls s) v (mxs_panic s).
Definition mxs_set_panic v s := mk_mxs (mxs_lock s) (mxs_hd s) (mxs_children s) (mxs_stale s) (mxs_cap s) (mxs_chs s) (mxs_cls s) (mxs_acc s) v.

Inductive mxc_tid :=
| MxTH | MxTC (i : nat) | MxTG (c : nat) | MxTR (c : nat) | MxTN (c : nat) | MxTK (c : nat)
| MxTRfail (c : nat) | MxTRstall (c : nat) | MxTNclose (c : nat).      (* environment faults *)
Definition mxc_is_env (t : mxc_tid) : bool :=
  match t with MxTRfail _ | MxTRstall _ | MxTNclose _ => true | _ => false end.

Fixpoint mxc_upd {A} (i : nat) (v : A) (l : list A) : list A :=
  match l, i with
  | [], _ => []
  | _ :: r, O => v :: r
  | x :: r, S i => x :: mxc_upd i v r
  end.
Definition mxc_getc (s : mxc_state) (c : nat) : mxc_child := nth c (mxs_chs s) mxc_dch.
Definition mxc_getl (s : mxc_state) (i : nat) : mxc_caller := nth i (mxs_cls s) mxc_dcl.
Definition mxc_setc (c : nat) (v : mxc_child) (s : mxc_state) := mxs_set_chs (mxc_upd c v (mxs_chs s)) s.
Definition mxc_setl (i : nat) (v : mxc_caller) (s : mxc_state) := mxs_set_cls (mxc_upd i v (mxs_cls s)) s.

Definition mxc_mem (c : nat) (l : list nat) : bool := existsb (Nat.eqb c) l.
Definition mxc_match (e : option N) (m : mxc_bundle) : bool :=
  match e with Some x => N.eqb x (mxb_dst m) | None => false end.
Definition mxc_eps (ch : mxc_child) : list N := match mxh_ep ch with Some e => [e] | None => [] end.
Definition mxc_has (e : N) (l : list N) : bool := existsb (N.eqb e) l.

(* will handle still look at child c for the message it is working on? *)
Definition mxc_pend (s : mxc_state) (c : nat) : bool :=
  match mxs_hd s with
  | MxHrecv => false
  | MxHlock _ => true
  | MxHloop _ rest => mxc_mem c rest
  | MxHsend _ c' rest => Nat.eqb c c' || mxc_mem c rest
  end.
Definition mxc_cur (s : mxc_state) : list mxc_bundle :=
  match mxs_hd s with MxHrecv => [] | MxHlock m | MxHloop m _ | MxHsend m _ _ => [m] end.
Definition mxc_owed (s : mxc_state) (c : nat) : list mxc_bundle := if mxc_pend s c then mxc_cur s else [].
Definition mxc_started (s : mxc_state) (c : nat) : nat := length (mxs_acc s) - (if mxc_pend s c then 1 else 0).

(* ---- MuxAgent.handle ---- *)
Definition mxc_step_h (s : mxc_state) : option mxc_state :=
  match mxs_hd s with
  | MxHrecv => None
  | MxHlock m =>
      match mxs_lock s with
      | None => Some (mxs_set_hd (MxHloop m (mxs_children s)) (mxs_set_lock (Some MxOH) s))
      | Some _ => None
      end
  | MxHloop m [] => Some (mxs_set_hd MxHrecv (mxs_set_lock None s))
  | MxHloop m (c :: rest) =>
      if mxc_match (mxh_ep (mxc_getc s c)) m then Some (mxs_set_hd (MxHsend m c rest) s)
      else Some (mxs_set_hd (MxHloop m rest) s)
  | MxHsend m c rest =>
      let ch := mxc_getc s c in
      if mxh_rclosed ch then Some (mxs_set_panic true s)          (* send on closed channel *)
      else match mxh_rd ch with
           | MxRrun =>
               Some (mxs_set_hd (MxHloop m rest)
                      (mxc_setc c (mxh_set_rd (if mxh_reply ch then MxRreply (mxc_reply m) else MxRrun)
                                     (mxh_set_log (mxh_log ch ++ [m]) ch)) s))
           | MxRdrain => Some (mxs_set_hd (MxHloop m rest) s)
           | _ => None
           end
  end.

(* ---- Endpoints / HasEndpoint / Deliver ---- *)
Definition mxc_finish (cl : mxc_caller) (acc : list N) : mxc_caller :=
  match mxl_ops cl with
  | [] => mxl_set_pc MxCidle cl
  | MxQuery e :: r =>
      mxl_set_res (mxl_res cl ++ [MxHas e (mxc_has e acc) (mxl_must cl)]) (mxl_set_pc MxCidle (mxl_set_ops r cl))
  | MxDeliver b :: r =>
      if mxc_has (mxb_dst b) acc then mxl_set_pc (MxCsend b) cl
      else mxl_set_res (mxl_res cl ++ [MxNoAgent b (mxl_must cl)]) (mxl_set_pc MxCidle (mxl_set_ops r cl))
  end.

Definition mxc_step_c (cfg : mxc_cfg) (s : mxc_state) (i : nat) : option mxc_state :=
  if negb (i <? length (mxs_cls s)) then None else
  let cl := mxc_getl s i in
  match mxl_pc cl with
  | MxCidle =>
      match mxl_ops cl, mxs_lock s with
      | _ :: _, None =>
          let n := length (mxs_children s) in
          let must := flat_map (fun c => mxc_eps (mxc_getc s c)) (mxs_children s) in
          Some (mxc_setl i (mxl_set_must must
                              (mxl_set_pc (if mxc_nocopy cfg then MxCearly n else MxCiter n 0 None []) cl))
                  (mxs_set_lock (Some (MxOC i)) s))
      | _, _ => None
      end
  | MxCearly n => Some (mxc_setl i (mxl_set_pc (MxCiter n 0 None []) cl) (mxs_set_lock None s))
  | MxCiter n j fz acc =>
      if j <? n then
        let arr := match fz with Some a => a | None => mxs_children s ++ mxs_stale s end in
        let acc' := match nth_error arr j with Some c => acc ++ mxc_eps (mxc_getc s c) | None => acc end in
        Some (mxc_setl i (mxl_set_pc (MxCiter n (S j) fz acc') cl) s)
      else
        Some (mxc_setl i (mxc_finish cl acc) (if mxc_nocopy cfg then s else mxs_set_lock None s))
  | MxCsend b =>
      match mxs_hd s with
      | MxHrecv =>
          Some (mxc_setl i (mxl_set_res (mxl_res cl ++ [MxSent b]) (mxl_set_pc MxCidle (mxl_set_ops (tl (mxl_ops cl)) cl)))
                  (mxs_set_acc (mxs_acc s ++ [b]) (mxs_set_hd (MxHlock b) s)))
      | _ => None
      end
  end.

(* ---- Register + start ---- *)
Definition mxc_freeze (arr : list nat) (cl : mxc_caller) : mxc_caller :=
  match mxl_pc cl with
  | MxCiter n j None acc => mxl_set_pc (MxCiter n j (Some arr) acc) cl
  | _ => cl
  end.

Definition mxc_step_g (cfg : mxc_cfg) (s : mxc_state) (c : nat) : option mxc_state :=
  if negb (c <? length (mxs_chs s)) then None else
  let ch := mxc_getc s c in
  match mxh_reg ch with
  | MxG0 => match mxs_lock s with
            | None => Some (mxc_setc c (mxh_set_reg MxG1 ch) (mxs_set_lock (Some (MxOG c)) s))
            | Some _ => None
            end
  | MxG1 =>
      let since := match mxh_ep ch with Some _ => Some (mxc_started s c) | None => None end in
      let ch' := mxh_set_since since (mxh_set_kid MxKrecv (mxh_set_reg MxG2 ch)) in
      if length (mxs_children s) <? mxs_cap s then
        Some (mxc_setc c ch' (mxs_set_arr (mxs_children s ++ [c]) (tl (mxs_stale s)) (mxs_cap s) s))
      else
        let s1 := if mxc_nocopy cfg
                  then mxs_set_cls (map (mxc_freeze (mxs_children s ++ mxs_stale s)) (mxs_cls s)) s else s in
        Some (mxc_setc c ch' (mxs_set_arr (mxs_children s ++ [c]) [] (Nat.max 1 (2 * mxs_cap s)) s1))
  | MxG2 => Some (mxc_setc c (mxh_set_reg MxG3 ch) (mxs_set_lock None s))
  | MxG3 => Some (mxc_setc c (mxh_set_cn (if mxh_reply ch then MxNdone else MxNrun)
                                (mxh_set_rd MxRrun (mxh_set_reg MxG4 ch))) s)
  | MxG4 => None
  end.

(* ---- the child's reader goroutine ---- *)
Definition mxc_step_r (cfg : mxc_cfg) (s : mxc_state) (c : nat) : option mxc_state :=
  if negb (c <? length (mxs_chs s)) then None else
  let ch := mxc_getc s c in
  match mxh_rd ch with
  | MxRrun => if mxh_rclosed ch then Some (mxc_setc c (mxh_set_rd MxRshut ch) s) else None
  | MxRreply b =>
      match mxh_kid ch with
      | MxKrecv => Some (mxc_setc c (mxh_set_kid (MxKfwd b) (mxh_set_rd MxRrun ch)) s)
      | _ => None
      end
  | MxRshut =>
      Some (mxc_setc c (mxh_set_rd (if mxc_drain cfg then MxRdrain else MxRdone) (mxh_set_sclosed true ch)) s)
  | MxRdrain => if mxh_rclosed ch then Some (mxc_setc c (mxh_set_rd MxRdone ch) s) else None
  | _ => None
  end.
Definition mxc_step_rfail (s : mxc_state) (c : nat) : option mxc_state :=
  if negb (c <? length (mxs_chs s)) then None else
  let ch := mxc_getc s c in
  match mxh_rd ch with MxRrun => Some (mxc_setc c (mxh_set_rd MxRshut ch) s) | _ => None end.
Definition mxc_step_rstall (s : mxc_state) (c : nat) : option mxc_state :=
  if negb (c <? length (mxs_chs s)) then None else
  let ch := mxc_getc s c in
  match mxh_rd ch with MxRrun => Some (mxc_setc c (mxh_set_rd MxRstall ch) s) | _ => None end.

(* ---- the child's connection goroutine ---- *)
Definition mxc_step_n (s : mxc_state) (c : nat) : option mxc_state :=
  if negb (c <? length (mxs_chs s)) then None else
  let ch := mxc_getc s c in
  match mxh_cn ch, mxh_script ch with
  | MxNrun, MxSetEp e :: r =>
      match mxh_ep ch with
      | None => Some (mxc_setc c (mxh_set_since (Some (mxc_started s c)) (mxh_set_script r (mxh_set_ep (Some e) ch))) s)
      | Some _ => Some (mxc_setc c (mxh_set_cn MxNdone (mxh_set_sclosed true ch)) s)   (* error: handleConn returns *)
      end
  | MxNrun, MxSend b :: r =>
      if mxh_sclosed ch then Some (mxc_setc c (mxh_set_cn MxNdone ch) s)
        (* send on closed channel: the panic ends this goroutine only (net/http recovers the panics of the
           goroutine that runs ServeHTTP -> start -> handleConn); the message is lost *)
      else match mxh_kid ch with
           | MxKrecv => Some (mxc_setc c (mxh_set_kid (MxKfwd b) (mxh_set_script r ch)) s)
           | _ => None
           end
  | _, _ => None
  end.
Definition mxc_step_nclose (s : mxc_state) (c : nat) : option mxc_state :=
  if negb (c <? length (mxs_chs s)) then None else
  let ch := mxc_getc s c in
  match mxh_cn ch with MxNrun => Some (mxc_setc c (mxh_set_cn MxNdone (mxh_set_sclosed true ch)) s) | _ => None end.

(* ---- MuxAgent.handleChild / unregister ---- *)
Fixpoint mxc_find_up (cls : list mxc_caller) : option nat :=
  match cls with
  | [] => None
  | cl :: r =>
      match mxl_up cl, mxl_pc cl, mxl_ops cl with
      | true, MxCidle, [] => Some O
      | _, _, _ => option_map S (mxc_find_up r)
      end
  end.
Fixpoint mxc_remove (c : nat) (l : list nat) : list nat :=
  match l with [] => [] | x :: r => if Nat.eqb x c then r else x :: mxc_remove c r end.

Definition mxc_step_k (cfg : mxc_cfg) (s : mxc_state) (c : nat) : option mxc_state :=
  if negb (c <? length (mxs_chs s)) then None else
  let ch := mxc_getc s c in
  match mxh_kid ch with
  | MxKrecv => if mxh_sclosed ch then Some (mxc_setc c (mxh_set_kid MxKlock ch) s) else None
  | MxKfwd b =>
      if mxc_upsync cfg then
        (* the handler goroutine itself works the message off: it takes the next one only when it is idle *)
        match mxc_find_up (mxs_cls s) with
        | Some i => Some (mxc_setl i (mxl_set_ops [MxDeliver b] (mxc_getl s i)) (mxc_setc c (mxh_set_kid MxKrecv ch) s))
        | None => None
        end
      else
        (* `go manager.handleMessage(msg)`: the handler is always ready; a new goroutine works the message off *)
        Some (mxs_set_cls (mxs_cls s ++ [mk_mxcl [MxDeliver b] MxCidle false [] []])
                (mxc_setc c (mxh_set_kid MxKrecv ch) s))
  | MxKlock => match mxs_lock s with
               | None => Some (mxc_setc c (mxh_set_kid MxKclose ch) (mxs_set_lock (Some (MxOK c)) s))
               | Some _ => None
               end
  | MxKclose => Some (mxc_setc c (mxh_set_kid MxKrm (mxh_set_rclosed true ch)) s)
  | MxKrm =>
      let st := if mxc_mem c (mxs_children s) then last (mxs_children s) 0 :: mxs_stale s else mxs_stale s in
      Some (mxc_setc c (mxh_set_kid MxKunl ch) (mxs_set_arr (mxc_remove c (mxs_children s)) st (mxs_cap s) s))
  | MxKunl => Some (mxc_setc c (mxh_set_kid MxKdone ch) (mxs_set_lock None s))
  | _ => None
  end.

Definition mxc_step (cfg : mxc_cfg) (s : mxc_state) (t : mxc_tid) : option mxc_state :=
  if mxs_panic s then None else
  match t with
  | MxTH => mxc_step_h s
  | MxTC i => mxc_step_c cfg s i
  | MxTG c => mxc_step_g cfg s c
  | MxTR c => mxc_step_r cfg s c
  | MxTN c => mxc_step_n s c
  | MxTK c => mxc_step_k cfg s c
  | MxTRfail c => mxc_step_rfail s c
  | MxTRstall c => mxc_step_rstall s c
  | MxTNclose c => mxc_step_nclose s c
  end.

Fixpoint mxc_run (cfg : mxc_cfg) (s : mxc_state) (ts : list mxc_tid) : option mxc_state :=
  match ts with
  | [] => Some s
  | t :: r => match mxc_step cfg s t with Some s' => mxc_run cfg s' r | None => None end
  end.

(* initial state: nobody registered; every child (endpoint, kind, what its connection will do) has a pending
   Register call; every caller has its list of operations *)
Definition mxc_child0 (sp : option N * bool * list mxc_cop) : mxc_child :=
  mk_mxch (fst (fst sp)) (snd (fst sp)) MxG0 MxR0 MxN0 (snd sp) MxK0 false false [] None.
Definition mxc_caller0 (sp : list mxc_op * bool) : mxc_caller := mk_mxcl (fst sp) MxCidle (snd sp) [] [].
Definition mxc_init (chs : list (option N * bool * list mxc_cop)) (cls : list (list mxc_op * bool)) : mxc_state :=
  mk_mxs None MxHrecv [] [] 0 (map mxc_child0 chs) (map mxc_caller0 cls) [] false.

(* every label that can possibly be enabled *)
Definition mxc_labels (s : mxc_state) : list mxc_tid :=
  MxTH :: map MxTC (seq 0 (length (mxs_cls s)))
  ++ flat_map (fun c => [MxTG c; MxTR c; MxTN c; MxTK c; MxTRfail c; MxTRstall c; MxTNclose c]) (seq 0 (length (mxs_chs s))).
Definition mxc_disabled (cfg : mxc_cfg) (s : mxc_state) (t : mxc_tid) : bool :=
  match mxc_step cfg s t with None => true | Some _ => false end.
Definition mxc_stuck (cfg : mxc_cfg) (s : mxc_state) : bool := forallb (mxc_disabled cfg s) (mxc_labels s).

(* nothing is left to do: the lock is free, handle waits for the next message, every caller has finished,
   every Register has returned, every child whose sender was closed has been unregistered, no reader has an
   unprocessed close, no connection goroutine has scripted work left *)
Definition mxc_child_settled (ch : mxc_child) : bool :=
  match mxh_reg ch with MxG4 => true | _ => false end
  && match mxh_kid ch with MxKdone => true | MxKrecv => negb (mxh_sclosed ch) | _ => false end
  && match mxh_cn ch with MxNdone => true | MxNrun => match mxh_script ch with [] => true | _ => false end | MxN0 => false end
  && match mxh_rd ch with
     | MxRrun | MxRdrain => negb (mxh_rclosed ch)
     | MxRstall | MxRdone => true
     | _ => false
     end.
Definition mxc_caller_settled (cl : mxc_caller) : bool :=
  match mxl_pc cl, mxl_ops cl with MxCidle, [] => true | _, _ => false end.
Definition mxc_settled (s : mxc_state) : bool :=
  match mxs_lock s with None => true | Some _ => false end
  && match mxs_hd s with MxHrecv => true | _ => false end
  && forallb mxc_caller_settled (mxs_cls s)
  && forallb mxc_child_settled (mxs_chs s).

(* hypotheses of the no-deadlock theorem, as executable predicates *)
Definition mxc_rd_stalled (ch : mxc_child) : bool := match mxh_rd ch with MxRstall => true | _ => false end.
Definition mxc_no_stall (s : mxc_state) : bool :=
  forallb (fun c => negb (mxc_rd_stalled (mxc_getc s c))) (mxs_children s).
Definition mxc_no_reply (s : mxc_state) : bool := forallb (fun ch => negb (mxh_reply ch)) (mxs_chs s).
Definition mxc_has_up (s : mxc_state) : bool := existsb mxl_up (mxs_cls s).

(* the log a child registered for e since fan-out number k must have *)
Definition mxc_expected (s : mxc_state) (e : N) (k : nat) : list mxc_bundle :=
  filter (mxc_match (Some e)) (skipn k (mxs_acc s)).
Definition mxc_reading (ch : mxc_child) : bool :=
  match mxh_rd ch with MxR0 | MxRrun | MxRreply _ => true | _ => false end.

(* ---------------------------------------------------------------------------------------- *)
(* witnesses (schedules) used by the sharpness theorems *)
Definition mxc_rep {A} (n : nat) (x : A) : list A := repeat x n.

(* 1. no drain loop (before 7ebd25e): a client takes bundle 1, its write fails, it shuts down; bundle 2 *)
Definition mxc_w1_cfg : mxc_cfg := mk_mxc_cfg false false true.
Definition mxc_w1_chs : list (option N * bool * list mxc_cop) := [(Some 5%N, false, [])].
Definition mxc_w1_cls : list (list mxc_op * bool) :=
  [([MxDeliver (mk_mxb 1 5 9); MxDeliver (mk_mxb 2 5 9)], false)].
Definition mxc_w1_sched : list mxc_tid :=
  mxc_rep 4 (MxTG 0) ++ mxc_rep 4 (MxTC 0) ++ mxc_rep 4 MxTH ++ [MxTRfail 0; MxTR 0]
  ++ mxc_rep 4 (MxTC 0) ++ mxc_rep 2 MxTH ++ [MxTK 0; MxTNclose 0].

(* 2. seeded defect: three children; Endpoints takes the header, unlocks, reads cell 0; child 0 is
      unregistered (cells shift); cells 1 and 2 are read: child 1 is never seen *)
Definition mxc_w2_cfg : mxc_cfg := mk_mxc_cfg true true true.
Definition mxc_w2_chs : list (option N * bool * list mxc_cop) :=
  [(Some 1%N, false, []); (Some 2%N, false, []); (Some 3%N, false, [])].
Definition mxc_w2_cls : list (list mxc_op * bool) := [([MxQuery 2%N], false)].
Definition mxc_w2_sched : list mxc_tid :=
  mxc_rep 4 (MxTG 0) ++ mxc_rep 4 (MxTG 1) ++ mxc_rep 4 (MxTG 2) ++ mxc_rep 3 (MxTC 0)
  ++ [MxTNclose 0] ++ mxc_rep 5 (MxTK 0) ++ mxc_rep 3 (MxTC 0).

(* 3. a child that answers from its reader goroutine (the PingAgent before 56aabd8): four pings *)
Definition mxc_w3_cfg : mxc_cfg := mxc_real.
Definition mxc_w3_chs : list (option N * bool * list mxc_cop) := [(Some 7%N, true, [])].
Definition mxc_w3_cls : list (list mxc_op * bool) :=
  [([MxDeliver (mk_mxb 1 7 100); MxDeliver (mk_mxb 2 7 100); MxDeliver (mk_mxb 3 7 100); MxDeliver (mk_mxb 4 7 100)], false);
   ([], true)].
Definition mxc_w3_sched : list mxc_tid :=
  mxc_rep 4 (MxTG 0)
  ++ mxc_rep 4 (MxTC 0) ++ mxc_rep 4 MxTH ++ [MxTR 0; MxTK 0]      (* pong 1 is with the handler *)
  ++ mxc_rep 4 (MxTC 0) ++ mxc_rep 4 MxTH ++ [MxTR 0]              (* pong 2 waits in handleChild *)
  ++ mxc_rep 4 (MxTC 0) ++ mxc_rep 4 MxTH                          (* pong 3 waits in the PingAgent *)
  ++ mxc_rep 4 (MxTC 0) ++ mxc_rep 2 MxTH.                         (* ping 4: handle holds the lock *)

(* ---------------------------------------------------------------------------------------- *)
(* the agent kinds of the tree as children of the model: none answers upstream from the goroutine that
   reads its receiver.
   - WebSocket client: handleReceiver reads (ws_agent_client.go:65), handleConn - the ServeHTTP goroutine - sets
     the endpoint and sends upstream (:125, :129);
   - PingAgent (after 56aabd8): handler reads (ping_agent.go:51), every pong is sent by a goroutine of its own
     (:91-:97) - here: one goroutine sending them one after the other, at any time;
   - RestAgent: handler reads (rest_agent.go:110), the HTTP goroutine of a /build request sends upstream (:278);
   - a mock / generic agent with a fixed endpoint that only receives. *)
Definition mxc_kind_ws (e : N) (up : list mxc_bundle) : option N * bool * list mxc_cop :=
  (None, false, MxSetEp e :: map MxSend up).
Definition mxc_kind_ping (e : N) (pongs : list mxc_bundle) : option N * bool * list mxc_cop :=
  (Some e, false, map MxSend pongs).
Definition mxc_kind_rest (e : N) (built : list mxc_bundle) : option N * bool * list mxc_cop :=
  (Some e, false, map MxSend built).
Definition mxc_kind_recv (e : N) : option N * bool * list mxc_cop := (Some e, false, []).
Definition mxc_kind_ping_old (e : N) : option N * bool * list mxc_cop := (Some e, true, []).
(* hypotheses on a configuration *)
Definition mxc_cfg_no_reply (chs : list (option N * bool * list mxc_cop)) : bool :=
  forallb (fun sp => negb (snd (fst sp))) chs.
Definition mxc_cfg_has_up (cls : list (list mxc_op * bool)) : bool := existsb snd cls.
