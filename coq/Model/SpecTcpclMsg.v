(* SpecTcpclMsg.v - constants of the TCPCLv4 message codec by their specification names
   (RFC 9174: section 4.2 contact header, 5.1 message types, 5.1.1 SESS_INIT, 6.1 SESS_TERM reason
   codes, 5.2.4 XFER_REFUSE reason codes, 5.1.5 MSG_REJECT reason codes). *)
From Coq Require Import ZArith List.
Import ListNotations.
Open Scope Z_scope.

(* message type codes *)
Definition rfc9174_xfer_segment : Z := 1.
Definition rfc9174_xfer_ack : Z := 2.
Definition rfc9174_xfer_refuse : Z := 3.
Definition rfc9174_keepalive : Z := 4.
Definition rfc9174_sess_term : Z := 5.
Definition rfc9174_msg_reject : Z := 6.
Definition rfc9174_sess_init : Z := 7.
(* contact header: magic "dtn!" and version *)
Definition rfc9174_magic : list Z := [100; 116; 110; 33].
Definition rfc9174_version : Z := 4.
Definition rfc9174_contact_can_tls : Z := 1.
(* flags *)
Definition rfc9174_term_reply : Z := 1.
Definition rfc9174_seg_end : Z := 1.
Definition rfc9174_seg_start : Z := 2.
(* SESS_TERM reason codes: Unknown, Idle timeout, Version mismatch, Busy, Contact Failure, Resource Exhaustion *)
Definition rfc9174_term_reasons : list Z := [0; 1; 2; 3; 4; 5].
(* XFER_REFUSE reason codes: Unknown, Completed, No Resources, Retransmit, Not Acceptable, Extension
   Failure, Session Terminating *)
Definition rfc9174_refuse_reasons : list Z := [0; 1; 2; 3; 4; 5; 6].
(* MSG_REJECT reason codes: Message Type Unknown, Message Unsupported, Message Unexpected *)
Definition rfc9174_reject_reasons : list Z := [1; 2; 3].
(* contact header: 4 octets magic, 1 version, 1 flags *)
Definition rfc9174_contact_len : Z := 6.
