(* Scf.v - store-carry-forward (C05): the routing Core as a state machine over store items.
   Executable definitions only.

   Code modelled (dtn7-go pkg/routing, pkg/storage, after the C05 fix commits):
     processing.go   SendBundle -> transmit -> dispatching -> forward; receive; bundleContraindicated;
                     bundleDeletion
     core.go         checkPendingBundles (cron tick and PeerAppeared), senderForDestination
     bundle_descriptor.go  Sync (Pending from the constraints; no constraints => delete), PurgeConstraints
     algorithm_epidemic.go DispatchingAllowed (gate), SenderForBundle (all peers not in `sent`),
                     NotifyNewBundle (previous node -> sent), ReportFailure
     store.go        DeleteExpired;  bundle_item.go  calcExpirationDate

   Nodes are numbers: 0 is this node, peers are > 0.  A bundle ID is a number chosen by the harness
   (equal numbers <=> equal bundle IDs).  Everything the Go runtime decides enters through the oracle:
   the clock, and for every forwarding attempt the peers that were handed the bundle with the outcome
   of each send (and, for the algorithms that are not modelled concretely, whether the algorithm
   asked for deletion after a success).  The algorithm's choice is *validated* ([scf_sel_ok]): direct
   delivery when the destination node is connected, otherwise epidemic = exactly the connected peers
   not in `sent`; the other algorithms = some duplicate-free subset of the connected peers. *)
From DTN Require Import Base.

Record scf_bundle := {
  sb_id : N;                 (* bundle ID (source, creation time, sequence number), abstract *)
  sb_local : bool;           (* source is dtn:none or an endpoint of this node *)
  sb_dst : N;                (* destination node; 0 = this node *)
  sb_prev : option N;        (* previous node block *)
  sb_ts : N;                 (* creation time, ms; 0 = the source had no clock *)
  sb_life : N;               (* lifetime, ms *)
  sb_age : option N;         (* bundle age block *)
  sb_hop : option (N * N);   (* hop count block: limit, count *)
  sb_del : bool              (* carries an unknown block with the "delete bundle" flag *)
}.

Record scf_item := {
  si_b : scf_bundle;
  si_pending : bool;         (* BundleItem.Pending *)
  si_dp : bool;              (* constraint DispatchPending *)
  si_fp : bool;              (* constraint ForwardPending *)
  si_ci : bool;              (* constraint Contraindicated *)
  si_le : bool;              (* constraint LocalEndpoint *)
  si_expires : N;            (* BundleItem.Expires, ms *)
  si_rx : N;                 (* bundlepack/timestamp: when the item was created *)
  si_sent : list N           (* routing/<algorithm>/sent *)
}.

(* the two places where the algorithms differ, as far as retention is concerned *)
Record salg := {
  sa_gate : bool;    (* DispatchingAllowed is the epidemic one: refuses when no connected peer is new *)
  sa_exact : bool    (* SenderForBundle is the epidemic one: all connected peers not in `sent`, never delete *)
}.
Definition scf_epidemic : salg := {| sa_gate := true; sa_exact := true |}.
Definition scf_mule : salg := {| sa_gate := true; sa_exact := false |}.     (* sensor-mule over epidemic *)
Definition scf_other : salg := {| sa_gate := false; sa_exact := false |}.   (* spray, binary_spray, prophet, dtlsr *)

Record scf_state := { ss_items : list scf_item; scs_peers : list N }.
Definition scf_init : scf_state := {| ss_items := []; scs_peers := [] |}.

Inductive scf_event :=
  | SeSubmit (b : scf_bundle)
  | SeReceive (b : scf_bundle) (from : N)
  | ScPeerUp (p : N)
  | ScPeerDown (p : N)
  | SeTickPending
  | SeTickClean
  | SeRestart.

(* one forwarding attempt of one bundle as observed *)
Record sattempt := { at_sends : list (N * bool); at_del : bool }.
Record soracle := { or_now : N; or_att : list (N * sattempt) }.

Inductive soutput := ScfSent (peer id : N) (ok : bool).

(* ---------- small list helpers ---------- *)
Fixpoint scf_mem (x : N) (l : list N) : bool :=
  match l with [] => false | y :: r => N.eqb x y || scf_mem x r end.

Fixpoint scf_nodup (l : list N) : bool :=
  match l with [] => true | x :: r => negb (scf_mem x r) && scf_nodup r end.

Definition scf_incl (a b : list N) : bool := forallb (fun x => scf_mem x b) a.
Definition scf_same_set (a b : list N) : bool := scf_incl a b && scf_incl b a.

Fixpoint scf_remove_first (x : N) (l : list N) : list N :=
  match l with
  | [] => []
  | y :: r => if N.eqb x y then r else y :: scf_remove_first x r
  end.

Definition scf_add_peer (p : N) (l : list N) : list N := if scf_mem p l then l else l ++ [p].
Definition scf_del_peer (p : N) (l : list N) : list N := filter (fun q => negb (N.eqb p q)) l.

Fixpoint scf_find_att (id : N) (l : list (N * sattempt)) : sattempt :=
  match l with
  | [] => {| at_sends := []; at_del := false |}
  | (k, a) :: r => if N.eqb id k then a else scf_find_att id r
  end.

Fixpoint scf_find_item (id : N) (l : list scf_item) : option scf_item :=
  match l with
  | [] => None
  | it :: r => if N.eqb id (sb_id (si_b it)) then Some it else scf_find_item id r
  end.

(* ---------- time ---------- *)
(* calcExpirationDate (after the fix): creation time + lifetime; for a source without a clock the
   remaining lifetime counts from the insertion: now + lifetime - age *)
Definition scf_expiry (b : scf_bundle) (now : N) : N :=
  if sb_ts b =? 0 then now + sb_life b - match sb_age b with Some a => a | None => 0 end
  else sb_ts b + sb_life b.

(* HopCountBlock: Increment, IsExceeded *)
Definition scf_hop_exceeded (b : scf_bundle) : bool :=
  match sb_hop b with Some (lim, cnt) => lim <? cnt + 1 | None => false end.

(* Bundle.IsLifetimeExceeded *)
Definition scf_life_exceeded (b : scf_bundle) (now : N) : bool :=
  if sb_ts b =? 0 then match sb_age b with None => true | Some a => sb_life b <? a end
  else sb_ts b + sb_life b <? now.

(* UpdateBundleAge + the test in forward: age + k * (time in the store) >= lifetime.  [k] is the
   factor the code applies to the elapsed milliseconds (time.Since(..)/1000 on nanoseconds). *)
Definition scf_age_exceeded (k : N) (it : scf_item) (now : N) : bool :=
  match sb_age (si_b it) with
  | Some a => sb_life (si_b it) <=? a + k * (now - si_rx it)
  | None => false
  end.

Definition scf_refused (k : N) (it : scf_item) (now : N) : bool :=
  scf_hop_exceeded (si_b it) || scf_life_exceeded (si_b it) now || scf_age_exceeded k it now.

(* ---------- item updates ---------- *)
Definition scf_set (it : scf_item) (pending dp fp ci le : bool) (sent : list N) : scf_item :=
  {| si_b := si_b it; si_pending := pending; si_dp := dp; si_fp := fp; si_ci := ci; si_le := le;
     si_expires := si_expires it; si_rx := si_rx it; si_sent := sent |}.

(* Sync: Pending = ForwardPending || Contraindicated || DispatchPending (the last one after the fix) *)
Definition scf_sync (it : scf_item) : scf_item :=
  scf_set it (si_fp it || si_ci it || si_dp it) (si_dp it) (si_fp it) (si_ci it) (si_le it) (si_sent it).

(* PurgeConstraints + Sync: everything but LocalEndpoint is dropped; no constraint left => deleted *)
Definition scf_purge (it : scf_item) : option scf_item :=
  if si_le it then Some (scf_set it false false false false true (si_sent it)) else None.

Definition scf_new_item (b : scf_bundle) (now : N) : scf_item :=
  {| si_b := b; si_pending := false; si_dp := false; si_fp := false; si_ci := false; si_le := false;
     si_expires := scf_expiry b now; si_rx := now;
     si_sent := match sb_prev b with Some p => [p] | None => [] end |}.

(* ---------- forwarding ---------- *)
Definition scf_direct (peers : list N) (b : scf_bundle) : list N := filter (N.eqb (sb_dst b)) peers.
Definition scf_fresh (peers sent : list N) : list N := filter (fun p => negb (scf_mem p sent)) peers.

(* is the observed choice one the code can make? *)
Definition scf_sel_ok (alg : salg) (peers : list N) (it : scf_item) (a : sattempt) : bool :=
  let chosen := map fst (at_sends a) in
  let anyok := existsb snd (at_sends a) in
  scf_nodup chosen &&
  match scf_direct peers (si_b it) with
  | _ :: _ => scf_same_set chosen (scf_direct peers (si_b it)) && (negb anyok || at_del a)
  | [] =>
    if sa_exact alg then scf_same_set chosen (scf_fresh peers (si_sent it)) && negb (anyok && at_del a)
    else if sa_gate alg then scf_incl chosen (scf_fresh peers (si_sent it))
    else scf_incl chosen peers
  end.

Definition scf_failed (a : sattempt) : list N :=
  map fst (filter (fun s => negb (snd s)) (at_sends a)).

(* SenderForBundle appends the chosen peers (not on the direct path), every ReportFailure removes its peer *)
Definition scf_sent_after (peers : list N) (it : scf_item) (a : sattempt) : list N :=
  let s1 := match scf_direct peers (si_b it) with
            | _ :: _ => si_sent it
            | [] => si_sent it ++ map fst (at_sends a)
            end in
  filter (fun q => negb (scf_mem q (scf_failed a))) s1.

Definition scf_outs (id : N) (a : sattempt) : list soutput :=
  map (fun s => ScfSent (fst s) id (snd s)) (at_sends a).

(* forward: None = the observation is not allowed; Some (None, _) = the item is gone afterwards *)
Definition scf_forward (alg : salg) (k now : N) (peers : list N) (it : scf_item) (a : sattempt)
  : option (option scf_item * list soutput) :=
  let it1 := scf_set it true false true (si_ci it) (si_le it) (si_sent it) in
  if scf_refused k it now then
    match at_sends a with [] => Some (scf_purge it1, []) | _ => None end
  else if scf_sel_ok alg peers it a then
    let sent' := scf_sent_after peers it a in
    let outs := scf_outs (sb_id (si_b it)) a in
    if existsb snd (at_sends a) && at_del a then
      Some (scf_purge (scf_set it1 true false true (si_ci it) (si_le it) sent'), outs)
    else
      Some (Some (scf_set it1 true false true true (si_le it) sent'), outs)
  else None.

(* dispatching.  [loaded]: the bundle is read back from the store (retry); reading fails when the
   bundle's lifetime is over (ParseBundle validates it), the attempt is then given up before
   anything changes.  The first dispatching of a new bundle works on the bundle in memory. *)
Definition scf_dispatch (alg : salg) (k now : N) (loaded : bool) (peers : list N) (it : scf_item) (a : sattempt)
  : option (option scf_item * list soutput) :=
  if sa_gate alg && negb (sb_dst (si_b it) =? 0)
     && match scf_fresh peers (si_sent it) with [] => true | _ => false end then
    (* epidemic DispatchingAllowed: nobody new to give it to; Pending is set directly *)
    match at_sends a with
    | [] => Some (Some (scf_set it true (si_dp it) (si_fp it) (si_ci it) (si_le it) (si_sent it)), [])
    | _ => None
    end
  else if loaded && scf_life_exceeded (si_b it) now then
    match at_sends a with [] => Some (Some it, []) | _ => None end
  else if sb_dst (si_b it) =? 0 then
    (* localDelivery: LocalEndpoint is added, then everything else purged *)
    match at_sends a with
    | [] => Some (Some (scf_set it false false false false true (si_sent it)), [])
    | _ => None
    end
  else scf_forward alg k now peers it a.

(* checkPendingBundles: every pending item is dispatched once *)
Fixpoint scf_check_pending (alg : salg) (k : N) (o : soracle) (peers : list N) (items : list scf_item)
  : option (list scf_item * list soutput) :=
  match items with
  | [] => Some ([], [])
  | it :: r =>
    match scf_check_pending alg k o peers r with
    | None => None
    | Some (r', outs) =>
      if si_pending it then
        match scf_dispatch alg k (or_now o) true peers it (scf_find_att (sb_id (si_b it)) (or_att o)) with
        | None => None
        | Some (Some it', o1) => Some (it' :: r', o1 ++ outs)
        | Some (None, o1) => Some (r', o1 ++ outs)
        end
      else match at_sends (scf_find_att (sb_id (si_b it)) (or_att o)) with
           | [] => Some (it :: r', outs)
           | _ => None
           end
    end
  end.

Definition scf_opt_cons (o : option scf_item) (l : list scf_item) : list scf_item :=
  match o with Some it => it :: l | None => l end.

(* Are the item's constraints in the store?  Sync writes them with an Update only; an item that was
   just pushed has none.  For a received bundle the handler's second Sync (no constraint yet) deletes
   the item the first one pushed, and receive's Sync pushes it again: if the epidemic gate then refuses
   the dispatching, the item stays in the store with Pending = true but without any stored constraint. *)
Definition scf_unpersisted (it : scf_item) : bool := negb (si_dp it || si_fp it || si_ci it || si_le it).
Definition scf_has_id (id : N) (it : scf_item) : bool := N.eqb id (sb_id (si_b it)).

(* Submit / Receive of a bundle whose ID is not in the store.  [stored]: the DispatchPending constraint
   reaches the store before the dispatching (Submit, and Receive of a bundle that was just deleted by
   the handler's Sync - see SeReceive below). *)
Definition scf_accept (alg : salg) (k : N) (o : soracle) (s : scf_state) (b : scf_bundle) (submit stored : bool)
  : option (scf_state * list soutput) :=
  let it0 := scf_new_item b (or_now o) in
  let it1 := if stored then scf_sync (scf_set it0 false true false false false (si_sent it0)) else it0 in
  let a := scf_find_att (sb_id b) (or_att o) in
  if (if submit then negb (sb_local b) else sb_del b) then
    (* transmit: foreign source; receive: unknown block demanding deletion => bundleDeletion *)
    match at_sends a with [] => Some (s, []) | _ => None end
  else
    match scf_dispatch alg k (or_now o) false (scs_peers s) it1 a with
    | None => None
    | Some (oit, outs) =>
      Some ({| ss_items := scf_opt_cons oit (ss_items s); scs_peers := scs_peers s |}, outs)
    end.

(* a bundle arriving again: the handler's Sync recomputes Pending from the stored constraints *)
Fixpoint scf_resync (id : N) (items : list scf_item) : list scf_item :=
  match items with
  | [] => []
  | it :: r => if scf_has_id id it then scf_sync it :: scf_resync id r else it :: scf_resync id r
  end.

Definition scf_step (alg : salg) (k : N) (s : scf_state) (e : scf_event) (o : soracle)
  : option (scf_state * list soutput) :=
  match e with
  | SeSubmit b =>
    match scf_find_item (sb_id b) (ss_items s) with
    | Some _ => None      (* bundle IDs are distinct: see C14 for the IdKeeper *)
    | None => scf_accept alg k o s b true true
    end
  | SeReceive b _ =>
    match scf_find_item (sb_id b) (ss_items s) with
    | None => scf_accept alg k o s b false true   (* after fix 8e09450: a received bundle's properties are stored with the push *)
    | Some _ =>
      if existsb (fun it => scf_has_id (sb_id b) it && scf_unpersisted it) (ss_items s) then
        (* no stored constraint: the descriptor's Sync deletes the item, the bundle is processed as new *)
        scf_accept alg k o
          {| ss_items := filter (fun it => negb (scf_has_id (sb_id b) it)) (ss_items s); scs_peers := scs_peers s |}
          b false true
      else Some ({| ss_items := scf_resync (sb_id b) (ss_items s); scs_peers := scs_peers s |}, [])
    end
  | ScPeerUp p =>
    let peers := scf_add_peer p (scs_peers s) in
    match scf_check_pending alg k o peers (ss_items s) with
    | None => None
    | Some (items, outs) => Some ({| ss_items := items; scs_peers := peers |}, outs)
    end
  | ScPeerDown p => Some ({| ss_items := ss_items s; scs_peers := scf_del_peer p (scs_peers s) |}, [])
  | SeTickPending =>
    match scf_check_pending alg k o (scs_peers s) (ss_items s) with
    | None => None
    | Some (items, outs) => Some ({| ss_items := items; scs_peers := scs_peers s |}, outs)
    end
  | SeTickClean =>
    Some ({| ss_items := filter (fun it => negb (si_expires it <? or_now o)) (ss_items s);
             scs_peers := scs_peers s |}, [])
  | SeRestart => Some ({| ss_items := ss_items s; scs_peers := [] |}, [])
  end.

Fixpoint scf_run (alg : salg) (k : N) (s : scf_state) (h : list (scf_event * soracle))
  : option (scf_state * list soutput) :=
  match h with
  | [] => Some (s, [])
  | (e, o) :: r =>
    match scf_step alg k s e o with
    | None => None
    | Some (s1, o1) =>
      match scf_run alg k s1 r with
      | None => None
      | Some (s2, o2) => Some (s2, o1 ++ o2)
      end
    end
  end.

(* ---------- concurrent failure reports (read / write sub-steps) ---------- *)
(* ReportFailure = read the item's sent list; remove the peer; write the list back.  Two reports
   for peers p (reporter false) and q (reporter true) run in two goroutines. *)
Inductive srstep := ScfRead (who : bool) | ScfWrite (who : bool).
Record srace := { rc_store : list N; rc_loc_p : list N; rc_loc_q : list N }.

Definition scf_race_step (p q : N) (st : srace) (x : srstep) : srace :=
  match x with
  | ScfRead false => {| rc_store := rc_store st; rc_loc_p := rc_store st; rc_loc_q := rc_loc_q st |}
  | ScfRead true => {| rc_store := rc_store st; rc_loc_p := rc_loc_p st; rc_loc_q := rc_store st |}
  | ScfWrite false => {| rc_store := scf_remove_first p (rc_loc_p st); rc_loc_p := rc_loc_p st; rc_loc_q := rc_loc_q st |}
  | ScfWrite true => {| rc_store := scf_remove_first q (rc_loc_q st); rc_loc_p := rc_loc_p st; rc_loc_q := rc_loc_q st |}
  end.

Definition scf_race_run (p q : N) (sent : list N) (sched : list srstep) : list N :=
  rc_store (fold_left (scf_race_step p q) sched {| rc_store := sent; rc_loc_p := []; rc_loc_q := [] |}).

(* all six interleavings of (read p; write p) with (read q; write q) *)
Definition scf_race_all : list (list srstep) :=
  [ [ScfRead false; ScfWrite false; ScfRead true; ScfWrite true];
    [ScfRead true; ScfWrite true; ScfRead false; ScfWrite false];
    [ScfRead false; ScfRead true; ScfWrite false; ScfWrite true];
    [ScfRead false; ScfRead true; ScfWrite true; ScfWrite false];
    [ScfRead true; ScfRead false; ScfWrite false; ScfWrite true];
    [ScfRead true; ScfRead false; ScfWrite true; ScfWrite false] ].
(* with the mutex around the read-modify-write only the first two remain *)
Definition scf_race_locked : list (list srstep) :=
  [ [ScfRead false; ScfWrite false; ScfRead true; ScfWrite true];
    [ScfRead true; ScfWrite true; ScfRead false; ScfWrite false] ].

(* ---------- the property's checker on one state (used by the driver on the model side) ---------- *)
Definition scf_status (s : scf_state) (id : N) : option (bool * list N) :=
  match scf_find_item id (ss_items s) with
  | Some it => Some (si_pending it, si_sent it)
  | None => None
  end.

(* ---------- receive: the canonical blocks of a received bundle and their processing flags ---------- *)
(* A canonical block as far as Core.receive looks at it: whether this node knows the block type, and
   the block processing control flags (bpv7/block_control_flags.go: 1 replicate in every fragment,
   2 report when the block cannot be processed, 4 delete the bundle when .., 16 remove the block when ..).
   The flags of a block the node *can* process demand nothing. *)
Record scf_blk := { bk_known : bool; bk_flags : N }.
Definition scf_fl_replicate : N := 1.
Definition scf_fl_report : N := 2.
Definition scf_fl_delete : N := 4.
Definition scf_fl_remove : N := 16.
Definition scf_blk_has (f : N) (b : scf_blk) : bool := negb (N.land (bk_flags b) f =? 0).

Fixpoint scf_remove_at (i : nat) (l : list scf_blk) : list scf_blk :=
  match l with
  | [] => []
  | x :: r => match i with O => r | S j => x :: scf_remove_at j r end
  end.

(* The loop of receive: i = len-1 down to 0 over the block array, which shrinks in place when a block is
   removed (the blocks behind i move one slot to the left).  None = bundleDeletion (an unsupported block
   demands the deletion); Some bl = the blocks the bundle goes on with. *)
Fixpoint scf_rx_scan (n : nat) (bl : list scf_blk) : option (list scf_blk) :=
  match n with
  | O => Some bl
  | S i =>
    match nth_error bl i with
    | None => scf_rx_scan i bl
    | Some b =>
      if bk_known b then scf_rx_scan i bl
      else if scf_blk_has scf_fl_delete b then None
      else if scf_blk_has scf_fl_remove b then scf_rx_scan i (scf_remove_at i bl)
      else scf_rx_scan i bl
    end
  end.

Definition scf_rx_blocks (bl : list scf_blk) : option (list scf_blk) := scf_rx_scan (length bl) bl.

(* [sb_del] of a received bundle with the blocks [bl] *)
Definition scf_rx_del (bl : list scf_blk) : bool :=
  match scf_rx_blocks bl with None => true | Some _ => false end.

(* what the property says: refused for cause only when an *unsupported* block demands deletion; an
   unsupported block flagged for removal is dropped, everything else stays *)
Definition scf_blk_demands_deletion (b : scf_blk) : bool := negb (bk_known b) && scf_blk_has scf_fl_delete b.
Definition scf_blk_stays (b : scf_blk) : bool := bk_known b || negb (scf_blk_has scf_fl_remove b).
