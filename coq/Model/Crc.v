(* Crc.v - CRC-16/X-25 and CRC-32C (Castagnoli) from their catalogue parameters, bit-serial:
   reflected polynomial P, state shifted right, input bits LSB-first per byte, init and xorout all
   ones.  (howeyc/crc16 CCITT table with Checksum = Update(0) complementing in and out, and
   hash/crc32 Castagnoli compute exactly these; checked on data by the correspondence run.) *)
From DTN Require Import Base.
Open Scope N_scope.

Definition crc_A (P s : N) : N := if N.odd s then N.lxor (N.shiftr s 1) P else N.shiftr s 1.
Definition crc_stepb (P s : N) (b : bool) : N := crc_A P (N.lxor s (N.b2n b)).
Fixpoint crc_run (P s : N) (bs : list bool) : N :=
  match bs with [] => s | b :: bs => crc_run P (crc_stepb P s b) bs end.

Fixpoint byte_bits (k : nat) (b : N) : list bool :=
  match k with O => [] | S k => N.odd b :: byte_bits k (N.shiftr b 1) end.
Fixpoint bytes_bits (bs : list N) : list bool :=
  match bs with [] => [] | b :: bs => byte_bits 8 b ++ bytes_bits bs end.

(* executable form: one byte at a time *)
Fixpoint crc_update (P s : N) (bs : list N) : N :=
  match bs with [] => s | b :: bs => crc_update P (crc_run P s (byte_bits 8 b)) bs end.

Definition poly16 : N := 33800.         (* 0x8408 *)
Definition poly32c : N := 2197175160.   (* 0x82F63B78 *)
Definition ones16 : N := 65535.
Definition ones32 : N := 4294967295.

Definition crc16_x25 (bs : list N) : N := N.lxor (crc_update poly16 ones16 bs) ones16.
Definition crc32c (bs : list N) : N := N.lxor (crc_update poly32c ones32 bs) ones32.

(* BPv7 CRC types *)
Definition crc_len (t : N) : option nat :=
  if t =? 0 then Some 0%nat else if t =? 1 then Some 2%nat else if t =? 2 then Some 4%nat else None.
Definition crc_value (t : N) (bs : list N) : N :=
  if t =? 1 then crc16_x25 bs else if t =? 2 then crc32c bs else 0.
