(* Agents.v - executable model of local delivery in dtn7-go (property C07):
   pkg/agent  MuxAgent (children, fan-out by Recipients), RestAgent (clients / mailbox maps,
              receiveBundleMessage, Endpoints, register / unregister / fetch), WebSocketAgent
              (a nested mux of connected clients, registered or not yet), PingAgent, a generic agent with static endpoints
   pkg/routing AgentManager.HasEndpoint / Deliver, Core.HasEndpoint, Core.dispatching,
              Core.localDelivery (report / constraint logic).
   The model describes the code *after* the three fix: commits (Range callbacks return true,
   mailbox mutex, report only after a hand-over).  Definitions only - proofs are in
   Proofs/AgentsProofs.v. *)
From DTN Require Import Base.
Open Scope N_scope.

(* ---------------------------------------------------------------------------------------- *)
(* endpoint IDs: (node, demux).  SameNode compares the node part only. *)
Definition ag_eid := (N * N)%type.
Definition ag_eid_eqb (x y : ag_eid) : bool := (fst x =? fst y) && (snd x =? snd y).
Definition ag_same_node (x y : ag_eid) : bool := fst x =? fst y.

(* A bundle as far as local delivery looks at it: identity (stands for the whole content - the
   harness maps every serialised bundle it sees back to the id of the bundle it built, or to an
   "altered" id), destination, report-to, "delivery report requested" flag. *)
Record abundle := mk_ab { ab_id : N; ab_dst : ag_eid; ab_rpt : ag_eid; ab_want : bool }.

(* association lists keyed by N (sync.Map / labelled children) *)
Fixpoint ag_get {V} (k : N) (m : list (N * V)) : option V :=
  match m with
  | [] => None
  | (k', v) :: r => if k =? k' then Some v else ag_get k r
  end.
Fixpoint ag_set {V} (k : N) (v : V) (m : list (N * V)) : list (N * V) :=
  match m with
  | [] => [(k, v)]
  | (k', v') :: r => if k =? k' then (k, v) :: r else (k', v') :: ag_set k v r
  end.
Definition ag_del {V} (k : N) (m : list (N * V)) : list (N * V) :=
  filter (fun p => negb (k =? fst p)) m.

(* sync.Map.Range visits the entries in an unspecified order: the order is an oracle.  [o] is
   decoded Lehmer-style, so that *every* [o] yields a permutation and every permutation is
   reachable. *)
Fixpoint ag_take_nth {A} (i : nat) (l : list A) : option (A * list A) :=
  match l with
  | [] => None
  | x :: r =>
    match i with
    | O => Some (x, r)
    | S j => match ag_take_nth j r with Some (y, r') => Some (y, x :: r') | None => None end
    end
  end.
Fixpoint ag_permute {A} (o : list nat) (l : list A) : list A :=
  match o with
  | [] => l
  | k :: o' =>
    match ag_take_nth (Nat.modulo k (length l)) l with
    | Some (x, r) => x :: ag_permute o' r
    | None => l
    end
  end.
(* one order per (agent label, call site) *)
Definition ag_oracle := N -> nat -> list nat.

(* ---------------------------------------------------------------------------------------- *)
(* application agents *)
Inductive ag_agent :=
| AMock (es : list ag_eid)                               (* static endpoint list (mock agents) *)
| APing (e : ag_eid)                                     (* PingAgent *)
| ARest (cl : list (N * ag_eid)) (mb : list (N * list abundle))   (* clients, mailbox by uuid *)
| AWs (cl : list (N * option ag_eid)).                   (* clientMux.children: connected clients in connection
                                                            order; None = the client has not registered an endpoint
                                                            (webAgentClient.endpoint is the zero EndpointID) *)

(* the connected clients that have registered an endpoint, in connection order:
   webAgentClient.Endpoints() is nil for the others *)
Fixpoint ag_ws_reg (cl : list (N * option ag_eid)) : list (N * ag_eid) :=
  match cl with
  | [] => []
  | (c, Some e) :: r => (c, e) :: ag_ws_reg r
  | (_, None) :: r => ag_ws_reg r
  end.

Inductive ag_recipient :=
| RMock (a : N) | RPing (a : N) | RRest (a u : N) | RWs (a c : N).

Definition ag_recipient_eqb (x y : ag_recipient) : bool :=
  match x, y with
  | RMock a, RMock b => a =? b
  | RPing a, RPing b => a =? b
  | RRest a u, RRest b v => (a =? b) && (u =? v)
  | RWs a u, RWs b v => (a =? b) && (u =? v)
  | _, _ => false
  end.

Inductive ag_output :=
| AOHand (r : ag_recipient) (b : abundle)     (* hand-over: channel send to an agent / WS frame / mailbox put *)
| AOSent (p : N) (b : abundle)             (* given to the convergence sender of peer p *)
| AOReport (b : abundle)                   (* "delivered" status report generated for b *)
| AORelease (b : abundle)                  (* LocalEndpoint constraint removed, bundle leaves the store *)
| AOKeep (b : abundle)                     (* local delivery failed: constraint (and bundle) retained *)
| AODup (b : abundle)                      (* arriving copy not accepted: ID already in the store *)
| AOFetched (a u : N) (bs : list abundle)  (* response of POST /fetch *)
| AODropped (a u : N) (bs : list abundle). (* mailbox content discarded by /unregister *)

Fixpoint ag_hands_to (r : ag_recipient) (outs : list ag_output) : list abundle :=
  match outs with
  | [] => []
  | AOHand r' b :: t => if ag_recipient_eqb r r' then b :: ag_hands_to r t else ag_hands_to r t
  | _ :: t => ag_hands_to r t
  end.

Definition ag_is_sent (o : ag_output) : bool := match o with AOSent _ _ => true | _ => false end.
(* evidence of a local delivery: a hand-over, a "delivered" report, the release of the retention constraint *)
Definition ag_is_evidence (o : ag_output) : bool :=
  match o with AOHand _ _ | AOReport _ | AORelease _ => true | _ => false end.

Record ag_state := ag_mk_st {
  ast_node : ag_eid;                 (* Core.NodeId *)
  ast_ch : list (N * ag_agent);         (* AgentManager.mux.children, registration order *)
  ast_peers : list N;                (* connected convergence senders *)
  ast_known : list N                 (* bundle IDs present in the store *)
}.

(* --- Endpoints() --- *)
Definition ag_agent_eids (orc : ag_oracle) (site : nat) (a : N) (g : ag_agent) : list ag_eid :=
  match g with
  | AMock es => es
  | APing e => [e]
  | ARest cl _ => map snd (ag_permute (orc a site) cl)      (* RestAgent.Endpoints: Range *)
  | AWs cl => map snd (ag_ws_reg cl)                        (* MuxAgent.Endpoints of the clients *)
  end.
Definition ag_mux_eids (orc : ag_oracle) (site : nat) (ch : list (N * ag_agent)) : list ag_eid :=
  flat_map (fun p => ag_agent_eids orc site (fst p) (snd p)) ch.
(* AgentManager.HasEndpoint = AppAgentHasEndpoint(mux, eid) *)
Definition ag_mux_has (orc : ag_oracle) (site : nat) (ch : list (N * ag_agent)) (e : ag_eid) : bool :=
  existsb (ag_eid_eqb e) (ag_mux_eids orc site ch).
(* Core.HasEndpoint (no CLA endpoints are registered in the modelled configuration) *)
Definition ag_core_has (orc : ag_oracle) (site : nat) (s : ag_state) (e : ag_eid) : bool :=
  ag_same_node (ast_node s) e || ag_mux_has orc site (ast_ch s) e.

(* who is registered for exactly endpoint e (the specification's notion) *)
Definition ag_registered (ch : list (N * ag_agent)) (r : ag_recipient) (e : ag_eid) : bool :=
  match r with
  | RMock a => match ag_get a ch with Some (AMock es) => existsb (ag_eid_eqb e) es | _ => false end
  | RPing a => match ag_get a ch with Some (APing e') => ag_eid_eqb e e' | _ => false end
  | RRest a u =>
    match ag_get a ch with
    | Some (ARest cl _) => match ag_get u cl with Some e' => ag_eid_eqb e e' | None => false end
    | _ => false
    end
  | RWs a c =>
    match ag_get a ch with
    | Some (AWs cl) => match ag_get c cl with Some (Some e') => ag_eid_eqb e e' | _ => false end
    | _ => false
    end
  end.

(* --- mailbox --- *)
Definition ag_mb_contents (u : N) (mb : list (N * list abundle)) : list abundle :=
  match ag_get u mb with Some l => l | None => [] end.
(* receiveBundleMessage: Load, append, Store *)
Definition ag_mb_put (u : N) (b : abundle) (mb : list (N * list abundle)) : list (N * list abundle) :=
  match ag_get u mb with
  | None => ag_set u [b] mb
  | Some l => ag_set u (l ++ [b]) mb
  end.
Definition ag_mailbox (ch : list (N * ag_agent)) (a u : N) : list abundle :=
  match ag_get a ch with Some (ARest _ mb) => ag_mb_contents u mb | _ => [] end.

(* --- an agent receives a BundleMessage --- *)
Definition ag_dst_match (b : abundle) (p : N * ag_eid) : bool := ag_eid_eqb (ab_dst b) (snd p).
Definition ag_agent_receive (orc : ag_oracle) (a : N) (g : ag_agent) (b : abundle) : ag_agent * list ag_output :=
  match g with
  | AMock _ => (g, [AOHand (RMock a) b])
  | APing _ => (g, [AOHand (RPing a) b])
  | ARest cl mb =>
    let hit := filter (ag_dst_match b) (ag_permute (orc a 9%nat) cl) in
    (ARest cl (fold_left (fun m u => ag_mb_put u b m) (map fst hit) mb),
     map (fun p => AOHand (RRest a (fst p)) b) hit)
  | AWs cl =>
    (g, map (fun p => AOHand (RWs a (fst p)) b) (filter (ag_dst_match b) (ag_ws_reg cl)))
  end.

(* MuxAgent.handle: every child whose Endpoints() contain a recipient gets the message *)
Fixpoint ag_mux_fanout (orc : ag_oracle) (ch : list (N * ag_agent)) (b : abundle) : list (N * ag_agent) * list ag_output :=
  match ch with
  | [] => ([], [])
  | (a, g) :: r =>
    let go := if existsb (ag_eid_eqb (ab_dst b)) (ag_agent_eids orc 2%nat a g)
              then ag_agent_receive orc a g b else (g, []) in
    let rr := ag_mux_fanout orc r b in
    ((a, fst go) :: fst rr, snd go ++ snd rr)
  end.

(* AgentManager.Deliver: error when no agent has the endpoint *)
Definition ag_am_deliver (orc : ag_oracle) (ch : list (N * ag_agent)) (b : abundle)
  : option (list (N * ag_agent) * list ag_output) :=
  if ag_mux_has orc 1%nat ch (ab_dst b) then Some (ag_mux_fanout orc ch b) else None.

(* Core.localDelivery (repaired: the report is sent only when Deliver succeeded).
   SendStatusReport does not answer to a report-to endpoint of this node. *)
Definition ag_local_delivery (orc : ag_oracle) (s : ag_state) (b : abundle) : ag_state * list ag_output :=
  match ag_am_deliver orc (ast_ch s) b with
  | None => (ag_mk_st (ast_node s) (ast_ch s) (ast_peers s) (ab_id b :: ast_known s), [AOKeep b])
  | Some (ch', outs) =>
    let s' := ag_mk_st (ast_node s) ch' (ast_peers s) (ast_known s) in
    (s', outs ++ (if ab_want b && negb (ag_core_has orc 3%nat s' (ab_rpt b)) then [AOReport b] else [])
              ++ [AORelease b])
  end.

(* Core.forward, abstracted: the bundle goes to every connected peer and stays in the store *)
Definition ag_forward (s : ag_state) (b : abundle) : ag_state * list ag_output :=
  (ag_mk_st (ast_node s) (ast_ch s) (ast_peers s) (ab_id b :: ast_known s), map (fun p => AOSent p b) (ast_peers s)).

(* Core.receive + dispatching *)
Definition ag_deliver (orc : ag_oracle) (s : ag_state) (b : abundle) : ag_state * list ag_output :=
  if existsb (N.eqb (ab_id b)) (ast_known s) then (s, [AODup b])
  else if ag_core_has orc 0%nat s (ab_dst b) then ag_local_delivery orc s b
  else ag_forward s b.

(* ---------------------------------------------------------------------------------------- *)
Inductive ag_event :=
| AERegAgent (a : N) (g : ag_agent)          (* Core.RegisterApplicationAgent; label a is fresh *)
| AERestRegister (a u : N) (e : ag_eid)   (* POST /register answered with uuid u *)
| AERestUnregister (a u : N)
| AERestFetch (a u : N)
| AEWsConnect (a c : N) (e : ag_eid)      (* connector dials and registers e; label c is fresh *)
| AEWsDisconnect (a c : N)
| AEWsDial (a c : N)                      (* a client connects and does not register (yet); label c is fresh *)
| AEWsRegister (a c : N) (oe : option ag_eid)   (* a connected client sends a register message; None = the
                                             endpoint does not parse *)
| AEDeliver (b : abundle) (orc : ag_oracle). (* a bundle arrives at the Core *)

Definition ag_agent_initial (g : ag_agent) : bool :=
  match g with
  | ARest [] [] => true
  | AWs [] => true
  | AMock _ => true
  | APing _ => true
  | _ => false
  end.

Definition ag_set_ch (s : ag_state) (ch : list (N * ag_agent)) : ag_state :=
  ag_mk_st (ast_node s) ch (ast_peers s) (ast_known s).

Definition ag_step (s : ag_state) (ev : ag_event) : option (ag_state * list ag_output) :=
  match ev with
  | AERegAgent a g =>
    match ag_get a (ast_ch s) with
    | Some _ => None
    | None => if ag_agent_initial g then Some (ag_set_ch s (ast_ch s ++ [(a, g)]), []) else None
    end
  | AERestRegister a u e =>
    match ag_get a (ast_ch s) with
    | Some (ARest cl mb) => Some (ag_set_ch s (ag_set a (ARest (ag_set u e cl) mb) (ast_ch s)), [])
    | _ => None
    end
  | AERestUnregister a u =>
    match ag_get a (ast_ch s) with
    | Some (ARest cl mb) =>
      Some (ag_set_ch s (ag_set a (ARest (ag_del u cl) (ag_del u mb)) (ast_ch s)), [AODropped a u (ag_mb_contents u mb)])
    | _ => None
    end
  | AERestFetch a u =>
    match ag_get a (ast_ch s) with
    | Some (ARest cl mb) =>
      (* handleFetch (under the mailbox mutex): Load, then Delete when present *)
      Some (ag_set_ch s (ag_set a (ARest cl (ag_del u mb)) (ast_ch s)), [AOFetched a u (ag_mb_contents u mb)])
    | _ => None
    end
  | AEWsConnect a c e =>
    match ag_get a (ast_ch s) with
    | Some (AWs cl) =>
      match ag_get c cl with
      | Some _ => None
      | None => Some (ag_set_ch s (ag_set a (AWs (cl ++ [(c, Some e)])) (ast_ch s)), [])
      end
    | _ => None
    end
  | AEWsDisconnect a c =>
    match ag_get a (ast_ch s) with
    | Some (AWs cl) => Some (ag_set_ch s (ag_set a (AWs (ag_del c cl)) (ast_ch s)), [])
    | _ => None
    end
  | AEWsDial a c =>
    match ag_get a (ast_ch s) with
    | Some (AWs cl) =>
      match ag_get c cl with
      | Some _ => None
      | None => Some (ag_set_ch s (ag_set a (AWs (cl ++ [(c, None)])) (ast_ch s)), [])
      end
    | _ => None
    end
  | AEWsRegister a c oe =>
    (* handleIncomingRegister: the endpoint is set when none is present and the new one parses; in
       every other case the error is acknowledged and handleConn returns: the client is shut down
       and leaves the multiplexer *)
    match ag_get a (ast_ch s) with
    | Some (AWs cl) =>
      match ag_get c cl, oe with
      | None, _ => None
      | Some None, Some e => Some (ag_set_ch s (ag_set a (AWs (ag_set c (Some e) cl)) (ast_ch s)), [])
      | Some _, _ => Some (ag_set_ch s (ag_set a (AWs (ag_del c cl)) (ast_ch s)), [])
      end
    | _ => None
    end
  | AEDeliver b orc => Some (ag_deliver orc s b)
  end.

Fixpoint ag_run (s : ag_state) (h : list ag_event) : option (ag_state * list ag_output) :=
  match h with
  | [] => Some (s, [])
  | ev :: t =>
    match ag_step s ev with
    | None => None
    | Some (s1, o1) =>
      match ag_run s1 t with
      | None => None
      | Some (s2, o2) => Some (s2, o1 ++ o2)
      end
    end
  end.

(* the events that register / unregister recipient r itself (every other event is somebody else's) *)
Definition ag_ev_touches (ev : ag_event) (r : ag_recipient) : bool :=
  match ev with
  | AERegAgent a _ => match r with RMock a' | RPing a' | RRest a' _ | RWs a' _ => a =? a' end
  | AERestRegister a u _ | AERestUnregister a u => ag_recipient_eqb r (RRest a u)
  | AEWsConnect a c _ | AEWsDisconnect a c | AEWsDial a c | AEWsRegister a c _ => ag_recipient_eqb r (RWs a c)
  | AERestFetch _ _ | AEDeliver _ _ => false
  end.

Definition ag_init (node : ag_eid) (peers : list N) : ag_state := ag_mk_st node [] peers [].

(* what a REST client consumed: fetch responses and what /unregister threw away, in order *)
Fixpoint ag_consumed (a u : N) (outs : list ag_output) : list abundle :=
  match outs with
  | [] => []
  | AOFetched a' u' bs :: t => if (a =? a') && (u =? u') then bs ++ ag_consumed a u t else ag_consumed a u t
  | AODropped a' u' bs :: t => if (a =? a') && (u =? u') then bs ++ ag_consumed a u t else ag_consumed a u t
  | _ :: t => ag_consumed a u t
  end.

(* ---------------------------------------------------------------------------------------- *)
(* One mailbox cell under concurrent receiveBundleMessage / handleFetch, in sub-steps.
   A deliver thread: [lock] Load ; Store(append) [unlock].  A fetch thread: [lock] Load ;
   Delete (when the Load found something) [unlock].  [locked = true] is the repaired code (both
   read-modify-write sections hold RestAgent's mailbox mutex); [locked = false] is the code as
   it was.  A schedule is the list of thread indices that take the next sub-step; a thread
   that is chosen while it waits for the mutex (or is finished) does nothing. *)
Inductive mbx_op := MDeliver (b : abundle) | MFetch.
Inductive mbx_pc :=
| MP0                                   (* before Lock *)
| MP1                                   (* in the section, before Load *)
| MP2 (v : option (list abundle))       (* Load done, value held locally *)
| MP3                                   (* Store / Delete done, before Unlock *)
| MPDone.
Record mbx_state := mbx_mk {
  mbx_box : option (list abundle);        (* mailbox entry of the uuid: absent / list *)
  mbx_lock : option nat;                  (* mutex owner *)
  mbx_thr : list (mbx_op * mbx_pc);
  mbx_put : list abundle;                 (* ghost: bundles stored, in Store order *)
  mbx_got : list abundle                  (* ghost: fetch responses, concatenated in Delete order *)
}.
Definition mbx_contents (v : option (list abundle)) : list abundle :=
  match v with Some l => l | None => [] end.

Fixpoint ag_list_upd {A} (i : nat) (x : A) (l : list A) : list A :=
  match l, i with
  | [], _ => []
  | _ :: r, O => x :: r
  | y :: r, S j => y :: ag_list_upd j x r
  end.

Definition mbx_sub (locked : bool) (s : mbx_state) (i : nat) : mbx_state :=
  match nth_error (mbx_thr s) i with
  | None => s
  | Some (op, pc) =>
    let upd pc' := ag_list_upd i (op, pc') (mbx_thr s) in
    match pc with
    | MP0 =>
      if locked then
        match mbx_lock s with
        | Some _ => s
        | None => mbx_mk (mbx_box s) (Some i) (upd MP1) (mbx_put s) (mbx_got s)
        end
      else mbx_mk (mbx_box s) (mbx_lock s) (upd MP1) (mbx_put s) (mbx_got s)
    | MP1 => mbx_mk (mbx_box s) (mbx_lock s) (upd (MP2 (mbx_box s))) (mbx_put s) (mbx_got s)
    | MP2 v =>
      match op with
      | MDeliver b =>
        (* bundles = append(val, b) resp. []Bundle{b};  Store *)
        mbx_mk (Some (mbx_contents v ++ [b])) (mbx_lock s) (upd MP3) (mbx_put s ++ [b]) (mbx_got s)
      | MFetch =>
        (* response = val; Delete only when the Load succeeded *)
        mbx_mk (match v with Some _ => None | None => mbx_box s end) (mbx_lock s) (upd MP3)
              (mbx_put s) (mbx_got s ++ mbx_contents v)
      end
    | MP3 => mbx_mk (mbx_box s) (if locked then None else mbx_lock s) (upd MPDone) (mbx_put s) (mbx_got s)
    | MPDone => s
    end
  end.

Definition mbx_run (locked : bool) (sched : list nat) (s : mbx_state) : mbx_state :=
  fold_left (mbx_sub locked) sched s.
Definition mbx_init (ops : list mbx_op) : mbx_state :=
  mbx_mk None None (map (fun op => (op, MP0)) ops) [] [].
Definition mbx_all_done (s : mbx_state) : bool :=
  forallb (fun t => match snd t with MPDone => true | _ => false end) (mbx_thr s).
(* the bundles of the deliver threads that have stored *)
Definition mbx_stored (thr : list (mbx_op * mbx_pc)) : list abundle :=
  flat_map (fun t => match t with
                     | (MDeliver b, MP3) | (MDeliver b, MPDone) => [b]
                     | _ => []
                     end) thr.

(* ---------------------------------------------------------------------------------------- *)
(* boolean checkers used by the driver on the implementation's observations *)
Definition abundle_eqb (x y : abundle) : bool :=
  (ab_id x =? ab_id y) && ag_eid_eqb (ab_dst x) (ab_dst y) && ag_eid_eqb (ab_rpt x) (ab_rpt y)
  && Bool.eqb (ab_want x) (ab_want y).
Definition ag_ids (l : list abundle) : list N := map ab_id l.
