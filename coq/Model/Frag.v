(* Frag.v - executable model of pkg/bpv7/fragmentation.go on model bundles (Bundle.v):
   Bundle.Fragment (after the three repairs: the loop body runs at least once, a bundle that fits
   is returned as itself, blocks are appended with their own numbers in their own order),
   fragmentPrimaryBlock, fragmentExtensionBlocksLen, ReassembleFragments (prepareReassembly /
   mergeFragmentPayload are the functions of Reasm.v applied to the projection of a bundle),
   and - for the refutation witnesses - Bundle.AddExtensionBlock / sortBlocks and the code as it
   was before the repairs.

   Every "serialise and take len()" of the Go code is the model's own encoder (enc_bundle,
   enc_primary, enc_cblock); an encoder error is an error of Fragment.  mtu is a non-negative int. *)
From DTN Require Import Base Cbor Crc Eid Bundle Reasm.
Open Scope N_scope.

Inductive fres := FErr | FFuel | FOk (fs : list bundle).
Inductive lres := LErr | LFuel | LOk (fs : list bundle).

Definition fg_is_payload (c : cblock) : bool := c_type c =? 1.

(* PayloadBlock.Data() of the block found by Bundle.PayloadBlock() *)
Definition fg_data (c : cblock) : list N :=
  match c_val c with XPayload d => d | XGeneric _ d => d | _ => [] end.

Definition fg_u64 : N := 18446744073709551616.

(* ---- fragmentExtensionBlocksLen ------------------------------------------------------------
   every block is measured with CRC type CRC32 whatever its own type; a payload block is measured
   empty, and the byte-string head is then widened to the head of an mtu-sized string. *)
Definition fg_est_block (c : cblock) : cblock :=
  {| c_num := c_num c; c_flags := c_flags c; c_crc := 2;
     c_val := if fg_is_payload c then XPayload [] else c_val c |}.

Fixpoint fg_ext_len (mtu : N) (l : list cblock) (first others : N) : option (N * N) :=
  match l with
  | [] => Some (first, others)
  | c :: l =>
      match enc_cblock (fg_est_block c) with
      | None => None
      | Some bs =>
          let cb := nlen bs in
          let first := first + cb in
          let others := if has (c_flags c) BF_REPLICATE then others + cb else others in
          if fg_is_payload c then
            let h := nlen (head_bytes mBytes mtu) in
            fg_ext_len mtu l (first + (h - 1)) (others + cb + (h - 1))
          else fg_ext_len mtu l first others
      end
  end.

(* ---- fragmentPrimaryBlock (int arithmetic wraps; uint64 conversion) ------------------------ *)
Definition fg_primary (p : primary) (i len : N) : primary :=
  let frag := has (p_flags p) F_FRAG in
  {| p_flags := N.lor (p_flags p) F_FRAG; p_crc := p_crc p; p_dst := p_dst p; p_src := p_src p;
     p_rpt := p_rpt p; p_time := p_time p; p_seq := p_seq p; p_life := p_life p;
     p_off := if frag then (i + p_off p) mod fg_u64 else i;
     p_total := if frag then p_total p else len |}.

(* the blocks a fragment at loop index i carries besides the payload block *)
Definition fg_keep (i : N) (c : cblock) : bool :=
  negb (fg_is_payload c) && ((i =? 0) || has (c_flags c) BF_REPLICATE).

Definition fg_slice (data : list N) (i e : N) : list N :=
  firstn (N.to_nat (e - i)) (skipn (N.to_nat i) data).

Definition fg_payload_block (pl : cblock) (d : list N) : cblock :=
  {| c_num := c_num pl; c_flags := c_flags pl; c_crc := c_crc pl; c_val := XPayload d |}.

(* ---- one iteration of the loop of Bundle.Fragment: the fragment and the next index ---------- *)
Definition fg_step (now mtu : N) (b : bundle) (pl : cblock) (first others i : N) : option (bundle * N) :=
  let data := fg_data pl in
  let len := nlen data in
  let fp := fg_primary (b_pri b) i len in
  match enc_primary fp with
  | None => None
  | Some pbs =>
      let overhead := 2 + nlen pbs + (if i =? 0 then first else others) in
      if mtu <=? overhead then None
      else
        let sz := mtu - overhead in
        let e := N.min (i + sz) len in
        let f := {| b_pri := fp;
                    b_blocks := filter (fg_keep i) (b_blocks b) ++ [fg_payload_block pl (fg_slice data i e)] |} in
        if check_valid now f then Some (f, i + sz) else None
  end.

(* for i := 0; i == 0 || i < payloadBlockLen; { body; i += fragPayloadBlockLen } *)
Fixpoint fg_loop (fuel : nat) (now mtu : N) (b : bundle) (pl : cblock) (first others i : N) : lres :=
  match fuel with
  | O => LFuel
  | S fuel =>
      match fg_step now mtu b pl first others i with
      | None => LErr
      | Some (f, i') =>
          if i' <? nlen (fg_data pl) then
            match fg_loop fuel now mtu b pl first others i' with
            | LOk fs => LOk (f :: fs)
            | r => r
            end
          else LOk [f]
      end
  end.

(* ---- Bundle.Fragment ---------------------------------------------------------------------- *)
Definition fg_fragment (now : N) (b : bundle) (mtu : N) : fres :=
  if has (p_flags (b_pri b)) F_NOFRAG then FErr
  else
    match enc_bundle b with
    | None => FErr
    | Some bs =>
        if nlen bs <=? mtu then FOk [b]
        else
          match find_type 1 (b_blocks b) with
          | None => FErr
          | Some pl =>
              match fg_ext_len mtu (b_blocks b) 0 0 with
              | None => FErr
              | Some (first, others) =>
                  match fg_loop (S (length (fg_data pl))) now mtu b pl first others 0 with
                  | LErr => FErr
                  | LFuel => FFuel
                  | LOk [_] => FOk [b]
                  | LOk fs => FOk fs
                  end
              end
          end
    end.

(* ---- ReassembleFragments -------------------------------------------------------------------
   sort.Slice by FragmentOffset (unstable in Go; unique for distinct offsets - FragProofs),
   prepareReassembly / mergeFragmentPayload = Reasm.rs_prepare_sorted / rs_merge on the projection *)
Definition fg_proj (f : bundle) : option rs_frag :=
  match find_type 1 (b_blocks f) with
  | Some pl => Some {| fr_off := p_off (b_pri f); fr_total := p_total (b_pri f); fr_data := fg_data pl;
                       fr_isfrag := has (p_flags (b_pri f)) F_FRAG; fr_blocks := [] |}
  | None => None
  end.

Fixpoint fg_projs (l : list bundle) : option (list rs_frag) :=
  match l with
  | [] => Some []
  | f :: l => match fg_proj f, fg_projs l with
              | Some x, Some xs => Some (x :: xs)
              | _, _ => None
              end
  end.

Fixpoint fg_insert (f : bundle) (l : list bundle) : list bundle :=
  match l with
  | [] => [f]
  | g :: l' => if p_off (b_pri f) <=? p_off (b_pri g) then f :: l else g :: fg_insert f l'
  end.
Definition fg_sort (l : list bundle) : list bundle := fold_right fg_insert [] l.

Inductive rres := RErr | RPanic | ROk (b : bundle).

Definition fg_reassembled (f0 : bundle) (pl0 : cblock) (data : list N) : bundle :=
  let p := b_pri f0 in
  {| b_pri := {| p_flags := N.ldiff (p_flags p) F_FRAG; p_crc := p_crc p; p_dst := p_dst p; p_src := p_src p;
                 p_rpt := p_rpt p; p_time := p_time p; p_seq := p_seq p; p_life := p_life p;
                 p_off := 0; p_total := 0 |};
     b_blocks := filter (fun c => negb (fg_is_payload c)) (b_blocks f0)
                 ++ [{| c_num := 1; c_flags := c_flags pl0; c_crc := c_crc pl0; c_val := XPayload data |}] |}.

Definition fg_reassemble (now : N) (fs : list bundle) : rres :=
  let s := fg_sort fs in
  match fg_projs s with
  | None => RErr
  | Some ps =>
      match rs_prepare_sorted ps with
      | Some _ => RErr
      | None =>
          match s with
          | [] => RErr
          | f0 :: _ =>
              match rs_merge 0 [] ps with
              | None => RPanic
              | Some data =>
                  match find_type 1 (b_blocks f0) with
                  | None => RErr
                  | Some pl0 =>
                      let r := fg_reassembled f0 pl0 data in
                      if check_valid now r then ROk r else RErr
                  end
              end
          end
      end
  end.

(* ---- the code before the repairs (refutation witnesses, not used by the theorems) -----------
   AddExtensionBlock: smallest free number from 1 (payload) / 2 (others), append, sortBlocks.
   sortBlocks: ascending block number, a block NUMBERED 1 last (canonical_block_sort.go tests the
   number, not the type); modelled as insertion sort - unique for distinct numbers. *)
Definition fg_less (a b : cblock) : bool :=
  if c_num a =? 1 then false else if c_num b =? 1 then true else c_num a <? c_num b.

Fixpoint fg_binsert (c : cblock) (l : list cblock) : list cblock :=
  match l with
  | [] => [c]
  | d :: l' => if fg_less d c then d :: fg_binsert c l' else c :: l
  end.
Definition fg_sort_blocks (l : list cblock) : list cblock := fold_right fg_binsert [] (rev l).

Fixpoint fg_free_num (fuel : nat) (n : N) (used : list N) : N :=
  match fuel with
  | O => n
  | S fuel => if existsb (N.eqb n) used then fg_free_num fuel (n + 1) used else n
  end.

Definition fg_add_block (l : list cblock) (c : cblock) : list cblock :=
  let start := if fg_is_payload c then 1 else 2 in
  let n := fg_free_num (S (length l)) start (map c_num l) in
  fg_sort_blocks (l ++ [{| c_num := n; c_flags := c_flags c; c_crc := c_crc c; c_val := c_val c |}]).

Definition fg_step_orig (now mtu : N) (b : bundle) (pl : cblock) (first others i : N) : option (bundle * N) :=
  let data := fg_data pl in
  let len := nlen data in
  let fp := fg_primary (b_pri b) i len in
  match enc_primary fp with
  | None => None
  | Some pbs =>
      let overhead := 2 + nlen pbs + (if i =? 0 then first else others) in
      if mtu <=? overhead then None
      else
        let sz := mtu - overhead in
        let e := N.min (i + sz) len in
        let exts := fold_left fg_add_block (filter (fg_keep i) (b_blocks b)) [] in
        let f := {| b_pri := fp; b_blocks := fg_add_block exts (fg_payload_block pl (fg_slice data i e)) |} in
        if check_valid now f then Some (f, i + sz) else None
  end.

Fixpoint fg_loop_orig (fuel : nat) (now mtu : N) (b : bundle) (pl : cblock) (first others i : N) : lres :=
  match fuel with
  | O => LFuel
  | S fuel =>
      if i <? nlen (fg_data pl) then
        match fg_step_orig now mtu b pl first others i with
        | None => LErr
        | Some (f, i') =>
            match fg_loop_orig fuel now mtu b pl first others i' with
            | LOk fs => LOk (f :: fs)
            | r => r
            end
        end
      else LOk []
  end.

Definition fg_fragment_orig (now : N) (b : bundle) (mtu : N) : fres :=
  if has (p_flags (b_pri b)) F_NOFRAG then FErr
  else
    match find_type 1 (b_blocks b) with
    | None => FErr
    | Some pl =>
        match fg_ext_len mtu (b_blocks b) 0 0 with
        | None => FErr
        | Some (first, others) =>
            match fg_loop_orig (S (length (fg_data pl))) now mtu b pl first others 0 with
            | LErr => FErr
            | LFuel => FFuel
            | LOk [_] => FOk [b]
            | LOk fs => FOk fs
            end
        end
    end.

(* ---- helpers for the driver ---------------------------------------------------------------- *)
Definition fg_enc_len (b : bundle) : option N :=
  match enc_bundle b with Some bs => Some (nlen bs) | None => None end.
