(* Base.v - shared executable helpers of the model (no proofs here). *)
From Coq Require Export NArith ZArith List Bool Lia.
Export ListNotations.
Open Scope N_scope.

(* A byte is an N below 256. *)
Definition byte_ok (b : N) : bool := b <? 256.
Definition bytes_ok (bs : list N) : bool := forallb byte_ok bs.

Definition nlen {A} (l : list A) : N := N.of_nat (length l).

Definition b2n (b : bool) : N := if b then 1 else 0.

Fixpoint list_eqb {A} (eqb : A -> A -> bool) (l1 l2 : list A) : bool :=
  match l1, l2 with
  | [], [] => true
  | x :: l1, y :: l2 => eqb x y && list_eqb eqb l1 l2
  | _, _ => false
  end.

Definition bytes_eqb := list_eqb N.eqb.

Definition option_eqb {A} (eqb : A -> A -> bool) (a b : option A) : bool :=
  match a, b with
  | None, None => true
  | Some x, Some y => eqb x y
  | _, _ => false
  end.

(* big-endian fixed-width integers *)
Fixpoint be_encode (width : nat) (n : N) : list N :=
  match width with
  | O => []
  | S w => (n / 256 ^ N.of_nat w) mod 256 :: be_encode w n
  end.

Fixpoint be_decode_acc (acc : N) (bs : list N) : N :=
  match bs with
  | [] => acc
  | b :: bs => be_decode_acc (acc * 256 + b) bs
  end.
Definition be_decode (bs : list N) : N := be_decode_acc 0 bs.

(* take n bytes if present *)
Definition take_exact {A} (n : nat) (l : list A) : option (list A * list A) :=
  if Nat.leb n (length l) then Some (firstn n l, skipn n l) else None.
