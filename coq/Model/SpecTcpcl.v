(* SpecTcpcl.v - constants of the TCPCLv4 transfer model by their specification names
   (draft-ietf-dtn-tcpclv4: XFER_SEGMENT flags, message type codes) and the limits of the sender. *)
From Coq Require Import ZArith.
Open Scope Z_scope.

Definition tcpcl_flag_end : Z := 1.            (* XFER_SEGMENT flag END *)
Definition tcpcl_flag_start : Z := 2.          (* XFER_SEGMENT flag START *)
Definition tcpcl_xfer_segment : Z := 1.        (* message type codes *)
Definition tcpcl_xfer_ack : Z := 2.
Definition tcpcl_xfer_refuse : Z := 3.
Definition tcpcl_max_segment_len : Z := 1048576.   (* sender's cap of one segment buffer (= default MRU, 1 MiB) *)
Definition tcpcl_ack_timeout_s : Z := 10.      (* Send: seconds without any event before giving up *)
Definition tcpcl_ack_chan_len : Z := 32.       (* Send: buffered acknowledgement channel *)
Definition tcpcl_client_segment_mru : Z := 1048576.   (* Client.Start: Segment MRU announced in SESS_INIT *)
Definition tcpcl_client_transfer_mru : Z := 1073741824. (* Client.Start: Transfer MRU announced in SESS_INIT *)
Definition tcpcl_client_report_chan_len : Z := 32.    (* Client.Start: buffered report channel *)
