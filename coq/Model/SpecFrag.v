(* SpecFrag.v - the literal / operator shapes of the Go functions the fragmentation model (Frag.v)
   transcribes (go/token operator codes; 1000+ = unary, 3000+ = assignment operator).
   ConstsOkFrag.v proves that the shapes regenerated from the Go source coincide with these: a
   changed comparison (<= mtu, >= mtu, i == 0 ||, len(bs) == 1), a changed overhead constant or a
   dropped / added term of the estimate breaks that proof. *)
From Coq Require Import ZArith List.
Import ListNotations.
Open Scope Z_scope.

Definition fk_add := 12.  Definition fk_sub := 13.  Definition fk_land := 34. Definition fk_lor := 35.
Definition fk_eql := 39.  Definition fk_lss := 40.  Definition fk_gtr := 41.  Definition fk_neq := 44.
Definition fk_leq := 45.  Definition fk_geq := 46.  Definition fk_not := 1043.
Definition fk_add_assign := 3023.

Definition frag_est_crc_type := 2.          (* the estimate assumes CRC32 for every block *)
Definition frag_cbor_overhead := 2.         (* indefinite array start + break *)

(* Bundle.Fragment:
   err != nil; Len() <= mtu (fits => [b]); err != nil; err != nil;
   for i == 0 || i < len { err != nil; cborOverhead + primaryOverhead; i == 0; +=; +=;
   overhead >= mtu; type == payload; i > 0 && !replicate; mtu - overhead; i + sz; err != nil; i += }
   len(bs) == 1 *)
Definition frag_fragment_ops :=
  [fk_neq; fk_leq; fk_neq; fk_neq; fk_lor; fk_eql; fk_lss; fk_neq; fk_add; fk_eql; fk_add_assign; fk_add_assign;
   fk_geq; fk_eql; fk_land; fk_gtr; fk_not; fk_sub; fk_add; fk_neq; fk_add_assign; fk_eql].
Definition frag_fragment_lits := [frag_cbor_overhead; 0; 0; 0; 0; 1].

(* fragmentExtensionBlocksLen:
   type == payload; err != nil; first += cbLen; others += cbLen; type == payload; err != nil;
   first += Len() - 1; others += cbLen + Len() - 1 *)
Definition frag_extlen_ops :=
  [fk_eql; fk_neq; fk_add_assign; fk_add_assign; fk_eql; fk_neq; fk_add_assign; fk_sub; fk_add_assign; fk_sub; fk_add].
Definition frag_extlen_lits := [1; 1].

(* ReassembleFragments: err != nil; flags &^= IsFragment; type == payload (skip); two error tests;
   offset / total reset to 0, payload block number 1 *)
Definition frag_reassemble_ops := [fk_neq; 3033; fk_eql; fk_neq; fk_neq].
Definition frag_reassemble_lits := [0; 0; 0; 0; 0; 1].
