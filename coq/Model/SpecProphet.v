(* Shapes of the PRoPHET update formulas the model (Model/Prophet.v) is written against: the
   operator tokens of the Go functions in pre-order (go/token codes) and their integer literals.
   Proofs/ConstsOkProphet.v ties them to what tools/goconsts reads from the repository. *)
From Coq Require Import ZArith List.
Import ListNotations.
Open Scope Z_scope.

Definition tok_ADD := 12. Definition tok_SUB := 13. Definition tok_MUL := 14.
Definition tok_EQL := 39. Definition tok_GTR := 41. Definition tok_NEQ := 44.
Definition tok_NOT_unary := 1043.

(* pNew := pOld + ((1 - pOld) * PInit) *)
Definition prophet_encounter_ops := [tok_ADD; tok_MUL; tok_SUB].
Definition prophet_encounter_lits := [1].
(* pNew := pOld * Gamma *)
Definition prophet_age_ops := [tok_MUL].
Definition prophet_age_lits : list Z := [].
(* if !present ..; pNew := pOld + ((1 - pOld) * peerPred * otherPeerPred * Beta) *)
Definition prophet_transitivity_ops := [tok_NOT_unary; tok_ADD; tok_MUL; tok_MUL; tok_MUL; tok_SUB].
Definition prophet_transitivity_lits := [1].
(* SenderForBundle: exactly one ordering comparison, [peerPred > ownPred] *)
Definition prophet_sender_ops :=
  [tok_NEQ; tok_EQL; tok_NEQ; tok_NOT_unary; tok_GTR; tok_EQL; tok_NOT_unary; tok_EQL; tok_NEQ].
Definition prophet_sender_lits := [0; 0; 0].
