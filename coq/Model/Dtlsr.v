(* Dtlsr.v - executable model of pkg/routing/algorithm_dtlsr.go (DTLSR, "delay tolerant link
   state routing") and of bpv7.DTLSRPeerData.ShouldReplace.  Definitions only.

   Endpoint IDs are abstract numbers (N); DTN times are N (milliseconds); arc costs are Z (Go:
   int64(currentTime - timestamp), which equals the mathematical difference whenever it lies in
   the int64 range).  Vertices of the graph handed to the Dijkstra library are nat (the Go
   nodeIndex).  The third-party Dijkstra is NOT modelled: [dt_bf] is an independent reference
   (Bellman-Ford over the arc list) whose correctness is proved in DtlsrProofs.v, and the Go
   routing table is validated against it with [dt_ofh_b]. *)
From DTN Require Import Base.
Open Scope N_scope.

(* ---------------------------------------------------------------------------------------- *)
(* 1. graphs and the reference shortest-path function                                        *)

Definition dt_arc := (nat * nat * Z)%type.
Definition arc_src (a : dt_arc) : nat := fst (fst a).
Definition arc_dst (a : dt_arc) : nat := snd (fst a).
Definition arc_cost (a : dt_arc) : Z := snd a.

(* distances: None = no path known *)
Definition dt_omin (a b : option Z) : option Z :=
  match a, b with
  | None, x => x
  | x, None => x
  | Some x, Some y => Some (Z.min x y)
  end.
Definition dt_oadd (a : option Z) (c : Z) : option Z :=
  match a with Some x => Some (x + c)%Z | None => None end.

Definition dt_get (d : list (option Z)) (v : nat) : option Z := nth v d None.

(* best value for v after looking at every arc into v once *)
Definition dt_relax (g : list dt_arc) (d : list (option Z)) (v : nat) : option Z :=
  fold_right (fun a acc => if Nat.eqb (arc_dst a) v then dt_omin (dt_oadd (dt_get d (arc_src a)) (arc_cost a)) acc else acc)
             (dt_get d v) g.

Definition dt_bf_step (n : nat) (g : list dt_arc) (d : list (option Z)) : list (option Z) :=
  map (dt_relax g d) (seq 0 n).
Definition dt_bf_init (n s : nat) : list (option Z) :=
  map (fun v => if Nat.eqb v s then Some 0%Z else None) (seq 0 n).
Fixpoint dt_bf_iter (k n : nat) (g : list dt_arc) (s : nat) : list (option Z) :=
  match k with
  | O => dt_bf_init n s
  | S k => dt_bf_step n g (dt_bf_iter k n g s)
  end.
(* Bellman-Ford: n-1 rounds from source s on a graph with vertices 0..n-1 *)
Definition dt_bf (n : nat) (g : list dt_arc) (s : nat) : list (option Z) := dt_bf_iter (n - 1) n g s.
Definition dt_dist (n : nat) (g : list dt_arc) (s t : nat) : option Z := dt_get (dt_bf n g s) t.

(* all pairs: row s = distances from s *)
Definition dt_apsp (n : nat) (g : list dt_arc) : list (list (option Z)) := map (dt_bf n g) (seq 0 n).
Definition dt_mdist (m : list (list (option Z))) (s t : nat) : option Z := dt_get (nth s m []) t.

(* the graph without vertex 0: a loop-free path from 0 continues inside it after the first arc *)
Definition dt_no0 (g : list dt_arc) : list dt_arc :=
  filter (fun a => negb (Nat.eqb (arc_src a) 0) && negb (Nat.eqb (arc_dst a) 0)) g.

(* is arc a = (0, h, c), h <> 0, the first arc of a loop-free minimum-cost path 0 ~> d ?
   r0 = distances from 0 in g, m0 = all-pairs distances in g without vertex 0:
   cost(0,h) + dist_{g\0}(h,d) = dist_g(0,d).
   (With dist_g(h,d) instead, a neighbour with a zero-cost link back to 0 would qualify for
   every destination; the loop-free form is what "lies on a least-cost path" has to mean.) *)
Definition dt_opt_arc (r0 : list (option Z)) (m0 : list (list (option Z))) (d : nat) (a : dt_arc) : bool :=
  Nat.eqb (arc_src a) 0 && negb (Nat.eqb (arc_dst a) 0) &&
  match dt_mdist m0 (arc_dst a) d, dt_get r0 d with
  | Some x, Some dd => Z.eqb (arc_cost a + x) dd
  | _, _ => false
  end.

(* the property's checker for one routing-table entry (destination index d, next-hop index h) *)
Definition dt_ofh_b (n : nat) (g : list dt_arc) (d h : nat) : bool :=
  let r0 := dt_bf n g 0 in
  let m0 := dt_apsp n (dt_no0 g) in
  existsb (fun a => Nat.eqb (arc_dst a) h && dt_opt_arc r0 m0 d a) g.

Definition dt_reachable_b (n : nat) (g : list dt_arc) (d : nat) : bool :=
  match dt_dist n g 0 d with Some _ => true | None => false end.

(* the same checks for a whole table at once (distances computed once); equal to mapping
   dt_ofh_b / dt_reachable_b (DtlsrProofs.check_entries_eq, reachable_all_eq) *)
Definition dt_check_entries (n : nat) (g : list dt_arc) (es : list (nat * nat)) : list bool :=
  let r0 := dt_bf n g 0 in
  let m0 := dt_apsp n (dt_no0 g) in
  map (fun dh => existsb (fun a => Nat.eqb (arc_dst a) (snd dh) && dt_opt_arc r0 m0 (fst dh) a) g) es.
Definition dt_reachable_all (n : nat) (g : list dt_arc) : list bool :=
  let r0 := dt_bf n g 0 in
  map (fun d => match dt_get r0 d with Some _ => true | None => false end) (seq 0 n).

(* the model's own choice of a first hop: the first optimal arc in the arc list *)
Definition dt_first_hop (r0 : list (option Z)) (m0 : list (list (option Z))) (g : list dt_arc) (d : nat) : option nat :=
  match find (dt_opt_arc r0 m0 d) g with
  | Some a => Some (arc_dst a)
  | None => None
  end.

(* routing table over indices: destinations 1..n-1 (Go: for i := 1; i < length; i++) *)
Definition dt_table_idx (n : nat) (g : list dt_arc) : list (nat * nat) :=
  let r0 := dt_bf n g 0 in
  let m0 := dt_apsp n (dt_no0 g) in
  flat_map (fun d => match dt_first_hop r0 m0 g d with Some h => [(d, h)] | None => [] end) (seq 1 (n - 1)).

(* ---------------------------------------------------------------------------------------- *)
(* 2. link-state data, ShouldReplace, node indexing, the state of one DTLSR instance         *)

Record dt_pd := mk_pd { pd_id : N; pd_ts : N; pd_peers : list (N * N) }.

(* bpv7.DTLSRPeerData.ShouldReplace: pd.Timestamp > other.Timestamp  (strict) *)
Definition dt_should_replace (nw old : dt_pd) : bool := pd_ts old <? pd_ts nw.

Record dt_state := mk_dt {
  dt_self : N;
  dt_own : list (N * N);          (* dtlsr.peers.Peers : peer -> 0 (live) | time of loss *)
  dt_own_ts : N;                  (* dtlsr.peers.Timestamp *)
  dt_recv : list dt_pd;           (* dtlsr.receivedData, keyed by pd_id *)
  dt_index : list N;              (* dtlsr.indexNode; nodeIndex = position; length = its length *)
  dt_table : list (N * N);        (* dtlsr.routingTable : destination -> next hop *)
  dt_peer_change : bool;
  dt_recv_change : bool
}.

Definition dt_init (self ts0 : N) : dt_state :=
  mk_dt self [] ts0 [] [self] [] false false.

Fixpoint dt_assoc_set (k v : N) (l : list (N * N)) : list (N * N) :=
  match l with
  | [] => [(k, v)]
  | (k', v') :: r => if k' =? k then (k, v) :: r else (k', v') :: dt_assoc_set k v r
  end.
Fixpoint dt_assoc_get (k : N) (l : list (N * N)) : option N :=
  match l with
  | [] => None
  | (k', v') :: r => if k' =? k then Some v' else dt_assoc_get k r
  end.

Fixpoint dt_recv_get (id : N) (l : list dt_pd) : option dt_pd :=
  match l with
  | [] => None
  | d :: r => if pd_id d =? id then Some d else dt_recv_get id r
  end.
Fixpoint dt_recv_set (nw : dt_pd) (l : list dt_pd) : list dt_pd :=
  match l with
  | [] => [nw]
  | d :: r => if pd_id d =? pd_id nw then nw :: r else d :: dt_recv_set nw r
  end.

(* newNode: append when not yet tracked *)
Definition dt_new_node (id : N) (idx : list N) : list N :=
  if existsb (N.eqb id) idx then idx else idx ++ [id].
Definition dt_new_nodes (ids : list N) (idx : list N) : list N := fold_left (fun i x => dt_new_node x i) ids idx.

Fixpoint dt_find_index (id : N) (idx : list N) : option nat :=
  match idx with
  | [] => None
  | x :: r => if x =? id then Some O else match dt_find_index id r with Some i => Some (S i) | None => None end
  end.
(* dtlsr.nodeIndex[id]: a missing key reads as 0 *)
Definition dt_node_index (id : N) (idx : list N) : nat :=
  match dt_find_index id idx with Some i => i | None => O end.

(* NotifyNewBundle, DTLSR-block part *)
Definition dt_notify (st : dt_state) (d : dt_pd) : dt_state :=
  match dt_recv_get (pd_id d) (dt_recv st) with
  | None =>
    mk_dt (dt_self st) (dt_own st) (dt_own_ts st) (dt_recv_set d (dt_recv st))
          (dt_new_nodes (map fst (pd_peers d)) (dt_new_node (pd_id d) (dt_index st)))
          (dt_table st) (dt_peer_change st) true
  | Some old =>
    if dt_should_replace d old then
      mk_dt (dt_self st) (dt_own st) (dt_own_ts st) (dt_recv_set d (dt_recv st))
            (dt_new_nodes (map fst (pd_peers d)) (dt_index st))
            (dt_table st) (dt_peer_change st) true
    else st
  end.

(* ReportPeerAppeared *)
Definition dt_appear (st : dt_state) (p now : N) : dt_state :=
  mk_dt (dt_self st) (dt_assoc_set p 0 (dt_own st)) now (dt_recv st) (dt_new_node p (dt_index st))
        (dt_table st) true (dt_recv_change st).

(* ReportPeerDisappeared: no newNode *)
Definition dt_disappear (st : dt_state) (p now : N) : dt_state :=
  mk_dt (dt_self st) (dt_assoc_set p now (dt_own st)) now (dt_recv st) (dt_index st)
        (dt_table st) true (dt_recv_change st).

(* purgePeers: a lost peer is dropped when  lossTime + purgeTime < now  *)
Definition dt_purge (st : dt_state) (now ptime : N) : dt_state :=
  let keep := fun kv : N * N => (snd kv =? 0) || negb (snd kv + ptime <? now) in
  mk_dt (dt_self st) (filter keep (dt_own st)) (dt_own_ts st) (dt_recv st) (dt_index st) (dt_table st)
        (dt_peer_change st || negb (forallb keep (dt_own st))) (dt_recv_change st).

(* cost of an arc: 0 for a live link, now - t for a link lost at t *)
Definition dt_edge_cost (now t : N) : Z := if t =? 0 then 0%Z else (Z.of_N now - Z.of_N t)%Z.

Definition dt_arcs_of (idx : list N) (now : N) (src : nat) (peers : list (N * N)) : list dt_arc :=
  map (fun pt => (src, dt_node_index (fst pt) idx, dt_edge_cost now (snd pt))) peers.

(* arcs in the order they are handed to graph.AddArc: own arcs (from literal 0) first *)
Definition dt_raw_arcs (st : dt_state) (now : N) : list dt_arc :=
  dt_arcs_of (dt_index st) now O (dt_own st) ++
  flat_map (fun d => dt_arcs_of (dt_index st) now (dt_node_index (pd_id d) (dt_index st)) (pd_peers d)) (dt_recv st).

(* Vertex.AddArc overwrites an existing arc to the same destination *)
Definition dt_add_arc (g : list dt_arc) (a : dt_arc) : list dt_arc :=
  a :: filter (fun b => negb (Nat.eqb (arc_src b) (arc_src a) && Nat.eqb (arc_dst b) (arc_dst a))) g.
Definition dt_graph (st : dt_state) (now : N) : list dt_arc := fold_left dt_add_arc (dt_raw_arcs st now) [].

Definition dt_table_of (idx : list N) (t : list (nat * nat)) : list (N * N) :=
  map (fun dh => (nth (fst dh) idx 0, nth (snd dh) idx 0)) t.

(* computeRoutingTable *)
Definition dt_compute (st : dt_state) (now : N) : dt_state :=
  mk_dt (dt_self st) (dt_own st) (dt_own_ts st) (dt_recv st) (dt_index st)
        (dt_table_of (dt_index st) (dt_table_idx (length (dt_index st)) (dt_graph st now)))
        (dt_peer_change st) (dt_recv_change st).

(* recomputeCron *)
Definition dt_recompute_cron (st : dt_state) (now : N) : dt_state :=
  if dt_peer_change st || dt_recv_change st then
    let s := dt_compute st now in
    mk_dt (dt_self s) (dt_own s) (dt_own_ts s) (dt_recv s) (dt_index s) (dt_table s) (dt_peer_change s) false
  else st.

Inductive dt_op :=
| DtNotify (d : dt_pd)
| DtAppear (p now : N)
| DtDisappear (p now : N)
| DtPurge (now ptime : N)
| DtCompute (now : N)
| DtCron (now : N).

Definition dt_step (st : dt_state) (o : dt_op) : dt_state :=
  match o with
  | DtNotify d => dt_notify st d
  | DtAppear p now => dt_appear st p now
  | DtDisappear p now => dt_disappear st p now
  | DtPurge now pt => dt_purge st now pt
  | DtCompute now => dt_compute st now
  | DtCron now => dt_recompute_cron st now
  end.
Definition dt_run (st : dt_state) (ops : list dt_op) : dt_state := fold_left dt_step ops st.

(* is neighbour p connected after the history: the last appearance / disappearance event that
   concerns p is an appearance ([acc]: connected before the history) *)
Fixpoint dt_connected_from (acc : bool) (ops : list dt_op) (p : N) : bool :=
  match ops with
  | [] => acc
  | DtAppear q _ :: r => dt_connected_from (if q =? p then true else acc) r p
  | DtDisappear q _ :: r => dt_connected_from (if q =? p then false else acc) r p
  | _ :: r => dt_connected_from acc r p
  end.
Definition dt_connected (ops : list dt_op) (p : N) : bool := dt_connected_from false ops p.

(* ---------------------------------------------------------------------------------------- *)
(* 3. forwarding: Core.forward's choice of senders for a DTLSR node                           *)

(* a destination endpoint: its node, and whether it is the bare node ID (the routing table is
   keyed by node IDs and looked up with the full destination endpoint) *)
Record dt_dest := mk_dest { dst_node : N; dst_bare : bool }.

(* filterCLAs: senders (peer IDs in CLA order) not yet in sent; sent grows while scanning *)
Fixpoint dt_filter_clas (senders sent : list N) : list N * list N :=
  match senders with
  | [] => ([], sent)
  | p :: r =>
    if existsb (N.eqb p) sent then dt_filter_clas r sent
    else let '(f, s) := dt_filter_clas r (sent ++ [p]) in (p :: f, s)
  end.

(* SenderForBundle: (chosen peers, new sent list, delete afterwards) *)
Definition dt_sender_for_bundle (table : list (N * N)) (senders sent : list N) (broadcast : bool) (dest : dt_dest)
  : list N * list N * bool :=
  if broadcast then
    let '(f, s) := dt_filter_clas senders sent in (f, s, false)
  else
    match (if dst_bare dest then dt_assoc_get (dst_node dest) table else None) with
    | None => ([], sent, false)
    | Some h => if existsb (N.eqb h) senders then ([h], sent, true) else ([], sent, false)
    end.

(* Core.forward: direct delivery to connected senders of the destination node first *)
Definition dt_forward_select (table : list (N * N)) (senders sent : list N) (broadcast : bool) (dest : dt_dest)
  : list N * list N * bool :=
  match filter (N.eqb (dst_node dest)) senders with
  | [] => dt_sender_for_bundle table senders sent broadcast dest
  | direct => (direct, sent, true)
  end.

(* a broadcast bundle offered repeatedly (checkPendingBundles) while the set of senders changes *)
Fixpoint dt_bcast_run (sent : list N) (calls : list (list N)) : list (list N) :=
  match calls with
  | [] => []
  | senders :: r => let '(f, s) := dt_filter_clas senders sent in f :: dt_bcast_run s r
  end.
