(* Forward.v - executable model of what pkg/routing does to a bundle between accepting it and
   handing it to a convergence layer (processing.go: receive's unknown-block loop, forward;
   bundle_descriptor.go: UpdateBundleAge, Bundle(); bpv7: HopCountBlock, AddExtensionBlock,
   canonicalBlockNumberSort), as a pure function of the accepted bundle, this node's ID, the
   clock and the residence time.

   What is stored: NewBundleDescriptorFromBundle pushes the bundle AS RECEIVED (Sync -> Store.Push
   when the ID is unknown); every later Sync only updates the item's properties (constraints,
   receiver, reception timestamp) and Store.Push ignores a known ID.  All block changes made by
   receive / forward / the routing algorithm are made on the in-memory copy only.  A retry
   (checkPendingBundles -> dispatching (NewBundleDescriptor id)) loads the stored copy again
   (Parts[0].Load = ParseBundle incl. CheckValid) and the stored reception timestamp.  Hence a
   retry = [fw_retry] applied to the SAME stored bundle with a larger residence time.

   The model describes the code AFTER the four fix: commits of C06 (hop count not wrapped at
   255; residence time in milliseconds; removal of unsupported blocks also in forward; reception
   timestamp stored also when the algorithm defers dispatching, so that the residence time of a
   retry always counts from the reception). *)
From DTN Require Import Base Cbor Crc Eid Bundle.
Open Scope N_scope.

Inductive fw_reason :=
| FwHopLimit       (* hop count would exceed the limit: bundleDeletion *)
| FwLifetime       (* IsLifetimeExceeded: bundleDeletion *)
| FwAge            (* updated age >= lifetime: bundleDeletion *)
| FwUnsupported    (* receive: unknown block with the delete-bundle flag: bundleDeletion *)
| FwLoad.          (* retry: the stored copy does not load (CheckValid fails): skipped, stays stored *)

Inductive fw_result := FwRefuse (r : fw_reason) | FwSend (b : bundle).

Definition fw_set_val (c : cblock) (v : ext) : cblock :=
  {| c_num := c_num c; c_flags := c_flags c; c_crc := c_crc c; c_val := v |}.

(* Bundle.ExtensionBlock(t) returns a pointer to the FIRST block of that type; assignments
   through it replace that block's value in place *)
Fixpoint fw_set_first (t : N) (v : ext) (l : list cblock) : list cblock :=
  match l with
  | [] => []
  | c :: l' => if c_type c =? t then fw_set_val c v :: l' else c :: fw_set_first t v l'
  end.

(* ---- unknown blocks ---- *)
Definition fw_unknown (c : cblock) : bool := negb (known_type (c_type c)).

(* receive (processing.go:101-145): from the LAST block backwards; an unknown block with the
   delete flag deletes the bundle, one with the remove flag is cut out. (The status report for
   the report flag is C15's business.) *)
Fixpoint fw_receive_blocks (l : list cblock) : option (list cblock) :=
  match l with
  | [] => Some []
  | c :: l' =>
      match fw_receive_blocks l' with      (* the later blocks are processed first *)
      | None => None
      | Some r =>
          if negb (fw_unknown c) then Some (c :: r)
          else if has (c_flags c) BF_DELETE then None
          else if has (c_flags c) BF_REMOVE then Some r
          else Some (c :: r)
      end
  end.

(* forward (after fix c): the same removal on whatever copy forward works on *)
Definition fw_removable (c : cblock) : bool := fw_unknown c && has (c_flags c) BF_REMOVE.
Definition fw_strip (l : list cblock) : list cblock := filter (fun c => negb (fw_removable c)) l.

(* ---- hop count: uint8 counter (after fix a: 255 cannot be incremented) ---- *)
Definition fw_hop_step (l : list cblock) : option (list cblock) :=
  match find_type 10 l with
  | Some {| c_val := XHop lim cnt |} =>
      if cnt =? 255 then None
      else if lim <? cnt + 1 then None
      else Some (fw_set_first 10 (XHop lim (cnt + 1)) l)
  | _ => Some l
  end.

(* ---- bundle age: uint64 milliseconds (after fix b) ---- *)
Definition fw_u64 (n : N) : N := n mod 18446744073709551616.
Definition fw_age_step (res life : N) (l : list cblock) : option (list cblock) :=
  match find_type 7 l with
  | Some {| c_val := XAge a |} =>
      let a' := fw_u64 (a + res) in
      if life <=? a' then None else Some (fw_set_first 7 (XAge a') l)
  | _ => Some l
  end.

(* ---- AddExtensionBlock: smallest free block number from 2 (1 for a payload block), append,
   sortBlocks.  sort.Sort with canonicalBlockNumberSort.Less: block number 1 counts as the
   largest.  Modelled as the stable insertion sort (what sort.Sort does for < 12 elements; for
   pairwise distinct block numbers the sorted result is unique anyway). ---- *)
Fixpoint fw_free_num (fuel : nat) (n : N) (nums : list N) : N :=
  match fuel with
  | O => n
  | S fuel => if existsb (N.eqb n) nums then fw_free_num fuel (n + 1) nums else n
  end.

Definition fw_less (a b : cblock) : bool :=
  if c_num a =? 1 then false else if c_num b =? 1 then true else c_num a <? c_num b.

Fixpoint fw_insert (x : cblock) (l : list cblock) : list cblock :=
  match l with
  | [] => [x]
  | y :: l' => if fw_less x y then x :: y :: l' else y :: fw_insert x l'
  end.

Definition fw_sort (l : list cblock) : list cblock := fold_left (fun acc x => fw_insert x acc) l [].

Definition fw_add_block (flags crc : N) (v : ext) (l : list cblock) : list cblock :=
  let nums := map c_num l in
  let start := if ext_type v =? 1 then 1 else 2 in
  let num := fw_free_num (S (length nums)) start nums in
  fw_sort (l ++ [{| c_num := num; c_flags := flags; c_crc := crc; c_val := v |}]).

(* ---- previous node: replace the value or append a new block (number 0 -> renumbered, flags 0, no CRC) ---- *)
Definition fw_prev_step (node : eid) (l : list cblock) : list cblock :=
  match find_type 6 l with
  | Some _ => fw_set_first 6 (XPrev node) l
  | None => fw_add_block 0 0 (XPrev node) l
  end.

(* ---- forward up to the choice of the senders ---- *)
Definition fw_forward (node : eid) (now res : N) (b : bundle) : fw_result :=
  let p := b_pri b in
  match fw_hop_step (fw_strip (b_blocks b)) with
  | None => FwRefuse FwHopLimit
  | Some l1 =>
      if lifetime_exceeded now {| b_pri := p; b_blocks := l1 |} then FwRefuse FwLifetime
      else match fw_age_step res (p_life p) l1 with
           | None => FwRefuse FwAge
           | Some l2 => FwSend {| b_pri := p; b_blocks := fw_prev_step node l2 |}
           end
  end.

(* the first pass, inside receive *)
Definition fw_receive (node : eid) (now res : N) (b : bundle) : fw_result :=
  match fw_receive_blocks (b_blocks b) with
  | None => FwRefuse FwUnsupported
  | Some l => fw_forward node now res {| b_pri := b_pri b; b_blocks := l |}
  end.

(* a retry: load the stored copy (ParseBundle ends with CheckValid), then forward *)
Definition fw_retry (node : eid) (now res : N) (stored : bundle) : fw_result :=
  if check_valid now stored then fw_forward node now res stored else FwRefuse FwLoad.

(* ---- blocks owned by the routing algorithm: binary spray sets the copies of the bundle's
   BinarySprayBlock or adds one (SenderForBundle, algorithm_spray.go:352-358); the other
   algorithms do not touch data bundles.  [copies] is an oracle taken from the run. ---- *)
Definition fw_alg_touch (copies : option N) (b : bundle) : bundle :=
  match copies with
  | None => b
  | Some n =>
      {| b_pri := b_pri b;
         b_blocks := match find_type 192 (b_blocks b) with
                     | Some _ => fw_set_first 192 (XSpray n) (b_blocks b)
                     | None => fw_add_block 0 0 (XSpray n) (b_blocks b)
                     end |}
  end.

Definition fw_touch_result (copies : option N) (r : fw_result) : fw_result :=
  match r with FwSend b => FwSend (fw_alg_touch copies b) | _ => r end.

(* ---- the store item of one bundle over time ----
   state: the stored copy, if still stored.  Oracles per event: the clock, the residence time,
   the algorithm's copies, and [keep] = the item survives a transmission (false: sent and the
   algorithm said delete-afterwards, or a delivered-report removed it). *)
Inductive fw_event :=
| FwEvRetry (now res : N) (copies : option N) (keep : bool)
| FwEvClean (now : N).

Record fw_out := { fo_now : N; fo_res : N; fo_copies : option N; fo_result : fw_result }.

Definition fw_store_after (stored : bundle) (keep : bool) (r : fw_result) : option bundle :=
  match r with
  | FwRefuse FwLoad => Some stored
  | FwRefuse _ => None
  | FwSend _ => if keep then Some stored else None
  end.

(* Store.DeleteExpired: Expires (= creation time + lifetime, calcExpirationDate) < now.  Only used
   for bundles with a non-zero creation time (clock-less bundles in the store are C05's matter). *)
Definition fw_store_expired (now : N) (b : bundle) : bool :=
  (deadline_ns (b_pri b) <? (Z.of_N now + ms1970to2k) * 1000000)%Z.

Definition fw_step (node : eid) (st : option bundle) (e : fw_event) : option bundle * list fw_out :=
  match st with
  | None => (None, [])
  | Some s =>
      match e with
      | FwEvRetry now res copies keep =>
          let r := fw_touch_result copies (fw_retry node now res s) in
          (fw_store_after s keep r, [{| fo_now := now; fo_res := res; fo_copies := copies; fo_result := r |}])
      | FwEvClean now =>
          (if negb (p_time (b_pri s) =? 0) && fw_store_expired now s then None else Some s, [])
      end
  end.

Fixpoint fw_run (node : eid) (st : option bundle) (es : list fw_event) : option bundle * list fw_out :=
  match es with
  | [] => (st, [])
  | e :: es' =>
      let '(st1, o1) := fw_step node st e in
      let '(st2, o2) := fw_run node st1 es' in
      (st2, o1 ++ o2)
  end.

(* reception: the bundle is stored as received, then processed *)
Definition fw_accept (node : eid) (now res : N) (copies : option N) (keep : bool) (b : bundle)
  : option bundle * list fw_out :=
  let r := fw_touch_result copies (fw_receive node now res b) in
  (fw_store_after b keep r, [{| fo_now := now; fo_res := res; fo_copies := copies; fo_result := r |}]).

Definition fw_history (node : eid) (now res : N) (copies : option N) (keep : bool) (b : bundle)
           (es : list fw_event) : option bundle * list fw_out :=
  let '(st1, o1) := fw_accept node now res copies keep b in
  let '(st2, o2) := fw_run node st1 es in
  (st2, o1 ++ o2).

(* ---- boolean helpers for the driver's property checker ---- *)
Definition fw_cblock_eqb_shell (a b : cblock) : bool :=
  (c_num a =? c_num b) && (c_flags a =? c_flags b) && (c_crc a =? c_crc b).

(* ---- the store item with its reception time; the same bundle handed in again ----
   NewBundleDescriptor loads the item's stored properties when the ID is known, among them
   "bundlepack/timestamp"; the Syncs that follow write the same value back.  receive returns at
   once for a descriptor that already has retention constraints (= the bundle is stored): a
   duplicate of a stored bundle changes neither the stored copy nor the reception time and
   transmits nothing, whatever the duplicate's own mutable blocks look like.  When the bundle has
   left the store, the bundle handed in is a new reception (stored as handed in, stamped now).
   [wall] is a monotone clock in ms; the residence time of a retry at [wall] is [wall - ti_rx]. *)
Record fw_titem := { ti_b : bundle; ti_rx : N }.

Inductive fw_tevent :=
| FwTRecv (b : bundle) (wall delay now : N) (copies : option N) (keep : bool)
    (* handed in at [wall], processed [delay] ms later at clock [now] *)
| FwTRetry (wall now : N) (copies : option N) (keep : bool)
| FwTClean (now : N).

Definition fw_tlift (rx : N) (s : option bundle) : option fw_titem :=
  match s with Some b => Some {| ti_b := b; ti_rx := rx |} | None => None end.

Definition fw_tstep (node : eid) (st : option fw_titem) (e : fw_tevent) : option fw_titem * list fw_out :=
  match st, e with
  | Some it, FwTRecv _ _ _ _ _ _ => (Some it, [])
  | None, FwTRecv b wall delay now copies keep =>
      let '(s, o) := fw_accept node now delay copies keep b in (fw_tlift wall s, o)
  | Some it, FwTRetry wall now copies keep =>
      let '(s, o) := fw_step node (Some (ti_b it)) (FwEvRetry now (wall - ti_rx it) copies keep) in
      (fw_tlift (ti_rx it) s, o)
  | Some it, FwTClean now =>
      let '(s, o) := fw_step node (Some (ti_b it)) (FwEvClean now) in (fw_tlift (ti_rx it) s, o)
  | None, _ => (None, [])
  end.

Fixpoint fw_trun (node : eid) (st : option fw_titem) (es : list fw_tevent) : option fw_titem * list fw_out :=
  match es with
  | [] => (st, [])
  | e :: es' =>
      let '(st1, o1) := fw_tstep node st e in
      let '(st2, o2) := fw_trun node st1 es' in
      (st2, o1 ++ o2)
  end.

(* the bundles handed in during a history *)
Fixpoint fw_thanded (es : list fw_tevent) : list bundle :=
  match es with
  | [] => []
  | FwTRecv b _ _ _ _ _ :: es' => b :: fw_thanded es'
  | _ :: es' => fw_thanded es'
  end.
