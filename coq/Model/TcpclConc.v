(* TcpclConc.v - executable model of the goroutine / channel network of ONE established TCPCLv4
   session of dtn7-go and of a PAIR of sessions joined by a bounded duplex transport.
   Definitions only; proofs are in Proofs/TcpclConcProofs.v (and TcpclConcExplore.v).

   Go sources (tree after commit b52fcd3):
     pkg/cla/tcpclv4/internal/utils/message_switch_readerwriter.go   handleIn (reader), handleOut (writer),
                                                                     inChan / outChan (32 each)
     pkg/cla/tcpclv4/internal/stages/stage_handler.go                ExchangeMsgIn / ExchangeMsgOut (32 each)
     pkg/cla/tcpclv4/internal/stages/sess_established.go             Handle (select), messageOut, handleKeepalive,
                                                                     handleMsgIn (inner select since b52fcd3)
     pkg/cla/tcpclv4/internal/utils/transfer_manager.go              handle, Send (emitting goroutine + main loop,
                                                                     ackChan 32, lenChan 1, 10 s timer),
                                                                     chanBundles (unbuffered)
     pkg/cla/tcpclv4/client.go                                       Client.handle (consumer; reportChan 32)
     pkg/cla/tcpclv4/internal/utils/keepalive_ticker.go              ticks (unbuffered channel)

   Granularity: one step = one channel operation (or one read / write on the transport) of one
   goroutine together with the local computation that precedes it.  A [select] with several
   ready cases is a choice between several process labels (the stage: [PStIn] / [PStOut] /
   [PStTick]; Send's main loop: [PSendLen] / [PSendAck] / [PSendTimeout]).
   Messages are abstracted to segment(id, END?), acknowledgement(id, acknowledged length),
   refusal(id), keepalive; one segment carries one unit of data, so the acknowledged length of the
   k-th segment of a transfer is k.  Not modelled: session termination (SESS_TERM, Close, the error
   exits of the stage) - the session is and stays established; a TransferManager.handle that hits
   one of its error exits is [HDead] and never steps again. *)
From DTN Require Import Base.
Open Scope nat_scope.

(* ---- messages ---- *)
Inductive tcn_msg :=
| CSeg (t : nat) (last : bool)   (* XFER_SEGMENT of transfer t; last = END flag *)
| CAck (t k : nat)               (* XFER_ACK of transfer t, acknowledged length k *)
| CRef (t : nat)                 (* XFER_REFUSE *)
| CKa.                           (* KEEPALIVE *)

(* ---- configuration: channel capacities and the presence of the repair b52fcd3 ---- *)
Record tcn_conf := mkTcnConf {
  cf_fix : bool;    (* true = handleMsgIn serves ExchangeMsgOut while it waits (b52fcd3) *)
  cf_in : nat;      (* MessageSwitchReaderWriter.inChan *)
  cf_out : nat;     (* MessageSwitchReaderWriter.outChan *)
  cf_xin : nat;     (* State.ExchangeMsgIn *)
  cf_xout : nat;    (* State.ExchangeMsgOut *)
  cf_ack : nat;     (* Send: ackChan *)
  cf_rep : nat;     (* Client.reportChan *)
  cf_T : nat        (* transport, messages per direction; 0 = rendezvous (net.Pipe) *)
}.

(* the capacities of the code (make(chan ..., 32) six times); tied to the Go literals in
   Proofs/ConstsOkTcpclConc.v *)
Definition tcn_cap_in : nat := 32.
Definition tcn_cap_out : nat := 32.
Definition tcn_cap_xin : nat := 32.
Definition tcn_cap_xout : nat := 32.
Definition tcn_cap_ack : nat := 32.
Definition tcn_cap_rep : nat := 32.
Definition tcn_real (fx : bool) (T : nat) : tcn_conf :=
  mkTcnConf fx tcn_cap_in tcn_cap_out tcn_cap_xin tcn_cap_xout tcn_cap_ack tcn_cap_rep T.
(* all six capacities scaled down to c *)
Definition tcn_scaled (fx : bool) (c T : nat) : tcn_conf := mkTcnConf fx c c c c c c T.

(* send on a buffered channel of capacity [cap]: None = would block *)
Definition tcn_put {A} (cap : nat) (q : list A) (m : A) : option (list A) :=
  if length q <? cap then Some (q ++ [m]) else None.

(* ---- one direction of the transport: bytes under way and the message the reading goroutine
   has read but not yet put into its inChan (handleIn between ReadMessage and "inChan <- msg") ---- *)
Record tcn_link := mkTcnLink { lk_q : list tcn_msg; lk_h : option tcn_msg }.
Definition tcn_link0 : tcn_link := mkTcnLink [] None.

(* Write + Flush of one message.  T = 0 (net.Pipe): the write returns when the reader has taken
   the whole message, i.e. it lands in the reader's hand.  T > 0: space for T messages. *)
Definition tcn_link_write (T : nat) (l : tcn_link) (m : tcn_msg) : option tcn_link :=
  match T with
  | O => match lk_h l, lk_q l with None, [] => Some (mkTcnLink [] (Some m)) | _, _ => None end
  | S _ => if length (lk_q l) <? T then Some (mkTcnLink (lk_q l ++ [m]) (lk_h l)) else None
  end.
(* ReadMessage *)
Definition tcn_link_read (l : tcn_link) : option tcn_link :=
  match lk_h l, lk_q l with
  | None, m :: r => Some (mkTcnLink r (Some m))
  | _, _ => None
  end.

(* ---- control states ---- *)
(* SessEstablishedStage *)
Inductive tcn_stage :=
| GMain                           (* at the select of Handle *)
| GOut (o : tcn_msg)              (* Handle -> messageOut: "MsgOut <- o" *)
| GUp (m : tcn_msg)               (* handleMsgIn: m is to be handed up (the inner select) *)
| GUpOut (m o : tcn_msg).         (* handleMsgIn -> messageOut(o), m still to be handed up *)

(* TransferManager.handle *)
Inductive tcn_hst :=
| HIdle                                   (* at the select *)
| HAckOut (a : tcn_msg) (fin : option nat)   (* "tm.msgOut <- dam"; fin = transfer finished by it *)
| HDeliver (t : nat)                      (* "tm.chanBundles <- b" *)
| HFwd (t : nat) (m : tcn_msg)            (* "ackChan <- msg" *)
| HDead.                                  (* wrote to chanErrors and returned *)

(* Send: the emitting goroutine *)
Inductive tcn_emst :=
| EmLoop                  (* at the head of the loop *)
| EmPut (m : tcn_msg)     (* "tm.msgOut <- dtm" *)
| EmDone.                 (* returned *)

Inductive tcn_res := ROk | RRefused | RTimeout.

(* one TransferManager.Send call; its transfer id is its index in [tcn_snd] *)
Record tcn_send := mkTcnSend {
  sd_n : nat;                 (* number of segments of the bundle (>= 1) *)
  sd_next : nat;              (* segments produced by NextSegment so far (= l, the length emitted) *)
  sd_em : tcn_emst;
  sd_len : option nat;        (* lenChan (capacity 1, written once) *)
  sd_ack : list tcn_msg;      (* ackChan *)
  sd_inlen : nat;
  sd_outlen : nat;
  sd_stop : bool;             (* the local stopped flag *)
  sd_res : option tcn_res     (* Some = Send has returned (and deregistered its ackChan) *)
}.
Definition tcn_send0 (n : nat) : tcn_send := mkTcnSend n 0 EmLoop None [] 0 0 false None.

Record tcn_sess := mkTcnSess {
  tcn_in : list tcn_msg;      (* ms.inChan *)
  tcn_out : list tcn_msg;     (* ms.outChan *)
  tcn_wh : option tcn_msg;    (* handleOut: message taken from outChan, being written *)
  tcn_st : tcn_stage;
  tcn_xin : list tcn_msg;     (* ExchangeMsgIn *)
  tcn_xout : list tcn_msg;    (* ExchangeMsgOut *)
  tcn_h : tcn_hst;
  tcn_rx : list (nat * nat);  (* inTransfers: transfer id -> length received so far *)
  tcn_snd : list tcn_send;
  tcn_cl : option nat;        (* Client.handle holds a received bundle: "reportChan <- ..." *)
  tcn_rep : list nat;         (* reportChan (received bundles, by transfer id) *)
  tcn_up : list nat;          (* bundles the upper layer has taken from Channel(), oldest first *)
  tcn_ticks : nat             (* keepalive ticks that may still fire *)
}.
Definition tcn_sess0 (ns : list nat) (ticks : nat) : tcn_sess :=
  mkTcnSess [] [] None GMain [] [] HIdle [] (map tcn_send0 ns) None [] [] ticks.

(* ---- inTransfers ---- *)
Fixpoint tcn_rx_get (rx : list (nat * nat)) (t : nat) : nat :=
  match rx with
  | [] => 0
  | (k, v) :: rx => if k =? t then v else tcn_rx_get rx t
  end.
Fixpoint tcn_rx_del (rx : list (nat * nat)) (t : nat) : list (nat * nat) :=
  match rx with
  | [] => []
  | (k, v) :: rx => if k =? t then tcn_rx_del rx t else (k, v) :: tcn_rx_del rx t
  end.
Definition tcn_rx_set (rx : list (nat * nat)) (t v : nat) : list (nat * nat) := (t, v) :: tcn_rx_del rx t.
(* handle(), case DataTransmissionMessage: LoadOrStore + NextSegment (+ Delete after END) *)
Definition tcn_rx_next (rx : list (nat * nat)) (t : nat) (last : bool) : list (nat * nat) :=
  if last then tcn_rx_del rx t else tcn_rx_set rx t (S (tcn_rx_get rx t)).

Fixpoint tcn_upd {A} (i : nat) (x : A) (l : list A) : list A :=
  match l, i with
  | [], _ => []
  | _ :: r, O => x :: r
  | y :: r, S j => y :: tcn_upd j x r
  end.

(* ---- processes of a session ---- *)
Inductive tcn_proc :=
| PRRead            (* handleIn: ReadMessage *)
| PRPush            (* handleIn: inChan <- msg *)
| PWTake            (* handleOut: msg := <-outChan *)
| PWWrite           (* handleOut: Marshal + Flush *)
| PStTick           (* stage, select case keepalive.C (a KEEPALIVE is due) *)
| PStIn             (* stage, case <-MsgIn at the outer select / case ExchangeMsgIn <- msg at the inner *)
| PStOut            (* stage, case <-ExchangeMsgOut (outer, or inner select with the repair) *)
| PStPut            (* stage, messageOut: MsgOut <- msg *)
| PH                (* TransferManager.handle, next channel operation *)
| PEmit (i : nat)         (* emitting goroutine of Send i *)
| PSendLen (i : nat)      (* Send i main loop, case <-lenChan *)
| PSendAck (i : nat)      (* Send i main loop, case <-ackChan *)
| PSendTimeout (i : nat)  (* Send i main loop, case <-time.After(10 s) *)
| PClient           (* Client.handle: reportChan <- received bundle *)
| PUpper.           (* the consumer of Client.Channel() *)

(* ---- setters ---- *)
Definition tcn_set_in (s : tcn_sess) v := mkTcnSess v (tcn_out s) (tcn_wh s) (tcn_st s) (tcn_xin s) (tcn_xout s) (tcn_h s) (tcn_rx s) (tcn_snd s) (tcn_cl s) (tcn_rep s) (tcn_up s) (tcn_ticks s).
Definition tcn_set_w (s : tcn_sess) o w := mkTcnSess (tcn_in s) o w (tcn_st s) (tcn_xin s) (tcn_xout s) (tcn_h s) (tcn_rx s) (tcn_snd s) (tcn_cl s) (tcn_rep s) (tcn_up s) (tcn_ticks s).
(* the stage touches inChan, outChan, its control state, ExchangeMsgIn, ExchangeMsgOut, the ticks *)
Definition tcn_set_stage (s : tcn_sess) i o g xi xo k := mkTcnSess i o (tcn_wh s) g xi xo (tcn_h s) (tcn_rx s) (tcn_snd s) (tcn_cl s) (tcn_rep s) (tcn_up s) k.
(* handle touches ExchangeMsgIn, ExchangeMsgOut, its control state, inTransfers, the ackChans, the client *)
Definition tcn_set_h (s : tcn_sess) xi xo h rx snd cl := mkTcnSess (tcn_in s) (tcn_out s) (tcn_wh s) (tcn_st s) xi xo h rx snd cl (tcn_rep s) (tcn_up s) (tcn_ticks s).
Definition tcn_set_snd (s : tcn_sess) xo snd := mkTcnSess (tcn_in s) (tcn_out s) (tcn_wh s) (tcn_st s) (tcn_xin s) xo (tcn_h s) (tcn_rx s) snd (tcn_cl s) (tcn_rep s) (tcn_up s) (tcn_ticks s).
Definition tcn_set_cl (s : tcn_sess) cl rep up := mkTcnSess (tcn_in s) (tcn_out s) (tcn_wh s) (tcn_st s) (tcn_xin s) (tcn_xout s) (tcn_h s) (tcn_rx s) (tcn_snd s) cl rep up (tcn_ticks s).

Definition sd_set_em (d : tcn_send) next em len := mkTcnSend (sd_n d) next em len (sd_ack d) (sd_inlen d) (sd_outlen d) (sd_stop d) (sd_res d).
Definition sd_set_ack (d : tcn_send) a := mkTcnSend (sd_n d) (sd_next d) (sd_em d) (sd_len d) a (sd_inlen d) (sd_outlen d) (sd_stop d) (sd_res d).
Definition sd_set_main (d : tcn_send) len a il ol st r := mkTcnSend (sd_n d) (sd_next d) (sd_em d) len a il ol st r.

(* ---- Send ---- *)
(* the emitting goroutine: loop head (stopped? NextSegment: a segment / EOF -> lenChan <- l), then
   "tm.msgOut <- dtm" *)
Definition tcn_emit (cf : tcn_conf) (i : nat) (d : tcn_send) (xout : list tcn_msg)
  : option (tcn_send * list tcn_msg) :=
  match sd_em d with
  | EmLoop =>
    if sd_stop d then Some (sd_set_em d (sd_next d) EmDone (sd_len d), xout)
    else if sd_next d <? sd_n d
         then Some (sd_set_em d (S (sd_next d)) (EmPut (CSeg i (S (sd_next d) =? sd_n d))) (sd_len d), xout)
         else Some (sd_set_em d (sd_next d) EmDone (Some (sd_next d)), xout)
  | EmPut m =>
    match tcn_put (cf_xout cf) xout m with
    | Some xo => Some (sd_set_em d (sd_next d) EmLoop (sd_len d), xo)
    | None => None
    end
  | EmDone => None
  end.

(* main loop, case outLen = <-lenChan *)
Definition tcn_main_len (d : tcn_send) : option tcn_send :=
  match sd_res d, sd_len d with
  | None, Some l =>
    Some (sd_set_main d None (sd_ack d) (sd_inlen d) l (sd_stop d) (if l =? sd_inlen d then Some ROk else None))
  | _, _ => None
  end.
(* main loop, case response := <-ackChan *)
Definition tcn_main_ack (d : tcn_send) : option tcn_send :=
  match sd_res d, sd_ack d with
  | None, m :: r =>
    match m with
    | CAck _ k => Some (sd_set_main d (sd_len d) r k (sd_outlen d) (sd_stop d) (if sd_outlen d =? k then Some ROk else None))
    | _ => Some (sd_set_main d (sd_len d) r (sd_inlen d) (sd_outlen d) true (Some RRefused))
    end
  | _, _ => None
  end.
(* main loop, case <-time.After(10 * time.Second) *)
Definition tcn_main_timeout (d : tcn_send) : option tcn_send :=
  match sd_res d with
  | None => Some (sd_set_main d (sd_len d) (sd_ack d) (sd_inlen d) (sd_outlen d) true (Some RTimeout))
  | Some _ => None
  end.

(* ---- TransferManager.handle ---- *)
Definition tcn_h_route (snd : list tcn_send) (t : nat) (m : tcn_msg) : tcn_hst :=
  match nth_error snd t with
  | Some d => match sd_res d with None => HFwd t m | Some _ => HDead end   (* outFeedback.Load *)
  | None => HDead
  end.

Definition tcn_h_step (cf : tcn_conf) (s : tcn_sess) : option tcn_sess :=
  match tcn_h s with
  | HIdle =>
    match tcn_xin s with
    | [] => None
    | m :: r =>
      match m with
      | CSeg t last =>
        Some (tcn_set_h s r (tcn_xout s)
                (HAckOut (CAck t (S (tcn_rx_get (tcn_rx s) t))) (if last then Some t else None))
                (tcn_rx_next (tcn_rx s) t last) (tcn_snd s) (tcn_cl s))
      | CAck t _ => Some (tcn_set_h s r (tcn_xout s) (tcn_h_route (tcn_snd s) t m) (tcn_rx s) (tcn_snd s) (tcn_cl s))
      | CRef t => Some (tcn_set_h s r (tcn_xout s) (tcn_h_route (tcn_snd s) t m) (tcn_rx s) (tcn_snd s) (tcn_cl s))
      | CKa => Some (tcn_set_h s r (tcn_xout s) HDead (tcn_rx s) (tcn_snd s) (tcn_cl s))
      end
    end
  | HAckOut a fin =>
    match tcn_put (cf_xout cf) (tcn_xout s) a with
    | Some xo =>
      Some (tcn_set_h s (tcn_xin s) xo (match fin with Some t => HDeliver t | None => HIdle end)
              (tcn_rx s) (tcn_snd s) (tcn_cl s))
    | None => None
    end
  | HDeliver t =>
    (* chanBundles is unbuffered: Client.handle must be at its select *)
    match tcn_cl s with
    | None => Some (tcn_set_h s (tcn_xin s) (tcn_xout s) HIdle (tcn_rx s) (tcn_snd s) (Some t))
    | Some _ => None
    end
  | HFwd t m =>
    match nth_error (tcn_snd s) t with
    | Some d =>
      match tcn_put (cf_ack cf) (sd_ack d) m with
      | Some a => Some (tcn_set_h s (tcn_xin s) (tcn_xout s) HIdle (tcn_rx s) (tcn_upd t (sd_set_ack d a) (tcn_snd s)) (tcn_cl s))
      | None => None
      end
    | None => None
    end
  | HDead => None
  end.

(* ---- the step function of a session.  [lin] = transport towards this session, [lout] = away ---- *)
Definition tcn_send_apply (s : tcn_sess) (i : nat) (f : tcn_send -> option tcn_send) : option tcn_sess :=
  match nth_error (tcn_snd s) i with
  | Some d => match f d with
              | Some d' => Some (tcn_set_snd s (tcn_xout s) (tcn_upd i d' (tcn_snd s)))
              | None => None
              end
  | None => None
  end.

Definition tcn_sstep (cf : tcn_conf) (s : tcn_sess) (lin lout : tcn_link) (p : tcn_proc)
  : option (tcn_sess * tcn_link * tcn_link) :=
  match p with
  | PRRead => match tcn_link_read lin with Some l => Some (s, l, lout) | None => None end
  | PRPush =>
    match lk_h lin with
    | Some m => match tcn_put (cf_in cf) (tcn_in s) m with
                | Some q => Some (tcn_set_in s q, mkTcnLink (lk_q lin) None, lout)
                | None => None
                end
    | None => None
    end
  | PWTake =>
    match tcn_wh s, tcn_out s with
    | None, m :: r => Some (tcn_set_w s r (Some m), lin, lout)
    | _, _ => None
    end
  | PWWrite =>
    match tcn_wh s with
    | Some m => match tcn_link_write (cf_T cf) lout m with
                | Some l => Some (tcn_set_w s (tcn_out s) None, lin, l)
                | None => None
                end
    | None => None
    end
  | PStTick =>
    match tcn_st s, tcn_ticks s with
    | GMain, S k => Some (tcn_set_stage s (tcn_in s) (tcn_out s) (GOut CKa) (tcn_xin s) (tcn_xout s) k, lin, lout)
    | _, _ => None
    end
  | PStIn =>
    match tcn_st s with
    | GMain =>
      match tcn_in s with
      | [] => None
      | m :: r =>
        Some (tcn_set_stage s r (tcn_out s) (match m with CKa => GMain | _ => GUp m end)
                (tcn_xin s) (tcn_xout s) (tcn_ticks s), lin, lout)
      end
    | GUp m =>
      match tcn_put (cf_xin cf) (tcn_xin s) m with
      | Some xi => Some (tcn_set_stage s (tcn_in s) (tcn_out s) GMain xi (tcn_xout s) (tcn_ticks s), lin, lout)
      | None => None
      end
    | _ => None
    end
  | PStOut =>
    match tcn_st s, tcn_xout s with
    | GMain, o :: r => Some (tcn_set_stage s (tcn_in s) (tcn_out s) (GOut o) (tcn_xin s) r (tcn_ticks s), lin, lout)
    | GUp m, o :: r =>
      if cf_fix cf
      then Some (tcn_set_stage s (tcn_in s) (tcn_out s) (GUpOut m o) (tcn_xin s) r (tcn_ticks s), lin, lout)
      else None
    | _, _ => None
    end
  | PStPut =>
    match tcn_st s with
    | GOut o =>
      match tcn_put (cf_out cf) (tcn_out s) o with
      | Some q => Some (tcn_set_stage s (tcn_in s) q GMain (tcn_xin s) (tcn_xout s) (tcn_ticks s), lin, lout)
      | None => None
      end
    | GUpOut m o =>
      match tcn_put (cf_out cf) (tcn_out s) o with
      | Some q => Some (tcn_set_stage s (tcn_in s) q (GUp m) (tcn_xin s) (tcn_xout s) (tcn_ticks s), lin, lout)
      | None => None
      end
    | _ => None
    end
  | PH => match tcn_h_step cf s with Some s' => Some (s', lin, lout) | None => None end
  | PEmit i =>
    match nth_error (tcn_snd s) i with
    | Some d => match tcn_emit cf i d (tcn_xout s) with
                | Some (d', xo) => Some (tcn_set_snd s xo (tcn_upd i d' (tcn_snd s)), lin, lout)
                | None => None
                end
    | None => None
    end
  | PSendLen i => match tcn_send_apply s i tcn_main_len with Some s' => Some (s', lin, lout) | None => None end
  | PSendAck i => match tcn_send_apply s i tcn_main_ack with Some s' => Some (s', lin, lout) | None => None end
  | PSendTimeout i => match tcn_send_apply s i tcn_main_timeout with Some s' => Some (s', lin, lout) | None => None end
  | PClient =>
    match tcn_cl s with
    | Some t => match tcn_put (cf_rep cf) (tcn_rep s) t with
                | Some q => Some (tcn_set_cl s None q (tcn_up s), lin, lout)
                | None => None
                end
    | None => None
    end
  | PUpper =>
    match tcn_rep s with
    | t :: r => Some (tcn_set_cl s (tcn_cl s) r (tcn_up s ++ [t]), lin, lout)
    | [] => None
    end
  end.

(* timers are not progress: a stall is a state in which only timers can fire *)
Definition tcn_live (p : tcn_proc) : bool :=
  match p with
  | PStTick | PSendTimeout _ => false
  | _ => true
  end.

(* the process labels of a session with s Send calls *)
Definition tcn_procs (s : nat) : list tcn_proc :=
  [PRRead; PRPush; PWTake; PWWrite; PStTick; PStIn; PStOut; PStPut; PH; PClient; PUpper]
  ++ flat_map (fun i => [PEmit i; PSendLen i; PSendAck i; PSendTimeout i]) (seq 0 s).

(* ============ ONE session against an ideal peer ============ *)
(* The peer reads whatever this side writes, acknowledges every segment it reads (honestly: the
   k-th segment of a transfer with length k), and writes the messages of [ev_script] one after the
   other, at any speed, interleaved in any way with its acknowledgements. *)
Record tcn_env := mkTcnEnv {
  ev_script : list tcn_msg;   (* still to be written *)
  ev_pend : list tcn_msg;     (* acknowledgements owed *)
  ev_got : list tcn_msg       (* everything read from this side, oldest first *)
}.

Definition tcn_is_seg_of (t : nat) (m : tcn_msg) : bool :=
  match m with CSeg t' _ => t' =? t | _ => false end.
Definition tcn_count (t : nat) (l : list tcn_msg) : nat := length (filter (tcn_is_seg_of t) l).

Inductive tcn_eproc :=
| ESess (p : tcn_proc)
| EWScript      (* the peer writes the next message of its script *)
| EWAck         (* the peer writes the next acknowledgement it owes *)
| ERead.        (* the peer reads one message *)

Record tcn_sys := mkTcnSys { sy_s : tcn_sess; sy_lin : tcn_link; sy_lout : tcn_link; sy_e : tcn_env }.

Definition tcn_sys0 (ns : list nat) (ticks : nat) (script : list tcn_msg) : tcn_sys :=
  mkTcnSys (tcn_sess0 ns ticks) tcn_link0 tcn_link0 (mkTcnEnv script [] []).

Definition tcn_env_take (e : tcn_env) (m : tcn_msg) : tcn_env :=
  mkTcnEnv (ev_script e)
           (match m with
            | CSeg t _ => ev_pend e ++ [CAck t (S (tcn_count t (ev_got e)))]
            | _ => ev_pend e
            end)
           (ev_got e ++ [m]).

Definition tcn_estep (cf : tcn_conf) (y : tcn_sys) (p : tcn_eproc) : option tcn_sys :=
  match p with
  | ESess q =>
    match tcn_sstep cf (sy_s y) (sy_lin y) (sy_lout y) q with
    | Some (s, li, lo) => Some (mkTcnSys s li lo (sy_e y))
    | None => None
    end
  | EWScript =>
    match ev_script (sy_e y) with
    | m :: r =>
      match tcn_link_write (cf_T cf) (sy_lin y) m with
      | Some l => Some (mkTcnSys (sy_s y) l (sy_lout y) (mkTcnEnv r (ev_pend (sy_e y)) (ev_got (sy_e y))))
      | None => None
      end
    | [] => None
    end
  | EWAck =>
    match ev_pend (sy_e y) with
    | m :: r =>
      match tcn_link_write (cf_T cf) (sy_lin y) m with
      | Some l => Some (mkTcnSys (sy_s y) l (sy_lout y) (mkTcnEnv (ev_script (sy_e y)) r (ev_got (sy_e y))))
      | None => None
      end
    | [] => None
    end
  | ERead =>
    match lk_h (sy_lout y), lk_q (sy_lout y) with
    | Some m, q => Some (mkTcnSys (sy_s y) (sy_lin y) (mkTcnLink q None) (tcn_env_take (sy_e y) m))
    | None, m :: q => Some (mkTcnSys (sy_s y) (sy_lin y) (mkTcnLink q None) (tcn_env_take (sy_e y) m))
    | None, [] => None
    end
  end.

Definition tcn_elive (p : tcn_eproc) : bool :=
  match p with ESess q => tcn_live q | _ => true end.

Fixpoint tcn_erun (cf : tcn_conf) (y : tcn_sys) (ps : list tcn_eproc) : option tcn_sys :=
  match ps with
  | [] => Some y
  | p :: ps => match tcn_estep cf y p with Some y' => tcn_erun cf y' ps | None => None end
  end.

Definition tcn_eprocs (s : nat) : list tcn_eproc := [EWScript; EWAck; ERead] ++ map ESess (tcn_procs s).

(* no live process can step *)
Definition tcn_estuck (cf : tcn_conf) (y : tcn_sys) : bool :=
  forallb (fun p => negb (tcn_elive p) || match tcn_estep cf y p with Some _ => false | None => true end)
          (tcn_eprocs (length (tcn_snd (sy_s y)))).

(* what the receiving side owes for a sequence of incoming messages, from inTransfers = rx on:
   one acknowledgement per segment ... *)
Fixpoint tcn_acks (rx : list (nat * nat)) (l : list tcn_msg) : list tcn_msg :=
  match l with
  | [] => []
  | CSeg t last :: l => CAck t (S (tcn_rx_get rx t)) :: tcn_acks (tcn_rx_next rx t last) l
  | _ :: l => tcn_acks rx l
  end.
(* ... and one bundle handed up per END segment, in that order *)
Fixpoint tcn_ups (l : list tcn_msg) : list nat :=
  match l with
  | [] => []
  | CSeg t true :: l => t :: tcn_ups l
  | _ :: l => tcn_ups l
  end.
(* the segments of transfer i of n segments *)
Definition tcn_xsegs (i n : nat) : list tcn_msg := map (fun j => CSeg i (S j =? n)) (seq 0 n).

Definition tcn_is_ack (m : tcn_msg) : bool := match m with CAck _ _ => true | _ => false end.
Definition tcn_is_seg (m : tcn_msg) : bool := match m with CSeg _ _ => true | _ => false end.

(* ============ a PAIR of sessions, back to back ============ *)
Inductive tcn_side := SideA | SideB.
Record tcn_pair := mkTcnPair {
  pa_a : tcn_sess; pa_b : tcn_sess;
  pa_ab : tcn_link;    (* transport A -> B *)
  pa_ba : tcn_link     (* transport B -> A *)
}.
Definition tcn_pair0 (nsa nsb : list nat) (ta tb : nat) : tcn_pair :=
  mkTcnPair (tcn_sess0 nsa ta) (tcn_sess0 nsb tb) tcn_link0 tcn_link0.

Definition tcn_pstep (cf : tcn_conf) (y : tcn_pair) (p : tcn_side * tcn_proc) : option tcn_pair :=
  match fst p with
  | SideA =>
    match tcn_sstep cf (pa_a y) (pa_ba y) (pa_ab y) (snd p) with
    | Some (s, li, lo) => Some (mkTcnPair s (pa_b y) lo li)
    | None => None
    end
  | SideB =>
    match tcn_sstep cf (pa_b y) (pa_ab y) (pa_ba y) (snd p) with
    | Some (s, li, lo) => Some (mkTcnPair (pa_a y) s li lo)
    | None => None
    end
  end.

Fixpoint tcn_prun (cf : tcn_conf) (y : tcn_pair) (ps : list (tcn_side * tcn_proc)) : option tcn_pair :=
  match ps with
  | [] => Some y
  | p :: ps => match tcn_pstep cf y p with Some y' => tcn_prun cf y' ps | None => None end
  end.

Definition tcn_pprocs (y : tcn_pair) : list (tcn_side * tcn_proc) :=
  map (pair SideA) (tcn_procs (length (tcn_snd (pa_a y))))
  ++ map (pair SideB) (tcn_procs (length (tcn_snd (pa_b y)))).

Definition tcn_pstuck (cf : tcn_conf) (y : tcn_pair) : bool :=
  forallb (fun p => negb (tcn_live (snd p)) || match tcn_pstep cf y p with Some _ => false | None => true end)
          (tcn_pprocs y).

(* every Send on both sides has returned success *)
Definition tcn_all_ok (s : tcn_sess) : bool :=
  forallb (fun d => match sd_res d with Some ROk => true | _ => false end) (tcn_snd s).
Definition tcn_pdone (y : tcn_pair) : bool := tcn_all_ok (pa_a y) && tcn_all_ok (pa_b y).

(* a scheduler for witnesses: always the first process of [prio] that can step *)
Fixpoint tcn_first {S P} (step : S -> P -> option S) (y : S) (prio : list P) : option (P * S) :=
  match prio with
  | [] => None
  | p :: r => match step y p with Some y' => Some (p, y') | None => tcn_first step y r end
  end.
Fixpoint tcn_greedy {S P} (step : S -> P -> option S) (fuel : nat) (y : S) (prio : list P) : list P * S :=
  match fuel with
  | O => ([], y)
  | S f =>
    match tcn_first step y prio with
    | Some (p, y') => let r := tcn_greedy step f y' prio in (p :: fst r, snd r)
    | None => ([], y)
    end
  end.
(* ... in several phases, each with its own priorities *)
Fixpoint tcn_phases {S P} (step : S -> P -> option S) (y : S) (phs : list (list P * nat)) : list P * S :=
  match phs with
  | [] => ([], y)
  | (prio, fuel) :: r =>
    let a := tcn_greedy step fuel y prio in
    let b := tcn_phases step (snd a) r in
    (fst a ++ fst b, snd b)
  end.
