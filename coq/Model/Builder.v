(* Builder.v - executable model of bpv7.BundleBuilder (pkg/bpv7/bundle_builder.go): the method-chaining
   builder as a state machine over call sequences, with Build (which may be called any number of
   times, the builder being used further in between). Definitions only.

   The Go builder keeps: err (sticky, every method is a no-op once set), the primary block under
   construction, the list of canonical blocks in call order, the counter for block numbers
   (payload = 1, everything else counter++ from 2) and the CRC type applied by Build.
   Build: report-to defaults to the source (and stays set), source and destination are required,
   NewBundle sorts the blocks (ascending numbers, number 1 last) and runs CheckValid; on success
   SetCRCType(crc) is applied to all blocks (a primary block always gets a CRC: 0 becomes CRC32).
   The returned Bundle owns a copy of the blocks (fix 91d3e5a), i.e. is a value. *)
From DTN Require Import Base Cbor Crc Eid Bundle.
Open Scope N_scope.

Record bld_state := {
  bld_err : bool;
  bld_pri : primary;
  bld_src_set : bool; bld_dst_set : bool; bld_rpt_set : bool;
  bld_can : list cblock;        (* call order *)
  bld_ctr : N;
  bld_crc : N }.

Definition bld_init : bld_state :=
  {| bld_err := false;
     bld_pri := {| p_flags := F_DELIVERY; p_crc := 0; p_dst := DtnNone; p_src := DtnNone; p_rpt := DtnNone;
                   p_time := 0; p_seq := 0; p_life := 0; p_off := 0; p_total := 0 |};
     bld_src_set := false; bld_dst_set := false; bld_rpt_set := false;
     bld_can := []; bld_ctr := 2; bld_crc := 0 |}.

(* HopCountBlock / BundleAgeBlock / PreviousNodeBlock call `bldr.canonicalParseFlags(args)` without
   spreading the slice, so the callee always sees one argument: optional block flags passed to these
   three methods are ignored by the code as it is and the block gets ReplicateBlock only (observed on
   the real builder; the model follows the code). *)
(* arguments that Go parses (endpoint strings, durations) arrive parsed: None = the parse error *)
Inductive bld_op :=
| BoSource (e : option eid)
| BoDest (e : option eid)
| BoReportTo (e : option eid)
| BoTime (t : N)                          (* CreationTimestampEpoch / Now / Time: (t, 0) *)
| BoLifetime (l : option N)
| BoFlags (f : N)
| BoCrc (c : N)
| BoCanon (fl : N) (v : ext)              (* Canonical(ExtensionBlock[, flags]) *)
| BoCanonBlock (c : cblock)               (* Canonical(CanonicalBlock): the number is overwritten *)
| BoHop (limit : N) (fl : N)
| BoAge (ms : option N) (fl : N)
| BoPrev (e : option eid) (fl : N)
| BoPayload (d : list N) (fl : N)
| BoAdmin (d : list N)                    (* AdministrativeRecord / StatusReport: d = the serialised record *)
| BoBuild.

Definition bld_set_pri (s : bld_state) (p : primary) : bld_state :=
  {| bld_err := bld_err s; bld_pri := p; bld_src_set := bld_src_set s; bld_dst_set := bld_dst_set s;
     bld_rpt_set := bld_rpt_set s; bld_can := bld_can s; bld_ctr := bld_ctr s; bld_crc := bld_crc s |}.

Definition bld_fail (s : bld_state) : bld_state :=
  {| bld_err := true; bld_pri := bld_pri s; bld_src_set := bld_src_set s; bld_dst_set := bld_dst_set s;
     bld_rpt_set := bld_rpt_set s; bld_can := bld_can s; bld_ctr := bld_ctr s; bld_crc := bld_crc s |}.

Definition pri_with_src (p : primary) (e : eid) : primary :=
  {| p_flags := p_flags p; p_crc := p_crc p; p_dst := p_dst p; p_src := e; p_rpt := p_rpt p;
     p_time := p_time p; p_seq := p_seq p; p_life := p_life p; p_off := p_off p; p_total := p_total p |}.
Definition pri_with_dst (p : primary) (e : eid) : primary :=
  {| p_flags := p_flags p; p_crc := p_crc p; p_dst := e; p_src := p_src p; p_rpt := p_rpt p;
     p_time := p_time p; p_seq := p_seq p; p_life := p_life p; p_off := p_off p; p_total := p_total p |}.
Definition pri_with_rpt (p : primary) (e : eid) : primary :=
  {| p_flags := p_flags p; p_crc := p_crc p; p_dst := p_dst p; p_src := p_src p; p_rpt := e;
     p_time := p_time p; p_seq := p_seq p; p_life := p_life p; p_off := p_off p; p_total := p_total p |}.
Definition pri_with_time (p : primary) (t : N) : primary :=
  {| p_flags := p_flags p; p_crc := p_crc p; p_dst := p_dst p; p_src := p_src p; p_rpt := p_rpt p;
     p_time := t; p_seq := 0; p_life := p_life p; p_off := p_off p; p_total := p_total p |}.
Definition pri_with_life (p : primary) (l : N) : primary :=
  {| p_flags := p_flags p; p_crc := p_crc p; p_dst := p_dst p; p_src := p_src p; p_rpt := p_rpt p;
     p_time := p_time p; p_seq := p_seq p; p_life := l; p_off := p_off p; p_total := p_total p |}.
Definition pri_with_flags (p : primary) (f : N) : primary :=
  {| p_flags := f; p_crc := p_crc p; p_dst := p_dst p; p_src := p_src p; p_rpt := p_rpt p;
     p_time := p_time p; p_seq := p_seq p; p_life := p_life p; p_off := p_off p; p_total := p_total p |}.
Definition pri_with_crc (p : primary) (c : N) : primary :=
  {| p_flags := p_flags p; p_crc := c; p_dst := p_dst p; p_src := p_src p; p_rpt := p_rpt p;
     p_time := p_time p; p_seq := p_seq p; p_life := p_life p; p_off := p_off p; p_total := p_total p |}.

(* Canonical: payload type gets number 1, everything else the counter *)
Definition bld_add (s : bld_state) (fl : N) (crc : N) (v : ext) : bld_state :=
  if ext_type v =? T_PAYLOAD then
    {| bld_err := bld_err s; bld_pri := bld_pri s; bld_src_set := bld_src_set s; bld_dst_set := bld_dst_set s;
       bld_rpt_set := bld_rpt_set s;
       bld_can := bld_can s ++ [ {| c_num := 1; c_flags := fl; c_crc := crc; c_val := v |} ];
       bld_ctr := bld_ctr s; bld_crc := bld_crc s |}
  else
    {| bld_err := bld_err s; bld_pri := bld_pri s; bld_src_set := bld_src_set s; bld_dst_set := bld_dst_set s;
       bld_rpt_set := bld_rpt_set s;
       bld_can := bld_can s ++ [ {| c_num := bld_ctr s; c_flags := fl; c_crc := crc; c_val := v |} ];
       bld_ctr := bld_ctr s + 1; bld_crc := bld_crc s |}.

Definition bld_requests : N := F_RECEPTION + F_FORWARD + F_DELIVERY + F_DELETION.

(* sort.Sort(canonicalBlockNumberSort): ascending block numbers, number 1 last. (Go's sort is not
   stable; with equal numbers the order is unspecified - and CheckValid then fails whatever it is.) *)
Definition bld_before (a b : cblock) : bool :=
  if c_num a =? 1 then false else if c_num b =? 1 then true else c_num a <? c_num b.
Fixpoint bld_insert (c : cblock) (l : list cblock) : list cblock :=
  match l with
  | [] => [c]
  | x :: r => if bld_before x c then x :: bld_insert c r else c :: l
  end.
Fixpoint bld_sort (l : list cblock) : list cblock :=
  match l with [] => [] | c :: r => bld_insert c (bld_sort r) end.

(* Bundle.SetCRCType *)
Definition bld_block_crc (t : N) (c : cblock) : cblock :=
  {| c_num := c_num c; c_flags := c_flags c; c_crc := t; c_val := c_val c |}.
Definition bld_apply_crc (t : N) (b : bundle) : bundle :=
  {| b_pri := pri_with_crc (b_pri b) (if t =? 0 then 2 else t);
     b_blocks := map (bld_block_crc t) (b_blocks b) |}.

(* Build: new state (report-to default sticks) and the bundle, if any *)
Definition bld_build (now : N) (s : bld_state) : bld_state * option bundle :=
  if bld_err s then (s, None) else
  let s1 :=
    if negb (bld_rpt_set s) && bld_src_set s then
      {| bld_err := false; bld_pri := pri_with_rpt (bld_pri s) (p_src (bld_pri s));
         bld_src_set := bld_src_set s; bld_dst_set := bld_dst_set s; bld_rpt_set := true;
         bld_can := bld_can s; bld_ctr := bld_ctr s; bld_crc := bld_crc s |}
    else s in
  if negb (bld_src_set s1 && bld_dst_set s1) then (s1, None) else
  let b := {| b_pri := bld_pri s1; b_blocks := bld_sort (bld_can s1) |} in
  if check_valid now b then (s1, Some (bld_apply_crc (bld_crc s1) b)) else (s1, None).

Definition bld_step (now : N) (s : bld_state) (o : bld_op) : bld_state * option bundle :=
  match o with
  | BoBuild => bld_build now s
  | BoPayload d fl =>
      (* PayloadBlock does not look at err itself; Canonical does *)
      if bld_err s then (s, None) else (bld_add s fl 0 (XPayload d), None)
  | _ =>
    if bld_err s then (s, None) else
    match o with
    | BoSource None | BoDest None | BoReportTo None | BoLifetime None => (bld_fail s, None)
    | BoSource (Some e) =>
        ({| bld_err := false; bld_pri := pri_with_src (bld_pri s) e; bld_src_set := true; bld_dst_set := bld_dst_set s;
            bld_rpt_set := bld_rpt_set s; bld_can := bld_can s; bld_ctr := bld_ctr s; bld_crc := bld_crc s |}, None)
    | BoDest (Some e) =>
        ({| bld_err := false; bld_pri := pri_with_dst (bld_pri s) e; bld_src_set := bld_src_set s; bld_dst_set := true;
            bld_rpt_set := bld_rpt_set s; bld_can := bld_can s; bld_ctr := bld_ctr s; bld_crc := bld_crc s |}, None)
    | BoReportTo (Some e) =>
        ({| bld_err := false; bld_pri := pri_with_rpt (bld_pri s) e; bld_src_set := bld_src_set s; bld_dst_set := bld_dst_set s;
            bld_rpt_set := true; bld_can := bld_can s; bld_ctr := bld_ctr s; bld_crc := bld_crc s |}, None)
    | BoTime t => (bld_set_pri s (pri_with_time (bld_pri s) t), None)
    | BoLifetime (Some l) => (bld_set_pri s (pri_with_life (bld_pri s) l), None)
    | BoFlags f => (bld_set_pri s (pri_with_flags (bld_pri s) f), None)
    | BoCrc c =>
        ({| bld_err := false; bld_pri := bld_pri s; bld_src_set := bld_src_set s; bld_dst_set := bld_dst_set s;
            bld_rpt_set := bld_rpt_set s; bld_can := bld_can s; bld_ctr := bld_ctr s; bld_crc := c |}, None)
    | BoCanon fl v => (bld_add s fl 0 v, None)
    | BoCanonBlock c => (bld_add s (c_flags c) (c_crc c) (c_val c), None)
    | BoHop limit fl => (bld_add s BF_REPLICATE 0 (XHop (limit mod 256) 0), None)
    | BoAge None _ | BoPrev None _ => (bld_fail s, None)
    | BoAge (Some ms) fl => (bld_add s BF_REPLICATE 0 (XAge ms), None)
    | BoPrev (Some e) fl => (bld_add s BF_REPLICATE 0 (XPrev e), None)
    | BoAdmin d =>
        let f := N.ldiff (N.lor (p_flags (bld_pri s)) F_ADMIN) bld_requests in
        (bld_add (bld_set_pri s (pri_with_flags (bld_pri s) f)) 0 0 (XPayload d), None)
    | _ => (s, None)
    end
  end.

(* a whole call sequence: the results of the Build calls in order (None = Build returned an error) *)
Fixpoint bld_run (now : N) (s : bld_state) (ops : list bld_op) : list (option bundle) :=
  match ops with
  | [] => []
  | o :: r =>
    let '(s', res) := bld_step now s o in
    match o with
    | BoBuild => res :: bld_run now s' r
    | _ => bld_run now s' r
    end
  end.
