(* AuxCbor.v - executable model of the CBOR-based auxiliary wire formats of dtn7-go:
     creation timestamp            pkg/bpv7/time.go
     bundle ID                     pkg/bpv7/bundle_id.go
     bundle status item / report   pkg/bpv7/administrative_record_status_report.go
     administrative record         pkg/bpv7/administrative_record.go
     discovery announcement(s)     pkg/discovery/announcement.go
     WebSocket-agent messages      pkg/agent/ws_agent_msg.go, ws_agent_msg_impl.go
   Every decoder is a stream reader in the style of Cbor.v that additionally keeps an
   *allocation account* (C04): the bytes of every allocation whose size is taken from a length
   or count field on the wire are added when the allocation is made, i.e. before the bytes it is
   meant for are known to have arrived; a run-time panic is an explicit outcome.
   Definitions only. *)
From DTN Require Import Base Cbor Eid Bundle.
Open Scope N_scope.

(* ---------------- instrumented results ---------------- *)
Inductive ares (A : Type) : Type :=
| AOk (a : A) (rest : list N) (cost : N)
| AErr (cost : N)
| APanic (cost : N).
Arguments AOk {A} a rest cost.
Arguments AErr {A} cost.
Arguments APanic {A} cost.

Definition addc {A} (c : N) (y : ares A) : ares A :=
  match y with
  | AOk a r c' => AOk a r (c + c')
  | AErr c' => AErr (c + c')
  | APanic c' => APanic (c + c')
  end.

Definition abind {A B} (x : ares A) (f : A -> list N -> ares B) : ares B :=
  match x with
  | AOk a r c => addc c (f a r)
  | AErr c => AErr c
  | APanic c => APanic c
  end.

(* a reader of Cbor.v / Eid.v together with what it allocated; the break flag is an ordinary
   error for all formats of this file *)
Definition a_lift {A} (r : res A) (c : N) : ares A :=
  match r with Ok a rest => AOk a rest c | _ => AErr c end.

Definition to_res {A} (x : ares A) : res A :=
  match x with AOk a r _ => Ok a r | _ => Err end.
Definition cost_of {A} (x : ares A) : N :=
  match x with AOk _ _ c => c | AErr c => c | APanic c => c end.
Definition is_panic {A} (x : ares A) : bool :=
  match x with APanic _ => true | _ => false end.

(* ---------------- the allocation account of the primitives ---------------- *)
(* cboring.ReadRawBytes(n): n > MaxInt32 is refused; up to 1 MiB is allocated at once *before*
   reading; above that the bytes are copied through a growing bytes.Buffer, whose successive
   buffers together stay below four times the bytes that really arrived. *)
Definition raw_prealloc_max : N := 1048576.
Definition raw_cost (n : N) (bs : list N) : N :=
  if max_raw <? n then 0
  else if n <=? raw_prealloc_max then n
  else 4 * N.min n (nlen bs).

Definition a_read_uint (bs : list N) : ares N := a_lift (read_uint bs) 0.
Definition a_read_arr (bs : list N) : ares N := a_lift (read_arr bs) 0.
Definition a_read_bool (bs : list N) : ares bool := a_lift (read_bool bs) 0.

Definition str_cost (m : N) (copy : bool) (bs : list N) : N :=
  match read_expect m bs with
  | Ok n r => raw_cost n r + (if copy then match read_raw n r with Ok _ _ => n | _ => 0 end else 0)
  | _ => 0
  end.
(* ReadByteString; ReadTextString additionally copies the bytes into a Go string once they are there *)
Definition a_read_bstr (bs : list N) : ares (list N) := a_lift (read_bstr bs) (str_cost mBytes false bs).
Definition a_read_tstr (bs : list N) : ares (list N) := a_lift (read_tstr bs) (str_cost mText true bs).

(* EndpointID.UnmarshalCbor: the only wire-sized allocation is the SSP text of a dtn endpoint
   (ReadRawBytes, then string(ssp)) *)
Definition eid_cost (bs : list N) : N :=
  match read_arr bs with
  | Ok l r =>
      if negb (l =? 2) then 0 else
      match read_uint r with
      | Ok scheme r =>
          if scheme =? 1 then
            match read_head r with
            | Ok (m, n) r =>
                if m =? mUInt then 0
                else if m =? mText then raw_cost n r + (match read_raw n r with Ok _ _ => n | _ => 0 end)
                else 0
            | _ => 0
            end
          else 0
      | _ => 0
      end
  | _ => 0
  end.
Definition a_dec_eid (bs : list N) : ares eid := a_lift (dec_eid bs) (eid_cost bs).

(* Go's make([]T, count) for an element size: panics when the length does not fit an int or the
   size exceeds the address space the runtime manages (1 << 48 on linux/amd64); otherwise the
   memory is requested at once. *)
Definition go_max_alloc : N := 281474976710656.
Definition go_max_int : N := 9223372036854775807.
Definition a_make (count size : N) (bs : list N) : ares unit :=
  if (go_max_int <? count) || (go_max_alloc <? count * size) then APanic 0
  else AOk tt bs (count * size).

(* [n] items read one after the other; [per] is what appending one item to the result slice costs
   at most (amortised slice growth: the successive backing arrays of a slice grown by append stay
   below four times its final length).  Each item reader consumes at least one byte, so
   [fuel] = S (length bs) is never what stops the loop (AuxCborProofs.arepeat_fuel). *)
Fixpoint arepeat {A} (item : list N -> ares A) (per : N) (fuel : nat) (n : N) (bs : list N) : ares (list A) :=
  if n =? 0 then AOk [] bs 0 else
  match fuel with
  | O => AErr 0
  | S fuel =>
      abind (item bs) (fun it r =>
      abind (addc per (arepeat item per fuel (n - 1) r)) (fun its r' => AOk (it :: its) r' 0))
  end.

(* ---------------- creation timestamp ---------------- *)
Definition enc_cts (t s : N) : list N := enc_arr 2 ++ enc_uint t ++ enc_uint s.
Definition adec_cts (bs : list N) : ares (N * N) :=
  abind (a_read_arr bs) (fun l r => if negb (l =? 2) then AErr 0 else
  abind (a_read_uint r) (fun t r =>
  abind (a_read_uint r) (fun s r => AOk (t, s) r 0))).

(* ---------------- bundle ID ---------------- *)
Record bid := { bid_src : eid; bid_time : N; bid_seq : N; bid_frag : bool; bid_off : N; bid_total : N }.

Definition enc_bid (b : bid) : option (list N) :=
  obind (enc_eid (bid_src b)) (fun sb =>
    Some (sb ++ enc_cts (bid_time b) (bid_seq b)
          ++ (if bid_frag b then enc_uint (bid_off b) ++ enc_uint (bid_total b) else []))).

(* IsFragment is set by the caller beforehand; a non-fragment keeps the zero values *)
Definition adec_bid (frag : bool) (bs : list N) : ares bid :=
  abind (a_dec_eid bs) (fun src r =>
  abind (adec_cts r) (fun ts r =>
  if frag then
    abind (a_read_uint r) (fun off r =>
    abind (a_read_uint r) (fun tot r =>
      AOk {| bid_src := src; bid_time := fst ts; bid_seq := snd ts; bid_frag := true; bid_off := off; bid_total := tot |} r 0))
  else AOk {| bid_src := src; bid_time := fst ts; bid_seq := snd ts; bid_frag := false; bid_off := 0; bid_total := 0 |} r 0)).

(* ---------------- bundle status item ---------------- *)
Record sitem := { si_asserted : bool; si_time : N; si_req : bool }.

Definition enc_sitem (i : sitem) : list N :=
  if si_asserted i && si_req i
  then enc_arr 2 ++ enc_bool (si_asserted i) ++ enc_uint (si_time i)
  else enc_arr 1 ++ enc_bool (si_asserted i).

Definition adec_sitem (bs : list N) : ares sitem :=
  abind (a_read_arr bs) (fun l r => if negb ((l =? 1) || (l =? 2)) then AErr 0 else
  abind (a_read_bool r) (fun a r =>
  if l =? 2
  then abind (a_read_uint r) (fun t r => AOk {| si_asserted := a; si_time := t; si_req := true |} r 0)
  else AOk {| si_asserted := a; si_time := 0; si_req := false |} r 0)).

(* ---------------- status report ---------------- *)
Record sreport := { sr_items : list sitem; sr_reason : N; sr_ref : bid }.

Definition max_reason : N := 11.             (* BlockUnsupported, the last reason code of RFC 9171 *)
Definition sitem_size : N := 24.             (* unsafe.Sizeof(BundleStatusItem{}) *)
Definition sitem_per : N := 96.              (* 4 * sitem_size *)

Definition enc_sreport (s : sreport) : option (list N) :=
  obind (enc_bid (sr_ref s)) (fun bb =>
    Some (enc_arr (if bid_frag (sr_ref s) then 6 else 4)
          ++ enc_arr (nlen (sr_items s)) ++ concat (map enc_sitem (sr_items s))
          ++ enc_uint (sr_reason s) ++ bb)).

(* [fixed] = true: the code after the two fix commits of this package (item slice grown while
   reading, reason code checked); false: the code as found (slice sized by the wire count before
   any item arrived, every reason code taken) - kept for the refutation theorems. *)
Definition adec_sreport (fixed : bool) (bs : list N) : ares sreport :=
  abind (a_read_arr bs) (fun l r => if negb ((l =? 4) || (l =? 6)) then AErr 0 else
  abind (a_read_arr r) (fun n r =>
  abind (if fixed then AOk tt r 0 else a_make n sitem_size r) (fun _ r =>
  abind (arepeat adec_sitem (if fixed then sitem_per else 0) (S (length r)) n r) (fun items r =>
  abind (a_read_uint r) (fun reason r => if fixed && (max_reason <? reason) then AErr 0 else
  abind (adec_bid (l =? 6) r) (fun ref r =>
    AOk {| sr_items := items; sr_reason := reason; sr_ref := ref |} r 0)))))).

(* ---------------- administrative record ---------------- *)
Inductive admrec := ARStatus (s : sreport).
Definition ar_type_status : N := 1.

Definition enc_admrec (a : admrec) : option (list N) :=
  match a with
  | ARStatus s => obind (enc_sreport s) (fun sb => Some (enc_arr 2 ++ enc_uint ar_type_status ++ sb))
  end.

Definition adec_admrec (fixed : bool) (bs : list N) : ares admrec :=
  abind (a_read_arr bs) (fun l r => if negb (l =? 2) then AErr 0 else
  abind (a_read_uint r) (fun tc r =>
  if tc =? ar_type_status then abind (adec_sreport fixed r) (fun s r => AOk (ARStatus s) r 0)
  else AErr 0)).

(* ---------------- discovery announcements ---------------- *)
Record ann := { an_type : N; an_eid : eid; an_port : N }.

Definition cla_type_ok (t : N) : bool := (t =? 0) || (t =? 1) || (t =? 10) || (t =? 20).
Definition ann_size : N := 32.               (* unsafe.Sizeof(Announcement{}) *)
Definition ann_per : N := 128.               (* 4 * ann_size *)

Definition enc_ann (a : ann) : option (list N) :=
  obind (enc_eid (an_eid a)) (fun eb => Some (enc_arr 3 ++ enc_uint (an_type a) ++ eb ++ enc_uint (an_port a))).

Fixpoint enc_ann_list (l : list ann) : option (list N) :=
  match l with
  | [] => Some []
  | a :: l => obind (enc_ann a) (fun ab => obind (enc_ann_list l) (fun rest => Some (ab ++ rest)))
  end.
Definition enc_anns (l : list ann) : option (list N) :=
  obind (enc_ann_list l) (fun body => Some (enc_arr (nlen l) ++ body)).

Definition adec_ann (bs : list N) : ares ann :=
  abind (a_read_arr bs) (fun l r => if negb (l =? 3) then AErr 0 else
  abind (a_read_uint r) (fun t r => if negb (cla_type_ok t) then AErr 0 else
  abind (a_dec_eid r) (fun e r =>
  abind (a_read_uint r) (fun p r => AOk {| an_type := t; an_eid := e; an_port := p |} r 0)))).

Definition adec_anns (fixed : bool) (bs : list N) : ares (list ann) :=
  abind (a_read_arr bs) (fun n r =>
  abind (if fixed then AOk tt r 0 else a_make n ann_size r) (fun _ r =>
  arepeat adec_ann (if fixed then ann_per else 0) (S (length r)) n r)).

(* ---------------- WebSocket-agent messages ---------------- *)
Inductive wam :=
| WStatus (msg : list N)
| WRegister (ep : list N)
| WBundle (b : bundle)
| WSysReq (req : list N)
| WSysResp (req resp : list N).

Definition wam_code (w : wam) : N :=
  match w with WStatus _ => 0 | WRegister _ => 1 | WBundle _ => 2 | WSysReq _ => 3 | WSysResp _ _ => 4 end.

Definition enc_wam_body (w : wam) : option (list N) :=
  match w with
  | WStatus m => Some (enc_tstr m)
  | WRegister e => Some (enc_tstr e)
  | WBundle b => enc_bundle b
  | WSysReq q => Some (enc_tstr q)
  | WSysResp q p => Some (enc_arr 2 ++ enc_tstr q ++ enc_bstr p)
  end.
Definition enc_wam (w : wam) : option (list N) :=
  obind (enc_wam_body w) (fun body => Some (enc_arr 2 ++ enc_uint (wam_code w) ++ body)).

(* the bundle body is the bundle decoder of Bundle.v ([now] = the clock CheckValid reads); its own
   allocation account is not part of this file *)
Definition a_dec_bundle (now : N) (bs : list N) : ares bundle :=
  match dec_bundle now bs with Some (b, r) => AOk b r 0 | None => AErr 0 end.

Definition adec_wam (now : N) (bs : list N) : ares wam :=
  abind (a_read_arr bs) (fun l r => if negb (l =? 2) then AErr 0 else
  abind (a_read_uint r) (fun tc r =>
  if tc =? 0 then abind (a_read_tstr r) (fun m r => AOk (WStatus m) r 0)
  else if tc =? 1 then abind (a_read_tstr r) (fun e r => AOk (WRegister e) r 0)
  else if tc =? 2 then abind (a_dec_bundle now r) (fun b r => AOk (WBundle b) r 0)
  else if tc =? 3 then abind (a_read_tstr r) (fun q r => AOk (WSysReq q) r 0)
  else if tc =? 4 then
    abind (a_read_arr r) (fun l2 r => if negb (l2 =? 2) then AErr 0 else
    abind (a_read_tstr r) (fun q r =>
    abind (a_read_bstr r) (fun p r => AOk (WSysResp q p) r 0)))
  else AErr 0)).

(* ---------------- the plain decoders (what C17 speaks about) ---------------- *)
Definition dec_cts (bs : list N) := to_res (adec_cts bs).
Definition dec_bid (frag : bool) (bs : list N) := to_res (adec_bid frag bs).
Definition dec_sitem (bs : list N) := to_res (adec_sitem bs).
Definition dec_sreport (bs : list N) := to_res (adec_sreport true bs).
Definition dec_admrec (bs : list N) := to_res (adec_admrec true bs).
Definition dec_ann (bs : list N) := to_res (adec_ann bs).
Definition dec_anns (bs : list N) := to_res (adec_anns true bs).
Definition dec_wam (now : N) (bs : list N) := to_res (adec_wam now bs).

(* ---------------- a stream of mixed messages ---------------- *)
Inductive aux :=
| XCts (t s : N)
| XEid (e : eid)
| XBid (b : bid)
| XSitem (i : sitem)
| XSreport (s : sreport)
| XAdmrec (a : admrec)
| XAnn (a : ann)
| XAnns (l : list ann)
| XWam (w : wam).

(* what the reader of a stream knows beforehand: the kind of the next message (and, for a bare
   bundle ID, whether it is a fragment's) *)
Inductive aux_kind := KCts | KEid | KBid (frag : bool) | KSitem | KSreport | KAdmrec | KAnn | KAnns | KWam.

Definition kind_of (x : aux) : aux_kind :=
  match x with
  | XCts _ _ => KCts | XEid _ => KEid | XBid b => KBid (bid_frag b) | XSitem _ => KSitem
  | XSreport _ => KSreport | XAdmrec _ => KAdmrec | XAnn _ => KAnn | XAnns _ => KAnns | XWam _ => KWam
  end.

Definition enc_aux (x : aux) : option (list N) :=
  match x with
  | XCts t s => Some (enc_cts t s)
  | XEid e => enc_eid e
  | XBid b => enc_bid b
  | XSitem i => Some (enc_sitem i)
  | XSreport s => enc_sreport s
  | XAdmrec a => enc_admrec a
  | XAnn a => enc_ann a
  | XAnns l => enc_anns l
  | XWam w => enc_wam w
  end.

Definition rmap {A B} (f : A -> B) (r : res A) : res B :=
  match r with Ok a rest => Ok (f a) rest | Brk => Brk | Err => Err end.

Definition dec_aux (now : N) (k : aux_kind) (bs : list N) : res aux :=
  match k with
  | KCts => rmap (fun ts => XCts (fst ts) (snd ts)) (dec_cts bs)
  | KEid => rmap XEid (nobrk (dec_eid bs))
  | KBid frag => rmap XBid (dec_bid frag bs)
  | KSitem => rmap XSitem (dec_sitem bs)
  | KSreport => rmap XSreport (dec_sreport bs)
  | KAdmrec => rmap XAdmrec (dec_admrec bs)
  | KAnn => rmap XAnn (dec_ann bs)
  | KAnns => rmap XAnns (dec_anns bs)
  | KWam => rmap XWam (dec_wam now bs)
  end.

Fixpoint enc_stream (xs : list aux) : option (list N) :=
  match xs with
  | [] => Some []
  | x :: xs => obind (enc_aux x) (fun b => obind (enc_stream xs) (fun rest => Some (b ++ rest)))
  end.

Fixpoint dec_stream (now : N) (ks : list aux_kind) (bs : list N) : res (list aux) :=
  match ks with
  | [] => Ok [] bs
  | k :: ks => bind (dec_aux now k bs) (fun x r => bind (dec_stream now ks r) (fun xs r' => Ok (x :: xs) r'))
  end.

(* the instrumented decoder of a message of a given kind; [fixed] as in adec_sreport *)
Definition amap {A B} (f : A -> B) (x : ares A) : ares B :=
  match x with AOk a r c => AOk (f a) r c | AErr c => AErr c | APanic c => APanic c end.

Definition adec_aux (fixed : bool) (now : N) (k : aux_kind) (bs : list N) : ares aux :=
  match k with
  | KCts => amap (fun ts => XCts (fst ts) (snd ts)) (adec_cts bs)
  | KEid => amap XEid (a_dec_eid bs)
  | KBid frag => amap XBid (adec_bid frag bs)
  | KSitem => amap XSitem (adec_sitem bs)
  | KSreport => amap XSreport (adec_sreport fixed bs)
  | KAdmrec => amap XAdmrec (adec_admrec fixed bs)
  | KAnn => amap XAnn (adec_ann bs)
  | KAnns => amap XAnns (adec_anns fixed bs)
  | KWam => amap XWam (adec_wam now bs)
  end.

(* ---------------- structural equality (for the driver) ---------------- *)
Definition bid_eqb (a b : bid) : bool :=
  eid_eqb (bid_src a) (bid_src b) && (bid_time a =? bid_time b) && (bid_seq a =? bid_seq b)
  && Bool.eqb (bid_frag a) (bid_frag b) && (bid_off a =? bid_off b) && (bid_total a =? bid_total b).
Definition sitem_eqb (a b : sitem) : bool :=
  Bool.eqb (si_asserted a) (si_asserted b) && (si_time a =? si_time b) && Bool.eqb (si_req a) (si_req b).
Definition sreport_eqb (a b : sreport) : bool :=
  list_eqb sitem_eqb (sr_items a) (sr_items b) && (sr_reason a =? sr_reason b) && bid_eqb (sr_ref a) (sr_ref b).
Definition ann_eqb (a b : ann) : bool :=
  (an_type a =? an_type b) && eid_eqb (an_eid a) (an_eid b) && (an_port a =? an_port b).

(* ---------------- well-formedness: the hypotheses of the round-trip theorems ----------------
   Ranges of the Go types (uint64 fields, strings cboring can read back), endpoint IDs the encoder
   accepts, and the encoders' silent limits:
     - a bundle ID of a non-fragment carries no offset / total length,
     - a status item carries its time only when it is asserted *and* the time was requested
       (otherwise the time is dropped and "requested" is read back false),
     - only the known reason codes and CLA types are read back. *)
Definition ax_eid_ok (e : eid) : bool := eid_wf e && eid_valid e.

Definition bid_wf (b : bid) : bool :=
  ax_eid_ok (bid_src b) && u64_ok (bid_time b) && u64_ok (bid_seq b) && u64_ok (bid_off b) && u64_ok (bid_total b)
  && (bid_frag b || ((bid_off b =? 0) && (bid_total b =? 0))).

Definition sitem_wf (i : sitem) : bool :=
  u64_ok (si_time i) && (if si_req i then si_asserted i else si_time i =? 0).

Definition sreport_wf (s : sreport) : bool :=
  forallb sitem_wf (sr_items s) && u64_ok (nlen (sr_items s)) && (sr_reason s <=? max_reason) && bid_wf (sr_ref s).

Definition admrec_wf (a : admrec) : bool := match a with ARStatus s => sreport_wf s end.

Definition ann_wf (a : ann) : bool := cla_type_ok (an_type a) && ax_eid_ok (an_eid a) && u64_ok (an_port a).
Definition anns_wf (l : list ann) : bool := forallb ann_wf l && u64_ok (nlen l).

(* [bwf] = well-formedness and validity of a bundle (BundleWf.bundle_wf && Bundle.check_valid now) *)
Definition wam_wf (bwf : bundle -> bool) (w : wam) : bool :=
  match w with
  | WStatus m => len_ok m
  | WRegister e => len_ok e
  | WBundle b => bwf b
  | WSysReq q => len_ok q
  | WSysResp q p => len_ok q && len_ok p
  end.

Definition aux_wf (bwf : bundle -> bool) (x : aux) : bool :=
  match x with
  | XCts t s => u64_ok t && u64_ok s
  | XEid e => ax_eid_ok e
  | XBid b => bid_wf b
  | XSitem i => sitem_wf i
  | XSreport s => sreport_wf s
  | XAdmrec a => admrec_wf a
  | XAnn a => ann_wf a
  | XAnns l => anns_wf l
  | XWam w => wam_wf bwf w
  end.
