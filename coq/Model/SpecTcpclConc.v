(* SpecTcpclConc.v - the channel capacities and the literal / operator shapes of the Go functions
   the channel-network model Model/TcpclConc.v is written against (compared with the shapes
   regenerated from the Go source in Proofs/ConstsOkTcpclConc.v).
   Operator codes: go/token numbers; +1000 = unary (1036 = channel receive "<-c", 1017 = "&x"),
   44 "!=", 39 "==", 40 "<", 45 "<=", 14 "*", 15 "/".  Channel sends are statements, not operators. *)
From Coq Require Import ZArith List.
Import ListNotations.
Open Scope Z_scope.

(* capacities: make(chan msgs.Message, 32) ... *)
Definition stc_in_chan_len : Z := 32.        (* NewMessageSwitchReaderWriter: inChan *)
Definition stc_out_chan_len : Z := 32.       (* NewMessageSwitchReaderWriter: outChan *)
Definition stc_exchange_in_len : Z := 32.    (* NewStageHandler: ExchangeMsgIn *)
Definition stc_exchange_out_len : Z := 32.   (* NewStageHandler: ExchangeMsgOut *)
Definition stc_ack_chan_len : Z := 32.       (* TransferManager.Send: ackChan *)
Definition stc_report_chan_len : Z := 32.    (* Client.Start: reportChan *)
Definition stc_len_chan_len : Z := 1.        (* TransferManager.Send: lenChan (written once: never blocks) *)
Definition stc_err_chan_len : Z := 1.        (* TransferManager.Send: errChan *)
Definition stc_ack_timeout_s : Z := 10.      (* TransferManager.Send: time.After(10 * time.Second) *)

(* NewMessageSwitchReaderWriter: the two buffered channels (errChan is unbuffered: no literal), "&MessageSwitch..." *)
Definition stc_NewMessageSwitch_lits : list Z := [stc_in_chan_len; stc_out_chan_len].
Definition stc_NewMessageSwitch_ops : list Z := [1017].
(* handleIn: "finished != 0", "&ms.finished", "err != nil"; one send "ms.inChan <- msg" *)
Definition stc_handleIn_lits : list Z := [0].
Definition stc_handleIn_ops : list Z := [44; 1017; 44].
(* handleOut: range over outChan; "finished != 0", "&ms.finished", Marshal "err != nil", Flush "err != nil" *)
Definition stc_handleOut_lits : list Z := [0].
Definition stc_handleOut_ops : list Z := [44; 1017; 44; 44].
Definition stc_sendErr_lits : list Z := [0; 1].
Definition stc_sendErr_ops : list Z := [1017].
(* NewTransferManager: chanBundles, chanErrors, stopChan are unbuffered (no literal at all) *)
Definition stc_NewTransferManager_lits : list Z := [].
Definition stc_NewTransferManager_ops : list Z := [1017].
(* KeepaliveTicker: unbuffered channel, "stopped: 0"; Reschedule: "stopped != 0", "== 0" *)
Definition stc_NewKeepaliveTicker_lits : list Z := [0].
Definition stc_NewKeepaliveTicker_ops : list Z := [1017].
Definition stc_Reschedule_lits : list Z := [0; 0].
Definition stc_Reschedule_ops : list Z := [44; 1017; 39; 1017].
(* NewStageHandler: ExchangeMsgIn, ExchangeMsgOut (errChan, closeChan unbuffered) *)
Definition stc_NewStageHandler_lits : list Z := [stc_exchange_in_len; stc_exchange_out_len].
Definition stc_NewStageHandler_ops : list Z := [1017; 1017].
Definition stc_handler_lits : list Z := [0].
Definition stc_handler_ops : list Z := [40; 2037; 44; 44; 44; 44; 44].
(* SessEstablishedStage.Handle: "Keepalive != 0", "/ 2", "*", the four receive cases of the select
   (closeChan, keepalive.C, MsgIn, ExchangeMsgOut), "err != nil" *)
Definition stc_Handle_lits : list Z := [0; 2; 0].
Definition stc_Handle_ops : list Z := [44; 15; 14; 1036; 1036; 1036; 1036; 44].
(* messageOut: one send "MsgOut <- msg", nothing else *)
Definition stc_messageOut_lits : list Z := [].
Definition stc_messageOut_ops : list Z := [].
Definition stc_handleKeepalive_lits : list Z := [0; 8; 2; 2].
Definition stc_handleKeepalive_ops : list Z := [14; 40; 45; 15; 44; 15; 15].
(* handleMsgIn WITH the repair b52fcd3: the inner select has the receive case
   "out := <-ExchangeMsgOut" (+ "err != nil") and "<-closeChan"; before the repair the function
   had no operator at all *)
Definition stc_handleMsgIn_lits : list Z := [].
Definition stc_handleMsgIn_ops : list Z := [1036; 44; 1036].
(* TransferManager.handle: the two receive cases of its select, "!ok" twice, "err != nil" twice *)
Definition stc_tm_handle_ops : list Z := [1036; 1036; 1043; 1043; 44; 44].
(* TransferManager.Send: atomic add 1, - 1, ackChan, errChan 1, lenChan 1, ..., 10 s *)
Definition stc_Send_lits : list Z :=
  [1; 1; stc_ack_chan_len; stc_err_chan_len; stc_len_chan_len; 0; 0; 1; stc_ack_timeout_s; 1; 0].
