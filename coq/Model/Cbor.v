(* Cbor.v - executable model of github.com/dtn7/cboring v0.1.5 (the CBOR subset dtn7-go uses).
   Writers emit minimal-width heads; the reader accepts any width, treats 0x9f / 0xff as the two
   flag errors wherever a head is read, rejects additional information 28..31 and masks majors
   with 0xE0. Readers are stream readers: they return the unconsumed rest. *)
From DTN Require Import Base.
Open Scope N_scope.

(* result of a stream reader: value + rest | the break flag (cboring.FlagBreakCode) | any other error *)
Inductive res (A : Type) : Type :=
| Ok (a : A) (rest : list N)
| Brk
| Err.
Arguments Ok {A} a rest.
Arguments Brk {A}.
Arguments Err {A}.

Definition bind {A B} (r : res A) (f : A -> list N -> res B) : res B :=
  match r with Ok a rest => f a rest | Brk => Brk | Err => Err end.

(* errors wrapped with fmt.Errorf lose their identity: the break flag becomes an ordinary error *)
Definition nobrk {A} (r : res A) : res A := match r with Brk => Err | x => x end.

Notation "x <- r ;; f" := (bind r (fun x rest__ => f rest__)) (at level 61, r at next level, right associativity, only parsing).

(* major types as cboring defines them (already shifted) *)
Definition mUInt : N := 0.
Definition mBytes : N := 64.
Definition mText : N := 96.
Definition mArray : N := 128.
Definition mMap : N := 160.
Definition mSimple : N := 224.

(* WriteMajors *)
Definition head_bytes (m n : N) : list N :=
  if n <? 24 then [m + n]
  else if n <? 256 then [m + 24; n]
  else if n <? 65536 then (m + 25) :: be_encode 2 n
  else if n <? 4294967296 then (m + 26) :: be_encode 4 n
  else (m + 27) :: be_encode 8 n.

(* ReadMajors: value is (major, argument) *)
Definition read_head (bs : list N) : res (N * N) :=
  match bs with
  | [] => Err
  | b :: r =>
      if b =? 159 then Err                 (* FlagIndefiniteArray *)
      else if b =? 255 then Brk            (* FlagBreakCode *)
      else
        let a := b mod 32 in
        let m := b - a in
        if a <? 24 then Ok (m, a) r
        else if a <? 28 then
          let l := Nat.pow 2 (N.to_nat (a - 24)) in
          match take_exact l r with
          | Some (x, r') => Ok (m, be_decode x) r'
          | None => Err
          end
        else Err
  end.

(* ReadExpectMajors *)
Definition read_expect (m : N) (bs : list N) : res N :=
  bind (read_head bs) (fun mn r => if fst mn =? m then Ok (snd mn) r else Err).

(* ReadRawBytes: refuses more than MaxInt32, needs the bytes to be there *)
Definition max_raw : N := 2147483647.
Definition read_raw (n : N) (bs : list N) : res (list N) :=
  if max_raw <? n then Err
  else if nlen bs <? n then Err
  else Ok (firstn (N.to_nat n) bs) (skipn (N.to_nat n) bs).

Definition read_uint := read_expect mUInt.
Definition read_arr := read_expect mArray.
Definition read_maplen := read_expect mMap.
Definition read_f64 := read_expect mSimple.      (* bit pattern of the float64, any width accepted *)
Definition read_bstr (bs : list N) : res (list N) := bind (read_expect mBytes bs) read_raw.
Definition read_tstr (bs : list N) : res (list N) := bind (read_expect mText bs) read_raw.

Definition enc_uint (n : N) := head_bytes mUInt n.
Definition enc_arr (n : N) := head_bytes mArray n.
Definition enc_maplen (n : N) := head_bytes mMap n.
Definition enc_f64 (bits : N) := head_bytes mSimple bits.
Definition enc_bstr (d : list N) := head_bytes mBytes (nlen d) ++ d.
Definition enc_tstr (d : list N) := head_bytes mText (nlen d) ++ d.

(* ReadExpect(b): one byte via r.Read *)
Definition read_byte_expect (b : N) (bs : list N) : res unit :=
  match bs with
  | x :: r => if x =? b then Ok tt r else Err
  | [] => Err
  end.

(* ReadBoolean / WriteBoolean *)
Definition enc_bool (b : bool) : list N := [if b then 245 else 244].
Definition read_bool (bs : list N) : res bool :=
  match bs with
  | x :: r => if x =? 245 then Ok true r else if x =? 244 then Ok false r else Err
  | [] => Err
  end.

(* value well-formedness used by the round-trip lemmas *)
Definition u64_ok (n : N) : bool := n <? 18446744073709551616.
Definition len_ok (d : list N) : bool := nlen d <=? max_raw.
