(* SpecClaMgrConc.v - the literal / operator shapes of the functions of pkg/cla (manager.go,
   manager_elem.go) the sub-step model Model/ClaMgrConc.v is written against, operation by operation.
   Proofs/ConstsOkClaMgrConc.v ties them to gen/Consts.v (regenerated from the Go source), so that an
   edit of one of these functions breaks a proof obligation of Properties/C16_conc.v. *)
From Coq Require Import ZArith List.
Import ListNotations.
Open Scope Z_scope.

(* go/token codes as emitted by tools/goconsts (unary = 1000 + code) *)
Definition cmcs_land : Z := 34.   (* && *)
Definition cmcs_eql : Z := 39.    (* == *)
Definition cmcs_lss : Z := 40.    (* <  *)
Definition cmcs_gtr : Z := 41.    (* >  *)
Definition cmcs_neq : Z := 44.    (* != *)
Definition cmcs_mul : Z := 14.    (* *  *)
Definition cmcs_not : Z := 1043.  (* !x *)
Definition cmcs_addr : Z := 1017. (* &x *)
Definition cmcs_neg : Z := 1013.  (* -x *)
Definition cmcs_recv : Z := 1036. (* <-ch *)

(* NewManager: queueTtl: 10 ; retryTime: 10 * time.Second ; inChnl: make(chan ConvergenceStatus, 100) ;
   outChnl, stopSyn, stopAck unbuffered *)
Definition cmcs_NewManager_lits : list Z := [10; 10; 100].
Definition cmcs_NewManager_ops : list Z := [cmcs_addr; cmcs_mul].

(* Manager.handler: select over three receives (HSel alternatives 0 stopSyn, 1 inChnl, 2 ticker) ;
   ticker callback: !successful && !retry (TickDel) *)
Definition cmcs_handler_ops : list Z := [cmcs_recv; cmcs_recv; cmcs_recv; cmcs_land; cmcs_not; cmcs_not].
(* Manager.Close: Lock ; stopFlag = true ; Unlock ; close(stopSyn) ; <-stopAck  (CLock CSet CCloseSyn CWait) *)
Definition cmcs_Close_ops : list Z := [cmcs_recv].
(* Manager.isStopped: Lock ; defer Unlock ; return stopFlag  (RegLock/RegChk, RegLock2/RegChk2) *)
Definition cmcs_isStopped_ops : list Z := [].
(* Manager.Register: if isStopped return ; type switch ; Manager.Unregister: type switch ; Manager.Restart: Unregister ; Register *)
Definition cmcs_Register_ops : list Z := [].
Definition cmcs_Unregister_ops : list Z := [].
Definition cmcs_Restart_ops : list Z := [].
(* registerConvergence: Load ; isActive ; [GetEndpointID() == GetPeerEndpointID()] ; activate ; !successful && !retry ;
   Store ; isStopped ; unregisterConvergence *)
Definition cmcs_registerConvergence_ops : list Z := [cmcs_eql; cmcs_land; cmcs_not; cmcs_not].
(* unregisterConvergence: Load ; !exists ; element.conv != conv ; deactivate ; Delete *)
Definition cmcs_unregisterConvergence_ops : list Z := [cmcs_not; cmcs_neq].
(* isActive: atomic.LoadInt32(&ce.ttl) < 0 *)
Definition cmcs_isActive_lits : list Z := [0].
Definition cmcs_isActive_ops : list Z := [cmcs_lss; cmcs_addr].
(* convergenceElem.handler: select over <-stopSyn (then err != nil after conv.Close(), close(stopAck)) and <-conv.Channel() *)
Definition cmcs_elem_handler_ops : list Z := [cmcs_recv; cmcs_neq; cmcs_recv].
(* activate: isActive ; Lock ; ttl == 0 && !IsPermanent ; Start ; claErr == nil ; Store(-1) ; make ; make ; go handler ;
   claRetry: ttl > 0 -> Add(-1) ; else Store(0) *)
Definition cmcs_activate_lits : list Z := [0; 1; 0; 1; 0].
Definition cmcs_activate_ops : list Z :=
  [cmcs_land; cmcs_eql; cmcs_addr; cmcs_not; cmcs_eql; cmcs_addr; cmcs_neg; cmcs_addr; cmcs_gtr; cmcs_addr; cmcs_addr;
   cmcs_neg; cmcs_addr].
(* deactivate: !isActive (Deact0) ; Lock (Deact1) ; !isActive (Deact2, fix aef8c74) ; close(stopSyn) (Deact3) ;
   <-stopAck (Deact4) ; StoreInt32(&ttl, ttl) (Deact5) ; deferred Unlock (Deact6) *)
Definition cmcs_deactivate_ops : list Z := [cmcs_not; cmcs_not; cmcs_recv; cmcs_addr].
