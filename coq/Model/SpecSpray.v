(* SpecSpray.v - the constants of spray-and-wait the model is written against
   (Spyropoulos et al., "Spray and Wait", 2005; pkg/routing/algorithm_spray.go). *)
From Coq Require Import NArith.
Open Scope N_scope.

(* a node that is not the originator holds exactly one copy under vanilla spray-and-wait *)
Definition spray_foreign_copies : N := 1.
(* one transmission to a relay hands over one copy (vanilla) *)
Definition spray_unit_copy : N := 1.
(* with fewer than this many copies a node is in the wait phase: direct delivery only *)
Definition spray_wait_threshold : N := 2.
(* binary spray hands over floor(copies / 2) *)
Definition spray_binary_divisor : N := 2.
