(* SpecForward.v - the literal / operator shapes of the Go functions the forwarding model
   (Forward.v) transcribes, written against go/token's operator codes (1000+ = unary, 2000+ =
   inc/dec statement, 3000+ = assignment operator).  ConstsOkForward.v proves that the shapes
   regenerated from the Go source coincide with these: a changed comparison in the hop-count or
   lifetime test, a different unit in UpdateBundleAge, a changed start number in
   AddExtensionBlock or a different order in the block sort breaks that proof. *)
From Coq Require Import ZArith List.
Import ListNotations.
Open Scope Z_scope.

Definition fwk_add := 12.  Definition fwk_sub := 13.  Definition fwk_mul := 14.
Definition fwk_land := 34. Definition fwk_eql := 39.  Definition fwk_lss := 40.
Definition fwk_gtr := 41.  Definition fwk_neq := 44.  Definition fwk_geq := 46.
Definition fwk_addr := 1017. Definition fwk_not := 1043.
Definition fwk_inc := 2037. Definition fwk_dec := 2038. Definition fwk_add_assign := 3023.

(* HopCountBlock: IsExceeded: Count > Limit.  Increment (after fix a): Count == MaxUint8 -> true;
   Count++.  Decrement: Count--. *)
Definition fw_spec_isexceeded_ops := [fwk_gtr].
Definition fw_spec_increment_ops := [fwk_eql; fwk_inc].
Definition fw_spec_decrement_ops := [fwk_dec].
(* BundleAgeBlock.Increment: age + offset *)
Definition fw_spec_age_increment_ops := [fwk_add].
(* UpdateBundleAge (after fix b): two err != nil tests, no arithmetic on the duration (the unit is
   chosen by Duration.Milliseconds); literals: the two 0 of the error returns *)
Definition fw_spec_update_age_ops := [fwk_neq; fwk_neq].
Definition fw_spec_update_age_lits := [0; 0].
(* AddExtensionBlock: i < len; i++; type != payload (start 2, else 1); number == no; number += 1 *)
Definition fw_spec_add_block_ops := [fwk_lss; fwk_inc; fwk_neq; fwk_eql; fwk_add_assign].
Definition fw_spec_add_block_lits := [0; 1; 2; 1].
(* canonicalBlockNumberSort.Less: number(i) == payload -> false; number(j) == payload -> true; < *)
Definition fw_spec_less_ops := [fwk_eql; fwk_eql; fwk_lss].
(* IsLifetimeExceeded: err != nil (no age block); age > lifetime; Duration(lifetime) * Millisecond *)
Definition fw_spec_lifetime_ops := [fwk_neq; fwk_gtr; fwk_mul].
(* receive: len(Constraints) > 0; i := len-1; i >= 0; i--; &blocks[i]; [i+1:] *)
Definition fw_spec_receive_ops := [fwk_gtr; fwk_sub; fwk_geq; fwk_dec; fwk_addr; fwk_add].
Definition fw_spec_receive_lits := [0; 1; 0; 1].
(* forward, up to and including the previous-node step (the rest - choice of the senders, the send
   loop, the bookkeeping afterwards - belongs to other properties and is not pinned here):
   the removal loop (after fix c): len-1; i >= 0; i--; &blocks[i]; !IsKnown && Has(Remove); [i+1:];
   hop block err == nil; age err == nil; age >= lifetime; previous node err == nil *)
Definition fw_spec_forward_prefix := 11%nat.
Definition fw_spec_forward_ops :=
  [fwk_sub; fwk_geq; fwk_dec; fwk_addr; fwk_land; fwk_not; fwk_add; fwk_eql; fwk_eql; fwk_geq; fwk_eql].
Definition fw_spec_forward_lits_prefix := 3%nat.
Definition fw_spec_forward_lits := [1; 0; 1].
