(* Spray.v - executable model of pkg/routing/algorithm_spray.go (SprayAndWait, BinarySpray) together
   with the part of Core.forward (pkg/routing/processing.go) that feeds it: direct delivery via
   senderForDestination bypasses SenderForBundle, but a failed direct delivery still calls
   ReportFailure on the algorithm.  Definitions only, no proofs.

   The model is *per bundle* (the Go metadata map is keyed by bundle ID and no method touches more
   than one entry; GC removes entries of bundles the store no longer knows).  Nodes are numbers;
   a peer's endpoint ID is node-level ("dtn://p<i>/"), so [==] on peer EIDs and [SameNode] with the
   bundle's destination both are equality of node numbers.

   This is the code *after* the fix commits:
     (a) SprayAndWait.ReportFailure gives a copy back only for a peer that is in [sent],
     (b) BinarySpray.ReportFailure adds the announced copies back to metadata.remainingCopies
         (again only for a peer in [sent]),
     (c) both do their read-modify-write under one write lock,
     (d) 2edd1c0 / 772c5cf: NotifyNewBundle of both algorithms records the node named by the
         PreviousNodeBlock in [sent] in every branch - also for a bundle whose source is this node
         and that comes back from a neighbour.  Such an entry excludes the node from
         SenderForBundle without a copy having been handed to it: [sm_sent] is "peers holding a
         copy from us" together with "the node the bundle came from".  ReportFailure does not
         tell the two apart (it looks the failed peer up in [sent]), but it is only ever called
         for a peer that SenderForBundle has just selected - which the previous node never is,
         being in [sent] - or for a sender of the destination node after a failed direct delivery;
         so the recorded previous node is given back as a copy exactly when it is the bundle's own
         destination (excluded by [hist_wf], Proofs/SprayProofs.v; shown by C18_budget_needs_wf). *)
From DTN Require Import Base SpecSpray.
Open Scope N_scope.

Record speer := { sp_cla : N; sp_node : N; sp_fail : bool }.
Record smeta := { sm_rem : N; sm_sent : list N }.
Inductive salgo := SprayVanilla | SprayBinary.
Record sconf := { sc_algo : salgo; sc_L : N }.

(* one bundle on one node *)
Record sstate := {
  ss_peers : list speer;        (* active convergence senders (claManager.Sender(), order free) *)
  ss_meta : option smeta;       (* bundleData[id] *)
  ss_stored : bool;             (* the store knows the bundle (then it is pending) *)
  ss_created : bool;            (* NotifyNewBundle has happened *)
  ss_dst : N;                   (* destination node *)
  ss_blk : option N             (* BinarySprayBlock value of the bundle as stored *)
}.

(* one call of ConvergenceSender.Send *)
Record ssend := { sn_cla : N; sn_node : N; sn_ok : bool; sn_blk : option N; sn_direct : bool }.

Definition spray_init : sstate :=
  {| ss_peers := []; ss_meta := None; ss_stored := false; ss_created := false; ss_dst := 0; ss_blk := None |}.

Definition mem_n (x : N) (l : list N) : bool := existsb (N.eqb x) l.

Fixpoint remove_first (x : N) (l : list N) : list N :=
  match l with
  | [] => []
  | y :: t => if x =? y then t else y :: remove_first x t
  end.

Fixpoint nodup_n (l : list N) : bool :=
  match l with
  | [] => true
  | x :: t => negb (mem_n x t) && nodup_n t
  end.

Definition opt_list (o : option N) : list N := match o with Some x => [x] | None => [] end.

(* ---- NotifyNewBundle ---- *)
Definition spray_notify (c : sconf) (origin : bool) (blk prev : option N) : smeta :=
  match sc_algo c with
  | SprayVanilla =>
      if origin then {| sm_rem := sc_L c; sm_sent := opt_list prev |}   (* after fix 772c5cf: own bundle received back *)
      else {| sm_rem := spray_foreign_copies; sm_sent := opt_list prev |}
  | SprayBinary =>
      match blk with
      | Some k => {| sm_rem := k; sm_sent := opt_list prev |}
      | None => {| sm_rem := sc_L c; sm_sent := opt_list prev |}   (* after fix 2edd1c0: the previous node is recorded *)
      end
  end.

(* ---- ReportFailure (repaired): body executed under the write lock ---- *)
Definition spray_rf_write (giveback node : N) (m : smeta) : smeta :=
  if mem_n node (sm_sent m)
  then {| sm_rem := sm_rem m + giveback; sm_sent := remove_first node (sm_sent m) |}
  else m.

(* memblk: BinarySprayBlock value of the bundle in memory at the time of the report *)
Definition spray_report_failure (a : salgo) (memblk : option N) (node : N) (m : smeta) : smeta :=
  match a with
  | SprayVanilla => spray_rf_write spray_unit_copy node m
  | SprayBinary => match memblk with
                   | None => m                       (* "Bundle has not metadata Block": return *)
                   | Some v => spray_rf_write v node m
                   end
  end.

Definition spray_report_failures (a : salgo) (memblk : option N) (ps : list speer) (m : smeta) : smeta :=
  fold_left (fun m p => if sp_fail p then spray_report_failure a memblk (sp_node p) m else m) ps m.

(* ---- ReportFailure as sub-steps of two concurrent callers (threads false / true) ----
   [locked = true]: the repaired code (Lock; read; modify; write; Unlock).
   [locked = false]: the original code's discipline (the read and the write are each protected, the
   window between them is not) - only used to show that the lock is what makes the theorem true. *)
Inductive rf_pc := RfIdle | RfLocked | RfRead (local : option smeta) | RfWritten | RfDone.
Record rf_sys := { rs_shared : option smeta; rs_lock : option bool; rs_pcA : rf_pc; rs_pcB : rf_pc }.

Definition rf_init (m : option smeta) : rf_sys :=
  {| rs_shared := m; rs_lock := None; rs_pcA := RfIdle; rs_pcB := RfIdle |}.

Definition rf_pc_of (s : rf_sys) (t : bool) : rf_pc := if t then rs_pcB s else rs_pcA s.
Definition rf_set_pc (s : rf_sys) (t : bool) (pc : rf_pc) : rf_sys :=
  if t then {| rs_shared := rs_shared s; rs_lock := rs_lock s; rs_pcA := rs_pcA s; rs_pcB := pc |}
  else {| rs_shared := rs_shared s; rs_lock := rs_lock s; rs_pcA := pc; rs_pcB := rs_pcB s |}.
Definition rf_set_lock (s : rf_sys) (l : option bool) : rf_sys :=
  {| rs_shared := rs_shared s; rs_lock := l; rs_pcA := rs_pcA s; rs_pcB := rs_pcB s |}.
Definition rf_set_shared (s : rf_sys) (m : option smeta) : rf_sys :=
  {| rs_shared := m; rs_lock := rs_lock s; rs_pcA := rs_pcA s; rs_pcB := rs_pcB s |}.

(* f: the modification this thread applies (spray_report_failure a memblk node) *)
Definition rf_step (locked : bool) (fA fB : smeta -> smeta) (s : rf_sys) (t : bool) : rf_sys :=
  let f := if t then fB else fA in
  match rf_pc_of s t with
  | RfIdle =>
      if locked then
        match rs_lock s with
        | None => rf_set_pc (rf_set_lock s (Some t)) t RfLocked
        | Some _ => s                                    (* blocked on the mutex *)
        end
      else rf_set_pc s t RfLocked
  | RfLocked => rf_set_pc s t (RfRead (rs_shared s))
  | RfRead local =>
      match local with
      | None => rf_set_pc s t RfWritten                  (* "No metadata": return *)
      | Some m => rf_set_pc (rf_set_shared s (Some (f m))) t RfWritten
      end
  | RfWritten => rf_set_pc (if locked then rf_set_lock s None else s) t RfDone
  | RfDone => s
  end.

Definition rf_run (locked : bool) (fA fB : smeta -> smeta) (s : rf_sys) (sched : list bool) : rf_sys :=
  fold_left (rf_step locked fA fB) sched s.

Definition rf_finished (s : rf_sys) : bool :=
  match rs_pcA s, rs_pcB s with RfDone, RfDone => true | _, _ => false end.

(* ---- SenderForBundle: the observed choice is validated, not predicted ---- *)
Definition speer_of (ps : list speer) (cla : N) : option speer :=
  find (fun p => sp_cla p =? cla) ps.

Fixpoint speers_of (ps : list speer) (clas : list N) : option (list speer) :=
  match clas with
  | [] => Some []
  | c :: t => match speer_of ps c, speers_of ps t with
              | Some p, Some r => Some (p :: r)
              | _, _ => None
              end
  end.

Definition vanilla_select_ok (ps : list speer) (m : smeta) (chosen : list speer) : bool :=
  let nodes := map sp_node chosen in
  if sm_rem m <? spray_wait_threshold then match chosen with [] => true | _ => false end
  else
    nodup_n nodes
    && forallb (fun x => negb (mem_n x (sm_sent m))) nodes
    && (nlen chosen + 1 <=? sm_rem m)
    && ((nlen chosen + 1 =? sm_rem m) || forallb (fun p => mem_n (sp_node p) (sm_sent m ++ nodes)) ps).

Definition vanilla_selected (m : smeta) (chosen : list speer) : smeta :=
  {| sm_rem := sm_rem m - nlen chosen; sm_sent := sm_sent m ++ map sp_node chosen |}.

Definition binary_select_ok (ps : list speer) (m : smeta) (chosen : list speer) : bool :=
  if sm_rem m <? spray_wait_threshold then match chosen with [] => true | _ => false end
  else match chosen with
       | [] => forallb (fun p => mem_n (sp_node p) (sm_sent m)) ps
       | [p] => negb (mem_n (sp_node p) (sm_sent m))
       | _ => false
       end.

Definition binary_send_copies (m : smeta) : N := sm_rem m / spray_binary_divisor.

Definition binary_selected (m : smeta) (chosen : list speer) : smeta :=
  match chosen with
  | [] => m
  | _ => {| sm_rem := sm_rem m - binary_send_copies m; sm_sent := sm_sent m ++ map sp_node chosen |}
  end.

Definition mk_send (direct : bool) (blk : option N) (p : speer) : ssend :=
  {| sn_cla := sp_cla p; sn_node := sp_node p; sn_ok := negb (sp_fail p); sn_blk := blk; sn_direct := direct |}.

Definition set_meta_stored (s : sstate) (m : option smeta) (st : bool) : sstate :=
  {| ss_peers := ss_peers s; ss_meta := m; ss_stored := st; ss_created := ss_created s;
     ss_dst := ss_dst s; ss_blk := ss_blk s |}.

(* one pass of Core.forward for the bundle (dispatching of a new or pending bundle) *)
Definition spray_attempt (c : sconf) (s : sstate) (choice : list N) : option (sstate * list ssend) :=
  if negb (ss_stored s) then Some (s, [])
  else
    match filter (fun p => sp_node p =? ss_dst s) (ss_peers s) with
    | d :: ds =>
        (* direct delivery to every sender of the destination node; the algorithm is not asked
           (the oracle [choice] is not used) *)
        let dests := d :: ds in
        let sends := map (mk_send true (ss_blk s)) dests in
        let m' := option_map (spray_report_failures (sc_algo c) (ss_blk s) dests) (ss_meta s) in
        (* deleteAfterwards = true: one success removes the bundle from the store *)
        Some (set_meta_stored s m' (negb (existsb sn_ok sends)), sends)
    | [] =>
        match ss_meta s with
        | None => Some (s, [])                                           (* "No metadata" *)
        | Some m =>
            match speers_of (ss_peers s) choice with
            | None => None
            | Some chosen =>
                match sc_algo c with
                | SprayVanilla =>
                    if vanilla_select_ok (ss_peers s) m chosen then
                      let m1 := vanilla_selected m chosen in
                      let m2 := spray_report_failures SprayVanilla (ss_blk s) chosen m1 in
                      Some (set_meta_stored s (Some m2) true, map (mk_send false (ss_blk s)) chosen)
                    else None
                | SprayBinary =>
                    if binary_select_ok (ss_peers s) m chosen then
                      let v := binary_send_copies m in
                      let m1 := binary_selected m chosen in
                      let m2 := spray_report_failures SprayBinary (Some v) chosen m1 in
                      Some (set_meta_stored s (Some m2) true, map (mk_send false (Some v)) chosen)
                    else None
                end
            end
        end
    end.

Inductive sevent :=
| SeCreate (origin : bool) (dst : N) (blk prev : option N)   (* SendBundle / receive: NotifyNewBundle, then forward;
                                                                for a bundle the store knows: the duplicate is dropped *)
| SePeerUp (cla node : N) (fail : bool)                      (* PeerAppeared: checkPendingBundles *)
| SePeerDown (cla : N)
| SeSetFail (cla : N) (fail : bool)                          (* the link's next sends fail / succeed *)
| SeTick                                                     (* checkPendingBundles (cron) *)
| SeGC.                                                      (* GarbageCollect (cron) *)

Definition set_peers (s : sstate) (ps : list speer) : sstate :=
  {| ss_peers := ps; ss_meta := ss_meta s; ss_stored := ss_stored s; ss_created := ss_created s;
     ss_dst := ss_dst s; ss_blk := ss_blk s |}.

Definition spray_step (c : sconf) (s : sstate) (e : sevent) (choice : list N) : option (sstate * list ssend) :=
  match e with
  | SeCreate origin dst blk prev =>
      (* Core.receive drops a bundle whose ID the store knows ("ID is already known") before the
         algorithm hears of it.  Otherwise - first creation, or the bundle has left the store
         (delivered to its destination) and comes back from a neighbour - NotifyNewBundle
         (re-)initialises the metadata, whether or not GarbageCollect has removed the old entry:
         the node has no memory of the bundle, a new life of the bundle on this node begins. *)
      if ss_stored s then Some (s, [])
      else spray_attempt c {| ss_peers := ss_peers s; ss_meta := Some (spray_notify c origin blk prev);
                              ss_stored := true; ss_created := true; ss_dst := dst; ss_blk := blk |} choice
  | SePeerUp cla node fail =>
      if existsb (fun p => sp_cla p =? cla) (ss_peers s) then None
      else spray_attempt c (set_peers s (ss_peers s ++ [{| sp_cla := cla; sp_node := node; sp_fail := fail |}])) choice
  | SePeerDown cla =>
      Some (set_peers s (filter (fun p => negb (sp_cla p =? cla)) (ss_peers s)), [])
  | SeSetFail cla f =>
      Some (set_peers s (map (fun p => if sp_cla p =? cla
                                       then {| sp_cla := sp_cla p; sp_node := sp_node p; sp_fail := f |}
                                       else p) (ss_peers s)), [])
  | SeTick => spray_attempt c s choice
  | SeGC => Some (if ss_stored s then s else set_meta_stored s None false, [])
  end.

(* an event processed while a metadata garbage collection is in progress.  GarbageCollect holds the
   write lock of the metadata for its whole duration and every metadata access of the event takes
   that lock, so the collection is atomic with respect to each of them; it touches only entries of
   bundles the store does not know.  For one bundle the run is therefore the event followed
   ([gc_first = false]) or preceded ([gc_first = true]) by SeGC. *)
Definition spray_step_gc (gc_first : bool) (c : sconf) (s : sstate) (e : sevent) (choice : list N)
  : option (sstate * list ssend) :=
  if gc_first then
    match spray_step c s SeGC [] with
    | Some (s1, _) => spray_step c s1 e choice
    | None => None
    end
  else
    match spray_step c s e choice with
    | Some (s1, o) => match spray_step c s1 SeGC [] with Some (s2, _) => Some (s2, o) | None => None end
    | None => None
    end.

Fixpoint spray_run (c : sconf) (s : sstate) (h : list (sevent * list N)) : option (sstate * list ssend) :=
  match h with
  | [] => Some (s, [])
  | (e, ch) :: t =>
      match spray_step c s e ch with
      | None => None
      | Some (s1, o1) =>
          match spray_run c s1 t with
          | None => None
          | Some (s2, o2) => Some (s2, o1 ++ o2)
          end
      end
  end.

(* The bundle enters the store with this event: a new life begins, with fresh metadata. *)
Definition spray_enters (s : sstate) (e : sevent) : bool :=
  match e with SeCreate _ _ _ _ => negb (ss_stored s) | _ => false end.

(* [spray_run], but the transmissions are collected per life of the bundle on this node: [acc] are
   the transmissions since the bundle last entered the store (nothing is transmitted while the
   store does not know the bundle).  For a history with a single create this is [spray_run]. *)
Fixpoint spray_life (c : sconf) (s : sstate) (acc : list ssend) (h : list (sevent * list N))
  : option (sstate * list ssend) :=
  match h with
  | [] => Some (s, acc)
  | (e, ch) :: t =>
      match spray_step c s e ch with
      | None => None
      | Some (s1, o1) => spray_life c s1 (if spray_enters s e then o1 else acc ++ o1) t
      end
  end.

(* ---- the property's own checkers (evaluated by the driver on what the implementation did) ---- *)

(* a successful transmission to a peer other than the destination *)
Definition spray_is_relay (dst : N) (o : ssend) : bool := sn_ok o && negb (sn_node o =? dst).
Definition spray_relayed (dst : N) (outs : list ssend) : N := nlen (filter (spray_is_relay dst) outs).
Definition spray_budget_ok (L dst : N) (outs : list ssend) : bool := spray_relayed dst outs <=? L - 1.
Definition spray_account_ok (L dst rem : N) (outs : list ssend) : bool := rem + spray_relayed dst outs =? L.

(* copies handed over successfully under binary spray *)
Definition bspray_handed (dst : N) (outs : list ssend) : N :=
  fold_right (fun o acc => match sn_blk o with Some v => if spray_is_relay dst o then v + acc else acc | None => acc end) 0 outs.

(* one transmission to a non-destination peer: r copies before, r' after, announced value v *)
Definition bspray_send_ok (r r' : N) (v : option N) (ok : bool) : bool :=
  match v with
  | None => false
  | Some v => (2 <=? r) && (v =? r / 2) && (if ok then (r' + v =? r) else (r' =? r))
  end.
