(* Reasm.v - executable model of fragment reassembly (pkg/bpv7/fragmentation.go:
   prepareReassembly, mergeFragmentPayload, IsBundleReassemblable, ReassembleFragments, and the
   offset / total computation of Bundle.Fragment + fragmentPrimaryBlock) and of the store's part
   list (pkg/storage: Store.Push de-duplication, BundleItem.IsComplete / Load).

   Abstract over the bundle codec: a fragment is its fragment offset, total data length, payload
   slice, Is-Fragment flag and the list of extension blocks it carries (opaque id, replicate flag).
   Offsets are N (Go: uint64 / int; no overflow for payloads below 2^63 - not modelled). *)
From DTN Require Import Base.
Open Scope N_scope.

Record rs_frag := {
  fr_off : N;                      (* PrimaryBlock.FragmentOffset *)
  fr_total : N;                    (* PrimaryBlock.TotalDataLength *)
  fr_data : list N;                (* payload block data *)
  fr_isfrag : bool;                (* BundleControlFlags.Has(IsFragment) *)
  fr_blocks : list (N * bool)      (* non-payload canonical blocks: (id, ReplicateBlock flag) *)
}.

Definition rs_end (f : rs_frag) : N := fr_off f + nlen (fr_data f).

(* ---- sort.Slice by FragmentOffset ---------------------------------------------------------
   Go's sort.Slice is not stable.  The model's own sort is a stable insertion sort; everything
   proved about reassembly is proved for EVERY permutation of the input that is sorted by offset
   (see ReasmProofs: the outcome of a list of fragments of one bundle does not depend on the
   order among equal offsets), and the driver replays the order the implementation produced. *)
Fixpoint rs_insert (f : rs_frag) (l : list rs_frag) : list rs_frag :=
  match l with
  | [] => [f]
  | g :: l' => if fr_off f <=? fr_off g then f :: l else g :: rs_insert f l'
  end.
Definition rs_sort (l : list rs_frag) : list rs_frag := fold_right rs_insert [] l.

Fixpoint rs_sorted_b (l : list rs_frag) : bool :=
  match l with
  | [] => true
  | f :: l' => match l' with
               | [] => true
               | g :: _ => (fr_off f <=? fr_off g) && rs_sorted_b l'
               end
  end.

(* ---- prepareReassembly --------------------------------------------------------------------- *)
Inductive rs_err := RsEmpty | RsNotFragment | RsGap | RsTotal.

Definition rs_err_eqb (a b : rs_err) : bool :=
  match a, b with
  | RsEmpty, RsEmpty | RsNotFragment, RsNotFragment | RsGap, RsGap | RsTotal, RsTotal => true
  | _, _ => false
  end.

(* the loop: lastIndex is the running MAXIMUM of the fragment ends (after the fix) *)
Fixpoint rs_scan (last : N) (l : list rs_frag) : rs_err + N :=
  match l with
  | [] => inr last
  | f :: l' =>
      if negb (fr_isfrag f) then inl RsNotFragment
      else if last <? fr_off f then inl RsGap
      else rs_scan (if last <? rs_end f then rs_end f else last) l'
  end.

(* on the slice as sorted by the implementation *)
Definition rs_prepare_sorted (s : list rs_frag) : option rs_err :=
  match s with
  | [] => Some RsEmpty
  | f0 :: _ =>
      match rs_scan 0 s with
      | inl e => Some e
      | inr last => if fr_total f0 =? last then None else Some RsTotal
      end
  end.

(* ---- mergeFragmentPayload --------------------------------------------------------------------
   data = append(data, fragPayloadData[lastIndex-fragStartIndex:]...) for fragments that reach
   beyond lastIndex.  Go panics when the slice start is negative or beyond len: [None]. *)
Fixpoint rs_merge (last : N) (acc : list N) (l : list rs_frag) : option (list N) :=
  match l with
  | [] => Some acc
  | f :: l' =>
      if last <? rs_end f then
        if (last <? fr_off f) || (nlen (fr_data f) <? last - fr_off f) then None
        else rs_merge (rs_end f) (acc ++ skipn (N.to_nat (last - fr_off f)) (fr_data f)) l'
      else rs_merge last acc l'
  end.

(* ---- ReassembleFragments ----------------------------------------------------------------------
   ROk payload blocks: the merged payload and the extension blocks of bs[0] (the reassembled
   bundle takes primary block and extension blocks from the first fragment after sorting). *)
Inductive rs_outcome :=
| RsErr (e : rs_err)
| RsOk (payload : list N) (blocks : list (N * bool))
| RsPanic.

Definition rs_reassemble_sorted (s : list rs_frag) : rs_outcome :=
  match rs_prepare_sorted s with
  | Some e => RsErr e
  | None =>
      match s with
      | [] => RsErr RsEmpty
      | f0 :: _ =>
          match rs_merge 0 [] s with
          | None => RsPanic
          | Some d => RsOk d (fr_blocks f0)
          end
      end
  end.

Definition rs_reassemble (fs : list rs_frag) : rs_outcome := rs_reassemble_sorted (rs_sort fs).
Definition rs_is_reassemblable_sorted (s : list rs_frag) : bool :=
  match rs_prepare_sorted s with None => true | Some _ => false end.
Definition rs_is_reassemblable (fs : list rs_frag) : bool := rs_is_reassemblable_sorted (rs_sort fs).

(* ---- the code as it was before the two fixes (kept executable: refutation witnesses) -------- *)
(* lastIndex = fragOff + len (no maximum) *)
Fixpoint rs_scan_unfixed (last : N) (l : list rs_frag) : rs_err + N :=
  match l with
  | [] => inr last
  | f :: l' =>
      if negb (fr_isfrag f) then inl RsNotFragment
      else if last <? fr_off f then inl RsGap
      else rs_scan_unfixed (rs_end f) l'
  end.
Fixpoint rs_merge_unfixed (last : N) (acc : list N) (l : list rs_frag) : option (list N) :=
  match l with
  | [] => Some acc
  | f :: l' =>
      if (last <? fr_off f) || (nlen (fr_data f) <? last - fr_off f) then None
      else rs_merge_unfixed (rs_end f) (acc ++ skipn (N.to_nat (last - fr_off f)) (fr_data f)) l'
  end.
Definition rs_reassemble_sorted_unfixed (s : list rs_frag) : rs_outcome :=
  match s with
  | [] => RsErr RsEmpty
  | f0 :: _ =>
      match rs_scan_unfixed 0 s with
      | inl e => RsErr e
      | inr last =>
          if fr_total f0 =? last then
            match rs_merge_unfixed 0 [] s with
            | None => RsPanic
            | Some d => RsOk d (fr_blocks f0)
            end
          else RsErr RsTotal
      end
  end.

(* ---- Bundle.Fragment applied to a bundle that may itself be a fragment ------------------------
   [parts]: the payload room (mtu - overhead) of each loop iteration - decided by the codec's
   size arithmetic (property C09), an oracle here.  The loop takes data[i : min(i+sz, len)], the
   fragment's offset is base + i and its total the parent's total, where for a parent that is a
   fragment base = its own offset (after the fix; before: 0 and the local length).  All extension
   blocks go into the piece with i = 0, only the replicated ones into the others; a single piece
   is replaced by the input bundle itself. *)
Definition rs_base (f : rs_frag) : N := if fr_isfrag f then fr_off f else 0.
Definition rs_total (f : rs_frag) : N := if fr_isfrag f then fr_total f else nlen (fr_data f).

Definition rs_replicated (bl : list (N * bool)) : list (N * bool) := filter snd bl.

Fixpoint rs_refrag_loop (f : rs_frag) (i : N) (parts : list N) : list rs_frag :=
  match parts with
  | [] => []
  | sz :: parts' =>
      if i <? nlen (fr_data f) then
        {| fr_off := rs_base f + i;
           fr_total := rs_total f;
           fr_data := firstn (N.to_nat sz) (skipn (N.to_nat i) (fr_data f));
           fr_isfrag := true;
           fr_blocks := if i =? 0 then fr_blocks f else rs_replicated (fr_blocks f) |}
        :: rs_refrag_loop f (i + sz) parts'
      else []
  end.

Definition rs_refragment (f : rs_frag) (parts : list N) : list rs_frag :=
  match rs_refrag_loop f 0 parts with
  | [_] => [f]
  | l => l
  end.

(* unfixed: offsets from 0, total = local payload length *)
Fixpoint rs_refrag_loop_unfixed (f : rs_frag) (i : N) (parts : list N) : list rs_frag :=
  match parts with
  | [] => []
  | sz :: parts' =>
      if i <? nlen (fr_data f) then
        {| fr_off := i;
           fr_total := nlen (fr_data f);
           fr_data := firstn (N.to_nat sz) (skipn (N.to_nat i) (fr_data f));
           fr_isfrag := true;
           fr_blocks := if i =? 0 then fr_blocks f else rs_replicated (fr_blocks f) |}
        :: rs_refrag_loop_unfixed f (i + sz) parts'
      else []
  end.

(* ---- storage: part list of one BundleItem -----------------------------------------------------
   Store.Push of a fragment: when a part with the same (offset, total) is already recorded the new
   fragment is "known" and dropped (whatever its length - the part file name is derived from
   source, timestamp, offset and total only); otherwise the part is appended.
   IsComplete = IsBundleReassemblable of the loaded parts, Load = ReassembleFragments. *)
Fixpoint rs_store_push (parts : list rs_frag) (f : rs_frag) : list rs_frag :=
  match parts with
  | [] => [f]
  | g :: parts' =>
      if (fr_off g =? fr_off f) && (fr_total g =? fr_total f) then g :: parts'
      else g :: rs_store_push parts' f
  end.
Definition rs_store_push_all (fs : list rs_frag) : list rs_frag := fold_left rs_store_push fs [].

Definition rs_store_is_complete (parts : list rs_frag) : bool := rs_is_reassemblable parts.
Definition rs_store_load (parts : list rs_frag) : rs_outcome := rs_reassemble parts.

(* NOT the code: the repair proposed for the finding "a longer fragment with a known offset is
   dropped" - keep the longer of the two under the same part entry. *)
Fixpoint rs_store_push_longer (parts : list rs_frag) (f : rs_frag) : list rs_frag :=
  match parts with
  | [] => [f]
  | g :: parts' =>
      if (fr_off g =? fr_off f) && (fr_total g =? fr_total f) then
        (if nlen (fr_data g) <? nlen (fr_data f) then f else g) :: parts'
      else g :: rs_store_push_longer parts' f
  end.

(* ---- helpers for the driver ---------------------------------------------------------------- *)
Definition rs_blocks_eqb (a b : list (N * bool)) : bool :=
  list_eqb (fun x y => (fst x =? fst y) && Bool.eqb (snd x) (snd y)) a b.
Definition rs_frag_eqb (a b : rs_frag) : bool :=
  (fr_off a =? fr_off b) && (fr_total a =? fr_total b) && bytes_eqb (fr_data a) (fr_data b)
  && Bool.eqb (fr_isfrag a) (fr_isfrag b) && rs_blocks_eqb (fr_blocks a) (fr_blocks b).
