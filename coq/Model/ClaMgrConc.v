(* ClaMgrConc.v - SUB-STEP (interleaving) model of the shutdown path of the CLA manager
   (pkg/cla/manager.go, pkg/cla/manager_elem.go), at the granularity of synchronisation operations.
   Executable definitions only; proofs are in Proofs/ClaMgrConcProofs.v.

   Threads:  TH    Manager.handler()           (select over stopSyn / inChnl / ticker)
             TC    the goroutine calling Manager.Close()
             TCl i client goroutine i, performing one Register / Unregister / Restart
             TE e  convergenceElem.handler() of element e (started by a successful activate)
   A thread is a stack of operations ([cmc_op]); the head is the next synchronisation operation
   (mutex lock / unlock, atomic load / store of ttl, sync.Map Load / Store / Delete / Range
   snapshot, channel send / receive / close, adapter Start() / Close()).  [cmc_step] executes one of
   them; [None] = that thread is blocked, finished, or the label does not exist.
   A label is a thread id with an alternative number: the alternative selects the ready case of a
   `select` (Go chooses among ready cases at random) or the outcome of conv.Start() (oracle:
   0 = nil error, 1 = error with retry, 2 = error without retry); it is 0 everywhere else.

   Mutexes are booleans (Go's sync.Mutex has no owner; unlocking an unlocked one is a fatal error).

   The first operation that would panic in Go (close of a closed / nil channel, send on a closed
   channel) or that breaks the adapter contract (Start() of a started adapter, Close() of a stopped
   one) is recorded in [cs_err]; the model stops there (the state is absorbing).

   Three switches ([cmc_sw]) turn the model into the code WITH the seeded defect / WITHOUT one of
   the two concurrency fixes, so that the model can be shown to be sharp:
     sw_close_holds    Close() keeps stopFlagMutex locked until stopAck arrived (seeded C16-r2-1)
     sw_no_deact_chk   deactivate() does not look at isActive() again under its mutex (before aef8c74)
     sw_no_reg_chk     registerConvergence() does not look at the stop flag again (before 4771bec) *)
From Coq Require FMapPositive.
From DTN Require Import Base.
Open Scope nat_scope.

(* ---------- switches, parameters ---------- *)
Record cmc_sw := { sw_close_holds : bool; sw_no_deact_chk : bool; sw_no_reg_chk : bool }.
Definition cmc_code_as_is : cmc_sw := {| sw_close_holds := false; sw_no_deact_chk := false; sw_no_reg_chk := false |}.

Record cmc_par := {
  par_ttl : Z;        (* Manager.queueTtl *)
  par_cap : nat;      (* capacity of Manager.inChnl *)
  par_env : bool      (* true: the goroutine that reads Manager.Channel() is the one that calls Close()
                         (as routing.Core.handler does), so nobody reads outChnl once Close() was entered;
                         false: an independent consumer keeps reading outChnl until it is closed *)
}.

(* ---------- threads ---------- *)
Inductive cmc_tid := TH | TC | TCl (i : nat) | TE (e : nat).

(* who called convergenceElem.activate: registerConvergence(a) or the ticker pass at key a *)
Inductive cmc_caller := CallReg (a : nat) | CallTick (a : nat).

Inductive cmc_op :=
  (* Manager.Register(a) = isStopped ; registerConvergence(a) *)
  | RegLock (a : nat)               (* isStopped: stopFlagMutex.Lock() *)
  | RegChk (a : nat)                (* read stopFlag ; Unlock() *)
  | RegLoad (a : nat)               (* convs.Load(address) ; newConvergenceElement if absent *)
  | RegActive (a e : nat)           (* ce.isActive() of the element found *)
  | Act0 (c : cmc_caller) (e : nat) (* activate: isActive() outside the mutex *)
  | Act1 (c : cmc_caller) (e : nat) (* ce.mutex.Lock() *)
  | Act2 (c : cmc_caller) (e : nat) (* ttl == 0 && !permanent ; conv.Start() *)
  | Act3 (c : cmc_caller) (e : nat) (r : nat)   (* ttl update ; on success make channels, go ce.handler() *)
  | Act4 (c : cmc_caller) (e : nat) (ok retry : bool)   (* deferred ce.mutex.Unlock() ; return *)
  | RegStore (a e : nat)            (* convs.Store(address, ce) *)
  | RegLock2 (a : nat)              (* second isStopped (fix 4771bec) *)
  | RegChk2 (a : nat)
  (* Manager.unregisterConvergence(a) = Load ; deactivate ; Delete *)
  | UnrLoad (a : nat)
  | Deact0 (a e : nat)              (* deactivate: isActive() outside the mutex *)
  | Deact1 (a e : nat)              (* ce.mutex.Lock() *)
  | Deact2 (a e : nat)              (* isActive() under the mutex (fix aef8c74) *)
  | Deact3 (a e : nat)              (* close(ce.stopSyn) *)
  | Deact4 (a e : nat)              (* <-ce.stopAck *)
  | Deact5 (a e : nat)              (* atomic.StoreInt32(&ce.ttl, ttl) *)
  | Deact6 (a e : nat)              (* deferred ce.mutex.Unlock() *)
  | UnrDel (a : nat)                (* convs.Delete(address) *)
  (* Manager.handler *)
  | HSel                            (* select { <-stopSyn | <-inChnl | <-ticker.C } *)
  | HFwd                            (* outChnl <- cs *)
  | HTick0                          (* convs.Range: snapshot of the keys *)
  | HTick (keys : list nat)         (* next key of the ticker pass: load its element *)
  | HTickAct (a e : nat)            (* ce.isActive() in the ticker callback *)
  | TickDel (a : nat)               (* convs.Delete(key) after a failed start without retry *)
  | HShut0                          (* shutdown: convs.Range snapshot *)
  | HShut (keys : list nat)         (* next key of the shutdown pass: load its element, Unregister its conv *)
  | HCloseIn                        (* close(inChnl) *)
  | HCloseOut                       (* close(outChnl) *)
  | HCloseAck                       (* close(stopAck) *)
  (* Manager.Close() *)
  | CBegin                          (* the caller decides to close (it stops reading outChnl if par_env) *)
  | CLock                           (* stopFlagMutex.Lock() *)
  | CSet                            (* stopFlag = true ; Unlock() (not unlocked with sw_close_holds) *)
  | CCloseSyn                       (* close(stopSyn) *)
  | CWait                           (* <-stopAck *)
  | CUnlock.                        (* only with sw_close_holds: the deferred Unlock() *)

(* convergenceElem.handler *)
Inductive cmc_hpc :=
  | ENone                           (* no handler goroutine (never started, or returned) *)
  | ESel                            (* select { <-ce.stopSyn | cs := <-ce.conv.Channel() } *)
  | ESend (d : bool) (a : nat)      (* ce.convChnl <- cs  (cs = (PeerDisappeared?, sender)) *)
  | EStop                          (* ce.conv.Close() *)
  | EAck.                           (* close(ce.stopAck) ; return *)

Record cmc_elem := {
  ce_conv : nat;        (* the wrapped adapter *)
  ce_ttl : Z;           (* negative = active *)
  ce_mu : bool;         (* ce.mutex locked *)
  ce_syn : bool;        (* ce.stopSyn is NOT an open channel (nil before the first start, or closed) *)
  ce_ack : bool;        (* ce.stopAck is NOT an open channel *)
  ce_h : cmc_hpc
}.

Record cmc_adp := {
  ca_perm : bool;           (* IsPermanent() *)
  ca_started : bool;        (* Start() succeeded and Close() was not called since *)
  ca_chan : list bool       (* status messages waiting in conv.Channel(): true = PeerDisappeared of this adapter,
                               false = any other status (forwarded only) *)
}.

Inductive cmc_err :=
  | ErrDoubleStart (a : nat)      (* Start() of a started adapter *)
  | ErrCloseStopped (a : nat)     (* Close() of a stopped adapter *)
  | ErrCloseClosed (w : nat)      (* panic: close of closed / nil channel (0 elem stopSyn, 1 elem stopAck, 2 mgr stopSyn, 3 inChnl, 4 outChnl, 5 mgr stopAck) *)
  | ErrSendClosed (w : nat)       (* panic: send on closed channel (0 inChnl, 1 outChnl) *)
  | ErrUnlock.                    (* fatal: unlock of unlocked mutex *)

Record cmc_state := {
  cs_h : list cmc_op;             (* Manager.handler *)
  cs_c : list cmc_op;             (* Close() caller *)
  cs_cl : list (list cmc_op);     (* clients *)
  cs_els : list cmc_elem;         (* every convergenceElem ever allocated, by id *)
  cs_reg : list (option nat);     (* Manager.convs: address (= adapter number) -> element id *)
  cs_ads : list cmc_adp;
  cs_flag : bool;                 (* stopFlag *)
  cs_sfm : bool;                  (* stopFlagMutex locked *)
  cs_syn : bool;                  (* Manager.stopSyn closed *)
  cs_ack : bool;                  (* Manager.stopAck closed *)
  cs_in : list (bool * nat);      (* inChnl contents *)
  cs_in_closed : bool;
  cs_out_closed : bool;
  cs_ticks : nat;                 (* ticks the retry ticker will still deliver *)
  cs_err : option cmc_err
}.

(* ---------- small helpers ---------- *)
Fixpoint cmc_upd {A} (l : list A) (i : nat) (x : A) : list A :=
  match l, i with
  | [], _ => []
  | _ :: t, O => x :: t
  | h :: t, S j => h :: cmc_upd t j x
  end.

Definition cmc_set_h s v := {| cs_h := v; cs_c := cs_c s; cs_cl := cs_cl s; cs_els := cs_els s; cs_reg := cs_reg s;
  cs_ads := cs_ads s; cs_flag := cs_flag s; cs_sfm := cs_sfm s; cs_syn := cs_syn s; cs_ack := cs_ack s; cs_in := cs_in s;
  cs_in_closed := cs_in_closed s; cs_out_closed := cs_out_closed s; cs_ticks := cs_ticks s; cs_err := cs_err s |}.
Definition cmc_set_c s v := {| cs_h := cs_h s; cs_c := v; cs_cl := cs_cl s; cs_els := cs_els s; cs_reg := cs_reg s;
  cs_ads := cs_ads s; cs_flag := cs_flag s; cs_sfm := cs_sfm s; cs_syn := cs_syn s; cs_ack := cs_ack s; cs_in := cs_in s;
  cs_in_closed := cs_in_closed s; cs_out_closed := cs_out_closed s; cs_ticks := cs_ticks s; cs_err := cs_err s |}.
Definition cmc_set_cl s v := {| cs_h := cs_h s; cs_c := cs_c s; cs_cl := v; cs_els := cs_els s; cs_reg := cs_reg s;
  cs_ads := cs_ads s; cs_flag := cs_flag s; cs_sfm := cs_sfm s; cs_syn := cs_syn s; cs_ack := cs_ack s; cs_in := cs_in s;
  cs_in_closed := cs_in_closed s; cs_out_closed := cs_out_closed s; cs_ticks := cs_ticks s; cs_err := cs_err s |}.
Definition cmc_set_els s v := {| cs_h := cs_h s; cs_c := cs_c s; cs_cl := cs_cl s; cs_els := v; cs_reg := cs_reg s;
  cs_ads := cs_ads s; cs_flag := cs_flag s; cs_sfm := cs_sfm s; cs_syn := cs_syn s; cs_ack := cs_ack s; cs_in := cs_in s;
  cs_in_closed := cs_in_closed s; cs_out_closed := cs_out_closed s; cs_ticks := cs_ticks s; cs_err := cs_err s |}.
Definition cmc_set_reg s v := {| cs_h := cs_h s; cs_c := cs_c s; cs_cl := cs_cl s; cs_els := cs_els s; cs_reg := v;
  cs_ads := cs_ads s; cs_flag := cs_flag s; cs_sfm := cs_sfm s; cs_syn := cs_syn s; cs_ack := cs_ack s; cs_in := cs_in s;
  cs_in_closed := cs_in_closed s; cs_out_closed := cs_out_closed s; cs_ticks := cs_ticks s; cs_err := cs_err s |}.
Definition cmc_set_ads s v := {| cs_h := cs_h s; cs_c := cs_c s; cs_cl := cs_cl s; cs_els := cs_els s; cs_reg := cs_reg s;
  cs_ads := v; cs_flag := cs_flag s; cs_sfm := cs_sfm s; cs_syn := cs_syn s; cs_ack := cs_ack s; cs_in := cs_in s;
  cs_in_closed := cs_in_closed s; cs_out_closed := cs_out_closed s; cs_ticks := cs_ticks s; cs_err := cs_err s |}.
Definition cmc_set_flag s v := {| cs_h := cs_h s; cs_c := cs_c s; cs_cl := cs_cl s; cs_els := cs_els s; cs_reg := cs_reg s;
  cs_ads := cs_ads s; cs_flag := v; cs_sfm := cs_sfm s; cs_syn := cs_syn s; cs_ack := cs_ack s; cs_in := cs_in s;
  cs_in_closed := cs_in_closed s; cs_out_closed := cs_out_closed s; cs_ticks := cs_ticks s; cs_err := cs_err s |}.
Definition cmc_set_sfm s v := {| cs_h := cs_h s; cs_c := cs_c s; cs_cl := cs_cl s; cs_els := cs_els s; cs_reg := cs_reg s;
  cs_ads := cs_ads s; cs_flag := cs_flag s; cs_sfm := v; cs_syn := cs_syn s; cs_ack := cs_ack s; cs_in := cs_in s;
  cs_in_closed := cs_in_closed s; cs_out_closed := cs_out_closed s; cs_ticks := cs_ticks s; cs_err := cs_err s |}.
Definition cmc_set_syn s v := {| cs_h := cs_h s; cs_c := cs_c s; cs_cl := cs_cl s; cs_els := cs_els s; cs_reg := cs_reg s;
  cs_ads := cs_ads s; cs_flag := cs_flag s; cs_sfm := cs_sfm s; cs_syn := v; cs_ack := cs_ack s; cs_in := cs_in s;
  cs_in_closed := cs_in_closed s; cs_out_closed := cs_out_closed s; cs_ticks := cs_ticks s; cs_err := cs_err s |}.
Definition cmc_set_ack s v := {| cs_h := cs_h s; cs_c := cs_c s; cs_cl := cs_cl s; cs_els := cs_els s; cs_reg := cs_reg s;
  cs_ads := cs_ads s; cs_flag := cs_flag s; cs_sfm := cs_sfm s; cs_syn := cs_syn s; cs_ack := v; cs_in := cs_in s;
  cs_in_closed := cs_in_closed s; cs_out_closed := cs_out_closed s; cs_ticks := cs_ticks s; cs_err := cs_err s |}.
Definition cmc_set_in s v := {| cs_h := cs_h s; cs_c := cs_c s; cs_cl := cs_cl s; cs_els := cs_els s; cs_reg := cs_reg s;
  cs_ads := cs_ads s; cs_flag := cs_flag s; cs_sfm := cs_sfm s; cs_syn := cs_syn s; cs_ack := cs_ack s; cs_in := v;
  cs_in_closed := cs_in_closed s; cs_out_closed := cs_out_closed s; cs_ticks := cs_ticks s; cs_err := cs_err s |}.
Definition cmc_set_in_closed s v := {| cs_h := cs_h s; cs_c := cs_c s; cs_cl := cs_cl s; cs_els := cs_els s; cs_reg := cs_reg s;
  cs_ads := cs_ads s; cs_flag := cs_flag s; cs_sfm := cs_sfm s; cs_syn := cs_syn s; cs_ack := cs_ack s; cs_in := cs_in s;
  cs_in_closed := v; cs_out_closed := cs_out_closed s; cs_ticks := cs_ticks s; cs_err := cs_err s |}.
Definition cmc_set_out_closed s v := {| cs_h := cs_h s; cs_c := cs_c s; cs_cl := cs_cl s; cs_els := cs_els s; cs_reg := cs_reg s;
  cs_ads := cs_ads s; cs_flag := cs_flag s; cs_sfm := cs_sfm s; cs_syn := cs_syn s; cs_ack := cs_ack s; cs_in := cs_in s;
  cs_in_closed := cs_in_closed s; cs_out_closed := v; cs_ticks := cs_ticks s; cs_err := cs_err s |}.
Definition cmc_set_ticks s v := {| cs_h := cs_h s; cs_c := cs_c s; cs_cl := cs_cl s; cs_els := cs_els s; cs_reg := cs_reg s;
  cs_ads := cs_ads s; cs_flag := cs_flag s; cs_sfm := cs_sfm s; cs_syn := cs_syn s; cs_ack := cs_ack s; cs_in := cs_in s;
  cs_in_closed := cs_in_closed s; cs_out_closed := cs_out_closed s; cs_ticks := v; cs_err := cs_err s |}.
Definition cmc_fail s (e : cmc_err) := {| cs_h := cs_h s; cs_c := cs_c s; cs_cl := cs_cl s; cs_els := cs_els s; cs_reg := cs_reg s;
  cs_ads := cs_ads s; cs_flag := cs_flag s; cs_sfm := cs_sfm s; cs_syn := cs_syn s; cs_ack := cs_ack s; cs_in := cs_in s;
  cs_in_closed := cs_in_closed s; cs_out_closed := cs_out_closed s; cs_ticks := cs_ticks s; cs_err := Some e |}.

Definition cmc_el_set_ttl e v := {| ce_conv := ce_conv e; ce_ttl := v; ce_mu := ce_mu e; ce_syn := ce_syn e; ce_ack := ce_ack e; ce_h := ce_h e |}.
Definition cmc_el_set_mu e v := {| ce_conv := ce_conv e; ce_ttl := ce_ttl e; ce_mu := v; ce_syn := ce_syn e; ce_ack := ce_ack e; ce_h := ce_h e |}.
Definition cmc_el_set_syn e v := {| ce_conv := ce_conv e; ce_ttl := ce_ttl e; ce_mu := ce_mu e; ce_syn := v; ce_ack := ce_ack e; ce_h := ce_h e |}.
Definition cmc_el_set_ack e v := {| ce_conv := ce_conv e; ce_ttl := ce_ttl e; ce_mu := ce_mu e; ce_syn := ce_syn e; ce_ack := v; ce_h := ce_h e |}.
Definition cmc_el_set_h e v := {| ce_conv := ce_conv e; ce_ttl := ce_ttl e; ce_mu := ce_mu e; ce_syn := ce_syn e; ce_ack := ce_ack e; ce_h := v |}.

Definition cmc_ad_set_started a v := {| ca_perm := ca_perm a; ca_started := v; ca_chan := ca_chan a |}.
Definition cmc_ad_set_chan a v := {| ca_perm := ca_perm a; ca_started := ca_started a; ca_chan := v |}.

(* the stack of a Go-routine-like thread *)
Definition cmc_set_stack (s : cmc_state) (t : cmc_tid) (k : list cmc_op) : cmc_state :=
  match t with
  | TH => cmc_set_h s k
  | TC => cmc_set_c s k
  | TCl i => cmc_set_cl s (cmc_upd (cs_cl s) i k)
  | TE _ => s
  end.

Definition cmc_mod_el (s : cmc_state) (e : nat) (f : cmc_elem -> cmc_elem) : cmc_state :=
  match nth_error (cs_els s) e with
  | Some x => cmc_set_els s (cmc_upd (cs_els s) e (f x))
  | None => s
  end.

(* convergenceElem.isActive: atomic.LoadInt32(&ce.ttl) < 0 *)
Definition cmc_is_active (x : cmc_elem) : bool := (ce_ttl x <? 0)%Z.

Definition cmc_lookup (s : cmc_state) (a : nat) : option nat :=
  match nth_error (cs_reg s) a with Some r => r | None => None end.

(* keys present in convs, ascending *)
Fixpoint cmc_keys_from (i : nat) (r : list (option nat)) : list nat :=
  match r with
  | [] => []
  | Some _ :: t => i :: cmc_keys_from (S i) t
  | None :: t => cmc_keys_from (S i) t
  end.
Definition cmc_keys (s : cmc_state) : list nat := cmc_keys_from 0 (cs_reg s).

(* continuation after activate returned (successful, retry) to its caller *)
Definition cmc_after_act (c : cmc_caller) (e : nat) (ok retry : bool) (k : list cmc_op) : list cmc_op :=
  match c with
  | CallReg a => if negb ok && negb retry then k else RegStore a e :: k
  | CallTick a => if negb ok && negb retry then TickDel a :: k else k
  end.

Definition cmc_new_elem (a : nat) (ttl : Z) : cmc_elem :=
  {| ce_conv := a; ce_ttl := ttl; ce_mu := false; ce_syn := true; ce_ack := true; ce_h := ENone |}.

(* has the Close() caller entered Close()? *)
Definition cmc_close_begun (s : cmc_state) : bool :=
  match cs_c s with CBegin :: _ => false | _ => true end.

(* ---------- one synchronisation operation [o] of thread [t] (H, C or a client), continuation [k] ---------- *)
Definition cmc_exec (sw : cmc_sw) (p : cmc_par) (s : cmc_state) (t : cmc_tid) (o : cmc_op) (k : list cmc_op)
    (alt : nat) : option cmc_state :=
  let go := fun (s' : cmc_state) (k' : list cmc_op) => Some (cmc_set_stack s' t k') in
  let only0 := fun (r : option cmc_state) => match alt with O => r | _ => None end in
  match o with
  | RegLock a => only0 (if cs_sfm s then None else go (cmc_set_sfm s true) (RegChk a :: k))
  | RegChk a => only0 (let s1 := cmc_set_sfm s false in if cs_flag s then go s1 k else go s1 (RegLoad a :: k))
  | RegLoad a => only0 (
      match cmc_lookup s a with
      | Some e => go s (RegActive a e :: k)
      | None => go (cmc_set_els s (cs_els s ++ [cmc_new_elem a (par_ttl p)])) (Act0 (CallReg a) (length (cs_els s)) :: k)
      end)
  | RegActive a e => only0 (
      match nth_error (cs_els s) e with
      | Some x => if cmc_is_active x then go s k else go s (Act0 (CallReg a) e :: k)
      | None => None
      end)
  | Act0 c e => only0 (
      match nth_error (cs_els s) e with
      | Some x => if cmc_is_active x then go s (cmc_after_act c e false false k) else go s (Act1 c e :: k)
      | None => None
      end)
  | Act1 c e => only0 (
      match nth_error (cs_els s) e with
      | Some x => if ce_mu x then None else go (cmc_mod_el s e (fun x => cmc_el_set_mu x true)) (Act2 c e :: k)
      | None => None
      end)
  | Act2 c e =>
      match nth_error (cs_els s) e with
      | Some x =>
          match nth_error (cs_ads s) (ce_conv x) with
          | Some ad =>
              if (ce_ttl x =? 0)%Z && negb (ca_perm ad) then only0 (go s (Act4 c e false false :: k))
              else if ca_started ad then only0 (Some (cmc_fail s (ErrDoubleStart (ce_conv x))))
              else match alt with
                   | 0 => go (cmc_set_ads s (cmc_upd (cs_ads s) (ce_conv x) (cmc_ad_set_started ad true))) (Act3 c e 0 :: k)
                   | 1 => go s (Act3 c e 1 :: k)
                   | 2 => go s (Act3 c e 2 :: k)
                   | _ => None
                   end
          | None => None
          end
      | None => None
      end
  | Act3 c e r => only0 (
      match r with
      | 0 => go (cmc_mod_el s e (fun x => {| ce_conv := ce_conv x; ce_ttl := (-1)%Z; ce_mu := ce_mu x;
                                              ce_syn := false; ce_ack := false; ce_h := ESel |}))
                (Act4 c e true false :: k)
      | 1 => go (cmc_mod_el s e (fun x => if (ce_ttl x >? 0)%Z then cmc_el_set_ttl x (ce_ttl x + -1)%Z else x))
                (Act4 c e false true :: k)
      | _ => go (cmc_mod_el s e (fun x => cmc_el_set_ttl x 0%Z)) (Act4 c e false false :: k)
      end)
  | Act4 c e ok retry => only0 (
      match nth_error (cs_els s) e with
      | Some x => if ce_mu x then go (cmc_mod_el s e (fun x => cmc_el_set_mu x false)) (cmc_after_act c e ok retry k)
                  else Some (cmc_fail s ErrUnlock)
      | None => None
      end)
  | RegStore a e => only0 (
      go (cmc_set_reg s (cmc_upd (cs_reg s) a (Some e))) (if sw_no_reg_chk sw then k else RegLock2 a :: k))
  | RegLock2 a => only0 (if cs_sfm s then None else go (cmc_set_sfm s true) (RegChk2 a :: k))
  | RegChk2 a => only0 (let s1 := cmc_set_sfm s false in if cs_flag s then go s1 (UnrLoad a :: k) else go s1 k)
  | UnrLoad a => only0 (
      match cmc_lookup s a with
      | Some e => go s (Deact0 a e :: k)
      | None => go s k
      end)
  | Deact0 a e => only0 (
      match nth_error (cs_els s) e with
      | Some x => if cmc_is_active x then go s (Deact1 a e :: k) else go s (UnrDel a :: k)
      | None => None
      end)
  | Deact1 a e => only0 (
      match nth_error (cs_els s) e with
      | Some x => if ce_mu x then None
                  else go (cmc_mod_el s e (fun x => cmc_el_set_mu x true))
                          ((if sw_no_deact_chk sw then Deact3 a e else Deact2 a e) :: k)
      | None => None
      end)
  | Deact2 a e => only0 (
      match nth_error (cs_els s) e with
      | Some x => if cmc_is_active x then go s (Deact3 a e :: k) else go s (Deact6 a e :: k)
      | None => None
      end)
  | Deact3 a e => only0 (
      match nth_error (cs_els s) e with
      | Some x => if ce_syn x then Some (cmc_fail s (ErrCloseClosed 0))
                  else go (cmc_mod_el s e (fun x => cmc_el_set_syn x true)) (Deact4 a e :: k)
      | None => None
      end)
  | Deact4 a e => only0 (
      match nth_error (cs_els s) e with
      | Some x => if ce_ack x then go s (Deact5 a e :: k) else None
      | None => None
      end)
  | Deact5 a e => only0 (go (cmc_mod_el s e (fun x => cmc_el_set_ttl x (par_ttl p))) (Deact6 a e :: k))
  | Deact6 a e => only0 (
      match nth_error (cs_els s) e with
      | Some x => if ce_mu x then go (cmc_mod_el s e (fun x => cmc_el_set_mu x false)) (UnrDel a :: k)
                  else Some (cmc_fail s ErrUnlock)
      | None => None
      end)
  | UnrDel a => only0 (go (cmc_set_reg s (cmc_upd (cs_reg s) a None)) k)
  | TickDel a => only0 (go (cmc_set_reg s (cmc_upd (cs_reg s) a None)) k)
  | HSel =>
      match alt with
      | 0 => if cs_syn s then go s [HShut0] else None
      | 1 => match cs_in s with
             | (d, a) :: rest =>
                 go (cmc_set_in s rest) (if d then [UnrLoad a; RegLock a; HFwd; HSel] else [HFwd; HSel])
             | [] => None
             end
      | 2 => match cs_ticks s with
             | S n => go (cmc_set_ticks s n) [HTick0; HSel]
             | O => None
             end
      | _ => None
      end
  | HFwd => only0 (
      if cs_out_closed s then Some (cmc_fail s (ErrSendClosed 1))
      else if par_env p && cmc_close_begun s then None
      else go s k)
  | HTick0 => only0 (go s (HTick (cmc_keys s) :: k))
  | HTick keys => only0 (
      match keys with
      | [] => go s k
      | a :: ks => match cmc_lookup s a with
                   | Some e => go s (HTickAct a e :: HTick ks :: k)
                   | None => go s (HTick ks :: k)
                   end
      end)
  | HTickAct a e => only0 (
      match nth_error (cs_els s) e with
      | Some x => if cmc_is_active x then go s k else go s (Act0 (CallTick a) e :: k)
      | None => None
      end)
  | HShut0 => only0 (go s [HShut (cmc_keys s)])
  | HShut keys => only0 (
      match keys with
      | [] => go s [HCloseIn]
      | a :: ks => match cmc_lookup s a with
                   | Some e => match nth_error (cs_els s) e with
                               | Some x => go s [UnrLoad (ce_conv x); HShut ks]
                               | None => None
                               end
                   | None => go s [HShut ks]
                   end
      end)
  | HCloseIn => only0 (if cs_in_closed s then Some (cmc_fail s (ErrCloseClosed 3)) else go (cmc_set_in_closed s true) [HCloseOut])
  | HCloseOut => only0 (if cs_out_closed s then Some (cmc_fail s (ErrCloseClosed 4)) else go (cmc_set_out_closed s true) [HCloseAck])
  | HCloseAck => only0 (if cs_ack s then Some (cmc_fail s (ErrCloseClosed 5)) else go (cmc_set_ack s true) [])
  | CBegin => only0 (go s (CLock :: k))
  | CLock => only0 (if cs_sfm s then None else go (cmc_set_sfm s true) (CSet :: k))
  | CSet => only0 (let s1 := cmc_set_flag s true in
                   go (if sw_close_holds sw then s1 else cmc_set_sfm s1 false) (CCloseSyn :: k))
  | CCloseSyn => only0 (if cs_syn s then Some (cmc_fail s (ErrCloseClosed 2)) else go (cmc_set_syn s true) (CWait :: k))
  | CWait => only0 (if cs_ack s then go s (if sw_close_holds sw then CUnlock :: k else k) else None)
  | CUnlock => only0 (if cs_sfm s then go (cmc_set_sfm s false) k else Some (cmc_fail s ErrUnlock))
  end.

(* ---------- convergenceElem.handler of element e ---------- *)
Definition cmc_exec_el (p : cmc_par) (s : cmc_state) (e : nat) (alt : nat) : option cmc_state :=
  match nth_error (cs_els s) e with
  | None => None
  | Some x =>
      let a := ce_conv x in
      match ce_h x with
      | ENone => None
      | ESel =>
          match alt with
          | 0 => if ce_syn x then Some (cmc_mod_el s e (fun x => cmc_el_set_h x EStop)) else None
          | 1 => match nth_error (cs_ads s) a with
                 | Some ad => match ca_chan ad with
                              | d :: rest =>
                                  Some (cmc_mod_el (cmc_set_ads s (cmc_upd (cs_ads s) a (cmc_ad_set_chan ad rest))) e
                                                   (fun x => cmc_el_set_h x (ESend d a)))
                              | [] => None
                              end
                 | None => None
                 end
          | _ => None
          end
      | ESend d b =>
          match alt with
          | 0 => if cs_in_closed s then Some (cmc_fail s (ErrSendClosed 0))
                 else if par_cap p <=? length (cs_in s) then None
                 else Some (cmc_mod_el (cmc_set_in s (cs_in s ++ [(d, b)])) e (fun x => cmc_el_set_h x ESel))
          | _ => None
          end
      | EStop =>
          match alt with
          | 0 => match nth_error (cs_ads s) a with
                 | Some ad => if ca_started ad
                              then Some (cmc_mod_el (cmc_set_ads s (cmc_upd (cs_ads s) a (cmc_ad_set_started ad false))) e
                                                    (fun x => cmc_el_set_h x EAck))
                              else Some (cmc_fail s (ErrCloseStopped a))
                 | None => None
                 end
          | _ => None
          end
      | EAck =>
          match alt with
          | 0 => if ce_ack x then Some (cmc_fail s (ErrCloseClosed 1))
                 else Some (cmc_mod_el s e (fun x => {| ce_conv := ce_conv x; ce_ttl := ce_ttl x; ce_mu := ce_mu x;
                                                         ce_syn := ce_syn x; ce_ack := true; ce_h := ENone |}))
          | _ => None
          end
      end
  end.

(* ---------- the step function ---------- *)
(* the highest alternative number an operation has *)
Definition cmc_op_alts (o : cmc_op) : nat := match o with HSel | Act2 _ _ => 2 | _ => 0 end.
Definition cmc_hpc_alts (h : cmc_hpc) : nat := match h with ESel => 1 | _ => 0 end.

Definition cmc_step (sw : cmc_sw) (p : cmc_par) (s : cmc_state) (t : cmc_tid) (alt : nat) : option cmc_state :=
  match cs_err s with
  | Some _ => None
  | None =>
      match t with
      | TH => match cs_h s with o :: k => if alt <=? cmc_op_alts o then cmc_exec sw p s TH o k alt else None | [] => None end
      | TC => match cs_c s with o :: k => if alt <=? cmc_op_alts o then cmc_exec sw p s TC o k alt else None | [] => None end
      | TCl i => match nth_error (cs_cl s) i with
                 | Some (o :: k) => if alt <=? cmc_op_alts o then cmc_exec sw p s (TCl i) o k alt else None
                 | _ => None
                 end
      | TE e => match nth_error (cs_els s) e with
                | Some x => match ce_h x with
                            | ENone => None
                            | h => if alt <=? cmc_hpc_alts h then cmc_exec_el p s e alt else None
                            end
                | None => None
                end
      end
  end.

(* the adapter call the next step of thread t makes, if any: (true, a) = conv.Start() of adapter a,
   (false, a) = conv.Close() of adapter a *)
Definition cmc_stack_of (s : cmc_state) (t : cmc_tid) : list cmc_op :=
  match t with
  | TH => cs_h s
  | TC => cs_c s
  | TCl i => match nth_error (cs_cl s) i with Some k => k | None => [] end
  | TE _ => []
  end.
Definition cmc_call (s : cmc_state) (t : cmc_tid) : option (bool * nat) :=
  match t with
  | TE e => match nth_error (cs_els s) e with
            | Some x => match ce_h x with EStop => Some (false, ce_conv x) | _ => None end
            | None => None
            end
  | _ => match cmc_stack_of s t with
         | Act2 _ e :: _ =>
             match nth_error (cs_els s) e with
             | Some x => match nth_error (cs_ads s) (ce_conv x) with
                         | Some ad => if (ce_ttl x =? 0)%Z && negb (ca_perm ad) then None else Some (true, ce_conv x)
                         | None => None
                         end
             | None => None
             end
         | _ => None
         end
  end.
Definition cmc_started (s : cmc_state) (a : nat) : bool :=
  match nth_error (cs_ads s) a with Some ad => ca_started ad | None => false end.

(* every label that can possibly be enabled in s *)
Definition cmc_alts_upto (t : cmc_tid) (n : nat) : list (cmc_tid * nat) :=
  match n with 0 => [(t, 0)] | 1 => [(t, 0); (t, 1)] | _ => [(t, 0); (t, 1); (t, 2)] end.
Definition cmc_stack_labels (t : cmc_tid) (k : list cmc_op) : list (cmc_tid * nat) :=
  match k with o :: _ => cmc_alts_upto t (cmc_op_alts o) | [] => [] end.
Fixpoint cmc_cl_labels (i : nat) (l : list (list cmc_op)) : list (cmc_tid * nat) :=
  match l with [] => [] | k :: r => cmc_stack_labels (TCl i) k ++ cmc_cl_labels (S i) r end.
Fixpoint cmc_el_labels (e : nat) (l : list cmc_elem) : list (cmc_tid * nat) :=
  match l with
  | [] => []
  | x :: r => match ce_h x with ENone => cmc_el_labels (S e) r | h => cmc_alts_upto (TE e) (cmc_hpc_alts h) ++ cmc_el_labels (S e) r end
  end.
Definition cmc_labels (s : cmc_state) : list (cmc_tid * nat) :=
  cmc_stack_labels TH (cs_h s) ++ cmc_stack_labels TC (cs_c s) ++ cmc_cl_labels 0 (cs_cl s) ++ cmc_el_labels 0 (cs_els s).

Definition cmc_succs (sw : cmc_sw) (p : cmc_par) (s : cmc_state) : list cmc_state :=
  flat_map (fun l => match cmc_step sw p s (fst l) (snd l) with Some s' => [s'] | None => [] end) (cmc_labels s).

(* ---------- configurations and initial states ---------- *)
Inductive cmc_ainit :=
  | AAbsent                (* not registered *)
  | AStarted               (* registered, started: active element with its handler goroutine running *)
  | APending (ttl : nat).  (* registered, not started (its last start failed): element with this ttl *)

Record cmc_acfg := { ac_init : cmc_ainit; ac_perm : bool; ac_msgs : list bool }.

Inductive cmc_cop := CoReg (a : nat) | CoUnreg (a : nat) | CoRestart (a : nat).

Record cmc_cfg := {
  cf_ads : list cmc_acfg;     (* the adapters; adapter number = position = its address *)
  cf_ops : list cmc_cop;      (* one client goroutine per operation *)
  cf_ticks : nat;             (* retry ticks delivered at arbitrary moments *)
  cf_par : cmc_par
}.

Definition cmc_client_prog (o : cmc_cop) : list cmc_op :=
  match o with
  | CoReg a => [RegLock a]
  | CoUnreg a => [UnrLoad a]
  | CoRestart a => [UnrLoad a; RegLock a]     (* Manager.Restart = Unregister ; Register *)
  end.

(* elements and registry of the initial configuration: the registered adapters get elements 0, 1, ... *)
Fixpoint cmc_init_els (i : nat) (next : nat) (l : list cmc_acfg) : list cmc_elem * list (option nat) :=
  match l with
  | [] => ([], [])
  | c :: t =>
      match ac_init c with
      | AAbsent => let (els, reg) := cmc_init_els (S i) next t in (els, None :: reg)
      | AStarted => let (els, reg) := cmc_init_els (S i) (S next) t in
                    ({| ce_conv := i; ce_ttl := (-1)%Z; ce_mu := false; ce_syn := false; ce_ack := false; ce_h := ESel |} :: els,
                     Some next :: reg)
      | APending ttl => let (els, reg) := cmc_init_els (S i) (S next) t in
                        (cmc_new_elem i (Z.of_nat ttl) :: els, Some next :: reg)
      end
  end.

Definition cmc_init_adp (c : cmc_acfg) : cmc_adp :=
  {| ca_perm := ac_perm c; ca_started := match ac_init c with AStarted => true | _ => false end; ca_chan := ac_msgs c |}.

Definition cmc_init (c : cmc_cfg) : cmc_state :=
  let (els, reg) := cmc_init_els 0 0 (cf_ads c) in
  {| cs_h := [HSel]; cs_c := [CBegin]; cs_cl := map cmc_client_prog (cf_ops c);
     cs_els := els; cs_reg := reg; cs_ads := map cmc_init_adp (cf_ads c);
     cs_flag := false; cs_sfm := false; cs_syn := false; cs_ack := false;
     cs_in := []; cs_in_closed := false; cs_out_closed := false;
     cs_ticks := cf_ticks c; cs_err := None |}.

(* ---------- observations ---------- *)
Definition cmc_el_idle (x : cmc_elem) : bool := match ce_h x with ENone => true | _ => false end.
Definition cmc_stack_done (k : list cmc_op) : bool := match k with [] => true | _ => false end.

(* every thread has returned *)
Definition cmc_all_done (s : cmc_state) : bool :=
  cmc_stack_done (cs_h s) && cmc_stack_done (cs_c s) && forallb cmc_stack_done (cs_cl s) && forallb cmc_el_idle (cs_els s).

Definition cmc_close_returned (s : cmc_state) : bool := cmc_stack_done (cs_c s).

(* nothing is left running or listed *)
Definition cmc_all_stopped (s : cmc_state) : bool :=
  forallb (fun ad => negb (ca_started ad)) (cs_ads s)
  && forallb (fun r => match r with None => true | Some _ => false end) (cs_reg s)
  && forallb (fun x => negb (cmc_is_active x)) (cs_els s).

Definition cmc_no_err (s : cmc_state) : bool := match cs_err s with None => true | Some _ => false end.

Definition cmc_is_panic (s : cmc_state) : bool :=
  match cs_err s with Some (ErrCloseClosed _) | Some (ErrSendClosed _) | Some ErrUnlock => true | _ => false end.

Definition cmc_enabled (sw : cmc_sw) (p : cmc_par) (s : cmc_state) : bool :=
  match cmc_succs sw p s with [] => false | _ => true end.

(* a state in which nothing can move although some thread has not returned (an error state is not counted) *)
Definition cmc_deadlocked (sw : cmc_sw) (p : cmc_par) (s : cmc_state) : bool :=
  cmc_no_err s && negb (cmc_enabled sw p s) && negb (cmc_all_done s).

(* run a schedule (list of labels); None if some label is not enabled *)
Fixpoint cmc_run_sched (sw : cmc_sw) (p : cmc_par) (s : cmc_state) (l : list (cmc_tid * nat)) : option cmc_state :=
  match l with
  | [] => Some s
  | (t, alt) :: r => match cmc_step sw p s t alt with Some s' => cmc_run_sched sw p s' r | None => None end
  end.

(* ---------- the configurations the theorems quantify over ---------- *)
(* production parameters: queueTtl 10, inChnl capacity 100 (NewManager), independent consumer of Channel() *)
Definition cmc_par_prod : cmc_par := {| par_ttl := 10%Z; par_cap := 100; par_env := false |}.

Definition cmc_cop_target (o : cmc_cop) : nat := match o with CoReg a | CoUnreg a | CoRestart a => a end.
Definition cmc_cop_is_unreg (o : cmc_cop) : bool := match o with CoUnreg _ => true | _ => false end.

(* Client calls the code supports concurrently with everything else (found by exploration, see the
   refuted configurations in Properties/C16_conc.v): for one adapter either
     - only Unregister calls, and then no PeerDisappeared of a started adapter is pending (the handler's
       own Restart of that adapter would overlap them), or
     - a single Register of an adapter that is not registered and has no status message waiting, or
     - a single Restart of an adapter that has no status message waiting;
   and no retry tick while client calls are running. *)
Definition cmc_adapter_ok (ops : list cmc_cop) (a : nat) (c : cmc_acfg) : bool :=
  match filter (fun o => cmc_cop_target o =? a) ops with
  | [] => true
  | [CoReg _] => match ac_init c, ac_msgs c with AAbsent, [] => true | _, _ => false end
  | [CoRestart _] => match ac_msgs c with [] => true | _ => false end
  | l => forallb cmc_cop_is_unreg l
         && match ac_init c with AStarted => negb (existsb (fun d => d) (ac_msgs c)) | _ => true end
  end.

Fixpoint cmc_adapters_ok (ops : list cmc_cop) (i : nat) (l : list cmc_acfg) : bool :=
  match l with
  | [] => true
  | c :: t => cmc_adapter_ok ops i c && cmc_adapters_ok ops (S i) t
  end.

Definition cmc_cfg_ok (c : cmc_cfg) : bool :=
  match cf_ops c with
  | [] => true
  | ops => (cf_ticks c =? 0) && forallb (fun o => cmc_cop_target o <? length (cf_ads c)) ops
           && cmc_adapters_ok ops 0 (cf_ads c)
  end.

(* enumeration of all configurations within a bound: at most N adapters, K client calls, M status
   messages altogether, T ticks, a pending adapter's ttl at most P *)
Fixpoint cmc_lists_le {A} (k : nat) (xs : list A) : list (list A) :=
  match k with
  | O => [[]]
  | S k' => [] :: flat_map (fun x => map (cons x) (cmc_lists_le k' xs)) xs
  end.

Definition cmc_all_inits (P : nat) : list cmc_ainit := AAbsent :: AStarted :: map APending (seq 0 (S P)).
Definition cmc_all_acfgs (P M : nat) : list cmc_acfg :=
  flat_map (fun i => flat_map (fun p => map (fun m => {| ac_init := i; ac_perm := p; ac_msgs := m |})
                                            (cmc_lists_le M [true; false])) [false; true]) (cmc_all_inits P).
Definition cmc_all_cops (N : nat) : list cmc_cop := flat_map (fun a => [CoReg a; CoUnreg a; CoRestart a]) (seq 0 N).

Definition cmc_msg_count (ads : list cmc_acfg) : nat := fold_right (fun c n => length (ac_msgs c) + n) 0 ads.

Definition cmc_all_cfgs (N K M T P : nat) : list cmc_cfg :=
  flat_map (fun ads =>
    if cmc_msg_count ads <=? M then
      flat_map (fun ops => map (fun t => {| cf_ads := ads; cf_ops := ops; cf_ticks := t; cf_par := cmc_par_prod |}) (seq 0 (S T)))
               (cmc_lists_le K (cmc_all_cops N))
    else []) (cmc_lists_le N (cmc_all_acfgs P M)).

Definition cmc_ainit_in_bound (P : nat) (i : cmc_ainit) : bool := match i with APending t => t <=? P | _ => true end.
Definition cmc_in_bound (N K M T P : nat) (c : cmc_cfg) : bool :=
  (length (cf_ads c) <=? N) && (length (cf_ops c) <=? K) && (cmc_msg_count (cf_ads c) <=? M) && (cf_ticks c <=? T)
  && forallb (fun a => cmc_ainit_in_bound P (ac_init a)) (cf_ads c)
  && forallb (fun o => cmc_cop_target o <? N) (cf_ops c)
  && (par_ttl (cf_par c) =? 10)%Z && (par_cap (cf_par c) =? 100) && negb (par_env (cf_par c)).

Definition cmc_family (N K M T P : nat) : list cmc_cfg := filter cmc_cfg_ok (cmc_all_cfgs N K M T P).

(* ---------- a ranking function: an upper bound of the number of steps still possible ---------- *)
Definition cmc_w_unr : N := 9.    (* UnrLoad .. UnrDel *)
Definition cmc_w_after (c : cmc_caller) : N :=
  match c with CallReg _ => 3 + cmc_w_unr (* RegStore RegLock2 RegChk2 unregister *) | CallTick _ => 1 end.
Definition cmc_w_act0 (c : cmc_caller) : N := 8 + cmc_w_after c.   (* Act0..Act4, 3 steps of a new handler's exit *)
Definition cmc_w_reg : N := 4 + cmc_w_act0 (CallReg 0).           (* RegLock RegChk RegLoad RegActive activate ... *)
Definition cmc_w_msg_in : N := cmc_w_unr + cmc_w_reg + 2.         (* HSel ; Restart ; HFwd *)
Definition cmc_w_msg_chan : N := 2 + cmc_w_msg_in.                (* taken and sent by the element handler *)
Definition cmc_w_tickkey : N := 2 + cmc_w_act0 (CallTick 0).
Definition cmc_w_shutkey : N := 1 + cmc_w_unr.

Definition cmc_w_op (n : N) (o : cmc_op) : N :=
  match o with
  | RegLock _ => cmc_w_reg | RegChk _ => cmc_w_reg - 1 | RegLoad _ => cmc_w_reg - 2 | RegActive _ _ => cmc_w_reg - 3
  | Act0 c _ => cmc_w_act0 c | Act1 c _ => cmc_w_act0 c - 1 | Act2 c _ => cmc_w_act0 c - 2
  | Act3 c _ _ => cmc_w_act0 c - 3 | Act4 c _ _ _ => 1 + cmc_w_after c
  | RegStore _ _ => 3 + cmc_w_unr | RegLock2 _ => 2 + cmc_w_unr | RegChk2 _ => 1 + cmc_w_unr
  | UnrLoad _ => 9 | Deact0 _ _ => 8 | Deact1 _ _ => 7 | Deact2 _ _ => 6 | Deact3 _ _ => 5 | Deact4 _ _ => 4
  | Deact5 _ _ => 3 | Deact6 _ _ => 2 | UnrDel _ => 1
  | HSel => 7 + n * cmc_w_shutkey
  | HFwd => 1
  | HTick0 => 2 + n * cmc_w_tickkey
  | HTick keys => 1 + nlen keys * cmc_w_tickkey
  | HTickAct _ _ => 1 + cmc_w_act0 (CallTick 0)
  | TickDel _ => 1
  | HShut0 => 6 + n * cmc_w_shutkey
  | HShut keys => 4 + nlen keys * cmc_w_shutkey
  | HCloseIn => 3 | HCloseOut => 2 | HCloseAck => 1
  | CBegin => 6 | CLock => 5 | CSet => 4 | CCloseSyn => 3 | CWait => 2 | CUnlock => 1
  end%N.

Definition cmc_w_stack (n : N) (k : list cmc_op) : N := fold_right (fun o r => cmc_w_op n o + r)%N 0%N k.

Definition cmc_w_hpc (h : cmc_hpc) : N :=
  match h with ENone => 0 | ESel => 3 | ESend _ _ => 4 + cmc_w_msg_in | EStop => 2 | EAck => 1 end%N.

Definition cmc_rank (s : cmc_state) : N :=
  let n := nlen (cs_reg s) in
  (cmc_w_stack n (cs_h s) + cmc_w_stack n (cs_c s)
   + fold_right (fun k r => cmc_w_stack n k + r) 0 (cs_cl s)
   + fold_right (fun x r => cmc_w_hpc (ce_h x) + r) 0 (cs_els s)
   + fold_right (fun ad r => nlen (ca_chan ad) * cmc_w_msg_chan + r) 0 (cs_ads s)
   + nlen (cs_in s) * cmc_w_msg_in
   + N.of_nat (cs_ticks s) * (3 + n * cmc_w_tickkey)
   + match cs_err s with None => 1 | Some _ => 0 end)%N.      (* the step into the error state *)

(* ---------- boolean equality of states (for the explorer's visited set) ---------- *)
Definition cmc_caller_eqb (x y : cmc_caller) : bool :=
  match x, y with
  | CallReg a, CallReg b => a =? b
  | CallTick a, CallTick b => a =? b
  | _, _ => false
  end.

Definition cmc_op_eqb (x y : cmc_op) : bool :=
  match x, y with
  | RegLock a, RegLock a' => a =? a'
  | RegChk a, RegChk a' => a =? a'
  | RegLoad a, RegLoad a' => a =? a'
  | RegActive a e, RegActive a' e' => (a =? a') && (e =? e')
  | Act0 c e, Act0 c' e' => cmc_caller_eqb c c' && (e =? e')
  | Act1 c e, Act1 c' e' => cmc_caller_eqb c c' && (e =? e')
  | Act2 c e, Act2 c' e' => cmc_caller_eqb c c' && (e =? e')
  | Act3 c e r, Act3 c' e' r' => cmc_caller_eqb c c' && (e =? e') && (r =? r')
  | Act4 c e o r, Act4 c' e' o' r' => cmc_caller_eqb c c' && (e =? e') && Bool.eqb o o' && Bool.eqb r r'
  | RegStore a e, RegStore a' e' => (a =? a') && (e =? e')
  | RegLock2 a, RegLock2 a' => a =? a'
  | RegChk2 a, RegChk2 a' => a =? a'
  | UnrLoad a, UnrLoad a' => a =? a'
  | Deact0 a e, Deact0 a' e' => (a =? a') && (e =? e')
  | Deact1 a e, Deact1 a' e' => (a =? a') && (e =? e')
  | Deact2 a e, Deact2 a' e' => (a =? a') && (e =? e')
  | Deact3 a e, Deact3 a' e' => (a =? a') && (e =? e')
  | Deact4 a e, Deact4 a' e' => (a =? a') && (e =? e')
  | Deact5 a e, Deact5 a' e' => (a =? a') && (e =? e')
  | Deact6 a e, Deact6 a' e' => (a =? a') && (e =? e')
  | UnrDel a, UnrDel a' => a =? a'
  | HSel, HSel => true
  | HFwd, HFwd => true
  | HTick0, HTick0 => true
  | HTick l, HTick l' => list_eqb Nat.eqb l l'
  | HTickAct a e, HTickAct a' e' => (a =? a') && (e =? e')
  | TickDel a, TickDel a' => a =? a'
  | HShut0, HShut0 => true
  | HShut l, HShut l' => list_eqb Nat.eqb l l'
  | HCloseIn, HCloseIn => true
  | HCloseOut, HCloseOut => true
  | HCloseAck, HCloseAck => true
  | CBegin, CBegin => true
  | CLock, CLock => true
  | CSet, CSet => true
  | CCloseSyn, CCloseSyn => true
  | CWait, CWait => true
  | CUnlock, CUnlock => true
  | _, _ => false
  end.

Definition cmc_hpc_eqb (x y : cmc_hpc) : bool :=
  match x, y with
  | ENone, ENone => true
  | ESel, ESel => true
  | ESend d a, ESend d' a' => Bool.eqb d d' && (a =? a')
  | EStop, EStop => true
  | EAck, EAck => true
  | _, _ => false
  end.

Definition cmc_elem_eqb (x y : cmc_elem) : bool :=
  (ce_conv x =? ce_conv y) && (ce_ttl x =? ce_ttl y)%Z && Bool.eqb (ce_mu x) (ce_mu y)
  && Bool.eqb (ce_syn x) (ce_syn y) && Bool.eqb (ce_ack x) (ce_ack y) && cmc_hpc_eqb (ce_h x) (ce_h y).

Definition cmc_adp_eqb (x y : cmc_adp) : bool :=
  Bool.eqb (ca_perm x) (ca_perm y) && Bool.eqb (ca_started x) (ca_started y) && list_eqb Bool.eqb (ca_chan x) (ca_chan y).

Definition cmc_err_eqb (x y : cmc_err) : bool :=
  match x, y with
  | ErrDoubleStart a, ErrDoubleStart b => a =? b
  | ErrCloseStopped a, ErrCloseStopped b => a =? b
  | ErrCloseClosed a, ErrCloseClosed b => a =? b
  | ErrSendClosed a, ErrSendClosed b => a =? b
  | ErrUnlock, ErrUnlock => true
  | _, _ => false
  end.

Definition cmc_msg_eqb (x y : bool * nat) : bool := Bool.eqb (fst x) (fst y) && (snd x =? snd y).

Definition cmc_state_eqb (x y : cmc_state) : bool :=
  list_eqb cmc_op_eqb (cs_h x) (cs_h y) && list_eqb cmc_op_eqb (cs_c x) (cs_c y)
  && list_eqb (list_eqb cmc_op_eqb) (cs_cl x) (cs_cl y)
  && list_eqb cmc_elem_eqb (cs_els x) (cs_els y)
  && list_eqb (option_eqb Nat.eqb) (cs_reg x) (cs_reg y)
  && list_eqb cmc_adp_eqb (cs_ads x) (cs_ads y)
  && Bool.eqb (cs_flag x) (cs_flag y) && Bool.eqb (cs_sfm x) (cs_sfm y)
  && Bool.eqb (cs_syn x) (cs_syn y) && Bool.eqb (cs_ack x) (cs_ack y)
  && list_eqb cmc_msg_eqb (cs_in x) (cs_in y)
  && Bool.eqb (cs_in_closed x) (cs_in_closed y) && Bool.eqb (cs_out_closed x) (cs_out_closed y)
  && (cs_ticks x =? cs_ticks y) && option_eqb cmc_err_eqb (cs_err x) (cs_err y).

(* ---------- a key of states for the visited set: a bit string (any function would do: soundness of the
   explorer does not depend on it, states with equal keys share a bucket and are told apart by cmc_state_eqb) ---------- *)
Definition cmc_hb (b : bool) (p : positive) : positive := if b then xI p else xO p.
Definition cmc_h4 (n : nat) (p : positive) : positive :=
  match n with
  | 0 => xO (xO p) | 1 => xI (xO p) | 2 => xO (xI p) | _ => xI (xI p)
  end.
Definition cmc_h8 (n : nat) (p : positive) : positive :=
  match n with
  | 0 => xO (xO (xO p)) | 1 => xI (xO (xO p)) | 2 => xO (xI (xO p)) | 3 => xI (xI (xO p))
  | 4 => xO (xO (xI p)) | 5 => xI (xO (xI p)) | 6 => xO (xI (xI p)) | _ => xI (xI (xI p))
  end.
Definition cmc_hcaller (c : cmc_caller) (p : positive) : positive :=
  match c with CallReg a => xO (cmc_h4 a p) | CallTick a => xI (cmc_h4 a p) end.
Definition cmc_hop (o : cmc_op) (p : positive) : positive :=
  match o with
  | RegLock a => cmc_h8 0 (cmc_h8 0 (cmc_h4 a p))
  | RegChk a => cmc_h8 0 (cmc_h8 1 (cmc_h4 a p))
  | RegLoad a => cmc_h8 0 (cmc_h8 2 (cmc_h4 a p))
  | RegActive a e => cmc_h8 0 (cmc_h8 3 (cmc_h4 a (cmc_h8 e p)))
  | Act0 c e => cmc_h8 0 (cmc_h8 4 (cmc_hcaller c (cmc_h8 e p)))
  | Act1 c e => cmc_h8 0 (cmc_h8 5 (cmc_hcaller c (cmc_h8 e p)))
  | Act2 c e => cmc_h8 0 (cmc_h8 6 (cmc_hcaller c (cmc_h8 e p)))
  | Act3 c e r => cmc_h8 0 (cmc_h8 7 (cmc_hcaller c (cmc_h8 e (cmc_h4 r p))))
  | Act4 c e o r => cmc_h8 1 (cmc_h8 0 (cmc_hcaller c (cmc_h8 e (cmc_hb o (cmc_hb r p)))))
  | RegStore a e => cmc_h8 1 (cmc_h8 1 (cmc_h4 a (cmc_h8 e p)))
  | RegLock2 a => cmc_h8 1 (cmc_h8 2 (cmc_h4 a p))
  | RegChk2 a => cmc_h8 1 (cmc_h8 3 (cmc_h4 a p))
  | UnrLoad a => cmc_h8 1 (cmc_h8 4 (cmc_h4 a p))
  | Deact0 a e => cmc_h8 1 (cmc_h8 5 (cmc_h4 a (cmc_h8 e p)))
  | Deact1 a e => cmc_h8 1 (cmc_h8 6 (cmc_h4 a (cmc_h8 e p)))
  | Deact2 a e => cmc_h8 1 (cmc_h8 7 (cmc_h4 a (cmc_h8 e p)))
  | Deact3 a e => cmc_h8 2 (cmc_h8 0 (cmc_h4 a (cmc_h8 e p)))
  | Deact4 a e => cmc_h8 2 (cmc_h8 1 (cmc_h4 a (cmc_h8 e p)))
  | Deact5 a e => cmc_h8 2 (cmc_h8 2 (cmc_h4 a (cmc_h8 e p)))
  | Deact6 a e => cmc_h8 2 (cmc_h8 3 (cmc_h4 a (cmc_h8 e p)))
  | UnrDel a => cmc_h8 2 (cmc_h8 4 (cmc_h4 a p))
  | HSel => cmc_h8 2 (cmc_h8 5 p)
  | HFwd => cmc_h8 2 (cmc_h8 6 p)
  | HTick0 => cmc_h8 2 (cmc_h8 7 p)
  | HTick l => cmc_h8 3 (cmc_h8 0 (cmc_h4 (length l) p))
  | HTickAct a e => cmc_h8 3 (cmc_h8 1 (cmc_h4 a (cmc_h8 e p)))
  | TickDel a => cmc_h8 3 (cmc_h8 2 (cmc_h4 a p))
  | HShut0 => cmc_h8 3 (cmc_h8 3 p)
  | HShut l => cmc_h8 3 (cmc_h8 4 (cmc_h4 (length l) p))
  | HCloseIn => cmc_h8 3 (cmc_h8 5 p)
  | HCloseOut => cmc_h8 3 (cmc_h8 6 p)
  | HCloseAck => cmc_h8 3 (cmc_h8 7 p)
  | CBegin => cmc_h8 4 (cmc_h8 0 p)
  | CLock => cmc_h8 4 (cmc_h8 1 p)
  | CSet => cmc_h8 4 (cmc_h8 2 p)
  | CCloseSyn => cmc_h8 4 (cmc_h8 3 p)
  | CWait => cmc_h8 4 (cmc_h8 4 p)
  | CUnlock => cmc_h8 4 (cmc_h8 5 p)
  end.
(* a stack: its two topmost operations and the number of the others *)
Definition cmc_hstack (k : list cmc_op) (p : positive) : positive :=
  match k with
  | [] => xO p
  | o :: [] => xI (xO (cmc_hop o p))
  | o :: o2 :: r => xI (xI (cmc_hop o (cmc_hop o2 (cmc_h4 (length r) p))))
  end.
Definition cmc_hhpc (h : cmc_hpc) (p : positive) : positive :=
  match h with
  | ENone => cmc_h8 0 p | ESel => cmc_h8 1 p | ESend d a => cmc_h8 2 (cmc_hb d p)
  | EStop => cmc_h8 3 p | EAck => cmc_h8 4 p
  end.
Definition cmc_hz (z : Z) (p : positive) : positive :=
  match z with
  | Z0 => cmc_h4 0 p | Zneg _ => cmc_h4 1 p | Zpos 1 => cmc_h4 2 p
  | Zpos (xO _) => cmc_h4 3 (xO p) | Zpos (xI _) => cmc_h4 3 (xI p)
  end.
Definition cmc_helem (x : cmc_elem) (p : positive) : positive :=
  cmc_hz (ce_ttl x) (cmc_hb (ce_mu x) (cmc_hb (ce_syn x) (cmc_hb (ce_ack x) (cmc_hhpc (ce_h x) p)))).
Definition cmc_hadp (x : cmc_adp) (p : positive) : positive :=
  cmc_hb (ca_started x) (cmc_h4 (length (ca_chan x)) p).
Definition cmc_hreg (r : option nat) (p : positive) : positive :=
  match r with None => xO p | Some e => xI (cmc_h8 e p) end.
Definition cmc_hash (s : cmc_state) : positive :=
  cmc_hstack (cs_h s) (cmc_hstack (cs_c s)
   (fold_right cmc_hstack
     (fold_right cmc_helem
       (fold_right cmc_hreg
         (fold_right cmc_hadp
            (cmc_hb (cs_flag s) (cmc_hb (cs_sfm s) (cmc_hb (cs_syn s) (cmc_hb (cs_ack s)
               (cmc_h4 (length (cs_in s)) (cmc_hb (cs_in_closed s) (cmc_hb (cs_out_closed s)
                  (cmc_h4 (cs_ticks s) (match cs_err s with None => xH | Some _ => xO xH end)))))))))
            (cs_ads s))
         (cs_reg s))
       (cs_els s))
     (cs_cl s))).

(* ---------- a generic explorer: depth-first search with a visited set, driven by N.iter ---------- *)
Module cmc_PM := FMapPositive.PositiveMap.

Section CmcExplore.
  Variable St : Type.
  Variable eqb : St -> St -> bool.
  Variable hash : St -> positive.
  (* [expand s] = None if s fails the per-state check, else all successors of s *)
  Variable expand : St -> option (list St).

  Definition cmc_vset := cmc_PM.t (list St).
  Definition cmc_vmem_h (h : positive) (s : St) (v : cmc_vset) : bool :=
    match cmc_PM.find h v with Some b => existsb (eqb s) b | None => false end.
  Definition cmc_vadd_h (h : positive) (s : St) (v : cmc_vset) : cmc_vset :=
    cmc_PM.add h (s :: match cmc_PM.find h v with Some b => b | None => [] end) v.
  Definition cmc_vmem (s : St) (v : cmc_vset) : bool := cmc_vmem_h (hash s) s v.
  Definition cmc_vadd (s : St) (v : cmc_vset) : cmc_vset := cmc_vadd_h (hash s) s v.

  Record cmc_ex := { ex_stack : list St; ex_vis : cmc_vset; ex_bad : option St; ex_count : N }.

  Definition cmc_ex_step (x : cmc_ex) : cmc_ex :=
    match ex_bad x with
    | Some _ => x
    | None =>
        match ex_stack x with
        | [] => x
        | s :: r =>
            let h := hash s in
            if cmc_vmem_h h s (ex_vis x) then {| ex_stack := r; ex_vis := ex_vis x; ex_bad := None; ex_count := ex_count x |}
            else match expand s with
                 | Some succ => {| ex_stack := succ ++ r; ex_vis := cmc_vadd_h h s (ex_vis x); ex_bad := None; ex_count := N.succ (ex_count x) |}
                 | None => {| ex_stack := r; ex_vis := ex_vis x; ex_bad := Some s; ex_count := ex_count x |}
                 end
        end
    end.

  Definition cmc_ex_done (x : cmc_ex) : bool :=
    match ex_bad x, ex_stack x with None, _ :: _ => false | _, _ => true end.

  (* at most 2^(size of fuel) steps, stopping as soon as nothing is left to do *)
  Fixpoint cmc_ex_run (fuel : positive) (x : cmc_ex) : cmc_ex :=
    if cmc_ex_done x then x
    else match fuel with
         | xH => cmc_ex_step x
         | xO f => cmc_ex_run f (cmc_ex_run f x)
         | xI f => cmc_ex_step (cmc_ex_run f (cmc_ex_run f x))
         end.

  Definition cmc_explore (fuel : positive) (inits : list St) : cmc_ex :=
    cmc_ex_run fuel {| ex_stack := inits; ex_vis := cmc_PM.empty _; ex_bad := None; ex_count := 0 |}.

  (* the exploration finished (nothing left to visit) without a failing state *)
  Definition cmc_explore_ok (fuel : positive) (inits : list St) : bool :=
    let x := cmc_explore fuel inits in
    match ex_bad x, ex_stack x with None, [] => true | _, _ => false end.
End CmcExplore.

(* ---------- the per-state check of the C16 clauses ---------- *)
(* s is fine if: no error; if nothing is enabled then every thread has returned (no deadlock, Close()
   returned) and nothing is left running or listed.  (Termination is not checked here: cmc_rank decreases
   in every step of every state, ClaMgrConcProofs.cmc_step_rank.) *)
Definition cmc_expand (sw : cmc_sw) (p : cmc_par) (s : cmc_state) : option (list cmc_state) :=
  if cmc_no_err s then
    match cmc_succs sw p s with
    | [] => if cmc_all_done s && cmc_all_stopped s then Some [] else None
    | succ => Some succ
    end
  else None.

Definition cmc_check_cfg (sw : cmc_sw) (fuel : positive) (c : cmc_cfg) : bool :=
  cmc_explore_ok cmc_state cmc_state_eqb cmc_hash (cmc_expand sw (cf_par c)) fuel [cmc_init c].

(* search for a state satisfying [bad] (for the refutations): explore, failing at the first bad state *)
Definition cmc_find (sw : cmc_sw) (bad : cmc_state -> bool) (fuel : positive) (c : cmc_cfg) : option cmc_state :=
  ex_bad _ (cmc_explore cmc_state cmc_state_eqb cmc_hash
              (fun s => if bad s then None else Some (cmc_succs sw (cf_par c) s)) fuel [cmc_init c]).

(* ---------- the bound of the C16 theorems, and its slices (explored in parallel files) ---------- *)
(* at most 2 adapters, 1 client call, 1 waiting status message, 1 retry tick, a pending adapter's ttl 0 or 1,
   the permanent flag varied for pending adapters only (the ttl of the others stays far from 0 within these
   bounds, so the flag is never looked at);
   or at most 1 adapter (permanent or not, whatever its state), 3 client calls, 1 message, 1 tick, ttl 0 or 1 *)
Definition cmc_perm_pending_only (c : cmc_cfg) : bool :=
  forallb (fun a => negb (ac_perm a) || match ac_init a with APending _ => true | _ => false end) (cf_ads c).
Definition cmc_c16_bound (c : cmc_cfg) : bool :=
  (cmc_in_bound 2 1 1 1 1 c && cmc_perm_pending_only c) || cmc_in_bound 1 3 1 1 1 c.

Definition cmc_ainit_code (i : cmc_ainit) : nat := match i with AAbsent => 0 | AStarted => 1 | APending t => 2 + t end.
Definition cmc_acfg_code (a : cmc_acfg) : nat :=
  cmc_ainit_code (ac_init a) + (if ac_perm a then 5 else 0) + fold_right (fun (d : bool) r => (if d then 1 else 2) + 3 * r) 0 (ac_msgs a).
Definition cmc_cop_code (o : cmc_cop) : nat :=
  match o with CoReg a => 3 * a | CoUnreg a => 3 * a + 1 | CoRestart a => 3 * a + 2 end.
Definition cmc_cfg_code (c : cmc_cfg) : nat :=
  fold_right (fun a r => (cmc_acfg_code a + 3 * r) mod 64) 0 (cf_ads c)
  + fold_right (fun o r => (cmc_cop_code o + 5 * r) mod 64) 0 (cf_ops c) + cf_ticks c.
Definition cmc_slice (n i : nat) (l : list cmc_cfg) : list cmc_cfg := filter (fun c => cmc_cfg_code c mod n =? i) l.

Definition cmc_fuel : positive := 134217728.   (* the exploration makes at most 2^28 steps *)
Definition cmc_fam1 : list cmc_cfg := filter cmc_perm_pending_only (cmc_family 2 1 1 1 1).
Definition cmc_fam2 : list cmc_cfg := cmc_family 1 3 1 1 1.
