(* SpecMtcp.v - constants of the MTCP draft / BBC receive path the C12 model is written against. *)
From Coq Require Import ZArith List.
Import ListNotations.
Open Scope Z_scope.

Definition mtcp_probe_len : Z := 0.       (* Send ends with a zero-length byte string *)
Definition mtcp_skip_len : Z := 0.        (* the server skips zero-length byte strings *)
Definition mtcp_keepalive_s : Z := 5.     (* keep-alive period (seconds), zero-length byte string *)

Definition bbc_queue_cap : Z := 64.       (* capacity of Connector.fragmentOut / failTransmission / reportChan *)

(* go/token codes of the comparison operators the model's branches mirror *)
Definition tok_eql : Z := 39.   (* == *)
Definition tok_neq : Z := 44.   (* != *)
Definition tok_leq : Z := 45.   (* <= *)
Definition tok_sub : Z := 13.   (* - *)
Definition tok_mul : Z := 14.   (* * *)
Definition tok_not : Z := 1043. (* unary ! *)
Definition tok_recv : Z := 1036. (* unary <- *)
Definition tok_addr : Z := 1017. (* unary & *)
