(* SpecBuilder.v - literal / operator shapes of the builder functions the model Builder.v is written
   against (compared with the shapes regenerated from the Go source in Proofs/ConstsOkBuilder.v). *)
From Coq Require Import ZArith List.
Import ListNotations.
Open Scope Z_scope.

Definition sb_Builder_lits : list Z := [2].
Definition sb_Builder_ops : list Z := [1017].
Definition sb_Build_lits : list Z := [].
Definition sb_Build_ops : list Z := [44; 39; 35; 39; 39; 39].
Definition sb_creationTimestamp_lits : list Z := [0].
Definition sb_creationTimestamp_ops : list Z := [39].
Definition sb_Canonical_lits : list Z := [0; 0; 1; 0; 2; 0; 1; 1; 0; 1].
Definition sb_Canonical_ops : list Z := [44; 39; 1043; 34; 39; 2037; 39; 2037].
Definition sb_canonicalParseFlags_lits : list Z := [2; 1].
Definition sb_canonicalParseFlags_ops : list Z := [39; 1043].
Definition sb_BundleAgeBlock_lits : list Z := [0].
Definition sb_BundleAgeBlock_ops : list Z := [44; 44; 18].
Definition sb_HopCountBlock_lits : list Z := [0].
Definition sb_HopCountBlock_ops : list Z := [44; 1043; 18].
Definition sb_PayloadBlock_lits : list Z := [0; 0; 1].
Definition sb_PayloadBlock_ops : list Z := [39; 1017; 44].
Definition sb_PreviousNodeBlock_lits : list Z := [0].
Definition sb_PreviousNodeBlock_ops : list Z := [44; 44; 18].
Definition sb_AdministrativeRecord_lits : list Z := [].
Definition sb_AdministrativeRecord_ops : list Z := [44; 44; 1019; 18; 18; 18; 3029; 3028].
Definition sb_Less_lits : list Z := [].
Definition sb_Less_ops : list Z := [39; 39; 40].
Definition sb_PrimarySetCRCType_lits : list Z := [].
Definition sb_PrimarySetCRCType_ops : list Z := [39].
Definition sb_NewBundle_ops : list Z := [].
Definition sb_MustNewBundle_ops : list Z := [].
Definition sb_BundleSetCRCType_ops : list Z := [].
