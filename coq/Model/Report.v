(* Report.v - executable model of status reporting in pkg/routing (core.go SendStatusReport,
   processing.go receive / transmit / dispatching / forward / localDelivery / bundleDeletion) and
   of bpv7.NewStatusReport: which events happen to ONE bundle while the Core processes it once,
   and which status reports the Core emits, in the order of the code.
   Everything the Go runtime / the routing algorithm decides enters through [rinput]
   (is the ID already known, the clock, may the algorithm dispatch, the outcome of every send,
   deleteAfterwards).  The CBOR form of the report is not modelled here (fields only).
   The model is the code AFTER the fix "delivery report only after a successful hand-over". *)
From DTN Require Import Base Cbor Eid Bundle.
Open Scope N_scope.

(* status information positions, reason codes, lifetime of a report bundle ("60m") *)
Definition SP_RECEIVED : N := 0.
Definition SP_FORWARDED : N := 1.
Definition SP_DELIVERED : N := 2.
Definition SP_DELETED : N := 3.
Definition RR_NOINFO : N := 0.
Definition RR_EXPIRED : N := 1.
Definition RR_HOPLIMIT : N := 9.
Definition RR_UNSUPPORTED : N := 11.
Definition RP_LIFETIME : N := 3600000.

(* the node: its ID, the endpoints of the registered application agents (exact match), the
   endpoint IDs registered for listening CLAs (matched by authority only, cla.Manager.HasEndpoint) *)
Record renv := { rn_node : eid; rn_agents : list eid; rn_clas : list eid }.

Definition rp_authority (e : eid) : list N :=
  match e with
  | DtnNone => str_none
  | Dtn n _ => n
  | Ipn n _ => dec_digits n
  end.

(* Core.HasEndpoint (without the ConvergenceReceivers, of which the harness has none) *)
Definition rp_has_endpoint (env : renv) (x : eid) : bool :=
  eid_same_node (rn_node env) x
  || existsb (eid_eqb x) (rn_agents env)
  || existsb (fun c => bytes_eqb (rp_authority c) (rp_authority x)) (rn_clas env).

(* AgentManager.HasEndpoint: some agent listens on exactly this endpoint *)
Definition rp_has_agent (env : renv) (x : eid) : bool := existsb (eid_eqb x) (rn_agents env).

(* the fields of an emitted status report bundle *)
Record rp_sreport := {
  rpr_pos : N;                      (* the one asserted status item *)
  rpr_reason : N;
  rpr_flags : N;                    (* bundle processing control flags of the report bundle *)
  rpr_src : eid;
  rpr_dst : eid;
  rpr_life : N;
  sr_ref_src : eid;                (* RefBundle *)
  sr_ref_time : N;
  sr_ref_seq : N;
  sr_ref_frag : option (N * N);
  rpr_time : option N }.            (* time of the asserted item, only when requested *)

(* what happens to the bundle in one pass through the Core *)
Inductive event :=
| EvReceived                              (* accepted as a new bundle from a convergence layer *)
| EvDuplicate                             (* ID already known: dropped without processing *)
| EvUnknownBlock (idx : nat) (bflags : N) (* a canonical block of an unregistered type was met *)
| EvBlockRemoved (idx : nat)
| EvNotDispatched                         (* routing algorithm refused dispatching *)
| EvSend (ok : bool)                      (* one ConvergenceSender.Send and its outcome *)
| EvForwarded                             (* at least one send succeeded *)
| EvAllSendsFailed                        (* no send succeeded (or nobody to send to) *)
| EvDelivered                             (* handed over to an application agent *)
| EvDeliverFailed                         (* local destination, but no agent took it *)
| EvDeleted (reason : N)                  (* bundleDeletion *)
| EvReleased                              (* constraints purged after forwarding / delivery *)
| EvContraindicated.                      (* kept for a later retry *)

Inductive item := IEv (e : event) | IRep (r : rp_sreport).

Record rinput := {
  i_kind : N;               (* 0 received from a CLA, 1 SendBundle (local origin), 2 retried from the store *)
  i_receiver : eid;         (* BundleDescriptor.Receiver *)
  i_known : bool;           (* received: descriptor already has constraints *)
  i_bundle : bundle;
  i_now : N;                (* DTN time in ms *)
  i_age_add : N;            (* what UpdateBundleAge adds to a bundle age block *)
  i_dispatch_ok : bool;     (* Algorithm.DispatchingAllowed *)
  i_load_ok : bool;         (* BundleDescriptor.Bundle(): a retried bundle could be loaded from the store
                               (parsing re-validates it: an expired bundle does not load) *)
  i_admin_ok : bool;        (* checkAdministrativeRecord: payload parses as an administrative record *)
  i_sends : list bool;      (* outcome of each Send, in order *)
  i_delete_after : bool }.  (* direct delivery or the algorithm's deleteAfterwards *)

(* Core.SendStatusReport + bpv7.NewStatusReport + the Builder call *)
Definition rp_ssr (env : renv) (rcv : eid) (b : bundle) (now pos reason : N) : list item :=
  let p := b_pri b in
  if has (p_flags p) F_ADMIN then [] else
  if rp_has_endpoint env (p_rpt p) then [] else
  let aa := if eid_eqb rcv DtnNone then rn_node env else rcv in
  if negb (rp_has_endpoint env aa) && negb (eid_eqb aa (rn_node env)) then [] else
  [IRep {| rpr_pos := pos; rpr_reason := reason; rpr_flags := F_ADMIN; rpr_src := aa; rpr_dst := p_rpt p;
           rpr_life := RP_LIFETIME;
           sr_ref_src := p_src p; sr_ref_time := p_time p; sr_ref_seq := p_seq p;
           sr_ref_frag := if has (p_flags p) F_FRAG then Some (p_off p, p_total p) else None;
           rpr_time := if has (p_flags p) F_TIME then Some now else None |}].

(* Core.bundleDeletion *)
Definition rp_deletion (env : renv) (rcv : eid) (b : bundle) (now reason : N) : list item :=
  IEv (EvDeleted reason)
  :: (if has (p_flags (b_pri b)) F_DELETION then rp_ssr env rcv b now SP_DELETED reason else []).

(* the loop over the canonical blocks in Core.receive, from the last block to the first;
   the boolean tells whether the bundle was deleted (the loop returns) *)
Fixpoint rp_unknown_loop (env : renv) (rcv : eid) (b : bundle) (now : N) (l : list (nat * cblock))
  : list item * bool :=
  match l with
  | [] => ([], false)
  | (i, c) :: l' =>
      if known_type (c_type c) then rp_unknown_loop env rcv b now l' else
      let it1 := IEv (EvUnknownBlock i (c_flags c))
                 :: (if has (c_flags c) BF_REPORT then rp_ssr env rcv b now SP_RECEIVED RR_UNSUPPORTED else []) in
      if has (c_flags c) BF_DELETE then (it1 ++ rp_deletion env rcv b now RR_UNSUPPORTED, true)
      else
        let '(its, d) := rp_unknown_loop env rcv b now l' in
        (it1 ++ (if has (c_flags c) BF_REMOVE then [IEv (EvBlockRemoved i)] else []) ++ its, d)
  end.

Definition rp_indexed (bl : list cblock) : list (nat * cblock) := rev (combine (seq 0 (length bl)) bl).

(* HopCountBlock.Increment on a uint8 counter, then IsExceeded *)
Definition rp_hop_exceeded (b : bundle) : bool :=
  match find_type T_HOP (b_blocks b) with
  | Some {| c_val := XHop lim cnt |} => lim <? (cnt + 1) mod 256
  | _ => false
  end.

Definition rp_age_expired (b : bundle) (add : N) : bool :=
  match find_type T_AGE (b_blocks b) with
  | Some {| c_val := XAge a |} => p_life (b_pri b) <=? a + add
  | _ => false
  end.

(* Core.forward *)
Definition rp_forward (env : renv) (inp : rinput) : list item :=
  let b := i_bundle inp in
  let rcv := i_receiver inp in
  let now := i_now inp in
  if rp_hop_exceeded b then rp_deletion env rcv b now RR_HOPLIMIT else
  if lifetime_exceeded now b then rp_deletion env rcv b now RR_EXPIRED else
  if rp_age_expired b (i_age_add inp) then rp_deletion env rcv b now RR_EXPIRED else
  map (fun ok => IEv (EvSend ok)) (i_sends inp)
  ++ (if existsb (fun ok => ok) (i_sends inp) then
        IEv EvForwarded
        :: (if has (p_flags (b_pri b)) F_FORWARD then rp_ssr env rcv b now SP_FORWARDED RR_NOINFO else [])
        ++ [IEv (if i_delete_after inp then EvReleased else EvContraindicated)]
      else [IEv EvAllSendsFailed; IEv EvContraindicated]).

(* Core.localDelivery (after the fix: the delivery report is sent only when Deliver returned nil) *)
Definition rp_local (env : renv) (inp : rinput) : list item :=
  let b := i_bundle inp in
  let rcv := i_receiver inp in
  let now := i_now inp in
  if has (p_flags (b_pri b)) F_ADMIN && negb (i_admin_ok inp) then rp_deletion env rcv b now RR_NOINFO else
  if rp_has_agent env (p_dst (b_pri b)) then
    IEv EvDelivered
    :: (if has (p_flags (b_pri b)) F_DELIVERY then rp_ssr env rcv b now SP_DELIVERED RR_NOINFO else [])
    ++ [IEv EvReleased]
  else [IEv EvDeliverFailed; IEv EvReleased].

(* Core.dispatching *)
Definition rp_dispatch (env : renv) (inp : rinput) : list item :=
  if negb (i_dispatch_ok inp) then [IEv EvNotDispatched] else
  if negb (i_load_ok inp) then [] else
  if rp_has_endpoint env (p_dst (b_pri (i_bundle inp))) then rp_local env inp else rp_forward env inp.

(* one pass of the Core over one bundle: receive / transmit / retry from the store *)
Definition rp_process (env : renv) (inp : rinput) : list item :=
  let b := i_bundle inp in
  let rcv := i_receiver inp in
  let now := i_now inp in
  if i_kind inp =? 0 then
    if i_known inp then [IEv EvDuplicate] else
    let '(its, deleted) := rp_unknown_loop env rcv b now (rp_indexed (b_blocks b)) in
    IEv EvReceived
    :: (if has (p_flags (b_pri b)) F_RECEPTION then rp_ssr env rcv b now SP_RECEIVED RR_NOINFO else [])
    ++ its ++ (if deleted then [] else rp_dispatch env inp)
  else if i_kind inp =? 1 then
    let src := p_src (b_pri b) in
    if negb (eid_eqb src DtnNone) && negb (rp_has_endpoint env src)
    then rp_deletion env rcv b now RR_NOINFO
    else rp_dispatch env inp
  else rp_dispatch env inp.

Definition rp_events (l : list item) : list event :=
  flat_map (fun i => match i with IEv e => [e] | IRep _ => [] end) l.
Definition rp_reports (l : list item) : list rp_sreport :=
  flat_map (fun i => match i with IRep r => [r] | IEv _ => [] end) l.

(* the bundle a report travels in (Builder: flags = administrative record only, report-to defaults to the
   source, sequence number and payload bytes are free here) *)
Definition rp_report_bundle (r : rp_sreport) (now seq : N) (payload : list N) : bundle :=
  {| b_pri := {| p_flags := rpr_flags r; p_crc := 0; p_dst := rpr_dst r; p_src := rpr_src r; p_rpt := rpr_src r;
                 p_time := now; p_seq := seq; p_life := rpr_life r; p_off := 0; p_total := 0 |};
     b_blocks := [ {| c_num := 1; c_flags := 0; c_crc := 0; c_val := XPayload payload |} ] |}.

(* ------------------------------------------------------------------------------------------
   The property's own checker: judges ONE observed report about bundle [b] against what was
   observed to happen to [b] at the node ([facts], from the harness's event log), without the
   model's prediction.  Returns the codes of the violated clauses (empty = fine). *)
Record rfacts := {
  fa_received : bool;     (* the bundle came in from a convergence layer and was processed *)
  fa_sent_ok : bool;      (* some Send of this bundle succeeded *)
  fa_handed : bool;       (* an application agent got this bundle *)
  fa_deleted : bool }.    (* the node dropped the bundle: gone from the store, neither sent nor handed over *)

Definition rp_unknown_report_block (b : bundle) : bool :=
  existsb (fun c => negb (known_type (c_type c)) && has (c_flags c) BF_REPORT) (b_blocks b).

Definition RC_UNTRUE_RECEIVED : N := 1.
Definition RC_UNTRUE_FORWARDED : N := 2.
Definition RC_UNTRUE_DELIVERED : N := 3.
Definition RC_UNTRUE_DELETED : N := 4.
Definition RC_UNREQ_RECEIVED : N := 5.
Definition RC_UNREQ_FORWARDED : N := 6.
Definition RC_UNREQ_DELIVERED : N := 7.
Definition RC_UNREQ_DELETED : N := 8.
Definition RC_SHAPE_FLAGS : N := 9.
Definition RC_SHAPE_DST : N := 10.
Definition RC_SHAPE_REF : N := 11.
Definition RC_SHAPE_TIME : N := 12.
Definition RC_ABOUT_ADMIN : N := 13.
Definition RC_TO_SELF : N := 14.
Definition RC_SHAPE_POS : N := 15.

Definition rp_frag_eqb (a b : option (N * N)) : bool :=
  option_eqb (fun x y => (fst x =? fst y) && (snd x =? snd y)) a b.

Definition rp_when (c : bool) (code : N) : list N := if c then [code] else [].

Definition rp_check (env : renv) (b : bundle) (fa : rfacts) (r : rp_sreport) : list N :=
  let p := b_pri b in
  let f := p_flags p in
  (* truthful and requested *)
  (if rpr_pos r =? SP_RECEIVED then
     rp_when (negb (fa_received fa)) RC_UNTRUE_RECEIVED
     ++ rp_when (negb (if rpr_reason r =? RR_UNSUPPORTED then rp_unknown_report_block b
                       else has f F_RECEPTION)) RC_UNREQ_RECEIVED
   else if rpr_pos r =? SP_FORWARDED then
     rp_when (negb (fa_sent_ok fa)) RC_UNTRUE_FORWARDED ++ rp_when (negb (has f F_FORWARD)) RC_UNREQ_FORWARDED
   else if rpr_pos r =? SP_DELIVERED then
     rp_when (negb (fa_handed fa)) RC_UNTRUE_DELIVERED ++ rp_when (negb (has f F_DELIVERY)) RC_UNREQ_DELIVERED
   else if rpr_pos r =? SP_DELETED then
     rp_when (negb (fa_deleted fa)) RC_UNTRUE_DELETED ++ rp_when (negb (has f F_DELETION)) RC_UNREQ_DELETED
   else [RC_SHAPE_POS])
  (* shape *)
  ++ rp_when (negb (has (rpr_flags r) F_ADMIN) || any_status_request (rpr_flags r)) RC_SHAPE_FLAGS
  ++ rp_when (negb (eid_eqb (rpr_dst r) (p_rpt p))) RC_SHAPE_DST
  ++ rp_when (negb (eid_eqb (sr_ref_src r) (p_src p) && (sr_ref_time r =? p_time p) && (sr_ref_seq r =? p_seq p)
                    && rp_frag_eqb (sr_ref_frag r) (if has f F_FRAG then Some (p_off p, p_total p) else None)))
             RC_SHAPE_REF
  ++ rp_when (negb (Bool.eqb (match rpr_time r with Some _ => true | None => false end) (has f F_TIME))) RC_SHAPE_TIME
  (* no cascade *)
  ++ rp_when (has f F_ADMIN) RC_ABOUT_ADMIN
  ++ rp_when (rp_has_endpoint env (p_rpt p)) RC_TO_SELF.

(* the facts as the model's own event list shows them *)
Definition rp_ev_eqb_recv (e : event) : bool := match e with EvReceived => true | _ => false end.
Definition rp_ev_sent_ok (e : event) : bool := match e with EvSend true => true | _ => false end.
Definition rp_ev_handed (e : event) : bool := match e with EvDelivered => true | _ => false end.
Definition rp_ev_deleted (e : event) : bool := match e with EvDeleted _ => true | _ => false end.
Definition rp_facts_of (evs : list event) : rfacts :=
  {| fa_received := existsb rp_ev_eqb_recv evs; fa_sent_ok := existsb rp_ev_sent_ok evs;
     fa_handed := existsb rp_ev_handed evs; fa_deleted := existsb rp_ev_deleted evs |}.

(* ------------------------------------------------------------------------------------------
   The report on the wire: the administrative record that is the payload of the report bundle
   (NewStatusReport + AdministrativeRecordManager.WriteAdministrativeRecord), in the format of
   AuxCbor.v: [1, [[item, item, item, item], reason, source, [time, seq] (, offset, total length)]].
   The reference bundle ID carries fragment offset and total length - in this order - exactly
   when the bundle is a fragment. *)
From DTN Require Import AuxCbor.

Definition rp_wire_item (r : rp_sreport) (i : N) : sitem :=
  if i =? rpr_pos r
  then {| si_asserted := true; si_time := match rpr_time r with Some t => t | None => 0 end;
          si_req := match rpr_time r with Some _ => true | None => false end |}
  else {| si_asserted := false; si_time := 0; si_req := false |}.

Definition rp_wire_bid (r : rp_sreport) : bid :=
  {| bid_src := sr_ref_src r; bid_time := sr_ref_time r; bid_seq := sr_ref_seq r;
     bid_frag := match sr_ref_frag r with Some _ => true | None => false end;
     bid_off := match sr_ref_frag r with Some (o, _) => o | None => 0 end;
     bid_total := match sr_ref_frag r with Some (_, t) => t | None => 0 end |}.

Definition rp_wire_sreport (r : rp_sreport) : sreport :=
  {| sr_items := map (rp_wire_item r) [0; 1; 2; 3]; sr_reason := rpr_reason r; sr_ref := rp_wire_bid r |}.

Definition rp_wire (r : rp_sreport) : option (list N) := enc_admrec (ARStatus (rp_wire_sreport r)).

(* the ID of a bundle (Bundle.ID(): offset and length only for a fragment) *)
Definition rp_bundle_bid (b : bundle) : bid :=
  let p := b_pri b in
  {| bid_src := p_src p; bid_time := p_time p; bid_seq := p_seq p; bid_frag := has (p_flags p) F_FRAG;
     bid_off := if has (p_flags p) F_FRAG then p_off p else 0;
     bid_total := if has (p_flags p) F_FRAG then p_total p else 0 |}.
