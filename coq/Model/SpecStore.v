(* SpecStore.v - the literal / operator shapes of the storage code the model (Model/Store.v) is
   written against.  Proofs/ConstsOkStore.v proves that the shapes regenerated from the Go sources
   on every run (gen/Consts.v) coincide with these.  Operator codes are go/token values
   (12 +, 18 |, 34 &&, 39 ==, 40 <, 41 >, 44 !=; 1000 + code for unary operators: 1043 !x, 1017 &x). *)
From Coq Require Import ZArith List.
Import ListNotations.
Open Scope Z_scope.

(* directory of the part files: "bndl" *)
Definition store_dir_bundle : list Z := [98; 110; 100; 108].
Definition store_dir_badger : list Z := [100; 98].

(* Store.Push: QueryId err != nil => insert branch; storeBundle err != nil; !biStore.Fragmented;
   part.FragmentOffset == ... && part.TotalDataLength == ...; storeBundle err != nil;  Parts[0] twice *)
Definition store_push_ops : list Z := [44; 44; 1043; 34; 39; 39; 44].
Definition store_push_lits : list Z := [0; 0].
(* Store.Delete: QueryId err == nil; deleteBundle err != nil (logged only) *)
Definition store_delete_ops : list Z := [39; 44].
(* Store.DeleteExpired: &bis; Find err != nil; Delete err != nil *)
Definition store_sweep_ops : list Z := [1017; 44; 44].
(* Store.KnowsBundle: err != ErrNotFound *)
Definition store_knows_ops : list Z := [44].
(* BundleItem.IsComplete: !bi.Fragmented; err == nil && IsBundleReassemblable *)
Definition store_complete_ops : list Z := [1043; 34; 39].
(* BundlePart.storeBundle: os.O_WRONLY|os.O_CREATE (no O_TRUNC), mode 0600; OpenFile err != nil;
   WriteBundle err != nil (then Close) *)
Definition store_file_ops : list Z := [18; 44; 44].
Definition store_file_mode : list Z := [384].
(* bpv7.prepareReassembly (repaired): len == 0; sort by offset <; !IsFragment; fragOff > lastIndex (gap);
   err != nil; fragOff + len; end > lastIndex (running maximum); total != lastIndex *)
Definition reassembly_scan_ops : list Z := [39; 40; 1043; 41; 44; 12; 41; 44].
Definition reassembly_scan_lits : list Z := [0; 0; 0].
(* BundleDescriptor.Bundle: bndl != nil; QueryId err != nil; Parts[0].Load err != nil; &bndl twice; index 0 *)
Definition descriptor_bundle_ops : list Z := [44; 44; 44; 1017; 1017].
Definition descriptor_bundle_lits : list Z := [0].
