(* SentList.v - executable model of the per-bundle `sent` bookkeeping of the replicating routing
   algorithms (pkg/routing/algorithm.go filterCLAs; algorithm_epidemic.go, algorithm_prophet.go,
   algorithm_dtlsr.go (broadcast bundles): store property "routing/<algo>/sent";
   algorithm_spray.go: sprayMetaData.sent in memory; algorithm_sensornetwork.go: the mule wrapper).
   Definitions only.

   The bookkeeping of one bundle does not depend on any other bundle, so the model is the life of
   ONE bundle at the node; peers are numbers (endpoint IDs).

     SlNew prev      NotifyNewBundle on the fresh store item: the previous node (if the bundle has a
                     previous-node block) is the first entry of `sent`
     SlChoose cs k   SenderForBundle: cs = the candidate senders' peer IDs in the order the CLA
                     manager yields them (for PRoPHET: those with a better predictability); every
                     candidate not in `sent` is chosen and appended to `sent` at once (so a second
                     sender of the same peer is skipped), at most k of them (spray budget; binary
                     spray: 1; the others: no limit, k = length cs).  Output: the chosen peers.
     SlOk p          Send to p returned nil
     SlFail p        Send to p failed (or the mule wrapper excluded p): ReportFailure removes the
                     first entry p from `sent`.  Atomic here (the race of two concurrent
                     ReportFailure calls is the subject of C05/C18).
     SlRestart pers  orderly restart; pers = the list is kept in the store (epidemic, PRoPHET,
                     DTLSR); otherwise (spray variants) the metadata is gone and the bundle is
                     never offered by the algorithm again
     SlDrop          the bundle leaves the store *)
From DTN Require Import Base.
Open Scope N_scope.

Record sl_st := { sl_sent : list N; sl_inflight : list N; sl_alive : bool }.

Inductive sl_ev :=
| SlNew (prev : option N)
| SlChoose (cands : list N) (k : nat)
| SlOk (p : N)
| SlFail (p : N)
| SlRestart (pers : bool)
| SlDrop.

Fixpoint sl_mem (p : N) (l : list N) : bool :=
  match l with [] => false | x :: l => (x =? p) || sl_mem p l end.

(* remove the first occurrence (append(sent[:i], sent[i+1:]...); break) *)
Fixpoint sl_remove1 (p : N) (l : list N) : list N :=
  match l with [] => [] | x :: l => if x =? p then l else x :: sl_remove1 p l end.

(* filterCLAs with a budget: (chosen, sent') *)
Fixpoint sl_filter (sent cands : list N) (k : nat) : list N * list N :=
  match cands with
  | [] => ([], sent)
  | c :: cands =>
      match k with
      | O => ([], sent)
      | S k' =>
          if sl_mem c sent then sl_filter sent cands k
          else let (ch, s') := sl_filter (sent ++ [c]) cands k' in (c :: ch, s')
      end
  end.

Definition sl_fresh (prev : option N) : sl_st :=
  {| sl_sent := match prev with Some p => [p] | None => [] end; sl_inflight := []; sl_alive := true |}.

Definition sl_gone : sl_st := {| sl_sent := []; sl_inflight := []; sl_alive := false |}.

Definition sl_step (s : sl_st) (e : sl_ev) : option (sl_st * list N) :=
  match e with
  | SlNew prev => Some (sl_fresh prev, [])
  | SlChoose cands k =>
      match sl_inflight s with
      | _ :: _ => None                       (* forward() waits for every Send before it returns *)
      | [] =>
          if sl_alive s then
            let (ch, s') := sl_filter (sl_sent s) cands k in
            Some ({| sl_sent := s'; sl_inflight := ch; sl_alive := true |}, ch)
          else Some (s, [])
      end
  | SlOk p =>
      if sl_mem p (sl_inflight s)
      then Some ({| sl_sent := sl_sent s; sl_inflight := sl_remove1 p (sl_inflight s); sl_alive := sl_alive s |}, [])
      else None
  | SlFail p =>
      if sl_mem p (sl_inflight s)
      then Some ({| sl_sent := sl_remove1 p (sl_sent s); sl_inflight := sl_remove1 p (sl_inflight s); sl_alive := sl_alive s |}, [])
      else None
  | SlRestart pers =>
      match sl_inflight s with
      | _ :: _ => None
      | [] => Some ({| sl_sent := sl_sent s; sl_inflight := []; sl_alive := sl_alive s && pers |}, [])
      end
  | SlDrop => Some (sl_gone, [])
  end.

Fixpoint sl_run (s : sl_st) (h : list sl_ev) : option sl_st :=
  match h with
  | [] => Some s
  | e :: h => match sl_step s e with Some (s', _) => sl_run s' h | None => None end
  end.

(* the mule wrapper: of the chosen peers, the sensors other than the bundle's receiver are
   reported as failed at once and not sent to *)
Definition sl_mule_excluded (is_sensor : N -> bool) (receiver : option N) (chosen : list N) : list N :=
  filter (fun p => is_sensor p && negb (match receiver with Some r => r =? p | None => false end)) chosen.
