(* Mtcp.v - executable model of pkg/cla/mtcp: the byte stream an MTCPClient writes on its
   connection (Send / keep-alive), the MTCPServer's per-connection read loop, and the outcome of a
   Send when a write on the connection fails.  Bytes are N < 256.  Bundles are opaque byte
   strings here (the bundle codec is another package's concern); the server model is generic in the
   bundle parser. *)
From DTN Require Import Base.
Open Scope N_scope.

(* ---- CBOR head of a byte string (major type 2 = 0x40): cboring.WriteMajors / ReadMajors ---- *)
Definition mtcp_major_bstr : N := 64.          (* cboring.ByteString = 0x40 *)

(* WriteMajors(ByteString, n): minimal width; n is a uint64 *)
Definition mtcp_head (n : N) : list N :=
  if n <? 24 then [mtcp_major_bstr + n]
  else if n <? 256 then (mtcp_major_bstr + 24) :: be_encode 1 n
  else if n <? 65536 then (mtcp_major_bstr + 25) :: be_encode 2 n
  else if n <? 4294967296 then (mtcp_major_bstr + 26) :: be_encode 4 n
  else (mtcp_major_bstr + 27) :: be_encode 8 n.

(* ReadByteStringLen = ReadExpectMajors(ByteString): first byte 0x9f / 0xff are flag errors, major =
   b & 0xE0, additional information 0..23 immediate, 24..27 = 1/2/4/8 following bytes (any width
   accepted, also non-minimal), 28..31 error; the major type is compared after the argument was
   read.  None = error or EOF (the server loop ends either way). *)
Definition mtcp_read_head (s : list N) : option (N * list N) :=
  match s with
  | [] => None
  | b :: r =>
      if (b =? 159) || (b =? 255) then None
      else
        let major := N.land b 224 in
        let adds := N.land b 31 in
        if adds <=? 23 then (if major =? mtcp_major_bstr then Some (adds, r) else None)
        else if adds <=? 27 then
          match take_exact (Nat.pow 2 (N.to_nat (adds - 24))) r with
          | None => None
          | Some (bs, r') => if major =? mtcp_major_bstr then Some (be_decode bs, r') else None
          end
        else None
  end.

(* ---- client ---- *)
(* MTCPClient.Send(bundle): head(len) ++ bundle through a bufio.Writer, Flush, then the zero-length
   probe 0x40 written directly on the connection. *)
Definition mtcp_probe : list N := [mtcp_major_bstr].
Definition mtcp_frame (b : list N) : list N := mtcp_head (nlen b) ++ b ++ mtcp_probe.

Inductive mtcp_ev :=
| MSend (b : list N)      (* Send of a bundle whose CBOR form is b *)
| MKeepalive.             (* ticker: WriteByteStringLen(0) under the client's mutex *)

Definition mtcp_ev_bytes (e : mtcp_ev) : list N :=
  match e with MSend b => mtcp_frame b | MKeepalive => mtcp_probe end.

Definition mtcp_client_stream (evs : list mtcp_ev) : list N := concat (map mtcp_ev_bytes evs).

Fixpoint mtcp_sent (evs : list mtcp_ev) : list (list N) :=
  match evs with
  | [] => []
  | MSend b :: evs => b :: mtcp_sent evs
  | MKeepalive :: evs => mtcp_sent evs
  end.

(* The conn.Write calls one Send performs (bufio.Writer with its default 4096-byte buffer in front of
   the connection): head and bundle are buffered; a bundle that does not fit fills the buffer, which
   is flushed, and the remainder goes out in one further write (directly when larger than the
   buffer, through Flush otherwise); last the probe. *)
Definition mtcp_bufsize : nat := 4096.
Definition mtcp_send_chunks (b : list N) : list (list N) :=
  let h := mtcp_head (nlen b) in
  let avail := (mtcp_bufsize - length h)%nat in
  if Nat.leb (length b) avail then [h ++ b; mtcp_probe]
  else [h ++ firstn avail b; skipn avail b; mtcp_probe].

(* ---- Send on a connection whose writes may fail ---- *)
(* connection state: broken = every further write fails.  [cut] = Some (k, m): the k-th conn.Write of
   this Send fails after m of its bytes went out (m < its length). *)
Record mtcp_send_res := {
  sr_error : bool;             (* Send returned an error *)
  sr_disappeared : bool;       (* a PeerDisappeared status was put on the client's channel *)
  sr_written : list (list N);  (* what reached the connection, write by write *)
  sr_broken : bool             (* connection state afterwards *)
}.

Fixpoint mtcp_write_chunks (chunks : list (list N)) (cut : option (nat * nat)) : list (list N) * bool :=
  match chunks with
  | [] => ([], false)
  | c :: cs =>
      match cut with
      | Some (O, m) => ((if Nat.eqb m 0 then [] else [firstn m c]), true)
      | Some (S k, m) => let '(w, f) := mtcp_write_chunks cs (Some (k, m)) in (c :: w, f)
      | None => let '(w, f) := mtcp_write_chunks cs None in (c :: w, f)
      end
  end.

Definition mtcp_send (broken : bool) (b : list N) (cut : option (nat * nat)) : mtcp_send_res :=
  let '(w, failed) := if broken then ([], true) else mtcp_write_chunks (mtcp_send_chunks b) cut in
  {| sr_error := failed; sr_disappeared := failed; sr_written := w; sr_broken := broken || failed |}.

(* ---- server: handleSender's loop ---- *)
(* [parse n s]: cboring.Unmarshal(bundle) on the stream after a head announcing n bytes: the bundle
   and the rest of the stream (the Go code does not use n: the bundle's own CBOR structure delimits
   it).  Zero-length byte strings are skipped.  Any error / EOF ends the loop. *)
Section Server.
Context {B : Type}.
Variable parse : N -> list N -> option (B * list N).

Fixpoint mtcp_server_loop (fuel : nat) (s : list N) : list B :=
  match fuel with
  | O => []
  | S fuel =>
      match mtcp_read_head s with
      | None => []
      | Some (n, r) =>
          if n =? 0 then mtcp_server_loop fuel r
          else match parse n r with
               | None => []
               | Some (b, r') => b :: mtcp_server_loop fuel r'
               end
      end
  end.

Definition mtcp_server (s : list N) : list B := mtcp_server_loop (S (length s)) s.
End Server.

(* opaque bundles: the parser consumes exactly the announced number of bytes *)
Definition mtcp_parse_opaque (n : N) (s : list N) : option (list N * list N) := take_exact (N.to_nat n) s.
Definition mtcp_server_opaque (s : list N) : list (list N) := mtcp_server mtcp_parse_opaque s.
