(* Tcpcl.v - executable model of the TCPCLv4 bundle transfer of dtn7-go
   (pkg/cla/tcpclv4/internal/utils/transfer_out.go, transfer_in.go, transfer_manager.go).
   Definitions only; proofs are in Proofs/TcpclProofs.v.

   The model describes the code *after* the three repairs
     - END flag by one-byte look-ahead (bufio Peek) when a segment fills the buffer exactly,
     - a segment MTU of zero is rejected,
     - the segment buffer is capped at [tc_max_segment],
   [next_segment_orig] keeps the behaviour of the code before the repairs (used for the
   refutation examples and by the driver to name a regression). *)
From DTN Require Import Base.
Open Scope N_scope.

(* ---- constants (tied to the Go source in Proofs/ConstsOkTcpcl.v via Model/SpecTcpcl.v) ---- *)
Definition tc_seg_end : N := 1.           (* msgs.SegmentEnd *)
Definition tc_seg_start : N := 2.         (* msgs.SegmentStart *)
Definition tc_max_segment : N := 1048576. (* utils.maxSegmentLen: cap of the segment buffer *)
Definition tc_int_limit : N := 9223372036854775808. (* 2^63: make([]byte, n) panics from here on *)

(* ---- messages ---- *)
Record segment := mkSeg { sg_flags : N; sg_tid : N; sg_data : list N }.
Record ack := mkAck { ak_flags : N; ak_tid : N; ak_len : N }.

Definition sg_has_end (s : segment) : bool := N.testbit (sg_flags s) 0.
Definition sg_has_start (s : segment) : bool := N.testbit (sg_flags s) 1.

Definition flags_of (start fin : bool) : N :=
  (if start then tc_seg_start else 0) + (if fin then tc_seg_end else 0).

Definition is_nil {A} (l : list A) : bool := match l with [] => true | _ => false end.

Definition segment_eqb (a b : segment) : bool :=
  (sg_flags a =? sg_flags b) && (sg_tid a =? sg_tid b) && bytes_eqb (sg_data a) (sg_data b).
Definition ack_eqb (a b : ack) : bool :=
  (ak_flags a =? ak_flags b) && (ak_tid a =? ak_tid b) && (ak_len a =? ak_len b).

(* first k / all but the first k elements, with a binary counter (no unary numbers at run time) *)
Fixpoint ntake {A} (k : N) (l : list A) : list A :=
  match l with
  | [] => []
  | x :: r => if k =? 0 then [] else x :: ntake (N.pred k) r
  end.
Fixpoint ndrop {A} (k : N) (l : list A) : list A :=
  match l with
  | [] => []
  | x :: r => if k =? 0 then l else ndrop (N.pred k) r
  end.

(* ---- OutgoingTransfer ---- *)
(* [os_stream] is what is still to be read from the pipe the bundle is marshalled into; the pipe
   reports EOF after the last byte (io.Pipe / bufio semantics are trusted). *)
Record out_state := mkOut { os_tid : N; os_start : bool; os_stream : list N }.

Inductive ns_result :=
| NsSeg (s : segment) (alloc : N) (st : out_state)   (* a segment; [alloc] = size of the buffer made *)
| NsEof (st : out_state)                             (* io.EOF: the transfer is finished *)
| NsErr (st : out_state)                             (* any other error *)
| NsPanic.                                           (* run-time panic in make *)

(* OutgoingTransfer.NextSegment(mtu), repaired code *)
Definition next_segment (m : N) (st : out_state) : ns_result :=
  if m =? 0 then NsErr st else
  let k := N.min m tc_max_segment in
  if tc_int_limit <=? k then NsPanic else
  match os_stream st with
  | [] => NsEof (mkOut (os_tid st) false [])
  | _ =>
    let d := ntake k (os_stream st) in
    let r := ndrop k (os_stream st) in
    (* short read (ErrUnexpectedEOF) or full read followed by Peek = EOF: nothing is left *)
    NsSeg (mkSeg (flags_of (os_start st) (is_nil r)) (os_tid st) d) k (mkOut (os_tid st) false r)
  end.

(* OutgoingTransfer.NextSegment(mtu) before the repairs: END only on a short read, buffer of
   [m] bytes whatever [m] is. *)
Definition next_segment_orig (m : N) (st : out_state) : ns_result :=
  if tc_int_limit <=? m then NsPanic else
  let st1 := mkOut (os_tid st) false (os_stream st) in
  if m =? 0 then NsSeg (mkSeg (flags_of (os_start st) false) (os_tid st) []) 0 st1 else
  match os_stream st with
  | [] => NsEof (mkOut (os_tid st) false [])
  | _ =>
    let d := ntake m (os_stream st) in
    let r := ndrop m (os_stream st) in
    NsSeg (mkSeg (flags_of (os_start st) (nlen (os_stream st) <? m)) (os_tid st) d) m (mkOut (os_tid st) false r)
  end.

Inductive out_end := OtEof | OtErr | OtPanic | OtFuel.

(* the sender's loop: call NextSegment until it does not return a segment *)
Fixpoint out_loop (next : N -> out_state -> ns_result) (fuel : nat) (m : N) (st : out_state)
  : list (segment * N) * out_end :=
  match fuel with
  | O => ([], OtFuel)
  | S f =>
    match next m st with
    | NsSeg s a st' => let r := out_loop next f m st' in ((s, a) :: fst r, snd r)
    | NsEof _ => ([], OtEof)
    | NsErr _ => ([], OtErr)
    | NsPanic => ([], OtPanic)
    end
  end.

Fixpoint segs_loop (fuel : nat) (m : N) (st : out_state) : list segment :=
  match fuel with
  | O => []
  | S f =>
    match next_segment m st with
    | NsSeg s _ st' => s :: segs_loop f m st'
    | _ => []
    end
  end.

Definition out_init (tid : N) (bs : list N) : out_state := mkOut tid true bs.

(* the XFER_SEGMENT sequence of a transfer of [bs] with segment MTU [m] *)
Definition segments (bs : list N) (m tid : N) : list segment :=
  segs_loop (S (length bs)) m (out_init tid bs).

Definition out_run (bs : list N) (m tid : N) : list (segment * N) * out_end :=
  out_loop next_segment (S (length bs)) m (out_init tid bs).
Definition out_run_orig (fuel : nat) (bs : list N) (m tid : N) : list (segment * N) * out_end :=
  out_loop next_segment_orig fuel m (out_init tid bs).

(* ---- IncomingTransfer ---- *)
Record in_state := mkIn { is_tid : N; is_end : bool; is_buf : list N }.
Definition in_init (tid : N) : in_state := mkIn tid false [].

(* IncomingTransfer.NextSegment: None = error *)
Definition in_next (st : in_state) (s : segment) : option (in_state * ack) :=
  if is_end st then None
  else if negb (is_tid st =? sg_tid s) then None
  else
    let buf := is_buf st ++ sg_data s in
    Some (mkIn (is_tid st) (sg_has_end s) buf, mkAck (sg_flags s) (sg_tid s) (nlen buf)).

Fixpoint in_run (st : in_state) (ss : list segment) : in_state * list (option ack) :=
  match ss with
  | [] => (st, [])
  | s :: ss =>
    match in_next st s with
    | None => let r := in_run st ss in (fst r, None :: snd r)
    | Some (st', a) => let r := in_run st' ss in (fst r, Some a :: snd r)
    end
  end.

(* ---- TransferManager, receiving side: transfer id -> buffer of the open IncomingTransfer ---- *)
Definition rx_state := list (N * list N).

Fixpoint rx_lookup (st : rx_state) (t : N) : list N :=
  match st with
  | [] => []
  | (k, v) :: st => if k =? t then v else rx_lookup st t
  end.
Fixpoint rx_del (st : rx_state) (t : N) : rx_state :=
  match st with
  | [] => []
  | (k, v) :: st => if k =? t then rx_del st t else (k, v) :: rx_del st t
  end.
Definition rx_set (st : rx_state) (t : N) (v : list N) : rx_state := (t, v) :: rx_del st t.

(* handle(), case DataTransmissionMessage: LoadOrStore, NextSegment, ack out, on END hand the
   bundle (here: its bytes, tagged with the transfer id) up and delete the transfer. *)
Definition rx_step (st : rx_state) (s : segment) : rx_state * ack * option (N * list N) :=
  let buf := rx_lookup st (sg_tid s) ++ sg_data s in
  let a := mkAck (sg_flags s) (sg_tid s) (nlen buf) in
  if sg_has_end s then (rx_del st (sg_tid s), a, Some (sg_tid s, buf))
  else (rx_set st (sg_tid s) buf, a, None).

Fixpoint rx_run (st : rx_state) (ss : list segment) : rx_state * list ack * list (N * list N) :=
  match ss with
  | [] => (st, [], [])
  | s :: ss =>
    match rx_step st s with
    | (st', a, d) =>
      match rx_run st' ss with
      | (st'', acks, ds) => (st'', a :: acks, match d with Some x => x :: ds | None => ds end)
      end
    end
  end.

Definition rx_acks (ss : list segment) : list ack := snd (fst (rx_run [] ss)).
Definition rx_delivered (ss : list segment) : list (N * list N) := snd (rx_run [] ss).
(* the acknowledged lengths an honest receiver ever sends for this segment sequence *)
Definition rx_ack_lens (ss : list segment) : list N := map ak_len (rx_acks ss).

(* ---- TransferManager.Send as a state machine ---- *)
Inductive send_result := SrOk | SrRefused | SrTimeout | SrStopped | SrReadErr.

Inductive send_event :=
| SeStep        (* one iteration of the emitting goroutine's loop *)
| SeRecvLen     (* main loop receives the total length from lenChan *)
| SeRecvErr     (* main loop receives from errChan *)
| SeAck (n : N) (* main loop receives an XFER_ACK with acknowledged length n *)
| SeRefuse      (* main loop receives an XFER_REFUSE *)
| SeTimeout     (* time.After fires *)
| SeClose.      (* TransferManager.Close() *)

Record send_state := mkSend {
  ss_m : N;
  ss_out : out_state;
  ss_running : bool;               (* emitting goroutine still alive *)
  ss_l : N;                        (* bytes emitted so far *)
  ss_lenchan : option N;
  ss_errchan : option send_result;
  ss_stop : bool;                  (* local stopped flag *)
  ss_tmstop : bool;                (* tm.stopped *)
  ss_inlen : N;
  ss_outlen : N;
  ss_result : option send_result   (* Some = Send has returned *)
}.

Definition send_init (bs : list N) (m tid : N) : send_state :=
  mkSend m (out_init tid bs) true 0 None None false false 0 0 None.

Definition set_result (st : send_state) (stop : bool) (inl outl : N) (r : option send_result) : send_state :=
  mkSend (ss_m st) (ss_out st) (ss_running st) (ss_l st) (ss_lenchan st) (ss_errchan st)
         (ss_stop st || stop) (ss_tmstop st) inl outl r.

Definition send_step (st : send_state) (e : send_event) : option (send_state * list segment) :=
  match e with
  | SeClose =>
    Some (mkSend (ss_m st) (ss_out st) (ss_running st) (ss_l st) (ss_lenchan st) (ss_errchan st)
                 (ss_stop st) true (ss_inlen st) (ss_outlen st) (ss_result st), [])
  | SeStep =>
    if negb (ss_running st) then None
    else if ss_stop st then
      Some (mkSend (ss_m st) (ss_out st) false (ss_l st) (ss_lenchan st) (ss_errchan st)
                   (ss_stop st) (ss_tmstop st) (ss_inlen st) (ss_outlen st) (ss_result st), [])
    else if ss_tmstop st then
      Some (mkSend (ss_m st) (ss_out st) false (ss_l st) (ss_lenchan st) (Some SrStopped)
                   (ss_stop st) (ss_tmstop st) (ss_inlen st) (ss_outlen st) (ss_result st), [])
    else
      match next_segment (ss_m st) (ss_out st) with
      | NsSeg s _ o' =>
        Some (mkSend (ss_m st) o' true (ss_l st + nlen (sg_data s)) (ss_lenchan st) (ss_errchan st)
                     (ss_stop st) (ss_tmstop st) (ss_inlen st) (ss_outlen st) (ss_result st), [s])
      | NsEof o' =>
        Some (mkSend (ss_m st) o' false (ss_l st) (Some (ss_l st)) (ss_errchan st)
                     (ss_stop st) (ss_tmstop st) (ss_inlen st) (ss_outlen st) (ss_result st), [])
      | NsErr o' =>
        Some (mkSend (ss_m st) o' false (ss_l st) (ss_lenchan st) (Some SrReadErr)
                     (ss_stop st) (ss_tmstop st) (ss_inlen st) (ss_outlen st) (ss_result st), [])
      | NsPanic => None
      end
  | _ =>
    match ss_result st with
    | Some _ => None                 (* Send has returned: no further main-loop events *)
    | None =>
      match e with
      | SeRecvLen =>
        match ss_lenchan st with
        | Some n =>
          Some (mkSend (ss_m st) (ss_out st) (ss_running st) (ss_l st) None (ss_errchan st)
                       (ss_stop st) (ss_tmstop st) (ss_inlen st) n
                       (if n =? ss_inlen st then Some SrOk else None), [])
        | None => None
        end
      | SeRecvErr =>
        match ss_errchan st with
        | Some r => Some (set_result st false (ss_inlen st) (ss_outlen st) (Some r), [])
        | None => None
        end
      | SeAck n =>
        Some (set_result st false n (ss_outlen st) (if ss_outlen st =? n then Some SrOk else None), [])
      | SeRefuse => Some (set_result st true (ss_inlen st) (ss_outlen st) (Some SrRefused), [])
      | SeTimeout => Some (set_result st true (ss_inlen st) (ss_outlen st) (Some SrTimeout), [])
      | _ => None
      end
    end
  end.

Fixpoint send_run (st : send_state) (evs : list send_event) : option (send_state * list segment) :=
  match evs with
  | [] => Some (st, [])
  | e :: evs =>
    match send_step st e with
    | None => None
    | Some (st', o) =>
      match send_run st' evs with
      | None => None
      | Some (st'', o') => Some (st'', o ++ o')
      end
    end
  end.

(* every XFER_ACK the sender sees carries a length an honest receiver of this very transfer
   produces (the receiver model run on the segment sequence) *)
Definition honest_event (ss : list segment) (e : send_event) : bool :=
  match e with
  | SeAck n => existsb (N.eqb n) (rx_ack_lens ss)
  | _ => true
  end.

(* ---- property checkers, evaluated by the driver on what the implementation produced ---- *)
Fixpoint all_but_last {A} (p : A -> bool) (l : list A) : bool :=
  match l with
  | [] => true
  | [x] => true
  | x :: l => p x && all_but_last p l
  end.
Definition last_sat {A} (p : A -> bool) (l : list A) : bool :=
  match rev l with [] => false | x :: _ => p x end.

Definition chk_sizes (m : N) (ss : list segment) : bool :=
  forallb (fun s => (1 <=? nlen (sg_data s)) && (nlen (sg_data s) <=? m)) ss.
Definition chk_concat (bs : list N) (ss : list segment) : bool :=
  bytes_eqb (concat (map sg_data ss)) bs.
Definition chk_tid (tid : N) (ss : list segment) : bool := forallb (fun s => sg_tid s =? tid) ss.
Definition chk_start (ss : list segment) : bool :=
  match ss with
  | [] => false
  | s :: r => sg_has_start s && forallb (fun x => negb (sg_has_start x)) r
  end.
Definition chk_end (ss : list segment) : bool :=
  last_sat sg_has_end ss && all_but_last (fun x => negb (sg_has_end x)) ss.
Definition chk_segments (bs : list N) (m tid : N) (ss : list segment) : bool :=
  chk_sizes m ss && chk_concat bs ss && chk_tid tid ss && chk_start ss && chk_end ss.

(* ---- session level: Client.Start, transfer id allocation, Client.handle ---- *)
(* Client.Start: conf.SegmentMru, announced in the own SESS_INIT *)
Definition tcc_own_segment_mru : N := 1048576.
(* Client.Start hands the TransferManager state.SegmentMtu, the Segment MRU of the peer's
   SESS_INIT, as its segment MTU (not the value announced by this node) *)
Definition tcc_segment_mtu (own_mru peer_mru : N) : N := peer_mru.

(* TransferManager.Send: id = atomic.AddUint64(&outNextId, 1) - 1, one indivisible step
   (the wrap-around after 2^64 transfers of one session is not modelled) *)
Definition tcc_alloc (next : N) : N * N := (next, next + 1).
Fixpoint tcc_alloc_n (next : N) (n : nat) : list N :=
  match n with
  | O => []
  | S k => fst (tcc_alloc next) :: tcc_alloc_n (snd (tcc_alloc next)) k
  end.

(* what the peer sees of the transfer with id t within the XFER_SEGMENT trace of a session *)
Definition tcc_for_tid (t : N) (tr : list segment) : list segment :=
  filter (fun s => sg_tid s =? t) tr.

(* the k bundles [bss] sent on a session whose next transfer id is [next], to a peer that announced
   Segment MRU [peer]: ids in the order of the (atomic) allocations, segment sequences *)
Definition tcc_session_xfers (next : N) (bss : list (list N)) : list (N * list N) :=
  combine (tcc_alloc_n next (length bss)) bss.
Definition tcc_session_segs (own peer next : N) (bss : list (list N)) : list (list segment) :=
  map (fun x => segments (snd x) (tcc_segment_mtu own peer) (fst x)) (tcc_session_xfers next bss).

(* peer-side checker of a whole session trace for the transfers xs = (id, encoding): every
   transfer appears as one well-formed segment sequence with segments of at most [m] bytes, and no
   segment belongs to anything else *)
Definition tcc_chk_trace (m : N) (xs : list (N * list N)) (tr : list segment) : bool :=
  forallb (fun x => chk_segments (snd x) m (fst x) (tcc_for_tid (fst x) tr)) xs
  && forallb (fun s => existsb (fun x => fst x =? sg_tid s) xs) tr.

(* Client.handle: one ReceivedBundle report per bundle the TransferManager hands up, in that
   order; the report points to a variable declared in the loop body, i.e. to a copy of its own
   that later bundles do not change *)
Definition tcc_reports (tr : list segment) : list (list N) := map snd (rx_delivered tr).
