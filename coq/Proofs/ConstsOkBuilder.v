(* ConstsOkBuilder.v - the constants and operator shapes regenerated from the Go source (gen/Consts.v)
   coincide with the ones the builder model is written against (Model/SpecBuilder.v, Builder.v). *)
From Coq Require Import ZArith NArith List.
Import ListNotations.
From DTN Require Import Consts Base Bundle SpecBuilder Builder.
Open Scope Z_scope.

Lemma builder_init_ok :
  pkg_bpv7__Builder__lits = [Z.of_N (bld_ctr bld_init)]
  /\ pkg_bpv7__StatusRequestDelivery = Z.of_N (p_flags (bld_pri bld_init))
  /\ pkg_bpv7__CRCNo = Z.of_N (bld_crc bld_init)
  /\ pkg_bpv7__dtnVersion = 7.
Proof. repeat split; reflexivity. Qed.

Lemma builder_flags_ok :
  pkg_bpv7__ReplicateBlock = Z.of_N BF_REPLICATE
  /\ pkg_bpv7__AdministrativeRecordPayload = Z.of_N F_ADMIN
  /\ pkg_bpv7__StatusRequestReception + pkg_bpv7__StatusRequestForward
     + pkg_bpv7__StatusRequestDelivery + pkg_bpv7__StatusRequestDeletion = Z.of_N bld_requests
  /\ pkg_bpv7__ExtBlockTypePayloadBlock = Z.of_N T_PAYLOAD
  /\ pkg_bpv7__CRC32 = 2 /\ pkg_bpv7__CRC16 = 1.
Proof. repeat split; reflexivity. Qed.

Lemma builder_shapes_ok :
  pkg_bpv7__Builder__ops = sb_Builder_ops
  /\ pkg_bpv7__BundleBuilder_Build__lits = sb_Build_lits /\ pkg_bpv7__BundleBuilder_Build__ops = sb_Build_ops
  /\ pkg_bpv7__BundleBuilder_creationTimestamp__lits = sb_creationTimestamp_lits
  /\ pkg_bpv7__BundleBuilder_creationTimestamp__ops = sb_creationTimestamp_ops
  /\ pkg_bpv7__BundleBuilder_Canonical__lits = sb_Canonical_lits /\ pkg_bpv7__BundleBuilder_Canonical__ops = sb_Canonical_ops
  /\ pkg_bpv7__BundleBuilder_canonicalParseFlags__lits = sb_canonicalParseFlags_lits
  /\ pkg_bpv7__BundleBuilder_canonicalParseFlags__ops = sb_canonicalParseFlags_ops
  /\ pkg_bpv7__BundleBuilder_BundleAgeBlock__lits = sb_BundleAgeBlock_lits
  /\ pkg_bpv7__BundleBuilder_BundleAgeBlock__ops = sb_BundleAgeBlock_ops
  /\ pkg_bpv7__BundleBuilder_HopCountBlock__lits = sb_HopCountBlock_lits
  /\ pkg_bpv7__BundleBuilder_HopCountBlock__ops = sb_HopCountBlock_ops
  /\ pkg_bpv7__BundleBuilder_PayloadBlock__lits = sb_PayloadBlock_lits
  /\ pkg_bpv7__BundleBuilder_PayloadBlock__ops = sb_PayloadBlock_ops
  /\ pkg_bpv7__BundleBuilder_PreviousNodeBlock__lits = sb_PreviousNodeBlock_lits
  /\ pkg_bpv7__BundleBuilder_PreviousNodeBlock__ops = sb_PreviousNodeBlock_ops
  /\ pkg_bpv7__BundleBuilder_AdministrativeRecord__lits = sb_AdministrativeRecord_lits
  /\ pkg_bpv7__BundleBuilder_AdministrativeRecord__ops = sb_AdministrativeRecord_ops.
Proof. repeat split; reflexivity. Qed.

Lemma builder_newbundle_shapes_ok :
  pkg_bpv7__canonicalBlockNumberSort_Less__lits = sb_Less_lits
  /\ pkg_bpv7__canonicalBlockNumberSort_Less__ops = sb_Less_ops
  /\ pkg_bpv7__PrimaryBlock_SetCRCType__lits = sb_PrimarySetCRCType_lits
  /\ pkg_bpv7__PrimaryBlock_SetCRCType__ops = sb_PrimarySetCRCType_ops
  /\ pkg_bpv7__NewBundle__ops = sb_NewBundle_ops /\ pkg_bpv7__MustNewBundle__ops = sb_MustNewBundle_ops
  /\ pkg_bpv7__Bundle_SetCRCType__ops = sb_BundleSetCRCType_ops.
Proof. repeat split; reflexivity. Qed.
