(* ConstsOkDtlsr.v - the literal / operator shapes of the DTLSR functions regenerated from the Go
   source (gen/Consts.v) coincide with the ones the model is written against (SpecDtlsr.v).  A
   change such as  >  ->  >=  in ShouldReplace,  now - ts  ->  ts - now,  i := 1 -> i := 0  or
   == 0 -> != 0  in computeRoutingTable breaks a [reflexivity] here. *)
From Coq Require Import ZArith List.
Import ListNotations.
From DTN Require Import Consts SpecDtlsr.
Open Scope Z_scope.

Lemma dtlsr_should_replace_ok :
  pkg_bpv7__DTLSRPeerData_ShouldReplace__ops = dtlsr_should_replace_ops
  /\ pkg_bpv7__DTLSRPeerData_ShouldReplace__lits = dtlsr_should_replace_lits.
Proof. split; reflexivity. Qed.

Lemma dtlsr_compute_ok :
  pkg_routing__DTLSR_computeRoutingTable__lits = dtlsr_compute_lits
  /\ pkg_routing__DTLSR_computeRoutingTable__ops = dtlsr_compute_ops.
Proof. split; reflexivity. Qed.

Lemma dtlsr_state_ops_ok :
  pkg_routing__DTLSR_newNode__lits = dtlsr_new_node_lits
  /\ pkg_routing__DTLSR_newNode__ops = dtlsr_new_node_ops
  /\ pkg_routing__DTLSR_purgePeers__lits = dtlsr_purge_lits
  /\ pkg_routing__DTLSR_purgePeers__ops = dtlsr_purge_ops
  /\ pkg_routing__DTLSR_recomputeCron__ops = dtlsr_cron_ops
  /\ pkg_routing__DTLSR_ReportPeerAppeared__lits = dtlsr_appear_lits
  /\ pkg_routing__DTLSR_ReportPeerDisappeared__lits = dtlsr_disappear_lits
  /\ pkg_routing__DTLSR_NotifyNewBundle__ops = dtlsr_notify_ops
  /\ pkg_routing__DTLSR_NotifyNewBundle__lits = dtlsr_notify_lits.
Proof. repeat split; reflexivity. Qed.

Lemma dtlsr_forward_ok :
  pkg_routing__DTLSR_SenderForBundle__ops = dtlsr_sender_ops
  /\ pkg_routing__filterCLAs__ops = dtlsr_filter_ops
  /\ pkg_bpv7__ExtBlockTypeDTLSRBlock = dtlsr_block_type
  /\ pkg_routing__dtlsrBroadcastAddress = dtlsr_broadcast_address.
Proof. repeat split; reflexivity. Qed.
