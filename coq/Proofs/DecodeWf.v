(* DecodeWf.v - what a successful decode guarantees about the decoded value: every field is in
   the range the round-trip theorem needs, and the canonical re-encoding of each component is no
   longer than the bytes it was read from (minimal heads, dropped trailing bytes, merged map
   duplicates).  With CheckValid this gives bundle_wf of the (normalised) decoded bundle. *)
From DTN Require Import Base Cbor CborProofs Crc Eid EidProofs Bundle BundleWf BundleProofs DecodeInv.
From Coq Require Import ZifyN ZifyNat ZifyBool.
Open Scope N_scope.

Lemma head_bytes_length_le m n : (length (head_bytes m n) <= 9)%nat.
Proof.
  unfold head_bytes. destruct (n <? 24); [cbn; lia|]. destruct (n <? 256); [cbn; lia|].
  destruct (n <? 65536); [cbn [length]; rewrite be_encode_length; lia|].
  destruct (n <? 4294967296); cbn [length]; rewrite be_encode_length; lia.
Qed.

Ltac pw256 :=
  repeat match goal with
         | H : context [256 ^ N.of_nat ?k] |- _ =>
             let v := eval vm_compute in (256 ^ N.of_nat k) in change (256 ^ N.of_nat k) with v in H
         end.

Lemma head_bytes_len_bound m n (l : nat) :
  n < 256 ^ N.of_nat l -> (l = 1 \/ l = 2 \/ l = 4 \/ l = 8)%nat -> (length (head_bytes m n) <= 1 + l)%nat.
Proof.
  intros Hn Hl. unfold head_bytes.
  destruct (n <? 24) eqn:E1; [cbn [length]; lia|].
  destruct (n <? 256) eqn:E2; [cbn [length]; lia|].
  destruct (n <? 65536) eqn:E3.
  { cbn [length]. rewrite be_encode_length. destruct Hl as [-> | [-> | [-> | ->]]]; pw256; lia. }
  destruct (n <? 4294967296) eqn:E4.
  { cbn [length]. rewrite be_encode_length. destruct Hl as [-> | [-> | [-> | ->]]]; pw256; lia. }
  cbn [length]. rewrite be_encode_length. destruct Hl as [-> | [-> | [-> | ->]]]; pw256; lia.
Qed.

Lemma read_head_min bs m n r : bytes_ok bs = true -> read_head bs = Ok (m, n) r ->
  n < 18446744073709551616 /\ bytes_ok r = true /\ (length (head_bytes m n) + length r <= length bs)%nat.
Proof.
  intros Hb H. destruct (read_head_ok bs m n r Hb H) as (Hn & Hr & Hl).
  split; [exact Hn|]. split; [exact Hr|].
  destruct bs as [|b bs]; [discriminate|]. cbn [read_head] in H.
  unfold bytes_ok in Hb. cbn [forallb] in Hb. apply andb_prop in Hb. destruct Hb as [_ Hb2].
  destruct (b =? 159); [discriminate|]. destruct (b =? 255); [discriminate|].
  destruct (b mod 32 <? 24) eqn:E1.
  - inversion H; subst. unfold head_bytes. replace (b mod 32 <? 24) with true by lia. cbn [length]. lia.
  - destruct (b mod 32 <? 28) eqn:E2; [|discriminate]. unfold take_exact in H.
    destruct (Nat.leb (Nat.pow 2 (N.to_nat (b mod 32 - 24))) (length bs)) eqn:E3; [|discriminate].
    inversion H; subst; clear H. apply Nat.leb_le in E3.
    set (l := Nat.pow 2 (N.to_nat (b mod 32 - 24))) in *.
    assert (Hlc : (l = 1 \/ l = 2 \/ l = 4 \/ l = 8)%nat).
    { subst l. assert (Hc : b mod 32 - 24 = 0 \/ b mod 32 - 24 = 1 \/ b mod 32 - 24 = 2 \/ b mod 32 - 24 = 3) by lia.
      destruct Hc as [-> | [-> | [-> | ->]]]; cbn; tauto. }
    pose proof (be_decode_acc_bound (firstn l bs) 0 (bytes_ok_firstn l bs Hb2)) as Hbd.
    rewrite firstn_length, Nat.min_l in Hbd by lia. fold (be_decode (firstn l bs)) in Hbd.
    assert (Hbd' : be_decode (firstn l bs) < 256 ^ N.of_nat l) by lia.
    pose proof (head_bytes_len_bound (b - b mod 32) (be_decode (firstn l bs)) l Hbd' Hlc) as Hhb.
    rewrite skipn_length. cbn [length]. lia.
Qed.

Lemma read_expect_min mj bs n r : bytes_ok bs = true -> read_expect mj bs = Ok n r ->
  u64_ok n = true /\ bytes_ok r = true /\ (length (head_bytes mj n) + length r <= length bs)%nat.
Proof.
  unfold read_expect. intros Hb H. destruct (read_head bs) as [[m' n'] r'| |] eqn:E; cbn [bind] in H; try discriminate.
  cbn [fst snd] in H. destruct (m' =? mj) eqn:Em; [|discriminate]. inversion H; subst. apply N.eqb_eq in Em. subst m'.
  destruct (read_head_min bs mj n r Hb E) as (H1 & H2 & H3). unfold u64_ok. split; [lia|]. tauto.
Qed.

Lemma read_raw_wf n bs d r : bytes_ok bs = true -> read_raw n bs = Ok d r ->
  nlen d = n /\ len_ok d = true /\ bs = d ++ r /\ bytes_ok d = true /\ bytes_ok r = true.
Proof.
  intros Hb H. destruct (read_raw_ok n bs d r Hb H) as (H1 & H2 & H3 & H4 & H5).
  unfold len_ok. repeat split; try assumption. lia.
Qed.

Lemma read_bstr_min bs d r : bytes_ok bs = true -> read_bstr bs = Ok d r ->
  len_ok d = true /\ bytes_ok d = true /\ bytes_ok r = true /\ (length (enc_bstr d) + length r <= length bs)%nat.
Proof.
  unfold read_bstr. intros Hb H. destruct (read_expect mBytes bs) as [n r0| |] eqn:E; cbn [bind] in H; try discriminate.
  destruct (read_expect_min mBytes bs n r0 Hb E) as (Hn & Hr0 & Hl).
  destruct (read_raw_wf n r0 d r Hr0 H) as (H1 & H2 & H3 & H4 & H5).
  repeat split; try assumption. unfold enc_bstr. rewrite app_length, H1. subst r0. rewrite app_length in Hl. lia.
Qed.

(* ---- endpoint IDs ---- *)
Lemma span_node_inv s : forall a b, span_node s = (a, b) -> s = a ++ b /\ forallb is_node_char a = true.
Proof.
  induction s as [|c s IH]; intros a b H; cbn [span_node] in H.
  - inversion H; subst. split; reflexivity.
  - destruct (is_node_char c) eqn:Ec.
    + destruct (span_node s) as [a' b'] eqn:Es. inversion H; subst. destruct (IH a' b eq_refl) as [-> Ha].
      split; [reflexivity|]. cbn [forallb]. rewrite Ec, Ha. reflexivity.
    + inversion H; subst. split; reflexivity.
Qed.

Lemma parse_ssp_inv s node demux : parse_ssp s = Some (node, demux) ->
  s = ssp_bytes node demux /\ eid_valid (Dtn node demux) = true.
Proof.
  unfold parse_ssp. destruct s as [|c1 s]; [discriminate|]. destruct c1 as [|p1]; [discriminate|].
  assert (Hc1 : N.pos p1 = 47 \/ N.pos p1 <> 47) by lia. destruct Hc1 as [Hc1 | Hc1].
  2:{ intros H. exfalso. repeat (destruct p1 as [p1|p1|]; try discriminate; try (apply Hc1; reflexivity)). }
  injection Hc1 as ->. destruct s as [|c2 s]; [discriminate|]. destruct c2 as [|p2]; [discriminate|].
  assert (Hc2 : N.pos p2 = 47 \/ N.pos p2 <> 47) by lia. destruct Hc2 as [Hc2 | Hc2].
  2:{ intros H. exfalso. repeat (destruct p2 as [p2|p2|]; try discriminate; try (apply Hc2; reflexivity)). }
  injection Hc2 as ->.
  destruct (span_node s) as [nd r'] eqn:Es. destruct nd as [|n0 nd]; [discriminate|].
  destruct r' as [|c3 dm]; [discriminate|]. destruct c3 as [|p3]; [discriminate|].
  assert (Hc3 : N.pos p3 = 47 \/ N.pos p3 <> 47) by lia. destruct Hc3 as [Hc3 | Hc3].
  2:{ intros H. exfalso. repeat (destruct p3 as [p3|p3|]; try discriminate; try (apply Hc3; reflexivity)). }
  injection Hc3 as ->.
  destruct (no_newline dm) eqn:En; [|discriminate]. intros H. inversion H; subst.
  apply span_node_inv in Es. destruct Es as [-> Hch]. split; [reflexivity|].
  unfold eid_valid. rewrite Hch, En. reflexivity.
Qed.

Lemma bytes_ok_app_l a b : bytes_ok (a ++ b) = true -> bytes_ok a = true.
Proof. rewrite bytes_ok_app. intros H. apply andb_prop in H. tauto. Qed.
Lemma bytes_ok_app_r a b : bytes_ok (a ++ b) = true -> bytes_ok b = true.
Proof. rewrite bytes_ok_app. intros H. apply andb_prop in H. tauto. Qed.

Lemma ssp_len_wf (ssp node demux : list N) :
  len_ok ssp = true -> length ssp = (length node + length demux + 3)%nat ->
  (nlen node + nlen demux + 3 <=? max_raw) = true.
Proof. unfold len_ok, nlen, max_raw. intros H1 H2. lia. Qed.

Lemma dec_eid_min bs e r : bytes_ok bs = true -> dec_eid bs = Ok e r ->
  eid_wf e = true /\ bytes_ok r = true /\ (length (enc_eid_body e) + length r <= length bs)%nat.
Proof.
  intros Hb H. unfold dec_eid in H.
  destruct (read_arr bs) as [l r1| |] eqn:E1; cbn [bind] in H; try discriminate.
  destruct (read_expect_min mArray bs l r1 Hb E1) as (_ & Hb1 & Hl1).
  destruct (negb (l =? 2)) eqn:El; [discriminate|]. apply negb_false_iff, N.eqb_eq in El. subst l.
  destruct (read_uint r1) as [sch r2| |] eqn:E2; cbn [bind] in H; try discriminate.
  destruct (read_expect_min mUInt r1 sch r2 Hb1 E2) as (_ & Hb2 & Hl2).
  assert (Hh2 : (1 <= length (head_bytes mUInt sch))%nat) by (unfold head_bytes; destruct (sch <? 24); [cbn; lia|]; destruct (sch <? 256); [cbn; lia|]; destruct (sch <? 65536); [cbn; lia|]; destruct (sch <? 4294967296); cbn; lia).
  assert (Ha : length (enc_arr 2) = 1%nat) by reflexivity.
  assert (Harr : length (head_bytes mArray 2) = 1%nat) by reflexivity. rewrite Harr in Hl1.
  destruct (sch =? 1) eqn:Es1.
  - destruct (read_head r2) as [[m n] r3| |] eqn:E3; cbn [bind] in H; try discriminate.
    destruct (read_head_min r2 m n r3 Hb2 E3) as (Hn3 & Hb3 & Hl3).
    assert (Hh3 : (1 <= length (head_bytes m n))%nat) by (unfold head_bytes; destruct (n <? 24); [cbn; lia|]; destruct (n <? 256); [cbn; lia|]; destruct (n <? 65536); [cbn; lia|]; destruct (n <? 4294967296); cbn; lia).
    destruct (m =? mUInt) eqn:Em.
    + inversion H; subst. split; [reflexivity|]. split; [exact Hb3|]. cbn [enc_eid_body]. rewrite !app_length. cbn. lia.
    + destruct (m =? mText) eqn:Emt; [|discriminate]. apply N.eqb_eq in Emt. subst m.
      destruct (read_raw n r3) as [ssp r4| |] eqn:E4; cbn [bind] in H; try discriminate.
      destruct (read_raw_wf n r3 ssp r4 Hb3 E4) as (Hn4 & Hlen4 & Heq4 & Hbs4 & Hb4).
      destruct (bytes_eqb ssp str_none); [discriminate|].
      destruct (parse_ssp ssp) as [[node demux]|] eqn:Ep; [|discriminate]. inversion H; subst e r4.
      apply parse_ssp_inv in Ep. destruct Ep as [Hssp _].
      assert (Hlen_ssp : length ssp = (length node + length demux + 3)%nat).
      { rewrite Hssp. unfold ssp_bytes. cbn [length]. rewrite app_length. cbn [length]. lia. }
      split; [|split; [exact Hb4|]].
      * unfold eid_wf. rewrite Hssp in Hbs4. unfold ssp_bytes in Hbs4.
        change (47 :: 47 :: node ++ 47 :: demux) with ([47; 47] ++ node ++ [47] ++ demux) in Hbs4.
        pose proof (bytes_ok_app_l _ _ (bytes_ok_app_r _ _ Hbs4)) as Hnode.
        pose proof (bytes_ok_app_r _ _ (bytes_ok_app_r _ _ (bytes_ok_app_r _ _ Hbs4))) as Hdemux.
        rewrite Hnode, Hdemux. cbn [andb]. exact (ssp_len_wf ssp node demux Hlen4 Hlen_ssp).
      * cbn [enc_eid_body]. unfold enc_tstr. rewrite !app_length, Ha. 
        assert (Hsame : nlen (ssp_bytes node demux) = n) by (rewrite <- Hssp; exact Hn4). rewrite Hsame.
        rewrite <- Hssp. subst r3. rewrite app_length in Hl3.
        assert (Hu1 : length (enc_uint 1) = 1%nat) by reflexivity. rewrite Hu1. lia.
  - destruct (sch =? 2) eqn:Es2; [|discriminate].
    destruct (read_arr r2) as [l2 r3| |] eqn:E3; cbn [bind] in H; try discriminate.
    destruct (read_expect_min mArray r2 l2 r3 Hb2 E3) as (_ & Hb3 & Hl3).
    destruct (negb (l2 =? 2)) eqn:El2; [discriminate|]. apply negb_false_iff, N.eqb_eq in El2. subst l2.
    destruct (read_uint r3) as [n r4| |] eqn:E4; cbn [bind] in H; try discriminate.
    destruct (read_expect_min mUInt r3 n r4 Hb3 E4) as (Hn & Hb4 & Hl4).
    destruct (read_uint r4) as [sv r5| |] eqn:E5; cbn [bind] in H; try discriminate.
    destruct (read_expect_min mUInt r4 sv r5 Hb4 E5) as (Hs & Hb5 & Hl5).
    inversion H; subst e r5. split; [unfold eid_wf; rewrite Hn, Hs; reflexivity|]. split; [exact Hb5|].
    cbn [enc_eid_body]. rewrite !app_length. unfold enc_uint at 2 3. 
    assert (Hu2 : length (enc_uint 2) = 1%nat) by reflexivity. rewrite Ha, Hu2.
    assert (Hh3 : (1 <= length (head_bytes mArray 2))%nat) by (cbn; lia). lia.
Qed.

(* ---- map-valued blocks ---- *)
Definition pairs_rng (l : list (eid * N)) : bool := forallb (fun kv => eid_wf (fst kv) && u64_ok (snd kv)) l.

Lemma map_set_rng k v acc : pairs_rng acc = true -> eid_wf k = true -> u64_ok v = true ->
  pairs_rng (map_set k v acc) = true.
Proof.
  induction acc as [|[k' v'] acc IH]; cbn [map_set pairs_rng forallb fst snd]; intros Ha Hk Hv.
  - rewrite Hk, Hv. reflexivity.
  - apply andb_prop in Ha. destruct Ha as [Hh Ht]. apply andb_prop in Hh. destruct Hh as [Hk' Hv'].
    destruct (eid_eqb k k'); cbn [pairs_rng forallb fst snd].
    + rewrite Hk', Hv. exact Ht.
    + rewrite Hk', Hv'. apply IH; assumption.
Qed.

Lemma map_set_keys k v acc k0 :
  existsb (fun kv' => eid_eqb k0 (fst kv')) (map_set k v acc)
  = existsb (fun kv' => eid_eqb k0 (fst kv')) acc || eid_eqb k0 k.
Proof.
  induction acc as [|[k' v'] acc IH]; cbn [map_set existsb fst].
  - rewrite orb_false_r. reflexivity.
  - destruct (eid_eqb k k') eqn:E; cbn [existsb fst].
    + apply eid_eqb_eq in E. subst k'. destruct (eid_eqb k0 k); cbn; [reflexivity|]. rewrite orb_false_r. reflexivity.
    + rewrite IH. rewrite orb_assoc. reflexivity.
Qed.

Lemma map_set_nodup k v acc : keys_nodup acc = true -> keys_nodup (map_set k v acc) = true.
Proof.
  induction acc as [|[k' v'] acc IH]; cbn [map_set keys_nodup existsb fst]; intros H; [reflexivity|].
  apply andb_prop in H. destruct H as [H1 H2].
  destruct (eid_eqb k k') eqn:E; cbn [keys_nodup fst].
  - rewrite H1, H2. reflexivity.
  - rewrite map_set_keys. apply negb_true_iff in H1. rewrite H1. cbn [orb].
    rewrite eid_eqb_sym, E. cbn. apply IH, H2.
Qed.

Lemma map_set_len encv k v acc :
  (length (enc_pairs_body encv (map_set k v acc))
   <= length (enc_pairs_body encv acc) + length (enc_eid_body k) + length (encv v))%nat.
Proof.
  induction acc as [|[k' v'] acc IH]; cbn [map_set enc_pairs_body].
  - rewrite !app_length. cbn [length]. lia.
  - destruct (eid_eqb k k') eqn:E; cbn [enc_pairs_body]; rewrite !app_length.
    + apply eid_eqb_eq in E. subst k'. lia.
    + lia.
Qed.

Lemma map_set_count k v acc : (length (map_set k v acc) <= S (length acc))%nat.
Proof.
  induction acc as [|[k' v'] acc IH]; cbn [map_set length]; [lia|]. destruct (eid_eqb k k'); cbn [length]; lia.
Qed.

Lemma head_bytes_len_mono m a b : a <= b -> (length (head_bytes m a) <= length (head_bytes m b))%nat.
Proof.
  intros H. unfold head_bytes.
  destruct (a <? 24) eqn:A1; destruct (b <? 24) eqn:B1; try lia; cbn [length]; rewrite ?be_encode_length.
  - reflexivity.
  - destruct (b <? 256); cbn [length]; [lia|]. destruct (b <? 65536); cbn [length]; rewrite ?be_encode_length; [lia|].
    destruct (b <? 4294967296); cbn [length]; rewrite ?be_encode_length; lia.
  - destruct (a <? 256) eqn:A2; destruct (b <? 256) eqn:B2; try lia; cbn [length]; rewrite ?be_encode_length; try lia.
    + destruct (b <? 65536); cbn [length]; rewrite ?be_encode_length; [lia|].
      destruct (b <? 4294967296); cbn [length]; rewrite ?be_encode_length; lia.
    + destruct (a <? 65536) eqn:A3; destruct (b <? 65536) eqn:B3; try lia; cbn [length]; rewrite ?be_encode_length; try lia.
      * destruct (b <? 4294967296); cbn [length]; rewrite ?be_encode_length; lia.
      * destruct (a <? 4294967296) eqn:A4; destruct (b <? 4294967296) eqn:B4; try lia; cbn [length]; rewrite ?be_encode_length; lia.
Qed.

Section PairsMin.
Variable readv : list N -> res N.
Variable encv : N -> list N.
Hypothesis Hrd : forall bs v r, bytes_ok bs = true -> readv bs = Ok v r ->
  u64_ok v = true /\ bytes_ok r = true /\ (length (encv v) + length r <= length bs)%nat.

Lemma dec_pairs_min : forall fuel n acc bs l r,
  bytes_ok bs = true -> dec_pairs fuel readv n acc bs = Ok l r ->
  pairs_rng acc = true -> keys_nodup acc = true ->
  pairs_rng l = true /\ keys_nodup l = true /\ bytes_ok r = true
  /\ (length (enc_pairs_body encv l) + length r <= length (enc_pairs_body encv acc) + length bs)%nat
  /\ nlen l <= nlen acc + n.
Proof.
  induction fuel as [|fuel IH]; intros n acc bs l r Hb H Ha Hn; cbn [dec_pairs] in H.
  - destruct (n =? 0); [|discriminate]. inversion H; subst. repeat split; try assumption; lia.
  - destruct (n =? 0) eqn:En0; [inversion H; subst; repeat split; try assumption; lia|].
    destruct (dec_eid bs) as [k r1| |] eqn:E1; cbn [bind] in H; try discriminate.
    destruct (dec_eid_min bs k r1 Hb E1) as (Hk & Hb1 & Hl1).
    destruct (readv r1) as [v r2| |] eqn:E2; cbn [bind] in H; try discriminate.
    destruct (Hrd r1 v r2 Hb1 E2) as (Hv & Hb2 & Hl2).
    destruct (IH (n - 1) (map_set k v acc) r2 l r Hb2 H (map_set_rng k v acc Ha Hk Hv) (map_set_nodup k v acc Hn))
      as (P1 & P2 & P3 & P4 & P5).
    repeat split; try assumption.
    + pose proof (map_set_len encv k v acc). lia.
    + pose proof (map_set_count k v acc). unfold nlen in *. lia.
Qed.
End PairsMin.

Lemma read_uint_min bs v r : bytes_ok bs = true -> read_uint bs = Ok v r ->
  u64_ok v = true /\ bytes_ok r = true /\ (length (enc_uint v) + length r <= length bs)%nat.
Proof. intros Hb H. exact (read_expect_min mUInt bs v r Hb H). Qed.
Lemma read_f64_min bs v r : bytes_ok bs = true -> read_f64 bs = Ok v r ->
  u64_ok v = true /\ bytes_ok r = true /\ (length (enc_f64 v) + length r <= length bs)%nat.
Proof. intros Hb H. exact (read_expect_min mSimple bs v r Hb H). Qed.

Lemma head_bytes_pos m n : (1 <= length (head_bytes m n))%nat.
Proof.
  unfold head_bytes. destruct (n <? 24); [cbn [length]; lia|]. destruct (n <? 256); [cbn [length]; lia|].
  destruct (n <? 65536); [cbn [length]; lia|]. destruct (n <? 4294967296); cbn [length]; lia.
Qed.

Lemma maplen_head_le encv (ps : list (eid * N)) n :
  (length (head_bytes mMap (nlen ps)) <= length (head_bytes mMap n) + length (enc_pairs_body encv ps))%nat.
Proof.
  pose proof (head_bytes_pos mMap n) as H1. pose proof (enc_pairs_body_length encv ps) as H2.
  pose proof (head_bytes_length_le mMap (nlen ps)) as H3.
  destruct (nlen ps <? 24) eqn:E.
  - unfold head_bytes at 1. rewrite E. cbn [length]. lia.
  - unfold nlen in E. lia.
Qed.

(* ---- extension block values ---- *)
Definition ext_rng (v : ext) : bool :=
  match v with
  | XPayload d => bytes_ok d
  | XGeneric tc d => u64_ok tc && negb (known_type tc) && bytes_ok d
  | XPrev e => eid_wf e
  | XAge n => u64_ok n
  | XHop l c => (l <=? 255) && (c <=? 255)
  | XSpray n => u64_ok n
  | XDtlsr id ts peers => eid_wf id && u64_ok ts && pairs_rng peers && keys_nodup peers
  | XProphet preds => pairs_rng preds && keys_nodup preds
  | XSig pk sg => bytes_ok pk && bytes_ok sg && len_ok pk && len_ok sg
  end.

Lemma pairs_rng_valid_wf l : pairs_rng l = true -> forallb (fun kv => eid_valid (fst kv)) l = true -> pairs_wf l = true.
Proof.
  induction l as [|[k v] l IH]; cbn [pairs_rng pairs_wf forallb fst snd]; intros H1 H2; [reflexivity|].
  apply andb_prop in H1. destruct H1 as [Ha Hb]. apply andb_prop in Ha. destruct Ha as [Hk Hv].
  apply andb_prop in H2. destruct H2 as [Hc Hd]. unfold eid_ok. rewrite Hk, Hc, Hv. cbn [andb].
  apply IH; assumption.
Qed.

Lemma ext_rng_valid_wf v : ext_rng v = true -> ext_valid v = true -> ext_wf v = true.
Proof.
  destruct v; cbn [ext_rng ext_valid ext_wf]; intros H1 H2; try assumption.
  - unfold eid_ok. rewrite H1, H2. reflexivity.
  - repeat (apply andb_prop in H1; destruct H1 as [H1 ?]). apply andb_prop in H2. destruct H2 as [Hv1 Hv2].
    unfold eid_ok. rewrite H1, Hv1. cbn [andb].
    repeat (apply andb_true_intro; split); try assumption. apply pairs_rng_valid_wf; assumption.
  - apply andb_prop in H1. destruct H1 as [Ha Hb]. rewrite Hb, andb_true_r. apply pairs_rng_valid_wf; assumption.
Qed.

Lemma len_ok_le (a b : list N) : (length a <= length b)%nat -> len_ok b = true -> len_ok a = true.
Proof. unfold len_ok, nlen, max_raw. lia. Qed.

Lemma dec_ext_min tc bs v r : u64_ok tc = true -> bytes_ok bs = true -> dec_ext tc bs = Ok v r ->
  ext_rng v = true /\ len_ok (inner_of v) = true /\ bytes_ok r = true /\ (length r < length bs)%nat.
Proof.
  intros Htc Hb H. unfold dec_ext in H.
  destruct (read_bstr bs) as [data rest| |] eqn:E; cbn [bind nobrk] in H; try discriminate.
  destruct (read_bstr_min bs data rest Hb E) as (Hld & Hbd & Hbr & Hlen).
  assert (Hlt : (length rest < length bs)%nat).
  { unfold enc_bstr in Hlen. rewrite app_length in Hlen.
    assert (1 <= length (head_bytes mBytes (nlen data)))%nat by (unfold head_bytes; destruct (nlen data <? 24); [cbn; lia|]; destruct (nlen data <? 256); [cbn; lia|]; destruct (nlen data <? 65536); [cbn; lia|]; destruct (nlen data <? 4294967296); cbn; lia).
    lia. }
  (* every branch: the re-encoding is no longer than data *)
  assert (Hgoal : forall v0 (r0 : list N), ext_rng v0 = true -> (length (inner_of v0) + length r0 <= length data)%nat ->
            Ok v0 rest = Ok v r -> ext_rng v = true /\ len_ok (inner_of v) = true /\ bytes_ok r = true /\ (length r < length bs)%nat).
  { intros v0 r0 Hr Hl Heq. inversion Heq; subst. repeat split; try assumption.
    eapply len_ok_le; [|exact Hld]. lia. }
  destruct (tc =? 1) eqn:T1.
  { cbn [nobrk] in H. apply (Hgoal (XPayload data) []); [exact Hbd|cbn; lia|exact H]. }
  destruct (tc =? 6) eqn:T6.
  { destruct (dec_eid data) as [e r1| |] eqn:E1; cbn [bind nobrk] in H; try discriminate.
    destruct (dec_eid_min data e r1 Hbd E1) as (He & _ & Hl). apply (Hgoal (XPrev e) r1); [exact He|exact Hl|exact H]. }
  destruct (tc =? 7) eqn:T7.
  { destruct (read_uint data) as [n r1| |] eqn:E1; cbn [bind nobrk] in H; try discriminate.
    destruct (read_uint_min data n r1 Hbd E1) as (Hn & _ & Hl). apply (Hgoal (XAge n) r1); [exact Hn|exact Hl|exact H]. }
  destruct (tc =? 10) eqn:T10.
  { destruct (read_arr data) as [l r1| |] eqn:E1; cbn [bind nobrk] in H; try discriminate.
    destruct (read_expect_min mArray data l r1 Hbd E1) as (_ & Hb1 & Hl1).
    destruct (negb (l =? 2)) eqn:El; cbn [nobrk] in H; [discriminate|]. apply negb_false_iff, N.eqb_eq in El. subst l.
    destruct (read_uint r1) as [lim r2| |] eqn:E2; cbn [bind nobrk] in H; try discriminate.
    destruct (read_uint_min r1 lim r2 Hb1 E2) as (_ & Hb2 & Hl2).
    destruct (255 <? lim) eqn:Elim; cbn [nobrk] in H; [discriminate|].
    destruct (read_uint r2) as [cnt r3| |] eqn:E3; cbn [bind nobrk] in H; try discriminate.
    destruct (read_uint_min r2 cnt r3 Hb2 E3) as (_ & Hb3 & Hl3).
    destruct (255 <? cnt) eqn:Ecnt; cbn [nobrk] in H; [discriminate|].
    apply (Hgoal (XHop lim cnt) r3); [cbn [ext_rng]; lia| |exact H].
    cbn [inner_of]. rewrite !app_length. change (length (enc_arr 2)) with (length (head_bytes mArray 2)). unfold enc_uint in *. lia. }
  destruct (tc =? 192) eqn:T192.
  { destruct (read_uint data) as [n r1| |] eqn:E1; cbn [bind nobrk] in H; try discriminate.
    destruct (read_uint_min data n r1 Hbd E1) as (Hn & _ & Hl). apply (Hgoal (XSpray n) r1); [exact Hn|exact Hl|exact H]. }
  destruct (tc =? 193) eqn:T193.
  { destruct (read_arr data) as [l r1| |] eqn:E1; cbn [bind nobrk] in H; try discriminate.
    destruct (read_expect_min mArray data l r1 Hbd E1) as (_ & Hb1 & Hl1).
    destruct (negb (l =? 3)) eqn:El; cbn [nobrk] in H; [discriminate|]. apply negb_false_iff, N.eqb_eq in El. subst l.
    destruct (dec_eid r1) as [id r2| |] eqn:E2; cbn [bind nobrk] in H; try discriminate.
    destruct (dec_eid_min r1 id r2 Hb1 E2) as (Hid & Hb2 & Hl2).
    destruct (read_uint r2) as [ts r3| |] eqn:E3; cbn [bind nobrk] in H; try discriminate.
    destruct (read_uint_min r2 ts r3 Hb2 E3) as (Hts & Hb3 & Hl3).
    destruct (read_maplen r3) as [n r4| |] eqn:E4; cbn [bind nobrk] in H; try discriminate.
    destruct (read_expect_min mMap r3 n r4 Hb3 E4) as (_ & Hb4 & Hl4).
    destruct (dec_pairs (S (length r4)) read_uint n [] r4) as [ps r5| |] eqn:E5; cbn [bind nobrk] in H; try discriminate.
    destruct (dec_pairs_min read_uint enc_uint read_uint_min _ _ _ _ _ _ Hb4 E5 eq_refl eq_refl) as (P1 & P2 & P3 & P4 & P5).
    apply (Hgoal (XDtlsr id ts ps) r5); [cbn [ext_rng]; rewrite Hid, Hts, P1, P2; reflexivity| |exact H].
    cbn [inner_of]. rewrite !app_length. cbn [enc_pairs_body length] in P4.
    change (length (enc_arr 3)) with (length (head_bytes mArray 3)).
    assert (Hml : (length (enc_maplen (nlen ps)) <= length (head_bytes mMap n))%nat) by (apply head_bytes_len_mono; cbn in P5; lia).
    unfold enc_uint in *. clear - Hl1 Hl2 Hl3 Hl4 P4 Hml. lia. }
  destruct (tc =? 194) eqn:T194.
  { destruct (read_maplen data) as [n r4| |] eqn:E4; cbn [bind nobrk] in H; try discriminate.
    destruct (read_expect_min mMap data n r4 Hbd E4) as (_ & Hb4 & Hl4).
    destruct (dec_pairs (S (length r4)) read_f64 n [] r4) as [ps r5| |] eqn:E5; cbn [bind nobrk] in H; try discriminate.
    destruct (dec_pairs_min read_f64 enc_f64 read_f64_min _ _ _ _ _ _ Hb4 E5 eq_refl eq_refl) as (P1 & P2 & P3 & P4 & P5).
    apply (Hgoal (XProphet ps) r5); [cbn [ext_rng]; rewrite P1, P2; reflexivity| |exact H].
    cbn [inner_of]. rewrite !app_length. cbn [enc_pairs_body length] in P4.
    assert (Hml : (length (enc_maplen (nlen ps)) <= length (head_bytes mMap n))%nat) by (apply head_bytes_len_mono; cbn in P5; lia).
    lia. }
  destruct (tc =? 195) eqn:T195.
  { destruct (read_arr data) as [l r1| |] eqn:E1; cbn [bind nobrk] in H; try discriminate.
    destruct (read_expect_min mArray data l r1 Hbd E1) as (_ & Hb1 & Hl1).
    destruct (negb (l =? 2)) eqn:El; cbn [nobrk] in H; [discriminate|]. apply negb_false_iff, N.eqb_eq in El. subst l.
    destruct (read_bstr r1) as [pk r2| |] eqn:E2; cbn [bind nobrk] in H; try discriminate.
    destruct (read_bstr_min r1 pk r2 Hb1 E2) as (Hlpk & Hbpk & Hb2 & Hl2).
    destruct (read_bstr r2) as [sg r3| |] eqn:E3; cbn [bind nobrk] in H; try discriminate.
    destruct (read_bstr_min r2 sg r3 Hb2 E3) as (Hlsg & Hbsg & Hb3 & Hl3).
    apply (Hgoal (XSig pk sg) r3); [cbn [ext_rng]; rewrite Hbpk, Hbsg, Hlpk, Hlsg; reflexivity| |exact H].
    cbn [inner_of]. rewrite !app_length. change (length (enc_arr 2)) with (length (head_bytes mArray 2)). lia. }
  cbn [nobrk] in H.
  apply (Hgoal (XGeneric tc data) []); [|cbn; lia|exact H].
  cbn [ext_rng]. rewrite Hbd, andb_true_r, Htc. unfold known_type. rewrite T1, T6, T7, T10, T192, T193, T194, T195. reflexivity.
Qed.

(* ---- blocks ---- *)
Lemma check_crc_ok_rest t bs r0 r' : bytes_ok r0 = true -> check_crc t bs r0 = Ok tt r' -> bytes_ok r' = true.
Proof.
  unfold check_crc. intros Hb H. destruct (read_bstr r0) as [cv r1| |] eqn:E; cbn [bind] in H; try discriminate.
  destruct (read_bstr_min r0 cv r1 Hb E) as (_ & _ & Hr & _).
  destruct (crc_len t); [|discriminate]. destruct (negb _); [discriminate|].
  match type of H with (if ?c then _ else _) = _ => destruct c; [|discriminate] end. inversion H; subst. exact Hr.
Qed.

Definition cblock_rng (c : cblock) : bool :=
  u64_ok (c_num c) && u64_ok (c_flags c) && crc_type_ok (c_crc c) && ext_rng (c_val c) && len_ok (inner_of (c_val c)).

Lemma dec_cblock_rng bs c r : bytes_ok bs = true -> dec_cblock bs = Ok c r -> cblock_rng c = true /\ bytes_ok r = true.
Proof.
  intros Hb H. unfold dec_cblock in H.
  destruct (read_arr bs) as [l r0| |] eqn:E0; cbn [bind] in H; try discriminate.
  destruct (read_expect_min mArray bs l r0 Hb E0) as (_ & Hb0 & _).
  destruct (negb ((l =? 5) || (l =? 6))); [discriminate|].
  destruct (read_uint r0) as [tc r1| |] eqn:E1; cbn [bind] in H; try discriminate.
  destruct (read_uint_min r0 tc r1 Hb0 E1) as (Htc & Hb1 & _).
  destruct (read_uint r1) as [num r2| |] eqn:E2; cbn [bind] in H; try discriminate.
  destruct (read_uint_min r1 num r2 Hb1 E2) as (Hnum & Hb2 & _).
  destruct (read_uint r2) as [fl r3| |] eqn:E3; cbn [bind] in H; try discriminate.
  destruct (read_uint_min r2 fl r3 Hb2 E3) as (Hfl & Hb3 & _).
  destruct (read_uint r3) as [crc r4| |] eqn:E4; cbn [bind] in H; try discriminate.
  destruct (read_uint_min r3 crc r4 Hb3 E4) as (_ & Hb4 & _).
  destruct (2 <? crc) eqn:Ecrc; [discriminate|].
  destruct (negb (Bool.eqb (l =? 6) (negb (crc =? 0)))); [discriminate|].
  destruct (dec_ext tc r4) as [v r5| |] eqn:E5; cbn [bind] in H; try discriminate.
  destruct (dec_ext_min tc r4 v r5 Htc Hb4 E5) as (Hv & Hlen & Hb5 & _).
  assert (Hrng : cblock_rng {| c_num := num; c_flags := fl; c_crc := crc; c_val := v |} = true).
  { unfold cblock_rng, crc_type_ok. cbn [c_num c_flags c_crc c_val]. rewrite Hnum, Hfl, Hv, Hlen.
    replace (crc <=? 2) with true by (clear - Ecrc; lia). reflexivity. }
  destruct (l =? 6).
  - destruct (check_crc crc bs r5) as [u r6| |] eqn:E6; cbn [bind] in H; try discriminate. destruct u.
    inversion H; subst. split; [exact Hrng|]. eapply check_crc_ok_rest; eauto.
  - inversion H; subst. split; [exact Hrng|exact Hb5].
Qed.

Lemma cblock_rng_valid_wf c : cblock_rng c = true -> cblock_valid c = true -> cblock_wf c = true.
Proof.
  unfold cblock_rng, cblock_valid, cblock_wf. intros H1 H2.
  apply andb_prop in H1. destruct H1 as [H1 Hlen]. apply andb_prop in H1. destruct H1 as [H1 Hrng].
  apply andb_prop in H1. destruct H1 as [H1 Hcrc]. apply andb_prop in H1. destruct H1 as [Hnum Hfl].
  apply andb_prop in H2. destruct H2 as [Hv _].
  assert (Hwf : ext_wf (c_val c) = true) by (apply ext_rng_valid_wf; assumption).
  rewrite (enc_ext_inner_ok _ Hwf), Hnum, Hfl, Hcrc, Hwf, Hlen. reflexivity.
Qed.

Lemma dec_blocks_rng : forall fuel bs acc bl rest,
  bytes_ok bs = true -> forallb cblock_rng acc = true ->
  dec_blocks fuel bs acc = Some (bl, rest) -> forallb cblock_rng bl = true.
Proof.
  induction fuel as [|fuel IH]; intros bs acc bl rest Hb Ha H; cbn [dec_blocks] in H; [discriminate|].
  destruct (starts_with 255 bs); [inversion H; subst; exact Ha|].
  destruct (dec_cblock bs) as [c r| |] eqn:E.
  - destruct (dec_cblock_rng bs c r Hb E) as [Hc Hr].
    apply (IH r (acc ++ [c]) bl rest Hr); [|exact H]. rewrite forallb_app, Ha. cbn. rewrite Hc. reflexivity.
  - inversion H; subst. exact Ha.
  - discriminate.
Qed.

(* ---- primary block ---- *)
Definition primary_rng (p : primary) : bool :=
  u64_ok (p_flags p) && crc_type_ok (p_crc p) && eid_wf (p_dst p) && eid_wf (p_src p) && eid_wf (p_rpt p)
  && u64_ok (p_time p) && u64_ok (p_seq p) && u64_ok (p_life p) && u64_ok (p_off p) && u64_ok (p_total p).

Lemma dec_primary_rng bs p r : bytes_ok bs = true -> dec_primary bs = Ok p r -> primary_rng p = true /\ bytes_ok r = true.
Proof.
  intros Hb H. unfold dec_primary in H.
  destruct (read_arr bs) as [l r0| |] eqn:E0; cbn [bind] in H; try discriminate.
  destruct (read_expect_min mArray bs l r0 Hb E0) as (_ & Hb0 & _).
  destruct (negb ((8 <=? l) && (l <=? 11))); [discriminate|].
  destruct (read_uint r0) as [ver r1| |] eqn:E1; cbn [bind] in H; try discriminate.
  destruct (read_uint_min r0 ver r1 Hb0 E1) as (_ & Hb1 & _).
  destruct (negb (ver =? 7)); [discriminate|].
  destruct (read_uint r1) as [fl r2| |] eqn:E2; cbn [bind] in H; try discriminate.
  destruct (read_uint_min r1 fl r2 Hb1 E2) as (Hfl & Hb2 & _).
  destruct (read_uint r2) as [crc r3| |] eqn:E3; cbn [bind] in H; try discriminate.
  destruct (read_uint_min r2 crc r3 Hb2 E3) as (_ & Hb3 & _).
  destruct (2 <? crc) eqn:Ecrc; [discriminate|].
  destruct (negb (Bool.eqb ((l =? 9) || (l =? 11)) (negb (crc =? 0)))); [discriminate|].
  destruct (dec_eid r3) as [dst r4| |] eqn:E4; cbn [bind] in H; try discriminate.
  destruct (dec_eid_min r3 dst r4 Hb3 E4) as (Hdst & Hb4 & _).
  destruct (dec_eid r4) as [src r5| |] eqn:E5; cbn [bind] in H; try discriminate.
  destruct (dec_eid_min r4 src r5 Hb4 E5) as (Hsrc & Hb5 & _).
  destruct (dec_eid r5) as [rpt r6| |] eqn:E6; cbn [bind] in H; try discriminate.
  destruct (dec_eid_min r5 rpt r6 Hb5 E6) as (Hrpt & Hb6 & _).
  destruct (read_arr r6) as [l2 r7| |] eqn:E7; cbn [bind] in H; try discriminate.
  destruct (read_expect_min mArray r6 l2 r7 Hb6 E7) as (_ & Hb7 & _).
  destruct (negb (l2 =? 2)); [discriminate|].
  destruct (read_uint r7) as [tm r8| |] eqn:E8; cbn [bind] in H; try discriminate.
  destruct (read_uint_min r7 tm r8 Hb7 E8) as (Htm & Hb8 & _).
  destruct (read_uint r8) as [sq r9| |] eqn:E9; cbn [bind] in H; try discriminate.
  destruct (read_uint_min r8 sq r9 Hb8 E9) as (Hsq & Hb9 & _).
  destruct (read_uint r9) as [life r10| |] eqn:E10; cbn [bind] in H; try discriminate.
  destruct (read_uint_min r9 life r10 Hb9 E10) as (Hlife & Hb10 & _).
  match type of H with bind ?x _ = _ => destruct x as [[off tot] r11| |] eqn:E11; cbn [bind] in H; try discriminate end.
  assert (Hot : u64_ok off = true /\ u64_ok tot = true /\ bytes_ok r11 = true).
  { destruct ((l =? 10) || (l =? 11)).
    - destruct (read_uint r10) as [o1 ra| |] eqn:Ea; cbn [bind] in E11; try discriminate.
      destruct (read_uint_min r10 o1 ra Hb10 Ea) as (Ho & Hba & _).
      destruct (read_uint ra) as [t1 rb| |] eqn:Eb; cbn [bind] in E11; try discriminate.
      destruct (read_uint_min ra t1 rb Hba Eb) as (Ht & Hbb & _). inversion E11; subst. tauto.
    - inversion E11; subst. repeat split; try reflexivity. exact Hb10. }
  destruct Hot as (Hoff & Htot & Hb11). cbn [fst snd] in H.
  assert (Hrng : primary_rng {| p_flags := fl; p_crc := crc; p_dst := dst; p_src := src; p_rpt := rpt;
                                p_time := tm; p_seq := sq; p_life := life; p_off := off; p_total := tot |} = true).
  { unfold primary_rng, crc_type_ok. cbn [p_flags p_crc p_dst p_src p_rpt p_time p_seq p_life p_off p_total].
    rewrite Hfl, Hdst, Hsrc, Hrpt, Htm, Hsq, Hlife, Hoff, Htot. replace (crc <=? 2) with true by (clear - Ecrc; lia). reflexivity. }
  destruct ((l =? 9) || (l =? 11)).
  - destruct (check_crc crc bs r11) as [u r12| |] eqn:E12; cbn [bind] in H; try discriminate. destruct u.
    inversion H; subst. split; [exact Hrng|]. eapply check_crc_ok_rest; eauto.
  - inversion H; subst. split; [exact Hrng|exact Hb11].
Qed.

(* the serialiser ignores offset / total length of a bundle without the fragment flag *)
Definition norm_primary (p : primary) : primary :=
  if has (p_flags p) F_FRAG then p
  else {| p_flags := p_flags p; p_crc := p_crc p; p_dst := p_dst p; p_src := p_src p; p_rpt := p_rpt p;
          p_time := p_time p; p_seq := p_seq p; p_life := p_life p; p_off := 0; p_total := 0 |}.
Definition norm_bundle (b : bundle) : bundle := {| b_pri := norm_primary (b_pri b); b_blocks := b_blocks b |}.

Lemma primary_rng_valid_wf p : primary_rng p = true -> primary_valid p = true -> primary_wf (norm_primary p) = true.
Proof.
  unfold primary_rng, primary_valid, primary_wf, norm_primary. intros H1 H2.
  repeat (apply andb_prop in H1; destruct H1 as [H1 ?]).
  repeat (apply andb_prop in H2; destruct H2 as [H2 ?]).
  unfold eid_ok.
  destruct (has (p_flags p) F_FRAG) eqn:Ef; cbn [p_flags p_crc p_dst p_src p_rpt p_time p_seq p_life p_off p_total];
    rewrite ?Ef;
    repeat (apply andb_true_intro; split); try assumption; try reflexivity.
Qed.

Lemma norm_enc_primary p : enc_primary (norm_primary p) = enc_primary p.
Proof.
  unfold norm_primary. destruct (has (p_flags p) F_FRAG) eqn:Ef; [reflexivity|].
  unfold enc_primary. cbn [p_flags p_crc p_dst p_src p_rpt p_time p_seq p_life p_off p_total]. rewrite Ef. reflexivity.
Qed.

Lemma norm_check_valid now b : check_valid now (norm_bundle b) = check_valid now b.
Proof.
  unfold norm_bundle, norm_primary. destruct b as [p bl]. cbn [b_pri b_blocks].
  destruct (has (p_flags p) F_FRAG); reflexivity.
Qed.

Lemma norm_id_str b : id_str (norm_bundle b) = id_str b.
Proof.
  destruct b as [p bl]. unfold norm_bundle, norm_primary, id_str. cbn [b_pri b_blocks].
  destruct (has (p_flags p) F_FRAG) eqn:Ef.
  - rewrite Ef. reflexivity.
  - cbn [p_flags p_src p_time p_seq p_off p_total]. rewrite Ef. reflexivity.
Qed.

(* ---- the bundle ---- *)
Theorem decoded_bundle_wf now bs b rest :
  bytes_ok bs = true -> dec_bundle now bs = Some (b, rest) -> bundle_wf (norm_bundle b) = true.
Proof.
  intros Hb H. unfold dec_bundle in H. destruct (starts_with 159 bs) eqn:Es; [|discriminate].
  assert (Htl : bytes_ok (tl bs) = true).
  { destruct bs as [|x bs]; [reflexivity|]. unfold bytes_ok in *. cbn [forallb tl] in *. apply andb_prop in Hb. tauto. }
  destruct (dec_primary (tl bs)) as [p r1| |] eqn:Ep; cbn [nobrk] in H; try discriminate.
  destruct (dec_primary_rng (tl bs) p r1 Htl Ep) as [Hp Hr1].
  destruct (dec_blocks (S (length r1)) r1 []) as [[bl rest']|] eqn:Ebl; [|discriminate].
  pose proof (dec_blocks_rng (S (length r1)) r1 [] bl rest' Hr1 (eq_refl : forallb cblock_rng [] = true) Ebl) as Hbl.
  destruct (check_valid now {| b_pri := p; b_blocks := bl |}) eqn:Ev; [|discriminate].
  inversion H; subst b rest'. clear H.
  assert (Hpv : primary_valid p = true /\ forallb cblock_valid bl = true).
  { unfold check_valid in Ev. cbn [b_pri b_blocks] in Ev.
    do 7 (apply andb_prop in Ev; destruct Ev as [Ev _]). apply andb_prop in Ev. exact Ev. }
  destruct Hpv as [Hpv Hcv].
  unfold bundle_wf, norm_bundle. cbn [b_pri b_blocks].
  apply andb_true_intro. split.
  - apply primary_rng_valid_wf; assumption.
  - rewrite forallb_forall in *. intros c Hc. apply cblock_rng_valid_wf; [apply Hbl, Hc|apply Hcv, Hc].
Qed.
