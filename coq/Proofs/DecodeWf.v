(* DecodeWf.v - what a successful decode guarantees about the decoded value: every field is in
   the range the round-trip theorem needs, and the canonical re-encoding of each component is no
   longer than the bytes it was read from (minimal heads, dropped trailing bytes, merged map
   duplicates).  With CheckValid this gives bundle_wf of the (normalised) decoded bundle. *)
From DTN Require Import Base Cbor CborProofs Crc Eid EidProofs Bundle BundleWf BundleProofs DecodeInv.
From Coq Require Import ZifyN ZifyNat ZifyBool.
Open Scope N_scope.

Lemma head_bytes_length_le m n : (length (head_bytes m n) <= 9)%nat.
Proof.
  unfold head_bytes. destruct (n <? 24); [cbn; lia|]. destruct (n <? 256); [cbn; lia|].
  destruct (n <? 65536); [cbn [length]; rewrite be_encode_length; lia|].
  destruct (n <? 4294967296); cbn [length]; rewrite be_encode_length; lia.
Qed.

Ltac pw256 :=
  repeat match goal with
         | H : context [256 ^ N.of_nat ?k] |- _ =>
             let v := eval vm_compute in (256 ^ N.of_nat k) in change (256 ^ N.of_nat k) with v in H
         end.

Lemma head_bytes_len_bound m n (l : nat) :
  n < 256 ^ N.of_nat l -> (l = 1 \/ l = 2 \/ l = 4 \/ l = 8)%nat -> (length (head_bytes m n) <= 1 + l)%nat.
Proof.
  intros Hn Hl. unfold head_bytes.
  destruct (n <? 24) eqn:E1; [cbn [length]; lia|].
  destruct (n <? 256) eqn:E2; [cbn [length]; lia|].
  destruct (n <? 65536) eqn:E3.
  { cbn [length]. rewrite be_encode_length. destruct Hl as [-> | [-> | [-> | ->]]]; pw256; lia. }
  destruct (n <? 4294967296) eqn:E4.
  { cbn [length]. rewrite be_encode_length. destruct Hl as [-> | [-> | [-> | ->]]]; pw256; lia. }
  cbn [length]. rewrite be_encode_length. destruct Hl as [-> | [-> | [-> | ->]]]; pw256; lia.
Qed.

Lemma read_head_min bs m n r : bytes_ok bs = true -> read_head bs = Ok (m, n) r ->
  n < 18446744073709551616 /\ bytes_ok r = true /\ (length (head_bytes m n) + length r <= length bs)%nat.
Proof.
  intros Hb H. destruct (read_head_ok bs m n r Hb H) as (Hn & Hr & Hl).
  split; [exact Hn|]. split; [exact Hr|].
  destruct bs as [|b bs]; [discriminate|]. cbn [read_head] in H.
  unfold bytes_ok in Hb. cbn [forallb] in Hb. apply andb_prop in Hb. destruct Hb as [_ Hb2].
  destruct (b =? 159); [discriminate|]. destruct (b =? 255); [discriminate|].
  destruct (b mod 32 <? 24) eqn:E1.
  - inversion H; subst. unfold head_bytes. replace (b mod 32 <? 24) with true by lia. cbn [length]. lia.
  - destruct (b mod 32 <? 28) eqn:E2; [|discriminate]. unfold take_exact in H.
    destruct (Nat.leb (Nat.pow 2 (N.to_nat (b mod 32 - 24))) (length bs)) eqn:E3; [|discriminate].
    inversion H; subst; clear H. apply Nat.leb_le in E3.
    set (l := Nat.pow 2 (N.to_nat (b mod 32 - 24))) in *.
    assert (Hlc : (l = 1 \/ l = 2 \/ l = 4 \/ l = 8)%nat).
    { subst l. assert (Hc : b mod 32 - 24 = 0 \/ b mod 32 - 24 = 1 \/ b mod 32 - 24 = 2 \/ b mod 32 - 24 = 3) by lia.
      destruct Hc as [-> | [-> | [-> | ->]]]; cbn; tauto. }
    pose proof (be_decode_acc_bound (firstn l bs) 0 (bytes_ok_firstn l bs Hb2)) as Hbd.
    rewrite firstn_length, Nat.min_l in Hbd by lia. fold (be_decode (firstn l bs)) in Hbd.
    assert (Hbd' : be_decode (firstn l bs) < 256 ^ N.of_nat l) by lia.
    pose proof (head_bytes_len_bound (b - b mod 32) (be_decode (firstn l bs)) l Hbd' Hlc) as Hhb.
    rewrite skipn_length. cbn [length]. lia.
Qed.

Lemma read_expect_min mj bs n r : bytes_ok bs = true -> read_expect mj bs = Ok n r ->
  u64_ok n = true /\ bytes_ok r = true /\ (length (head_bytes mj n) + length r <= length bs)%nat.
Proof.
  unfold read_expect. intros Hb H. destruct (read_head bs) as [[m' n'] r'| |] eqn:E; cbn [bind] in H; try discriminate.
  cbn [fst snd] in H. destruct (m' =? mj) eqn:Em; [|discriminate]. inversion H; subst. apply N.eqb_eq in Em. subst m'.
  destruct (read_head_min bs mj n r Hb E) as (H1 & H2 & H3). unfold u64_ok. split; [lia|]. tauto.
Qed.

Lemma read_raw_wf n bs d r : bytes_ok bs = true -> read_raw n bs = Ok d r ->
  nlen d = n /\ len_ok d = true /\ bs = d ++ r /\ bytes_ok d = true /\ bytes_ok r = true.
Proof.
  intros Hb H. destruct (read_raw_ok n bs d r Hb H) as (H1 & H2 & H3 & H4 & H5).
  unfold len_ok. repeat split; try assumption. lia.
Qed.

Lemma read_bstr_min bs d r : bytes_ok bs = true -> read_bstr bs = Ok d r ->
  len_ok d = true /\ bytes_ok d = true /\ bytes_ok r = true /\ (length (enc_bstr d) + length r <= length bs)%nat.
Proof.
  unfold read_bstr. intros Hb H. destruct (read_expect mBytes bs) as [n r0| |] eqn:E; cbn [bind] in H; try discriminate.
  destruct (read_expect_min mBytes bs n r0 Hb E) as (Hn & Hr0 & Hl).
  destruct (read_raw_wf n r0 d r Hr0 H) as (H1 & H2 & H3 & H4 & H5).
  repeat split; try assumption. unfold enc_bstr. rewrite app_length, H1. subst r0. rewrite app_length in Hl. lia.
Qed.

(* ---- endpoint IDs ---- *)
Lemma span_node_inv s : forall a b, span_node s = (a, b) -> s = a ++ b /\ forallb is_node_char a = true.
Proof.
  induction s as [|c s IH]; intros a b H; cbn [span_node] in H.
  - inversion H; subst. split; reflexivity.
  - destruct (is_node_char c) eqn:Ec.
    + destruct (span_node s) as [a' b'] eqn:Es. inversion H; subst. destruct (IH a' b eq_refl) as [-> Ha].
      split; [reflexivity|]. cbn [forallb]. rewrite Ec, Ha. reflexivity.
    + inversion H; subst. split; reflexivity.
Qed.

Lemma parse_ssp_inv s node demux : parse_ssp s = Some (node, demux) ->
  s = ssp_bytes node demux /\ eid_valid (Dtn node demux) = true.
Proof.
  unfold parse_ssp. destruct s as [|c1 s]; [discriminate|]. destruct c1 as [|p1]; [discriminate|].
  assert (Hc1 : N.pos p1 = 47 \/ N.pos p1 <> 47) by lia. destruct Hc1 as [Hc1 | Hc1].
  2:{ intros H. exfalso. repeat (destruct p1 as [p1|p1|]; try discriminate; try (apply Hc1; reflexivity)). }
  injection Hc1 as ->. destruct s as [|c2 s]; [discriminate|]. destruct c2 as [|p2]; [discriminate|].
  assert (Hc2 : N.pos p2 = 47 \/ N.pos p2 <> 47) by lia. destruct Hc2 as [Hc2 | Hc2].
  2:{ intros H. exfalso. repeat (destruct p2 as [p2|p2|]; try discriminate; try (apply Hc2; reflexivity)). }
  injection Hc2 as ->.
  destruct (span_node s) as [nd r'] eqn:Es. destruct nd as [|n0 nd]; [discriminate|].
  destruct r' as [|c3 dm]; [discriminate|]. destruct c3 as [|p3]; [discriminate|].
  assert (Hc3 : N.pos p3 = 47 \/ N.pos p3 <> 47) by lia. destruct Hc3 as [Hc3 | Hc3].
  2:{ intros H. exfalso. repeat (destruct p3 as [p3|p3|]; try discriminate; try (apply Hc3; reflexivity)). }
  injection Hc3 as ->.
  destruct (no_newline dm) eqn:En; [|discriminate]. intros H. inversion H; subst.
  apply span_node_inv in Es. destruct Es as [-> Hch]. split; [reflexivity|].
  unfold eid_valid. rewrite Hch, En. reflexivity.
Qed.

Lemma bytes_ok_app_l a b : bytes_ok (a ++ b) = true -> bytes_ok a = true.
Proof. rewrite bytes_ok_app. intros H. apply andb_prop in H. tauto. Qed.
Lemma bytes_ok_app_r a b : bytes_ok (a ++ b) = true -> bytes_ok b = true.
Proof. rewrite bytes_ok_app. intros H. apply andb_prop in H. tauto. Qed.

Lemma dec_eid_min bs e r : bytes_ok bs = true -> dec_eid bs = Ok e r ->
  eid_wf e = true /\ bytes_ok r = true /\ (length (enc_eid_body e) + length r <= length bs)%nat.
Proof.
  intros Hb H. unfold dec_eid in H.
  destruct (read_arr bs) as [l r1| |] eqn:E1; cbn [bind] in H; try discriminate.
  destruct (read_expect_min mArray bs l r1 Hb E1) as (_ & Hb1 & Hl1).
  destruct (negb (l =? 2)) eqn:El; [discriminate|]. apply negb_false_iff, N.eqb_eq in El. subst l.
  destruct (read_uint r1) as [sch r2| |] eqn:E2; cbn [bind] in H; try discriminate.
  destruct (read_expect_min mUInt r1 sch r2 Hb1 E2) as (_ & Hb2 & Hl2).
  assert (Hh2 : (1 <= length (head_bytes mUInt sch))%nat) by (unfold head_bytes; destruct (sch <? 24); [cbn; lia|]; destruct (sch <? 256); [cbn; lia|]; destruct (sch <? 65536); [cbn; lia|]; destruct (sch <? 4294967296); cbn; lia).
  assert (Ha : length (enc_arr 2) = 1%nat) by reflexivity.
  assert (Harr : length (head_bytes mArray 2) = 1%nat) by reflexivity. rewrite Harr in Hl1.
  destruct (sch =? 1) eqn:Es1.
  - destruct (read_head r2) as [[m n] r3| |] eqn:E3; cbn [bind] in H; try discriminate.
    destruct (read_head_min r2 m n r3 Hb2 E3) as (Hn3 & Hb3 & Hl3).
    assert (Hh3 : (1 <= length (head_bytes m n))%nat) by (unfold head_bytes; destruct (n <? 24); [cbn; lia|]; destruct (n <? 256); [cbn; lia|]; destruct (n <? 65536); [cbn; lia|]; destruct (n <? 4294967296); cbn; lia).
    destruct (m =? mUInt) eqn:Em.
    + inversion H; subst. split; [reflexivity|]. split; [exact Hb3|]. cbn [enc_eid_body]. rewrite !app_length. cbn. lia.
    + destruct (m =? mText) eqn:Emt; [|discriminate]. apply N.eqb_eq in Emt. subst m.
      destruct (read_raw n r3) as [ssp r4| |] eqn:E4; cbn [bind] in H; try discriminate.
      destruct (read_raw_wf n r3 ssp r4 Hb3 E4) as (Hn4 & Hlen4 & Heq4 & Hbs4 & Hb4).
      destruct (bytes_eqb ssp str_none); [discriminate|].
      destruct (parse_ssp ssp) as [[node demux]|] eqn:Ep; [|discriminate]. inversion H; subst e r4.
      apply parse_ssp_inv in Ep. destruct Ep as [Hssp _].
      assert (Hlen_ssp : length ssp = (length node + length demux + 3)%nat).
      { rewrite Hssp. unfold ssp_bytes. cbn [length]. rewrite app_length. cbn [length]. lia. }
      split; [|split; [exact Hb4|]].
      * unfold eid_wf. rewrite Hssp in Hbs4. unfold ssp_bytes in Hbs4.
        change (47 :: 47 :: node ++ 47 :: demux) with ([47; 47] ++ node ++ [47] ++ demux) in Hbs4.
        pose proof (bytes_ok_app_l _ _ (bytes_ok_app_r _ _ Hbs4)) as Hnode.
        pose proof (bytes_ok_app_r _ _ (bytes_ok_app_r _ _ (bytes_ok_app_r _ _ Hbs4))) as Hdemux.
        rewrite Hnode, Hdemux. cbn [andb]. unfold len_ok, nlen, max_raw in *. lia.
      * cbn [enc_eid_body]. unfold enc_tstr. rewrite !app_length, Ha. 
        assert (Hsame : nlen (ssp_bytes node demux) = n) by (rewrite <- Hssp; exact Hn4). rewrite Hsame.
        rewrite <- Hssp. subst r3. rewrite app_length in Hl3.
        assert (Hu1 : length (enc_uint 1) = 1%nat) by reflexivity. rewrite Hu1. lia.
  - destruct (sch =? 2) eqn:Es2; [|discriminate].
    destruct (read_arr r2) as [l2 r3| |] eqn:E3; cbn [bind] in H; try discriminate.
    destruct (read_expect_min mArray r2 l2 r3 Hb2 E3) as (_ & Hb3 & Hl3).
    destruct (negb (l2 =? 2)) eqn:El2; [discriminate|]. apply negb_false_iff, N.eqb_eq in El2. subst l2.
    destruct (read_uint r3) as [n r4| |] eqn:E4; cbn [bind] in H; try discriminate.
    destruct (read_expect_min mUInt r3 n r4 Hb3 E4) as (Hn & Hb4 & Hl4).
    destruct (read_uint r4) as [sv r5| |] eqn:E5; cbn [bind] in H; try discriminate.
    destruct (read_expect_min mUInt r4 sv r5 Hb4 E5) as (Hs & Hb5 & Hl5).
    inversion H; subst e r5. split; [unfold eid_wf; rewrite Hn, Hs; reflexivity|]. split; [exact Hb5|].
    cbn [enc_eid_body]. rewrite !app_length. unfold enc_uint at 2 3. 
    assert (Hu2 : length (enc_uint 2) = 1%nat) by reflexivity. rewrite Ha, Hu2.
    assert (Hh3 : (1 <= length (head_bytes mArray 2))%nat) by (cbn; lia). lia.
Qed.
