(* BuilderProofs.v - every bundle returned by any Build call of any call sequence of the builder
   model passes CheckValid; with in-range arguments it is range-well-formed, hence serialisable and
   accepted by the parser from its own serialisation (C02, second sentence, builder clause). *)
From Coq Require Import Lia Bool.
From DTN Require Import Base Cbor Crc Eid Bundle BundleWf BundleProofs ValidProofs DecodeWf Builder.
Open Scope N_scope.

(* ---------- SetCRCType does not touch what CheckValid looks at ---------- *)
Lemma bld_map_num t l : map c_num (map (bld_block_crc t) l) = map c_num l.
Proof. induction l as [|c l IH]; cbn [map]; [reflexivity|]. rewrite IH. reflexivity. Qed.
Lemma bld_map_type t l : map c_type (map (bld_block_crc t) l) = map c_type l.
Proof. induction l as [|c l IH]; cbn [map]; [reflexivity|]. rewrite IH. reflexivity. Qed.
Lemma bld_forallb_crc (P : cblock -> bool) t l :
  (forall c, P (bld_block_crc t c) = P c) -> forallb P (map (bld_block_crc t) l) = forallb P l.
Proof. intros HP. induction l as [|c l IH]; cbn [map forallb]; [reflexivity|]. rewrite HP, IH. reflexivity. Qed.
Lemma bld_find_type_crc t ty l :
  find_type ty (map (bld_block_crc t) l) = option_map (bld_block_crc t) (find_type ty l).
Proof.
  unfold find_type. induction l as [|c l IH]; cbn [map find option_map]; [reflexivity|].
  change (c_type (bld_block_crc t c)) with (c_type c). destruct (c_type c =? ty); [reflexivity|exact IH].
Qed.

Lemma bld_apply_crc_valid now t b : check_valid now (bld_apply_crc t b) = check_valid now b.
Proof.
  unfold check_valid, bld_apply_crc. cbn [b_pri b_blocks].
  set (p := b_pri b). set (bl := b_blocks b).
  change (primary_valid (pri_with_crc p (if t =? 0 then 2 else t))) with (primary_valid p).
  change (p_flags (pri_with_crc p (if t =? 0 then 2 else t))) with (p_flags p).
  change (p_src (pri_with_crc p (if t =? 0 then 2 else t))) with (p_src p).
  change (p_time (pri_with_crc p (if t =? 0 then 2 else t))) with (p_time p).
  rewrite bld_map_num, bld_map_type.
  rewrite (bld_forallb_crc cblock_valid t bl) by (intros c; reflexivity).
  rewrite (bld_forallb_crc (fun c => negb (has (c_flags c) BF_REPORT)) t bl) by (intros c; reflexivity).
  rewrite bld_find_type_crc.
  assert (Hnil : match map (bld_block_crc t) bl with [] => true | _ => false end
                 = match bl with [] => true | _ => false end) by (destruct bl; reflexivity).
  rewrite Hnil.
  assert (Hfind : match option_map (bld_block_crc t) (find_type 7 bl) with Some _ => true | None => false end
                  = match find_type 7 bl with Some _ => true | None => false end)
    by (destruct (find_type 7 bl); reflexivity).
  rewrite Hfind.
  assert (Hlife : lifetime_exceeded now {| b_pri := pri_with_crc p (if t =? 0 then 2 else t); b_blocks := map (bld_block_crc t) bl |}
                  = lifetime_exceeded now b).
  { unfold lifetime_exceeded. cbn [b_pri b_blocks]. fold p. fold bl.
    change (p_time (pri_with_crc p (if t =? 0 then 2 else t))) with (p_time p).
    change (p_life (pri_with_crc p (if t =? 0 then 2 else t))) with (p_life p).
    change (deadline_ns (pri_with_crc p (if t =? 0 then 2 else t))) with (deadline_ns p).
    rewrite bld_find_type_crc. destruct (find_type 7 bl) as [c|]; cbn [option_map]; [|reflexivity].
    destruct c as [n f cr v]. cbn [bld_block_crc c_num c_flags c_val]. reflexivity. }
  rewrite Hlife. reflexivity.
Qed.

(* ---------- every Build result passes CheckValid ---------- *)
Theorem bld_build_valid now s s' b : bld_build now s = (s', Some b) -> check_valid now b = true.
Proof.
  unfold bld_build. destruct (bld_err s); [discriminate|].
  match goal with |- context [if negb (bld_src_set ?x && bld_dst_set ?x) then _ else _] => set (s1 := x) end.
  destruct (negb (bld_src_set s1 && bld_dst_set s1)); [discriminate|].
  destruct (check_valid now {| b_pri := bld_pri s1; b_blocks := bld_sort (bld_can s1) |}) eqn:Hv; [|discriminate].
  intros H. injection H as _ Hb. subst b. rewrite bld_apply_crc_valid. exact Hv.
Qed.

Lemma bld_step_result now s o s' b : bld_step now s o = (s', Some b) -> o = BoBuild.
Proof.
  destruct o as [e|e|e|t|l|f|c|fl v|c|lim fl|ms fl|e fl|d fl|d|]; cbn [bld_step]; try reflexivity;
    destruct (bld_err s); try discriminate;
    try (destruct e; discriminate); try (destruct l; discriminate); try (destruct ms; discriminate).
Qed.

Definition bld_res_valid (now : N) (r : option bundle) : Prop :=
  match r with Some b => check_valid now b = true | None => True end.

Theorem bld_run_valid now ops : forall s, Forall (bld_res_valid now) (bld_run now s ops).
Proof.
  induction ops as [|o ops IH]; intros s; cbn [bld_run]; [constructor|].
  destruct (bld_step now s o) as [s' res] eqn:Hs.
  destruct o; try apply IH.
  constructor; [|apply IH].
  destruct res as [b|]; cbn [bld_res_valid]; [|exact I].
  cbn [bld_step] in Hs. exact (bld_build_valid now s s' b Hs).
Qed.

(* ---------- in-range arguments: the result is range-well-formed ---------- *)
Definition bld_cand (fl : N) (v : ext) : cblock := {| c_num := 0; c_flags := fl; c_crc := 0; c_val := v |}.

Definition bld_op_wf (o : bld_op) : bool :=
  match o with
  | BoSource (Some e) | BoDest (Some e) | BoReportTo (Some e) => eid_wf e
  | BoTime t => u64_ok t
  | BoLifetime (Some l) => u64_ok l
  | BoFlags f => u64_ok f
  | BoCrc c => c <=? 2
  | BoCanon fl v => cblock_wf (bld_cand fl v)
  | BoCanonBlock c => cblock_wf (bld_cand (c_flags c) (c_val c))
  | BoAge (Some ms) _ => u64_ok ms
  | BoPrev (Some e) _ => cblock_wf (bld_cand BF_REPLICATE (XPrev e))
  | BoPayload d fl => cblock_wf (bld_cand fl (XPayload d))
  | BoAdmin d => cblock_wf (bld_cand 0 (XPayload d))
  | _ => true
  end.

(* a block is fine up to its number and CRC type *)
Definition bld_blk_ok (c : cblock) : bool := cblock_wf (bld_cand (c_flags c) (c_val c)).

Lemma bld_cblock_wf_of c t : bld_blk_ok c = true -> u64_ok (c_num c) = true -> t <=? 2 = true ->
  cblock_wf (bld_block_crc t c) = true.
Proof.
  unfold bld_blk_ok, cblock_wf, bld_cand, bld_block_crc, crc_type_ok. cbn [c_num c_flags c_crc c_val].
  intros H Hn Ht. rewrite Hn, Ht.
  apply andb_prop in H. destruct H as [H Hinner]. apply andb_prop in H. destruct H as [H Hext].
  apply andb_prop in H. destruct H as [H _]. apply andb_prop in H. destruct H as [_ Hfl].
  rewrite Hfl, Hext, Hinner. reflexivity.
Qed.

Record bld_inv (k : N) (s : bld_state) : Prop := {
  bi_blocks : forallb bld_blk_ok (bld_can s) = true;
  bi_nums : forallb (fun c => c_num c <? bld_ctr s) (bld_can s) = true;
  bi_ctr : bld_ctr s + k < 18446744073709551616;
  bi_ctr2 : 2 <= bld_ctr s;
  bi_crc : bld_crc s <=? 2 = true;
  bi_flags : u64_ok (p_flags (bld_pri s)) = true;
  bi_time : u64_ok (p_time (bld_pri s)) = true;
  bi_seq : p_seq (bld_pri s) = 0;
  bi_life : u64_ok (p_life (bld_pri s)) = true;
  bi_off : p_off (bld_pri s) = 0;
  bi_total : p_total (bld_pri s) = 0;
  bi_src : eid_wf (p_src (bld_pri s)) = true;
  bi_dst : eid_wf (p_dst (bld_pri s)) = true;
  bi_rpt : eid_wf (p_rpt (bld_pri s)) = true }.

Lemma bld_inv_init k : 2 + k < 18446744073709551616 -> bld_inv k bld_init.
Proof. intros H. constructor; cbn; try reflexivity; try exact H; lia. Qed.

Lemma forallb_snoc {A} (P : A -> bool) l x : forallb P (l ++ [x]) = forallb P l && P x.
Proof. rewrite forallb_app. cbn [forallb]. rewrite andb_true_r. reflexivity. Qed.

Lemma forallb_weaken {A} (P Q : A -> bool) l : (forall x, P x = true -> Q x = true) ->
  forallb P l = true -> forallb Q l = true.
Proof.
  intros HPQ. induction l as [|x l IH]; cbn [forallb]; [reflexivity|]. intros H.
  apply andb_prop in H. destruct H as [Hx Hl]. rewrite (HPQ x Hx), (IH Hl). reflexivity.
Qed.

Lemma bld_add_inv k s fl crc v : bld_inv (k + 1) s -> bld_blk_ok (bld_cand fl v) = true ->
  bld_inv k (bld_add s fl crc v).
Proof.
  intros [Hb Hn Hc Hc2 Hcrc Hf Ht Hs Hl Ho Htot Hsrc Hdst Hrpt] Hok. unfold bld_add.
  assert (Hn1 : forallb (fun c => c_num c <? bld_ctr s + 1) (bld_can s) = true).
  { apply (forallb_weaken (fun c => c_num c <? bld_ctr s)); [|exact Hn].
    intros x Hx. apply N.ltb_lt. apply N.ltb_lt in Hx. lia. }
  destruct (ext_type v =? T_PAYLOAD); constructor; cbn [bld_can bld_ctr bld_crc bld_pri]; try assumption; try lia.
  - rewrite forallb_snoc, Hb. exact Hok.
  - rewrite forallb_snoc, Hn. cbn [c_num]. apply N.ltb_lt. lia.
  - rewrite forallb_snoc, Hb. exact Hok.
  - rewrite forallb_snoc, Hn1. cbn [c_num]. apply N.ltb_lt. lia.
Qed.

Lemma bld_inv_mono k s : bld_inv (k + 1) s -> bld_inv k s.
Proof. intros [Hb Hn Hc Hc2 Hcrc Hf Ht Hs Hl Ho Htot Hsrc Hdst Hrpt]. constructor; try assumption. lia. Qed.

Lemma bld_set_pri_inv k s p : bld_inv k s ->
  u64_ok (p_flags p) = true -> u64_ok (p_time p) = true -> p_seq p = 0 -> u64_ok (p_life p) = true ->
  p_off p = 0 -> p_total p = 0 -> eid_wf (p_src p) = true -> eid_wf (p_dst p) = true -> eid_wf (p_rpt p) = true ->
  bld_inv k (bld_set_pri s p).
Proof.
  intros [Hb Hn Hc Hc2 Hcrc Hf Ht Hs Hl Ho Htot Hsrc Hdst Hrpt] ? ? ? ? ? ? ? ? ?.
  constructor; cbn [bld_set_pri bld_can bld_ctr bld_crc bld_pri]; assumption.
Qed.

(* bit facts for the flag word of AdministrativeRecord *)
Lemma u64_lor a b : u64_ok a = true -> u64_ok b = true -> u64_ok (N.lor a b) = true.
Proof.
  unfold u64_ok. intros Ha Hb. apply N.ltb_lt in Ha. apply N.ltb_lt in Hb. apply N.ltb_lt.
  change 18446744073709551616 with (2 ^ 64) in *.
  destruct (N.eq_dec (N.lor a b) 0) as [E|E]; [rewrite E; reflexivity|].
  apply N.log2_lt_pow2; [lia|]. rewrite N.log2_lor.
  destruct (N.eq_dec a 0) as [Ea|Ea]; destruct (N.eq_dec b 0) as [Eb|Eb].
  - subst. cbn. lia.
  - subst a. rewrite N.max_r by (cbn; lia). apply N.log2_lt_pow2; lia.
  - subst b. rewrite N.max_l by (cbn; lia). apply N.log2_lt_pow2; lia.
  - apply N.max_lub_lt; apply N.log2_lt_pow2; lia.
Qed.

Lemma u64_ldiff a b : u64_ok a = true -> u64_ok (N.ldiff a b) = true.
Proof.
  unfold u64_ok. intros Ha. apply N.ltb_lt in Ha.
  change 18446744073709551616 with (2 ^ 64) in *.
  destruct (N.eq_dec (N.ldiff a b) 0) as [E|E]; [rewrite E; reflexivity|].
  apply N.ltb_lt. apply N.log2_lt_pow2; [lia|].
  destruct (N.lt_ge_cases (N.log2 (N.ldiff a b)) 64) as [H|H]; [exact H|exfalso].
  pose proof (N.bit_log2 _ E) as Hb. rewrite N.ldiff_spec in Hb. apply andb_prop in Hb. destruct Hb as [Hb _].
  assert (Ha0 : a <> 0) by (intros ->; apply E; apply N.ldiff_0_l).
  assert (Hla : N.log2 a < 64) by (apply N.log2_lt_pow2; lia).
  rewrite N.bits_above_log2 in Hb by lia. discriminate.
Qed.

Lemma bld_blk_ok_cand fl v : bld_blk_ok (bld_cand fl v) = cblock_wf (bld_cand fl v).
Proof. reflexivity. Qed.

(* the hop-count block of HopCountBlock(limit): fine for every limit (uint8 conversion) *)
Lemma bld_hop_sweep :
  forallb (fun k => cblock_wf (bld_cand BF_REPLICATE (XHop (N.of_nat k) 0))) (seq 0 256) = true.
Proof. vm_compute. reflexivity. Qed.

Lemma bld_hop_ok limit : bld_blk_ok (bld_cand BF_REPLICATE (XHop (limit mod 256) 0)) = true.
Proof.
  rewrite bld_blk_ok_cand.
  assert (H : limit mod 256 < 256) by (apply N.mod_lt; lia).
  pose proof (proj1 (forallb_forall _ _) bld_hop_sweep (N.to_nat (limit mod 256))) as Hs.
  cbv beta in Hs. rewrite N2Nat.id in Hs. apply Hs. apply in_seq. lia.
Qed.

Lemma bld_age_ok ms : u64_ok ms = true -> bld_blk_ok (bld_cand BF_REPLICATE (XAge ms)) = true.
Proof.
  intros H. rewrite bld_blk_ok_cand. unfold cblock_wf, bld_cand. cbn [c_num c_flags c_crc c_val ext_wf enc_ext_inner].
  rewrite H. cbn [u64_ok crc_type_ok andb]. change (u64_ok 0) with true. change (u64_ok BF_REPLICATE) with true.
  change (0 <=? 2) with true. cbn [andb].
  unfold len_ok, nlen, enc_uint. apply N.leb_le.
  pose proof (head_bytes_length_le mUInt ms) as Hl. unfold max_raw. lia.
Qed.

(* ---------- one call keeps the invariant ---------- *)
Lemma bld_step_inv now k s o : bld_inv (k + 1) s -> bld_op_wf o = true -> bld_inv k (fst (bld_step now s o)).
Proof.
  intros Hi Hw. pose proof (bld_inv_mono k s Hi) as Hk.
  destruct o as [e|e|e|t|l|f|c|fl v|c|lim fl|ms fl|e fl|d fl|d|]; cbn [bld_step].
  - (* Source *) destruct (bld_err s) eqn:He; [exact Hk|]. destruct e as [e|]; cbn [fst].
    + destruct Hk. constructor; cbn [bld_can bld_ctr bld_crc bld_pri pri_with_src p_flags p_time p_seq p_life p_off p_total p_src p_dst p_rpt]; assumption.
    + destruct Hk. constructor; cbn [bld_fail bld_can bld_ctr bld_crc bld_pri]; assumption.
  - destruct (bld_err s) eqn:He; [exact Hk|]. destruct e as [e|]; cbn [fst].
    + destruct Hk. constructor; cbn [bld_can bld_ctr bld_crc bld_pri pri_with_dst p_flags p_time p_seq p_life p_off p_total p_src p_dst p_rpt]; assumption.
    + destruct Hk. constructor; cbn [bld_fail bld_can bld_ctr bld_crc bld_pri]; assumption.
  - destruct (bld_err s) eqn:He; [exact Hk|]. destruct e as [e|]; cbn [fst].
    + destruct Hk. constructor; cbn [bld_can bld_ctr bld_crc bld_pri pri_with_rpt p_flags p_time p_seq p_life p_off p_total p_src p_dst p_rpt]; assumption.
    + destruct Hk. constructor; cbn [bld_fail bld_can bld_ctr bld_crc bld_pri]; assumption.
  - (* Time *) destruct (bld_err s) eqn:He; [exact Hk|]. cbn [fst]. cbn [bld_op_wf] in Hw.
    destruct Hk. apply bld_set_pri_inv; cbn [pri_with_time p_flags p_time p_seq p_life p_off p_total p_src p_dst p_rpt]; try assumption; try reflexivity.
    constructor; assumption.
  - (* Lifetime *) destruct (bld_err s) eqn:He; [exact Hk|]. destruct l as [l|]; cbn [fst].
    + cbn [bld_op_wf] in Hw. destruct Hk. apply bld_set_pri_inv; cbn [pri_with_life p_flags p_time p_seq p_life p_off p_total p_src p_dst p_rpt]; try assumption.
      constructor; assumption.
    + destruct Hk. constructor; cbn [bld_fail bld_can bld_ctr bld_crc bld_pri]; assumption.
  - (* Flags *) destruct (bld_err s) eqn:He; [exact Hk|]. cbn [fst]. cbn [bld_op_wf] in Hw.
    destruct Hk. apply bld_set_pri_inv; cbn [pri_with_flags p_flags p_time p_seq p_life p_off p_total p_src p_dst p_rpt]; try assumption.
    constructor; assumption.
  - (* Crc *) destruct (bld_err s) eqn:He; [exact Hk|]. cbn [fst]. cbn [bld_op_wf] in Hw.
    destruct Hk. constructor; cbn [bld_can bld_ctr bld_crc bld_pri]; assumption.
  - (* Canon *) destruct (bld_err s) eqn:He; [exact Hk|]. cbn [fst]. apply bld_add_inv; [exact Hi|exact Hw].
  - (* CanonBlock *) destruct (bld_err s) eqn:He; [exact Hk|]. cbn [fst]. apply bld_add_inv; [exact Hi|exact Hw].
  - (* Hop *) destruct (bld_err s) eqn:He; [exact Hk|]. cbn [fst]. apply bld_add_inv; [exact Hi|apply bld_hop_ok].
  - (* Age *) destruct (bld_err s) eqn:He; [exact Hk|]. destruct ms as [ms|]; cbn [fst].
    + apply bld_add_inv; [exact Hi|apply bld_age_ok; exact Hw].
    + destruct Hk. constructor; cbn [bld_fail bld_can bld_ctr bld_crc bld_pri]; assumption.
  - (* Prev *) destruct (bld_err s) eqn:He; [exact Hk|]. destruct e as [e|]; cbn [fst].
    + apply bld_add_inv; [exact Hi|exact Hw].
    + destruct Hk. constructor; cbn [bld_fail bld_can bld_ctr bld_crc bld_pri]; assumption.
  - (* Payload *) destruct (bld_err s) eqn:He; [exact Hk|]. cbn [fst]. apply bld_add_inv; [exact Hi|exact Hw].
  - (* Admin *) destruct (bld_err s) eqn:He; [exact Hk|]. cbn [fst]. apply bld_add_inv; [|exact Hw].
    destruct Hi. apply bld_set_pri_inv; cbn [pri_with_flags p_flags p_time p_seq p_life p_off p_total p_src p_dst p_rpt]; try assumption.
    + constructor; assumption.
    + apply u64_ldiff. apply u64_lor; [assumption|reflexivity].
  - (* Build *) unfold bld_build. destruct (bld_err s) eqn:He; [exact Hk|].
    assert (Hs1 : bld_inv k (if negb (bld_rpt_set s) && bld_src_set s then
        {| bld_err := false; bld_pri := pri_with_rpt (bld_pri s) (p_src (bld_pri s));
           bld_src_set := bld_src_set s; bld_dst_set := bld_dst_set s; bld_rpt_set := true;
           bld_can := bld_can s; bld_ctr := bld_ctr s; bld_crc := bld_crc s |} else s)).
    { destruct (negb (bld_rpt_set s) && bld_src_set s); [|exact Hk].
      destruct Hk. constructor; cbn [bld_can bld_ctr bld_crc bld_pri pri_with_rpt p_flags p_time p_seq p_life p_off p_total p_src p_dst p_rpt]; assumption. }
    match goal with |- context [if negb (bld_src_set ?x && bld_dst_set ?x) then _ else _] => set (s1 := x) in * end.
    destruct (negb (bld_src_set s1 && bld_dst_set s1)); [exact Hs1|].
    destruct (check_valid now _); exact Hs1.
Qed.

(* ---------- sorting keeps what is said about all blocks ---------- *)
Lemma bld_insert_forallb (P : cblock -> bool) c l : forallb P (bld_insert c l) = P c && forallb P l.
Proof.
  induction l as [|x l IH]; cbn [bld_insert forallb]; [reflexivity|].
  destruct (bld_before x c); cbn [forallb]; [|reflexivity].
  rewrite IH. destruct (P x), (P c); reflexivity.
Qed.
Lemma bld_sort_forallb (P : cblock -> bool) l : forallb P (bld_sort l) = forallb P l.
Proof. induction l as [|c l IH]; cbn [bld_sort forallb]; [reflexivity|]. rewrite bld_insert_forallb, IH. reflexivity. Qed.

(* ---------- a Build result in a state satisfying the invariant is range-well-formed ---------- *)
Lemma bld_build_wf now k s s' b : bld_inv k s -> bld_build now s = (s', Some b) -> bundle_wf b = true.
Proof.
  intros Hi. unfold bld_build. destruct (bld_err s); [discriminate|].
  assert (Hs1 : bld_inv k (if negb (bld_rpt_set s) && bld_src_set s then
      {| bld_err := false; bld_pri := pri_with_rpt (bld_pri s) (p_src (bld_pri s));
         bld_src_set := bld_src_set s; bld_dst_set := bld_dst_set s; bld_rpt_set := true;
         bld_can := bld_can s; bld_ctr := bld_ctr s; bld_crc := bld_crc s |} else s)).
  { destruct (negb (bld_rpt_set s) && bld_src_set s); [|exact Hi].
    destruct Hi. constructor; cbn [bld_can bld_ctr bld_crc bld_pri pri_with_rpt p_flags p_time p_seq p_life p_off p_total p_src p_dst p_rpt]; assumption. }
  match goal with |- context [if negb (bld_src_set ?x && bld_dst_set ?x) then _ else _] => set (s1 := x) in * end.
  destruct (negb (bld_src_set s1 && bld_dst_set s1)); [discriminate|].
  destruct (check_valid now {| b_pri := bld_pri s1; b_blocks := bld_sort (bld_can s1) |}) eqn:Hv; [|discriminate].
  intros H. injection H as _ Hb. subst b.
  destruct Hs1 as [Hb Hn Hc Hc2 Hcrc Hf Ht Hsq Hl Ho Htot Hsrc Hdst Hrpt].
  unfold bundle_wf, bld_apply_crc. cbn [b_pri b_blocks]. apply andb_true_intro. split.
  - (* primary *)
    unfold check_valid in Hv. cbn [b_pri b_blocks] in Hv.
    do 8 (apply andb_prop in Hv; destruct Hv as [Hv _]).
    unfold primary_valid in Hv. do 3 (apply andb_prop in Hv; destruct Hv as [Hv ?]).
    apply andb_prop in Hv. destruct Hv as [Hv ?].
    unfold primary_wf, eid_ok, crc_type_ok.
    cbn [pri_with_crc p_flags p_crc p_time p_seq p_life p_off p_total p_src p_dst p_rpt].
    rewrite Hf, Ht, Hl, Hsq, Ho, Htot, Hsrc, Hdst, Hrpt.
    repeat match goal with H : eid_valid _ = true |- _ => rewrite H; clear H end.
    assert (Hcr2 : (if bld_crc s1 =? 0 then 2 else bld_crc s1) <=? 2 = true)
      by (destruct (bld_crc s1 =? 0); [reflexivity|exact Hcrc]).
    rewrite Hcr2. change (u64_ok 0) with true. change (0 =? 0) with true.
    cbn [andb]. rewrite orb_true_r. reflexivity.
  - (* blocks *)
    rewrite forallb_forall. intros c Hin. apply in_map_iff in Hin. destruct Hin as [c0 [Hc0 Hin]]. subst c.
    assert (Hall : forallb (fun c => bld_blk_ok c && (c_num c <? bld_ctr s1)) (bld_sort (bld_can s1)) = true).
    { rewrite bld_sort_forallb. rewrite forallb_forall. intros x Hx.
      rewrite (proj1 (forallb_forall _ _) Hb x Hx), (proj1 (forallb_forall _ _) Hn x Hx). reflexivity. }
    pose proof (proj1 (forallb_forall _ _) Hall c0 Hin) as H0. cbv beta in H0.
    apply andb_prop in H0. destruct H0 as [Hok Hlt]. apply N.ltb_lt in Hlt.
    apply bld_cblock_wf_of; [exact Hok| |exact Hcrc].
    unfold u64_ok. apply N.ltb_lt. lia.
Qed.

(* ---------- whole call sequences ---------- *)
Definition bld_res_accepted (now : N) (r : option bundle) : Prop :=
  match r with
  | Some b => check_valid now b = true /\ bundle_wf b = true
              /\ exists bs, enc_bundle b = Some bs /\ dec_bundle now bs = Some (b, [])
  | None => True
  end.

Lemma bld_accept now b : check_valid now b = true -> bundle_wf b = true -> bld_res_accepted now (Some b).
Proof.
  intros Hv Hwf. cbn [bld_res_accepted]. split; [exact Hv|]. split; [exact Hwf|].
  exists (bundle_bytes b). split; [exact (enc_bundle_ok b Hwf)|].
  rewrite <- (app_nil_r (bundle_bytes b)). exact (dec_bundle_enc now b [] Hwf Hv).
Qed.

Theorem bld_run_accepted now ops : forall s,
  forallb bld_op_wf ops = true -> bld_inv (nlen ops) s ->
  Forall (bld_res_accepted now) (bld_run now s ops).
Proof.
  induction ops as [|o ops IH]; intros s Hw Hi; cbn [bld_run]; [constructor|].
  cbn [forallb] in Hw. apply andb_prop in Hw. destruct Hw as [Hwo Hws].
  assert (Hi1 : bld_inv (nlen ops + 1) s).
  { replace (nlen ops + 1) with (nlen (o :: ops)); [exact Hi|]. unfold nlen. cbn [length]. lia. }
  pose proof (bld_step_inv now (nlen ops) s o Hi1 Hwo) as Hnext.
  destruct (bld_step now s o) as [s' res] eqn:Hs. cbn [fst] in Hnext.
  destruct o; try (apply IH; assumption).
  constructor; [|apply IH; assumption].
  destruct res as [b|]; [|exact I].
  cbn [bld_step] in Hs. apply bld_accept.
  - exact (bld_build_valid now s s' b Hs).
  - exact (bld_build_wf now _ s s' b Hi Hs).
Qed.

Theorem bld_builder_accepted now ops :
  forallb bld_op_wf ops = true -> 2 + nlen ops < 18446744073709551616 ->
  Forall (bld_res_accepted now) (bld_run now bld_init ops).
Proof. intros Hw Hlen. apply bld_run_accepted; [exact Hw|]. apply bld_inv_init. exact Hlen. Qed.
