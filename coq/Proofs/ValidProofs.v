(* ValidProofs.v - CheckValid (the executable rule set the parser applies last) implies the
   declarative BPv7 well-formedness rules of property C02; acceptance implies well-formedness. *)
From DTN Require Import Base Cbor Crc Eid EidProofs Bundle BundleWf.
From Coq Require Import ZifyN ZifyNat ZifyBool.
Open Scope N_scope.

(* ---- the declarative rules ---- *)
Record WellFormed (now : N) (b : bundle) : Prop := {
  wf_payload_last :
    exists pre pl, b_blocks b = pre ++ [pl] /\ c_type pl = 1 /\ c_num pl = 1
                   /\ (forall c, In c pre -> c_type c <> 1);
  wf_numbers_unique : NoDup (map c_num (b_blocks b));
  wf_one_block_per_type : NoDup (map c_type (b_blocks b));
  wf_eids_valid :
    eid_valid (p_dst (b_pri b)) = true /\ eid_valid (p_src (b_pri b)) = true /\ eid_valid (p_rpt (b_pri b)) = true
    /\ (forall c e, In c (b_blocks b) -> c_val c = XPrev e -> eid_valid e = true);
  wf_no_fragment_contradiction :
    ~ (has (p_flags (b_pri b)) F_FRAG = true /\ has (p_flags (b_pri b)) F_NOFRAG = true);
  wf_admin_no_requests :
    has (p_flags (b_pri b)) F_ADMIN = true \/ p_src (b_pri b) = DtnNone ->
    any_status_request (p_flags (b_pri b)) = false
    /\ (forall c, In c (b_blocks b) -> has (c_flags c) BF_REPORT = false);
  wf_anonymous_not_fragmentable :
    p_src (b_pri b) = DtnNone -> has (p_flags (b_pri b)) F_NOFRAG = true;
  wf_zero_time_has_age :
    p_time (b_pri b) = 0 -> exists c age, In c (b_blocks b) /\ c_val c = XAge age /\ age <= p_life (b_pri b);
  wf_hop_count :
    forall c l k, In c (b_blocks b) -> c_val c = XHop l k -> k <= l;
  wf_lifetime :
    p_time (b_pri b) <> 0 -> now <= p_time (b_pri b) + p_life (b_pri b)
}.

Lemma nodup_N_NoDup l : nodup_N l = true -> NoDup l.
Proof.
  induction l as [|x l IH]; cbn [nodup_N]; intros H; [constructor|].
  apply andb_prop in H. destruct H as [H1 H2]. constructor; [|apply IH, H2].
  intros Hin. apply negb_true_iff in H1. assert (existsb (N.eqb x) l = true); [|congruence].
  apply existsb_exists. exists x. split; [exact Hin|apply N.eqb_refl].
Qed.

Lemma last_map_split (l : list cblock) :
  last (map c_type l) 0 = 1 -> exists pre pl, l = pre ++ [pl] /\ c_type pl = 1.
Proof.
  intros H. destruct l as [|c l] using rev_ind; [cbn in H; discriminate|].
  exists l, c. split; [reflexivity|]. rewrite map_app in H. cbn [map] in H. rewrite last_last in H. exact H.
Qed.

Lemma wrap64s_le z : (0 <= z)%Z -> (wrap64s z <= z)%Z.
Proof. intros H. unfold wrap64s. lia. Qed.

Lemma deadline_le p : (deadline_ns p <= (Z.of_N (p_time p) + ms1970to2k + Z.of_N (p_life p)) * 1000000)%Z.
Proof.
  unfold deadline_ns, ms1970to2k.
  pose proof (wrap64s_le (Z.of_N (p_time p)) ltac:(lia)) as H1.
  pose proof (wrap64s_le (Z.of_N (p_life p)) ltac:(lia)) as H2.
  assert (H3 : (wrap64s (wrap64s (Z.of_N (p_time p)) + 946684800000) <= Z.of_N (p_time p) + 946684800000)%Z).
  { unfold wrap64s in *. lia. }
  assert (H4 : (wrap64s (wrap64s (Z.of_N (p_life p)) * 1000000) <= Z.of_N (p_life p) * 1000000)%Z).
  { unfold wrap64s in *. lia. }
  lia.
Qed.

Lemma find_type_in t l c : find_type t l = Some c -> In c l /\ c_type c = t.
Proof.
  unfold find_type. intros H. apply find_some in H. destruct H as [H1 H2]. split; [exact H1|]. apply N.eqb_eq, H2.
Qed.

Theorem check_valid_sound now b : check_valid now b = true -> WellFormed now b.
Proof.
  unfold check_valid. intros H.
  repeat match goal with H : _ && _ = true |- _ => apply andb_prop in H; destruct H end.
  match goal with H : primary_valid _ = true |- _ => rename H into Hp end.
  match goal with H : forallb cblock_valid _ = true |- _ => rename H into Hcb end.
  match goal with H : nodup_N (map c_num _) = true |- _ => rename H into Hnum end.
  match goal with H : nodup_N (map c_type _) = true |- _ => rename H into Htyp end.
  match goal with H : negb (lifetime_exceeded _ _) = true |- _ => rename H into Hlife end.
  unfold primary_valid in Hp.
  repeat match goal with H : _ && _ = true |- _ => apply andb_prop in H; destruct H end.
  rewrite forallb_forall in Hcb.
  assert (Hlast : exists pre pl, b_blocks b = pre ++ [pl] /\ c_type pl = 1).
  { apply last_map_split. destruct (last (map c_type (b_blocks b)) 0) as [|[ | |]] eqn:E; try discriminate; reflexivity. }
  destruct Hlast as (pre & pl & Hbl & Hplt).
  constructor.
  - exists pre, pl. split; [exact Hbl|]. split; [exact Hplt|]. split.
    + assert (Hin : In pl (b_blocks b)) by (rewrite Hbl; apply in_or_app; right; left; reflexivity).
      specialize (Hcb pl Hin). unfold cblock_valid in Hcb. apply andb_prop in Hcb. destruct Hcb as [_ Hcb].
      rewrite Hplt in Hcb. cbn in Hcb. apply N.eqb_eq. exact Hcb.
    + intros c Hc Hct. apply nodup_N_NoDup in Htyp. rewrite Hbl, map_app in Htyp. cbn [map] in Htyp.
      apply NoDup_remove_2 in Htyp. apply Htyp. rewrite app_nil_r. rewrite <- Hplt in Hct. rewrite <- Hct. apply in_map, Hc.
  - apply nodup_N_NoDup, Hnum.
  - apply nodup_N_NoDup, Htyp.
  - repeat split; try assumption. intros c e Hc Hv. specialize (Hcb c Hc). unfold cblock_valid in Hcb.
    apply andb_prop in Hcb. destruct Hcb as [Hcb _]. rewrite Hv in Hcb. exact Hcb.
  - intros [Ha Hb']. match goal with H : negb (_ && _) = true |- _ => rewrite Ha, Hb' in H; discriminate end.
  - intros Hor.
    match goal with H : negb (has _ F_ADMIN || eid_eqb _ DtnNone) || _ = true |- _ => rename H into Hrep end.
    match goal with H : negb (has _ F_ADMIN) || negb (any_status_request _) = true |- _ => rename H into Hadm end.
    match goal with H : negb (eid_eqb _ DtnNone) || _ = true |- _ => rename H into Hanon end.
    assert (Hcond : has (p_flags (b_pri b)) F_ADMIN || eid_eqb (p_src (b_pri b)) DtnNone = true).
    { destruct Hor as [Ha | Hs]; [rewrite Ha; reflexivity|rewrite Hs; cbn; apply orb_true_r]. }
    rewrite Hcond in Hrep. cbn [negb orb] in Hrep. rewrite forallb_forall in Hrep. split.
    + destruct Hor as [Ha | Hs].
      * rewrite Ha in Hadm. cbn [negb orb] in Hadm. apply negb_true_iff, Hadm.
      * rewrite Hs in Hanon. cbn [eid_eqb negb orb] in Hanon. apply andb_prop in Hanon. destruct Hanon as [_ Hx]. apply negb_true_iff, Hx.
    + intros c Hc. apply negb_true_iff, Hrep, Hc.
  - intros Hs. match goal with H : negb (eid_eqb _ DtnNone) || _ = true |- _ => rewrite Hs in H; cbn [eid_eqb negb orb] in H;
      apply andb_prop in H; destruct H as [Hx _]; exact Hx end.
  - intros Hz. unfold lifetime_exceeded in Hlife. rewrite Hz in Hlife. cbn [N.eqb] in Hlife.
    destruct (find_type 7 (b_blocks b)) as [c|] eqn:Ef; [|discriminate].
    apply find_type_in in Ef. destruct Ef as [Hin Ht].
    destruct c as [cn cf cc cv]. destruct cv; try discriminate. exists {| c_num := cn; c_flags := cf; c_crc := cc; c_val := XAge n |}, n.
    split; [exact Hin|]. split; [reflexivity|]. apply negb_true_iff in Hlife. clear - Hlife. lia.
  - intros c l k Hc Hv. specialize (Hcb c Hc). unfold cblock_valid in Hcb. apply andb_prop in Hcb. destruct Hcb as [Hcb _].
    rewrite Hv in Hcb. cbn [ext_valid] in Hcb. clear - Hcb. lia.
  - intros Hnz. unfold lifetime_exceeded in Hlife. replace (p_time (b_pri b) =? 0) with false in Hlife by (clear - Hnz; lia).
    apply negb_true_iff in Hlife. pose proof (deadline_le (b_pri b)) as Hd. unfold ms1970to2k in *. clear - Hlife Hd Hnz. lia.
Qed.

Lemma dec_bundle_valid now bs b r : dec_bundle now bs = Some (b, r) -> check_valid now b = true.
Proof.
  unfold dec_bundle. intros H. destruct (starts_with 159 bs); [|discriminate].
  destruct (nobrk (dec_primary (tl bs))) as [p r1| |]; try discriminate.
  destruct (dec_blocks (S (length r1)) r1 []) as [[bl rest]|]; [|discriminate].
  destruct (check_valid now {| b_pri := p; b_blocks := bl |}) eqn:Ev; [|discriminate].
  injection H as <- <-. exact Ev.
Qed.

Theorem accept_sound now bs b r : dec_bundle now bs = Some (b, r) -> WellFormed now b.
Proof. intros H. apply check_valid_sound. eapply dec_bundle_valid, H. Qed.
