(* ConstsOkScf.v - the constraint constants and the literal / operator shapes of the Go functions
   regenerated from the source (gen/Consts.v) coincide with the ones the store-carry-forward model
   is written against (SpecScf.v).  Dropping  || DispatchPending  from Sync, turning  c != LocalEndpoint
   into ==, removing the age term of calcExpirationDate or  >  ->  >=  in IsExceeded breaks a
   [reflexivity] here. *)
From Coq Require Import ZArith List.
Import ListNotations.
From DTN Require Import Consts SpecScf Scf.
Open Scope Z_scope.

Lemma scf_constraints_ok :
  pkg_routing__DispatchPending = scf_c_dispatch_pending
  /\ pkg_routing__ForwardPending = scf_c_forward_pending
  /\ pkg_routing__ReassemblyPending_ = scf_c_reassembly_pending
  /\ pkg_routing__Contraindicated = scf_c_contraindicated
  /\ pkg_routing__LocalEndpoint = scf_c_local_endpoint.
Proof. repeat split; reflexivity. Qed.

Lemma scf_descriptor_ok :
  pkg_routing__BundleDescriptor_Sync__ops = scf_sync_ops
  /\ pkg_routing__BundleDescriptor_Sync__lits = scf_sync_lits
  /\ pkg_routing__BundleDescriptor_PurgeConstraints__ops = scf_purge_ops.
Proof. repeat split; reflexivity. Qed.

Lemma scf_core_ok :
  pkg_routing__Core_checkPendingBundles__ops = scf_check_pending_ops
  /\ pkg_routing__Core_dispatching__ops = scf_dispatching_ops.
Proof. repeat split; reflexivity. Qed.

Lemma scf_epidemic_ok :
  pkg_routing__EpidemicRouting_DispatchingAllowed__ops = scf_gate_ops
  /\ pkg_routing__EpidemicRouting_DispatchingAllowed__lits = scf_gate_lits
  /\ pkg_routing__EpidemicRouting_ReportFailure__ops = scf_report_failure_ops
  /\ pkg_routing__EpidemicRouting_ReportFailure__lits = scf_report_failure_epidemic_lits
  /\ pkg_routing__Prophet_ReportFailure__ops = scf_report_failure_ops
  /\ pkg_routing__Prophet_ReportFailure__lits = scf_report_failure_prophet_lits.
Proof. repeat split; reflexivity. Qed.

Lemma scf_storage_ok :
  pkg_storage__calcExpirationDate__ops = scf_expiry_ops
  /\ pkg_storage__Store_DeleteExpired__ops = scf_delete_expired_ops
  /\ pkg_bpv7__HopCountBlock_IsExceeded__ops = scf_hop_ops.
Proof. repeat split; reflexivity. Qed.

(* the block processing control flags the block loop of the model tests (the scf_fl_ constants of Model/Scf.v) *)
Lemma scf_block_flags_ok :
  pkg_bpv7__ReplicateBlock = Z.of_N scf_fl_replicate
  /\ pkg_bpv7__StatusReportBlock = Z.of_N scf_fl_report
  /\ pkg_bpv7__DeleteBundle = Z.of_N scf_fl_delete
  /\ pkg_bpv7__RemoveBlock = Z.of_N scf_fl_remove.
Proof. repeat split; reflexivity. Qed.

Lemma scf_receive_ok :
  pkg_routing__Core_receive__ops = scf_receive_ops
  /\ pkg_routing__Core_receive__lits = scf_receive_lits.
Proof. repeat split; reflexivity. Qed.
