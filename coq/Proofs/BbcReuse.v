(* BbcReuse.v - C12 (BBC part), histories on ONE connector in which transmission ids are used again,
   and the shared outgoing queue.

   (1) Whatever was received before (any fragments at all: trains that were delivered, that failed
       a sequence check, that finished with a payload the decoder rejects, peers' failure
       fragments, garbage), as soon as the table holds no entry for a transmission id an intact train
       under that id is delivered, exactly once, identical, with no failure fragment, and leaves the
       table as it was.
   (2) Every way a transmission can END clears its id: whenever handling a data fragment makes the
       connector emit anything (a failure fragment or a finished blob / the failure report of an
       undecodable one), the table has no entry for that fragment's id afterwards.  A peer's failure
       fragment never touches the table.
   (3) The outgoing queue loses nothing and cannot deadlock: every complete run transmits exactly the
       own fragments and exactly the failure fragments, each in order. *)
From DTN Require Import Base Bbc BbcProofs BbcSafety.
From Coq Require Import ZifyN ZifyNat ZifyBool.
Local Open Scope nat_scope.

(* ---------- (1) an intact train on any table without an entry for its id ---------- *)
Lemma tbl_remove_none tb k : tbl_find tb k = None -> tbl_remove tb k = tb.
Proof.
  induction tb as [|[k0 v] tb IH]; cbn [tbl_find tbl_remove]; [reflexivity|].
  destruct (N.eqb k0 k); [discriminate|]. intros H. rewrite IH by exact H. reflexivity.
Qed.

Lemma handle_train_rest_any decodes tid tb : tbl_remove tb tid = tb ->
  forall fs s, train_shape tid s false fs -> forall t,
  i_finished t = false -> i_tid t = tid -> i_prev t = s ->
  decodes (i_payload t ++ concat (map f_payload fs)) = true ->
  handle_all decodes ((tid, t) :: tb) fs = (tb, [OutBlob tid (i_payload t ++ concat (map f_payload fs))]).
Proof.
  intros Htb fs s H. remember false as st eqn:Hst.
  induction H as [s st f H1 H2 H3 H4 H5 | s st f fs H1 H2 H3 H4 H5 H6 H7 IH]; intros t Hfin Htid Hprev Hdec; subst st.
  - cbn [map concat] in *. rewrite app_nil_r in *. cbn [handle_all]. unfold handle_fragment.
    rewrite H4, H5. cbn [tbl_find]. rewrite N.eqb_refl.
    rewrite read_fragment_ok by congruence. cbn [i_finished i_payload i_tid]. rewrite H3, Hdec, Htid.
    unfold tbl_set. cbn [tbl_remove]. rewrite !N.eqb_refl. cbn [tbl_remove].
    rewrite !Htb. reflexivity.
  - cbn [map concat] in *. cbn [handle_all]. unfold handle_fragment at 1.
    rewrite H4, H5. cbn [tbl_find]. rewrite N.eqb_refl.
    rewrite read_fragment_ok by congruence. cbn [i_finished i_payload i_tid]. rewrite H3.
    unfold tbl_set. cbn [tbl_remove]. rewrite N.eqb_refl. rewrite Htb.
    rewrite (IH eq_refl {| i_tid := i_tid t; i_payload := i_payload t ++ f_payload f; i_finished := false; i_prev := f_seq f |});
      cbn [i_finished i_tid i_prev i_payload]; try congruence.
    + rewrite ?Htid, <- app_assoc. reflexivity.
    + rewrite <- app_assoc. exact Hdec.
Qed.

Theorem bbc_handle_train_any decodes tb tid fs :
  tbl_find tb tid = None ->
  train_shape tid 0%N true fs -> decodes (concat (map f_payload fs)) = true ->
  handle_all decodes tb fs = (tb, [OutBlob tid (concat (map f_payload fs))]).
Proof.
  intros Hnone H Hdec. pose proof (tbl_remove_none tb tid Hnone) as Htb.
  inversion H as [s0 st0 f0 H1 H2 H3 H4 H5 | s0 st0 f0 fs0 H1 H2 H3 H4 H5 H6 H7]; subst.
  - cbn [map concat] in *. rewrite app_nil_r in *. cbn [handle_all]. unfold handle_fragment.
    rewrite H4, Hnone. unfold new_incoming. rewrite H2. cbn [i_finished i_payload i_tid].
    rewrite H3, Hdec. unfold tbl_set. cbn [tbl_remove]. rewrite N.eqb_refl. rewrite !Htb. reflexivity.
  - cbn [map concat] in *. cbn [handle_all]. unfold handle_fragment at 1.
    rewrite H4, Hnone. unfold new_incoming. rewrite H2. cbn [i_finished i_payload i_tid].
    rewrite H3. unfold tbl_set. rewrite Htb.
    rewrite (handle_train_rest_any decodes (f_tid f0) tb Htb fs0 (next_seq 0) H7
               {| i_tid := f_tid f0; i_payload := f_payload f0; i_finished := false; i_prev := f_seq f0 |});
      cbn [i_finished i_tid i_prev i_payload]; try congruence. reflexivity.
Qed.

(* the same over what a sender produces *)
Theorem bbc_reuse_sent decodes (h : list fragment) tb outs tid room blob fs :
  handle_all decodes [] h = (tb, outs) ->
  tbl_find tb tid = None ->
  1 <= room -> blob <> [] -> out_fragments tid room blob = Some fs -> decodes blob = true ->
  handle_all decodes [] (h ++ fs) = (tb, outs ++ [OutBlob tid blob]).
Proof.
  intros Hh Hnone Hr Hne Hout Hdec.
  destruct (bbc_train _ _ _ _ Hr Hne Hout) as (_ & Hc & Hs).
  rewrite handle_all_app, Hh. rewrite <- Hc in *.
  rewrite (bbc_handle_train_any decodes tb tid fs Hnone Hs Hdec). reflexivity.
Qed.

(* ---------- (2) every end of a transmission clears its id ---------- *)
(* keys and entries agree (true of every table the connector can reach) *)
Definition tbl_wf (tb : table) : Prop := forall k t, tbl_find tb k = Some t -> i_tid t = k.

Lemma tbl_wf_nil : tbl_wf [].
Proof. intros k t H. discriminate. Qed.

Lemma tbl_wf_remove tb k : tbl_wf tb -> tbl_wf (tbl_remove tb k).
Proof.
  intros H k' t Hf. destruct (N.eq_dec k k') as [E|E].
  - subst k'. rewrite tbl_find_remove_same in Hf. discriminate.
  - rewrite tbl_find_remove_other in Hf by exact E. apply H. exact Hf.
Qed.

Lemma tbl_wf_set tb k v : tbl_wf tb -> i_tid v = k -> tbl_wf (tbl_set tb k v).
Proof.
  intros H Hv k' t Hf. destruct (N.eq_dec k k') as [E|E].
  - subst k'. rewrite tbl_find_set_same in Hf. injection Hf as Hf. subst t. exact Hv.
  - rewrite tbl_find_set_other in Hf by exact E. apply H. exact Hf.
Qed.

Lemma handle_fragment_wf decodes tb f tb' o :
  tbl_wf tb -> handle_fragment decodes tb f = (tb', o) -> tbl_wf tb'.
Proof.
  intros Hwf H. unfold handle_fragment in H.
  destruct (f_fail f); [apply (f_equal fst) in H; cbn [fst] in H; subst tb'; exact Hwf|].
  destruct (tbl_find tb (f_tid f)) as [t|] eqn:Ef.
  - destruct (read_fragment t f) as [t'|] eqn:ER.
    + pose proof (read_fragment_tid _ _ _ ER) as Ht'. pose proof (Hwf _ _ Ef) as Ht.
      assert (Hset : tbl_wf (tbl_set tb (f_tid f) t')) by (apply tbl_wf_set; [exact Hwf|congruence]).
      destruct (i_finished t'); [destruct (decodes (i_payload t'))|]; apply (f_equal fst) in H; cbn [fst] in H; subst tb';
        try apply tbl_wf_remove; exact Hset.
    + apply (f_equal fst) in H; cbn [fst] in H; subst tb'. apply tbl_wf_remove. exact Hwf.
  - destruct (new_incoming f) as [t'|] eqn:EN.
    + pose proof (new_incoming_tid _ _ EN) as Ht'.
      assert (Hset : tbl_wf (tbl_set tb (f_tid f) t')) by (apply tbl_wf_set; [exact Hwf|exact Ht']).
      destruct (i_finished t'); [destruct (decodes (i_payload t'))|]; apply (f_equal fst) in H; cbn [fst] in H; subst tb';
        try apply tbl_wf_remove; exact Hset.
    + apply (f_equal fst) in H; cbn [fst] in H; subst tb'. exact Hwf.
Qed.

Lemma handle_all_wf decodes : forall fs tb tb' o,
  tbl_wf tb -> handle_all decodes tb fs = (tb', o) -> tbl_wf tb'.
Proof.
  induction fs as [|f fs IH]; intros tb tb' o Hwf H.
  - cbn in H. injection H as H _. subst tb'. exact Hwf.
  - cbn [handle_all] in H. destruct (handle_fragment decodes tb f) as [tb1 o1] eqn:E1.
    destruct (handle_all decodes tb1 fs) as [tb2 o2] eqn:E2. injection H as H _. subst tb'.
    apply (IH tb1 tb2 o2); [|exact E2]. apply (handle_fragment_wf decodes tb f tb1 o1 Hwf E1).
Qed.

(* the step that ends a transmission, however it ends, forgets the id *)
Ltac split_pair H tb o :=
  let A := fresh in let B := fresh in
  pose proof (f_equal fst H) as A; pose proof (f_equal snd H) as B; cbn [fst snd] in A, B; clear H; subst tb o.

Lemma handle_fragment_end_clears decodes tb f tb' o :
  tbl_wf tb -> handle_fragment decodes tb f = (tb', o) -> f_fail f = false -> o <> [] ->
  tbl_find tb' (f_tid f) = None.
Proof.
  intros Hwf H Hff Hne. unfold handle_fragment in H. rewrite Hff in H.
  destruct (tbl_find tb (f_tid f)) as [t|] eqn:Ef.
  - pose proof (Hwf _ _ Ef) as Ht.
    destruct (read_fragment t f) as [t'|] eqn:ER.
    + pose proof (read_fragment_tid _ _ _ ER) as Ht'. rewrite Ht', Ht in H.
      destruct (i_finished t'); [destruct (decodes (i_payload t'))|]; split_pair H tb' o;
        try apply tbl_find_remove_same. congruence.
    + rewrite Ht in H. split_pair H tb' o. apply tbl_find_remove_same.
  - destruct (new_incoming f) as [t'|] eqn:EN.
    + pose proof (new_incoming_tid _ _ EN) as Ht'. rewrite Ht' in H.
      destruct (i_finished t'); [destruct (decodes (i_payload t'))|]; split_pair H tb' o;
        try apply tbl_find_remove_same. congruence.
    + split_pair H tb' o. exact Ef.
Qed.

Theorem bbc_end_clears decodes (h : list fragment) f tb1 o1 tb2 o2 :
  handle_all decodes [] h = (tb1, o1) -> handle_fragment decodes tb1 f = (tb2, o2) ->
  (f_fail f = false -> o2 <> [] -> tbl_find tb2 (f_tid f) = None)
  /\ (f_fail f = true -> tb2 = tb1 /\ o2 = [OutFailedTid (f_tid f)]).
Proof.
  intros H1 H2. split.
  - intros Hff Hne. apply (handle_fragment_end_clears decodes tb1 f tb2 o2); try assumption.
    apply (handle_all_wf decodes h [] tb1 o1 tbl_wf_nil H1).
  - intros Hff. unfold handle_fragment in H2. rewrite Hff in H2. injection H2 as A B. subst. auto.
Qed.

(* (1) + (2): a transmission ends (signals / delivers) on fragment f; whatever else follows that does
   not carry this id (other transmissions, at will), an intact train re-using the id is delivered *)
Theorem bbc_reuse_after_end decodes (h : list fragment) f (g : list fragment) tb1 o1 tb2 o2 tb3 o3 room blob fs :
  handle_all decodes [] h = (tb1, o1) -> handle_fragment decodes tb1 f = (tb2, o2) ->
  f_fail f = false -> o2 <> [] ->
  Forall (fun x => f_tid x <> f_tid f) g -> handle_all decodes tb2 g = (tb3, o3) ->
  1 <= room -> blob <> [] -> out_fragments (f_tid f) room blob = Some fs -> decodes blob = true ->
  handle_all decodes tb3 fs = (tb3, [OutBlob (f_tid f) blob]).
Proof.
  intros H1 H2 Hff Hne Hg H3 Hr Hbl Hout Hdec.
  destruct (bbc_end_clears decodes h f tb1 o1 tb2 o2 H1 H2) as [Hc _].
  specialize (Hc Hff Hne).
  assert (Hwf2 : tbl_wf tb2).
  { apply (handle_fragment_wf decodes tb1 f tb2 o2); [|exact H2].
    apply (handle_all_wf decodes h [] tb1 o1 tbl_wf_nil H1). }
  assert (Hnone : tbl_find tb3 (f_tid f) = None).
  { clear H1 H2 Hne. revert tb2 tb3 o3 Hc Hwf2 H3. induction g as [|x g IH]; intros tb2 tb3 o3 Hc Hwf2 H3.
    - cbn in H3. injection H3 as A _. subst tb3. exact Hc.
    - cbn [handle_all] in H3. destruct (handle_fragment decodes tb2 x) as [tb2' ox] eqn:Ex.
      destruct (handle_all decodes tb2' g) as [tb3' og] eqn:Eg. injection H3 as A _. subst tb3'.
      inversion Hg as [|y l Hx Hg']; subst y l.
      apply (IH Hg' tb2' tb3 og); [| |exact Eg].
      + rewrite (handle_fragment_other decodes tb2 x tb2' ox (f_tid f) Ex Hx); [exact Hc|].
        intros t Ht. apply Hwf2. exact Ht.
      + apply (handle_fragment_wf decodes tb2 x tb2' ox Hwf2 Ex). }
  destruct (bbc_train _ _ _ _ Hr Hbl Hout) as (_ & Hcat & Hs). rewrite <- Hcat in *.
  apply (bbc_handle_train_any decodes tb3 (f_tid f) fs Hnone Hs Hdec).
Qed.

(* ---------- (3) the shared outgoing queue ---------- *)
Definition bq_measure (s : bbcq_state) : nat :=
  2 * (length (bq_own s) + length (bq_fail s)) + length (bq_queue s).

Definition nofail (f : fragment) : bool := negb (f_fail f).

Definition bq_inv (own fails : list fragment) (s : bbcq_state) : Prop :=
  filter nofail (bq_sent s ++ bq_queue s) ++ bq_own s = own
  /\ filter f_fail (bq_sent s ++ bq_queue s) ++ bq_fail s = fails
  /\ Forall (fun f => f_fail f = false) (bq_own s)
  /\ Forall (fun f => f_fail f = true) (bq_fail s).

Lemma bq_step_inv cap own fails s e s' :
  bq_inv own fails s -> bbcq_step cap s e = Some s' ->
  bq_inv own fails s' /\ S (bq_measure s') = bq_measure s.
Proof.
  intros (I1 & I2 & I3 & I4) H. unfold bq_measure. destruct e; cbn [bbcq_step] in H.
  - destruct (bq_own s) as [|f r] eqn:Eo; [discriminate|].
    destruct (Nat.ltb (length (bq_queue s)) cap); [|discriminate]. injection H as H. subst s'.
    cbn [bq_own bq_fail bq_queue bq_sent]. inversion I3 as [|x l Hf I3']; subst x l.
    split; [|rewrite app_length; cbn [length]; lia].
    unfold bq_inv. cbn [bq_own bq_fail bq_queue bq_sent]. rewrite app_assoc.
    set (Q := bq_sent s ++ bq_queue s) in *. rewrite !filter_app. cbn [filter].
    unfold nofail at 2. rewrite Hf. cbn [negb]. rewrite app_nil_r, <- app_assoc. cbn [app].
    repeat split; assumption.
  - destruct (bq_fail s) as [|f r] eqn:Eo; [discriminate|].
    destruct (Nat.ltb (length (bq_queue s)) cap); [|discriminate]. injection H as H. subst s'.
    cbn [bq_own bq_fail bq_queue bq_sent]. inversion I4 as [|x l Hf I4']; subst x l.
    split; [|rewrite app_length; cbn [length]; lia].
    unfold bq_inv. cbn [bq_own bq_fail bq_queue bq_sent]. rewrite app_assoc.
    set (Q := bq_sent s ++ bq_queue s) in *. rewrite !filter_app. cbn [filter].
    unfold nofail at 2. rewrite Hf. cbn [negb]. rewrite app_nil_r, <- app_assoc. cbn [app].
    repeat split; assumption.
  - destruct (bq_queue s) as [|f r] eqn:Eq; [discriminate|]. injection H as H. subst s'.
    cbn [bq_own bq_fail bq_queue bq_sent]. split; [|cbn [length]; lia].
    unfold bq_inv. cbn [bq_own bq_fail bq_queue bq_sent]. rewrite <- app_assoc. cbn [app].
    repeat split; assumption.
Qed.

Lemma bq_run_inv cap own fails : forall evs s s',
  bq_inv own fails s -> bbcq_run cap s evs = Some s' ->
  bq_inv own fails s' /\ bq_measure s' + length evs = bq_measure s.
Proof.
  induction evs as [|e evs IH]; intros s s' HI H.
  - cbn in H. injection H as H. subst s'. split; [exact HI|cbn; lia].
  - cbn [bbcq_run] in H. destruct (bbcq_step cap s e) as [s1|] eqn:E1; [|discriminate].
    destruct (bq_step_inv cap own fails s e s1 HI E1) as [HI1 Hm].
    destruct (IH s1 s' HI1 H) as [HI' Hm']. split; [exact HI'|]. cbn [length]. lia.
Qed.

Lemma bq_init_inv own fails :
  Forall (fun f => f_fail f = false) own -> Forall (fun f => f_fail f = true) fails ->
  bq_inv own fails (bbcq_init own fails).
Proof. intros H1 H2. unfold bq_inv, bbcq_init. cbn. auto. Qed.

Lemma bbc_frags_eqb_refl l : bbc_frags_eqb l l = true.
Proof.
  induction l as [|f l IH]; [reflexivity|]. cbn [bbc_frags_eqb]. rewrite IH.
  unfold fragment_eqb. rewrite !N.eqb_refl. cbn [andb].
  rewrite andb_true_r. induction (f_payload f) as [|x p IHp]; [reflexivity|].
  unfold bytes_eqb in *. cbn [list_eqb]. rewrite N.eqb_refl. exact IHp.
Qed.

(* loss-free: a run that has drained has transmitted exactly the own fragments and exactly the
   failure fragments, each in order; and it took exactly 2 * (number of fragments) events *)
Theorem bbcq_lossless cap own fails evs s :
  Forall (fun f => f_fail f = false) own -> Forall (fun f => f_fail f = true) fails ->
  bbcq_run cap (bbcq_init own fails) evs = Some s -> bbcq_done s = true ->
  filter nofail (bq_sent s) = own /\ filter f_fail (bq_sent s) = fails
  /\ bbcq_sent_ok own fails (bq_sent s) = true
  /\ length evs = 2 * (length own + length fails).
Proof.
  intros H1 H2 Hrun Hdone.
  destruct (bq_run_inv cap own fails evs _ s (bq_init_inv own fails H1 H2) Hrun) as [(I1 & I2 & _ & _) Hm].
  unfold bbcq_done in Hdone.
  destruct (bq_own s) eqn:Eo; [|discriminate]. destruct (bq_fail s) eqn:Ef; [|discriminate].
  destruct (bq_queue s) eqn:Eq; [|discriminate].
  rewrite !app_nil_r in I1, I2.
  split; [exact I1|]. split; [exact I2|]. split.
  - unfold bbcq_sent_ok. fold nofail. rewrite I1, I2, !bbc_frags_eqb_refl. reflexivity.
  - unfold bq_measure in Hm. rewrite Eo, Ef, Eq in Hm. cbn [bbcq_init bq_own bq_fail bq_queue length] in Hm. lia.
Qed.

(* no deadlock: while anything is pending, some event is enabled (capacity >= 1) *)
Theorem bbcq_progress cap s : 1 <= cap -> bbcq_done s = false ->
  exists e s', bbcq_step cap s e = Some s'.
Proof.
  intros Hc Hd. destruct (bq_queue s) as [|f q] eqn:Eq.
  - unfold bbcq_done in Hd. rewrite Eq in Hd.
    destruct (bq_own s) as [|x o] eqn:Eo.
    + destruct (bq_fail s) as [|y l] eqn:Ef; [discriminate|].
      exists BqFail. cbn [bbcq_step]. rewrite Ef, Eq. cbn [length].
      destruct (Nat.ltb 0 cap) eqn:E; [eexists; reflexivity|]. apply Nat.ltb_ge in E. lia.
    + exists BqOwn. cbn [bbcq_step]. rewrite Eo, Eq. cbn [length].
      destruct (Nat.ltb 0 cap) eqn:E; [eexists; reflexivity|]. apply Nat.ltb_ge in E. lia.
  - exists BqPop. cbn [bbcq_step]. rewrite Eq. eexists. reflexivity.
Qed.

(* hence every run can be extended until it has drained, and it drains after finitely many events *)
Theorem bbcq_drains cap own fails : 1 <= cap ->
  Forall (fun f => f_fail f = false) own -> Forall (fun f => f_fail f = true) fails ->
  forall evs s, bbcq_run cap (bbcq_init own fails) evs = Some s ->
  exists evs' s', bbcq_run cap s evs' = Some s' /\ bbcq_done s' = true.
Proof.
  intros Hc H1 H2 evs s Hrun.
  destruct (bq_run_inv cap own fails evs _ s (bq_init_inv own fails H1 H2) Hrun) as [HI _].
  clear Hrun evs. remember (bq_measure s) as m eqn:Hm. revert s HI Hm.
  induction m as [|m IH]; intros s HI Hm.
  - exists [], s. split; [reflexivity|]. unfold bq_measure in Hm. unfold bbcq_done.
    destruct (bq_own s); [|cbn in Hm; lia]. destruct (bq_fail s); [|cbn in Hm; lia].
    destruct (bq_queue s); [reflexivity|cbn in Hm; lia].
  - destruct (bbcq_done s) eqn:Hd; [exists [], s; auto|].
    destruct (bbcq_progress cap s Hc Hd) as (e & s1 & E1).
    destruct (bq_step_inv cap own fails s e s1 HI E1) as [HI1 Hm1].
    destruct (IH s1 HI1 ltac:(lia)) as (evs' & s' & Hr & Hdn).
    exists (e :: evs'), s'. cbn [bbcq_run]. rewrite E1. auto.
Qed.
