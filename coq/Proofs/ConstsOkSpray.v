(* ConstsOkSpray.v - the integer literals and operator shapes of the spray-and-wait functions in
   /repo (regenerated into gen/Consts.v by tools/goconsts) are the ones Model/Spray.v is written
   against.  A changed threshold / divisor / increment in the Go source breaks a [reflexivity] here.
   Token codes (go/token): 12 ADD, 13 SUB, 15 QUO, 39 EQL, 40 LSS, 44 NEQ, 1043 unary NOT,
   2037 INC statement. *)
From Coq Require Import ZArith NArith List.
Import ListNotations.
From DTN Require Import Consts SpecSpray.
Open Scope Z_scope.

(* NotifyNewBundle: a foreign bundle gets one copy (vanilla); make(..., 0) twice.  Operators: one
   "err == nil" per branch - the PreviousNodeBlock is looked up, and its node recorded in [sent], in
   both branches of SprayAndWait (fix 772c5cf) and in both branches of BinarySpray (fix 2edd1c0, plus
   the test for the BinarySprayBlock); nothing is subtracted for the recorded node. *)
Lemma spray_notify_ok :
  pkg_routing__SprayAndWait_NotifyNewBundle__lits = [0; 0; Z.of_N spray_foreign_copies]
  /\ pkg_routing__SprayAndWait_NotifyNewBundle__ops = [39; 39]
  /\ pkg_routing__BinarySpray_NotifyNewBundle__lits = [0; 0]
  /\ pkg_routing__BinarySpray_NotifyNewBundle__ops = [39; 39; 39].
Proof. repeat split; reflexivity. Qed.

(* SenderForBundle: "remainingCopies < 2" (twice in the vanilla loop), "- 1" per selected peer;
   binary: "< 2" once, "/ 2" and "-" *)
Lemma spray_sender_ok :
  pkg_routing__SprayAndWait_SenderForBundle__lits
    = [Z.of_N spray_wait_threshold; Z.of_N spray_wait_threshold; Z.of_N spray_unit_copy]
  /\ pkg_routing__SprayAndWait_SenderForBundle__ops = [1043; 40; 40; 39; 1043; 13]
  /\ pkg_routing__BinarySpray_SenderForBundle__lits
    = [Z.of_N spray_wait_threshold; Z.of_N spray_binary_divisor; 0; 0]
  /\ pkg_routing__BinarySpray_SenderForBundle__ops = [1043; 40; 39; 1043; 15; 13; 39].
Proof. repeat split; reflexivity. Qed.

(* ReportFailure (repaired): loop from 0, compare with sent[i], remove (i+1), give back "+ 1"
   (vanilla) / "+ block value" (binary) inside the match *)
Lemma spray_report_failure_ok :
  pkg_routing__SprayAndWait_ReportFailure__lits = [0; 1; Z.of_N spray_unit_copy]
  /\ pkg_routing__SprayAndWait_ReportFailure__ops = [1043; 40; 2037; 39; 12; 12]
  /\ pkg_routing__BinarySpray_ReportFailure__lits = [0; 1]
  /\ pkg_routing__BinarySpray_ReportFailure__ops = [44; 1043; 40; 2037; 39; 12; 12].
Proof. repeat split; reflexivity. Qed.

Lemma spray_gc_ok :
  pkg_routing__cleanupMetaData__lits = [] /\ pkg_routing__cleanupMetaData__ops = [1043].
Proof. split; reflexivity. Qed.

Lemma spray_block_type_ok : pkg_bpv7__ExtBlockTypeBinarySprayBlock = 192.
Proof. reflexivity. Qed.
