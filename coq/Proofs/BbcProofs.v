(* BbcProofs.v - proofs about the BBC model (header packing, fragment trains, reception). *)
From DTN Require Import Base Bbc.
From Coq Require Import ZifyN ZifyNat ZifyBool.
Open Scope N_scope.

(* ---------- finite sweeps lifted to N < k ---------- *)
Definition nrange (k : nat) : list N := map N.of_nat (seq 0 k).

Lemma nrange_in k n : n < N.of_nat k -> In n (nrange k).
Proof.
  intros H. unfold nrange. apply in_map_iff. exists (N.to_nat n). split; [lia|].
  apply in_seq. lia.
Qed.

Lemma forall_lt_sweep (k : nat) (P : N -> bool) :
  forallb P (nrange k) = true -> forall n, n < N.of_nat k -> P n = true.
Proof. intros H n Hn. rewrite forallb_forall in H. apply H, nrange_in, Hn. Qed.

Definition all_bools (P : bool -> bool) : bool := P true && P false.
Lemma all_bools_spec P : all_bools P = true -> forall b, P b = true.
Proof. unfold all_bools. intros H [|]; apply andb_prop in H; tauto. Qed.

(* ---------- header ---------- *)
Definition hdr_check (s : N) : bool :=
  all_bools (fun st => all_bools (fun en => all_bools (fun fl =>
    let f := new_fragment 0 s st en fl [] in
    (f_seq f =? s) && Bool.eqb (f_start f) st && Bool.eqb (f_end f) en && Bool.eqb (f_fail f) fl
    && (f_ident f <? 256)))).

Lemma hdr_sweep : forallb hdr_check (nrange 32) = true.
Proof. vm_compute. reflexivity. Qed.

Lemma ident_indep tid tid' s st en fl p p' :
  f_ident (new_fragment tid s st en fl p) = f_ident (new_fragment tid' s st en fl p').
Proof. reflexivity. Qed.

Lemma land31_mod s : N.land s 31 = s mod 32.
Proof. change 31 with (N.ones 5). rewrite N.land_ones. reflexivity. Qed.

Lemma new_fragment_mod tid s st en fl p :
  new_fragment tid s st en fl p = new_fragment tid (s mod 32) st en fl p.
Proof.
  unfold new_fragment. rewrite !land31_mod. rewrite N.mod_mod by lia. reflexivity.
Qed.

Lemma hdr_fields_small tid s st en fl p : s < 32 ->
  let f := new_fragment tid s st en fl p in
  f_seq f = s /\ f_start f = st /\ f_end f = en /\ f_fail f = fl /\ f_ident f < 256.
Proof.
  intros Hs. pose proof (forall_lt_sweep 32 hdr_check hdr_sweep s Hs) as H.
  unfold hdr_check in H.
  pose proof (all_bools_spec _ H st) as H1. cbv beta in H1.
  pose proof (all_bools_spec _ H1 en) as H2. cbv beta in H2.
  pose proof (all_bools_spec _ H2 fl) as H3. cbv beta zeta in H3.
  unfold f_seq, f_start, f_end, f_fail in *.
  rewrite (ident_indep tid 0 s st en fl p []).
  repeat (apply andb_prop in H3; destruct H3 as [H3 ?]).
  repeat split; try (apply Bool.eqb_prop; assumption); lia.
Qed.

Lemma hdr_fields tid s st en fl p :
  let f := new_fragment tid s st en fl p in
  f_seq f = s mod 32 /\ f_start f = st /\ f_end f = en /\ f_fail f = fl /\ f_ident f < 256
  /\ f_tid f = tid /\ f_payload f = p.
Proof.
  cbv zeta. rewrite new_fragment_mod.
  assert (Hs : s mod 32 < 32) by (apply N.mod_lt; lia).
  pose proof (hdr_fields_small tid (s mod 32) st en fl p Hs) as H. cbv zeta in H.
  repeat split; try apply H.
Qed.

(* C17 (BBC part): header round trip, exact consumption is trivial (a fragment is a whole datagram) *)
Lemma bbc_header_roundtrip tid s st en fl p :
  let f := new_fragment tid s st en fl p in
  parse_fragment (frag_bytes f) = Some f.
Proof. cbv zeta. unfold parse_fragment, frag_bytes. destruct (new_fragment tid s st en fl p); reflexivity. Qed.

Lemma bbc_parse_total data :
  (length data < 2)%nat -> parse_fragment data = None.
Proof. destruct data as [|a [|b l]]; simpl; intros; try reflexivity; lia. Qed.

Lemma bbc_parse_bytes data f : parse_fragment data = Some f -> frag_bytes f = data.
Proof.
  destruct data as [|a [|b l]]; simpl; intros H; try discriminate. inversion H. reflexivity.
Qed.

Lemma bbc_bytes_ok tid s st en fl p :
  tid < 256 -> bytes_ok p = true -> bytes_ok (frag_bytes (new_fragment tid s st en fl p)) = true.
Proof.
  intros Ht Hp. pose proof (hdr_fields tid s st en fl p) as H. cbv zeta in H.
  destruct H as (_ & _ & _ & _ & Hi & Htid & Hpl).
  unfold frag_bytes, bytes_ok. rewrite Htid, Hpl. cbn [forallb].
  unfold byte_ok at 1 2. apply andb_true_intro. split; [apply N.ltb_lt; exact Ht|].
  apply andb_true_intro. split; [apply N.ltb_lt; exact Hi|exact Hp].
Qed.

(* ---------- sequence numbers ---------- *)
Lemma next_seq_lt s : next_seq s < 16.
Proof. unfold next_seq. apply N.mod_lt. lia. Qed.

Lemma next_seq_small s : s < 16 -> next_seq s = (s + 1) mod 16.
Proof. intros H. unfold next_seq. rewrite (N.mod_small (s+1) 256) by lia. reflexivity. Qed.

(* ---------- outgoing train ---------- *)
Section Train.
Variable tid : N.
Variable room : nat.
Hypothesis Hroom : (1 <= room)%nat.

(* k-th sequence number of a train: starting from 0, next_seq applied k times *)
Fixpoint seq_iter (k : nat) (s : N) : N :=
  match k with O => s | S k => seq_iter k (next_seq s) end.

Lemma out_loop_payload fuel : forall payload start s,
  (length payload < fuel)%nat ->
  concat (map f_payload (out_loop fuel tid room payload start s)) = payload.
Proof.
  induction fuel as [|fuel IH]; intros payload start s Hf; [lia|].
  cbn [out_loop]. destruct (Nat.leb (length payload) room) eqn:E.
  - cbn. rewrite app_nil_r. reflexivity.
  - apply Nat.leb_gt in E. cbn [map concat].
    pose proof (hdr_fields tid (next_seq s) start false false (firstn room payload)) as H.
    cbv zeta in H. destruct H as (_&_&_&_&_&_&Hp). rewrite Hp.
    rewrite IH; [apply firstn_skipn|]. rewrite skipn_length. lia.
Qed.

Lemma out_loop_sizes fuel : forall payload start s,
  Forall (fun f => (length (f_payload f) <= room)%nat) (out_loop fuel tid room payload start s).
Proof.
  induction fuel as [|fuel IH]; intros payload start s; [constructor|].
  cbn [out_loop]. destruct (Nat.leb (length payload) room) eqn:E.
  - apply Nat.leb_le in E. constructor; [|constructor]. cbn. exact E.
  - constructor; [|apply IH]. cbn. rewrite firstn_length. lia.
Qed.

(* shape: the i-th fragment has seq = next_seq^(i+1) s0, start iff i = 0 (given start=true), end
   iff last, never fail, tid fixed *)
Inductive train_shape : N -> bool -> list fragment -> Prop :=
| ts_last s st f :
    f_seq f = next_seq s -> f_start f = st -> f_end f = true -> f_fail f = false -> f_tid f = tid ->
    train_shape s st [f]
| ts_more s st f fs :
    f_seq f = next_seq s -> f_start f = st -> f_end f = false -> f_fail f = false -> f_tid f = tid ->
    f_payload f <> [] ->
    train_shape (next_seq s) false fs ->
    train_shape s st (f :: fs).

Lemma out_loop_shape fuel : forall payload start s,
  (length payload < fuel)%nat ->
  train_shape s start (out_loop fuel tid room payload start s).
Proof.
  induction fuel as [|fuel IH]; intros payload start s Hf; [lia|].
  cbn [out_loop].
  assert (Hm : next_seq s mod 32 = next_seq s).
  { apply N.mod_small. pose proof (next_seq_lt s). lia. }
  destruct (Nat.leb (length payload) room) eqn:E.
  - pose proof (hdr_fields tid (next_seq s) start true false payload) as H. cbv zeta in H.
    destruct H as (H1&H2&H3&H4&_&H5&_). rewrite Hm in H1. apply ts_last; assumption.
  - apply Nat.leb_gt in E.
    pose proof (hdr_fields tid (next_seq s) start false false (firstn room payload)) as H.
    cbv zeta in H. destruct H as (H1&H2&H3&H4&_&H5&H6). rewrite Hm in H1.
    apply ts_more; try assumption.
    + rewrite H6. destruct payload as [|x payload]; [simpl in E; lia|].
      destruct room as [|r]; [lia|]. simpl. discriminate.
    + apply IH. rewrite skipn_length. lia.
Qed.

(* in-order reception of a well-shaped train rebuilds the concatenation *)
Lemma read_fragment_ok t f :
  i_finished t = false -> f_tid f = i_tid t -> f_seq f = next_seq (i_prev t) -> f_start f = false ->
  read_fragment t f = Some {| i_tid := i_tid t; i_payload := i_payload t ++ f_payload f;
                              i_finished := f_end f; i_prev := f_seq f |}.
Proof.
  intros H1 H2 H3 H4. unfold read_fragment. rewrite H1, H2, N.eqb_refl. cbn [negb].
  rewrite H3, N.eqb_refl. cbn [negb]. rewrite <- H3, H4. reflexivity.
Qed.

Definition read_all (t0 : incoming) (fs : list fragment) : option incoming :=
  fold_left (fun o f => match o with Some t => read_fragment t f | None => None end) fs (Some t0).

Lemma read_train : forall fs s t,
  train_shape s false fs -> i_finished t = false -> i_tid t = tid -> i_prev t = s ->
  exists t', read_all t fs = Some t'
     /\ i_payload t' = i_payload t ++ concat (map f_payload fs) /\ i_finished t' = true /\ i_tid t' = tid.
Proof.
  unfold read_all.
  induction fs as [|f fs IH]; intros s t Hs Hfin Htid Hprev; [inversion Hs|].
  inversion Hs as [s0 st0 f0 H1 H2 H3 H4 H5 | s0 st0 f0 fs0 H1 H2 H3 H4 H5 H6 H7]; subst s0 st0 f0.
  - cbn [fold_left]. rewrite read_fragment_ok; try congruence.
    eexists. split; [reflexivity|]. cbn. rewrite app_nil_r. auto.
  - subst fs0. cbn [fold_left]. rewrite read_fragment_ok; try congruence.
    edestruct (IH (next_seq s)
                 {| i_tid := i_tid t; i_payload := i_payload t ++ f_payload f;
                    i_finished := f_end f; i_prev := f_seq f |}) as (t' & Ht' & Hp & Hf & Ht).
    + exact H7.
    + exact H3.
    + exact Htid.
    + cbn. exact H1.
    + exists t'. split; [exact Ht'|]. cbn [i_payload] in Hp. rewrite Hp.
      cbn [map concat]. rewrite app_assoc. auto.
Qed.

End Train.

Lemma out_fragments_eq tid room payload :
  (1 <= room)%nat -> payload <> [] ->
  out_fragments tid room payload = Some (out_loop (S (length payload)) tid room payload true 0).
Proof. intros Hr Hne. destruct payload; [congruence|]. destruct room; [lia|]. reflexivity. Qed.

(* The full statement used by C12: for mtu >= 3 (room >= 1) and a non-empty blob. *)
Theorem bbc_train tid room payload fs :
  (1 <= room)%nat -> payload <> [] ->
  out_fragments tid room payload = Some fs ->
  (* sizes: header (2) + payload <= mtu = room + 2 *)
  Forall (fun f => (length (frag_bytes f) <= room + 2)%nat) fs
  /\ concat (map f_payload fs) = payload
  /\ train_shape tid 0 true fs.
Proof.
  intros Hr Hne Hout. rewrite out_fragments_eq in Hout by assumption.
  assert (Hfs : fs = out_loop (S (length payload)) tid room payload true 0) by congruence.
  clear Hout. subst fs.
  split; [|split].
  - apply Forall_impl with (P := fun f => (length (f_payload f) <= room)%nat); [|apply out_loop_sizes; exact Hr].
    intros f Hf. unfold frag_bytes. cbn [length]. lia.
  - apply out_loop_payload; [exact Hr|]. lia.
  - apply out_loop_shape; [exact Hr|]. lia.
Qed.

(* first fragment of a shaped train starts a transmission; the rest is read in order *)
Definition receive_in_order (fs : list fragment) : option incoming :=
  match fs with
  | [] => None
  | f :: rest => match new_incoming f with None => None | Some t0 => read_all t0 rest end
  end.

Theorem bbc_inorder_reception tid fs :
  train_shape tid 0 true fs ->
  exists t, receive_in_order fs = Some t
     /\ i_payload t = concat (map f_payload fs) /\ i_finished t = true /\ i_tid t = tid.
Proof.
  intros Hs. unfold receive_in_order.
  inversion Hs as [s0 st0 f0 H1 H2 H3 H4 H5 | s0 st0 f0 fs0 H1 H2 H3 H4 H5 H6 H7]; subst.
  - unfold new_incoming. rewrite H2. eexists. split; [reflexivity|]. cbn. rewrite app_nil_r. rewrite H3. auto.
  - unfold new_incoming. rewrite H2.
    edestruct (read_train (f_tid f0) fs0 (next_seq 0)
                 {| i_tid := f_tid f0; i_payload := f_payload f0; i_finished := f_end f0; i_prev := f_seq f0 |})
      as (t' & Ht' & Hp & Hf & Ht); try assumption; try (cbn; congruence).
    exists t'. split; [exact Ht'|]. cbn [i_payload] in Hp. rewrite Hp. cbn [map concat]. auto.
Qed.
