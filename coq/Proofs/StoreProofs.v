(* StoreProofs.v - invariants, refinement, crash safety and concurrency proofs for Model/Store.v *)
From Coq Require Import ZifyN ZifyNat ZifyBool Sorted.
From DTN Require Import Base Store.
Open Scope N_scope.

(* ================================================================================== *)
(* association lists                                                                  *)
(* ================================================================================== *)
Section AssocLemmas.
  Context {K V : Type} (eqb : K -> K -> bool).
  Hypothesis eqb_spec : forall a b, eqb a b = true <-> a = b.

  Lemma eqb_refl' : forall a, eqb a a = true.
  Proof. intro a. apply eqb_spec. reflexivity. Qed.
  Lemma eqb_neq : forall a b, a <> b -> eqb a b = false.
  Proof. intros a b H. destruct (eqb a b) eqn:E; auto. apply eqb_spec in E. contradiction. Qed.
  Lemma eqb_false_neq : forall a b, eqb a b = false -> a <> b.
  Proof. intros a b H E. subst. rewrite eqb_refl' in H. discriminate. Qed.

  Lemma alookup_adel_eq : forall k (l : list (K * V)), alookup eqb k (adel eqb k l) = None.
  Proof.
    induction l as [|[k' v] l IH]; cbn; auto.
    destruct (eqb k k') eqn:E; auto. cbn. rewrite E. exact IH.
  Qed.
  Lemma alookup_adel_neq : forall k k' (l : list (K * V)), k <> k' -> alookup eqb k' (adel eqb k l) = alookup eqb k' l.
  Proof.
    induction l as [|[k2 v] l IH]; cbn; intros; auto.
    destruct (eqb k k2) eqn:E.
    - apply eqb_spec in E. subst k2. rewrite (eqb_neq k' k) by congruence. auto.
    - cbn. destruct (eqb k' k2); auto.
  Qed.
  Lemma alookup_aset_eq : forall k v (l : list (K * V)), alookup eqb k (aset eqb k v l) = Some v.
  Proof. intros. unfold aset. cbn. rewrite eqb_refl'. reflexivity. Qed.
  Lemma alookup_aset_neq : forall k k' v (l : list (K * V)), k <> k' -> alookup eqb k' (aset eqb k v l) = alookup eqb k' l.
  Proof. intros. unfold aset. cbn. rewrite (eqb_neq k' k) by congruence. apply alookup_adel_neq; auto. Qed.

  Lemma In_adel : forall k k' v (l : list (K * V)), In (k', v) (adel eqb k l) <-> In (k', v) l /\ k' <> k.
  Proof.
    induction l as [|[k2 v2] l IH]; cbn.
    - tauto.
    - destruct (eqb k k2) eqn:E.
      + apply eqb_spec in E. subst k2. rewrite IH. split.
        * intros [H1 H2]. split; auto.
        * intros [[H1|H1] H2]; [inversion H1; subst; contradiction | auto].
      + apply eqb_false_neq in E. cbn. rewrite IH. split.
        * intros [H1|[H1 H2]]; [inversion H1; subst; split; auto; congruence | split; auto].
        * intros [[H1|H1] H2]; auto.
  Qed.
  Lemma keys_adel_incl : forall k x (l : list (K * V)), In x (map fst (adel eqb k l)) -> In x (map fst l) /\ x <> k.
  Proof.
    intros k x l H. apply in_map_iff in H. destruct H as [[k' v] [H1 H2]]. cbn in H1. subst k'.
    apply In_adel in H2. destruct H2. split; auto. apply in_map_iff. exists (x, v). auto.
  Qed.
  Lemma NoDup_adel : forall k (l : list (K * V)), NoDup (map fst l) -> NoDup (map fst (adel eqb k l)).
  Proof.
    induction l as [|[k2 v2] l IH]; cbn; intros H; auto.
    inversion H; subst. destruct (eqb k k2); auto. cbn. constructor; auto.
    intro Hin. apply keys_adel_incl in Hin. tauto.
  Qed.
  Lemma NoDup_aset : forall k v (l : list (K * V)), NoDup (map fst l) -> NoDup (map fst (aset eqb k v l)).
  Proof.
    intros. unfold aset. cbn. constructor.
    - intro Hin. apply keys_adel_incl in Hin. tauto.
    - apply NoDup_adel; auto.
  Qed.
  Lemma alookup_In : forall k v (l : list (K * V)), NoDup (map fst l) -> (alookup eqb k l = Some v <-> In (k, v) l).
  Proof.
    induction l as [|[k2 v2] l IH]; cbn; intros H.
    - split; [discriminate | tauto].
    - inversion H; subst. destruct (eqb k k2) eqn:E.
      + apply eqb_spec in E. subst k2. split.
        * intros H1. inversion H1; subst. auto.
        * intros [H1|H1]; [inversion H1; auto|]. exfalso. apply H2. apply in_map_iff. exists (k, v). auto.
      + apply eqb_false_neq in E. rewrite IH by auto. split; auto.
        intros [H1|H1]; auto. inversion H1; subst. congruence.
  Qed.
  Lemma alookup_None_notin : forall k (l : list (K * V)), alookup eqb k l = None -> ~ In k (map fst l).
  Proof.
    induction l as [|[k2 v2] l IH]; cbn; intros H; auto.
    destruct (eqb k k2) eqn:E; [discriminate|]. apply eqb_false_neq in E. intros [H1|H1]; [congruence | apply IH; auto].
  Qed.
  Lemma alookup_Some_in : forall k v (l : list (K * V)), alookup eqb k l = Some v -> In (k, v) l.
  Proof.
    induction l as [|[k2 v2] l IH]; cbn; intros H; [discriminate|].
    destruct (eqb k k2) eqn:E.
    - apply eqb_spec in E. inversion H; subst. auto.
    - auto.
  Qed.
  Lemma adel_notin : forall k (l : list (K * V)), alookup eqb k l = None -> adel eqb k l = l.
  Proof.
    induction l as [|[k2 v2] l IH]; cbn; intros H; auto.
    destruct (eqb k k2); [discriminate|]. rewrite IH; auto.
  Qed.
End AssocLemmas.

Section AssocMap.
  Context {K V W : Type} (eqb : K -> K -> bool) (f : V -> W).
  Let g := fun kv : K * V => (fst kv, f (snd kv)).
  Lemma alookup_map : forall k (l : list (K * V)), alookup eqb k (map g l) = option_map f (alookup eqb k l).
  Proof. induction l as [|[k2 v2] l IH]; cbn; auto. destruct (eqb k k2); auto. Qed.
  Lemma adel_map : forall k (l : list (K * V)), adel eqb k (map g l) = map g (adel eqb k l).
  Proof. induction l as [|[k2 v2] l IH]; cbn; auto. destruct (eqb k k2); cbn; rewrite IH; auto. Qed.
  Lemma keys_map : forall (l : list (K * V)), map fst (map g l) = map fst l.
  Proof. induction l as [|[k2 v2] l IH]; cbn; auto. rewrite IH. auto. Qed.
End AssocMap.

Lemma Neqb_spec : forall a b : N, (a =? b) = true <-> a = b.
Proof. intros. apply N.eqb_eq. Qed.
Lemma fname_eqb_spec : forall a b, fname_eqb a b = true <-> a = b.
Proof.
  intros [i1 f1 o1 t1] [i2 f2 o2 t2]. unfold fname_eqb. cbn. split.
  - intros H. repeat (apply andb_prop in H; destruct H as [H ?]).
    apply N.eqb_eq in H. apply eqb_prop in H2. apply N.eqb_eq in H1. apply N.eqb_eq in H0. subst. reflexivity.
  - intros H. inversion H; subst. rewrite !N.eqb_refl, eqb_reflx. reflexivity.
Qed.

(* specialised to the index (keys N) and the file map (keys fname) *)
Arguments ilookup {V} _ _ : simpl never.
Arguments idel {V} _ _ : simpl never.
Arguments iset {V} _ _ _ : simpl never.
Arguments flookup _ _ : simpl never.
Arguments fdel _ _ : simpl never.
Arguments fset _ _ _ : simpl never.
Section Spec1.
  Context {V : Type}.
  Implicit Types (l : list (N * V)).
  Lemma il_del_eq k l : ilookup k (idel k l) = None.
  Proof. first [apply (alookup_adel_eq N.eqb Neqb_spec) | apply (alookup_adel_eq N.eqb)]. Qed.
  Lemma il_del_neq k k' l : k <> k' -> ilookup k' (idel k l) = ilookup k' l.
  Proof. first [apply (alookup_adel_neq N.eqb Neqb_spec) | apply (alookup_adel_neq N.eqb)]. Qed.
  Lemma il_set_eq k v l : ilookup k (iset k v l) = Some v.
  Proof. first [apply (alookup_aset_eq N.eqb Neqb_spec) | apply (alookup_aset_eq N.eqb)]. Qed.
  Lemma il_set_neq k k' v l : k <> k' -> ilookup k' (iset k v l) = ilookup k' l.
  Proof. first [apply (alookup_aset_neq N.eqb Neqb_spec) | apply (alookup_aset_neq N.eqb)]. Qed.
  Lemma i_In_del k k' v l : In (k', v) (idel k l) <-> In (k', v) l /\ k' <> k.
  Proof. first [apply (In_adel N.eqb Neqb_spec) | apply (In_adel N.eqb)]. Qed.
  Lemma i_NoDup_del k l : NoDup (map fst l) -> NoDup (map fst (idel k l)).
  Proof. first [apply (NoDup_adel N.eqb Neqb_spec) | apply (NoDup_adel N.eqb)]. Qed.
  Lemma i_NoDup_set k v l : NoDup (map fst l) -> NoDup (map fst (iset k v l)).
  Proof. first [apply (NoDup_aset N.eqb Neqb_spec) | apply (NoDup_aset N.eqb)]. Qed.
  Lemma il_In k v l : NoDup (map fst l) -> (ilookup k l = Some v <-> In (k, v) l).
  Proof. first [apply (alookup_In N.eqb Neqb_spec) | apply (alookup_In N.eqb)]. Qed.
  Lemma il_Some_in k v l : ilookup k l = Some v -> In (k, v) l.
  Proof. first [apply (alookup_Some_in N.eqb Neqb_spec) | apply (alookup_Some_in N.eqb)]. Qed.
  Lemma il_None_notin k l : ilookup k l = None -> ~ In k (map fst l).
  Proof. first [apply (alookup_None_notin N.eqb Neqb_spec) | apply (alookup_None_notin N.eqb)]. Qed.
  Lemma i_del_notin k l : ilookup k l = None -> idel k l = l.
  Proof. first [apply (adel_notin N.eqb Neqb_spec) | apply (adel_notin N.eqb)]. Qed.
  Lemma i_In_set k v k' v' l : In (k', v') (iset k v l) <-> (k' = k /\ v' = v) \/ (In (k', v') l /\ k' <> k).
  Proof.
    unfold iset, aset. cbn. fold (@idel V). rewrite i_In_del. split.
    - intros [H|H]; [inversion H; auto | auto].
    - intros [[H1 H2]|H]; [subst; auto | auto].
  Qed.
End Spec1.

Lemma fl_del_eq n fs : flookup n (fdel n fs) = None.
Proof. first [apply (alookup_adel_eq fname_eqb fname_eqb_spec) | apply (alookup_adel_eq fname_eqb)]. Qed.
Lemma fl_del_neq n n' fs : n <> n' -> flookup n' (fdel n fs) = flookup n' fs.
Proof. first [apply (alookup_adel_neq fname_eqb fname_eqb_spec) | apply (alookup_adel_neq fname_eqb)]. Qed.
Lemma fl_set_eq n v fs : flookup n (fset n v fs) = Some v.
Proof. first [apply (alookup_aset_eq fname_eqb fname_eqb_spec) | apply (alookup_aset_eq fname_eqb)]. Qed.
Lemma fl_set_neq n n' v fs : n <> n' -> flookup n' (fset n v fs) = flookup n' fs.
Proof. first [apply (alookup_aset_neq fname_eqb fname_eqb_spec) | apply (alookup_aset_neq fname_eqb)]. Qed.

(* ================================================================================== *)
(* well-formed stores                                                                 *)
(* ================================================================================== *)
Definition part_ok (k : N) (frag : bool) (p : cpart) : Prop :=
  p_name p = if frag then mkF k true (p_off p) (p_total p) else mkF k false 0 0.
Definition frag_key (p : cpart) : N * N := (p_off p, p_total p).
Definition rec_ok (k : N) (r : crec) : Prop :=
  Forall (part_ok k (r_frag r)) (r_parts r)
  /\ r_parts r <> []
  /\ NoDup (map frag_key (r_parts r))
  /\ (r_frag r = false -> length (r_parts r) = 1%nat).
Definition wf (c : cstate) : Prop :=
  NoDup (map fst (c_idx c)) /\ forall k r, In (k, r) (c_idx c) -> rec_ok k r.

Lemma wf_init : wf store_init.
Proof. split; cbn; [constructor | tauto]. Qed.

Lemma wf_lookup c k r : wf c -> ilookup k (c_idx c) = Some r -> rec_ok k r.
Proof. intros [_ H] Hl. apply H. apply il_Some_in; auto. Qed.

Lemma part_ok_id k fr p : part_ok k fr p -> f_id (p_name p) = k.
Proof. unfold part_ok. intros ->. destruct fr; reflexivity. Qed.

Lemma same_frag_false_notin b ps :
  existsb (same_frag b) ps = false -> ~ In (b_off b, b_total b) (map frag_key ps).
Proof.
  intros H Hin. apply in_map_iff in Hin. destruct Hin as [p [Hp Hin]].
  assert (existsb (same_frag b) ps = true); [|congruence].
  apply existsb_exists. exists p. split; auto. unfold same_frag, frag_key in *. inversion Hp.
  rewrite !N.eqb_refl. reflexivity.
Qed.

Lemma mk_part_ok b : part_ok (b_id b) (b_frag b) (mk_part b).
Proof. unfold part_ok, mk_part, bundle_name. cbn. destruct (b_frag b); reflexivity. Qed.

Lemma rec_ok_new b : rec_ok (b_id b) (new_item b).
Proof.
  unfold rec_ok, new_item; cbn. repeat split.
  - constructor; [apply mk_part_ok | constructor].
  - discriminate.
  - constructor; [cbn; tauto | constructor].
Qed.

(* index-changing steps *)
Lemma wf_iset c k r : wf c -> rec_ok k r -> wf (mkC (iset k r (c_idx c)) (c_files c)).
Proof.
  intros [H1 H2] Hr. split; cbn.
  - apply i_NoDup_set; auto.
  - intros k' r' Hin. apply i_In_set in Hin. destruct Hin as [[-> ->]|[Hin _]]; auto.
Qed.
Lemma wf_idel c k : wf c -> wf (mkC (idel k (c_idx c)) (c_files c)).
Proof.
  intros [H1 H2]. split; cbn.
  - apply i_NoDup_del; auto.
  - intros k' r' Hin. apply i_In_del in Hin. destruct Hin; auto.
Qed.
Lemma wf_files c fs : wf c -> wf (mkC (c_idx c) fs).
Proof. intros [H1 H2]. split; cbn; auto. Qed.

(* every step an operation can issue keeps the store well-formed *)
Definition step_ok (c : cstate) (m : st_mstep) : Prop :=
  match m with
  | MInsert k r => rec_ok k r
  | MUpdate k r => rec_ok k r
  | _ => True
  end.
Lemma wf_apply_step c m : wf c -> step_ok c m -> wf (apply_step c m).
Proof.
  intros Hw Hs. destruct m; cbn.
  - apply (wf_files c); auto.
  - apply (wf_files c); auto.
  - destruct (ilookup k (c_idx c)); auto. apply wf_iset; auto.
  - destruct (ilookup k (c_idx c)); auto. apply wf_iset; auto.
  - apply wf_idel; auto.
Qed.

Lemma apply_steps_app c ms1 ms2 : apply_steps c (ms1 ++ ms2) = apply_steps (apply_steps c ms1) ms2.
Proof. unfold apply_steps. apply fold_left_app. Qed.
Lemma apply_steps_cons c m ms : apply_steps c (m :: ms) = apply_steps (apply_step c m) ms.
Proof. reflexivity. Qed.

(* a step list is "plain" when its insert/update records are well-formed (independent of the state) *)
Definition steps_ok (ms : list st_mstep) : Prop := Forall (fun m => forall c, step_ok c m) ms.
Lemma wf_apply_steps ms : forall c, wf c -> steps_ok ms -> wf (apply_steps c ms).
Proof.
  induction ms as [|m ms IH]; intros c Hw Hs; cbn; auto.
  inversion Hs; subst. apply IH; auto. apply wf_apply_step; auto.
Qed.

Lemma NoDup_app_single {A} (l : list A) x : NoDup l -> ~ In x l -> NoDup (l ++ [x]).
Proof.
  induction l as [|y l IH]; cbn; intros Hn Hx.
  - constructor; auto.
  - inversion Hn; subst. constructor.
    + rewrite in_app_iff. cbn. intros [H|[H|[]]]; [contradiction | subst; tauto].
    + apply IH; auto.
Qed.

Lemma rec_ok_append b r :
  rec_ok (b_id b) r -> b_frag b = true -> r_frag r = true -> existsb (same_frag b) (r_parts r) = false ->
  rec_ok (b_id b) (mkR (r_pending r) (r_exp r) (r_frag r) (r_props r) (r_parts r ++ [mk_part b])).
Proof.
  intros (Hf & Hne & Hnd & Hl) Hb Hr He. unfold rec_ok; cbn. repeat split.
  - apply Forall_app. split; auto. constructor; [|constructor].
    rewrite Hr, <- Hb. apply mk_part_ok.
  - destruct (r_parts r); discriminate.
  - rewrite map_app. cbn. apply NoDup_app_single; auto.
    apply same_frag_false_notin; auto.
  - rewrite Hr. discriminate.
Qed.

(* ================================================================================== *)
(* refinement: the concrete store is the reference map                                *)
(* ================================================================================== *)
Definition valid_op (valid : sbundle -> Prop) (o : op) : Prop :=
  match o with OPush b => valid b | _ => True end.

Lemma bundle_name_id b : f_id (bundle_name b) = b_id b.
Proof. unfold bundle_name. destruct (b_frag b); reflexivity. Qed.

Definition name_fresh (c : cstate) (n : fname) : Prop :=
  forall k r p, In (k, r) (c_idx c) -> In p (r_parts r) -> p_name p <> n.

Lemma name_fresh_new c b : wf c -> ilookup (b_id b) (c_idx c) = None -> name_fresh c (bundle_name b).
Proof.
  intros [Hn Hr] Hl k r p Hin Hp Heq.
  apply il_None_notin in Hl. apply Hl. apply in_map_iff. exists (k, r). split; auto. cbn.
  destruct (Hr k r Hin) as (Hf & _). rewrite Forall_forall in Hf. apply Hf in Hp.
  apply part_ok_id in Hp. rewrite Heq, bundle_name_id in Hp. congruence.
Qed.

Lemma name_fresh_append c b r :
  wf c -> ilookup (b_id b) (c_idx c) = Some r -> b_frag b = true -> r_frag r = true ->
  existsb (same_frag b) (r_parts r) = false -> name_fresh c (bundle_name b).
Proof.
  intros Hw Hl Hb Hrf He k r' p Hin Hp Heq.
  destruct Hw as [Hn Hr].
  destruct (Hr k r' Hin) as (Hf & _). rewrite Forall_forall in Hf. pose proof (Hf p Hp) as Hpo.
  pose proof (part_ok_id _ _ _ Hpo) as Hid. rewrite Heq, bundle_name_id in Hid. subst k.
  apply il_In in Hin; auto. rewrite Hl in Hin. inversion Hin; subst r'.
  unfold part_ok in Hpo. rewrite Hrf, Heq in Hpo. unfold bundle_name in Hpo. rewrite Hb in Hpo.
  inversion Hpo as [[H1 H2]].
  apply (same_frag_false_notin b (r_parts r) He). apply in_map_iff. exists p. split; auto.
  unfold frag_key. congruence.
Qed.

Section Refine.
  Variable dec : list N -> option sbundle.
  Variable live : sbundle -> bool.
  Variable valid : sbundle -> Prop.
  Hypothesis dec_ok : forall b tail, valid b -> dec (b_bytes b ++ tail) = view live b.

  Lemma load_fset_eq n v fs : load dec (fset n v fs) n = dec v.
  Proof. unfold load. rewrite fl_set_eq. reflexivity. Qed.

  Lemma abs_part_ext fs fs' p : flookup (p_name p) fs' = flookup (p_name p) fs -> abs_part dec fs' p = abs_part dec fs p.
  Proof. intros H. unfold abs_part, load. rewrite H. reflexivity. Qed.
  Lemma abs_rec_ext fs fs' r :
    (forall p, In p (r_parts r) -> flookup (p_name p) fs' = flookup (p_name p) fs) -> abs_rec dec fs' r = abs_rec dec fs r.
  Proof.
    intros H. unfold abs_rec. f_equal. apply map_ext_in. intros p Hp. apply abs_part_ext. auto.
  Qed.
  Lemma abs_ext idx fs fs' :
    (forall k r p, In (k, r) idx -> In p (r_parts r) -> flookup (p_name p) fs' = flookup (p_name p) fs) ->
    abs dec (mkC idx fs') = abs dec (mkC idx fs).
  Proof.
    intros H. unfold abs. cbn [c_idx c_files]. apply map_ext_in. intros [k r] Hin. cbn [fst snd]. f_equal.
    apply abs_rec_ext. intros p Hp. eapply H; eauto.
  Qed.
  Lemma abs_fset_fresh c n v : name_fresh c n -> abs dec (mkC (c_idx c) (fset n v (c_files c))) = abs dec c.
  Proof.
    intros Hf. destruct c as [idx fs]. cbn [c_idx c_files]. apply abs_ext. intros k r p Hin Hp.
    apply fl_set_neq. intro E. eapply Hf; eauto.
  Qed.

  Lemma abs_lookup c k : ilookup k (abs dec c) = option_map (abs_rec dec (c_files c)) (ilookup k (c_idx c)).
  Proof. unfold abs, ilookup. apply (alookup_map N.eqb (abs_rec dec (c_files c))). Qed.
  Lemma abs_iset idx fs k r : abs dec (mkC (iset k r idx) fs) = iset k (abs_rec dec fs r) (abs dec (mkC idx fs)).
  Proof.
    unfold abs, iset, aset. cbn [c_idx c_files map fst snd]. f_equal.
    symmetry. apply (adel_map N.eqb (abs_rec dec fs)).
  Qed.
  Lemma abs_idel idx fs k : abs dec (mkC (idel k idx) fs) = idel k (abs dec (mkC idx fs)).
  Proof. unfold abs, idel. cbn [c_idx c_files]. symmetry. apply (adel_map N.eqb (abs_rec dec fs)). Qed.
  Lemma abs_keys c : map fst (abs dec c) = map fst (c_idx c).
  Proof. unfold abs. apply (keys_map (abs_rec dec (c_files c))). Qed.

  Lemma existsb_same_abs b fs ps : existsb (same_afrag b) (map (abs_part dec fs) ps) = existsb (same_frag b) ps.
  Proof. induction ps as [|p ps IH]; cbn; auto. rewrite IH. reflexivity. Qed.

  Lemma load_written b old fs : valid b -> load dec (fset (bundle_name b) (write_over old (b_bytes b)) fs) (bundle_name b) = view live b.
  Proof. intros Hv. rewrite load_fset_eq. unfold write_over. apply dec_ok. auto. Qed.

  Lemma abs_push c b : wf c -> valid b -> abs dec (apply_op c (OPush b)) = spec_apply live (abs dec c) (OPush b).
  Proof.
    intros Hw Hv. unfold apply_op. cbn [op_steps spec_apply]. rewrite abs_lookup.
    destruct (ilookup (b_id b) (c_idx c)) as [r|] eqn:El; cbn [option_map push_plan].
    - cbn [abs_rec a_frag a_parts a_pending a_exp a_props]. rewrite existsb_same_abs.
      destruct (b_frag b) eqn:Eb; [|reflexivity].
      destruct (r_frag r) eqn:Er; cbn [negb]; [|reflexivity].
      destruct (existsb (same_frag b) (r_parts r)) eqn:Ee; [reflexivity|].
      cbn [apply_steps fold_left apply_step c_idx c_files]. rewrite El.
      set (fs1 := fset (bundle_name b) _ (c_files c)).
      rewrite abs_iset. f_equal.
      + unfold abs_rec. cbn [r_pending r_exp r_frag r_props r_parts]. f_equal.
        rewrite map_app. cbn [map]. f_equal.
        * apply map_ext_in. intros p Hp. apply abs_part_ext. unfold fs1. apply fl_set_neq.
          intro E. eapply (name_fresh_append c b r); eauto. apply il_Some_in; eauto.
        * unfold abs_part. cbn [mk_part p_name p_off p_total]. unfold fs1. rewrite load_written; auto.
      + unfold fs1. apply abs_fset_fresh. eapply name_fresh_append; eauto.
    - cbn [apply_steps fold_left apply_step c_idx c_files]. rewrite El.
      set (fs1 := fset (bundle_name b) _ (c_files c)).
      rewrite abs_iset. f_equal.
      + unfold abs_rec, new_item, new_arec. cbn [r_pending r_exp r_frag r_props r_parts map]. f_equal. f_equal.
        unfold abs_part. cbn [mk_part p_name p_off p_total]. unfold fs1. rewrite load_written; auto.
      + unfold fs1. apply abs_fset_fresh. apply name_fresh_new; auto.
  Qed.

  Lemma wf_push c b : wf c -> wf (apply_op c (OPush b)).
  Proof.
    intros Hw. unfold apply_op. cbn [op_steps]. apply wf_apply_steps; auto.
    unfold push_plan. destruct (ilookup (b_id b) (c_idx c)) as [r|] eqn:El.
    - destruct (b_frag b) eqn:Eb; [|constructor].
      destruct (r_frag r) eqn:Er; cbn [negb]; [|constructor].
      destruct (existsb (same_frag b) (r_parts r)) eqn:Ee; [constructor|].
      apply Forall_cons; [intros ?; exact I | apply Forall_cons; [intros ?; cbn [step_ok] | apply Forall_nil]].
      rewrite <- Er. apply rec_ok_append; auto. eapply wf_lookup; eauto.
    - apply Forall_cons; [intros ?; exact I | apply Forall_cons; [intros ?; cbn [step_ok] | apply Forall_nil]].
      apply rec_ok_new.
  Qed.
End Refine.

Lemma apply_removes ps : forall c,
  apply_steps c (map (fun p => MRemove (p_name p)) ps) = mkC (c_idx c) (fold_left (fun fs p => fdel (p_name p) fs) ps (c_files c)).
Proof.
  induction ps as [|p ps IH]; intros c; cbn [map fold_left].
  - destruct c; reflexivity.
  - rewrite apply_steps_cons, IH. reflexivity.
Qed.
Lemma flookup_fold_fdel n ps : forall fs,
  (forall p, In p ps -> p_name p <> n) -> flookup n (fold_left (fun fs p => fdel (p_name p) fs) ps fs) = flookup n fs.
Proof.
  induction ps as [|p ps IH]; intros fs H; cbn [fold_left]; auto.
  rewrite IH by (intros; apply H; right; auto). apply fl_del_neq. apply H. left; auto.
Qed.
Lemma flookup_fold_fdel_any n ps : forall fs,
  flookup n (fold_left (fun fs p => fdel (p_name p) fs) ps fs) = flookup n fs
  \/ flookup n (fold_left (fun fs p => fdel (p_name p) fs) ps fs) = None.
Proof.
  induction ps as [|p ps IH]; intros fs; cbn [fold_left]; auto.
  destruct (IH (fdel (p_name p) fs)) as [H|H]; rewrite H; auto.
  destruct (fname_eqb (p_name p) n) eqn:E.
  - apply fname_eqb_spec in E. subst n. right. apply fl_del_eq.
  - left. apply fl_del_neq. intro. subst. rewrite (proj2 (fname_eqb_spec _ _) eq_refl) in E. discriminate.
Qed.

Lemma filter_map_comm {A B} (g : A -> B) (p : B -> bool) l : filter p (map g l) = map g (filter (fun x => p (g x)) l).
Proof. induction l as [|x l IH]; cbn; auto. destruct (p (g x)); cbn; rewrite IH; auto. Qed.

Lemma sweep_fold ks : forall c,
  apply_steps c (sweep_steps c ks) = fold_left (fun c k => apply_op c (ODelete k)) ks c.
Proof.
  induction ks as [|k ks IH]; intros c; cbn [sweep_steps fold_left]; auto.
  rewrite apply_steps_app, IH. reflexivity.
Qed.

Section Refine2.
  Variable dec : list N -> option sbundle.
  Variable live : sbundle -> bool.
  Variable valid : sbundle -> Prop.
  Hypothesis dec_ok : forall b tail, valid b -> dec (b_bytes b ++ tail) = view live b.

  Lemma abs_update c k pe pr ex : abs dec (apply_op c (OUpdate k pe pr ex)) = spec_apply live (abs dec c) (OUpdate k pe pr ex).
  Proof.
    unfold apply_op. cbn [op_steps spec_apply]. rewrite abs_lookup.
    destruct (ilookup k (c_idx c)) as [r|] eqn:El; cbn [option_map update_plan]; [|reflexivity].
    cbn [apply_steps fold_left apply_step]. rewrite El. rewrite abs_iset. destruct c; reflexivity.
  Qed.
  Lemma wf_update c k pe pr ex : wf c -> wf (apply_op c (OUpdate k pe pr ex)).
  Proof.
    intros Hw. unfold apply_op. cbn [op_steps]. apply wf_apply_steps; auto.
    unfold update_plan. destruct (ilookup k (c_idx c)) as [r|] eqn:El; [|constructor].
    apply Forall_cons; [intros ?; cbn [step_ok] | apply Forall_nil].
    pose proof (wf_lookup _ _ _ Hw El) as (H1 & H2 & H3 & H4). unfold rec_ok. cbn. auto.
  Qed.

  Lemma delete_state c k r : ilookup k (c_idx c) = Some r ->
    apply_op c (ODelete k) = mkC (idel k (c_idx c)) (fold_left (fun fs p => fdel (p_name p) fs) (r_parts r) (c_files c)).
  Proof.
    intros El. unfold apply_op. cbn [op_steps]. rewrite El. cbn [delete_plan].
    rewrite apply_steps_app, apply_removes. reflexivity.
  Qed.
  Lemma abs_delete c k : wf c -> abs dec (apply_op c (ODelete k)) = spec_apply live (abs dec c) (ODelete k).
  Proof.
    intros Hw. cbn [spec_apply]. destruct (ilookup k (c_idx c)) as [r|] eqn:El.
    - rewrite (delete_state c k r El).
      rewrite (abs_ext dec (idel k (c_idx c)) (c_files c)).
      + rewrite abs_idel. destruct c; reflexivity.
      + intros k' r' p Hin Hp. apply i_In_del in Hin. destruct Hin as [Hin Hne].
        apply flookup_fold_fdel. intros q Hq E.
        destruct Hw as [_ Hr].
        destruct (Hr k' r' Hin) as (Hf' & _). rewrite Forall_forall in Hf'. apply Hf' in Hp. apply part_ok_id in Hp.
        destruct (Hr k r (il_Some_in _ _ _ El)) as (Hf & _). rewrite Forall_forall in Hf. apply Hf in Hq. apply part_ok_id in Hq.
        congruence.
    - unfold apply_op. cbn [op_steps]. rewrite El. cbn [delete_plan apply_steps fold_left].
      symmetry. apply i_del_notin. rewrite abs_lookup, El. reflexivity.
  Qed.
  Lemma wf_delete c k : wf c -> wf (apply_op c (ODelete k)).
  Proof.
    intros Hw. unfold apply_op. cbn [op_steps]. apply wf_apply_steps; auto.
    unfold delete_plan. destruct (ilookup k (c_idx c)) as [r|]; [|constructor].
    apply Forall_app. split.
    - apply Forall_forall. intros m Hm. apply in_map_iff in Hm. destruct Hm as [p [<- _]]. intros ?. exact I.
    - apply Forall_cons; [intros ?; exact I | apply Forall_nil].
  Qed.

  Lemma wf_fold_delete ks : forall c, wf c -> wf (fold_left (fun c k => apply_op c (ODelete k)) ks c).
  Proof. induction ks as [|k ks IH]; intros c Hw; cbn [fold_left]; auto. apply IH. apply wf_delete; auto. Qed.
  Lemma abs_fold_delete ks : forall c, wf c ->
    abs dec (fold_left (fun c k => apply_op c (ODelete k)) ks c) = fold_left (fun a k => idel k a) ks (abs dec c).
  Proof.
    induction ks as [|k ks IH]; intros c Hw; cbn [fold_left]; auto.
    rewrite IH by (apply wf_delete; auto). rewrite abs_delete by auto. reflexivity.
  Qed.
  Lemma expired_keys_abs c now : expired_keys a_exp (abs dec c) now = expired_keys r_exp (c_idx c) now.
  Proof.
    unfold expired_keys, abs. rewrite filter_map_comm, map_map. cbn [fst snd]. apply map_ext_in.
    intros [k r] _. reflexivity.
  Qed.
  Lemma abs_sweep c now : wf c -> abs dec (apply_op c (OSweep now)) = spec_apply live (abs dec c) (OSweep now).
  Proof.
    intros Hw. unfold apply_op. cbn [op_steps spec_apply]. rewrite sweep_fold, abs_fold_delete by auto.
    rewrite expired_keys_abs. reflexivity.
  Qed.
  Lemma wf_sweep c now : wf c -> wf (apply_op c (OSweep now)).
  Proof. intros Hw. unfold apply_op. cbn [op_steps]. rewrite sweep_fold. apply wf_fold_delete; auto. Qed.

  (* every complete operation commutes with the abstraction *)
  Theorem abs_apply_op c o : wf c -> valid_op valid o -> abs dec (apply_op c o) = spec_apply live (abs dec c) o.
  Proof.
    intros Hw Hv. destruct o; try reflexivity.
    - apply (abs_push dec live valid dec_ok); auto.
    - apply abs_update.
    - apply abs_delete; auto.
    - apply abs_sweep; auto.
  Qed.
  Theorem wf_apply_op c o : wf c -> wf (apply_op c o).
  Proof.
    intros Hw. destruct o; try exact Hw.
    - apply wf_push; auto.
    - apply wf_update; auto.
    - apply wf_delete; auto.
    - apply wf_sweep; auto.
  Qed.

  (* ... and a whole history is the reference map's history, answers included *)
  Theorem run_refines ops : forall c, wf c -> Forall (valid_op valid) ops ->
    abs dec (fst (run dec c ops)) = fst (spec_run live (abs dec c) ops)
    /\ snd (run dec c ops) = snd (spec_run live (abs dec c) ops)
    /\ wf (fst (run dec c ops)).
  Proof.
    induction ops as [|o ops IH]; intros c Hw Hv; cbn [run spec_run].
    - cbn. auto.
    - inversion Hv; subst.
      destruct (IH (apply_op c o) (wf_apply_op c o Hw) H2) as (H3 & H4 & H5).
      rewrite (abs_apply_op c o Hw H1) in H3, H4.
      destruct (run dec (apply_op c o) ops) as [c' rs].
      destruct (spec_run live (spec_apply live (abs dec c) o) ops) as [a' rs'].
      cbn [fst snd] in *. split; [exact H3 | split; [|exact H5]]. unfold op_result. rewrite H4. reflexivity.
  Qed.
End Refine2.

(* ================================================================================== *)
(* the reference map is a map: lookup laws, pending query, read-back, fragments       *)
(* ================================================================================== *)
Lemma il_fold_idel {V} k ks : forall (a : list (N * V)),
  ilookup k (fold_left (fun a k => idel k a) ks a) = if existsb (N.eqb k) ks then None else ilookup k a.
Proof.
  induction ks as [|k' ks IH]; intros a; cbn [fold_left existsb]; auto.
  rewrite IH. destruct (existsb (N.eqb k) ks); [rewrite orb_true_r; auto|]. rewrite orb_false_r.
  destruct (k =? k') eqn:E.
  - apply N.eqb_eq in E. subst. apply il_del_eq.
  - apply N.eqb_neq in E. apply il_del_neq. congruence.
Qed.
Lemma In_fold_idel {V} x ks : forall (a : list (N * V)), In x (fold_left (fun a k => idel k a) ks a) -> In x a.
Proof.
  induction ks as [|k' ks IH]; intros a H; cbn [fold_left] in H; auto.
  apply IH in H. destruct x as [k v]. apply i_In_del in H. tauto.
Qed.
Lemma NoDup_fold_idel {V} ks : forall (a : list (N * V)), NoDup (map fst a) -> NoDup (map fst (fold_left (fun a k => idel k a) ks a)).
Proof. induction ks as [|k' ks IH]; intros a H; cbn [fold_left]; auto. apply IH. apply i_NoDup_del; auto. Qed.

Lemma existsb_eqb_In k ks : existsb (N.eqb k) ks = true <-> In k ks.
Proof.
  rewrite existsb_exists. split.
  - intros [x [H1 H2]]. apply N.eqb_eq in H2. subst; auto.
  - intros H. exists k. split; auto. apply N.eqb_refl.
Qed.

Section SpecLaws.
  Variable live : sbundle -> bool.
  Implicit Types (a : list (N * arec)).

  Lemma spec_nodup a o : NoDup (map fst a) -> NoDup (map fst (spec_apply live a o)).
  Proof.
    intros Hn. destruct o; cbn [spec_apply]; auto.
    - destruct (ilookup (b_id b) a) as [r|]; [|apply i_NoDup_set; auto].
      destruct (b_frag b); auto. destruct (negb (a_frag r)); auto.
      destruct (existsb (same_afrag b) (a_parts r)); auto. apply i_NoDup_set; auto.
    - destruct (ilookup k a); auto. apply i_NoDup_set; auto.
    - apply i_NoDup_del; auto.
    - apply NoDup_fold_idel; auto.
  Qed.

  (* push touches only the record of the sbundle's ID, and that record exists afterwards *)
  Lemma spec_push_other a b k : k <> b_id b -> ilookup k (spec_apply live a (OPush b)) = ilookup k a.
  Proof.
    intros Hne. cbn [spec_apply]. destruct (ilookup (b_id b) a) as [r|]; [|apply il_set_neq; congruence].
    destruct (b_frag b); auto. destruct (negb (a_frag r)); auto.
    destruct (existsb (same_afrag b) (a_parts r)); auto. apply il_set_neq; congruence.
  Qed.
  Lemma spec_push_present a b : ilookup (b_id b) (spec_apply live a (OPush b)) <> None.
  Proof.
    cbn [spec_apply]. destruct (ilookup (b_id b) a) as [r|] eqn:E; [|rewrite il_set_eq; discriminate].
    destruct (b_frag b); [|congruence]. destruct (negb (a_frag r)); [congruence|].
    destruct (existsb (same_afrag b) (a_parts r)); [congruence|]. rewrite il_set_eq. discriminate.
  Qed.
  (* a fragment pushed into a new or fragmented record is recorded there *)
  Lemma spec_push_fragment_recorded a b :
    exists r, ilookup (b_id b) (spec_apply live a (OPush b)) = Some r
      /\ (b_frag b = true -> a_frag r = true -> existsb (same_afrag b) (a_parts r) = true).
  Proof.
    cbn [spec_apply]. destruct (ilookup (b_id b) a) as [r|] eqn:E.
    - destruct (b_frag b) eqn:Eb; [|exists r; split; auto; discriminate].
      destruct (a_frag r) eqn:Er; cbn [negb]; [|exists r; split; auto; congruence].
      destruct (existsb (same_afrag b) (a_parts r)) eqn:Ee; [exists r; split; auto|].
      eexists. rewrite il_set_eq. split; [reflexivity|]. intros _ _. cbn [a_parts].
      rewrite existsb_app. cbn. unfold same_afrag. cbn. rewrite !N.eqb_refl. apply orb_true_r.
    - eexists. rewrite il_set_eq. split; [reflexivity|]. intros _ _. cbn. unfold same_afrag. cbn. rewrite !N.eqb_refl. reflexivity.
  Qed.
  Lemma spec_delete_gone a k : ilookup k (spec_apply live a (ODelete k)) = None.
  Proof. apply il_del_eq. Qed.
  Lemma spec_delete_other a k k' : k <> k' -> ilookup k' (spec_apply live a (ODelete k)) = ilookup k' a.
  Proof. apply il_del_neq. Qed.
  Lemma spec_update_lookup a k pe pr ex k' :
    ilookup k' (spec_apply live a (OUpdate k pe pr ex)) =
    if k' =? k then option_map (fun r => mkA pe ex (a_frag r) pr (a_parts r)) (ilookup k a) else ilookup k' a.
  Proof.
    cbn [spec_apply]. destruct (k' =? k) eqn:E.
    - apply N.eqb_eq in E. subst. destruct (ilookup k a) eqn:El; cbn; [apply il_set_eq | auto].
    - apply N.eqb_neq in E. destruct (ilookup k a) eqn:El; auto. apply il_set_neq. congruence.
  Qed.
  Lemma expired_keys_In a now k : NoDup (map fst a) ->
    (In k (expired_keys a_exp a now) <-> exists r, ilookup k a = Some r /\ (a_exp r <? now)%Z = true).
  Proof.
    intros Hn. unfold expired_keys. rewrite in_map_iff. split.
    - intros [[k' r] [H1 H2]]. cbn in H1. subst k'. apply filter_In in H2. destruct H2 as [H2 H3].
      exists r. split; auto. apply il_In; auto.
    - intros [r [H1 H2]]. exists (k, r). split; auto. apply filter_In. split; auto. apply il_In; auto.
  Qed.
  (* the sweep removes exactly the records whose expiry lies before [now] *)
  Lemma spec_sweep_lookup a now k : NoDup (map fst a) ->
    ilookup k (spec_apply live a (OSweep now)) =
    match ilookup k a with Some r => if (a_exp r <? now)%Z then None else Some r | None => None end.
  Proof.
    intros Hn. cbn [spec_apply]. rewrite il_fold_idel.
    destruct (existsb (N.eqb k) (expired_keys a_exp a now)) eqn:E.
    - apply existsb_eqb_In in E. apply expired_keys_In in E; auto. destruct E as [r [H1 H2]]. rewrite H1, H2. reflexivity.
    - destruct (ilookup k a) as [r|] eqn:El; auto. destruct (a_exp r <? now)%Z eqn:Ex; auto.
      assert (existsb (N.eqb k) (expired_keys a_exp a now) = true); [|congruence].
      apply existsb_eqb_In. apply expired_keys_In; auto. exists r. auto.
  Qed.
  Lemma spec_query_state a o : match o with OQueryId _ | OQueryPending | OKnows _ | OComplete _ | OReopen => spec_apply live a o = a | _ => True end.
  Proof. destruct o; auto. Qed.
  (* the pending query returns exactly the records flagged pending *)
  Lemma spec_pending_exact a k r : NoDup (map fst a) ->
    (In (k, r) (filter (fun kr => a_pending (snd kr)) a) <-> ilookup k a = Some r /\ a_pending r = true).
  Proof. intros Hn. rewrite filter_In. cbn [snd]. rewrite (il_In k r a Hn). tauto. Qed.

  (* ---- every part of every record is a pushed sbundle, recorded once ---- *)
  Definition afrag_key (p : apart) : N * N := (ap_off p, ap_total p).
  Definition part_from (P : sbundle -> Prop) (k : N) (r : arec) (p : apart) : Prop :=
    exists b, P b /\ b_id b = k /\ ap_off p = b_off b /\ ap_total p = b_total b /\ ap_data p = view live b /\ b_frag b = a_frag r.
  Definition sinv (P : sbundle -> Prop) a : Prop :=
    forall k r, In (k, r) a ->
      a_parts r <> [] /\ NoDup (map afrag_key (a_parts r)) /\ forall p, In p (a_parts r) -> part_from P k r p.

  Lemma sinv_mono (P Q : sbundle -> Prop) a : (forall b, P b -> Q b) -> sinv P a -> sinv Q a.
  Proof.
    intros HPQ H k r Hin. destruct (H k r Hin) as (H1 & H2 & H3). repeat split; auto.
    intros p Hp. destruct (H3 p Hp) as [b (Hb & Hr)]. exists b. split; auto.
  Qed.
  Lemma same_afrag_false_notin b ps : existsb (same_afrag b) ps = false -> ~ In (b_off b, b_total b) (map afrag_key ps).
  Proof.
    intros H Hin. apply in_map_iff in Hin. destruct Hin as [p [Hp Hin]].
    assert (existsb (same_afrag b) ps = true); [|congruence].
    apply existsb_exists. exists p. split; auto. unfold same_afrag, afrag_key in *. inversion Hp.
    rewrite !N.eqb_refl. reflexivity.
  Qed.
  Lemma sinv_step (P : sbundle -> Prop) a o : NoDup (map fst a) -> sinv P a ->
    sinv (fun b => P b \/ o = OPush b) (spec_apply live a o).
  Proof.
    intros Hn Hs.
    assert (Hs' : sinv (fun b => P b \/ o = OPush b) a) by (eapply sinv_mono; [|exact Hs]; auto).
    destruct o; cbn [spec_apply]; auto.
    - (* push *)
      destruct (ilookup (b_id b) a) as [r|] eqn:El.
      + destruct (b_frag b) eqn:Eb; auto. destruct (a_frag r) eqn:Er; cbn [negb]; auto.
        destruct (existsb (same_afrag b) (a_parts r)) eqn:Ee; auto.
        intros k' r' Hin. apply i_In_set in Hin. destruct Hin as [[-> ->]|[Hin _]]; [|apply Hs'; auto].
        apply il_Some_in in El. destruct (Hs' _ _ El) as (H1 & H2 & H3). cbn [a_parts a_frag]. repeat split.
        * destruct (a_parts r); discriminate.
        * rewrite map_app. cbn. apply NoDup_app_single; auto. apply same_afrag_false_notin; auto.
        * intros p Hp. apply in_app_iff in Hp. destruct Hp as [Hp|[<-|[]]].
          -- destruct (H3 p Hp) as [b' Hb']. exists b'. cbn [a_frag]. rewrite Er in Hb'. exact Hb'.
          -- exists b. cbn. repeat split; auto.
      + intros k' r' Hin. apply i_In_set in Hin. destruct Hin as [[-> ->]|[Hin _]]; [|apply Hs'; auto].
        unfold new_arec. cbn [a_parts a_frag]. repeat split.
        * discriminate.
        * constructor; [cbn; tauto | constructor].
        * intros p [<-|[]]. exists b. cbn. repeat split; auto.
    - (* update *)
      destruct (ilookup k a) as [r|] eqn:El; auto.
      intros k' r' Hin. apply i_In_set in Hin. destruct Hin as [[-> ->]|[Hin _]]; [|apply Hs'; auto].
      apply il_Some_in in El. destruct (Hs' _ _ El) as (H1 & H2 & H3). cbn [a_parts a_frag]. repeat split; auto.
    - (* delete *)
      intros k' r' Hin. apply i_In_del in Hin. destruct Hin. apply Hs'; auto.
    - (* sweep *)
      intros k' r' Hin. apply In_fold_idel in Hin. apply Hs'; auto.
  Qed.
  Lemma sinv_run ops : forall (P : sbundle -> Prop) a, NoDup (map fst a) -> sinv P a ->
    sinv (fun b => P b \/ In (OPush b) ops) (fst (spec_run live a ops)) /\ NoDup (map fst (fst (spec_run live a ops))).
  Proof.
    induction ops as [|o ops IH]; intros P a Hn Hs; cbn [spec_run].
    - cbn. split; auto. eapply sinv_mono; [|exact Hs]. auto.
    - destruct (IH _ _ (spec_nodup a o Hn) (sinv_step P a o Hn Hs)) as [H1 H2].
      destruct (spec_run live (spec_apply live a o) ops) as [a' rs]. cbn [fst] in *. split; auto.
      eapply sinv_mono; [|exact H1]. cbn beta. intros b. cbn [In]. tauto.
  Qed.
End SpecLaws.

(* ================================================================================== *)
(* complete <-> the parts cover [0, total)                                             *)
(* ================================================================================== *)
Definition covered (bs : list sbundle) (x : N) : Prop := exists b, In b bs /\ b_off b <= x /\ x < b_off b + b_plen b.
Definition frag_of (t : N) (b : sbundle) : Prop := b_frag b = true /\ b_total b = t /\ b_off b + b_plen b <= t.
Definition off_le (a b : sbundle) : Prop := b_off a <= b_off b.

Lemma In_ins x b l : In x (ins_by_off b l) <-> x = b \/ In x l.
Proof.
  induction l as [|y l IH]; cbn.
  - intuition.
  - destruct (b_off b <=? b_off y); cbn; [intuition|]. rewrite IH. intuition.
Qed.
Lemma In_sort x l : In x (sort_by_off l) <-> In x l.
Proof.
  induction l as [|y l IH]; cbn; [tauto|]. rewrite In_ins, IH. intuition.
Qed.
Lemma sorted_ins b l : StronglySorted off_le l -> StronglySorted off_le (ins_by_off b l).
Proof.
  induction l as [|y l IH]; cbn; intros H.
  - constructor; [constructor | constructor].
  - pose proof H as H'. apply StronglySorted_inv in H'. destruct H' as [Hl Hy].
    destruct (b_off b <=? b_off y) eqn:E.
    + constructor; auto. constructor.
      * unfold off_le. lia.
      * rewrite Forall_forall in *. intros z Hz. specialize (Hy z Hz). unfold off_le in *. lia.
    + constructor; auto. rewrite Forall_forall in *. intros z Hz. apply In_ins in Hz. destruct Hz as [->|Hz]; auto.
      unfold off_le. lia.
Qed.
Lemma sorted_sort l : StronglySorted off_le (sort_by_off l).
Proof. induction l as [|y l IH]; cbn; [constructor | apply sorted_ins; auto]. Qed.

Lemma covered_cons_not b l x : ~ covered l x -> ~ (b_off b <= x /\ x < b_off b + b_plen b) -> ~ covered (b :: l) x.
Proof. intros H1 H2 [b' [[<-|Hin] Hc]]; [tauto | apply H1; exists b'; auto]. Qed.

Lemma scan_some l : forall hi h', Forall (fun b => b_frag b = true) l -> scan_parts hi l = Some h' ->
  hi <= h' /\ (forall b, In b l -> b_off b + b_plen b <= h')
  /\ (forall x, hi <= x -> x < h' -> covered l x)
  /\ (h' = hi \/ exists b, In b l /\ h' = b_off b + b_plen b).
Proof.
  induction l as [|b l IH]; intros hi h' Hf Hs; cbn [scan_parts] in Hs.
  - inversion Hs; subst. repeat split; auto; try lia. intros b [].
  - pose proof (Forall_inv Hf) as Hfb. pose proof (Forall_inv_tail Hf) as Hfl.
    rewrite Hfb in Hs. cbn [negb] in Hs.
    destruct (hi <? b_off b) eqn:E; [discriminate|].
    destruct (IH _ _ Hfl Hs) as (I1 & I2 & I3 & I4). repeat split.
    + lia.
    + intros b' [<-|Hin]; [lia | auto].
    + intros x Hx1 Hx2. destruct (N.ltb_spec x (b_off b + b_plen b)).
      * exists b. split; [left; auto | lia].
      * destruct (I3 x) as [b' [Hin Hc]]; [lia | lia |]. exists b'. split; [right; auto | auto].
    + destruct I4 as [I4|[b' [Hin I4]]].
      * destruct (N.max_spec hi (b_off b + b_plen b)) as [[_ Hm]|[_ Hm]]; rewrite Hm in I4.
        -- right. exists b. split; [left; auto | auto].
        -- left. auto.
      * right. exists b'. split; [right; auto | auto].
Qed.

Lemma scan_none l : forall hi t, StronglySorted off_le l -> Forall (fun b => b_frag b = true) l ->
  (forall b, In b l -> b_off b + b_plen b <= t) -> scan_parts hi l = None ->
  exists x, hi <= x /\ x < t /\ ~ covered l x.
Proof.
  induction l as [|b l IH]; intros hi t Hs Hf He Hn; cbn [scan_parts] in Hn; [discriminate|].
  pose proof (Forall_inv Hf) as Hfb. pose proof (Forall_inv_tail Hf) as Hfl.
  apply StronglySorted_inv in Hs. destruct Hs as [Hsl Hsb].
  rewrite Hfb in Hn. cbn [negb] in Hn.
  destruct (hi <? b_off b) eqn:E.
  - exists hi. pose proof (He b (or_introl eq_refl)). repeat split; try lia.
    intros [b' [[<-|Hin] Hc]]; [lia|]. rewrite Forall_forall in Hsb. specialize (Hsb b' Hin). unfold off_le in Hsb. lia.
  - destruct (IH (N.max hi (b_off b + b_plen b)) t Hsl Hfl) as [x (X1 & X2 & X3)]; auto.
    + intros b' Hin. apply He. right; auto.
    + exists x. repeat split; try lia. apply covered_cons_not; auto. lia.
Qed.

Lemma covered_sort bs x : covered (sort_by_off bs) x <-> covered bs x.
Proof. unfold covered. split; intros [b [H1 H2]]; exists b; split; auto; [apply (proj1 (In_sort _ _)) | apply (proj2 (In_sort _ _))]; auto. Qed.

(* IsBundleReassemblable on fragments of one sbundle = every position below the total lies in some part *)
Theorem reassemblable_iff_cover bs t : bs <> [] -> Forall (frag_of t) bs ->
  (reassemblable bs = true <-> forall x, x < t -> covered bs x).
Proof.
  intros Hne Hf. unfold reassemblable, reassemblable_with.
  assert (Hfs : Forall (fun b => b_frag b = true) (sort_by_off bs)).
  { apply Forall_forall. intros b Hb. apply (proj1 (In_sort _ _)) in Hb. rewrite Forall_forall in Hf. apply Hf in Hb. apply Hb. }
  assert (Hes : forall b, In b (sort_by_off bs) -> b_off b + b_plen b <= t).
  { intros b Hb. apply (proj1 (In_sort _ _)) in Hb. rewrite Forall_forall in Hf. apply Hf in Hb. apply Hb. }
  destruct (sort_by_off bs) as [|f s] eqn:Es.
  - exfalso. destruct bs as [|b bs]; [congruence|]. assert (In b (sort_by_off (b :: bs))) by (apply (proj2 (In_sort _ _)); left; auto).
    rewrite Es in H. destruct H.
  - assert (Hft : b_total f = t).
    { assert (In f bs) by (apply (proj1 (In_sort _ _)); rewrite Es; left; auto). rewrite Forall_forall in Hf. apply Hf in H. apply H. }
    rewrite <- Es in *. destruct (scan_parts 0 (sort_by_off bs)) as [h|] eqn:Ec.
    + destruct (scan_some _ _ _ Hfs Ec) as (S1 & S2 & S3 & S4). rewrite Hft. split.
      * intros H. apply N.eqb_eq in H. subst h. intros x Hx. apply covered_sort. apply S3; lia.
      * intros Hc. apply N.eqb_eq.
        assert (h <= t). { destruct S4 as [->|[b [Hb ->]]]; [lia | auto]. }
        destruct (N.eq_dec t 0) as [->|Hz]; [lia|].
        destruct (Hc (t - 1)) as [b [Hb Hx]]; [lia|]. apply (proj2 (In_sort _ _)) in Hb. specialize (S2 b Hb). lia.
    + split; [discriminate|]. intros Hc. exfalso.
      destruct (scan_none _ 0 t (sorted_sort bs) Hfs Hes Ec) as [x (X1 & X2 & X3)].
      apply X3. apply covered_sort. auto.
Qed.

(* ================================================================================== *)
(* crash safety: every prefix of an operation's micro-steps, then reopen              *)
(* ================================================================================== *)
Definition removal_for (T : N -> Prop) (m : st_mstep) : Prop :=
  match m with MRemove n => T (f_id n) | MDelete k => T k | _ => False end.
(* c' is c with some part files of records in T removed and some records in T deleted *)
Definition crash_rel (T : N -> Prop) (c c' : cstate) : Prop :=
  (forall k, ~ T k -> ilookup k (c_idx c') = ilookup k (c_idx c))
  /\ (forall k, ilookup k (c_idx c') = ilookup k (c_idx c) \/ ilookup k (c_idx c') = None)
  /\ (forall n, ~ T (f_id n) -> flookup n (c_files c') = flookup n (c_files c))
  /\ (forall n, flookup n (c_files c') = flookup n (c_files c) \/ flookup n (c_files c') = None).

Lemma crash_rel_refl T c : crash_rel T c c.
Proof. unfold crash_rel. auto. Qed.
Lemma crash_rel_step T c c1 m : removal_for T m -> crash_rel T c c1 -> crash_rel T c (apply_step c1 m).
Proof.
  intros Hm (R1 & R2 & R3 & R4). destruct m; cbn in Hm; try contradiction; cbn [apply_step]; unfold crash_rel; cbn [c_idx c_files].
  - repeat split; auto.
    + intros n' Hn'. rewrite fl_del_neq; auto. intro; subst; contradiction.
    + intros n'. destruct (fname_eqb n n') eqn:E.
      * apply fname_eqb_spec in E. subst. right. apply fl_del_eq.
      * rewrite fl_del_neq; auto. intro; subst. rewrite (proj2 (fname_eqb_spec _ _) eq_refl) in E. discriminate.
  - repeat split; auto.
    + intros k' Hk'. rewrite il_del_neq; auto. intro; subst; contradiction.
    + intros k'. destruct (N.eq_dec k k') as [->|Hne].
      * right. apply il_del_eq.
      * rewrite il_del_neq; auto.
Qed.
Lemma crash_rel_steps T c ms : forall c1, Forall (removal_for T) ms -> crash_rel T c c1 -> crash_rel T c (apply_steps c1 ms).
Proof.
  induction ms as [|m ms IH]; intros c1 Hf Hr; cbn; auto.
  apply IH; [eapply Forall_inv_tail; eauto|]. apply crash_rel_step; auto. eapply Forall_inv; eauto.
Qed.
Lemma removal_steps_ok T ms : Forall (removal_for T) ms -> steps_ok ms.
Proof.
  intros H. unfold steps_ok. eapply Forall_impl; [|exact H]. intros m Hm c. destruct m; cbn in *; auto; contradiction.
Qed.
Lemma Forall_firstn {A} (P : A -> Prop) n : forall l, Forall P l -> Forall P (firstn n l).
Proof.
  induction n as [|n IH]; intros l H; cbn; [constructor|]. destruct l; [constructor|].
  constructor; [eapply Forall_inv; eauto | apply IH; eapply Forall_inv_tail; eauto].
Qed.

Lemma delete_plan_removal c k : wf c -> Forall (removal_for (eq k)) (delete_plan (ilookup k (c_idx c)) k).
Proof.
  intros Hw. unfold delete_plan. destruct (ilookup k (c_idx c)) as [r|] eqn:El; [|constructor].
  apply Forall_app. split.
  - apply Forall_forall. intros m Hm. apply in_map_iff in Hm. destruct Hm as [p [<- Hp]]. cbn.
    destruct (wf_lookup _ _ _ Hw El) as (Hf & _). rewrite Forall_forall in Hf. apply Hf in Hp. apply part_ok_id in Hp. auto.
  - constructor; [cbn; auto | constructor].
Qed.
Lemma sweep_removal ks : forall c, wf c -> Forall (removal_for (fun k => In k ks)) (sweep_steps c ks).
Proof.
  induction ks as [|k ks IH]; intros c Hw; cbn [sweep_steps]; [constructor|].
  apply Forall_app. split.
  - eapply Forall_impl; [|apply delete_plan_removal; auto]. intros m Hm. destruct m; cbn in *; auto.
  - eapply Forall_impl; [|apply IH].
    + intros m Hm. destruct m; cbn in *; auto.
    + apply wf_apply_steps; auto. eapply removal_steps_ok. apply delete_plan_removal; auto.
Qed.

Lemma push_plan_ok c b : wf c -> steps_ok (push_plan (ilookup (b_id b) (c_idx c)) b).
Proof.
  intros Hw. unfold push_plan. destruct (ilookup (b_id b) (c_idx c)) as [r|] eqn:El.
  - destruct (b_frag b) eqn:Eb; [|constructor].
    destruct (r_frag r) eqn:Er; cbn [negb]; [|constructor].
    destruct (existsb (same_frag b) (r_parts r)) eqn:Ee; [constructor|].
    apply Forall_cons; [intros ?; exact I | apply Forall_cons; [intros ?; cbn [step_ok] | apply Forall_nil]].
    rewrite <- Er. apply rec_ok_append; auto. eapply wf_lookup; eauto.
  - apply Forall_cons; [intros ?; exact I | apply Forall_cons; [intros ?; cbn [step_ok] | apply Forall_nil]].
    apply rec_ok_new.
Qed.
Lemma update_plan_ok c k pe pr ex : wf c -> steps_ok (update_plan (ilookup k (c_idx c)) k pe pr ex).
Proof.
  intros Hw. unfold update_plan. destruct (ilookup k (c_idx c)) as [r|] eqn:El; [|constructor].
  apply Forall_cons; [intros ?; cbn [step_ok] | apply Forall_nil].
  pose proof (wf_lookup _ _ _ Hw El) as (H1 & H2 & H3 & H4). unfold rec_ok. cbn. auto.
Qed.
Lemma op_steps_ok c o : wf c -> steps_ok (op_steps c o).
Proof.
  intros Hw. destruct o; cbn [op_steps]; try constructor.
  - apply push_plan_ok; auto.
  - apply update_plan_ok; auto.
  - eapply removal_steps_ok. apply delete_plan_removal; auto.
  - eapply removal_steps_ok. apply sweep_removal; auto.
Qed.
Lemma wf_crash_state c o n : wf c -> wf (crash_state c o n).
Proof.
  intros Hw. unfold crash_state. apply wf_apply_steps; auto. apply Forall_firstn. apply op_steps_ok; auto.
Qed.

(* BundleDescriptor.Bundle() on a well-formed store never indexes an empty Parts slice *)
Lemma no_panic_wf dec c : wf c -> check_pending_outcome dec c = Finished.
Proof.
  intros Hw. unfold check_pending_outcome.
  rewrite (proj2 (forallb_forall _ _)); auto.
  intros [k r] Hin. apply filter_In in Hin. destruct Hin as [Hin _]. cbn [fst].
  unfold dispatch_outcome, descriptor_bundle.
  destruct (ilookup k (c_idx c)) as [r'|] eqn:El; auto.
  destruct (wf_lookup _ _ _ Hw El) as (_ & Hne & _). destruct (r_parts r'); [congruence|].
  destruct (load dec (c_files c) (p_name c0)); auto.
Qed.

Definition op_targets (c : cstate) (o : op) (k : N) : Prop :=
  match o with
  | OPush b => k = b_id b
  | OUpdate k0 _ _ _ => k = k0
  | ODelete k0 => k0 = k
  | OSweep now => In k (expired_keys r_exp (c_idx c) now)
  | _ => False
  end.
Definition is_removal (o : op) : Prop := match o with ODelete _ | OSweep _ => True | _ => False end.

Lemma firstn_two {A} n (x y : A) : firstn n [x; y] = [] \/ firstn n [x; y] = [x] \/ firstn n [x; y] = [x; y].
Proof. destruct n as [|[|n]]; cbn; auto. destruct n; auto. Qed.
Lemma firstn_one {A} n (x : A) : firstn n [x] = [] \/ firstn n [x] = [x].
Proof. destruct n as [|n]; cbn; auto. destruct n; auto. Qed.

Section Crash.
  Variable dec : list N -> option sbundle.

  Lemma crash_push c b n : wf c ->
    abs dec (crash_state c (OPush b) n) = abs dec c \/ crash_state c (OPush b) n = apply_op c (OPush b).
  Proof.
    intros Hw. unfold crash_state, apply_op. cbn [op_steps]. unfold push_plan.
    destruct (ilookup (b_id b) (c_idx c)) as [r|] eqn:El.
    - destruct (b_frag b) eqn:Eb; [|rewrite firstn_nil; auto].
      destruct (r_frag r) eqn:Er; cbn [negb]; [|rewrite firstn_nil; auto].
      destruct (existsb (same_frag b) (r_parts r)) eqn:Ee; [rewrite firstn_nil; auto|].
      match goal with |- context [firstn n [?x; ?y]] => destruct (firstn_two n x y) as [->|[->| ->]] end; auto.
      left. cbn [apply_steps fold_left apply_step]. apply abs_fset_fresh. eapply name_fresh_append; eauto.
    - match goal with |- context [firstn n [?x; ?y]] => destruct (firstn_two n x y) as [->|[->| ->]] end; auto.
      left. cbn [apply_steps fold_left apply_step]. apply abs_fset_fresh. apply name_fresh_new; auto.
  Qed.
  Lemma crash_update c k pe pr ex n :
    crash_state c (OUpdate k pe pr ex) n = c \/ crash_state c (OUpdate k pe pr ex) n = apply_op c (OUpdate k pe pr ex).
  Proof.
    unfold crash_state, apply_op. cbn [op_steps]. unfold update_plan.
    destruct (ilookup k (c_idx c)) as [r|]; [|rewrite firstn_nil; auto].
    match goal with |- context [firstn n [?x]] => destruct (firstn_one n x) as [->| ->] end; auto.
  Qed.
  Lemma crash_removal c o n : wf c -> is_removal o -> crash_rel (op_targets c o) c (crash_state c o n).
  Proof.
    intros Hw Hr. unfold crash_state. apply crash_rel_steps; [|apply crash_rel_refl].
    apply Forall_firstn. destruct o; cbn in Hr; try contradiction; cbn [op_steps op_targets].
    - apply delete_plan_removal; auto.
    - apply sweep_removal; auto.
  Qed.

  Theorem crash_safe c o n : wf c ->
    let c' := crash_state c o n in
    wf c' /\ check_pending_outcome dec c' = Finished
    /\ (abs dec c' = abs dec c \/ c' = apply_op c o \/ (is_removal o /\ crash_rel (op_targets c o) c c')).
  Proof.
    intros Hw c'. pose proof (wf_crash_state c o n Hw) as Hw'. fold c' in Hw'.
    split; auto. split; [apply no_panic_wf; auto|].
    destruct o; try (left; unfold c', crash_state; cbn [op_steps]; rewrite firstn_nil; reflexivity).
    - destruct (crash_push c b n Hw); auto.
    - destruct (crash_update c k pending props expires n) as [H|H]; auto. left. unfold c'. rewrite H. reflexivity.
    - right. right. split; [exact I|]. apply crash_removal; cbn; auto.
    - right. right. split; [exact I|]. apply crash_removal; cbn; auto.
  Qed.

  Lemma Forall2_map_same {A B} (R : B -> B -> Prop) (f g : A -> B) l : (forall x, In x l -> R (f x) (g x)) -> Forall2 R (map f l) (map g l).
  Proof. induction l as [|x l IH]; cbn; intros H; constructor; auto. Qed.

  Definition degraded_part (p' p : apart) : Prop :=
    ap_off p' = ap_off p /\ ap_total p' = ap_total p /\ (ap_data p' = ap_data p \/ ap_data p' = None).
  Definition degraded_rec (r' r : arec) : Prop :=
    a_pending r' = a_pending r /\ a_exp r' = a_exp r /\ a_frag r' = a_frag r /\ a_props r' = a_props r
    /\ Forall2 degraded_part (a_parts r') (a_parts r).

  (* what a reader sees after a crash inside a delete / sweep: records that were not operated on are
     unchanged and read back as before; a record operated on is gone, or still indexed with its
     metadata, where each part reads back as before or not at all *)
  Theorem crash_rel_observable T c c' : wf c -> crash_rel T c c' ->
    (forall k, ~ T k -> ilookup k (abs dec c') = ilookup k (abs dec c))
    /\ (forall k r', ilookup k (abs dec c') = Some r' -> exists r, ilookup k (abs dec c) = Some r /\ degraded_rec r' r).
  Proof.
    intros Hw (R1 & R2 & R3 & R4). split.
    - intros k Hk. rewrite !abs_lookup, (R1 k Hk). destruct (ilookup k (c_idx c)) as [r|] eqn:El; cbn [option_map]; auto.
      f_equal. apply abs_rec_ext. intros p Hp. apply R3.
      destruct (wf_lookup _ _ _ Hw El) as (Hf & _). rewrite Forall_forall in Hf. apply Hf in Hp. apply part_ok_id in Hp. congruence.
    - intros k r' Hl. rewrite abs_lookup in Hl. destruct (ilookup k (c_idx c')) as [r0|] eqn:El'; cbn in Hl; [|discriminate].
      inversion Hl; subst r'. destruct (R2 k) as [E|E]; rewrite El' in E; [|discriminate].
      exists (abs_rec dec (c_files c) r0). rewrite abs_lookup, <- E. split; [reflexivity|].
      unfold degraded_rec, abs_rec. cbn. repeat split; auto.
      apply Forall2_map_same. intros p _. unfold degraded_part, abs_part, load. cbn. repeat split; auto.
      destruct (R4 (p_name p)) as [F|F]; rewrite F; auto.
  Qed.
End Crash.

(* ================================================================================== *)
(* two concurrent pushes under the store mutex                                        *)
(* ================================================================================== *)
Definition push (c : cstate) (b : sbundle) : cstate := apply_op c (OPush b).
Definition plan_in (c : cstate) (b : sbundle) : list st_mstep := push_plan (ilookup (b_id b) (c_idx c)) b.
Lemma push_plan_in c b : push c b = apply_steps c (plan_in c b).
Proof. reflexivity. Qed.

Inductive linv (c0 : cstate) (ba bb : sbundle) : conf -> Prop :=
| L_ii : linv c0 ba bb (mkConf c0 TInit TInit)
| L_ri pre ms : plan_in c0 ba = pre ++ ms -> linv c0 ba bb (mkConf (apply_steps c0 pre) (TRun ms) TInit)
| L_di : linv c0 ba bb (mkConf (push c0 ba) TDone TInit)
| L_ir pre ms : plan_in c0 bb = pre ++ ms -> linv c0 ba bb (mkConf (apply_steps c0 pre) TInit (TRun ms))
| L_id : linv c0 ba bb (mkConf (push c0 bb) TInit TDone)
| L_dr pre ms : plan_in (push c0 ba) bb = pre ++ ms -> linv c0 ba bb (mkConf (apply_steps (push c0 ba) pre) TDone (TRun ms))
| L_rd pre ms : plan_in (push c0 bb) ba = pre ++ ms -> linv c0 ba bb (mkConf (apply_steps (push c0 bb) pre) (TRun ms) TDone)
| L_dd1 : linv c0 ba bb (mkConf (push (push c0 ba) bb) TDone TDone)
| L_dd2 : linv c0 ba bb (mkConf (push (push c0 bb) ba) TDone TDone).

Lemma apply_steps_snoc c pre m : apply_step (apply_steps c pre) m = apply_steps c (pre ++ [m]).
Proof. rewrite apply_steps_app. reflexivity. Qed.
Lemma app_cons_snoc {A} (pre : list A) m ms : pre ++ m :: ms = (pre ++ [m]) ++ ms.
Proof. rewrite <- app_assoc. reflexivity. Qed.

Lemma linv_step c0 ba bb cf who : linv c0 ba bb cf -> linv c0 ba bb (conf_step true ba bb cf who).
Proof.
  intros H. destruct H; destruct who; unfold conf_step; cbn [cf_a cf_b cf_st thread_step is_run andb].
  - apply (L_ri c0 ba bb [] _). reflexivity.
  - apply (L_ir c0 ba bb [] _). reflexivity.
  - destruct ms as [|m ms].
    + rewrite app_nil_r in H. rewrite <- H, <- push_plan_in. constructor.
    + rewrite apply_steps_snoc. apply L_ri. rewrite H. apply app_cons_snoc.
  - apply L_ri; auto.
  - constructor.
  - apply (L_dr c0 ba bb [] _). reflexivity.
  - apply L_ir; auto.
  - destruct ms as [|m ms].
    + rewrite app_nil_r in H. rewrite <- H, <- push_plan_in. constructor.
    + rewrite apply_steps_snoc. apply L_ir. rewrite H. apply app_cons_snoc.
  - apply (L_rd c0 ba bb [] _). reflexivity.
  - constructor.
  - apply L_dr; auto.
  - destruct ms as [|m ms].
    + rewrite app_nil_r in H. rewrite <- H, <- push_plan_in. constructor.
    + rewrite apply_steps_snoc. apply L_dr. rewrite H. apply app_cons_snoc.
  - destruct ms as [|m ms].
    + rewrite app_nil_r in H. rewrite <- H, <- push_plan_in. constructor.
    + rewrite apply_steps_snoc. apply L_rd. rewrite H. apply app_cons_snoc.
  - apply L_rd; auto.
  - constructor.
  - constructor.
  - constructor.
  - constructor.
Qed.
Lemma linv_run c0 ba bb sched : forall cf, linv c0 ba bb cf -> linv c0 ba bb (run_sched true ba bb cf sched).
Proof.
  induction sched as [|w sched IH]; intros cf H; cbn; auto. apply IH. apply linv_step; auto.
Qed.
(* under the mutex every schedule is one of the two sequential orders *)
Lemma locked_serial c0 ba bb sched :
  let cf := run_sched true ba bb (mkConf c0 TInit TInit) sched in
  cf_a cf = TDone -> cf_b cf = TDone ->
  cf_st cf = push (push c0 ba) bb \/ cf_st cf = push (push c0 bb) ba.
Proof.
  intros cf Ha Hb. pose proof (linv_run c0 ba bb sched _ (L_ii c0 ba bb)) as H. fold cf in H.
  destruct H; cbn in *; try discriminate; auto.
Qed.

(* sequential facts about Push on the index *)
Lemma push_idx c b :
  c_idx (push c b) =
  match ilookup (b_id b) (c_idx c) with
  | None => iset (b_id b) (new_item b) (c_idx c)
  | Some r =>
    if b_frag b then
      if negb (r_frag r) then c_idx c
      else if existsb (same_frag b) (r_parts r) then c_idx c
      else iset (b_id b) (mkR (r_pending r) (r_exp r) (r_frag r) (r_props r) (r_parts r ++ [mk_part b])) (c_idx c)
    else c_idx c
  end.
Proof.
  unfold push, apply_op. cbn [op_steps]. unfold push_plan.
  destruct (ilookup (b_id b) (c_idx c)) as [r|] eqn:El.
  - destruct (b_frag b); [|reflexivity]. destruct (negb (r_frag r)); [reflexivity|].
    destruct (existsb (same_frag b) (r_parts r)); [reflexivity|].
    cbn [apply_steps fold_left apply_step c_idx c_files]. rewrite El. reflexivity.
  - cbn [apply_steps fold_left apply_step c_idx c_files]. rewrite El. reflexivity.
Qed.
Lemma push_idx_other c b k : k <> b_id b -> ilookup k (c_idx (push c b)) = ilookup k (c_idx c).
Proof.
  intros Hne. rewrite push_idx. destruct (ilookup (b_id b) (c_idx c)) as [r|]; [|apply il_set_neq; congruence].
  destruct (b_frag b); auto. destruct (negb (r_frag r)); auto. destruct (existsb (same_frag b) (r_parts r)); auto.
  apply il_set_neq; congruence.
Qed.

Definition frag_slot_ok (c : cstate) (b : sbundle) : Prop :=
  match ilookup (b_id b) (c_idx c) with Some r => r_frag r = true | None => True end.

Lemma same_frag_self b : same_frag b (mk_part b) = true.
Proof. unfold same_frag, mk_part. cbn. rewrite !N.eqb_refl. reflexivity. Qed.

Lemma has_part_push_self c b : b_frag b = true -> frag_slot_ok c b -> has_part (push c b) b = true.
Proof.
  intros Hb Hs. unfold has_part, frag_slot_ok in *. rewrite push_idx.
  destruct (ilookup (b_id b) (c_idx c)) as [r|] eqn:El.
  - rewrite Hb, Hs. cbn [negb]. destruct (existsb (same_frag b) (r_parts r)) eqn:Ee.
    + rewrite El. auto.
    + rewrite il_set_eq. cbn [r_parts]. rewrite existsb_app. cbn. rewrite same_frag_self. apply orb_true_r.
  - rewrite il_set_eq. cbn. rewrite same_frag_self. reflexivity.
Qed.
Lemma has_part_push_keep c b1 b2 : has_part c b1 = true -> has_part (push c b2) b1 = true.
Proof.
  unfold has_part. intros H. destruct (N.eq_dec (b_id b1) (b_id b2)) as [E|E].
  - rewrite push_idx. rewrite E in *. destruct (ilookup (b_id b2) (c_idx c)) as [r|] eqn:El; [|discriminate].
    destruct (b_frag b2); [|rewrite El; auto]. destruct (negb (r_frag r)); [rewrite El; auto|].
    destruct (existsb (same_frag b2) (r_parts r)); [rewrite El; auto|].
    rewrite il_set_eq. cbn [r_parts]. rewrite existsb_app, H. reflexivity.
  - rewrite push_idx_other; auto.
Qed.
Lemma slot_ok_push c b1 b2 : b_id b1 = b_id b2 -> b_frag b2 = true -> frag_slot_ok c b1 -> frag_slot_ok (push c b2) b1.
Proof.
  unfold frag_slot_ok. intros E Hb H. rewrite push_idx. rewrite E in *.
  destruct (ilookup (b_id b2) (c_idx c)) as [r|] eqn:El.
  - rewrite Hb, H. cbn [negb]. destruct (existsb (same_frag b2) (r_parts r)); [rewrite El; auto|].
    rewrite il_set_eq. cbn. auto.
  - rewrite il_set_eq. cbn. auto.
Qed.

Theorem concurrent_fragments c0 ba bb sched :
  b_id ba = b_id bb -> b_frag ba = true -> b_frag bb = true -> frag_slot_ok c0 ba ->
  let cf := run_sched true ba bb (mkConf c0 TInit TInit) sched in
  cf_a cf = TDone -> cf_b cf = TDone ->
  has_part (cf_st cf) ba = true /\ has_part (cf_st cf) bb = true
  /\ (cf_st cf = push (push c0 ba) bb \/ cf_st cf = push (push c0 bb) ba)
  /\ (forall k, k <> b_id ba -> ilookup k (c_idx (cf_st cf)) = ilookup k (c_idx c0)).
Proof.
  intros E Ha Hb Hs cf Da Db.
  assert (Hs' : frag_slot_ok c0 bb) by (unfold frag_slot_ok in *; rewrite <- E; auto).
  pose proof (locked_serial c0 ba bb sched Da Db) as H. fold cf in H.
  destruct H as [H|H]; rewrite H; repeat split; auto.
  - apply has_part_push_keep. apply has_part_push_self; auto.
  - apply has_part_push_self; auto. apply slot_ok_push; auto.
  - intros k Hk. rewrite !push_idx_other; auto; congruence.
  - apply has_part_push_self; auto. apply slot_ok_push; auto.
  - apply has_part_push_keep. apply has_part_push_self; auto.
  - intros k Hk. rewrite !push_idx_other; auto; congruence.
Qed.

(* the code before the repair (no mutex): a schedule that loses a fragment *)
Definition toy_frag (off len : N) : sbundle := mkB 1 true off 10 len 5000 [1; off; len].
Example unlocked_loses_fragment :
  let ba := toy_frag 0 5 in let bb := toy_frag 5 5 in
  let cf := run_sched false ba bb (mkConf store_init TInit TInit) [true; false; true; true; true; false; false; false] in
  cf_a cf = TDone /\ cf_b cf = TDone /\ has_part (cf_st cf) ba = true /\ has_part (cf_st cf) bb = false.
Proof. vm_compute. repeat split. Qed.
Example locked_keeps_fragment :
  let ba := toy_frag 0 5 in let bb := toy_frag 5 5 in
  let cf := run_sched true ba bb (mkConf store_init TInit TInit) [true; false; true; true; true; false; false; false; false] in
  cf_a cf = TDone /\ cf_b cf = TDone /\ has_part (cf_st cf) ba = true /\ has_part (cf_st cf) bb = true.
Proof. vm_compute. repeat split. Qed.

(* ================================================================================== *)
(* IsComplete on a record                                                             *)
(* ================================================================================== *)
Theorem arec_complete_iff r bs t :
  a_frag r = true -> all_data (a_parts r) = Some bs -> bs <> [] -> Forall (frag_of t) bs ->
  (arec_complete r = true <-> forall x, x < t -> covered bs x).
Proof.
  intros Hf Hd Hne Hfo. unfold arec_complete. rewrite Hf, Hd. cbn [negb]. apply reassemblable_iff_cover; auto.
Qed.
Lemma arec_complete_unreadable r : a_frag r = true -> all_data (a_parts r) = None -> arec_complete r = false.
Proof. intros Hf Hd. unfold arec_complete. rewrite Hf, Hd. reflexivity. Qed.
Lemma arec_complete_whole r : a_frag r = false -> arec_complete r = true.
Proof. intros Hf. unfold arec_complete. rewrite Hf. reflexivity. Qed.

(* the scan before the repair: [0,8) [2,4) [8,10) covers [0,10) but is reported incomplete *)
Example complete_orig_refuted :
  let bs := [toy_frag 0 8; toy_frag 2 2; toy_frag 8 2] in
  reassemblable_orig bs = false /\ reassemblable bs = true /\ Forall (frag_of 10) bs.
Proof. split; [|split]; [vm_compute; reflexivity | vm_compute; reflexivity | repeat constructor; vm_compute; congruence]. Qed.

(* ================================================================================== *)
(* non-vacuity of the decoder hypothesis: a toy prefix code                            *)
(* ================================================================================== *)
Definition toy_enc (b : sbundle) : list N :=
  [b_id b; b2n (b_frag b); b_off b; b_total b; b_plen b; Z.to_N (b_exp b)].
Definition toy_valid (b : sbundle) : Prop := b_bytes b = toy_enc b /\ (0 <= b_exp b)%Z.
Definition toy_dec (bs : list N) : option sbundle :=
  match bs with
  | i :: f :: o :: t :: p :: e :: _ => Some (mkB i (negb (f =? 0)) o t p (Z.of_N e) [i; f; o; t; p; e])
  | _ => None
  end.
Lemma toy_dec_ok : forall b tail, toy_valid b -> toy_dec (b_bytes b ++ tail) = view (fun _ => true) b.
Proof.
  intros [i f o t p e bs] tail [Hb He]. unfold toy_enc in *. cbn in *. subst bs. unfold view. cbn.
  rewrite Z2N.id by auto. destruct f; reflexivity.
Qed.

(* stale tail: an orphan file left by a crash holds a longer serialisation under the same name; the
   re-pushed sbundle is written over it without truncation and still reads back exactly *)
Example stale_tail_example :
  let b := mkB 1 false 0 0 3 7000 [1; 0; 0; 0; 3; 7000] in
  let c0 := mkC [] [(bundle_name b, [1; 0; 0; 0; 9; 7000; 42; 42; 42])] in
  let c1 := apply_op c0 (OPush b) in
  flookup (bundle_name b) (c_files c1) = Some [1; 0; 0; 0; 3; 7000; 42; 42; 42]
  /\ abs toy_dec c1 = [(1, mkA false 7000 false 0 [mkAP 0 0 (Some b)])].
Proof. vm_compute. split; reflexivity. Qed.

(* a crash inside Delete: the part file is gone, the index entry is still there; restart entry points *)
Example crash_delete_example :
  let b := mkB 1 false 0 0 3 7000 [1; 0; 0; 0; 3; 7000] in
  let c0 := apply_op (apply_op store_init (OPush b)) (OUpdate 1 true 5 7000) in
  let c1 := crash_state c0 (ODelete 1) 1 in
  abs toy_dec c1 = [(1, mkA true 7000 false 5 [mkAP 0 0 None])]
  /\ descriptor_bundle toy_dec c1 1 = BErr
  /\ check_pending_outcome toy_dec c1 = Finished
  /\ must_bundle_outcome toy_dec c1 1 = Panicked
  /\ abs toy_dec (apply_op c1 (OSweep 8000)) = [].
Proof. vm_compute. repeat split; reflexivity. Qed.

(* ================================================================================== *)
(* after a crash the store keeps working as the reference map                          *)
(* ================================================================================== *)
Section Recovery.
  Variable dec : list N -> option sbundle.
  Variable live : sbundle -> bool.
  Variable valid : sbundle -> Prop.
  Hypothesis dec_ok : forall b tail, valid b -> dec (b_bytes b ++ tail) = view live b.

  Theorem op_commutes c o : wf c -> valid_op valid o ->
    abs dec (apply_op c o) = spec_apply live (abs dec c) o
    /\ op_result dec c o = spec_result (abs dec c) o
    /\ wf (apply_op c o).
  Proof.
    intros Hw Hv. split; [apply (abs_apply_op dec live valid dec_ok); auto|]. split; [reflexivity | apply wf_apply_op; auto].
  Qed.

  Theorem crash_recovery c o n : wf c ->
    let c' := crash_state c o n in
    (forall o', valid_op valid o' ->
       abs dec (apply_op c' o') = spec_apply live (abs dec c') o'
       /\ wf (apply_op c' o')
       /\ check_pending_outcome dec (apply_op c' o') = Finished)
    /\ (forall k, ilookup k (abs dec (apply_op c' (ODelete k))) = None)
    /\ (forall now k, ilookup k (abs dec (apply_op c' (OSweep now))) =
           match ilookup k (abs dec c') with Some r => if (a_exp r <? now)%Z then None else Some r | None => None end).
  Proof.
    intros Hw c'. pose proof (wf_crash_state c o n Hw) as Hw'. fold c' in Hw'. split; [|split].
    - intros o' Hv. split; [apply (abs_apply_op dec live valid dec_ok); auto|].
      split; [apply wf_apply_op; auto | apply no_panic_wf; apply wf_apply_op; auto].
    - intros k. rewrite (abs_apply_op dec live valid dec_ok c' (ODelete k) Hw' I). apply spec_delete_gone.
    - intros now k. rewrite (abs_apply_op dec live valid dec_ok c' (OSweep now) Hw' I). apply spec_sweep_lookup.
      rewrite abs_keys. apply Hw'.
  Qed.
End Recovery.
