(* TcpclConcPair.v - a PAIR of sessions joined by a bounded duplex transport (Model/TcpclConc.v):
   invariants, the shape of a stall, and how many unacknowledged segments a stall needs.

   Part 1  the pair as two views that share the two transport directions; symmetry.
   Part 2  invariant H ("half"): for each Send of one side, its segments under way to the other
           side's TransferManager.handle, the acknowledgements under way back, and inTransfers of
           the other side fit together (runs without Send timeouts and keepalive ticks).
   Part 3  what a state of the pair looks like in which no live process can step.
   Part 4  counting, theorems, witnesses. *)
From Coq Require Import Lia.
From DTN Require Import Base TcpclConc TcpclConcProofs.
Open Scope nat_scope.

(* ------------------------------------------------------------------------------------------ *)
(* Part 1                                                                                      *)
(* ------------------------------------------------------------------------------------------ *)
Definition tcn_pview (y : tcn_pair) : tcn_view * tcn_view :=
  (tcn_view_of (pa_a y) (pa_ba y) (pa_ab y), tcn_view_of (pa_b y) (pa_ab y) (pa_ba y)).

Definition tcn_relink (v : tcn_view) (li lo : list tcn_msg) : tcn_view :=
  mkV (v_xs v) (v_in v) (v_ops v) li lo (v_h v) (v_rx v) (v_snd v) (v_cl v) (v_rep v) (v_up v).

Definition tcn_pswap (y : tcn_pair) : tcn_pair := mkTcnPair (pa_b y) (pa_a y) (pa_ba y) (pa_ab y).

Lemma tcn_pview_swap y : tcn_pview (tcn_pswap y) = (snd (tcn_pview y), fst (tcn_pview y)).
Proof. reflexivity. Qed.

Lemma tcn_pstep_swap cf y q :
  tcn_pstep cf y (SideB, q) = option_map tcn_pswap (tcn_pstep cf (tcn_pswap y) (SideA, q)).
Proof.
  unfold tcn_pstep, tcn_pswap; cbn.
  destruct (tcn_sstep cf (pa_b y) (pa_ab y) (pa_ba y) q) as [[[s li] lo]|]; reflexivity.
Qed.

(* the two views of a pair share the transport *)
Definition tcn_linked (x : tcn_view * tcn_view) : Prop :=
  v_li (snd x) = v_lo (fst x) /\ v_lo (snd x) = v_li (fst x).

Lemma tcn_pview_linked y : tcn_linked (tcn_pview y).
Proof. split; reflexivity. Qed.

(* a step of side A, on views *)
Lemma tcn_pstep_a_veff cf y q y' :
  tcn_pstep cf y (SideA, q) = Some y' ->
  tcn_veff q (fst (tcn_pview y)) (fst (tcn_pview y'))
  /\ snd (tcn_pview y') = tcn_relink (snd (tcn_pview y)) (v_lo (fst (tcn_pview y'))) (v_li (fst (tcn_pview y'))).
Proof.
  unfold tcn_pstep; cbn.
  destruct (tcn_sstep cf (pa_a y) (pa_ba y) (pa_ab y) q) as [[[s li] lo]|] eqn:E; intros H; inversion H; subst.
  split; [eapply tcn_sstep_veff; exact E|reflexivity].
Qed.

(* ------------------------------------------------------------------------------------------ *)
(* Part 2                                                                                      *)
(* ------------------------------------------------------------------------------------------ *)
(* ---- inTransfers ---- *)
Lemma tcn_rx_get_del_eq rx t : tcn_rx_get (tcn_rx_del rx t) t = 0.
Proof.
  induction rx as [|[k v] rx IH]; cbn; auto.
  destruct (Nat.eqb_spec k t); auto. cbn. destruct (Nat.eqb_spec k t); [congruence|auto].
Qed.
Lemma tcn_rx_get_del_ne rx t t0 : t0 <> t -> tcn_rx_get (tcn_rx_del rx t) t0 = tcn_rx_get rx t0.
Proof.
  intros Hn. induction rx as [|[k v] rx IH]; cbn; auto.
  destruct (Nat.eqb_spec k t).
  - subst. destruct (Nat.eqb_spec t t0); [congruence|auto].
  - cbn. destruct (Nat.eqb_spec k t0); auto.
Qed.
Lemma tcn_rx_get_next_eq rx t last :
  tcn_rx_get (tcn_rx_next rx t last) t = if last then 0 else S (tcn_rx_get rx t).
Proof.
  unfold tcn_rx_next, tcn_rx_set. destruct last; [apply tcn_rx_get_del_eq|].
  cbn. now rewrite Nat.eqb_refl.
Qed.
Lemma tcn_rx_get_next_ne rx t last t0 : t0 <> t -> tcn_rx_get (tcn_rx_next rx t last) t0 = tcn_rx_get rx t0.
Proof.
  intros Hn. unfold tcn_rx_next, tcn_rx_set. destruct last; [apply tcn_rx_get_del_ne; assumption|].
  cbn. destruct (Nat.eqb_spec t t0); [congruence|]. apply tcn_rx_get_del_ne; assumption.
Qed.

(* the j-th segment (counted from 0) of transfer t of n segments *)
Definition tcn_sg (t n j : nat) : tcn_msg := CSeg t (S j =? n).

(* ---- only segments and acknowledgements are under way, nobody has given up ---- *)
Definition tcn_clean (m : tcn_msg) : Prop :=
  match m with CSeg _ _ => True | CAck _ _ => True | _ => False end.

Definition tcn_vclean (v : tcn_view) : Prop :=
  Forall tcn_clean (v_xs v ++ v_in v ++ v_li v ++ v_ops v ++ v_lo v ++ tcn_hfw (v_h v))
  /\ (forall i d, nth_error (v_snd v) i = Some d -> Forall tcn_clean (sd_ack d) /\ sd_stop d = false)
  /\ v_h v <> HDead.

(* an acknowledgement at the head of ExchangeMsgIn finds its Send waiting *)
Definition tcn_alive (v : tcn_view) : Prop :=
  forall t k r, v_h v = HIdle -> v_xs v = CAck t k :: r ->
                exists d, nth_error (v_snd v) t = Some d /\ sd_res d = None.

Lemma tcn_veff_vclean q v v' :
  tcn_veff q v v' -> tcn_live q = true -> tcn_lview v -> tcn_alive v -> tcn_vclean v -> tcn_vclean v'.
Proof.
  intros E Lq (Hs & Hh & _) Al (C1 & C2 & C3).
  destruct E; unfold tcn_vclean in *; tcn_vs; cbn [tcn_hfw tcn_hak app] in *.
  - auto.
  - split; [|auto]. tcn_fa. intuition.
  - split; [|auto]. tcn_fa. intuition.
  - exfalso. tcn_fa. cbn [tcn_clean] in C1. tauto.
  - split; [|auto]. tcn_fa. intuition.
  - discriminate.
  - split; [|split; [auto|discriminate]]. tcn_fa. intuition.
  - assert (exists k, m = CAck t k) as [k ->].
    { destruct H as [Hk| ->]; [assumption|]. exfalso. tcn_fa. cbn [tcn_clean] in C1. tauto. }
    destruct (Al t k xs eq_refl eq_refl) as (d & Nd & Rd). cbn in Nd.
    unfold tcn_h_route. rewrite Nd, Rd. cbn [tcn_hfw app].
    split; [|split; [auto|discriminate]]. tcn_fa. intuition.
  - exfalso. tcn_fa. cbn [tcn_clean] in C1. tauto.
  - split; [|split; [auto|destruct fin; discriminate]].
    cbn in Hh. destruct Hh as (t & k & -> & _).
    destruct fin; cbn [tcn_hfw app]; tcn_fa; cbn; intuition.
  - split; [|split; [auto|discriminate]]. auto.
  - split; [|split; [|discriminate]].
    + tcn_fa. intuition.
    + intros i d0 N. rewrite (tcn_nth_upd _ _ _ _ _ H) in N.
      destruct (Nat.eqb_spec i t) as [->|]; [|eauto]. inversion N; subst.
      destruct (C2 _ _ H) as [Hq Hst]. cbn. split; [|assumption]. tcn_fa. intuition.
  - split; [auto|split; [|auto]].
    intros j d0 N. rewrite (tcn_nth_upd _ _ _ _ _ H) in N.
    destruct (Nat.eqb_spec j i) as [->|]; [|eauto]. inversion N; subst.
    destruct (C2 _ _ H) as [Hq Hst].
    destruct H0; cbn; auto.
    + unfold tcn_main_len in H0. destruct (sd_res d); [discriminate|].
      destruct (sd_len d); inversion H0; subst; cbn; auto.
    + unfold tcn_main_ack in H0. destruct (sd_res d); [discriminate|].
      destruct (sd_ack d) as [|m r] eqn:Aq; [discriminate|].
      apply Forall_cons_iff in Hq as [Hm Hq].
      destruct (Hs _ _ H) as (_ & _ & _ & _ & _ & _ & _ & _ & _ & _ & Ha). rewrite Aq in Ha.
      apply Forall_cons_iff in Ha as [[Hm' _] _].
      destruct m; cbn in Hm, Hm'; try (exfalso; exact Hm); try discriminate; inversion H0; subst; cbn; auto.
    + discriminate.
  - split; [|split; [|auto]].
    + rewrite (tcn_emput_seg _ _ _ _ Hs H H0). tcn_fa. cbn. intuition.
    + intros j d0 N. rewrite (tcn_nth_upd _ _ _ _ _ H) in N.
      destruct (Nat.eqb_spec j i) as [->|]; [|eauto]. inversion N; subst. exact (C2 _ _ H).
  - auto.
  - auto.
Qed.

(* ---- invariant H: segments under way, acknowledgements under way, inTransfers of the receiver ---- *)
Definition tcn_half (vx vy : tcn_view) : Prop :=
  forall t, exists p,
    tcn_inlenof (v_snd vx) t <= p /\ p <= tcn_nextof (v_snd vx) t
    /\ filter (tcn_is_seg_of t) (v_xs vy ++ v_in vy ++ v_li vy ++ v_ops vx) ++ tcn_emh (v_snd vx) t
       = map (tcn_sg t (tcn_nof (v_snd vx) t)) (seq p (tcn_nextof (v_snd vx) t - p))
    /\ map tcn_ackk (filter (tcn_is_ack_of t)
          (tcn_ackq (v_snd vx) t ++ tcn_hfw (v_h vx) ++ v_xs vx ++ v_in vx ++ v_li vx ++ v_ops vy
           ++ tcn_hak (v_h vy)))
       = seq (S (tcn_inlenof (v_snd vx) t)) (p - tcn_inlenof (v_snd vx) t)
    /\ tcn_rx_get (v_rx vy) t = (if p =? tcn_nof (v_snd vx) t then 0 else p).

Ltac tcn_half_same Hf :=
  let t0 := fresh "t0" in let p := fresh "p" in
  intros t0; destruct (Hf t0) as (p & ? & ? & ? & ? & ?); exists p;
  unfold tcn_relink in *; tcn_vs; cbn [tcn_hfw tcn_hak] in *;
  split; [assumption|split; [assumption|split; [|split; [|assumption]]]]; tcn_lna.

(* steps of the sending side, seen by its own Sends *)
Lemma tcn_half_own q va va' vb :
  tcn_veff q va va' -> tcn_live q = true ->
  v_li vb = v_lo va -> v_lo vb = v_li va ->
  tcn_lview va -> tcn_vclean va -> tcn_alive va ->
  tcn_half va vb -> tcn_half va' (tcn_relink vb (v_lo va') (v_li va')).
Proof.
  intros E Lq L1 L2 (Hs & Hh & _) (C1 & C2 & C3) Al Hf.
  destruct E; unfold tcn_half in *; tcn_vs; rewrite ?L1, ?L2 in *.
  - intros t0; destruct (Hf t0) as (pp & ? & ? & ? & ? & ?); exists pp. unfold tcn_relink; tcn_vs.
    rewrite ?L1, ?L2. auto.
  - tcn_half_same Hf.
  - tcn_half_same Hf.
  - tcn_half_same Hf.
  - tcn_half_same Hf.
  - discriminate.
  - tcn_half_same Hf.
  - (* an acknowledgement is routed to its Send *)
    assert (exists k, m = CAck t k) as [k ->].
    { destruct H as [Hk| ->]; [assumption|]. exfalso. tcn_fa. cbn [tcn_clean] in C1. tauto. }
    destruct (Al t k xs eq_refl eq_refl) as (d & Nd & Rd). cbn in Nd.
    unfold tcn_h_route. rewrite Nd, Rd.
    tcn_half_same Hf.
  - exfalso. tcn_fa. cbn [tcn_clean] in C1. tauto.
  - cbn in Hh. destruct Hh as (t & k & -> & _).
    destruct fin; tcn_half_same Hf.
  - tcn_half_same Hf.
  - (* forwarded into the ackChan *)
    cbn in Hh. destruct Hh as [Hm Hp].
    intros t0; destruct (Hf t0) as (pp & P1 & P2 & P3 & P4 & P5); exists pp.
    unfold tcn_relink, tcn_ackq, tcn_inlenof, tcn_nextof, tcn_nof, tcn_emh in *; tcn_vs.
    rewrite !(tcn_sdget_upd _ _ _ _ _ _ _ H).
    cbn [tcn_hfw tcn_hak sd_ack sd_inlen sd_next sd_n sd_em sd_set_ack] in *.
    destruct (Nat.eqb_spec t0 t) as [->|Hne].
    + unfold tcn_sdget in *. rewrite H in *.
      split; [assumption|split; [assumption|split; [assumption|split; [|assumption]]]]. tcn_lna.
    + split; [assumption|split; [assumption|split; [assumption|split; [|assumption]]]].
      pose proof (tcn_ackof_other t0 m t Hm Hne) as Hf0. tcn_ln. rewrite Hf0 in P4. tcn_ln. auto.
  - (* inside one Send *)
    assert (sd_stop d = false) as Hstop by (apply (C2 _ _ H)).
    destruct H0.
    + congruence.
    + (* NextSegment *)
      intros t0; destruct (Hf t0) as (pp & P1 & P2 & P3 & P4 & P5); exists pp.
      unfold tcn_relink, tcn_ackq, tcn_inlenof, tcn_nextof, tcn_nof, tcn_emh in *; tcn_vs.
      rewrite !(tcn_sdget_upd _ _ _ _ _ _ _ H).
      cbn [sd_ack sd_inlen sd_next sd_n sd_em sd_set_em] in *.
      destruct (Nat.eqb_spec t0 i) as [->|Hne]; [|auto 10].
      unfold tcn_sdget in *. rewrite H in *. rewrite H0 in P3. rewrite app_nil_r in P3.
      split; [assumption|split; [lia|split; [|split; [assumption|assumption]]]].
      replace (S (sd_next d) - pp) with (S (sd_next d - pp)) by lia.
      rewrite seq_S, map_app, <- P3. cbn [map]. unfold tcn_sg.
      replace (pp + (sd_next d - pp)) with (sd_next d) by lia. reflexivity.
    + (* EOF *)
      intros t0; destruct (Hf t0) as (pp & P1 & P2 & P3 & P4 & P5); exists pp.
      unfold tcn_relink, tcn_ackq, tcn_inlenof, tcn_nextof, tcn_nof, tcn_emh in *; tcn_vs.
      rewrite !(tcn_sdget_upd _ _ _ _ _ _ _ H).
      cbn [sd_ack sd_inlen sd_next sd_n sd_em sd_set_em] in *.
      destruct (Nat.eqb_spec t0 i) as [->|Hne]; [|auto 10].
      unfold tcn_sdget in *. rewrite H in *. rewrite H0 in P3. auto 10.
    + (* main loop: length *)
      destruct (tcn_main_same_q d d') as [E1 E2]; auto.
      destruct (tcn_main_same_em d d') as (E3 & E4 & E5); auto.
      intros t0; destruct (Hf t0) as (pp & P1 & P2 & P3 & P4 & P5); exists pp.
      unfold tcn_relink, tcn_ackq, tcn_inlenof, tcn_nextof, tcn_nof, tcn_emh in *; tcn_vs.
      rewrite !(tcn_sdget_upd _ _ _ _ _ _ _ H).
      destruct (Nat.eqb_spec t0 i) as [->|Hne]; [|auto 10].
      unfold tcn_sdget in *. rewrite H in *. rewrite E1, E2, E3, E4, E5. auto 10.
    + (* main loop: acknowledgement *)
      destruct (tcn_main_same_em d d') as (E3 & E4 & E5); auto.
      unfold tcn_main_ack in H0. destruct (sd_res d) eqn:Rd; [discriminate|].
      destruct (sd_ack d) as [|m r] eqn:Aq; [discriminate|].
      destruct (Hs _ _ H) as (_ & _ & _ & _ & _ & _ & _ & _ & _ & _ & Ha). rewrite Aq in Ha.
      apply Forall_cons_iff in Ha as [[Hm Hp] Hr].
      destruct (C2 _ _ H) as [Hq _]. rewrite Aq in Hq. apply Forall_cons_iff in Hq as [Hcl Hq].
      destruct m; cbn in Hcl, Hm; try (exfalso; exact Hcl); try discriminate.
      inversion Hm; subst t. inversion H0; subst d'. clear H0.
      intros t0; destruct (Hf t0) as (pp & P1 & P2 & P3 & P4 & P5).
      unfold tcn_relink, tcn_ackq, tcn_inlenof, tcn_nextof, tcn_nof, tcn_emh in *; tcn_vs.
      rewrite !(tcn_sdget_upd _ _ _ _ _ _ _ H).
      cbn [sd_ack sd_inlen sd_next sd_n sd_em sd_set_main] in *.
      destruct (Nat.eqb_spec t0 i) as [->|Hne]; [|exists pp; auto 10].
      unfold tcn_sdget in *. rewrite H in *. rewrite Aq in P4.
      tcn_ln. rewrite Nat.eqb_refl in P4. cbn [map tcn_ackk app] in P4.
      destruct (pp - sd_inlen d) as [|c] eqn:Hc; [discriminate|].
      cbn [seq] in P4. inversion P4; subst k.
      exists pp. split; [lia|split; [assumption|split; [assumption|split; [|assumption]]]].
      replace (pp - S (sd_inlen d)) with c by lia. tcn_ln. assumption.
    + discriminate.
  - (* the emitter puts its segment *)
    pose proof (tcn_emput_seg _ _ _ _ Hs H H0) as Hm.
    intros t0; destruct (Hf t0) as (pp & P1 & P2 & P3 & P4 & P5); exists pp.
    unfold tcn_relink, tcn_ackq, tcn_inlenof, tcn_nextof, tcn_nof, tcn_emh in *; tcn_vs.
    rewrite !(tcn_sdget_upd _ _ _ _ _ _ _ H).
    cbn [sd_ack sd_inlen sd_next sd_n sd_em sd_set_em] in *.
    destruct (Nat.eqb_spec t0 i) as [->|Hne].
    + unfold tcn_sdget in *. rewrite H in *. rewrite H0 in P3.
      split; [assumption|split; [assumption|split; [|split; [assumption|assumption]]]].
      rewrite <- P3. subst m. tcn_ln. rewrite Nat.eqb_refl. rewrite app_nil_r. reflexivity.
    + split; [assumption|split; [assumption|split; [|split; [assumption|assumption]]]].
      rewrite <- P3. subst m. tcn_ln. destruct (Nat.eqb_spec i t0); [congruence|]. reflexivity.
  - tcn_half_same Hf.
  - tcn_half_same Hf.
Qed.

Lemma tcn_next_le_n sn t :
  (forall i d, nth_error sn i = Some d -> tcn_sd_ok i d) -> tcn_nextof sn t <= tcn_nof sn t.
Proof.
  intros Hs. unfold tcn_nextof, tcn_nof, tcn_sdget. destruct (nth_error sn t) as [d|] eqn:N; [|lia].
  destruct (Hs _ _ N) as (_ & H & _). exact H.
Qed.

Lemma tcn_hak_route sn t m : tcn_hak (tcn_h_route sn t m) = [].
Proof. unfold tcn_h_route. destruct (nth_error sn t) as [d|]; [destruct (sd_res d)|]; reflexivity. Qed.

Ltac tcn_half_same' Hf :=
  let t0 := fresh "t0" in let pp := fresh "pp" in
  intros t0; destruct (Hf t0) as (pp & ? & ? & ? & ? & ?); exists pp;
  unfold tcn_relink in *; tcn_vs; cbn [tcn_hfw tcn_hak] in *;
  split; [assumption|split; [assumption|split; [|split]]]; tcn_lna.

(* steps of the receiving side, seen by the Sends of the other side *)
Lemma tcn_half_peer q va va' vb :
  tcn_veff q va va' -> tcn_live q = true ->
  v_li vb = v_lo va -> v_lo vb = v_li va ->
  tcn_lview va -> tcn_lview vb -> tcn_vclean va ->
  tcn_half vb va -> tcn_half (tcn_relink vb (v_lo va') (v_li va')) va'.
Proof.
  intros E Lq L1 L2 (Hs & Hh & _) (Hsb & _) (C1 & C2 & C3) Hf.
  destruct E; unfold tcn_half in *; tcn_vs; rewrite ?L1, ?L2 in *.
  - intros t0; destruct (Hf t0) as (pp & ? & ? & ? & ? & ?); exists pp. unfold tcn_relink; tcn_vs.
    rewrite ?L1, ?L2. auto.
  - tcn_half_same' Hf.
  - tcn_half_same' Hf.
  - tcn_half_same' Hf.
  - tcn_half_same' Hf.
  - discriminate.
  - (* handle takes a segment of the other side's Send t *)
    intros t0; destruct (Hf t0) as (pp & P1 & P2 & P3 & P4 & P5).
    unfold tcn_relink in *; tcn_vs; cbn [tcn_hfw tcn_hak] in *.
    destruct (Nat.eqb_spec t0 t) as [->|Hne].
    + tcn_ln. rewrite Nat.eqb_refl in P3. cbn [app] in P3.
      pose proof (tcn_next_le_n (v_snd vb) t Hsb) as Hnn.
      destruct (tcn_nextof (v_snd vb) t - pp) as [|c] eqn:Hc; [discriminate|].
      cbn [seq map] in P3. inversion P3 as [[Hlast P3']]. clear P3.
      assert (pp =? tcn_nof (v_snd vb) t = false) as Hpn by (apply Nat.eqb_neq; lia).
      rewrite Hpn in P5.
      exists (S pp). split; [lia|split; [lia|split; [|split]]].
      * replace (tcn_nextof (v_snd vb) t - S pp) with c by lia. exact P3'.
      * rewrite Nat.eqb_refl. cbn [map tcn_ackk app]. rewrite app_nil_r in P4.
        rewrite !app_assoc. rewrite !app_assoc in P4. rewrite P4. rewrite P5.
        replace (S pp - tcn_inlenof (v_snd vb) t) with (S (pp - tcn_inlenof (v_snd vb) t)) by lia.
        rewrite seq_S. f_equal. f_equal. lia.
      * rewrite tcn_rx_get_next_eq. rewrite P5. reflexivity.
    + exists pp. split; [assumption|split; [assumption|split; [|split]]].
      * tcn_ln. destruct (Nat.eqb_spec t t0); [congruence|]. exact P3.
      * tcn_ln. destruct (Nat.eqb_spec t t0); [congruence|]. rewrite app_nil_r in *. exact P4.
      * rewrite tcn_rx_get_next_ne by assumption. exact P5.
  - (* handle takes an acknowledgement *)
    assert (tcn_is_seg_of_all : forall t0, tcn_is_seg_of t0 m = false)
      by (intros t0; destruct H as [[k ->]| ->]; reflexivity).
    intros t0; destruct (Hf t0) as (pp & P1 & P2 & P3 & P4 & P5); exists pp.
    unfold tcn_relink in *; tcn_vs; cbn [tcn_hfw tcn_hak] in *. rewrite tcn_hak_route.
    split; [assumption|split; [assumption|split; [|split; [|assumption]]]].
    + tcn_ln. rewrite tcn_is_seg_of_all in P3. exact P3.
    + exact P4.
  - exfalso. tcn_fa. cbn [tcn_clean] in C1. tauto.
  - cbn in Hh. destruct Hh as (t & k & -> & _).
    destruct fin; tcn_half_same' Hf.
  - tcn_half_same' Hf.
  - tcn_half_same' Hf.
  - tcn_half_same' Hf.
  - rewrite (tcn_emput_seg _ _ _ _ Hs H H0). tcn_half_same' Hf.
  - tcn_half_same' Hf.
  - tcn_half_same' Hf.
Qed.

(* ---- an acknowledgement under way finds its Send waiting ---- *)
Lemma tcn_half_ack_alive va vb t k :
  tcn_lview va -> tcn_vclean va -> tcn_half va vb ->
  In (CAck t k) (tcn_ackq (v_snd va) t ++ tcn_hfw (v_h va) ++ v_xs va ++ v_in va ++ v_li va ++ v_ops vb
                 ++ tcn_hak (v_h vb)) ->
  exists d, nth_error (v_snd va) t = Some d /\ sd_res d = None.
Proof.
  intros (Hs & _) (_ & C2 & _) Hf Hin.
  destruct (Hf t) as (pp & P1 & P2 & _ & P4 & _).
  assert (tcn_inlenof (v_snd va) t < pp) as Hlt.
  { destruct (Nat.le_gt_cases pp (tcn_inlenof (v_snd va) t)) as [Hc|]; [|assumption].
    replace (pp - tcn_inlenof (v_snd va) t) with 0 in P4 by lia. cbn in P4. apply map_eq_nil in P4.
    assert (In (CAck t k) (filter (tcn_is_ack_of t)
      (tcn_ackq (v_snd va) t ++ tcn_hfw (v_h va) ++ v_xs va ++ v_in va ++ v_li va ++ v_ops vb ++ tcn_hak (v_h vb)))) as Hi.
    { apply filter_In. split; [assumption|]. cbn. apply Nat.eqb_refl. }
    rewrite P4 in Hi. destruct Hi. }
  pose proof (tcn_next_le_n (v_snd va) t Hs) as Hnn.
  unfold tcn_inlenof, tcn_nextof, tcn_nof, tcn_sdget in *.
  destruct (nth_error (v_snd va) t) as [d|] eqn:N; [|lia].
  exists d; split; [reflexivity|].
  destruct (Hs _ _ N) as (_ & _ & _ & _ & _ & _ & Hok & _ & _ & Hres & _).
  destruct (sd_res d) as [r|] eqn:Rr; [|reflexivity].
  destruct (Hres r eq_refl) as [->|Hst].
  - destruct (Hok eq_refl) as [Hi _]. lia.
  - destruct (C2 _ _ N) as [_ Hf0]. congruence.
Qed.

Lemma tcn_half_alive va vb : tcn_lview va -> tcn_vclean va -> tcn_half va vb -> tcn_alive va.
Proof.
  intros L C Hf t k r Hh Hx. eapply tcn_half_ack_alive; eauto.
  rewrite Hx. apply in_or_app; right. apply in_or_app; right. left; reflexivity.
Qed.

(* ---- the invariant of the pair ---- *)
Definition tcn_pinv (x : tcn_view * tcn_view) : Prop :=
  tcn_linked x /\ tcn_lview (fst x) /\ tcn_lview (snd x) /\ tcn_vclean (fst x) /\ tcn_vclean (snd x)
  /\ tcn_half (fst x) (snd x) /\ tcn_half (snd x) (fst x).

Lemma tcn_pinv_swap x : tcn_pinv x -> tcn_pinv (snd x, fst x).
Proof.
  intros ((L1 & L2) & La & Lb & Ca & Cb & Hab & Hba). unfold tcn_pinv, tcn_linked; cbn [fst snd].
  split; [split; auto|]. tauto.
Qed.

Lemma tcn_pinv_step_a q va va' vb :
  tcn_veff q va va' -> tcn_live q = true ->
  tcn_pinv (va, vb) -> tcn_pinv (va', tcn_relink vb (v_lo va') (v_li va')).
Proof.
  intros E Lq ((L1 & L2) & La & Lb & Ca & Cb & Hab & Hba). cbn [fst snd] in *.
  assert (tcn_alive va) as Al by (eapply tcn_half_alive; eauto).
  pose proof (tcn_veff_lview _ _ _ E La) as La'.
  pose proof (tcn_veff_vclean _ _ _ E Lq La Al Ca) as Ca'.
  unfold tcn_pinv; cbn [fst snd].
  split; [split; reflexivity|]. split; [exact La'|].
  split.
  { destruct Lb as (Hs & Hh & Hib & Hob). destruct La' as (_ & _ & Hi' & Ho').
    unfold tcn_lview, tcn_relink; cbn. tcn_fa. intuition. }
  split; [exact Ca'|].
  split.
  { destruct Cb as (Cb1 & Cb2 & Cb3). destruct Ca' as (Ca1 & _).
    unfold tcn_vclean, tcn_relink; cbn. tcn_fa. intuition. }
  split.
  - eapply tcn_half_own; eauto.
  - eapply tcn_half_peer; eauto.
Qed.

Definition tcn_plive_run (ps : list (tcn_side * tcn_proc)) : Prop :=
  Forall (fun p => tcn_live (snd p) = true) ps.

Lemma tcn_pstep_pinv cf y p y' :
  tcn_pstep cf y p = Some y' -> tcn_live (snd p) = true -> tcn_pinv (tcn_pview y) -> tcn_pinv (tcn_pview y').
Proof.
  destruct p as [[|] q]; cbn [snd]; intros E Lq I.
  - apply tcn_pstep_a_veff in E as [E1 E2].
    destruct (tcn_pview y) as [va vb] eqn:V. destruct (tcn_pview y') as [va' vb'] eqn:V'. cbn [fst snd] in *.
    subst vb'. eapply tcn_pinv_step_a; eauto.
  - rewrite tcn_pstep_swap in E.
    destruct (tcn_pstep cf (tcn_pswap y) (SideA, q)) as [z|] eqn:E'; inversion E; subst y'. clear E.
    apply tcn_pstep_a_veff in E' as [E1 E2].
    apply tcn_pinv_swap in I. rewrite <- tcn_pview_swap in I.
    destruct (tcn_pview (tcn_pswap y)) as [va vb] eqn:V. destruct (tcn_pview z) as [va' vb'] eqn:V'. cbn [fst snd] in *.
    subst vb'.
    pose proof (tcn_pinv_step_a _ _ _ _ E1 Lq I) as I'. rewrite <- V' in I'.
    apply tcn_pinv_swap in I'. rewrite <- tcn_pview_swap in I'.
    destruct z; exact I'.
Qed.

Lemma tcn_prun_pinv cf ps : forall y y',
  tcn_prun cf y ps = Some y' -> tcn_plive_run ps -> tcn_pinv (tcn_pview y) -> tcn_pinv (tcn_pview y').
Proof.
  induction ps as [|p ps IH]; intros y y' R Lv I; cbn in R.
  - inversion R; subst; exact I.
  - destruct (tcn_pstep cf y p) as [y1|] eqn:E; [|discriminate].
    apply Forall_cons_iff in Lv as [Lp Lv].
    eapply IH; [exact R|exact Lv|]. eapply tcn_pstep_pinv; eauto.
Qed.

Lemma tcn_pinv_init nsa nsb ta tb :
  Forall (fun n => 1 <= n) nsa -> Forall (fun n => 1 <= n) nsb ->
  tcn_pinv (tcn_pview (tcn_pair0 nsa nsb ta tb)).
Proof.
  intros Ha Hb.
  assert (forall ns tk, Forall (fun n => 1 <= n) ns ->
            tcn_lview (tcn_view_of (tcn_sess0 ns tk) tcn_link0 tcn_link0)
            /\ tcn_vclean (tcn_view_of (tcn_sess0 ns tk) tcn_link0 tcn_link0)
            /\ forall ns' tk', tcn_half (tcn_view_of (tcn_sess0 ns tk) tcn_link0 tcn_link0)
                                        (tcn_view_of (tcn_sess0 ns' tk') tcn_link0 tcn_link0)) as Hone.
  { intros ns tk Hn. unfold tcn_view_of, tcn_sess0, tcn_lk, tcn_link0; cbn. split; [|split].
    - unfold tcn_lview; cbn. tcn_ls.
      intros i d N. apply tcn_send0_nth in N as (n & N & ->).
      assert (1 <= n) by (eapply Forall_forall in Hn; [exact Hn|eapply nth_error_In; eauto]).
      unfold tcn_sd_ok; cbn. repeat split; intros; try discriminate; try lia; auto.
    - unfold tcn_vclean; cbn. split; [constructor|split; [|discriminate]].
      intros i d N. apply tcn_send0_nth in N as (n & N & ->). cbn. split; [constructor|reflexivity].
    - intros ns' tk' t. exists 0. cbn.
      unfold tcn_inlenof, tcn_nextof, tcn_nof, tcn_emh, tcn_ackq, tcn_sdget.
      destruct (nth_error (map tcn_send0 ns) t) as [d|] eqn:N.
      + apply tcn_send0_nth in N as (n & N & ->). cbn.
        assert (1 <= n) by (eapply Forall_forall in Hn; [exact Hn|eapply nth_error_In; eauto]).
        destruct n; [lia|]. repeat split; auto.
      + cbn. repeat split; auto. }
  destruct (Hone nsa ta Ha) as (La & Ca & Hfa). destruct (Hone nsb tb Hb) as (Lb & Cb & Hfb).
  unfold tcn_pinv, tcn_pview, tcn_pair0; cbn [fst snd pa_a pa_b pa_ab pa_ba].
  split; [split; reflexivity|]. auto 10.
Qed.

(* ------------------------------------------------------------------------------------------ *)
(* Part 3: a session none of whose live processes can step                                     *)
(* ------------------------------------------------------------------------------------------ *)
Definition tcn_sstuck (cf : tcn_conf) (s : tcn_sess) (li lo : tcn_link) : Prop :=
  forall q, tcn_live q = true -> tcn_sstep cf s li lo q = None.

(* handle is not dead, and an acknowledgement it holds belongs to a Send that still waits *)
Definition tcn_hfw_alive (s : tcn_sess) : Prop :=
  tcn_h s <> HDead
  /\ forall t m, tcn_h s = HFwd t m -> exists d, nth_error (tcn_snd s) t = Some d /\ sd_res d = None.

Definition tcn_quiet (s : tcn_sess) : Prop :=
  tcn_wh s = None /\ tcn_out s = [] /\ tcn_st s = GMain /\ tcn_in s = [] /\ tcn_xin s = [] /\ tcn_xout s = []
  /\ tcn_h s = HIdle /\ tcn_rep s = [] /\ tcn_cl s = None
  /\ (forall i d, nth_error (tcn_snd s) i = Some d ->
        sd_em d = EmDone /\ (sd_res d = None -> sd_len d = None /\ sd_ack d = [])).

(* handle cannot be the one that is blocked, unless ExchangeMsgOut is full *)
Lemma tcn_sstuck_handle cf s li lo :
  tcn_caps_ok cf -> tcn_sstuck cf s li lo -> tcn_hfw_alive s ->
  tcn_rep s = [] /\ tcn_cl s = None
  /\ ((tcn_h s = HIdle /\ tcn_xin s = []) \/ (exists a fin, tcn_h s = HAckOut a fin /\ cf_xout cf <= length (tcn_xout s))).
Proof.
  intros (Ci & Co & Cxi & Cxo & Ca & Cr) Sp [Hd Hfw].
  destruct s as [inq out wh st xin xout h rx sn cl rep up ticks]. cbn in *.
  pose proof (Sp PUpper eq_refl) as W. cbn in W. destruct rep; [|discriminate]. clear W.
  pose proof (Sp PClient eq_refl) as W. cbn in W.
  destruct cl as [t|]; [rewrite (tcn_put_nil _ _ Cr) in W; discriminate|]. clear W.
  split; [reflexivity|split; [reflexivity|]].
  pose proof (Sp PH eq_refl) as W. cbn in W. unfold tcn_h_step in W; cbn in W.
  destruct h as [|a fin|t|t m|].
  - left. destruct xin as [|m r]; [auto|]. destruct m; discriminate.
  - right. exists a, fin. split; [reflexivity|].
    unfold tcn_put in W. destruct (Nat.ltb_spec (length xout) (cf_xout cf)); [discriminate|assumption].
  - discriminate.
  - exfalso. destruct (Hfw t m eq_refl) as (d & Nd & Rd). rewrite Nd in W.
    destruct (tcn_put (cf_ack cf) (sd_ack d) m) eqn:P; [discriminate|].
    unfold tcn_put in P. destruct (Nat.ltb_spec (length (sd_ack d)) (cf_ack cf)); [discriminate|].
    pose proof (Sp (PSendAck t) eq_refl) as W2. cbn in W2.
    unfold tcn_send_apply in W2; cbn in W2. rewrite Nd in W2.
    unfold tcn_main_ack in W2. rewrite Rd in W2.
    destruct (sd_ack d) as [|m' r]; [cbn in *; lia|]. destruct m'; discriminate.
  - exfalso. apply Hd; reflexivity.
Qed.

(* either the session is quiet and nothing is under way to it, or its writer is blocked on the transport *)
Lemma tcn_sstuck_cases cf s li lo :
  cf_fix cf = true -> tcn_caps_ok cf -> tcn_sstuck cf s li lo -> tcn_hfw_alive s ->
  (tcn_quiet s /\ li = tcn_link0)
  \/ (exists m, tcn_wh s = Some m /\ tcn_link_write (cf_T cf) lo m = None).
Proof.
  intros Fx Cp Sp Hal.
  destruct (tcn_sstuck_handle cf s li lo Cp Sp Hal) as (Hrep & Hcl & Hh).
  destruct Cp as (Ci & Co & Cxi & Cxo & Ca & Cr).
  destruct s as [inq out wh st xin xout h rx sn cl rep up ticks]. cbn in *. subst rep cl.
  pose proof (Sp PWWrite eq_refl) as W. cbn in W.
  destruct wh as [m|].
  { right. exists m. split; [reflexivity|]. destruct (tcn_link_write (cf_T cf) lo m); [discriminate|reflexivity]. }
  clear W. left.
  pose proof (Sp PWTake eq_refl) as W. cbn in W. destruct out; [|discriminate]. clear W.
  assert (st = GMain \/ exists m, st = GUp m) as Hst.
  { pose proof (Sp PStPut eq_refl) as W. cbn in W.
    destruct st as [|o|m|m o]; eauto; rewrite (tcn_put_nil _ _ Co) in W; discriminate. }
  assert (xout = []) as ->.
  { pose proof (Sp PStOut eq_refl) as W. cbn in W.
    destruct Hst as [->|[m ->]]; cbn in W; destruct xout; auto; try discriminate.
    rewrite Fx in W; discriminate. }
  destruct Hh as [[-> ->]|(a & fin & _ & Hl)]; [|cbn in Hl; lia].
  assert (st = GMain) as ->.
  { destruct Hst as [->|[m ->]]; [reflexivity|].
    pose proof (Sp PStIn eq_refl) as W. cbn in W. rewrite (tcn_put_nil _ _ Cxi) in W. discriminate. }
  pose proof (Sp PStIn eq_refl) as W. cbn in W. destruct inq; [|discriminate]. clear W.
  destruct li as [qi hi].
  pose proof (Sp PRPush eq_refl) as W. cbn in W.
  destruct hi as [m|]; [rewrite (tcn_put_nil _ _ Ci) in W; discriminate|]. clear W.
  pose proof (Sp PRRead eq_refl) as W. cbn in W. destruct qi; [|discriminate]. clear W.
  split; [|reflexivity].
  unfold tcn_quiet; cbn. repeat split; auto.
  - pose proof (Sp (PEmit i) eq_refl) as W. cbn in W. rewrite H in W. unfold tcn_emit in W.
    destruct (sd_em d); [|rewrite (tcn_put_nil _ _ Cxo) in W; discriminate|reflexivity].
    destruct (sd_stop d); [discriminate|]. destruct (sd_next d <? sd_n d); discriminate.
  - pose proof (Sp (PSendLen i) eq_refl) as W. cbn in W.
    unfold tcn_send_apply in W; cbn in W. rewrite H in W. unfold tcn_main_len in W. rewrite H0 in W.
    destruct (sd_len d); [discriminate|reflexivity].
  - pose proof (Sp (PSendAck i) eq_refl) as W. cbn in W.
    unfold tcn_send_apply in W; cbn in W. rewrite H in W. unfold tcn_main_ack in W. rewrite H0 in W.
    destruct (sd_ack d) as [|m r]; [reflexivity|destruct m; discriminate].
Qed.

(* the transport towards a stuck session is full: then everything from its reader to its writer
   is full, with the stage inside messageOut *)
Definition tcn_jammed (cf : tcn_conf) (s : tcn_sess) (li : tcn_link) : Prop :=
  (exists m, lk_h li = Some m) /\ cf_T cf <= length (lk_q li) /\ cf_in cf <= length (tcn_in s)
  /\ (exists o, tcn_st_out (tcn_st s) = [o]) /\ cf_out cf <= length (tcn_out s) /\ (exists w, tcn_wh s = Some w).

Lemma tcn_sstuck_jam cf s li lo m0 :
  cf_fix cf = true -> tcn_caps_ok cf -> tcn_sstuck cf s li lo -> tcn_hfw_alive s ->
  tcn_link_write (cf_T cf) li m0 = None -> tcn_jammed cf s li.
Proof.
  intros Fx Cp Sp Hal Hw.
  destruct (tcn_sstuck_handle cf s li lo Cp Sp Hal) as (Hrep & Hcl & Hh).
  destruct Cp as (Ci & Co & Cxi & Cxo & Ca & Cr).
  destruct s as [inq out wh st xin xout h rx sn cl rep up ticks]. cbn in *. subst rep cl.
  destruct li as [qi hi]. unfold tcn_jammed; cbn.
  (* the reader holds a message and the transport is full *)
  assert ((exists m, hi = Some m) /\ cf_T cf <= length qi) as [[m1 ->] HT].
  { pose proof (Sp PRRead eq_refl) as W. cbn in W.
    unfold tcn_link_write in Hw; cbn [lk_h lk_q] in Hw. destruct (cf_T cf) as [|T].
    - destruct hi as [m|]; [split; [eauto|lia]|]. destruct qi; discriminate.
    - destruct (Nat.ltb_spec (length qi) (S T)); [discriminate|].
      destruct hi as [m|]; [split; [eauto|lia]|]. destruct qi; [cbn in *; lia|discriminate]. }
  split; [eauto|]. split; [assumption|].
  (* inChan is full *)
  assert (cf_in cf <= length inq) as Hin.
  { pose proof (Sp PRPush eq_refl) as W. cbn in W. unfold tcn_put in W.
    destruct (Nat.ltb_spec (length inq) (cf_in cf)); [discriminate|assumption]. }
  split; [assumption|].
  (* the stage is inside messageOut *)
  assert (exists o, tcn_st_out st = [o]) as Hso.
  { destruct st as [|o|m|m o]; cbn; eauto; exfalso.
    - pose proof (Sp PStIn eq_refl) as W. cbn in W. destruct inq; [cbn in *; lia|discriminate].
    - pose proof (Sp PStIn eq_refl) as W. cbn in W.
      pose proof (Sp PStOut eq_refl) as W2. cbn in W2. rewrite Fx in W2.
      destruct xout; [|discriminate].
      destruct Hh as [[-> ->]|(a & fin & _ & Hl)]; [|cbn in Hl; lia].
      rewrite (tcn_put_nil _ _ Cxi) in W. discriminate. }
  split; [assumption|].
  assert (cf_out cf <= length out) as Hout.
  { pose proof (Sp PStPut eq_refl) as W. cbn in W. destruct Hso as [o Ho].
    destruct st as [|o'|m|m o']; cbn in Ho; try discriminate; unfold tcn_put in W;
      destruct (Nat.ltb_spec (length out) (cf_out cf)); try discriminate; assumption. }
  split; [assumption|].
  pose proof (Sp PWTake eq_refl) as W. cbn in W.
  destruct wh as [w|]; [eauto|]. destruct out; [cbn in *; lia|discriminate].
Qed.

(* ---- the pair ---- *)
Lemma tcn_pstuck_spec cf y :
  tcn_pstuck cf y = true ->
  tcn_sstuck cf (pa_a y) (pa_ba y) (pa_ab y) /\ tcn_sstuck cf (pa_b y) (pa_ab y) (pa_ba y).
Proof.
  unfold tcn_pstuck. intros F. rewrite forallb_forall in F.
  split; intros q Lq.
  - destruct (tcn_procs_in q (length (tcn_snd (pa_a y)))) as [Hq|(i & Hi & Hq)].
    + assert (In (SideA, q) (tcn_pprocs y)) as Hin
        by (unfold tcn_pprocs; apply in_or_app; left; apply in_map; assumption).
      specialize (F _ Hin). cbn [snd] in F. rewrite Lq in F. cbn in F.
      unfold tcn_pstep in F; cbn in F.
      destruct (tcn_sstep cf (pa_a y) (pa_ba y) (pa_ab y) q) as [[[? ?] ?]|]; [discriminate|reflexivity].
    + eapply tcn_sstep_out_of_range; eauto.
  - destruct (tcn_procs_in q (length (tcn_snd (pa_b y)))) as [Hq|(i & Hi & Hq)].
    + assert (In (SideB, q) (tcn_pprocs y)) as Hin
        by (unfold tcn_pprocs; apply in_or_app; right; apply in_map; assumption).
      specialize (F _ Hin). cbn [snd] in F. rewrite Lq in F. cbn in F.
      unfold tcn_pstep in F; cbn in F.
      destruct (tcn_sstep cf (pa_b y) (pa_ab y) (pa_ba y) q) as [[[? ?] ?]|]; [discriminate|reflexivity].
    + eapply tcn_sstep_out_of_range; eauto.
Qed.

Lemma tcn_pinv_hfw_alive s li lo vy :
  tcn_lview (tcn_view_of s li lo) -> tcn_vclean (tcn_view_of s li lo) -> tcn_half (tcn_view_of s li lo) vy ->
  tcn_hfw_alive s.
Proof.
  intros L C Hf. split.
  - destruct C as (_ & _ & C3). exact C3.
  - intros t m Hh.
    pose proof L as (_ & Hok & _). pose proof C as (C1 & _).
    cbn in Hok, C1. rewrite Hh in Hok, C1. cbn in Hok. destruct Hok as [Hm _].
    assert (tcn_clean m) as Hc.
    { cbn [tcn_hfw] in C1. rewrite !app_assoc in C1. apply Forall_app in C1 as [_ C1].
      apply Forall_cons_iff in C1 as [C1 _]. exact C1. }
    destruct m; cbn in Hc, Hm; try (exfalso; exact Hc); try discriminate. inversion Hm; subst t0.
    destruct (tcn_half_ack_alive _ vy t k L C Hf) as (d & Nd & Rd).
    + cbn. rewrite Hh. cbn. apply in_or_app; right. left; reflexivity.
    + exists d; split; assumption.
Qed.

Lemma tcn_pstuck_shape cf y :
  cf_fix cf = true -> tcn_caps_ok cf -> tcn_pinv (tcn_pview y) -> tcn_pstuck cf y = true ->
  (tcn_quiet (pa_a y) /\ tcn_quiet (pa_b y) /\ pa_ab y = tcn_link0 /\ pa_ba y = tcn_link0)
  \/ (tcn_jammed cf (pa_a y) (pa_ba y) /\ tcn_jammed cf (pa_b y) (pa_ab y)).
Proof.
  intros Fx Cp (_ & La & Lb & Ca & Cb & Hab & Hba) St. cbn [fst snd tcn_pview] in *.
  destruct (tcn_pstuck_spec cf y St) as [Sa Sb].
  pose proof (tcn_pinv_hfw_alive _ _ _ _ La Ca Hab) as Ala.
  pose proof (tcn_pinv_hfw_alive _ _ _ _ Lb Cb Hba) as Alb.
  destruct (tcn_sstuck_cases cf _ _ _ Fx Cp Sa Ala) as [[Qa Ea]|(ma & Wa & Fa)];
    destruct (tcn_sstuck_cases cf _ _ _ Fx Cp Sb Alb) as [[Qb Eb]|(mb & Wb & Fb)].
  - left. auto.
  - exfalso. rewrite Ea in Fb. destruct (tcn_link_write_empty (cf_T cf) mb) as [l Hl]. congruence.
  - exfalso. rewrite Eb in Fa. destruct (tcn_link_write_empty (cf_T cf) ma) as [l Hl]. congruence.
  - right. split.
    + eapply tcn_sstuck_jam; eauto.
    + eapply tcn_sstuck_jam; eauto.
Qed.

(* ------------------------------------------------------------------------------------------ *)
(* Part 4: quiet means done; a jam needs many unacknowledged segments                          *)
(* ------------------------------------------------------------------------------------------ *)
Lemma tcn_quiet_all_ok sx lix lox sy liy loy :
  tcn_quiet sx -> tcn_quiet sy -> lix = tcn_link0 -> liy = tcn_link0 ->
  tcn_lview (tcn_view_of sx lix lox) -> tcn_vclean (tcn_view_of sx lix lox) ->
  tcn_half (tcn_view_of sx lix lox) (tcn_view_of sy liy loy) ->
  tcn_all_ok sx = true.
Proof.
  intros (Qw & Qo & Qs & Qi & Qxi & Qxo & Qh & Qr & Qc & Qd) (Qw' & Qo' & Qs' & Qi' & Qxi' & Qxo' & Qh' & _)
         -> -> (Hs & _) (_ & C2 & _) Hf.
  unfold tcn_all_ok. apply forallb_forall. intros d Hin.
  apply In_nth_error in Hin as [i Nd].
  destruct (Qd _ _ Nd) as [Hem Hq].
  destruct (Hs _ _ Nd) as (Hn1 & Hnx & _ & Hdone & _ & _ & _ & Hwait & _ & Hres & _).
  destruct (C2 _ _ Nd) as [_ Hstop].
  destruct (Hdone Hem Hstop) as [Hnext Hlo].
  destruct (Hf i) as (pp & P1 & P2 & P3 & P4 & _).
  unfold tcn_view_of, tcn_lk, tcn_link0 in *; cbn in P1, P2, P3, P4.
  rewrite Qw, Qo, Qs, Qi, Qxi, Qxo, Qh, Qw', Qo', Qs', Qi', Qxi', Qxo', Qh' in *. cbn in P3, P4.
  unfold tcn_inlenof, tcn_nextof, tcn_nof, tcn_emh, tcn_ackq, tcn_sdget in *. rewrite Nd in *.
  rewrite Hem in P3. cbn in P3. symmetry in P3. apply map_eq_nil in P3.
  assert (pp = sd_n d) as -> by (destruct (sd_next d - pp) eqn:Hc; [lia|discriminate]).
  destruct (sd_res d) as [r|] eqn:Rd.
  - destruct (Hres r eq_refl) as [->|Hs']; [reflexivity|congruence].
  - exfalso. destruct (Hq eq_refl) as [Hl Ha]. rewrite Ha in P4. cbn in P4.
    destruct Hlo as [Hl'|Ho]; [congruence|].
    apply (Hwait eq_refl). split; [assumption|].
    destruct (sd_n d - sd_inlen d) eqn:Hc; [lia|discriminate].
Qed.

(* ---- sums over transfer ids ---- *)
Definition tcn_sum (s : nat) (F : nat -> nat) : nat := list_sum (map F (seq 0 s)).

Lemma tcn_sum_S s F : tcn_sum (S s) F = tcn_sum s F + F s.
Proof. unfold tcn_sum. rewrite seq_S, map_app, list_sum_app. cbn. lia. Qed.
Lemma tcn_sum_le s F G : (forall t, t < s -> F t <= G t) -> tcn_sum s F <= tcn_sum s G.
Proof.
  induction s; intros H; [reflexivity|]. rewrite !tcn_sum_S.
  assert (tcn_sum s F <= tcn_sum s G) by (apply IHs; intros; apply H; lia).
  assert (F s <= G s) by (apply H; lia). lia.
Qed.
Lemma tcn_sum_ext s F G : (forall t, t < s -> F t = G t) -> tcn_sum s F = tcn_sum s G.
Proof.
  induction s; intros H; [reflexivity|]. rewrite !tcn_sum_S. rewrite IHs by (intros; apply H; lia).
  rewrite H by lia. reflexivity.
Qed.
Lemma tcn_sum_add s F G : tcn_sum s (fun t => F t + G t) = tcn_sum s F + tcn_sum s G.
Proof. induction s; [reflexivity|]. rewrite !tcn_sum_S, IHs. lia. Qed.
Lemma tcn_sum_ind s t : tcn_sum s (fun t' => if t =? t' then 1 else 0) = if t <? s then 1 else 0.
Proof.
  induction s; [reflexivity|]. rewrite tcn_sum_S, IHs.
  destruct (Nat.ltb_spec t s), (Nat.ltb_spec t (S s)), (Nat.eqb_spec t s); lia.
Qed.
Lemma tcn_sum_shift s F : tcn_sum (S s) F = F 0 + tcn_sum s (fun t => F (S t)).
Proof. unfold tcn_sum. cbn [seq map list_sum]. rewrite <- seq_shift, map_map. reflexivity. Qed.

(* f t = "belongs to transfer t", g = "belongs to some transfer" *)
Lemma tcn_count_sum (f : nat -> tcn_msg -> bool) (g : tcn_msg -> bool) s L :
  (forall m, g m = true -> exists t, forall t', f t' m = (t =? t')) ->
  (forall m, g m = false -> forall t', f t' m = false) ->
  (forall t, s <= t -> filter (f t) L = []) ->
  length (filter g L) = tcn_sum s (fun t => length (filter (f t) L)).
Proof.
  intros H1 H2. induction L as [|m L IH]; intros H3.
  - cbn. unfold tcn_sum. induction (seq 0 s); cbn; auto.
  - assert (forall t, s <= t -> filter (f t) L = []) as H3'.
    { intros t Ht. specialize (H3 t Ht). cbn in H3. destruct (f t m); [discriminate|assumption]. }
    specialize (IH H3'). cbn [filter]. destruct (g m) eqn:G.
    + destruct (H1 m G) as [t Ht].
      assert (t < s) as Hlt.
      { destruct (Nat.lt_ge_cases t s) as [|Hge]; [assumption|].
        specialize (H3 t Hge). cbn in H3. rewrite Ht, Nat.eqb_refl in H3. discriminate. }
      cbn [length]. rewrite IH.
      rewrite (tcn_sum_ext s (fun t0 => length (if f t0 m then m :: filter (f t0) L else filter (f t0) L))
                 (fun t0 => (if t =? t0 then 1 else 0) + length (filter (f t0) L))).
      * rewrite tcn_sum_add, tcn_sum_ind. destruct (Nat.ltb_spec t s); lia.
      * intros t0 _. rewrite Ht. destruct (t =? t0); reflexivity.
    + rewrite IH. apply tcn_sum_ext. intros t0 _. rewrite (H2 m G). reflexivity.
Qed.

Lemma tcn_clean_split L :
  Forall tcn_clean L -> length L = length (filter tcn_is_seg L) + length (filter tcn_is_ack L).
Proof.
  induction 1 as [|m L Hm _ IH]; [reflexivity|]. destruct m; cbn in *; try (destruct Hm); lia.
Qed.

Lemma tcn_filter_app_nil {A} (f : A -> bool) a b : filter f (a ++ b) = [] -> filter f a = [] /\ filter f b = [].
Proof. rewrite filter_app. apply app_eq_nil. Qed.

(* the unacknowledged segments of the Sends of a session *)
Definition tcn_inflight (s : tcn_sess) : nat :=
  list_sum (map (fun d => sd_next d - sd_inlen d) (tcn_snd s)).

Lemma tcn_inflight_sum sn :
  list_sum (map (fun d => sd_next d - sd_inlen d) sn)
  = tcn_sum (length sn) (fun t => tcn_nextof sn t - tcn_inlenof sn t).
Proof.
  induction sn as [|d sn IH]; [reflexivity|].
  change (length (d :: sn)) with (S (length sn)). rewrite tcn_sum_shift.
  change (list_sum (map (fun d0 => sd_next d0 - sd_inlen d0) (d :: sn)))
    with ((sd_next d - sd_inlen d) + list_sum (map (fun d0 => sd_next d0 - sd_inlen d0) sn)).
  rewrite IH. reflexivity.
Qed.

(* segments of this side's Sends under way forward, and their acknowledgements under way back,
   are unacknowledged segments of this side *)
Lemma tcn_half_count va vb :
  tcn_half va vb ->
  length (filter tcn_is_seg (v_in vb ++ v_li vb ++ v_ops va))
  + length (filter tcn_is_ack (v_in va ++ v_li va ++ v_ops vb))
  <= tcn_sum (length (v_snd va)) (fun t => tcn_nextof (v_snd va) t - tcn_inlenof (v_snd va) t).
Proof.
  intros Hf. set (s := length (v_snd va)).
  assert (forall t, s <= t -> tcn_nextof (v_snd va) t = 0 /\ tcn_inlenof (v_snd va) t = 0) as Hout.
  { intros t Ht. unfold tcn_nextof, tcn_inlenof, tcn_sdget.
    assert (nth_error (v_snd va) t = None) as -> by (apply nth_error_None; assumption). auto. }
  rewrite (tcn_count_sum tcn_is_seg_of tcn_is_seg s).
  2:{ intros m G. destruct m; try discriminate. exists t. intros t'. reflexivity. }
  2:{ intros m G t'. destruct m; try discriminate; reflexivity. }
  2:{ intros t Ht. destruct (Hout t Ht) as [Hn Hi]. destruct (Hf t) as (pp & P1 & P2 & P3 & _).
      rewrite Hn in *. assert (pp = 0) as -> by lia. cbn in P3. apply app_eq_nil in P3 as [P3 _].
      apply tcn_filter_app_nil in P3 as [_ P3]. exact P3. }
  rewrite (tcn_count_sum tcn_is_ack_of tcn_is_ack s).
  2:{ intros m G. destruct m; try discriminate. exists t. intros t'. reflexivity. }
  2:{ intros m G t'. destruct m; try discriminate; reflexivity. }
  2:{ intros t Ht. destruct (Hout t Ht) as [Hn Hi]. destruct (Hf t) as (pp & P1 & P2 & _ & P4 & _).
      rewrite Hn, Hi in *. assert (pp = 0) as -> by lia. cbn in P4. apply map_eq_nil in P4.
      apply tcn_filter_app_nil in P4 as [_ P4]. apply tcn_filter_app_nil in P4 as [_ P4].
      apply tcn_filter_app_nil in P4 as [_ P4].
      rewrite !app_assoc in P4. apply tcn_filter_app_nil in P4 as [P4 _].
      rewrite <- !app_assoc in P4. exact P4. }
  rewrite <- tcn_sum_add. apply tcn_sum_le. intros t _.
  destruct (Hf t) as (pp & P1 & P2 & P3 & P4 & _).
  apply (f_equal (@length _)) in P3. apply (f_equal (@length _)) in P4.
  rewrite app_length, map_length, seq_length in P3. rewrite map_length, seq_length in P4.
  rewrite !filter_app, !app_length in *. lia.
Qed.

Definition tcn_stall_need (cf : tcn_conf) : nat := 2 * (cf_in cf + cf_out cf + cf_T cf + 3).

Lemma tcn_jam_count cf sx lix lox sy :
  tcn_jammed cf sy lox -> cf_out cf <= length (tcn_out sx) -> (exists o, tcn_st_out (tcn_st sx) = [o]) ->
  (exists w, tcn_wh sx = Some w) ->
  cf_in cf + cf_out cf + cf_T cf + 3
  <= length (v_in (tcn_view_of sy lox lix) ++ v_li (tcn_view_of sy lox lix) ++ v_ops (tcn_view_of sx lix lox)).
Proof.
  intros ((m & Hh) & HT & Hin & _) Hout (o & Ho) (w & Hw).
  unfold tcn_view_of, tcn_lk; cbn. rewrite Hh, Hw, Ho.
  repeat (rewrite ?app_length; cbn [length app tcn_oh]). lia.
Qed.

(* a stall of the pair that is not the end of all Sends needs that many unacknowledged segments *)
Lemma tcn_pair_stall_needs cf y :
  cf_fix cf = true -> tcn_caps_ok cf -> tcn_pinv (tcn_pview y) ->
  tcn_pstuck cf y = true -> tcn_pdone y = false ->
  tcn_jammed cf (pa_a y) (pa_ba y) /\ tcn_jammed cf (pa_b y) (pa_ab y)
  /\ tcn_stall_need cf <= tcn_inflight (pa_a y) + tcn_inflight (pa_b y).
Proof.
  intros Fx Cp I St Nd.
  destruct (tcn_pstuck_shape cf y Fx Cp I St) as [(Qa & Qb & Eab & Eba)|[Ja Jb]].
  - exfalso. destruct I as (_ & La & Lb & Ca & Cb & Hab & Hba). cbn [fst snd tcn_pview] in *.
    unfold tcn_pdone in Nd.
    rewrite (tcn_quiet_all_ok _ _ _ _ _ _ Qa Qb Eba Eab La Ca Hab) in Nd.
    rewrite (tcn_quiet_all_ok _ _ _ _ _ _ Qb Qa Eab Eba Lb Cb Hba) in Nd. discriminate.
  - split; [assumption|split; [assumption|]].
    destruct I as (_ & La & Lb & Ca & Cb & Hab & Hba). cbn [fst snd tcn_pview] in *.
    pose proof (tcn_half_count _ _ Hab) as Na. pose proof (tcn_half_count _ _ Hba) as Nb.
    unfold tcn_inflight. rewrite !tcn_inflight_sum.
    change (tcn_snd (pa_a y)) with (v_snd (tcn_view_of (pa_a y) (pa_ba y) (pa_ab y))).
    change (tcn_snd (pa_b y)) with (v_snd (tcn_view_of (pa_b y) (pa_ab y) (pa_ba y))).
    pose proof Ja as (_ & _ & _ & Hoa & Houta & Hwa). pose proof Jb as (_ & _ & _ & Hob & Houtb & Hwb).
    pose proof (tcn_jam_count cf (pa_a y) (pa_ba y) (pa_ab y) (pa_b y) Jb Houta Hoa Hwa) as Fa.
    pose proof (tcn_jam_count cf (pa_b y) (pa_ab y) (pa_ba y) (pa_a y) Ja Houtb Hob Hwb) as Fb.
    rewrite tcn_clean_split in Fa, Fb.
    2:{ destruct Ca as (Ca1 & _), Cb as (Cb1 & _). tcn_fa. intuition. }
    2:{ destruct Ca as (Ca1 & _), Cb as (Cb1 & _). tcn_fa. intuition. }
    unfold tcn_stall_need. lia.
Qed.

(* ---- along runs ---- *)
Lemma tcn_pstep_n cf y p y' :
  tcn_pstep cf y p = Some y' ->
  map sd_n (tcn_snd (pa_a y')) = map sd_n (tcn_snd (pa_a y))
  /\ map sd_n (tcn_snd (pa_b y')) = map sd_n (tcn_snd (pa_b y)).
Proof.
  destruct p as [[|] q]; unfold tcn_pstep; cbn.
  - destruct (tcn_sstep cf (pa_a y) (pa_ba y) (pa_ab y) q) as [[[s li] lo]|] eqn:E; intros H; inversion H; subst; cbn.
    split; [|reflexivity]. apply tcn_sstep_veff in E. apply tcn_veff_n in E. exact E.
  - destruct (tcn_sstep cf (pa_b y) (pa_ab y) (pa_ba y) q) as [[[s li] lo]|] eqn:E; intros H; inversion H; subst; cbn.
    split; [reflexivity|]. apply tcn_sstep_veff in E. apply tcn_veff_n in E. exact E.
Qed.
Lemma tcn_prun_n cf ps : forall y y',
  tcn_prun cf y ps = Some y' ->
  map sd_n (tcn_snd (pa_a y')) = map sd_n (tcn_snd (pa_a y))
  /\ map sd_n (tcn_snd (pa_b y')) = map sd_n (tcn_snd (pa_b y)).
Proof.
  induction ps as [|p ps IH]; intros y y' R; cbn in R.
  - inversion R; auto.
  - destruct (tcn_pstep cf y p) as [y1|] eqn:E; [|discriminate].
    destruct (tcn_pstep_n _ _ _ _ E) as [E1 E2]. destruct (IH _ _ R) as [F1 F2]. split; congruence.
Qed.

Lemma tcn_inflight_le s :
  (forall i d, nth_error (tcn_snd s) i = Some d -> tcn_sd_ok i d) ->
  tcn_inflight s <= list_sum (map sd_n (tcn_snd s)).
Proof.
  unfold tcn_inflight. intros Hs.
  assert (forall k l, (forall i d, nth_error l i = Some d -> tcn_sd_ok (k + i) d) ->
            list_sum (map (fun d => sd_next d - sd_inlen d) l) <= list_sum (map sd_n l)) as G.
  { intros k l; revert k; induction l as [|d l IH]; intros k H; [reflexivity|]. cbn [map list_sum].
    destruct (H 0 d eq_refl) as (_ & Hn & _).
    assert (list_sum (map (fun d => sd_next d - sd_inlen d) l) <= list_sum (map sd_n l)).
    { apply (IH (S k)). intros i d0 N. replace (S k + i) with (k + S i) by lia. apply H. exact N. }
    change (list_sum ((sd_next d - sd_inlen d) :: map (fun d0 => sd_next d0 - sd_inlen d0) l))
      with ((sd_next d - sd_inlen d) + list_sum (map (fun d0 => sd_next d0 - sd_inlen d0) l)).
    change (list_sum (sd_n d :: map sd_n l)) with (sd_n d + list_sum (map sd_n l)). lia. }
  apply (G 0). exact Hs.
Qed.

Lemma tcn_pstuck_false cf y :
  tcn_pstuck cf y = false -> exists p y', tcn_live (snd p) = true /\ tcn_pstep cf y p = Some y'.
Proof.
  unfold tcn_pstuck. intros F.
  assert (exists p, In p (tcn_pprocs y)
                    /\ (negb (tcn_live (snd p)) || match tcn_pstep cf y p with Some _ => false | None => true end) = false)
    as (p & _ & Hp).
  { induction (tcn_pprocs y) as [|a l IH]; cbn in F; [discriminate|].
    apply andb_false_iff in F as [F|F].
    - exists a; split; [left; reflexivity|assumption].
    - destruct (IH F) as (p & Hi & Hp). exists p; split; [right; assumption|assumption]. }
  apply orb_false_iff in Hp as [H1 H2]. apply negb_false_iff in H1.
  destruct (tcn_pstep cf y p) as [y'|] eqn:E; [|discriminate]. eauto.
Qed.

(* Theorem: a reachable stall of the pair other than "all Sends done" has both stages inside
   messageOut with everything between them full, and at least 2 (in + out + T + 3)
   unacknowledged segments *)
Lemma tcn_pair_stall_window cf nsa nsb ta tb ps y :
  cf_fix cf = true -> tcn_caps_ok cf ->
  Forall (fun n => 1 <= n) nsa -> Forall (fun n => 1 <= n) nsb ->
  tcn_prun cf (tcn_pair0 nsa nsb ta tb) ps = Some y -> tcn_plive_run ps ->
  tcn_pstuck cf y = true -> tcn_pdone y = false ->
  tcn_jammed cf (pa_a y) (pa_ba y) /\ tcn_jammed cf (pa_b y) (pa_ab y)
  /\ tcn_stall_need cf <= tcn_inflight (pa_a y) + tcn_inflight (pa_b y).
Proof.
  intros Fx Cp Ha Hb R Lv St Nd.
  apply tcn_pair_stall_needs; auto.
  eapply tcn_prun_pinv; eauto. apply tcn_pinv_init; assumption.
Qed.

(* ... so with fewer segments to send altogether the pair cannot stall *)
Lemma tcn_pair_progress_small cf nsa nsb ta tb ps y :
  cf_fix cf = true -> tcn_caps_ok cf ->
  Forall (fun n => 1 <= n) nsa -> Forall (fun n => 1 <= n) nsb ->
  list_sum nsa + list_sum nsb < tcn_stall_need cf ->
  tcn_prun cf (tcn_pair0 nsa nsb ta tb) ps = Some y -> tcn_plive_run ps ->
  (exists p y', tcn_live (snd p) = true /\ tcn_pstep cf y p = Some y') \/ tcn_pdone y = true.
Proof.
  intros Fx Cp Ha Hb Hsmall R Lv.
  destruct (tcn_pstuck cf y) eqn:St; [|left; apply tcn_pstuck_false; assumption].
  destruct (tcn_pdone y) eqn:Nd; [right; reflexivity|]. exfalso.
  pose proof (tcn_prun_pinv cf ps _ _ R Lv (tcn_pinv_init nsa nsb ta tb Ha Hb)) as I.
  destruct (tcn_pair_stall_needs cf y Fx Cp I St Nd) as (_ & _ & Hneed).
  destruct (tcn_prun_n cf ps _ _ R) as [Na Nb]. cbn in Na, Nb.
  rewrite map_map in Na, Nb. cbn in Na, Nb. rewrite map_id in Na, Nb.
  destruct I as (_ & (Hsa & _) & (Hsb & _) & _). cbn [fst snd tcn_pview] in *.
  pose proof (tcn_inflight_le (pa_a y) Hsa) as Ia. pose proof (tcn_inflight_le (pa_b y) Hsb) as Ib.
  rewrite Na in Ia. rewrite Nb in Ib. lia.
Qed.

(* traffic in one direction only *)
Lemma tcn_pair_progress_one_direction cf nsa ta tb ps y :
  cf_fix cf = true -> tcn_caps_ok cf -> Forall (fun n => 1 <= n) nsa ->
  list_sum nsa < tcn_stall_need cf ->
  tcn_prun cf (tcn_pair0 nsa [] ta tb) ps = Some y -> tcn_plive_run ps ->
  (exists p y', tcn_live (snd p) = true /\ tcn_pstep cf y p = Some y') \/ tcn_pdone y = true.
Proof.
  intros Fx Cp Ha Hsmall R Lv.
  apply (tcn_pair_progress_small cf nsa [] ta tb ps y); auto.
  change (list_sum []) with 0. lia.
Qed.

(* ---- witnesses (real capacities, net.Pipe) ---- *)
Definition tcn_on (sd : tcn_side) (l : list tcn_proc) : list (tcn_side * tcn_proc) := map (pair sd) l.
Definition tcn_emits (s : nat) : list tcn_proc := map PEmit (seq 0 s).
Definition tcn_mains (s : nat) : list tcn_proc := flat_map (fun i => [PSendLen i; PSendAck i]) (seq 0 s).
Definition tcn_plive_runb (ps : list (tcn_side * tcn_proc)) : bool := forallb (fun p => tcn_live (snd p)) ps.
Lemma tcn_plive_runb_ok ps : tcn_plive_runb ps = true -> tcn_plive_run ps.
Proof. unfold tcn_plive_runb, tcn_plive_run. rewrite forallb_forall, Forall_forall. auto. Qed.

(* both directions: everything that moves segments towards the transport first, reading last *)
Definition tcn_prio_both (s : nat) : list (tcn_side * tcn_proc) :=
  tcn_on SideA (tcn_emits s ++ [PStOut; PStPut; PWTake; PWWrite; PRRead; PRPush])
  ++ tcn_on SideB (tcn_emits s ++ [PStOut; PStPut; PWTake; PWWrite; PRRead; PRPush])
  ++ tcn_on SideA ([PStIn; PH; PClient; PUpper] ++ tcn_mains s)
  ++ tcn_on SideB ([PStIn; PH; PClient; PUpper] ++ tcn_mains s).
Definition tcn_both_run (cf : tcn_conf) (s : nat) : list (tcn_side * tcn_proc) * tcn_pair :=
  tcn_phases (tcn_pstep cf) (tcn_pair0 (repeat 1 s) (repeat 1 s) 0 0) [(tcn_prio_both s, 100 * s)].

(* one direction: first the Sends 0..k-1 of A run while A's stage never takes from its inChan (the
   acknowledgements pile up towards A), then all of A's Sends *)
Definition tcn_prio_one1 (k : nat) : list (tcn_side * tcn_proc) :=
  tcn_on SideA (tcn_emits k ++ [PStOut; PStPut; PWTake; PWWrite; PRRead; PRPush])
  ++ tcn_on SideB [PRRead; PRPush; PStIn; PH; PStOut; PStPut; PWTake; PWWrite; PClient; PUpper].
Definition tcn_prio_one2 (s : nat) : list (tcn_side * tcn_proc) :=
  tcn_on SideA (tcn_emits s ++ [PStOut; PStPut; PWTake; PWWrite; PRRead; PRPush])
  ++ tcn_on SideB [PRRead; PRPush; PStOut; PStPut; PWTake; PWWrite; PClient; PUpper; PStIn; PH]
  ++ tcn_on SideA ([PStIn; PH] ++ tcn_mains s).
Definition tcn_one_run (cf : tcn_conf) (k s : nat) : list (tcn_side * tcn_proc) * tcn_pair :=
  tcn_phases (tcn_pstep cf) (tcn_pair0 (repeat 1 s) [] 0 0)
             [(tcn_prio_one1 k, 100 * s); (tcn_prio_one2 s, 100 * s)].

(* what a witness schedule has to show *)
Definition tcn_pair_stall_check (cf : tcn_conf) (nsa nsb : list nat) (ps : list (tcn_side * tcn_proc)) : bool :=
  match tcn_prun cf (tcn_pair0 nsa nsb 0 0) ps with
  | Some y => tcn_plive_runb ps && tcn_pstuck cf y && negb (tcn_pdone y)
  | None => false
  end.
Definition tcn_pair_done_check (cf : tcn_conf) (nsa nsb : list nat) (ps : list (tcn_side * tcn_proc)) : bool :=
  match tcn_prun cf (tcn_pair0 nsa nsb 0 0) ps with
  | Some y => tcn_plive_runb ps && tcn_pstuck cf y && tcn_pdone y
  | None => false
  end.

Lemma tcn_pair_stall_check_ok cf nsa nsb ps :
  tcn_pair_stall_check cf nsa nsb ps = true ->
  exists y, tcn_prun cf (tcn_pair0 nsa nsb 0 0) ps = Some y /\ tcn_plive_run ps
            /\ tcn_pstuck cf y = true /\ tcn_pdone y = false.
Proof.
  unfold tcn_pair_stall_check. destruct (tcn_prun cf (tcn_pair0 nsa nsb 0 0) ps) as [y|]; [|discriminate].
  intros H. apply andb_true_iff in H as [H H3]. apply andb_true_iff in H as [H1 H2].
  exists y. repeat split; auto using tcn_plive_runb_ok. now apply negb_true_iff.
Qed.

(* both directions at once, real capacities over net.Pipe: 67 single-segment bundles per side *)
Lemma tcn_pair_bulk_stall :
  exists s ps y,
    tcn_prun (tcn_real true 0) (tcn_pair0 (repeat 1 s) (repeat 1 s) 0 0) ps = Some y
    /\ tcn_plive_run ps /\ tcn_pstuck (tcn_real true 0) y = true /\ tcn_pdone y = false
    /\ s + s = tcn_stall_need (tcn_real true 0) /\ s = 67.
Proof.
  exists 67, (fst (tcn_both_run (tcn_real true 0) 67)).
  destruct (tcn_pair_stall_check_ok (tcn_real true 0) (repeat 1 67) (repeat 1 67)
              (fst (tcn_both_run (tcn_real true 0) 67))) as (y & R & L & S & D); [vm_compute; reflexivity|].
  exists y. repeat split; auto.
Qed.

(* one direction only, real capacities over net.Pipe: 134 single-segment bundles from A, none from B *)
Lemma tcn_pair_one_direction_stall :
  exists s ps y,
    tcn_prun (tcn_real true 0) (tcn_pair0 (repeat 1 s) [] 0 0) ps = Some y
    /\ tcn_plive_run ps /\ tcn_pstuck (tcn_real true 0) y = true /\ tcn_pdone y = false
    /\ s = tcn_stall_need (tcn_real true 0) /\ s = 134.
Proof.
  exists 134, (fst (tcn_one_run (tcn_real true 0) 67 134)).
  destruct (tcn_pair_stall_check_ok (tcn_real true 0) (repeat 1 134) []
              (fst (tcn_one_run (tcn_real true 0) 67 134))) as (y & R & L & S & D); [vm_compute; reflexivity|].
  exists y. repeat split; auto.
Qed.

(* what the stalled states look like, and that one bundle less runs to the end under the same schedules *)
Lemma tcn_pair_stall_details :
  let cf := tcn_real true 0 in
  let y2 := snd (tcn_both_run cf 67) in
  let y1 := snd (tcn_one_run cf 67 134) in
  tcn_inflight (pa_a y2) + tcn_inflight (pa_b y2) = 134 /\ tcn_up (pa_a y2) = [] /\ tcn_up (pa_b y2) = []
  /\ tcn_st (pa_a y2) = GOut (CSeg 66 true) /\ tcn_st (pa_b y2) = GOut (CSeg 66 true)
  /\ tcn_inflight (pa_a y1) = 134 /\ length (tcn_up (pa_b y1)) = 67
  /\ tcn_st (pa_a y1) = GOut (CSeg 133 true) /\ tcn_st (pa_b y1) = GOut (CAck 66 1)
  /\ tcn_pair_done_check cf (repeat 1 66) (repeat 1 66) (fst (tcn_both_run cf 66)) = true
  /\ tcn_pair_done_check cf (repeat 1 133) [] (fst (tcn_one_run cf 67 133)) = true.
Proof. vm_compute. repeat split; reflexivity. Qed.

(* the threshold follows the capacities: all six channels of capacity 1 over net.Pipe need 10, real
   capacities over a transport that holds 2 messages per direction need 138 *)
Lemma tcn_pair_stall_scaled :
  tcn_stall_need (tcn_scaled true 1 0) = 10
  /\ tcn_pair_stall_check (tcn_scaled true 1 0) (repeat 1 5) (repeat 1 5) (fst (tcn_both_run (tcn_scaled true 1 0) 5)) = true
  /\ tcn_pair_done_check (tcn_scaled true 1 0) (repeat 1 4) (repeat 1 4) (fst (tcn_both_run (tcn_scaled true 1 0) 4)) = true
  /\ tcn_pair_stall_check (tcn_scaled true 1 0) (repeat 1 10) [] (fst (tcn_one_run (tcn_scaled true 1 0) 5 10)) = true
  /\ tcn_pair_done_check (tcn_scaled true 1 0) (repeat 1 9) [] (fst (tcn_one_run (tcn_scaled true 1 0) 5 9)) = true
  /\ tcn_stall_need (tcn_real true 2) = 138
  /\ tcn_pair_stall_check (tcn_real true 2) (repeat 1 69) (repeat 1 69) (fst (tcn_both_run (tcn_real true 2) 69)) = true
  /\ tcn_pair_stall_check (tcn_real true 2) (repeat 1 138) [] (fst (tcn_one_run (tcn_real true 2) 69 138)) = true.
Proof. vm_compute. repeat split; reflexivity. Qed.

Lemma tcn_stall_need_real fx T : tcn_stall_need (tcn_real fx T) = 2 * (67 + T).
Proof.
  unfold tcn_stall_need, tcn_real; cbn [cf_in cf_out cf_T]. unfold tcn_cap_in, tcn_cap_out. lia.
Qed.
