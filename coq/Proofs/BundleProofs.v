(* BundleProofs.v - the bundle codec round-trips: decode (encode b ++ r) = (b, r) for every
   well-formed, valid bundle; every component consumes exactly its own encoding. *)
From DTN Require Import Base Cbor CborProofs Crc Eid EidProofs Bundle BundleWf.
From Coq Require Import ZifyN ZifyNat ZifyBool.
Open Scope N_scope.

Ltac split_andb :=
  repeat match goal with
         | H : _ && _ = true |- _ => apply andb_prop in H; destruct H
         end.

Ltac rd :=
  first [ rewrite read_uint_enc by (assumption || reflexivity)
        | rewrite read_arr_enc by (assumption || reflexivity)
        | rewrite read_maplen_enc by (assumption || reflexivity)
        | rewrite read_f64_enc by (assumption || reflexivity)
        | rewrite read_bstr_enc by (assumption || reflexivity) ];
  cbn [bind].

(* decide closed N comparisons in the goal (type-code dispatch) without unfolding anything else *)
Ltac tcred :=
  repeat match goal with
         | |- context [N.eqb ?a ?b] =>
             let v := eval vm_compute in (N.eqb a b) in
             lazymatch v with
             | true => change (N.eqb a b) with true
             | false => change (N.eqb a b) with false
             end
         end; cbv iota; cbn [negb orb andb Bool.eqb]; cbv iota.

Lemma eid_ok_parts e : eid_ok e = true -> eid_wf e = true /\ eid_valid e = true.
Proof. unfold eid_ok. intros H. apply andb_prop in H. exact H. Qed.

Lemma enc_eid_ok e : eid_ok e = true -> enc_eid e = Some (enc_eid_body e).
Proof. intros H. apply eid_ok_parts in H. destruct H as [_ Hv]. unfold enc_eid. rewrite Hv. reflexivity. Qed.

Lemma dec_eid_body e r : eid_ok e = true -> dec_eid (enc_eid_body e ++ r) = Ok e r.
Proof. intros H. apply dec_eid_enc; [apply eid_ok_parts in H; tauto|apply enc_eid_ok, H]. Qed.

(* ---------------- map-valued blocks ---------------- *)
Lemma map_set_fresh k v acc :
  existsb (fun kv' => eid_eqb k (fst kv')) acc = false -> map_set k v acc = acc ++ [(k, v)].
Proof.
  induction acc as [|[k' v'] acc IH]; cbn [existsb map_set app fst]; intros H; [reflexivity|].
  apply orb_false_iff in H. destruct H as [H1 H2]. rewrite H1, (IH H2). reflexivity.
Qed.

Fixpoint enc_pairs_body (encv : N -> list N) (l : list (eid * N)) : list N :=
  match l with
  | [] => []
  | (k, v) :: l => enc_eid_body k ++ encv v ++ enc_pairs_body encv l
  end.

Lemma enc_pairs_ok encv l : pairs_wf l = true -> enc_pairs encv l = Some (enc_pairs_body encv l).
Proof.
  induction l as [|[k v] l IH]; cbn [pairs_wf forallb enc_pairs enc_pairs_body fst snd]; intros H; [reflexivity|].
  split_andb. rewrite enc_eid_ok by assumption. cbn [obind]. unfold pairs_wf in IH. rewrite IH by assumption. reflexivity.
Qed.

Lemma enc_pairs_body_length encv l : (length l <= length (enc_pairs_body encv l))%nat.
Proof.
  induction l as [|[k v] l IH]; cbn [enc_pairs_body length]; [lia|].
  rewrite !app_length. pose proof (enc_eid_body_nonempty k). lia.
Qed.

Lemma nlen_cons {A} (x : A) l : nlen (x :: l) =? 0 = false.
Proof. unfold nlen. cbn [length]. lia. Qed.
Lemma nlen_cons_pred {A} (x : A) l : nlen (x :: l) - 1 = nlen l.
Proof. unfold nlen. cbn [length]. lia. Qed.

Lemma existsb_app {A} (f : A -> bool) a b : existsb f (a ++ b) = existsb f a || existsb f b.
Proof. induction a; cbn; [reflexivity|]. rewrite IHa, orb_assoc. reflexivity. Qed.

Lemma eid_eqb_sym a b : eid_eqb a b = eid_eqb b a.
Proof.
  destruct (eid_eqb a b) eqn:E.
  - apply eid_eqb_eq in E. subst. symmetry. apply eid_eqb_refl.
  - destruct (eid_eqb b a) eqn:E2; [|reflexivity]. apply eid_eqb_eq in E2. subst. rewrite eid_eqb_refl in E. discriminate.
Qed.

Section Pairs.
Variable readv : list N -> res N.
Variable encv : N -> list N.
Hypothesis Hrt : forall v r, u64_ok v = true -> readv (encv v ++ r) = Ok v r.

(* keys of l do not occur in acc *)
Fixpoint fresh_for (acc l : list (eid * N)) : bool :=
  match l with
  | [] => true
  | kv :: l => negb (existsb (fun kv' => eid_eqb (fst kv) (fst kv')) acc) && fresh_for acc l
  end.

Lemma fresh_for_snoc acc k v l :
  fresh_for acc l = true -> negb (existsb (fun kv' => eid_eqb k (fst kv')) l) = true ->
  fresh_for (acc ++ [(k, v)]) l = true.
Proof.
  induction l as [|[k' v'] l IH]; cbn [fresh_for existsb fst]; intros H1 H2; [reflexivity|].
  split_andb. apply negb_true_iff in H2. apply orb_false_iff in H2. destruct H2 as [H2a H2b].
  apply andb_true_intro. split.
  - rewrite existsb_app. cbn [existsb fst]. apply negb_true_iff. apply orb_false_iff. split.
    + apply negb_true_iff. assumption.
    + rewrite orb_false_r. rewrite eid_eqb_sym. exact H2a.
  - apply IH; [assumption|]. apply negb_true_iff. exact H2b.
Qed.

Lemma dec_pairs_enc l : forall fuel acc r,
  pairs_wf l = true -> keys_nodup l = true -> fresh_for acc l = true -> (length l <= fuel)%nat ->
  dec_pairs fuel readv (nlen l) acc (enc_pairs_body encv l ++ r) = Ok (acc ++ l) r.
Proof.
  induction l as [|[k v] l IH]; intros fuel acc r Hwf Hnd Hfr Hfuel.
  - destruct fuel; cbn; rewrite app_nil_r; reflexivity.
  - destruct fuel as [|fuel]; [cbn in Hfuel; lia|].
    cbn [dec_pairs]. rewrite nlen_cons.
    cbn [pairs_wf forallb fst snd] in Hwf. cbn [keys_nodup fst] in Hnd. cbn [fresh_for fst] in Hfr. split_andb.
    cbn [enc_pairs_body]. rewrite <- !app_assoc.
    rewrite dec_eid_body by assumption. cbn [bind].
    rewrite Hrt by assumption. cbn [bind].
    rewrite nlen_cons_pred.
    rewrite map_set_fresh by (apply negb_true_iff; assumption).
    rewrite IH; [rewrite <- app_assoc; reflexivity|assumption|assumption| |cbn in Hfuel; lia].
    apply fresh_for_snoc; assumption.
Qed.
End Pairs.

Lemma fresh_for_nil l : fresh_for [] l = true.
Proof. induction l; cbn; [reflexivity|assumption]. Qed.

(* ---------------- extension block values ---------------- *)
Definition inner_of (v : ext) : list N :=
  match v with
  | XPayload d => d
  | XGeneric _ d => d
  | XPrev e => enc_eid_body e
  | XAge n => enc_uint n
  | XHop l c => enc_arr 2 ++ enc_uint l ++ enc_uint c
  | XSpray n => enc_uint n
  | XDtlsr id ts peers => enc_arr 3 ++ enc_eid_body id ++ enc_uint ts ++ enc_maplen (nlen peers) ++ enc_pairs_body enc_uint peers
  | XProphet preds => enc_maplen (nlen preds) ++ enc_pairs_body enc_f64 preds
  | XSig pk sg => enc_arr 2 ++ enc_bstr pk ++ enc_bstr sg
  end.

Lemma enc_ext_inner_ok v : ext_wf v = true -> enc_ext_inner v = Some (inner_of v).
Proof.
  destruct v; cbn [ext_wf enc_ext_inner inner_of]; intros H; try reflexivity; split_andb.
  - apply enc_eid_ok. assumption.
  - rewrite enc_eid_ok by assumption. cbn [obind]. rewrite enc_pairs_ok by assumption. reflexivity.
  - rewrite enc_pairs_ok by assumption. reflexivity.
Qed.


Lemma u64_of_small n : n <= 4294967295 -> u64_ok n = true.
Proof. unfold u64_ok. lia. Qed.

Lemma hop_u64 n : n <=? 255 = true -> u64_ok n = true.
Proof. unfold u64_ok. lia. Qed.

(* number of map entries is bounded by the inner encoding's length, which fits *)
Lemma nlen_pairs_u64 encv (l : list (eid * N)) pre :
  len_ok (pre ++ enc_pairs_body encv l) = true -> u64_ok (nlen l) = true.
Proof.
  unfold len_ok, u64_ok, nlen, max_raw. rewrite app_length. pose proof (enc_pairs_body_length encv l). lia.
Qed.

Lemma len_ok_sub a b : len_ok (a ++ b) = true -> len_ok b = true.
Proof. unfold len_ok, nlen, max_raw. rewrite app_length. lia. Qed.

Theorem dec_ext_enc v r :
  ext_wf v = true -> len_ok (inner_of v) = true ->
  dec_ext (ext_type v) (enc_bstr (inner_of v) ++ r) = Ok v r.
Proof.
  intros Hwf Hlen. unfold dec_ext. rewrite read_bstr_enc by exact Hlen. cbn [bind].
  destruct v; cbn [ext_type inner_of ext_wf] in *; split_andb.
  - tcred. reflexivity.
  - tcred. rewrite <- (app_nil_r (enc_eid_body e)). rewrite dec_eid_body by assumption. reflexivity.
  - tcred. rewrite <- (app_nil_r (enc_uint n)). rd. reflexivity.
  - tcred. rewrite <- (app_nil_r (enc_uint count)), <- ?app_assoc.
    rd. tcred.
    rewrite read_uint_enc by (apply hop_u64; assumption). cbn [bind].
    replace (255 <? limit) with false by lia.
    rewrite read_uint_enc by (apply hop_u64; assumption). cbn [bind].
    replace (255 <? count) with false by lia. reflexivity.
  - tcred. rewrite <- (app_nil_r (enc_uint n)). rd. reflexivity.
  - tcred. rewrite <- (app_nil_r (enc_pairs_body enc_uint peers)), <- ?app_assoc.
    rd. tcred.
    rewrite dec_eid_body by assumption. cbn [bind]. rd.
    assert (Hn : u64_ok (nlen peers) = true).
    { eapply (nlen_pairs_u64 enc_uint peers (enc_arr 3 ++ enc_eid_body id ++ enc_uint ts ++ enc_maplen (nlen peers))).
      rewrite <- ?app_assoc. exact Hlen. }
    rewrite read_maplen_enc by exact Hn. cbn [bind].
    rewrite (dec_pairs_enc read_uint enc_uint read_uint_enc); try assumption.
    + cbn [bind app]. reflexivity.
    + apply fresh_for_nil.
    + rewrite app_nil_r. pose proof (enc_pairs_body_length enc_uint peers). lia.
  - tcred. rewrite <- (app_nil_r (enc_pairs_body enc_f64 preds)), <- ?app_assoc.
    assert (Hn : u64_ok (nlen preds) = true).
    { eapply (nlen_pairs_u64 enc_f64 preds). exact Hlen. }
    rewrite read_maplen_enc by exact Hn. cbn [bind].
    rewrite (dec_pairs_enc read_f64 enc_f64 read_f64_enc); try assumption.
    + cbn [bind app]. reflexivity.
    + apply fresh_for_nil.
    + rewrite app_nil_r. pose proof (enc_pairs_body_length enc_f64 preds). lia.
  - tcred. rewrite <- (app_nil_r (enc_bstr sg)), <- ?app_assoc.
    rd. tcred. rd. rd. reflexivity.
  - (* generic *)
    unfold known_type in *. 
    repeat match goal with H : negb _ = true |- _ => apply negb_true_iff in H end.
    repeat match goal with H : _ || _ = false |- _ => apply orb_false_iff in H; destruct H end.
    repeat match goal with H : (tc =? ?k) = false |- _ => rewrite H; clear H end.
    reflexivity.
Qed.

(* ---------------- CRC field ---------------- *)
Lemma consumed_app enc r : consumed (enc ++ r) r = enc.
Proof.
  unfold consumed. rewrite app_length. replace (length enc + length r - length r)%nat with (length enc) by lia.
  rewrite firstn_app, Nat.sub_diag, firstn_all. cbn. apply app_nil_r.
Qed.

Definition crc_bytes (t : N) (body : list N) : list N :=
  match crc_len t with
  | Some len => be_encode len (crc_value t (body ++ enc_bstr (zeros len)))
  | None => []
  end.
Definition crc_field (t : N) (body : list N) : list N :=
  if t =? 0 then [] else enc_bstr (crc_bytes t body).

Lemma add_crc_ok t body : crc_type_ok t = true -> add_crc t body = Some (body ++ crc_field t body).
Proof.
  unfold crc_type_ok, add_crc, crc_field, crc_bytes. intros H.
  assert (Ht : t = 0 \/ t = 1 \/ t = 2) by lia. destruct Ht as [-> | [-> | ->]]; cbn; rewrite ?app_nil_r; reflexivity.
Qed.

Lemma zeros_length k : length (zeros k) = k.
Proof. apply repeat_length. Qed.

Lemma enc_bstr_same_head a b : length a = length b -> enc_bstr a = head_bytes mBytes (nlen a) ++ a /\ enc_bstr b = head_bytes mBytes (nlen a) ++ b.
Proof. intros H. unfold enc_bstr, nlen. rewrite H. split; reflexivity. Qed.

Lemma check_crc_ok t body r :
  t = 1 \/ t = 2 ->
  check_crc t ((body ++ crc_field t body) ++ r) (crc_field t body ++ r) = Ok tt r.
Proof.
  intros Ht. unfold check_crc, crc_field.
  assert (Hlen : exists len, crc_len t = Some len /\ (len <= 4)%nat /\ (t =? 0) = false).
  { destruct Ht as [-> | ->]; [exists 2%nat|exists 4%nat]; repeat split; lia. }
  destruct Hlen as (len & Hcl & Hle & Hz). rewrite Hz.
  set (cv := crc_bytes t body).
  assert (Hcvl : length cv = len) by (subst cv; unfold crc_bytes; rewrite Hcl; apply be_encode_length).
  rewrite read_bstr_enc by (unfold len_ok, nlen, max_raw; lia). cbn [bind].
  rewrite Hcl, Hcvl, Nat.eqb_refl. cbn [negb].
  rewrite consumed_app.
  destruct (enc_bstr_same_head cv (zeros len)) as [He1 He2]; [rewrite zeros_length; exact Hcvl|].
  assert (Hdata : firstn (length (body ++ enc_bstr cv) - len) (body ++ enc_bstr cv) ++ zeros len
                  = body ++ enc_bstr (zeros len)).
  { rewrite He1, He2. rewrite !app_assoc.
    rewrite app_length, Hcvl. replace (length (body ++ head_bytes mBytes (nlen cv)) + len - len)%nat with (length (body ++ head_bytes mBytes (nlen cv))) by lia.
    rewrite firstn_app, Nat.sub_diag, firstn_all. cbn. rewrite app_nil_r. reflexivity. }
  rewrite Hdata. subst cv. unfold crc_bytes. rewrite Hcl. rewrite bytes_eqb_refl. reflexivity.
Qed.

(* ---------------- canonical blocks ---------------- *)
Definition cblock_body (c : cblock) : list N :=
  enc_arr (if c_crc c =? 0 then 5 else 6) ++ enc_uint (c_type c) ++ enc_uint (c_num c) ++ enc_uint (c_flags c)
  ++ enc_uint (c_crc c) ++ enc_bstr (inner_of (c_val c)).
Definition cblock_bytes (c : cblock) : list N := cblock_body c ++ crc_field (c_crc c) (cblock_body c).

Lemma cblock_wf_parts c : cblock_wf c = true ->
  u64_ok (c_num c) = true /\ u64_ok (c_flags c) = true /\ crc_type_ok (c_crc c) = true /\ ext_wf (c_val c) = true
  /\ len_ok (inner_of (c_val c)) = true.
Proof.
  unfold cblock_wf. intros H. split_andb. rewrite enc_ext_inner_ok in * by assumption. tauto.
Qed.

Lemma enc_cblock_ok c : cblock_wf c = true -> enc_cblock c = Some (cblock_bytes c).
Proof.
  intros H. apply cblock_wf_parts in H. destruct H as (_ & _ & Hc & He & _).
  unfold enc_cblock. rewrite enc_ext_inner_ok by exact He. cbn [obind].
  rewrite add_crc_ok by exact Hc. reflexivity.
Qed.

Lemma ext_type_u64 v : ext_wf v = true -> u64_ok (ext_type v) = true.
Proof. destruct v; cbn [ext_type ext_wf]; intros H; try reflexivity. split_andb. assumption. Qed.

Theorem dec_cblock_enc c r : cblock_wf c = true -> dec_cblock (cblock_bytes c ++ r) = Ok c r.
Proof.
  intros H. apply cblock_wf_parts in H. destruct H as (Hn & Hf & Hc & He & Hl).
  pose proof (ext_type_u64 _ He) as Ht.
  unfold crc_type_ok in Hc.
  assert (Hcrc : c_crc c = 0 \/ (c_crc c = 1 \/ c_crc c = 2)) by lia.
  assert (Hcu : u64_ok (c_crc c) = true) by (unfold u64_ok; lia).
  unfold dec_cblock, cblock_bytes. unfold cblock_body at 1. unfold c_type in *.
  destruct c as [num fl crc v]. cbn [c_num c_flags c_crc c_val] in *.
  destruct Hcrc as [-> | Hcrc].
  - cbn [N.eqb]. unfold crc_field. cbn [N.eqb]. rewrite app_nil_r. rewrite <- !app_assoc.
    rd. tcred. rd. rd. rd. rd. tcred.
    rewrite dec_ext_enc by assumption. cbn [bind]. reflexivity.
  - assert (Hz : (crc =? 0) = false) by lia. rewrite Hz.
    rewrite <- !app_assoc.
    rd. tcred. rd. rd. rd. rd. replace (2 <? crc) with false by lia. rewrite Hz. cbn [negb Bool.eqb].
    rewrite dec_ext_enc by assumption. cbn [bind].
    rewrite (app_assoc (cblock_body _) (crc_field _ _) r).
    rewrite check_crc_ok by exact Hcrc. cbn [bind]. reflexivity.
Qed.

Lemma cblock_bytes_first c : exists b rest, cblock_bytes c = b :: rest /\ b <> 255.
Proof.
  unfold cblock_bytes, cblock_body. destruct (c_crc c =? 0).
  - exists 133. eexists. split; [reflexivity|discriminate].
  - exists 134. eexists. split; [reflexivity|discriminate].
Qed.

(* ---------------- primary block ---------------- *)
Definition primary_body (p : primary) : list N :=
  enc_arr (8 + (if has (p_flags p) F_FRAG then 2 else 0) + (if p_crc p =? 0 then 0 else 1))
  ++ enc_uint 7 ++ enc_uint (p_flags p) ++ enc_uint (p_crc p)
  ++ enc_eid_body (p_dst p) ++ enc_eid_body (p_src p) ++ enc_eid_body (p_rpt p)
  ++ enc_arr 2 ++ enc_uint (p_time p) ++ enc_uint (p_seq p) ++ enc_uint (p_life p)
  ++ (if has (p_flags p) F_FRAG then enc_uint (p_off p) ++ enc_uint (p_total p) else []).
Definition primary_bytes (p : primary) : list N := primary_body p ++ crc_field (p_crc p) (primary_body p).

Lemma enc_primary_ok p : primary_wf p = true -> enc_primary p = Some (primary_bytes p).
Proof.
  unfold primary_wf. intros H. split_andb. unfold enc_primary.
  rewrite !enc_eid_ok by assumption. cbn [obind]. rewrite add_crc_ok by assumption.
  unfold primary_bytes, primary_body. rewrite <- !app_assoc. reflexivity.
Qed.

Theorem dec_primary_enc p r : primary_wf p = true -> dec_primary (primary_bytes p ++ r) = Ok p r.
Proof.
  unfold primary_wf. intros H. split_andb.
  match goal with H : crc_type_ok _ = true |- _ => unfold crc_type_ok in H; rename H into Hc end.
  assert (Hcrc : p_crc p = 0 \/ (p_crc p = 1 \/ p_crc p = 2)) by lia.
  assert (Hcu : u64_ok (p_crc p) = true) by (unfold u64_ok; lia).
  match goal with H : has _ F_FRAG || _ = true |- _ => rename H into Hfr end.
  unfold dec_primary, primary_bytes. unfold primary_body at 1.
  destruct p as [fl crc dst src rpt tm sq life off tot]. cbn [p_flags p_crc p_dst p_src p_rpt p_time p_seq p_life p_off p_total] in *.
  destruct (has fl F_FRAG) eqn:Efr; destruct Hcrc as [-> | Hcrc].
  - (* fragment, no CRC : 10 elements *)
    cbn [N.eqb N.add]. unfold crc_field. cbn [N.eqb]. rewrite app_nil_r. rewrite <- !app_assoc.
    rd. tcred. rd. tcred. rd. rd. tcred.
    rewrite dec_eid_body by assumption. cbn [bind]. rewrite dec_eid_body by assumption. cbn [bind].
    rewrite dec_eid_body by assumption. cbn [bind]. rd. tcred. rd. rd. rd. rd. rd. cbn [fst snd]. reflexivity.
  - (* fragment, CRC : 11 elements *)
    assert (Hz : (crc =? 0) = false) by lia. rewrite Hz. cbn [N.add]. rewrite <- !app_assoc.
    rd. tcred. rd. tcred. rd. rd. replace (2 <? crc) with false by lia. rewrite Hz. cbn [negb Bool.eqb].
    rewrite dec_eid_body by assumption. cbn [bind]. rewrite dec_eid_body by assumption. cbn [bind].
    rewrite dec_eid_body by assumption. cbn [bind]. rd. tcred. rd. rd. rd. rd. rd. cbn [fst snd].
    rewrite (app_assoc (primary_body _) (crc_field _ _) r).
    rewrite check_crc_ok by exact Hcrc. cbn [bind]. reflexivity.
  - (* whole bundle, no CRC : 8 elements *)
    cbn [orb] in Hfr. apply andb_prop in Hfr. destruct Hfr as [Ho Ht]. apply N.eqb_eq in Ho, Ht. subst off tot.
    cbn [N.eqb N.add]. unfold crc_field. cbn [N.eqb]. rewrite !app_nil_r. rewrite <- !app_assoc.
    rd. tcred. rd. tcred. rd. rd. tcred.
    rewrite dec_eid_body by assumption. cbn [bind]. rewrite dec_eid_body by assumption. cbn [bind].
    rewrite dec_eid_body by assumption. cbn [bind]. rd. tcred. rd. rd.
    rewrite <- (app_nil_r (enc_uint life)), <- ?app_assoc. cbn [app]. 
    rewrite read_uint_enc by assumption. cbn [bind fst snd]. reflexivity.
  - (* whole bundle, CRC : 9 elements *)
    cbn [orb] in Hfr. apply andb_prop in Hfr. destruct Hfr as [Ho Ht]. apply N.eqb_eq in Ho, Ht. subst off tot.
    assert (Hz : (crc =? 0) = false) by lia. rewrite Hz. cbn [N.add]. rewrite !app_nil_r. rewrite <- !app_assoc.
    rd. tcred. rd. tcred. rd. rd. replace (2 <? crc) with false by lia. rewrite Hz. cbn [negb Bool.eqb].
    rewrite dec_eid_body by assumption. cbn [bind]. rewrite dec_eid_body by assumption. cbn [bind].
    rewrite dec_eid_body by assumption. cbn [bind]. rd. tcred. rd. rd. rd. cbn [fst snd].
    rewrite (app_assoc (primary_body _) (crc_field _ _) r).
    rewrite check_crc_ok by exact Hcrc. cbn [bind]. reflexivity.
Qed.

(* ---------------- block list and bundle ---------------- *)
Fixpoint blocks_bytes (l : list cblock) : list N :=
  match l with [] => [] | c :: l => cblock_bytes c ++ blocks_bytes l end.

Lemma enc_blocks_ok l : forallb cblock_wf l = true -> enc_blocks l = Some (blocks_bytes l).
Proof.
  induction l as [|c l IH]; cbn [forallb enc_blocks blocks_bytes]; intros H; [reflexivity|].
  apply andb_prop in H. destruct H as [Hc Hl]. rewrite enc_cblock_ok by exact Hc. cbn [obind].
  rewrite IH by exact Hl. reflexivity.
Qed.

Lemma dec_blocks_enc l : forall fuel acc r,
  forallb cblock_wf l = true -> (length l < fuel)%nat ->
  dec_blocks fuel (blocks_bytes l ++ 255 :: r) acc = Some (acc ++ l, r).
Proof.
  induction l as [|c l IH]; intros fuel acc r Hwf Hfuel.
  - destruct fuel; [cbn in Hfuel; lia|]. cbn. rewrite app_nil_r. reflexivity.
  - destruct fuel as [|fuel]; [cbn in Hfuel; lia|].
    cbn [forallb] in Hwf. apply andb_prop in Hwf. destruct Hwf as [Hc Hl].
    cbn [blocks_bytes]. rewrite <- app_assoc.
    destruct (cblock_bytes_first c) as (b & rest & Heq & Hne).
    cbn [dec_blocks].
    assert (Hm : starts_with 255 (cblock_bytes c ++ blocks_bytes l ++ 255 :: r) = false).
    { rewrite Heq. cbn [app starts_with]. apply N.eqb_neq. exact Hne. }
    rewrite Hm. rewrite dec_cblock_enc by exact Hc.
    rewrite IH; [rewrite <- app_assoc; reflexivity|exact Hl|cbn in Hfuel; lia].
Qed.

Lemma blocks_bytes_length l : (length l <= length (blocks_bytes l))%nat.
Proof.
  induction l as [|c l IH]; cbn [blocks_bytes length]; [lia|].
  rewrite app_length. destruct (cblock_bytes_first c) as (b & rest & Heq & _). rewrite Heq. cbn [length]. lia.
Qed.

Definition bundle_bytes (b : bundle) : list N :=
  159 :: primary_bytes (b_pri b) ++ blocks_bytes (b_blocks b) ++ [255].

Lemma enc_bundle_ok b : bundle_wf b = true -> enc_bundle b = Some (bundle_bytes b).
Proof.
  unfold bundle_wf. intros H. apply andb_prop in H. destruct H as [Hp Hb].
  unfold enc_bundle. rewrite enc_primary_ok by exact Hp. cbn [obind].
  rewrite enc_blocks_ok by exact Hb. reflexivity.
Qed.

(* The round trip: a well-formed bundle that passes CheckValid is decoded from its own encoding
   to itself, consuming exactly the encoding. *)
Theorem dec_bundle_enc now b r :
  bundle_wf b = true -> check_valid now b = true ->
  dec_bundle now (bundle_bytes b ++ r) = Some (b, r).
Proof.
  unfold bundle_wf. intros H Hv. apply andb_prop in H. destruct H as [Hp Hb].
  unfold dec_bundle, bundle_bytes. cbn [app starts_with tl]. rewrite N.eqb_refl. rewrite <- !app_assoc.
  rewrite dec_primary_enc by exact Hp. cbn [nobrk].
  cbn [app]. rewrite dec_blocks_enc; [|exact Hb|].
  - cbn [app]. destruct b as [p bl]. cbn [b_pri b_blocks] in *. rewrite Hv. reflexivity.
  - rewrite app_length. cbn [length]. pose proof (blocks_bytes_length (b_blocks b)). lia.
Qed.
