(* End to end: Fragment (Model/Frag.v) -> MTCP framing and server loop (Model/Mtcp.v) parsing with the bundle
   decoder (Model/Bundle.v) -> ReassembleFragments (Model/Reasm.v): the original bundle. *)
From Coq Require Import Permutation.
From DTN Require Import Base Cbor Crc Eid Bundle BundleWf BundleProofs BundleStreamProofs Reasm Frag FragProofs Mtcp MtcpProofs MtcpBundles.
From Coq Require Import ZifyN ZifyNat ZifyBool.
Open Scope N_scope.

Lemma handed_up_sends (l : list bundle) : handed_up (map Some l) = l.
Proof. induction l as [|x l IH]; [reflexivity|]. cbn [map handed_up flat_map app] in *. f_equal. exact IH. Qed.

Lemma frag_over_mtcp : forall now b mtu fs,
  bundle_wf b = true -> check_valid now b = true -> has (p_flags (b_pri b)) F_FRAG = false -> mtu < 2 ^ 64 ->
  fg_fragment now b mtu = FOk fs ->
  mtcp_server (mb_parse now) (mtcp_client_stream (map mb_ev (map Some fs))) = fs
  /\ (fs = [b] \/ forall pi, Permutation pi fs -> fg_reassemble now pi = ROk b).
Proof.
  intros now b mtu fs Hwf Hv Hnf Hm Hf. split; [|exact (fragment_invertible now b mtu fs Hwf Hv Hnf Hf)].
  rewrite <- (handed_up_sends fs) at 2. apply mb_stream.
  destruct (fragment_sound now b mtu fs Hwf Hv Hf) as [[-> Hlen] | (pl & _ & _ & _ & Hall & _)].
  - constructor; [|constructor]. cbn [mb_ok]. split; [split; assumption|lia].
  - rewrite Forall_forall in Hall. apply Forall_forall. intros o Ho. apply in_map_iff in Ho.
    destruct Ho as (f & <- & Hin). destruct (Hall f Hin) as (Hlen & Hfw & Hfv & _).
    cbn [mb_ok]. split; [split; assumption|lia].
Qed.
