(* CrcProofs.v - check values, byte/bit form agreement, linearity, and the burst theorem:
   two equal-length messages that differ by a non-zero bit pattern confined to a window of at
   most w consecutive bits (in the CRC's own bit order) have different CRCs. *)
From DTN Require Import Base Crc.
From Coq Require Import ZifyN ZifyNat ZifyBool.
Open Scope N_scope.

Example crc16_check : crc16_x25 [49;50;51;52;53;54;55;56;57] = 36974.   (* 0x906E *)
Proof. vm_compute. reflexivity. Qed.
Example crc32c_check : crc32c [49;50;51;52;53;54;55;56;57] = 3808858755.  (* 0xE3069283 *)
Proof. vm_compute. reflexivity. Qed.

Lemma crc_run_app P s a b : crc_run P s (a ++ b) = crc_run P (crc_run P s a) b.
Proof. revert s; induction a as [|x a IH]; intros s; cbn; [reflexivity|apply IH]. Qed.

Lemma crc_update_bits P bs : forall s, crc_update P s bs = crc_run P s (bytes_bits bs).
Proof.
  induction bs as [|b bs IH]; intros s; cbn [crc_update bytes_bits]; [reflexivity|].
  rewrite crc_run_app. apply IH.
Qed.

Section CRC.
Variable w : N.           (* width, >= 1 *)
Variable P : N.           (* reflected polynomial *)
Hypothesis Hw : 1 <= w.
Hypothesis HPtop : N.testbit P (w - 1) = true.
Hypothesis HPlt : P < 2 ^ w.

Notation A := (crc_A P).
Notation stepb := (crc_stepb P).
Notation run := (crc_run P).

Fixpoint word (bs : list bool) : N :=
  match bs with [] => 0 | b :: bs => N.b2n b + 2 * word bs end.

Lemma pow2_pos k : 0 < 2 ^ k.
Proof. apply N.neq_0_lt_0, N.pow_nonzero; lia. Qed.

Lemma lt_pow2_testbit_false n k : n < 2 ^ k -> forall j, k <= j -> N.testbit n j = false.
Proof.
  intros H j Hj. destruct (N.eq_dec n 0) as [->|Hn]; [apply N.bits_0|].
  apply N.bits_above_log2. apply N.log2_lt_pow2 in H; lia.
Qed.

Lemma A_small_inv t u : t < 2 ^ w -> A t = u -> u < 2 ^ (w - 1) -> t = 2 * u.
Proof.
  intros Ht HA Hu. unfold crc_A in HA. destruct (N.odd t) eqn:Hodd.
  - exfalso. assert (Hb : N.testbit u (w - 1) = true).
    { rewrite <- HA, N.lxor_spec, HPtop, N.shiftr_spec by lia.
      replace (w - 1 + 1) with w by lia.
      rewrite (lt_pow2_testbit_false t w Ht w) by lia. reflexivity. }
    rewrite (lt_pow2_testbit_false u (w-1) Hu (w-1)) in Hb by lia. discriminate.
  - rewrite N.shiftr_div_pow2 in HA. change (2^1) with 2 in HA.
    rewrite <- N.negb_even in Hodd. apply negb_false_iff in Hodd.
    apply N.even_spec in Hodd. destruct Hodd as [k ->].
    rewrite N.mul_comm, N.div_mul in HA by lia. lia.
Qed.

Lemma lxor_lt a b k : a < 2 ^ k -> b < 2 ^ k -> N.lxor a b < 2 ^ k.
Proof.
  intros Ha Hb. destruct (N.eq_dec (N.lxor a b) 0) as [->|Hn]; [apply pow2_pos|].
  assert (Hk : 0 < k).
  { destruct (N.eq_dec k 0) as [->|]; [|lia]. exfalso. apply Hn.
    change (2 ^ 0) with 1 in *. assert (a = 0) as -> by lia. assert (b = 0) as -> by lia. reflexivity. }
  apply N.log2_lt_pow2; [lia|]. eapply N.le_lt_trans; [apply N.log2_lxor|].
  apply N.max_lub_lt.
  - destruct (N.eq_dec a 0) as [->|]; [cbn; exact Hk|]. apply N.log2_lt_pow2; lia.
  - destruct (N.eq_dec b 0) as [->|]; [cbn; exact Hk|]. apply N.log2_lt_pow2; lia.
Qed.

Lemma shiftr1_lt t : t < 2 ^ w -> N.shiftr t 1 < 2 ^ (w - 1).
Proof.
  intros Ht. rewrite N.shiftr_div_pow2. change (2^1) with 2.
  apply N.div_lt_upper_bound; [lia|]. rewrite <- N.pow_succ_r'. replace (N.succ (w-1)) with w by lia. exact Ht.
Qed.

Lemma A_lt t : t < 2 ^ w -> A t < 2 ^ w.
Proof.
  intros Ht. unfold crc_A.
  assert (Hs : N.shiftr t 1 < 2 ^ w).
  { eapply N.lt_le_trans; [apply shiftr1_lt, Ht|]. apply N.pow_le_mono_r; lia. }
  destruct (N.odd t); [|exact Hs]. apply lxor_lt; assumption.
Qed.

Lemma b2n_lt (b : bool) : N.b2n b < 2 ^ w.
Proof.
  assert (2 ^ 1 <= 2 ^ w) by (apply N.pow_le_mono_r; lia). change (2^1) with 2 in *.
  destruct b; cbn; lia.
Qed.

Lemma stepb_lt s b : s < 2 ^ w -> stepb s b < 2 ^ w.
Proof. intros Hs. unfold crc_stepb. apply A_lt, lxor_lt; [exact Hs|apply b2n_lt]. Qed.

Lemma run_lt bs : forall s, s < 2 ^ w -> run s bs < 2 ^ w.
Proof. induction bs as [|b bs IH]; intros s Hs; cbn; [exact Hs|]. apply IH, stepb_lt, Hs. Qed.

Lemma word_lt bs : word bs < 2 ^ (N.of_nat (length bs)).
Proof.
  induction bs as [|b bs IH]; [cbn; lia|].
  cbn [word length]. rewrite Nat2N.inj_succ, N.pow_succ_r'. destruct b; cbn [N.b2n]; lia.
Qed.

(* a run of at most w steps that ends in state 0 started in the state spelled by the input *)
Lemma run_zero_inv bs : forall s, s < 2 ^ w -> N.of_nat (length bs) <= w ->
  run s bs = 0 -> s = word bs.
Proof.
  induction bs as [|b bs IH]; intros s Hs Hlen Hrun; cbn [crc_run word] in *.
  - exact Hrun.
  - cbn [length] in Hlen. rewrite Nat2N.inj_succ in Hlen.
    assert (Hx : N.lxor s (N.b2n b) < 2 ^ w) by (apply lxor_lt; [exact Hs|apply b2n_lt]).
    assert (Hst : stepb s b < 2 ^ w) by (apply A_lt; exact Hx).
    specialize (IH (stepb s b) Hst ltac:(lia) Hrun).
    assert (Hsmall : word bs < 2 ^ (w - 1)).
    { eapply N.lt_le_trans; [apply word_lt|]. apply N.pow_le_mono_r; lia. }
    unfold crc_stepb in IH. apply A_small_inv in IH; [|exact Hx|exact Hsmall].
    assert (s = N.lxor (2 * word bs) (N.b2n b)) as ->.
    { rewrite <- IH, N.lxor_assoc, N.lxor_nilpotent, N.lxor_0_r. reflexivity. }
    destruct b; cbn [N.b2n].
    + rewrite <- N.add_nocarry_lxor; [lia|].
      change 1 with (N.ones 1). rewrite N.land_ones. change (2 ^ 1) with 2.
      rewrite N.mul_comm. apply N.mod_mul. lia.
    + rewrite N.lxor_0_r. lia.
Qed.

Theorem burst_detected bs : N.of_nat (length bs) <= w -> run 0 bs = 0 -> word bs = 0.
Proof. intros Hl Hr. symmetry. apply run_zero_inv; [apply pow2_pos | exact Hl | exact Hr]. Qed.

(* ---- linearity over xor ---- *)
Lemma odd_lxor x y : N.odd (N.lxor x y) = xorb (N.odd x) (N.odd y).
Proof. rewrite <- !N.bit0_odd, N.lxor_spec. reflexivity. Qed.

Ltac xor_solve :=
  apply N.bits_inj; intros ?i; rewrite ?N.lxor_spec, ?N.bits_0;
  repeat match goal with |- context [N.testbit ?a ?i] => destruct (N.testbit a i) end; reflexivity.

Lemma A_lxor' x y : A (N.lxor x y) = N.lxor (A x) (A y).
Proof.
  unfold crc_A. rewrite odd_lxor, N.shiftr_lxor.
  destruct (N.odd x), (N.odd y); cbn [xorb]; xor_solve.
Qed.

Lemma A_0 : A 0 = 0.
Proof. reflexivity. Qed.

Fixpoint xorbits (a b : list bool) : list bool :=
  match a, b with
  | x :: a, y :: b => xorb x y :: xorbits a b
  | _, _ => []
  end.

Lemma b2n_xorb x y : N.b2n (xorb x y) = N.lxor (N.b2n x) (N.b2n y).
Proof. destruct x, y; reflexivity. Qed.

Lemma run_lxor a : forall b s t, length a = length b ->
  run (N.lxor s t) (xorbits a b) = N.lxor (run s a) (run t b).
Proof.
  induction a as [|x a IH]; intros [|y b] s t Hl; try discriminate; cbn [xorbits crc_run]; [reflexivity|].
  cbn in Hl. rewrite <- IH by lia. f_equal. unfold crc_stepb.
  rewrite <- A_lxor'. f_equal. rewrite b2n_xorb. xor_solve.
Qed.

(* zero input keeps state 0; zero input is injective on states (so trailing zeros cannot hide a
   non-zero state) *)
Lemma run_zeros_0 k : run 0 (repeat false k) = 0.
Proof. induction k; cbn [repeat crc_run]; [reflexivity|]. change (crc_stepb P 0 false) with 0. exact IHk. Qed.

Lemma A_zero_inv t : t < 2 ^ w -> A t = 0 -> t = 0.
Proof.
  intros Ht H. assert (H0 : (0:N) < 2 ^ (w - 1)) by apply pow2_pos.
  pose proof (A_small_inv t 0 Ht H H0). lia.
Qed.

Lemma run_zeros_inv k : forall s, s < 2 ^ w -> run s (repeat false k) = 0 -> s = 0.
Proof.
  induction k as [|k IH]; intros s Hs H; cbn [repeat crc_run] in H; [exact H|].
  unfold crc_stepb in H. cbn [N.b2n] in H. rewrite N.lxor_0_r in H.
  apply IH in H; [|apply A_lt, Hs]. apply A_zero_inv; assumption.
Qed.

(* The burst theorem on bit strings: a and b of equal length whose difference is
   zeros ++ e ++ zeros with |e| <= w and e not all zero give different final states from the
   same start state. *)
Theorem run_burst s a b pre e post :
  s < 2 ^ w -> length a = length b ->
  xorbits a b = repeat false pre ++ e ++ repeat false post ->
  N.of_nat (length e) <= w -> word e <> 0 ->
  run s a <> run s b.
Proof.
  intros Hs Hl Hx He Hne Heq.
  assert (H0 : run 0 (xorbits a b) = 0).
  { pose proof (run_lxor a b s s Hl) as Hr. rewrite N.lxor_nilpotent in Hr. rewrite Hr, Heq. apply N.lxor_nilpotent. }
  rewrite Hx, !crc_run_app, run_zeros_0 in H0.
  apply run_zeros_inv in H0; [|apply run_lt, pow2_pos].
  apply burst_detected in H0; [|exact He]. contradiction.
Qed.
End CRC.

(* instances *)
Lemma poly16_ok : 1 <= 16 /\ N.testbit poly16 (16 - 1) = true /\ poly16 < 2 ^ 16.
Proof. vm_compute. repeat split; try reflexivity; discriminate. Qed.
Lemma poly32_ok : 1 <= 32 /\ N.testbit poly32c (32 - 1) = true /\ poly32c < 2 ^ 32.
Proof. vm_compute. repeat split; try reflexivity; discriminate. Qed.

Lemma lxor_cancel_r a b c : N.lxor a c = N.lxor b c -> a = b.
Proof.
  intros H. rewrite <- (N.lxor_0_r a), <- (N.lxor_0_r b), <- (N.lxor_nilpotent c), <- !N.lxor_assoc, H. reflexivity.
Qed.

(* byte-level corollaries used by C03 *)
Lemma byte_bits_length k b : length (byte_bits k b) = k.
Proof. revert b; induction k; intros b; cbn [byte_bits length]; [reflexivity|]. f_equal. apply IHk. Qed.
Lemma bytes_bits_length x : length (bytes_bits x) = (8 * length x)%nat.
Proof. induction x as [|a x IH]; [reflexivity|]. cbn [bytes_bits]. rewrite app_length, byte_bits_length, IH. cbn [length]. lia. Qed.

Lemma ones16_lt : ones16 < 2 ^ 16.
Proof. vm_compute. reflexivity. Qed.
Lemma ones32_lt : ones32 < 2 ^ 32.
Proof. vm_compute. reflexivity. Qed.

Theorem crc16_burst x y pre e post :
  length x = length y ->
  xorbits (bytes_bits x) (bytes_bits y) = repeat false pre ++ e ++ repeat false post ->
  N.of_nat (length e) <= 16 -> word e <> 0 ->
  crc16_x25 x <> crc16_x25 y.
Proof.
  intros Hl Hx He Hne Heq. unfold crc16_x25 in Heq. apply lxor_cancel_r in Heq.
  rewrite !crc_update_bits in Heq. destruct poly16_ok as (H1 & H2 & H3).
  assert (Hlb : length (bytes_bits x) = length (bytes_bits y)) by (rewrite !bytes_bits_length; lia).
  exact (run_burst 16 poly16 H1 H2 H3 ones16 _ _ pre e post ones16_lt Hlb Hx He Hne Heq).
Qed.

Theorem crc32c_burst x y pre e post :
  length x = length y ->
  xorbits (bytes_bits x) (bytes_bits y) = repeat false pre ++ e ++ repeat false post ->
  N.of_nat (length e) <= 32 -> word e <> 0 ->
  crc32c x <> crc32c y.
Proof.
  intros Hl Hx He Hne Heq. unfold crc32c in Heq. apply lxor_cancel_r in Heq.
  rewrite !crc_update_bits in Heq. destruct poly32_ok as (H1 & H2 & H3).
  assert (Hlb : length (bytes_bits x) = length (bytes_bits y)) by (rewrite !bytes_bits_length; lia).
  exact (run_burst 32 poly32c H1 H2 H3 ones32 _ _ pre e post ones32_lt Hlb Hx He Hne Heq).
Qed.
