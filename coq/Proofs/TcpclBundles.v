(* TCPCL transfers carrying real bundles: the receiver theorem of TcpclProofs.v composed with the bundle
   codec of Model/Bundle.v (property C01): what is handed up parses, completely, as the bundle sent. *)
From DTN Require Import Base Cbor Crc Eid Bundle BundleWf BundleProofs ValidProofs BundleStreamProofs Tcpcl TcpclProofs.
Open Scope N_scope.

(* transfer x carries the serialisation of a valid bundle *)
Definition xfer_carries (now : N) (x : xfer) (b : bundle) : Prop := good now b /\ x_bs x = bundle_bytes b.

Lemma tcpcl_receiver_bundles : forall now xs tr,
  NoDup (map x_tid xs) -> Forall xfer_ok xs -> MergeAll (map xfer_segs xs) tr ->
  (forall x, In x xs -> exists b, xfer_carries now x b) ->
  (forall x b, In x xs -> xfer_carries now x b ->
     exists bs, filter (dl_tid (x_tid x)) (rx_delivered tr) = [(x_tid x, bs)] /\ dec_bundle now bs = Some (b, []))
  /\ (forall d, In d (rx_delivered tr) ->
        exists x b, In x xs /\ xfer_carries now x b /\ fst d = x_tid x /\ dec_bundle now (snd d) = Some (b, [])).
Proof.
  intros now xs tr Hnd Hok Hm Hc.
  destruct (tcpcl_receiver xs tr Hnd Hok Hm) as [H1 H2]. split.
  - intros x b Hin [[Hwf Hv] Hbs]. exists (x_bs x). split; [exact (H1 x Hin)|].
    rewrite Hbs. rewrite <- (app_nil_r (bundle_bytes b)). exact (dec_bundle_enc now b [] Hwf Hv).
  - intros d Hd. destruct (H2 d Hd) as (x & Hin & ->). destruct (Hc x Hin) as (b & Hb).
    exists x, b. split; [exact Hin|]. split; [exact Hb|]. split; [reflexivity|].
    destruct Hb as [[Hwf Hv] Hbs]. cbn [snd]. rewrite Hbs.
    rewrite <- (app_nil_r (bundle_bytes b)). exact (dec_bundle_enc now b [] Hwf Hv).
Qed.

Lemma bundle_bytes_ne b : bundle_bytes b <> [].
Proof. unfold bundle_bytes. discriminate. Qed.

Lemma tcpcl_send_bundle : forall now b m tid evs st outs,
  good now b -> 1 <= m ->
  send_run (send_init (bundle_bytes b) m tid) evs = Some (st, outs) ->
  forallb (honest_event (segments (bundle_bytes b) m tid)) evs = true ->
  ss_result st = Some SrOk ->
  exists bs, rx_delivered outs = [(tid, bs)] /\ dec_bundle now bs = Some (b, []).
Proof.
  intros now b m tid evs st outs [Hwf Hv] Hm Hrun Hh Hok.
  destruct (tcpcl_success_sound (bundle_bytes b) m tid evs st outs (bundle_bytes_ne b) Hm Hrun Hh Hok) as (_ & _ & _ & Hd).
  exists (bundle_bytes b). split; [exact Hd|].
  rewrite <- (app_nil_r (bundle_bytes b)). exact (dec_bundle_enc now b [] Hwf Hv).
Qed.
