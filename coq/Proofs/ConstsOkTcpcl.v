(* ConstsOkTcpcl.v - the constants / literal shapes regenerated from the Go source coincide with
   the ones Model/Tcpcl.v is written against. *)
From Coq Require Import ZArith NArith List.
Import ListNotations.
From DTN Require Import Consts SpecTcpcl Tcpcl.
Open Scope Z_scope.

Lemma tcpcl_flags_ok :
  pkg_cla_tcpclv4_internal_msgs__SegmentEnd = tcpcl_flag_end
  /\ pkg_cla_tcpclv4_internal_msgs__SegmentStart = tcpcl_flag_start
  /\ Z.of_N tc_seg_end = tcpcl_flag_end /\ Z.of_N tc_seg_start = tcpcl_flag_start.
Proof. repeat split; reflexivity. Qed.
Lemma tcpcl_codes_ok :
  pkg_cla_tcpclv4_internal_msgs__XFER_SEGMENT = tcpcl_xfer_segment
  /\ pkg_cla_tcpclv4_internal_msgs__XFER_ACK = tcpcl_xfer_ack
  /\ pkg_cla_tcpclv4_internal_msgs__XFER_REFUSE = tcpcl_xfer_refuse.
Proof. repeat split; reflexivity. Qed.

(* the sender's cap of a segment buffer *)
Lemma tcpcl_max_segment_ok :
  pkg_cla_tcpclv4_internal_utils__maxSegmentLen = tcpcl_max_segment_len
  /\ Z.of_N tc_max_segment = tcpcl_max_segment_len.
Proof. split; reflexivity. Qed.

(* NextSegment: "mtu == 0", "mtu > maxSegmentLen", "|= START", "== ErrUnexpectedEOF", "|= END",
   "!= nil", Peek(1) "== io.EOF", "|= END" *)
Lemma tcpcl_next_segment_shape_ok :
  pkg_cla_tcpclv4_internal_utils__OutgoingTransfer_NextSegment__lits = [0; 1]
  /\ pkg_cla_tcpclv4_internal_utils__OutgoingTransfer_NextSegment__ops = [39; 41; 3029; 39; 3029; 44; 39; 3029].
Proof. split; reflexivity. Qed.

(* IncomingTransfer.NextSegment: "Flags & SegmentEnd != 0" *)
Lemma tcpcl_in_next_segment_shape_ok :
  pkg_cla_tcpclv4_internal_utils__IncomingTransfer_NextSegment__lits = [0]
  /\ pkg_cla_tcpclv4_internal_utils__IncomingTransfer_NextSegment__ops = [44; 34; 44; 44; 44; 44; 17].
Proof. split; reflexivity. Qed.

(* Send: acknowledgement channel of 32, 10 s timeout, the comparisons outLen == inLen *)
Lemma tcpcl_send_shape_ok :
  pkg_cla_tcpclv4_internal_utils__TransferManager_Send__lits
    = [1; 1; tcpcl_ack_chan_len; 1; 1; 0; 0; 1; tcpcl_ack_timeout_s; 1; 0]
  /\ pkg_cla_tcpclv4_internal_utils__TransferManager_Send__ops
    = [13; 1017; 44; 1017; 44; 1017; 44; 3023; 1036; 1036; 39; 1036; 39; 1017; 1036; 14; 1017; 44; 1017]
  /\ pkg_cla_tcpclv4_internal_utils__TransferManager_handle__ops = [1036; 1036; 1043; 1043; 44; 44].
Proof. repeat split; reflexivity. Qed.

(* Client.Start: report channel of 32, "connCloser = nil", keepalive 30, announced Segment MRU
   1 MiB and Transfer MRU 1 GiB, 15 s to establish the session; Client.handle: the receive loop
   (a bundle variable per iteration, "err != nil" after the select) *)
Lemma tcpcl_client_shape_ok :
  pkg_cla_tcpclv4__Client_Start__lits
    = [tcpcl_client_report_chan_len; 0; 30; tcpcl_client_segment_mru; tcpcl_client_transfer_mru; 15]
  /\ Z.of_N tcc_own_segment_mru = tcpcl_client_segment_mru
  /\ pkg_cla_tcpclv4__Client_Start__ops = [39; 44; 1017; 1017; 1017; 1036; 14; 1036]
  /\ pkg_cla_tcpclv4__Client_handle__lits = []
  /\ pkg_cla_tcpclv4__Client_handle__ops = [44; 44; 1036; 1017; 1036; 1036; 1036; 1036; 44].
Proof. repeat split; reflexivity. Qed.
