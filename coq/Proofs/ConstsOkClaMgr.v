(* ConstsOkClaMgr.v - the constants / literal shapes regenerated from the Go sources of pkg/cla
   coincide with the ones the model Model/ClaMgr.v is written against.  A changed literal or
   operator in manager.go / manager_elem.go breaks a [reflexivity] here.  In particular the retry
   branch of Manager.handler, which the hook VerifRetryPass replicates, is pinned. *)
From Coq Require Import ZArith List Lia.
Import ListNotations.
From DTN Require Import Consts SpecClaMgr.
Open Scope Z_scope.

Lemma cm_new_manager_ok :
  pkg_cla__NewManager__lits = [cm_spec_queue_ttl; cm_spec_retry_seconds; cm_spec_in_chnl_cap]
  /\ pkg_cla__NewManager__ops = [tk_addr; tk_mul].
Proof. split; reflexivity. Qed.

(* the production budget satisfies the hypothesis [0 <= cfg_ttl] of the C16 theorems *)
Lemma cm_default_ttl_nonneg : 0 <= nth 0 pkg_cla__NewManager__lits (-1).
Proof. cbv. discriminate. Qed.

Lemma cm_isActive_ok :
  pkg_cla__convergenceElem_isActive__lits = cm_spec_isActive_lits
  /\ pkg_cla__convergenceElem_isActive__ops = cm_spec_isActive_ops.
Proof. split; reflexivity. Qed.

Lemma cm_activate_ok :
  pkg_cla__convergenceElem_activate__lits = cm_spec_activate_lits
  /\ pkg_cla__convergenceElem_activate__ops = cm_spec_activate_ops.
Proof. split; reflexivity. Qed.

Lemma cm_deactivate_ok :
  pkg_cla__convergenceElem_deactivate__lits = []
  /\ pkg_cla__convergenceElem_deactivate__ops = cm_spec_deactivate_ops.
Proof. split; reflexivity. Qed.

Lemma cm_elem_misc_ok :
  pkg_cla__newConvergenceElement__lits = [] /\ pkg_cla__newConvergenceElement__ops = [tk_addr]
  /\ pkg_cla__convergenceElem_handler__lits = []
  /\ pkg_cla__convergenceElem_handler__ops = cm_spec_elem_handler_ops.
Proof. repeat split; reflexivity. Qed.

Lemma cm_manager_handler_ok :
  pkg_cla__Manager_handler__lits = [] /\ pkg_cla__Manager_handler__ops = cm_spec_handler_ops.
Proof. split; reflexivity. Qed.

Lemma cm_manager_register_ok :
  pkg_cla__Manager_Register__lits = [] /\ pkg_cla__Manager_Register__ops = []
  /\ pkg_cla__Manager_registerConvergence__lits = []
  /\ pkg_cla__Manager_registerConvergence__ops = cm_spec_register_ops
  /\ pkg_cla__Manager_unregisterConvergence__lits = []
  /\ pkg_cla__Manager_unregisterConvergence__ops = cm_spec_unregister_ops
  /\ pkg_cla__Manager_Restart__lits = [] /\ pkg_cla__Manager_Restart__ops = [].
Proof. repeat split; reflexivity. Qed.

Lemma cm_manager_misc_ok :
  pkg_cla__Manager_Close__lits = [] /\ pkg_cla__Manager_Close__ops = [tk_recv]
  /\ pkg_cla__Manager_Sender__lits = [] /\ pkg_cla__Manager_Sender__ops = [tk_not]
  /\ pkg_cla__Manager_Receiver__lits = [] /\ pkg_cla__Manager_Receiver__ops = [tk_not].
Proof. repeat split; reflexivity. Qed.
