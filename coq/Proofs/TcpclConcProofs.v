(* TcpclConcProofs.v - proofs about the channel-network model Model/TcpclConc.v.

   Part 1  views: a session seen as two pipelines (incoming / outgoing, oldest message first) plus
           the control states that matter; every step of the model is one of a few effects on
           the view ([tcn_veff], lemma [tcn_sstep_veff]).
   Part 2  invariants of ONE session against the ideal peer.
   Part 3  what a state in which no live process can step looks like ([tcn_stuck_*]).
   Part 4  the theorems about one session. *)
From Coq Require Import Lia.
From DTN Require Import Base TcpclConc.
Open Scope nat_scope.

(* ------------------------------------------------------------------------------------------ *)
(* Part 1: views                                                                               *)
(* ------------------------------------------------------------------------------------------ *)
Definition tcn_oh {A} (o : option A) : list A := match o with Some x => [x] | None => [] end.
Definition tcn_st_in (g : tcn_stage) : list tcn_msg :=
  match g with GUp m => [m] | GUpOut m _ => [m] | _ => [] end.
Definition tcn_st_out (g : tcn_stage) : list tcn_msg :=
  match g with GOut o => [o] | GUpOut _ o => [o] | _ => [] end.
(* content of a transport direction, oldest first *)
Definition tcn_lk (l : tcn_link) : list tcn_msg := tcn_oh (lk_h l) ++ lk_q l.

Record tcn_view := mkV {
  v_xs : list tcn_msg;     (* ExchangeMsgIn ++ stage (message to hand up): what the stage let pass *)
  v_in : list tcn_msg;     (* inChan *)
  v_ops : list tcn_msg;    (* writer's hand ++ outChan ++ stage (messageOut) ++ ExchangeMsgOut *)
  v_li : list tcn_msg;     (* transport towards the session *)
  v_lo : list tcn_msg;     (* transport away from the session *)
  v_h : tcn_hst;
  v_rx : list (nat * nat);
  v_snd : list tcn_send;
  v_cl : option nat;
  v_rep : list nat;
  v_up : list nat
}.

Definition tcn_view_of (s : tcn_sess) (li lo : tcn_link) : tcn_view :=
  mkV (tcn_xin s ++ tcn_st_in (tcn_st s)) (tcn_in s)
      (tcn_oh (tcn_wh s) ++ tcn_out s ++ tcn_st_out (tcn_st s) ++ tcn_xout s)
      (tcn_lk li) (tcn_lk lo) (tcn_h s) (tcn_rx s) (tcn_snd s) (tcn_cl s) (tcn_rep s) (tcn_up s).

(* steps of a Send call that touch nothing but its own record *)
Inductive tcn_sdloc (i : nat) : tcn_proc -> tcn_send -> tcn_send -> Prop :=
| sl_emstop d : sd_em d = EmLoop -> sd_stop d = true ->
    tcn_sdloc i (PEmit i) d (sd_set_em d (sd_next d) EmDone (sd_len d))
| sl_emnext d : sd_em d = EmLoop -> sd_stop d = false -> sd_next d < sd_n d ->
    tcn_sdloc i (PEmit i) d (sd_set_em d (S (sd_next d)) (EmPut (CSeg i (S (sd_next d) =? sd_n d))) (sd_len d))
| sl_emeof d : sd_em d = EmLoop -> sd_stop d = false -> sd_n d <= sd_next d ->
    tcn_sdloc i (PEmit i) d (sd_set_em d (sd_next d) EmDone (Some (sd_next d)))
| sl_len d d' : tcn_main_len d = Some d' -> tcn_sdloc i (PSendLen i) d d'
| sl_ack d d' : tcn_main_ack d = Some d' -> tcn_sdloc i (PSendAck i) d d'
| sl_timeout d d' : tcn_main_timeout d = Some d' -> tcn_sdloc i (PSendTimeout i) d d'.

Inductive tcn_veff : tcn_proc -> tcn_view -> tcn_view -> Prop :=
| ve_id p v : tcn_veff p v v
| ve_rpush m xs inq ops li lo h rx sn cl rep up :
    tcn_veff PRPush (mkV xs inq ops (m :: li) lo h rx sn cl rep up) (mkV xs (inq ++ [m]) ops li lo h rx sn cl rep up)
| ve_wwrite m xs inq ops li lo h rx sn cl rep up :
    tcn_veff PWWrite (mkV xs inq (m :: ops) li lo h rx sn cl rep up) (mkV xs inq ops li (lo ++ [m]) h rx sn cl rep up)
| ve_dropka xs inq ops li lo h rx sn cl rep up :
    tcn_veff PStIn (mkV xs (CKa :: inq) ops li lo h rx sn cl rep up) (mkV xs inq ops li lo h rx sn cl rep up)
| ve_stin m xs inq ops li lo h rx sn cl rep up :
    m <> CKa ->
    tcn_veff PStIn (mkV xs (m :: inq) ops li lo h rx sn cl rep up) (mkV (xs ++ [m]) inq ops li lo h rx sn cl rep up)
| ve_tick a b xs inq li lo h rx sn cl rep up :
    tcn_veff PStTick (mkV xs inq (a ++ b) li lo h rx sn cl rep up) (mkV xs inq (a ++ CKa :: b) li lo h rx sn cl rep up)
| ve_hseg t last xs inq ops li lo rx sn cl rep up :
    tcn_veff PH (mkV (CSeg t last :: xs) inq ops li lo HIdle rx sn cl rep up)
             (mkV xs inq ops li lo (HAckOut (CAck t (S (tcn_rx_get rx t))) (if last then Some t else None))
                  (tcn_rx_next rx t last) sn cl rep up)
| ve_hroute m t xs inq ops li lo rx sn cl rep up :
    (exists k, m = CAck t k) \/ m = CRef t ->
    tcn_veff PH (mkV (m :: xs) inq ops li lo HIdle rx sn cl rep up)
             (mkV xs inq ops li lo (tcn_h_route sn t m) rx sn cl rep up)
| ve_hka xs inq ops li lo rx sn cl rep up :
    tcn_veff PH (mkV (CKa :: xs) inq ops li lo HIdle rx sn cl rep up) (mkV xs inq ops li lo HDead rx sn cl rep up)
| ve_hack a fin xs inq ops li lo rx sn cl rep up :
    tcn_veff PH (mkV xs inq ops li lo (HAckOut a fin) rx sn cl rep up)
             (mkV xs inq (ops ++ [a]) li lo (match fin with Some t => HDeliver t | None => HIdle end) rx sn cl rep up)
| ve_hdeliver t xs inq ops li lo rx sn rep up :
    tcn_veff PH (mkV xs inq ops li lo (HDeliver t) rx sn None rep up) (mkV xs inq ops li lo HIdle rx sn (Some t) rep up)
| ve_hfwd t m d xs inq ops li lo rx sn cl rep up :
    nth_error sn t = Some d ->
    tcn_veff PH (mkV xs inq ops li lo (HFwd t m) rx sn cl rep up)
             (mkV xs inq ops li lo HIdle rx (tcn_upd t (sd_set_ack d (sd_ack d ++ [m])) sn) cl rep up)
| ve_send i p d d' xs inq ops li lo h rx sn cl rep up :
    nth_error sn i = Some d -> tcn_sdloc i p d d' ->
    tcn_veff p (mkV xs inq ops li lo h rx sn cl rep up) (mkV xs inq ops li lo h rx (tcn_upd i d' sn) cl rep up)
| ve_emput i d m xs inq ops li lo h rx sn cl rep up :
    nth_error sn i = Some d -> sd_em d = EmPut m ->
    tcn_veff (PEmit i) (mkV xs inq ops li lo h rx sn cl rep up)
             (mkV xs inq (ops ++ [m]) li lo h rx (tcn_upd i (sd_set_em d (sd_next d) EmLoop (sd_len d)) sn) cl rep up)
| ve_client t xs inq ops li lo h rx sn rep up :
    tcn_veff PClient (mkV xs inq ops li lo h rx sn (Some t) rep up) (mkV xs inq ops li lo h rx sn None (rep ++ [t]) up)
| ve_upper t xs inq ops li lo h rx sn cl rep up :
    tcn_veff PUpper (mkV xs inq ops li lo h rx sn cl (t :: rep) up) (mkV xs inq ops li lo h rx sn cl rep (up ++ [t])).

Lemma tcn_veff_conv p v1 v2 w1 w2 : tcn_veff p w1 w2 -> v1 = w1 -> v2 = w2 -> tcn_veff p v1 v2.
Proof. intros; subst; assumption. Qed.

Lemma tcn_put_some {A} cap (q : list A) m q' : tcn_put cap q m = Some q' -> q' = q ++ [m] /\ length q < cap.
Proof. unfold tcn_put. destruct (Nat.ltb_spec (length q) cap); intros E; inversion E; auto. Qed.

Lemma tcn_link_write_lk T l m l' : tcn_link_write T l m = Some l' -> tcn_lk l' = tcn_lk l ++ [m].
Proof.
  unfold tcn_link_write, tcn_lk. destruct l as [q h]. cbn [lk_h lk_q].
  destruct T.
  - destruct h; [discriminate|]. destruct q; [|discriminate]. intros E; inversion E; reflexivity.
  - destruct (Nat.ltb (length q) (S T)); [|discriminate]. intros E; inversion E; cbn [lk_h lk_q].
    now rewrite app_assoc.
Qed.
Lemma tcn_link_read_lk l l' : tcn_link_read l = Some l' -> tcn_lk l' = tcn_lk l.
Proof.
  unfold tcn_link_read, tcn_lk. destruct l as [q h]; cbn. destruct h; [discriminate|].
  destruct q; [discriminate|]. intros E; inversion E; reflexivity.
Qed.

Ltac tcn_vnorm :=
  unfold tcn_view_of, tcn_lk, tcn_oh, tcn_st_in, tcn_st_out; cbn;
  repeat rewrite <- app_assoc; cbn; try reflexivity.

Lemma tcn_sstep_veff cf s li lo p s' li' lo' :
  tcn_sstep cf s li lo p = Some (s', li', lo') ->
  tcn_veff p (tcn_view_of s li lo) (tcn_view_of s' li' lo').
Proof.
  intros H. destruct p; cbn in H.
  - (* PRRead *)
    destruct (tcn_link_read li) eqn:E; inversion H; subst.
    eapply tcn_veff_conv; [apply ve_id|reflexivity|].
    unfold tcn_view_of. now rewrite (tcn_link_read_lk _ _ E).
  - (* PRPush *)
    destruct li as [q h]; cbn in H. destruct h as [m|]; [|discriminate].
    destruct (tcn_put (cf_in cf) (tcn_in s) m) eqn:E; inversion H; subst.
    apply tcn_put_some in E as [-> _].
    eapply tcn_veff_conv; [apply (ve_rpush m)|tcn_vnorm|tcn_vnorm].
  - (* PWTake *)
    destruct (tcn_wh s) eqn:W; [discriminate|]. destruct (tcn_out s) eqn:O; inversion H; subst.
    eapply tcn_veff_conv; [apply ve_id|reflexivity|].
    unfold tcn_view_of; cbn. now rewrite W, O.
  - (* PWWrite *)
    destruct (tcn_wh s) as [m|] eqn:W; [|discriminate].
    destruct (tcn_link_write (cf_T cf) lo m) eqn:E; inversion H; subst.
    eapply tcn_veff_conv; [apply (ve_wwrite m)| |].
    + unfold tcn_view_of; cbn. rewrite W. cbn. reflexivity.
    + unfold tcn_view_of; cbn. now rewrite (tcn_link_write_lk _ _ _ _ E).
  - (* PStTick *)
    destruct (tcn_st s) eqn:G; try discriminate. destruct (tcn_ticks s); inversion H; subst.
    eapply tcn_veff_conv; [apply (ve_tick (tcn_oh (tcn_wh s) ++ tcn_out s) (tcn_xout s))| |].
    + unfold tcn_view_of; cbn. rewrite G; cbn. now rewrite <- app_assoc.
    + unfold tcn_view_of; cbn. now rewrite <- app_assoc.
  - (* PStIn *)
    destruct (tcn_st s) eqn:G; try discriminate.
    + destruct (tcn_in s) as [|m r] eqn:I; inversion H; subst.
      destruct m.
      1: (eapply tcn_veff_conv; [eapply (ve_stin (CSeg t last)); discriminate| |];
           unfold tcn_view_of; cbn; rewrite ?G, ?I; cbn; rewrite ?app_nil_r; reflexivity).
      1: (eapply tcn_veff_conv; [eapply (ve_stin (CAck t k)); discriminate| |];
           unfold tcn_view_of; cbn; rewrite ?G, ?I; cbn; rewrite ?app_nil_r; reflexivity).
      1: (eapply tcn_veff_conv; [eapply (ve_stin (CRef t)); discriminate| |];
           unfold tcn_view_of; cbn; rewrite ?G, ?I; cbn; rewrite ?app_nil_r; reflexivity).
      eapply tcn_veff_conv; [apply ve_dropka| |];
        unfold tcn_view_of; cbn; rewrite ?G, ?I; cbn; reflexivity.
    + destruct (tcn_put (cf_xin cf) (tcn_xin s) m) eqn:E; inversion H; subst.
      apply tcn_put_some in E as [-> _].
      eapply tcn_veff_conv; [apply ve_id|reflexivity|].
      unfold tcn_view_of; cbn. rewrite G; cbn. now rewrite app_nil_r.
  - (* PStOut *)
    destruct (tcn_st s) eqn:G; try discriminate.
    + destruct (tcn_xout s) eqn:X; inversion H; subst.
      eapply tcn_veff_conv; [apply ve_id|reflexivity|].
      unfold tcn_view_of; cbn. rewrite G, X; cbn. reflexivity.
    + destruct (tcn_xout s) eqn:X; [discriminate|]. destruct (cf_fix cf); inversion H; subst.
      eapply tcn_veff_conv; [apply ve_id|reflexivity|].
      unfold tcn_view_of; cbn. rewrite G, X; cbn. reflexivity.
  - (* PStPut *)
    destruct (tcn_st s) eqn:G; try discriminate.
    + destruct (tcn_put (cf_out cf) (tcn_out s) o) eqn:E; inversion H; subst.
      apply tcn_put_some in E as [-> _].
      eapply tcn_veff_conv; [apply ve_id|reflexivity|].
      unfold tcn_view_of; cbn. rewrite G; cbn. now rewrite <- app_assoc.
    + destruct (tcn_put (cf_out cf) (tcn_out s) o) eqn:E; inversion H; subst.
      apply tcn_put_some in E as [-> _].
      eapply tcn_veff_conv; [apply ve_id|reflexivity|].
      unfold tcn_view_of; cbn. rewrite G; cbn. now rewrite <- app_assoc.
  - (* PH *)
    destruct (tcn_h_step cf s) eqn:E; inversion H; subst. clear H.
    unfold tcn_h_step in E. destruct (tcn_h s) eqn:Hs.
    + destruct (tcn_xin s) as [|m r] eqn:X; [discriminate|].
      destruct m; inversion E; subst.
      * eapply tcn_veff_conv; [apply (ve_hseg t last)| |];
          unfold tcn_view_of; cbn; rewrite ?Hs, ?X; cbn; reflexivity.
      * eapply tcn_veff_conv; [apply (ve_hroute (CAck t k) t); left; eexists; reflexivity| |];
          unfold tcn_view_of; cbn; rewrite ?Hs, ?X; cbn; reflexivity.
      * eapply tcn_veff_conv; [apply (ve_hroute (CRef t) t); right; reflexivity| |];
          unfold tcn_view_of; cbn; rewrite ?Hs, ?X; cbn; reflexivity.
      * eapply tcn_veff_conv; [apply ve_hka| |];
          unfold tcn_view_of; cbn; rewrite ?Hs, ?X; cbn; reflexivity.
    + destruct (tcn_put (cf_xout cf) (tcn_xout s) a) eqn:P; inversion E; subst.
      apply tcn_put_some in P as [-> _].
      eapply tcn_veff_conv; [apply (ve_hack a fin)| |].
      * unfold tcn_view_of; cbn; rewrite ?Hs; reflexivity.
      * unfold tcn_view_of; cbn. now repeat rewrite <- app_assoc.
    + destruct (tcn_cl s) eqn:C; inversion E; subst.
      eapply tcn_veff_conv; [apply (ve_hdeliver t)| |];
        unfold tcn_view_of; cbn; rewrite ?Hs, ?C; reflexivity.
    + destruct (nth_error (tcn_snd s) t) as [d|] eqn:N; [|discriminate].
      destruct (tcn_put (cf_ack cf) (sd_ack d) m) eqn:P; inversion E; subst.
      apply tcn_put_some in P as [-> _].
      eapply tcn_veff_conv; [apply (ve_hfwd t m d); exact N| |];
        unfold tcn_view_of; cbn; rewrite ?Hs; reflexivity.
    + discriminate.
  - (* PEmit *)
    destruct (nth_error (tcn_snd s) i) as [d|] eqn:N; [|discriminate].
    destruct (tcn_emit cf i d (tcn_xout s)) as [[d' xo]|] eqn:E; inversion H; subst. clear H.
    unfold tcn_emit in E. destruct (sd_em d) eqn:Em.
    + destruct (sd_stop d) eqn:St.
      * inversion E; subst.
        eapply tcn_veff_conv; [eapply (ve_send i); [exact N|apply sl_emstop; assumption]| |];
          unfold tcn_view_of; cbn; reflexivity.
      * destruct (Nat.ltb_spec (sd_next d) (sd_n d)); inversion E; subst.
        -- eapply tcn_veff_conv; [eapply (ve_send i); [exact N|apply sl_emnext; assumption]| |];
             unfold tcn_view_of; cbn; reflexivity.
        -- eapply tcn_veff_conv; [eapply (ve_send i); [exact N|apply sl_emeof; assumption]| |];
             unfold tcn_view_of; cbn; reflexivity.
    + destruct (tcn_put (cf_xout cf) (tcn_xout s) m) eqn:P; inversion E; subst.
      apply tcn_put_some in P as [-> _].
      eapply tcn_veff_conv; [eapply (ve_emput i d m); [exact N|exact Em]| |].
      * unfold tcn_view_of; cbn; reflexivity.
      * unfold tcn_view_of; cbn. now repeat rewrite <- app_assoc.
    + discriminate.
  - (* PSendLen *)
    unfold tcn_send_apply in H. destruct (nth_error (tcn_snd s) i) as [d|] eqn:N; [|discriminate].
    destruct (tcn_main_len d) as [d'|] eqn:E; inversion H; subst.
    eapply tcn_veff_conv; [eapply (ve_send i); [exact N|apply sl_len; exact E]| |];
      unfold tcn_view_of; cbn; reflexivity.
  - unfold tcn_send_apply in H. destruct (nth_error (tcn_snd s) i) as [d|] eqn:N; [|discriminate].
    destruct (tcn_main_ack d) as [d'|] eqn:E; inversion H; subst.
    eapply tcn_veff_conv; [eapply (ve_send i); [exact N|apply sl_ack; exact E]| |];
      unfold tcn_view_of; cbn; reflexivity.
  - unfold tcn_send_apply in H. destruct (nth_error (tcn_snd s) i) as [d|] eqn:N; [|discriminate].
    destruct (tcn_main_timeout d) as [d'|] eqn:E; inversion H; subst.
    eapply tcn_veff_conv; [eapply (ve_send i); [exact N|apply sl_timeout; exact E]| |];
      unfold tcn_view_of; cbn; reflexivity.
  - (* PClient *)
    destruct (tcn_cl s) as [t|] eqn:C; [|discriminate].
    destruct (tcn_put (cf_rep cf) (tcn_rep s) t) eqn:P; inversion H; subst.
    apply tcn_put_some in P as [-> _].
    eapply tcn_veff_conv; [apply (ve_client t)| |];
      unfold tcn_view_of; cbn; rewrite ?C; reflexivity.
  - (* PUpper *)
    destruct (tcn_rep s) as [|t r] eqn:R; inversion H; subst.
    eapply tcn_veff_conv; [apply (ve_upper t)| |];
      unfold tcn_view_of; cbn; rewrite ?R; reflexivity.
Qed.

(* ------------------------------------------------------------------------------------------ *)
(* Part 2a: invariants local to a session (over views; every run)                              *)
(* ------------------------------------------------------------------------------------------ *)
(* the transfer a feedback message (XFER_ACK / XFER_REFUSE) belongs to *)
Definition tcn_mtid (m : tcn_msg) : option nat :=
  match m with CAck t _ => Some t | CRef t => Some t | _ => None end.
(* acknowledged lengths are at least 1 *)
Definition tcn_ackpos (m : tcn_msg) : Prop := match m with CAck _ k => 1 <= k | _ => True end.

Definition tcn_sd_ok (i : nat) (d : tcn_send) : Prop :=
  1 <= sd_n d
  /\ sd_next d <= sd_n d
  /\ (forall m, sd_em d = EmPut m -> m = CSeg i (sd_next d =? sd_n d) /\ 1 <= sd_next d)
  /\ (sd_em d = EmDone -> sd_stop d = false ->
      sd_next d = sd_n d /\ (sd_len d = Some (sd_n d) \/ sd_outlen d = sd_n d))
  /\ (forall l, sd_len d = Some l -> l = sd_n d /\ sd_em d = EmDone /\ sd_next d = sd_n d)
  /\ (sd_outlen d <> 0 -> sd_outlen d = sd_n d /\ sd_len d = None /\ sd_em d = EmDone /\ sd_next d = sd_n d)
  /\ (sd_res d = Some ROk -> sd_inlen d = sd_n d /\ sd_outlen d = sd_n d)
  /\ (sd_res d = None -> ~ (sd_outlen d = sd_n d /\ sd_inlen d = sd_n d))
  /\ (sd_stop d = true -> exists r, sd_res d = Some r /\ r <> ROk)
  /\ (forall r, sd_res d = Some r -> r = ROk \/ sd_stop d = true)
  /\ Forall (fun m => tcn_mtid m = Some i /\ tcn_ackpos m) (sd_ack d).

Definition tcn_h_ok (h : tcn_hst) : Prop :=
  match h with
  | HAckOut a _ => exists t k, a = CAck t k /\ 1 <= k
  | HFwd t m => tcn_mtid m = Some t /\ tcn_ackpos m
  | _ => True
  end.

Definition tcn_lview (v : tcn_view) : Prop :=
  (forall i d, nth_error (v_snd v) i = Some d -> tcn_sd_ok i d)
  /\ tcn_h_ok (v_h v)
  /\ Forall tcn_ackpos (v_xs v ++ v_in v ++ v_li v)
  /\ Forall tcn_ackpos (v_ops v ++ v_lo v).

Lemma tcn_nth_upd_eq {A} i (x : A) l : i < length l -> nth_error (tcn_upd i x l) i = Some x.
Proof. revert i; induction l; intros [|i] L; cbn in *; try lia; auto. apply IHl; lia. Qed.
Lemma tcn_nth_upd_ne {A} i j (x : A) l : i <> j -> nth_error (tcn_upd i x l) j = nth_error l j.
Proof. revert i j; induction l; intros [|i] [|j] L; cbn in *; try congruence; auto. Qed.
Lemma tcn_upd_length {A} i (x : A) l : length (tcn_upd i x l) = length l.
Proof. revert i; induction l; intros [|i]; cbn; auto. Qed.
Lemma tcn_nth_upd {A} i j (x d : A) l :
  nth_error l i = Some d ->
  nth_error (tcn_upd i x l) j = if j =? i then Some x else nth_error l j.
Proof.
  intros N. destruct (Nat.eqb_spec j i) as [->|Hn].
  - apply tcn_nth_upd_eq. apply nth_error_Some. congruence.
  - apply tcn_nth_upd_ne. congruence.
Qed.

Ltac tcn_fin :=
  cbn in *;
  repeat match goal with
  | H : Some _ = Some _ |- _ => inversion H; subst; clear H
  | H : exists r, _ = Some r /\ _ |- _ => destruct H as (? & ? & ?)
  | H : EmPut _ = EmPut _ |- _ => inversion H; subst; clear H
  | H : ?a <> 0 -> _, H' : ?a <> 0 |- _ => specialize (H H')
  | H : forall l, Some ?x = Some l -> _ |- _ => specialize (H _ eq_refl)
  | H : forall l, EmPut ?x = EmPut l -> _ |- _ => specialize (H _ eq_refl)
  | H : forall l, ?x = EmPut l -> _, H' : ?x = EmPut _ |- _ => specialize (H _ H')
  | H : forall l, ?x = Some l -> _, H' : ?x = Some _ |- _ => specialize (H _ H')
  | H : (?a = ?b) -> _, H' : ?a = ?b |- _ => specialize (H H')
  | H : ?x = ?x -> _ |- _ => specialize (H eq_refl)
  | |- context[Nat.eqb ?a ?b] => destruct (Nat.eqb_spec a b)
  | H : context[Nat.eqb ?a ?b] |- _ => destruct (Nat.eqb_spec a b)
  end; try discriminate;
  try solve [intuition (try congruence; try lia; eauto)];
  try solve [eexists; split; [reflexivity|discriminate]].

Lemma tcn_sdloc_ok i p d d' : tcn_sdloc i p d d' -> tcn_sd_ok i d -> tcn_sd_ok i d'.
Proof.
  intros L (H1 & H2 & H3 & H4 & H5 & H6 & H7 & H8 & H9 & H9b & H10).
  destruct L as [d Em St|d Em St Lt|d Em St Le|d d' E|d d' E|d d' E].
  - destruct d; cbn in *; subst. repeat split; intros; tcn_fin.
  - destruct d; cbn in *; subst. repeat split; intros; tcn_fin.
  - destruct d; cbn in *; subst. repeat split; intros; tcn_fin.
  - unfold tcn_main_len in E. destruct (sd_res d) eqn:R; [discriminate|].
    destruct (sd_len d) as [l|] eqn:Ln; inversion E; subst; clear E.
    destruct (H5 l eq_refl) as (-> & Em & Nx).
    destruct d; cbn in *; subst. repeat split; intros; tcn_fin.
  - unfold tcn_main_ack in E. destruct (sd_res d) eqn:R; [discriminate|].
    destruct (sd_ack d) as [|m r] eqn:Aq; [discriminate|].
    inversion H10 as [|? ? [Hm Hp] Hr]; subst.
    destruct m; inversion E; subst; clear E; try discriminate;
    destruct d; cbn in *; subst; repeat split; intros; tcn_fin.
  - unfold tcn_main_timeout in E. destruct (sd_res d) eqn:R; inversion E; subst; clear E.
    destruct d; cbn in *; subst. repeat split; intros; tcn_fin.
Qed.

Ltac tcn_fa := repeat rewrite ?Forall_app, ?Forall_cons_iff, ?Forall_nil_iff in *.

Lemma tcn_sd_ok_set_ack i d a :
  tcn_sd_ok i d -> Forall (fun m => tcn_mtid m = Some i /\ tcn_ackpos m) a -> tcn_sd_ok i (sd_set_ack d a).
Proof. destruct d; unfold tcn_sd_ok; cbn. intuition. Qed.

Lemma tcn_sd_ok_emput i d m :
  tcn_sd_ok i d -> sd_em d = EmPut m -> tcn_sd_ok i (sd_set_em d (sd_next d) EmLoop (sd_len d)).
Proof.
  intros (H1 & H2 & H3 & H4 & H5 & H6 & H7 & H8 & H9 & H9b & H10) E.
  destruct d; cbn in *; subst. repeat split; intros; tcn_fin.
Qed.

Lemma tcn_h_route_ok sn t m : tcn_mtid m = Some t -> tcn_ackpos m -> tcn_h_ok (tcn_h_route sn t m).
Proof.
  intros. unfold tcn_h_route. destruct (nth_error sn t) as [d|]; cbn; auto.
  destruct (sd_res d); cbn; auto.
Qed.

Ltac tcn_ls := split; [|split; [|split]]; auto.

Lemma tcn_veff_lview p v v' : tcn_veff p v v' -> tcn_lview v -> tcn_lview v'.
Proof.
  intros E (Hs & Hh & Hi & Ho).
  destruct E; unfold tcn_lview in *; cbn [v_xs v_in v_ops v_li v_lo v_h v_snd] in *.
  - auto.
  - tcn_ls; tcn_fa; intuition.
  - tcn_ls; tcn_fa; intuition.
  - tcn_ls; tcn_fa; intuition.
  - tcn_ls; tcn_fa; intuition.
  - tcn_ls; tcn_fa; intuition. exact I.
  - tcn_ls; tcn_fa; intuition. cbn. do 2 eexists; split; [reflexivity|lia].
  - tcn_ls; tcn_fa; [|intuition].
    apply tcn_h_route_ok; [|intuition].
    destruct H as [[k ->]| ->]; reflexivity.
  - tcn_ls; tcn_fa; intuition.
  - tcn_ls; tcn_fa.
    + destruct fin; cbn; auto.
    + destruct Hh as (t & k & -> & Hk). cbn. intuition.
  - tcn_ls.
  - tcn_ls; [|exact I]. intros i d0 N.
    rewrite (tcn_nth_upd _ _ _ _ _ H) in N. destruct (Nat.eqb_spec i t) as [->|]; [|auto].
    inversion N; subst. apply tcn_sd_ok_set_ack; [auto|].
    destruct (Hs _ _ H) as (_ & _ & _ & _ & _ & _ & _ & _ & _ & _ & Ha). tcn_fa. cbn in Hh. intuition.
  - tcn_ls. intros j d0 N.
    rewrite (tcn_nth_upd _ _ _ _ _ H) in N. destruct (Nat.eqb_spec j i) as [->|]; [|auto].
    inversion N; subst. eapply tcn_sdloc_ok; eauto.
  - tcn_ls.
    + intros j d0 N.
      rewrite (tcn_nth_upd _ _ _ _ _ H) in N. destruct (Nat.eqb_spec j i) as [->|]; [|auto].
      inversion N; subst. eapply tcn_sd_ok_emput; eauto.
    + tcn_fa. intuition. destruct (Hs _ _ H) as (_ & _ & Hp & _). destruct (Hp _ H0) as [-> _]. exact I.
  - tcn_ls.
  - tcn_ls.
Qed.

(* ------------------------------------------------------------------------------------------ *)
(* Part 2b: ONE session against the ideal peer - the system as a view, its effects             *)
(* ------------------------------------------------------------------------------------------ *)
Definition tcn_sview (y : tcn_sys) : tcn_view * tcn_env :=
  (tcn_view_of (sy_s y) (sy_lin y) (sy_lout y), sy_e y).

Inductive tcn_seff : tcn_eproc -> tcn_view * tcn_env -> tcn_view * tcn_env -> Prop :=
| se_sess q v v' e : tcn_veff q v v' -> tcn_seff (ESess q) (v, e) (v', e)
| se_wscript m r pend got xs inq ops li lo h rx sn cl rep up :
    tcn_seff EWScript (mkV xs inq ops li lo h rx sn cl rep up, mkTcnEnv (m :: r) pend got)
                      (mkV xs inq ops (li ++ [m]) lo h rx sn cl rep up, mkTcnEnv r pend got)
| se_wack m r scr got xs inq ops li lo h rx sn cl rep up :
    tcn_seff EWAck (mkV xs inq ops li lo h rx sn cl rep up, mkTcnEnv scr (m :: r) got)
                   (mkV xs inq ops (li ++ [m]) lo h rx sn cl rep up, mkTcnEnv scr r got)
| se_read m e xs inq ops li lo h rx sn cl rep up :
    tcn_seff ERead (mkV xs inq ops li (m :: lo) h rx sn cl rep up, e)
                   (mkV xs inq ops li lo h rx sn cl rep up, tcn_env_take e m).

Lemma tcn_seff_conv p x1 x2 w1 w2 : tcn_seff p w1 w2 -> x1 = w1 -> x2 = w2 -> tcn_seff p x1 x2.
Proof. intros; subst; assumption. Qed.

Lemma tcn_estep_seff cf y p y' : tcn_estep cf y p = Some y' -> tcn_seff p (tcn_sview y) (tcn_sview y').
Proof.
  intros H. destruct y as [s li lo e]. destruct p; cbn in H.
  - destruct (tcn_sstep cf s li lo p) as [[[s' li'] lo']|] eqn:E; inversion H; subst.
    apply se_sess. eapply tcn_sstep_veff; eauto.
  - destruct e as [scr pend got]; cbn in H. destruct scr as [|m r]; [discriminate|].
    destruct (tcn_link_write (cf_T cf) li m) eqn:E; inversion H; subst.
    eapply tcn_seff_conv; [apply (se_wscript m r)|reflexivity|].
    unfold tcn_sview, tcn_view_of; cbn. now rewrite (tcn_link_write_lk _ _ _ _ E).
  - destruct e as [scr pend got]; cbn in H. destruct pend as [|m r]; [discriminate|].
    destruct (tcn_link_write (cf_T cf) li m) eqn:E; inversion H; subst.
    eapply tcn_seff_conv; [apply (se_wack m r)|reflexivity|].
    unfold tcn_sview, tcn_view_of; cbn. now rewrite (tcn_link_write_lk _ _ _ _ E).
  - destruct lo as [q h]; cbn in H. destruct h as [m|].
    + inversion H; subst. eapply tcn_seff_conv; [apply (se_read m)| |]; reflexivity.
    + destruct q as [|m q]; inversion H; subst.
      eapply tcn_seff_conv; [apply (se_read m)| |]; reflexivity.
Qed.

(* ---- helpers ---- *)
Definition tcn_hak (h : tcn_hst) : list tcn_msg := match h with HAckOut a _ => [a] | _ => [] end.
Definition tcn_hfw (h : tcn_hst) : list tcn_msg := match h with HFwd _ m => [m] | _ => [] end.
Definition tcn_hdl (h : tcn_hst) : list nat :=
  match h with HAckOut _ (Some t) => [t] | HDeliver t => [t] | _ => [] end.

Definition tcn_sdget {A} (f : tcn_send -> A) (z : A) (sn : list tcn_send) (t : nat) : A :=
  match nth_error sn t with Some d => f d | None => z end.
Definition tcn_emh := tcn_sdget (fun d => match sd_em d with EmPut m => [m] | _ => [] end) [].
Definition tcn_nextof := tcn_sdget sd_next 0.
Definition tcn_nof := tcn_sdget sd_n 0.
Definition tcn_inlenof := tcn_sdget sd_inlen 0.
Definition tcn_ackq := tcn_sdget sd_ack [].

Lemma tcn_sdget_upd {A} (f : tcn_send -> A) z sn i d d' t :
  nth_error sn i = Some d ->
  tcn_sdget f z (tcn_upd i d' sn) t = if t =? i then f d' else tcn_sdget f z sn t.
Proof. intros N. unfold tcn_sdget. rewrite (tcn_nth_upd _ _ _ _ _ N). destruct (t =? i); reflexivity. Qed.

Lemma tcn_acks_skip m a b rx : tcn_is_seg m = false -> tcn_acks rx (a ++ m :: b) = tcn_acks rx (a ++ b).
Proof.
  intros Hm. revert rx; induction a as [|x a IH]; intros rx; cbn.
  - destruct m; try discriminate; reflexivity.
  - destruct x; cbn; rewrite ?IH; reflexivity.
Qed.
Lemma tcn_ups_skip m a b : tcn_is_seg m = false -> tcn_ups (a ++ m :: b) = tcn_ups (a ++ b).
Proof.
  intros Hm. induction a as [|x a IH]; cbn.
  - destruct m; try discriminate; reflexivity.
  - destruct x as [t [|]| | |]; cbn; rewrite ?IH; reflexivity.
Qed.

(* the environment keeps its books in order *)
Definition tcn_envok (e : tcn_env) : Prop :=
  Forall (fun m => tcn_is_ack m = true /\ tcn_ackpos m) (ev_pend e)
  /\ Forall (fun m => tcn_is_ack m = false) (ev_script e).

Definition tcn_base (x : tcn_view * tcn_env) : Prop := tcn_lview (fst x) /\ tcn_envok (snd x).

Lemma tcn_seff_base p x x' : tcn_seff p x x' -> tcn_base x -> tcn_base x'.
Proof.
  intros E [L [Ep Es]]. destruct E; unfold tcn_base, tcn_envok in *; cbn [fst snd ev_pend ev_script] in *.
  - split; [eapply tcn_veff_lview; eauto|auto].
  - destruct L as (Hs & Hh & Hi & Ho). unfold tcn_lview; cbn in *. tcn_fa.
    assert (tcn_ackpos m) by (destruct m; cbn in *; try exact I; destruct Es; discriminate).
    intuition.
  - destruct L as (Hs & Hh & Hi & Ho). unfold tcn_lview; cbn in *. tcn_fa. intuition.
  - destruct L as (Hs & Hh & Hi & Ho). unfold tcn_lview, tcn_env_take; cbn in *. tcn_fa.
    destruct m; tcn_fa; cbn; intuition lia.
Qed.

(* ---- invariant A: acknowledgements and deliveries owed for what the peer wrote (every run) ---- *)
Definition tcn_invA (script0 : list tcn_msg) (x : tcn_view * tcn_env) : Prop :=
  filter tcn_is_ack (ev_got (snd x) ++ v_lo (fst x) ++ v_ops (fst x)) ++ tcn_hak (v_h (fst x))
    ++ tcn_acks (v_rx (fst x)) (v_xs (fst x) ++ v_in (fst x) ++ v_li (fst x) ++ ev_script (snd x))
  = tcn_acks [] script0
  /\ v_up (fst x) ++ v_rep (fst x) ++ tcn_oh (v_cl (fst x)) ++ tcn_hdl (v_h (fst x))
    ++ tcn_ups (v_xs (fst x) ++ v_in (fst x) ++ v_li (fst x) ++ ev_script (snd x))
  = tcn_ups script0.

Definition tcn_is_ack_of (t : nat) (m : tcn_msg) : bool :=
  match m with CAck t' _ => t' =? t | _ => false end.
Definition tcn_ackk (m : tcn_msg) : nat := match m with CAck _ k => k | _ => 0 end.

Ltac tcn_ln :=
  repeat rewrite ?filter_app, ?map_app, <- ?app_assoc in *;
  cbn [app filter map tcn_is_ack tcn_is_seg tcn_is_seg_of tcn_is_ack_of tcn_ackk
       tcn_hak tcn_hdl tcn_hfw tcn_oh tcn_acks tcn_ups] in *.

Ltac tcn_vs :=
  cbn [v_xs v_in v_ops v_li v_lo v_h v_rx v_snd v_cl v_rep v_up ev_got ev_script ev_pend fst snd] in *.
Ltac tcn_cases :=
  repeat match goal with
  | H : context[if ?b then _ else _] |- _ => destruct b eqn:?
  | |- context[if ?b then _ else _] => destruct b eqn:?
  end; cbn [app map tcn_ackk] in *; try discriminate.
Ltac tcn_lna := tcn_ln; tcn_cases; tcn_ln; auto.

Lemma tcn_emput_seg sn i d m :
  (forall i d, nth_error sn i = Some d -> tcn_sd_ok i d) ->
  nth_error sn i = Some d -> sd_em d = EmPut m -> m = CSeg i (sd_next d =? sd_n d).
Proof. intros Hs N E. destruct (Hs _ _ N) as (_ & _ & Hp & _). now destruct (Hp _ E). Qed.

Lemma tcn_seff_invA script0 p x x' :
  tcn_seff p x x' -> tcn_base x -> tcn_invA script0 x -> tcn_invA script0 x'.
Proof.
  intros E [L [Ep Es]] [A1 A2].
  destruct E as [q v v' e V|m r pend got xs inq ops li lo h rx sn cl rep up
                |m r scr got xs inq ops li lo h rx sn cl rep up|m e xs inq ops li lo h rx sn cl rep up];
    unfold tcn_invA in *; cbn [fst snd] in *.
  - destruct L as (Hs & Hh & Hi & Ho).
    destruct V; cbn [v_xs v_in v_ops v_li v_lo v_h v_rx v_snd v_cl v_rep v_up] in *.
    + auto.
    + tcn_lna.
    + tcn_lna.
    + cbn [app] in A1, A2.
      rewrite (tcn_acks_skip CKa xs) in A1 by reflexivity.
      rewrite (tcn_ups_skip CKa xs) in A2 by reflexivity. auto.
    + tcn_lna.
    + tcn_lna.
    + tcn_ln. destruct last; tcn_ln; auto.
    + assert (tcn_is_seg m = false) by (destruct H as [[k ->]| ->]; reflexivity).
      assert (tcn_hak (tcn_h_route sn t m) = [] /\ tcn_hdl (tcn_h_route sn t m) = []) as [-> ->].
      { unfold tcn_h_route. destruct (nth_error sn t) as [d|]; [destruct (sd_res d)|]; split; reflexivity. }
      destruct m; try discriminate; tcn_ln; auto.
    + tcn_lna.
    + destruct Hh as (t & k & -> & Hk). tcn_ln. destruct fin; tcn_ln; auto.
    + tcn_lna.
    + tcn_lna.
    + auto.
    + rewrite (tcn_emput_seg _ _ _ _ Hs H H0). tcn_lna.
    + tcn_lna.
    + tcn_lna.
  - cbn [v_xs v_in v_ops v_li v_lo v_h v_rx v_snd v_cl v_rep v_up ev_got ev_script] in *.
    tcn_lna.
  - cbn [v_xs v_in v_ops v_li v_lo v_h v_rx v_snd v_cl v_rep v_up ev_got ev_script ev_pend] in *.
    inversion Ep as [|? ? [Hm _] _]; subst.
    assert (tcn_is_seg m = false) by (destruct m; try discriminate; reflexivity).
    replace (xs ++ inq ++ (li ++ [m]) ++ scr) with ((xs ++ inq ++ li) ++ m :: scr)
      by (repeat rewrite <- app_assoc; reflexivity).
    rewrite tcn_acks_skip, tcn_ups_skip by assumption.
    repeat rewrite <- app_assoc. auto.
  - cbn [v_xs v_in v_ops v_li v_lo v_h v_rx v_snd v_cl v_rep v_up] in *.
    unfold tcn_env_take; cbn [ev_got ev_script]. tcn_lna.
Qed.

(* ---- invariant S: the segments of each Send, in order (every run) ---- *)
Definition tcn_invS (x : tcn_view * tcn_env) : Prop :=
  forall t,
    filter (tcn_is_seg_of t) (ev_got (snd x) ++ v_lo (fst x) ++ v_ops (fst x)) ++ tcn_emh (v_snd (fst x)) t
    = firstn (tcn_nextof (v_snd (fst x)) t) (tcn_xsegs t (tcn_nof (v_snd (fst x)) t)).

Lemma tcn_firstn_seq k a n : firstn k (seq a n) = seq a (min k n).
Proof.
  revert a n; induction k; intros a [|n]; cbn; auto. now rewrite IHk.
Qed.

Lemma tcn_firstn_xsegs_S t n k :
  k < n -> firstn (S k) (tcn_xsegs t n) = firstn k (tcn_xsegs t n) ++ [CSeg t (S k =? n)].
Proof.
  intros L. unfold tcn_xsegs. rewrite !firstn_map, !tcn_firstn_seq.
  rewrite (Nat.min_l (S k) n), (Nat.min_l k n) by lia.
  rewrite seq_S, map_app. reflexivity.
Qed.

Definition tcn_same_em (d d' : tcn_send) : Prop :=
  sd_n d' = sd_n d /\ sd_next d' = sd_next d /\ sd_em d' = sd_em d.

Lemma tcn_same_em_upd sn i d d' t :
  nth_error sn i = Some d -> tcn_same_em d d' ->
  tcn_emh (tcn_upd i d' sn) t = tcn_emh sn t
  /\ tcn_nextof (tcn_upd i d' sn) t = tcn_nextof sn t
  /\ tcn_nof (tcn_upd i d' sn) t = tcn_nof sn t.
Proof.
  intros N (E1 & E2 & E3). unfold tcn_emh, tcn_nextof, tcn_nof.
  rewrite !(tcn_sdget_upd _ _ _ _ _ _ _ N).
  destruct (Nat.eqb_spec t i) as [->|]; [|auto].
  unfold tcn_sdget. rewrite N, E1, E2, E3. auto.
Qed.

Lemma tcn_nn_upd sn i d d' t :
  nth_error sn i = Some d -> sd_n d' = sd_n d -> sd_next d' = sd_next d ->
  tcn_nextof (tcn_upd i d' sn) t = tcn_nextof sn t /\ tcn_nof (tcn_upd i d' sn) t = tcn_nof sn t.
Proof.
  intros N E1 E2. unfold tcn_nextof, tcn_nof.
  rewrite !(tcn_sdget_upd _ _ _ _ _ _ _ N).
  destruct (Nat.eqb_spec t i) as [->|]; [|auto].
  unfold tcn_sdget. rewrite N, E1, E2. auto.
Qed.
Lemma tcn_emh_upd_nil sn i d d' t :
  nth_error sn i = Some d -> (forall m, sd_em d <> EmPut m) -> (forall m, sd_em d' <> EmPut m) ->
  tcn_emh (tcn_upd i d' sn) t = tcn_emh sn t.
Proof.
  intros N E1 E2. unfold tcn_emh. rewrite (tcn_sdget_upd _ _ _ _ _ _ _ N).
  destruct (Nat.eqb_spec t i) as [->|]; [|auto].
  unfold tcn_sdget. rewrite N.
  destruct (sd_em d) eqn:A, (sd_em d') eqn:B; try reflexivity;
    try (exfalso; eapply E1; reflexivity); try (exfalso; eapply E2; reflexivity).
Qed.

Lemma tcn_main_same_em d d' :
  tcn_main_len d = Some d' \/ tcn_main_ack d = Some d' \/ tcn_main_timeout d = Some d' -> tcn_same_em d d'.
Proof.
  unfold tcn_main_len, tcn_main_ack, tcn_main_timeout, tcn_same_em.
  intros [E|[E|E]]; destruct (sd_res d); try discriminate.
  - destruct (sd_len d); inversion E; subst; cbn; auto.
  - destruct (sd_ack d) as [|m r]; [discriminate|]. destruct m; inversion E; subst; cbn; auto.
  - inversion E; subst; cbn; auto.
Qed.

Lemma tcn_seg_of_other i t b : t <> i -> tcn_is_seg_of t (CSeg i b) = false.
Proof. intros; cbn. apply Nat.eqb_neq. congruence. Qed.

Lemma tcn_seff_invS p x x' :
  tcn_seff p x x' -> tcn_base x -> tcn_invS x -> tcn_invS x'.
Proof.
  intros E [L [Ep Es]] S.
  destruct E as [q v v' e V|m r pend got xs inq ops li lo h rx sn cl rep up
                |m r scr got xs inq ops li lo h rx sn cl rep up|m e xs inq ops li lo h rx sn cl rep up];
    unfold tcn_invS in *; cbn [fst snd] in *.
  - destruct L as (Hs & Hh & Hi & Ho).
    destruct V; cbn [v_xs v_in v_ops v_li v_lo v_h v_rx v_snd v_cl v_rep v_up] in *; intros t0; specialize (S t0).
    + auto.
    + auto.
    + tcn_lna.
    + auto.
    + auto.
    + tcn_lna.
    + auto.
    + auto.
    + auto.
    + destruct Hh as (t & k & -> & Hk). tcn_lna.
    + auto.
    + destruct (tcn_same_em_upd sn t d (sd_set_ack d (sd_ack d ++ [m])) t0 H) as (-> & -> & ->); auto.
      repeat split.
    + destruct H0.
      * destruct (tcn_nn_upd sn i d (sd_set_em d (sd_next d) EmDone (sd_len d)) t0 H) as (-> & ->);
          [reflexivity|reflexivity|].
        rewrite (tcn_emh_upd_nil sn i d); auto; cbn; congruence.
      * unfold tcn_emh, tcn_nextof, tcn_nof in *. rewrite !(tcn_sdget_upd _ _ _ _ _ _ _ H).
        destruct (Nat.eqb_spec t0 i) as [->|]; [|auto].
        unfold tcn_sdget in *. rewrite H in S. rewrite H0 in S. cbn [sd_next sd_n sd_em sd_set_em].
        rewrite tcn_firstn_xsegs_S by assumption. rewrite <- S. rewrite app_nil_r. reflexivity.
      * destruct (tcn_nn_upd sn i d (sd_set_em d (sd_next d) EmDone (Some (sd_next d))) t0 H) as (-> & ->);
          [reflexivity|reflexivity|].
        rewrite (tcn_emh_upd_nil sn i d); auto; cbn; congruence.
      * destruct (tcn_same_em_upd sn i d d' t0 H) as (-> & -> & ->); auto. apply tcn_main_same_em; auto.
      * destruct (tcn_same_em_upd sn i d d' t0 H) as (-> & -> & ->); auto. apply tcn_main_same_em; auto.
      * destruct (tcn_same_em_upd sn i d d' t0 H) as (-> & -> & ->); auto. apply tcn_main_same_em; auto.
    + pose proof (tcn_emput_seg _ _ _ _ Hs H H0) as Hm.
      unfold tcn_emh, tcn_nextof, tcn_nof in *. rewrite !(tcn_sdget_upd _ _ _ _ _ _ _ H).
      cbn [sd_next sd_n sd_em sd_set_em].
      destruct (Nat.eqb_spec t0 i) as [->|Hne].
      * unfold tcn_sdget in *. rewrite H in S. rewrite H0 in S. rewrite <- S.
        subst m. tcn_ln. cbn. rewrite Nat.eqb_refl. rewrite app_nil_r. reflexivity.
      * rewrite <- S. subst m. tcn_ln. destruct (Nat.eqb_spec i t0); [congruence|reflexivity].
    + auto.
    + auto.
  - intros t0; specialize (S t0). tcn_vs. auto.
  - intros t0; specialize (S t0). tcn_vs. auto.
  - intros t0; specialize (S t0). unfold tcn_env_take; tcn_vs. tcn_lna.
Qed.

(* ---- invariant K: acknowledged lengths never exceed what the peer has read (every run) ---- *)
Definition tcn_ackle (t c : nat) (m : tcn_msg) : Prop :=
  match m with CAck t' k => t' = t -> k <= c | _ => True end.

Definition tcn_invK (x : tcn_view * tcn_env) : Prop :=
  forall t,
    Forall (tcn_ackle t (tcn_count t (ev_got (snd x))))
           (tcn_ackq (v_snd (fst x)) t ++ tcn_hfw (v_h (fst x)) ++ v_xs (fst x) ++ v_in (fst x)
            ++ v_li (fst x) ++ ev_pend (snd x))
    /\ tcn_inlenof (v_snd (fst x)) t <= tcn_count t (ev_got (snd x)).

Lemma tcn_ackle_mono t c c' m : c <= c' -> tcn_ackle t c m -> tcn_ackle t c' m.
Proof. destruct m; cbn; auto. intros L H E. specialize (H E). lia. Qed.
Lemma tcn_ackle_mono_all t c c' l : c <= c' -> Forall (tcn_ackle t c) l -> Forall (tcn_ackle t c') l.
Proof. intros L F. eapply Forall_impl; [|exact F]. intros; eapply tcn_ackle_mono; eauto. Qed.

Lemma tcn_count_snoc t l m : tcn_count t (l ++ [m]) = tcn_count t l + (if tcn_is_seg_of t m then 1 else 0).
Proof. unfold tcn_count. rewrite filter_app, app_length. cbn. destruct (tcn_is_seg_of t m); reflexivity. Qed.

Lemma tcn_main_same_q d d' :
  tcn_main_len d = Some d' \/ tcn_main_timeout d = Some d' -> sd_ack d' = sd_ack d /\ sd_inlen d' = sd_inlen d.
Proof.
  unfold tcn_main_len, tcn_main_timeout.
  intros [E|E]; destruct (sd_res d); try discriminate.
  - destruct (sd_len d); inversion E; subst; cbn; auto.
  - inversion E; subst; cbn; auto.
Qed.

Lemma tcn_qi_upd sn i d d' t :
  nth_error sn i = Some d -> sd_ack d' = sd_ack d -> sd_inlen d' = sd_inlen d ->
  tcn_ackq (tcn_upd i d' sn) t = tcn_ackq sn t /\ tcn_inlenof (tcn_upd i d' sn) t = tcn_inlenof sn t.
Proof.
  intros N E1 E2. unfold tcn_ackq, tcn_inlenof.
  rewrite !(tcn_sdget_upd _ _ _ _ _ _ _ N).
  destruct (Nat.eqb_spec t i) as [->|]; [|auto].
  unfold tcn_sdget. rewrite N, E1, E2. auto.
Qed.

Lemma tcn_hfw_route sn t m : tcn_hfw (tcn_h_route sn t m) = [m] \/ tcn_hfw (tcn_h_route sn t m) = [].
Proof.
  unfold tcn_h_route. destruct (nth_error sn t) as [d|]; [destruct (sd_res d)|]; cbn; auto.
Qed.

Lemma tcn_seff_invK p x x' :
  tcn_seff p x x' -> tcn_base x -> tcn_invK x -> tcn_invK x'.
Proof.
  intros E [L [Ep Es]] K.
  destruct E as [q v v' e V|m r pend got xs inq ops li lo h rx sn cl rep up
                |m r scr got xs inq ops li lo h rx sn cl rep up|m e xs inq ops li lo h rx sn cl rep up];
    unfold tcn_invK in *; tcn_vs.
  - destruct L as (Hs & Hh & Hi & Ho).
    destruct V; tcn_vs; intros t0; specialize (K t0); destruct K as [K1 K2].
    + auto.
    + split; auto. tcn_fa. intuition.
    + auto.
    + split; auto. tcn_fa. intuition.
    + split; auto. tcn_fa. intuition.
    + auto.
    + split; auto. cbn [tcn_hfw app] in *. tcn_fa. intuition.
    + split; auto. cbn [tcn_hfw app] in *. tcn_fa.
      destruct (tcn_hfw_route sn t m) as [-> | ->]; tcn_fa; intuition.
    + split; auto. cbn [tcn_hfw app] in *. tcn_fa. intuition.
    + split; auto. destruct fin; cbn [tcn_hfw app] in *; auto.
    + auto.
    + unfold tcn_ackq, tcn_inlenof in *. rewrite !(tcn_sdget_upd _ _ _ _ _ _ _ H).
      cbn [tcn_hfw app sd_ack sd_inlen sd_set_ack] in *.
      destruct (Nat.eqb_spec t0 t) as [->|Hne].
      * unfold tcn_sdget in *. rewrite H in *. split; auto. tcn_fa. intuition.
      * split; auto. tcn_fa. intuition.
    + destruct H0.
      * destruct (tcn_qi_upd sn i d (sd_set_em d (sd_next d) EmDone (sd_len d)) t0 H) as (-> & ->); auto.
      * destruct (tcn_qi_upd sn i d (sd_set_em d (S (sd_next d)) (EmPut (CSeg i (S (sd_next d) =? sd_n d))) (sd_len d)) t0 H) as (-> & ->); auto.
      * destruct (tcn_qi_upd sn i d (sd_set_em d (sd_next d) EmDone (Some (sd_next d))) t0 H) as (-> & ->); auto.
      * destruct (tcn_main_same_q d d') as [E1 E2]; auto.
        destruct (tcn_qi_upd sn i d d' t0 H) as (-> & ->); auto.
      * (* the main loop takes an acknowledgement *)
        unfold tcn_main_ack in H0. destruct (sd_res d); [discriminate|].
        destruct (sd_ack d) as [|m r] eqn:Aq; [discriminate|].
        destruct (Hs _ _ H) as (_ & _ & _ & _ & _ & _ & _ & _ & _ & _ & Ha). rewrite Aq in Ha.
        apply Forall_cons_iff in Ha as [[Hm Hp] Hr].
        unfold tcn_ackq, tcn_inlenof in *. rewrite !(tcn_sdget_upd _ _ _ _ _ _ _ H).
        destruct (Nat.eqb_spec t0 i) as [->|Hne]; [|auto].
        unfold tcn_sdget in *. rewrite H in *. rewrite Aq in K1.
        destruct m; inversion H0; subst; cbn [sd_ack sd_inlen sd_set_main] in *; tcn_fa;
          cbn in Hm; inversion Hm; subst; intuition.
      * destruct (tcn_main_same_q d d') as [E1 E2]; auto.
        destruct (tcn_qi_upd sn i d d' t0 H) as (-> & ->); auto.
    + destruct (tcn_qi_upd sn i d (sd_set_em d (sd_next d) EmLoop (sd_len d)) t0 H) as (-> & ->); auto.
    + auto.
    + auto.
  - intros t0; specialize (K t0); destruct K as [K1 K2]. split; auto. tcn_fa.
    assert (tcn_ackle t0 (tcn_count t0 got) m).
    { destruct Es as [Hm _]. destruct m; cbn; auto. discriminate. }
    intuition.
  - intros t0; specialize (K t0); destruct K as [K1 K2]. split; auto. tcn_fa. intuition.
  - intros t0; specialize (K t0); destruct K as [K1 K2]. unfold tcn_env_take; tcn_vs.
    rewrite tcn_count_snoc.
    split; [|lia].
    assert (Forall (tcn_ackle t0 (tcn_count t0 (ev_got e) + (if tcn_is_seg_of t0 m then 1 else 0)))
                   (tcn_ackq sn t0 ++ tcn_hfw h ++ xs ++ inq ++ li ++ ev_pend e)) as K1'.
    { eapply tcn_ackle_mono_all; [|exact K1]. lia. }
    destruct m; auto.
    rewrite !app_assoc. apply Forall_app; split; [rewrite <- !app_assoc; exact K1'|].
    constructor; [|constructor]. cbn. intros ->. rewrite Nat.eqb_refl. lia.
Qed.

(* ---- the numbers of segments of the Send calls never change ---- *)
Lemma tcn_map_upd {A B} (f : A -> B) i d d' l :
  nth_error l i = Some d -> f d' = f d -> map f (tcn_upd i d' l) = map f l.
Proof.
  revert i; induction l as [|a l IH]; intros [|i] N E; cbn in *; try discriminate.
  - inversion N; subst. now rewrite E.
  - f_equal. eapply IH; eauto.
Qed.
Lemma tcn_sdloc_n i p d d' : tcn_sdloc i p d d' -> sd_n d' = sd_n d.
Proof.
  intros L; destruct L; try reflexivity.
  - eapply tcn_main_same_em; eauto.
  - eapply tcn_main_same_em; eauto.
  - eapply tcn_main_same_em; eauto.
Qed.
Lemma tcn_veff_n p v v' : tcn_veff p v v' -> map sd_n (v_snd v') = map sd_n (v_snd v).
Proof.
  intros E; destruct E; cbn [v_snd]; auto.
  - eapply tcn_map_upd; eauto.
  - eapply tcn_map_upd; eauto. eapply tcn_sdloc_n; eauto.
  - eapply tcn_map_upd; eauto.
Qed.
Lemma tcn_seff_n p x x' : tcn_seff p x x' -> map sd_n (v_snd (fst x')) = map sd_n (v_snd (fst x)).
Proof. intros E; destruct E; cbn [fst v_snd]; auto. eapply tcn_veff_n; eauto. Qed.

(* ---- all of it along a run ---- *)
Definition tcn_inv1 (ns : list nat) (script0 : list tcn_msg) (x : tcn_view * tcn_env) : Prop :=
  tcn_base x /\ tcn_invA script0 x /\ tcn_invS x /\ tcn_invK x /\ map sd_n (v_snd (fst x)) = ns.

Lemma tcn_send0_nth ns t d : nth_error (map tcn_send0 ns) t = Some d -> exists n, nth_error ns t = Some n /\ d = tcn_send0 n.
Proof.
  rewrite nth_error_map. destruct (nth_error ns t); cbn; intros E; inversion E; eauto.
Qed.

Lemma tcn_inv1_init ns ticks script :
  Forall (fun n => 1 <= n) ns -> Forall (fun m => tcn_is_ack m = false) script ->
  tcn_inv1 ns script (tcn_sview (tcn_sys0 ns ticks script)).
Proof.
  intros Hn Hs. unfold tcn_inv1, tcn_sview, tcn_sys0, tcn_view_of, tcn_sess0, tcn_lk; cbn.
  split; [|split; [|split; [|split]]].
  - split; [|split; [constructor|exact Hs]].
    unfold tcn_lview; cbn. tcn_ls.
    intros i d N. apply tcn_send0_nth in N as (n & N & ->).
    assert (1 <= n) by (eapply Forall_forall in Hn; [exact Hn|eapply nth_error_In; eauto]).
    unfold tcn_sd_ok; cbn. repeat split; intros; try discriminate; try lia; auto.
  - split; reflexivity.
  - intros t. unfold tcn_emh, tcn_nextof, tcn_nof, tcn_sdget. cbn.
    destruct (nth_error (map tcn_send0 ns) t) as [d|] eqn:N; [|reflexivity].
    apply tcn_send0_nth in N as (n & N & ->). reflexivity.
  - intros t. unfold tcn_ackq, tcn_inlenof, tcn_sdget. cbn.
    destruct (nth_error (map tcn_send0 ns) t) as [d|] eqn:N; [|split; [constructor|lia]].
    apply tcn_send0_nth in N as (n & N & ->). cbn. split; [constructor|lia].
  - rewrite map_map. cbn. apply map_id.
Qed.

Lemma tcn_seff_inv1 ns script0 p x x' : tcn_seff p x x' -> tcn_inv1 ns script0 x -> tcn_inv1 ns script0 x'.
Proof.
  intros E (B & A & S & K & N). split; [|split; [|split; [|split]]].
  - eapply tcn_seff_base; eauto.
  - eapply tcn_seff_invA; eauto.
  - eapply tcn_seff_invS; eauto.
  - eapply tcn_seff_invK; eauto.
  - rewrite (tcn_seff_n _ _ _ E). exact N.
Qed.

Lemma tcn_erun_inv1 cf ns script0 ps : forall y y',
  tcn_erun cf y ps = Some y' -> tcn_inv1 ns script0 (tcn_sview y) -> tcn_inv1 ns script0 (tcn_sview y').
Proof.
  induction ps as [|p ps IH]; intros y y' R I; cbn in R.
  - inversion R; subst; exact I.
  - destruct (tcn_estep cf y p) as [y1|] eqn:E; [|discriminate].
    eapply IH; [exact R|]. eapply tcn_seff_inv1; [eapply tcn_estep_seff; exact E|exact I].
Qed.

(* ---- Theorem 2: success of Send is sound, for every interleaving ---- *)
Lemma tcn_success_view ns script0 x i d :
  tcn_inv1 ns script0 x ->
  nth_error (v_snd (fst x)) i = Some d -> sd_res d = Some ROk ->
  filter (tcn_is_seg_of i) (ev_got (snd x)) = tcn_xsegs i (sd_n d) /\ nth_error ns i = Some (sd_n d).
Proof.
  intros ((L & _) & _ & S & K & N) Hd Hr.
  destruct L as (Hs & _). destruct (Hs _ _ Hd) as (Hn & Hnx & _ & _ & _ & _ & Hok & _).
  destruct (Hok Hr) as [Hi Ho].
  specialize (S i). specialize (K i). destruct K as [_ K2].
  unfold tcn_inlenof, tcn_emh, tcn_nextof, tcn_nof, tcn_sdget in *. rewrite Hd in *.
  split.
  - (* count i got >= n, and everything that left is a prefix of the n segments *)
    assert (length (tcn_xsegs i (sd_n d)) = sd_n d) as Lx by (unfold tcn_xsegs; now rewrite map_length, seq_length).
    rewrite filter_app in S. rewrite <- app_assoc in S.
    set (g := filter (tcn_is_seg_of i) (ev_got (snd x))) in *.
    assert (length g = tcn_count i (ev_got (snd x))) as Lg by reflexivity.
    assert (sd_n d <= length g) by lia.
    pose proof (f_equal (@length _) S) as Ll. rewrite app_length, firstn_length, Lx in Ll.
    assert (sd_next d = sd_n d) by lia.
    rewrite H0 in S. rewrite firstn_all2 in S by lia.
    assert (length (filter (tcn_is_seg_of i) (v_lo (fst x) ++ v_ops (fst x)) ++
                    match sd_em d with EmPut m => [m] | _ => [] end) = 0) as Lz by lia.
    apply length_zero_iff_nil in Lz. rewrite Lz, app_nil_r in S. exact S.
  - rewrite <- N. rewrite nth_error_map, Hd. reflexivity.
Qed.

Lemma tcn_send_success_sound cf ns ticks script ps y i d :
  Forall (fun n => 1 <= n) ns -> Forall (fun m => tcn_is_ack m = false) script ->
  tcn_erun cf (tcn_sys0 ns ticks script) ps = Some y ->
  nth_error (tcn_snd (sy_s y)) i = Some d -> sd_res d = Some ROk ->
  filter (tcn_is_seg_of i) (ev_got (sy_e y)) = tcn_xsegs i (sd_n d) /\ nth_error ns i = Some (sd_n d).
Proof.
  intros Hn Hs R Hd Hr.
  pose proof (tcn_erun_inv1 cf ns script ps _ _ R (tcn_inv1_init ns ticks script Hn Hs)) as I.
  exact (tcn_success_view ns script (tcn_sview y) i d I Hd Hr).
Qed.

(* ------------------------------------------------------------------------------------------ *)
(* Part 2c: invariant R - the stream of acknowledgements of each Send, in order.  It holds in  *)
(* runs without Send timeouts against a peer that sends no refusals (live runs).               *)
(* ------------------------------------------------------------------------------------------ *)
Definition tcn_noref (m : tcn_msg) : Prop := match m with CRef _ => False | _ => True end.
Definition tcn_noka (m : tcn_msg) : Prop := match m with CKa => False | _ => True end.

Definition tcn_invR (x : tcn_view * tcn_env) : Prop :=
  (forall t,
      map tcn_ackk (filter (tcn_is_ack_of t)
                           (tcn_ackq (v_snd (fst x)) t ++ tcn_hfw (v_h (fst x)) ++ v_xs (fst x) ++ v_in (fst x)
                            ++ v_li (fst x) ++ ev_pend (snd x)))
      = seq (S (tcn_inlenof (v_snd (fst x)) t)) (tcn_count t (ev_got (snd x)) - tcn_inlenof (v_snd (fst x)) t)
      /\ tcn_inlenof (v_snd (fst x)) t <= tcn_count t (ev_got (snd x)))
  /\ (forall i d, nth_error (v_snd (fst x)) i = Some d -> Forall tcn_noref (sd_ack d) /\ sd_stop d = false)
  /\ Forall tcn_noref (tcn_hfw (v_h (fst x)) ++ v_xs (fst x) ++ v_in (fst x) ++ v_li (fst x) ++ ev_script (snd x))
  /\ v_h (fst x) <> HDead
  /\ Forall tcn_noka (v_xs (fst x)).

Definition tcn_elive_run (ps : list tcn_eproc) : Prop := Forall (fun p => tcn_elive p = true \/ p = ESess PStTick) ps.

(* an acknowledgement for transfer t under way to Send t: that Send is still waiting *)
Lemma tcn_route_alive x t k rest :
  tcn_base x -> tcn_invS x -> tcn_invR x ->
  In (CAck t k) (tcn_ackq (v_snd (fst x)) t ++ tcn_hfw (v_h (fst x)) ++ v_xs (fst x) ++ v_in (fst x)
                 ++ v_li (fst x) ++ ev_pend (snd x)) ->
  rest = tt ->
  exists d, nth_error (v_snd (fst x)) t = Some d /\ sd_res d = None.
Proof.
  intros [L _] S (R1 & R2 & _) Hin _.
  destruct (R1 t) as [Hseq Hle]. specialize (S t).
  assert (tcn_inlenof (v_snd (fst x)) t < tcn_count t (ev_got (snd x))) as Hlt.
  { destruct (Nat.le_gt_cases (tcn_count t (ev_got (snd x))) (tcn_inlenof (v_snd (fst x)) t)) as [Hc|]; [|assumption].
    replace (tcn_count t (ev_got (snd x)) - tcn_inlenof (v_snd (fst x)) t) with 0 in Hseq by lia.
    cbn in Hseq. apply map_eq_nil in Hseq.
    assert (In (CAck t k) (filter (tcn_is_ack_of t)
              (tcn_ackq (v_snd (fst x)) t ++ tcn_hfw (v_h (fst x)) ++ v_xs (fst x) ++ v_in (fst x)
               ++ v_li (fst x) ++ ev_pend (snd x)))) as Hf.
    { apply filter_In. split; [assumption|]. cbn. apply Nat.eqb_refl. }
    rewrite Hseq in Hf. destruct Hf. }
  assert (tcn_count t (ev_got (snd x)) <= tcn_nextof (v_snd (fst x)) t) as Hcn.
  { pose proof (f_equal (@length _) S) as Ll.
    rewrite app_length, filter_app, app_length, firstn_length in Ll. unfold tcn_count. lia. }
  unfold tcn_inlenof, tcn_nextof, tcn_sdget in *.
  destruct (nth_error (v_snd (fst x)) t) as [d|] eqn:N; [|lia].
  exists d; split; [reflexivity|].
  destruct L as (Hs & _). destruct (Hs _ _ N) as (_ & Hnx & _ & _ & _ & _ & Hok & _ & _ & Hres & _).
  destruct (sd_res d) as [r|] eqn:Rr; [|reflexivity].
  destruct (Hres r eq_refl) as [->|Hst].
  - destruct (Hok eq_refl) as [Hi _]. lia.
  - destruct (R2 _ _ N) as [_ Hf]. congruence.
Qed.

Lemma tcn_ackof_other t0 m t : tcn_mtid m = Some t -> t0 <> t -> tcn_is_ack_of t0 m = false.
Proof. destruct m; cbn; intros E Hn; inversion E; subst; auto. apply Nat.eqb_neq. congruence. Qed.

Lemma tcn_seff_invR p x x' :
  tcn_seff p x x' -> (tcn_elive p = true \/ p = ESess PStTick) ->
  tcn_base x -> tcn_invS x -> tcn_invR x -> tcn_invR x'.
Proof.
  intros E Lp B Sv R. pose proof R as (R1 & R2 & R3 & R4 & R5). pose proof B as [L [Ep Es]].
  assert (forall i, p <> ESess (PSendTimeout i)) as Hlive
    by (intros i ->; destruct Lp as [Lp|Lp]; discriminate).
  clear Lp.
  destruct E as [q v v' e V|m r pend got xs inq ops li lo h rx sn cl rep up
                |m r scr got xs inq ops li lo h rx sn cl rep up|m e xs inq ops li lo h rx sn cl rep up];
    unfold tcn_invR in *; tcn_vs.
  - destruct L as (Hs & Hh & Hi & Ho).
    destruct V; tcn_vs.
    + auto.
    + (* reader pushes *)
      split; [|split; [|split; [|split]]]; auto.
      * intros t0. specialize (R1 t0). tcn_lna.
      * tcn_fa. intuition.
    + auto.
    + (* stage drops a keepalive *)
      split; [|split; [|split; [|split]]]; auto.
      * intros t0. specialize (R1 t0). tcn_lna.
      * tcn_fa. intuition.
    + (* stage takes a message to hand it up *)
      split; [|split; [|split; [|split]]]; auto.
      * intros t0. specialize (R1 t0). tcn_lna.
      * tcn_fa. intuition.
      * tcn_fa. intuition. destruct m; cbn; auto; congruence.
    + auto.
    + (* handle takes a segment *)
      split; [|split; [|split; [|split]]]; auto.
      * intros t0. specialize (R1 t0). tcn_lna.
      * cbn [tcn_hfw app] in *. tcn_fa. intuition.
      * discriminate.
      * tcn_fa. intuition.
    + (* handle takes an acknowledgement: the Send is still there *)
      assert (exists k, m = CAck t k) as [k ->].
      { destruct H as [Hk| ->]; [assumption|]. cbn [tcn_hfw app] in R3. tcn_fa. destruct R3 as [[] _]. }
      destruct (tcn_route_alive (mkV (CAck t k :: xs) inq ops li lo HIdle rx sn cl rep up, e) t k tt B Sv R)
        as (d & Nd & Rd); [|reflexivity|].
      { tcn_vs. apply in_or_app; right. cbn [tcn_hfw app]. left; reflexivity. }
      tcn_vs. unfold tcn_h_route. rewrite Nd, Rd.
      split; [|split; [|split; [|split]]]; auto.
      * discriminate.
      * tcn_fa. intuition.
    + (* a keepalive never gets as far as handle *)
      tcn_fa. destruct R5 as [[] _].
    + split; [|split; [|split; [|split]]]; auto.
      * intros t0. specialize (R1 t0). destruct fin; cbn [tcn_hfw app] in *; auto.
      * destruct fin; cbn [tcn_hfw app] in *; auto.
      * destruct fin; discriminate.
    + split; [|split; [|split; [|split]]]; auto. discriminate.
    + (* handle forwards to the ackChan *)
      cbn in Hh. destruct Hh as [Hm Hp].
      split; [|split; [|split; [|split]]]; auto.
      * intros t0. specialize (R1 t0).
        unfold tcn_ackq, tcn_inlenof in *. rewrite !(tcn_sdget_upd _ _ _ _ _ _ _ H).
        cbn [tcn_hfw app sd_ack sd_inlen sd_set_ack] in *.
        destruct (Nat.eqb_spec t0 t) as [->|Hne].
        -- unfold tcn_sdget in *. rewrite H in *. tcn_lna.
        -- pose proof (tcn_ackof_other t0 m t Hm Hne) as Hf. tcn_ln. rewrite Hf in R1. tcn_ln. auto.
      * intros i d0 N. rewrite (tcn_nth_upd _ _ _ _ _ H) in N.
        destruct (Nat.eqb_spec i t) as [->|]; [|eauto].
        inversion N; subst. destruct (R2 _ _ H) as [Hq Hst]. cbn. split; [|assumption].
        cbn [tcn_hfw app] in R3. tcn_fa. intuition.
      * cbn [tcn_hfw app] in *. tcn_fa. intuition.
      * discriminate.
    + (* a step inside one Send *)
      assert (sd_stop d = false) as Hstop by (apply (R2 _ _ H)).
      destruct H0.
      * congruence.
      * split; [|split; [|split; [|split]]]; auto.
        -- intros t0. destruct (tcn_qi_upd sn i d (sd_set_em d (S (sd_next d)) (EmPut (CSeg i (S (sd_next d) =? sd_n d))) (sd_len d)) t0 H) as (-> & ->); auto.
        -- intros j d0 N. rewrite (tcn_nth_upd _ _ _ _ _ H) in N.
           destruct (Nat.eqb_spec j i) as [->|]; [|eauto]. inversion N; subst. exact (R2 _ _ H).
      * split; [|split; [|split; [|split]]]; auto.
        -- intros t0. destruct (tcn_qi_upd sn i d (sd_set_em d (sd_next d) EmDone (Some (sd_next d))) t0 H) as (-> & ->); auto.
        -- intros j d0 N. rewrite (tcn_nth_upd _ _ _ _ _ H) in N.
           destruct (Nat.eqb_spec j i) as [->|]; [|eauto]. inversion N; subst. exact (R2 _ _ H).
      * split; [|split; [|split; [|split]]]; auto.
        -- intros t0. destruct (tcn_main_same_q d d') as [E1 E2]; auto.
           destruct (tcn_qi_upd sn i d d' t0 H) as (-> & ->); auto.
        -- intros j d0 N. rewrite (tcn_nth_upd _ _ _ _ _ H) in N.
           destruct (Nat.eqb_spec j i) as [->|]; [|eauto]. inversion N; subst.
           destruct (tcn_main_same_q d d0) as [E1 E2]; auto. rewrite E1.
           destruct (R2 _ _ H) as [Hq _]. split; [assumption|].
           unfold tcn_main_len in H0. destruct (sd_res d); [discriminate|].
           destruct (sd_len d); inversion H0; subst; cbn; assumption.
      * (* the main loop takes the next acknowledgement *)
        unfold tcn_main_ack in H0. destruct (sd_res d) eqn:Rd; [discriminate|].
        destruct (sd_ack d) as [|m r] eqn:Aq; [discriminate|].
        destruct (Hs _ _ H) as (_ & _ & _ & _ & _ & _ & _ & _ & _ & _ & Ha). rewrite Aq in Ha.
        apply Forall_cons_iff in Ha as [[Hm Hp] Hr].
        destruct (R2 _ _ H) as [Hq _]. rewrite Aq in Hq. apply Forall_cons_iff in Hq as [Hnr Hq].
        destruct m; try discriminate; try (destruct Hnr).
        cbn in Hm. inversion Hm; subst t. inversion H0; subst d'. clear H0.
        split; [|split; [|split; [|split]]]; auto.
        -- intros t0. specialize (R1 t0).
           unfold tcn_ackq, tcn_inlenof in *. rewrite !(tcn_sdget_upd _ _ _ _ _ _ _ H).
           cbn [sd_ack sd_inlen sd_set_main].
           destruct (Nat.eqb_spec t0 i) as [->|Hne]; [|auto].
           unfold tcn_sdget in *. rewrite H in *. rewrite Aq in R1.
           destruct R1 as [Hseq Hle]. tcn_ln. rewrite Nat.eqb_refl in Hseq. cbn [map tcn_ackk] in Hseq.
           destruct (tcn_count i (ev_got e) - sd_inlen d) as [|c] eqn:Hc; [discriminate|].
           cbn [seq] in Hseq. inversion Hseq; subst k.
           replace (tcn_count i (ev_got e) - S (sd_inlen d)) with c by lia.
           split; [assumption|lia].
        -- intros j d0 N. rewrite (tcn_nth_upd _ _ _ _ _ H) in N.
           destruct (Nat.eqb_spec j i) as [->|]; [|eauto]. inversion N; subst. cbn. split; assumption.
      * (* a timeout is not a live step *)
        exfalso. eapply Hlive; reflexivity.
    + (* emitter puts a segment *)
      split; [|split; [|split; [|split]]]; auto.
      * intros t0. destruct (tcn_qi_upd sn i d (sd_set_em d (sd_next d) EmLoop (sd_len d)) t0 H) as (-> & ->); auto.
      * intros j d0 N. rewrite (tcn_nth_upd _ _ _ _ _ H) in N.
        destruct (Nat.eqb_spec j i) as [->|]; [|eauto]. inversion N; subst. exact (R2 _ _ H).
    + auto.
    + auto.
  - (* the peer writes a message of its script *)
    tcn_fa. destruct Es as [Hm Es'].
    split; [|split; [|split; [|split]]]; auto.
    + intros t0. specialize (R1 t0). tcn_ln.
      assert (tcn_is_ack_of t0 m = false) as -> by (destruct m; try reflexivity; discriminate).
      cbn [app]. auto.
    + tcn_fa. intuition.
  - (* the peer writes an acknowledgement it owes *)
    split; [|split; [|split; [|split]]]; auto.
    + intros t0. specialize (R1 t0). tcn_lna.
    + tcn_fa. destruct Ep as [[Hm _] _]. intuition. destruct m; try discriminate; exact I.
  - (* the peer reads a message *)
    unfold tcn_env_take; tcn_vs.
    split; [|split; [|split; [|split]]]; auto.
    intros t0. specialize (R1 t0). destruct R1 as [Hseq Hle]. rewrite tcn_count_snoc.
    destruct m; cbn [tcn_is_seg_of]; rewrite ?Nat.add_0_r; auto.
    destruct (Nat.eqb_spec t t0) as [->|Hne].
    + split; [|lia]. rewrite !app_assoc. rewrite filter_app, map_app. rewrite <- !app_assoc. rewrite Hseq.
      cbn. rewrite Nat.eqb_refl. cbn.
      replace (tcn_count t0 (ev_got e) + 1 - tcn_inlenof sn t0) with (S (tcn_count t0 (ev_got e) - tcn_inlenof sn t0)) by lia.
      rewrite seq_S. f_equal. f_equal. lia.
    + rewrite Nat.add_0_r. split; [|assumption].
      rewrite !app_assoc. rewrite filter_app. rewrite <- !app_assoc. cbn.
      destruct (Nat.eqb_spec t t0); [congruence|]. rewrite app_nil_r. assumption.
Qed.

(* ---- live runs ---- *)
Definition tcn_inv2 (ns : list nat) (script0 : list tcn_msg) (x : tcn_view * tcn_env) : Prop :=
  tcn_inv1 ns script0 x /\ tcn_invR x.

Definition tcn_script_live (script : list tcn_msg) : Prop :=
  Forall (fun m => match m with CSeg _ _ => True | CKa => True | _ => False end) script.

Lemma tcn_script_live_noack script : tcn_script_live script -> Forall (fun m => tcn_is_ack m = false) script.
Proof. apply Forall_impl. intros [] H; try reflexivity; destruct H. Qed.
Lemma tcn_script_live_noref script : tcn_script_live script -> Forall tcn_noref script.
Proof. apply Forall_impl. intros [] H; try exact I; destruct H. Qed.

Lemma tcn_inv2_init ns ticks script :
  Forall (fun n => 1 <= n) ns -> tcn_script_live script ->
  tcn_inv2 ns script (tcn_sview (tcn_sys0 ns ticks script)).
Proof.
  intros Hn Hs. split; [apply tcn_inv1_init; auto using tcn_script_live_noack|].
  unfold tcn_invR, tcn_sview, tcn_sys0, tcn_view_of, tcn_sess0, tcn_lk; cbn.
  split; [|split; [|split; [|split]]].
  - intros t. unfold tcn_ackq, tcn_inlenof, tcn_sdget.
    destruct (nth_error (map tcn_send0 ns) t) as [d|] eqn:N; [|split; [reflexivity|lia]].
    apply tcn_send0_nth in N as (n & N & ->). cbn. split; [reflexivity|lia].
  - intros i d N. apply tcn_send0_nth in N as (n & N & ->). cbn. split; [constructor|reflexivity].
  - apply tcn_script_live_noref; assumption.
  - discriminate.
  - constructor.
Qed.

Lemma tcn_erun_inv2 cf ns script0 ps : forall y y',
  tcn_erun cf y ps = Some y' -> tcn_elive_run ps ->
  tcn_inv2 ns script0 (tcn_sview y) -> tcn_inv2 ns script0 (tcn_sview y').
Proof.
  induction ps as [|p ps IH]; intros y y' R Lv I; cbn in R.
  - inversion R; subst; exact I.
  - destruct (tcn_estep cf y p) as [y1|] eqn:E; [|discriminate].
    apply Forall_cons_iff in Lv as [Lp Lv].
    eapply IH; [exact R|exact Lv|].
    apply tcn_estep_seff in E. destruct I as [I1 IR]. split.
    + eapply tcn_seff_inv1; eauto.
    + destruct I1 as (B & _ & Sv & _). eapply tcn_seff_invR; eauto.
Qed.

(* ------------------------------------------------------------------------------------------ *)
(* Part 3: a state in which no live process can step                                           *)
(* ------------------------------------------------------------------------------------------ *)
Definition tcn_caps_ok (cf : tcn_conf) : Prop :=
  1 <= cf_in cf /\ 1 <= cf_out cf /\ 1 <= cf_xin cf /\ 1 <= cf_xout cf /\ 1 <= cf_ack cf /\ 1 <= cf_rep cf.

Lemma tcn_procs_in q s :
  In q (tcn_procs s)
  \/ exists i, s <= i /\ (q = PEmit i \/ q = PSendLen i \/ q = PSendAck i \/ q = PSendTimeout i).
Proof.
  unfold tcn_procs.
  assert (forall i, i < s -> In (PEmit i) (tcn_procs s) /\ In (PSendLen i) (tcn_procs s)
                              /\ In (PSendAck i) (tcn_procs s) /\ In (PSendTimeout i) (tcn_procs s)) as Hin.
  { intros i Hi. unfold tcn_procs.
    repeat split; apply in_or_app; right; apply in_flat_map; exists i; (split; [apply in_seq; lia|cbn; tauto]). }
  destruct q; try (left; cbn; tauto);
    (destruct (Nat.lt_ge_cases i s) as [Hl|Hg];
     [left; destruct (Hin i Hl) as (? & ? & ? & ?); assumption
     |right; exists i; split; [assumption|tauto]]).
Qed.

Lemma tcn_sstep_out_of_range cf s li lo i q :
  length (tcn_snd s) <= i ->
  q = PEmit i \/ q = PSendLen i \/ q = PSendAck i \/ q = PSendTimeout i ->
  tcn_sstep cf s li lo q = None.
Proof.
  intros L Hq. assert (nth_error (tcn_snd s) i = None) as N by (apply nth_error_None; assumption).
  destruct Hq as [Hq|[Hq|[Hq|Hq]]]; subst q; cbn; unfold tcn_send_apply; rewrite N; reflexivity.
Qed.

Lemma tcn_estuck_spec cf y :
  tcn_estuck cf y = true -> forall p, tcn_elive p = true -> tcn_estep cf y p = None.
Proof.
  unfold tcn_estuck. intros F p Lp. rewrite forallb_forall in F.
  assert (In p (tcn_eprocs (length (tcn_snd (sy_s y)))) -> tcn_estep cf y p = None) as Hin.
  { intros Hi. specialize (F p Hi). rewrite Lp in F. cbn in F.
    destruct (tcn_estep cf y p); [discriminate|reflexivity]. }
  destruct p as [q| | |]; try (apply Hin; cbn; tauto).
  destruct (tcn_procs_in q (length (tcn_snd (sy_s y)))) as [Hq|(i & Hi & Hq)].
  - apply Hin. unfold tcn_eprocs. apply in_or_app; right. apply in_map; assumption.
  - cbn. rewrite (tcn_sstep_out_of_range cf _ _ _ i q Hi Hq). reflexivity.
Qed.

(* everything the peer wrote has been acknowledged to it, every complete incoming transfer has
   been handed up exactly once (in the order of the END segments), every Send has returned success
   after the peer read exactly its segments, and the peer has nothing left to write *)
Definition tcn_efinal (ns : list nat) (script : list tcn_msg) (y : tcn_sys) : Prop :=
  filter tcn_is_ack (ev_got (sy_e y)) = tcn_acks [] script
  /\ tcn_up (sy_s y) = tcn_ups script
  /\ (forall i n, nth_error ns i = Some n ->
        exists d, nth_error (tcn_snd (sy_s y)) i = Some d /\ sd_res d = Some ROk
                  /\ filter (tcn_is_seg_of i) (ev_got (sy_e y)) = tcn_xsegs i n)
  /\ ev_script (sy_e y) = [] /\ ev_pend (sy_e y) = [].

Lemma tcn_put_nil {A} cap (m : A) : 1 <= cap -> tcn_put cap [] m = Some [m].
Proof. intros L. unfold tcn_put. cbn. destruct cap; [lia|reflexivity]. Qed.
Lemma tcn_link_write_empty T m : exists l, tcn_link_write T tcn_link0 m = Some l.
Proof. destruct T; cbn; eauto. Qed.

Lemma tcn_stuck_final cf ns script y :
  cf_fix cf = true -> tcn_caps_ok cf ->
  tcn_inv2 ns script (tcn_sview y) ->
  tcn_estuck cf y = true -> tcn_efinal ns script y.
Proof.
  intros Fx (Ci & Co & Cxi & Cxo & Ca & Cr) [I1 IR] St.
  pose proof (tcn_estuck_spec cf y St) as Sp. clear St.
  destruct y as [s li lo e]. destruct s as [inq out wh st xin xout h rx sn cl rep up ticks].
  destruct li as [qi hi]. destruct lo as [qo ho]. destruct e as [scr pend got].
  (* 1. the peer reads: nothing is under way to it *)
  pose proof (Sp ERead eq_refl) as W. cbn in W.
  destruct ho; [discriminate|]. destruct qo; [|discriminate]. clear W.
  (* 2. the writer is idle and outChan is empty *)
  pose proof (Sp (ESess PWWrite) eq_refl) as W. cbn in W.
  destruct wh as [m|].
  { destruct (tcn_link_write_empty (cf_T cf) m) as [l Hl]. unfold tcn_link0 in Hl. rewrite Hl in W. discriminate. }
  clear W.
  pose proof (Sp (ESess PWTake) eq_refl) as W. cbn in W.
  destruct out; [|discriminate]. clear W.
  (* 3. the stage is not inside messageOut, and ExchangeMsgOut is empty *)
  assert (st = GMain \/ exists m, st = GUp m) as Hst.
  { pose proof (Sp (ESess PStPut) eq_refl) as W. cbn in W.
    destruct st as [|o|m|m o]; eauto; rewrite (tcn_put_nil _ _ Co) in W; discriminate. }
  assert (xout = []) as ->.
  { pose proof (Sp (ESess PStOut) eq_refl) as W. cbn in W.
    destruct Hst as [->|[m ->]]; cbn in W; destruct xout; auto; try discriminate.
    rewrite Fx in W; discriminate. }
  (* 4. the upper layer and Client.handle are idle *)
  pose proof (Sp (ESess PUpper) eq_refl) as W. cbn in W. destruct rep; [|discriminate]. clear W.
  pose proof (Sp (ESess PClient) eq_refl) as W. cbn in W.
  destruct cl as [t|]; [rewrite (tcn_put_nil _ _ Cr) in W; discriminate|]. clear W.
  (* 5. TransferManager.handle is at its select and ExchangeMsgIn is empty *)
  assert (h = HIdle /\ xin = []) as [-> ->].
  { pose proof (Sp (ESess PH) eq_refl) as W. cbn in W. unfold tcn_h_step in W; cbn in W.
    destruct h as [|a fin|t|t m|].
    - destruct xin as [|m r]; [auto|]. destruct m; discriminate.
    - rewrite (tcn_put_nil _ _ Cxo) in W. discriminate.
    - discriminate.
    - exfalso.
      destruct I1 as (B & _ & Sv & _).
      pose proof B as [(_ & Hh & _) _]. pose proof IR as (_ & _ & R3 & _).
      cbn in Hh. destruct Hh as [Hm _]. cbn in R3. apply Forall_cons_iff in R3 as [Hnr _].
      destruct m; try discriminate; try (destruct Hnr).
      cbn in Hm. inversion Hm; subst t0.
      destruct (tcn_route_alive _ t k tt B Sv IR) as (d & Nd & Rd); [|reflexivity|].
      { cbn. apply in_or_app; right. left; reflexivity. }
      cbn in Nd. rewrite Nd in W.
      destruct (tcn_put (cf_ack cf) (sd_ack d) (CAck t k)) eqn:P; [discriminate|].
      unfold tcn_put in P. destruct (Nat.ltb_spec (length (sd_ack d)) (cf_ack cf)); [discriminate|].
      pose proof (Sp (ESess (PSendAck t)) eq_refl) as W2. cbn in W2.
      unfold tcn_send_apply in W2; cbn in W2. rewrite Nd in W2.
      unfold tcn_main_ack in W2. rewrite Rd in W2.
      destruct (sd_ack d) as [|m r]; [cbn in *; lia|]. destruct m; discriminate.
    - exfalso. destruct IR as (_ & _ & _ & R4 & _). apply R4; reflexivity. }
  (* 6. the stage is at its outer select and inChan is empty *)
  assert (st = GMain) as ->.
  { destruct Hst as [->|[m ->]]; [reflexivity|].
    pose proof (Sp (ESess PStIn) eq_refl) as W. cbn in W. rewrite (tcn_put_nil _ _ Cxi) in W. discriminate. }
  pose proof (Sp (ESess PStIn) eq_refl) as W. cbn in W. destruct inq; [|discriminate]. clear W.
  (* 7. the reader has nothing, nothing is under way from the peer *)
  pose proof (Sp (ESess PRPush) eq_refl) as W. cbn in W.
  destruct hi as [m|]; [rewrite (tcn_put_nil _ _ Ci) in W; discriminate|]. clear W.
  pose proof (Sp (ESess PRRead) eq_refl) as W. cbn in W. destruct qi; [|discriminate]. clear W.
  (* 8. the peer has nothing left to write *)
  pose proof (Sp EWScript eq_refl) as W. cbn in W.
  destruct scr as [|m r].
  2:{ destruct (tcn_link_write_empty (cf_T cf) m) as [l Hl]. unfold tcn_link0 in Hl. rewrite Hl in W. discriminate. }
  clear W.
  pose proof (Sp EWAck eq_refl) as W. cbn in W.
  destruct pend as [|m r].
  2:{ destruct (tcn_link_write_empty (cf_T cf) m) as [l Hl]. unfold tcn_link0 in Hl. rewrite Hl in W. discriminate. }
  clear W.
  (* 9. what the invariants say about this state *)
  destruct I1 as (B & (A1 & A2) & Sv & K & N).
  destruct IR as (R1 & R2 & _).
  unfold tcn_invS, tcn_sview, tcn_view_of, tcn_lk in *; cbn in *.
  rewrite !app_nil_r in *.
  unfold tcn_efinal; cbn. split; [exact A1|]. split; [exact A2|]. split; [|auto].
  intros i n Hn.
  assert (exists d, nth_error sn i = Some d /\ sd_n d = n) as (d & Nd & Hdn).
  { rewrite <- N in Hn. rewrite nth_error_map in Hn. destruct (nth_error sn i) as [d|]; inversion Hn; eauto. }
  exists d. split; [exact Nd|].
  destruct B as [(Hs & _) _]. destruct (Hs _ _ Nd) as (Hn1 & Hnx & _ & Hdone & Hlen & _ & _ & Hwait & _ & Hres & _).
  destruct (R2 _ _ Nd) as [_ Hstop].
  (* the emitting goroutine has returned *)
  assert (sd_em d = EmDone) as Hem.
  { pose proof (Sp (ESess (PEmit i)) eq_refl) as W. cbn in W. rewrite Nd in W. unfold tcn_emit in W.
    destruct (sd_em d); [|rewrite (tcn_put_nil _ _ Cxo) in W; discriminate|reflexivity].
    rewrite Hstop in W. destruct (sd_next d <? sd_n d); discriminate. }
  destruct (Hdone Hem Hstop) as [Hnext Hlo].
  specialize (Sv i). specialize (R1 i). unfold tcn_emh, tcn_nextof, tcn_nof, tcn_ackq, tcn_inlenof, tcn_sdget in *.
  rewrite Nd in *. rewrite Hem, Hnext, app_nil_r in Sv.
  assert (length (tcn_xsegs i (sd_n d)) = sd_n d) as Lx by (unfold tcn_xsegs; now rewrite map_length, seq_length).
  rewrite firstn_all2 in Sv by lia.
  assert (tcn_count i got = sd_n d) as Hc by (unfold tcn_count; rewrite Sv; exact Lx).
  split; [|rewrite <- Hdn; exact Sv].
  destruct (sd_res d) as [r|] eqn:Rd.
  - destruct (Hres r eq_refl) as [->|Hs']; [reflexivity|congruence].
  - exfalso.
    pose proof (Sp (ESess (PSendLen i)) eq_refl) as W. cbn in W.
    unfold tcn_send_apply in W; cbn in W. rewrite Nd in W. unfold tcn_main_len in W. rewrite Rd in W.
    pose proof (Sp (ESess (PSendAck i)) eq_refl) as W2. cbn in W2.
    unfold tcn_send_apply in W2; cbn in W2. rewrite Nd in W2. unfold tcn_main_ack in W2. rewrite Rd in W2.
    destruct (sd_len d) eqn:Ln; [discriminate|].
    destruct (sd_ack d) as [|m r] eqn:Aq; [|destruct m; discriminate].
    destruct Hlo as [Hl|Ho]; [discriminate|].
    destruct R1 as [Hseq Hle]. apply (f_equal (@length _)) in Hseq. rewrite seq_length in Hseq. cbn in Hseq.
    unfold tcn_count in Hc.
    apply (Hwait eq_refl). split; [assumption|lia].
Qed.

(* ------------------------------------------------------------------------------------------ *)
(* Part 4: the theorems about one session                                                      *)
(* ------------------------------------------------------------------------------------------ *)
Lemma tcn_estuck_false cf y :
  tcn_estuck cf y = false -> exists p y', tcn_elive p = true /\ tcn_estep cf y p = Some y'.
Proof.
  unfold tcn_estuck. intros F.
  assert (exists p, In p (tcn_eprocs (length (tcn_snd (sy_s y))))
                    /\ (negb (tcn_elive p) || match tcn_estep cf y p with Some _ => false | None => true end) = false)
    as (p & _ & Hp).
  { induction (tcn_eprocs (length (tcn_snd (sy_s y)))) as [|a l IH]; cbn in F; [discriminate|].
    apply andb_false_iff in F as [F|F].
    - exists a; split; [left; reflexivity|assumption].
    - destruct (IH F) as (p & Hi & Hp). exists p; split; [right; assumption|assumption]. }
  apply orb_false_iff in Hp as [H1 H2]. apply negb_false_iff in H1.
  destruct (tcn_estep cf y p) as [y'|] eqn:E; [|discriminate]. eauto.
Qed.

(* Theorem 1: with the repair, one session against the ideal peer never stalls *)
Lemma tcn_session_progress cf ns ticks script ps y :
  cf_fix cf = true -> tcn_caps_ok cf ->
  Forall (fun n => 1 <= n) ns -> tcn_script_live script ->
  tcn_erun cf (tcn_sys0 ns ticks script) ps = Some y -> tcn_elive_run ps ->
  (exists p y', tcn_elive p = true /\ tcn_estep cf y p = Some y') \/ tcn_efinal ns script y.
Proof.
  intros Fx Cp Hn Hs R Lv.
  pose proof (tcn_erun_inv2 cf ns script ps _ _ R Lv (tcn_inv2_init ns ticks script Hn Hs)) as I.
  destruct (tcn_estuck cf y) eqn:St.
  - right. eapply tcn_stuck_final; eauto.
  - left. apply tcn_estuck_false; assumption.
Qed.

Lemma tcn_caps_real fx T : tcn_caps_ok (tcn_real fx T).
Proof. unfold tcn_caps_ok, tcn_real; cbn. unfold tcn_cap_in, tcn_cap_out, tcn_cap_xin, tcn_cap_xout, tcn_cap_ack, tcn_cap_rep. lia. Qed.

(* live runs as a boolean, for the witnesses *)
Definition tcn_elive_runb (ps : list tcn_eproc) : bool :=
  forallb (fun p => match p with ESess (PSendTimeout _) => false | _ => true end) ps.
Lemma tcn_elive_runb_ok ps : tcn_elive_runb ps = true -> tcn_elive_run ps.
Proof.
  unfold tcn_elive_runb, tcn_elive_run. rewrite forallb_forall, Forall_forall.
  intros H p Hp. specialize (H p Hp). destruct p as [q| | |]; auto. destruct q; auto; discriminate.
Qed.

(* the schedule of the witness of defect (1): the peer writes as fast as the transport takes it,
   the stage always prefers its incoming side, handle runs whenever it can, everything that
   drains the outgoing side comes last *)
Definition tcn_prio_burst : list tcn_eproc :=
  [EWScript; ESess PRRead; ESess PRPush; ESess PStIn; ESess PH; ESess PStOut; ESess PStPut;
   ESess PWTake; ESess PWWrite; ERead; EWAck; ESess PClient; ESess PUpper].
Definition tcn_burst_run (fx : bool) (T n : nat) : list tcn_eproc * tcn_sys :=
  tcn_greedy (tcn_estep (tcn_real fx T)) (40 * n) (tcn_sys0 [] 0 (tcn_xsegs 0 n)) tcn_prio_burst.

(* without b52fcd3: 66 pipelined segments over net.Pipe stall the receiving session for good -
   nothing has been acknowledged to the peer, nothing handed up, nobody can step *)
Lemma tcn_burst_stalls_without_fix :
  let cf := tcn_real false 0 in
  let ps := fst (tcn_burst_run false 0 66) in
  let y := snd (tcn_burst_run false 0 66) in
  tcn_erun cf (tcn_sys0 [] 0 (tcn_xsegs 0 66)) ps = Some y
  /\ tcn_elive_run ps
  /\ tcn_estuck cf y = true
  /\ filter tcn_is_ack (ev_got (sy_e y)) = [] /\ tcn_up (sy_s y) = []
  /\ length (tcn_acks [] (tcn_xsegs 0 66)) = 66 /\ tcn_ups (tcn_xsegs 0 66) = [0]
  /\ tcn_st (sy_s y) = GUp (CSeg 0 true) /\ tcn_h (sy_s y) = HAckOut (CAck 0 33) None
  /\ length (tcn_xin (sy_s y)) = 32 /\ length (tcn_xout (sy_s y)) = 32.
Proof.
  cbv zeta. split; [vm_compute; reflexivity|].
  split; [apply tcn_elive_runb_ok; vm_compute; reflexivity|].
  vm_compute. repeat split; reflexivity.
Qed.

(* the same schedule with the repair runs to the end *)
Lemma tcn_burst_completes_with_fix :
  let y := snd (tcn_burst_run true 0 66) in
  tcn_estuck (tcn_real true 0) y = true
  /\ length (filter tcn_is_ack (ev_got (sy_e y))) = 66 /\ tcn_up (sy_s y) = [0].
Proof. vm_compute. repeat split; reflexivity. Qed.
