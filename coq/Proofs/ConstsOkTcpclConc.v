(* ConstsOkTcpclConc.v - the channel capacities and operator shapes regenerated from the Go source
   (gen/Consts.v) coincide with the ones the channel-network model is written against
   (Model/SpecTcpclConc.v, Model/TcpclConc.v).  A changed capacity, a new or removed channel
   operation in one of the modelled functions breaks the build of Properties/C11_conc.v. *)
From Coq Require Import ZArith NArith List.
Import ListNotations.
From DTN Require Import Consts SpecTcpclConc TcpclConc.
Open Scope Z_scope.

(* the capacities the model uses are the literals of the constructor functions *)
Lemma tcn_caps_ok_consts :
  pkg_cla_tcpclv4_internal_utils__NewMessageSwitchReaderWriter__lits = [Z.of_nat tcn_cap_in; Z.of_nat tcn_cap_out]
  /\ pkg_cla_tcpclv4_internal_stages__NewStageHandler__lits = [Z.of_nat tcn_cap_xin; Z.of_nat tcn_cap_xout]
  /\ nth 2 pkg_cla_tcpclv4_internal_utils__TransferManager_Send__lits 0 = Z.of_nat tcn_cap_ack
  /\ nth 0 pkg_cla_tcpclv4__Client_Start__lits 0 = Z.of_nat tcn_cap_rep
  /\ pkg_cla_tcpclv4_internal_utils__NewTransferManager__lits = []        (* chanBundles unbuffered *)
  /\ pkg_cla_tcpclv4_internal_utils__NewKeepaliveTicker__lits = [0].      (* ticker channel unbuffered *)
Proof. repeat split; reflexivity. Qed.

Lemma tcn_caps_spec :
  Z.of_nat tcn_cap_in = stc_in_chan_len /\ Z.of_nat tcn_cap_out = stc_out_chan_len
  /\ Z.of_nat tcn_cap_xin = stc_exchange_in_len /\ Z.of_nat tcn_cap_xout = stc_exchange_out_len
  /\ Z.of_nat tcn_cap_ack = stc_ack_chan_len /\ Z.of_nat tcn_cap_rep = stc_report_chan_len.
Proof. repeat split; reflexivity. Qed.

Lemma tcn_real_caps fx T :
  tcn_real fx T = mkTcnConf fx 32 32 32 32 32 32 T.
Proof. reflexivity. Qed.

Lemma tcn_switch_shapes_ok :
  pkg_cla_tcpclv4_internal_utils__NewMessageSwitchReaderWriter__lits = stc_NewMessageSwitch_lits
  /\ pkg_cla_tcpclv4_internal_utils__NewMessageSwitchReaderWriter__ops = stc_NewMessageSwitch_ops
  /\ pkg_cla_tcpclv4_internal_utils__MessageSwitchReaderWriter_handleIn__lits = stc_handleIn_lits
  /\ pkg_cla_tcpclv4_internal_utils__MessageSwitchReaderWriter_handleIn__ops = stc_handleIn_ops
  /\ pkg_cla_tcpclv4_internal_utils__MessageSwitchReaderWriter_handleOut__lits = stc_handleOut_lits
  /\ pkg_cla_tcpclv4_internal_utils__MessageSwitchReaderWriter_handleOut__ops = stc_handleOut_ops
  /\ pkg_cla_tcpclv4_internal_utils__MessageSwitchReaderWriter_sendErr__lits = stc_sendErr_lits
  /\ pkg_cla_tcpclv4_internal_utils__MessageSwitchReaderWriter_sendErr__ops = stc_sendErr_ops.
Proof. repeat split; reflexivity. Qed.

Lemma tcn_manager_shapes_ok :
  pkg_cla_tcpclv4_internal_utils__NewTransferManager__lits = stc_NewTransferManager_lits
  /\ pkg_cla_tcpclv4_internal_utils__NewTransferManager__ops = stc_NewTransferManager_ops
  /\ pkg_cla_tcpclv4_internal_utils__TransferManager_handle__ops = stc_tm_handle_ops
  /\ pkg_cla_tcpclv4_internal_utils__TransferManager_Send__lits = stc_Send_lits
  /\ pkg_cla_tcpclv4_internal_utils__NewKeepaliveTicker__lits = stc_NewKeepaliveTicker_lits
  /\ pkg_cla_tcpclv4_internal_utils__NewKeepaliveTicker__ops = stc_NewKeepaliveTicker_ops
  /\ pkg_cla_tcpclv4_internal_utils__KeepaliveTicker_Reschedule__lits = stc_Reschedule_lits
  /\ pkg_cla_tcpclv4_internal_utils__KeepaliveTicker_Reschedule__ops = stc_Reschedule_ops.
Proof. repeat split; reflexivity. Qed.

Lemma tcn_stage_shapes_ok :
  pkg_cla_tcpclv4_internal_stages__NewStageHandler__lits = stc_NewStageHandler_lits
  /\ pkg_cla_tcpclv4_internal_stages__NewStageHandler__ops = stc_NewStageHandler_ops
  /\ pkg_cla_tcpclv4_internal_stages__StageHandler_handler__lits = stc_handler_lits
  /\ pkg_cla_tcpclv4_internal_stages__StageHandler_handler__ops = stc_handler_ops
  /\ pkg_cla_tcpclv4_internal_stages__SessEstablishedStage_Handle__lits = stc_Handle_lits
  /\ pkg_cla_tcpclv4_internal_stages__SessEstablishedStage_Handle__ops = stc_Handle_ops
  /\ pkg_cla_tcpclv4_internal_stages__SessEstablishedStage_messageOut__lits = stc_messageOut_lits
  /\ pkg_cla_tcpclv4_internal_stages__SessEstablishedStage_messageOut__ops = stc_messageOut_ops
  /\ pkg_cla_tcpclv4_internal_stages__SessEstablishedStage_handleKeepalive__lits = stc_handleKeepalive_lits
  /\ pkg_cla_tcpclv4_internal_stages__SessEstablishedStage_handleKeepalive__ops = stc_handleKeepalive_ops.
Proof. repeat split; reflexivity. Qed.

(* the repair b52fcd3 is in the tree: handleMsgIn receives from ExchangeMsgOut while it waits *)
Lemma tcn_fix_present :
  pkg_cla_tcpclv4_internal_stages__SessEstablishedStage_handleMsgIn__lits = stc_handleMsgIn_lits
  /\ pkg_cla_tcpclv4_internal_stages__SessEstablishedStage_handleMsgIn__ops = stc_handleMsgIn_ops
  /\ cf_fix (tcn_real true 0) = true.
Proof. repeat split; reflexivity. Qed.
