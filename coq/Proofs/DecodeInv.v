(* DecodeInv.v - inversion facts about successful decoding: every reader returns a suffix of its
   input; a block accepted with a CRC carries exactly the CRC of its received bytes. *)
From DTN Require Import Base Cbor CborProofs Crc CrcProofs Eid EidProofs Bundle BundleWf BundleProofs.
From Coq Require Import ZifyN ZifyNat ZifyBool.
Open Scope N_scope.

Definition suffix_of (r bs : list N) : Prop := exists c, bs = c ++ r.

Lemma suffix_refl bs : suffix_of bs bs.
Proof. exists []. reflexivity. Qed.
Lemma suffix_trans a b c : suffix_of a b -> suffix_of b c -> suffix_of a c.
Proof. intros [x ->] [y ->]. exists (y ++ x). rewrite app_assoc. reflexivity. Qed.
Lemma suffix_cons x r : suffix_of r (x :: r).
Proof. exists [x]. reflexivity. Qed.
Lemma suffix_skipn n (bs : list N) : suffix_of (skipn n bs) bs.
Proof. exists (firstn n bs). symmetry. apply firstn_skipn. Qed.
Lemma suffix_length r bs : suffix_of r bs -> (length r <= length bs)%nat.
Proof. intros [c ->]. rewrite app_length. lia. Qed.

Lemma consumed_suffix r bs : suffix_of r bs -> bs = consumed bs r ++ r.
Proof. intros [c ->]. rewrite consumed_app. reflexivity. Qed.

(* bind inversion with explicit names *)
Tactic Notation "binv" hyp(H) "as" ident(a) ident(r) ident(E) :=
  match type of H with
  | bind ?x _ = Ok _ _ =>
      destruct x as [a r| |] eqn:E; cbn [bind] in H; [|discriminate H|discriminate H]
  end.
Tactic Notation "ifinv" hyp(H) "as" ident(E) :=
  match type of H with
  | (if ?c then Err else _) = Ok _ _ => destruct c eqn:E; [discriminate H|]
  end.

Lemma read_head_suffix bs mn r : read_head bs = Ok mn r -> suffix_of r bs.
Proof.
  destruct bs as [|b bs]; [discriminate|]. cbn [read_head].
  destruct (b =? 159); [discriminate|]. destruct (b =? 255); [discriminate|].
  destruct (b mod 32 <? 24).
  - intros H. inversion H; subst. apply suffix_cons.
  - destruct (b mod 32 <? 28); [|discriminate]. unfold take_exact.
    destruct (Nat.leb _ (length bs)); [|discriminate]. intros H. inversion H; subst.
    eapply suffix_trans; [apply suffix_skipn|apply suffix_cons].
Qed.

Lemma read_expect_suffix m bs n r : read_expect m bs = Ok n r -> suffix_of r bs.
Proof.
  unfold read_expect. intros H. binv H as a r0 E. destruct (fst a =? m); [|discriminate]. inversion H; subst.
  eapply read_head_suffix; eauto.
Qed.

Lemma read_raw_suffix n bs d r : read_raw n bs = Ok d r -> bs = d ++ r.
Proof.
  unfold read_raw. destruct (max_raw <? n); [discriminate|]. destruct (nlen bs <? n); [discriminate|].
  intros H. inversion H; subst. symmetry. apply firstn_skipn.
Qed.

Lemma read_bstr_inv bs d r : read_bstr bs = Ok d r -> exists h, bs = h ++ d ++ r.
Proof.
  unfold read_bstr. intros H. binv H as n r0 E. apply read_expect_suffix in E. destruct E as [h ->].
  apply read_raw_suffix in H. subst. exists h. reflexivity.
Qed.
Lemma read_bstr_suffix bs d r : read_bstr bs = Ok d r -> suffix_of r bs.
Proof. intros H. apply read_bstr_inv in H. destruct H as [h ->]. exists (h ++ d). rewrite <- app_assoc. reflexivity. Qed.

Lemma dec_eid_suffix bs e r : dec_eid bs = Ok e r -> suffix_of r bs.
Proof.
  unfold dec_eid. intros H. binv H as l r1 E1. apply read_expect_suffix in E1. ifinv H as El.
  binv H as scheme r2 E2. apply read_expect_suffix in E2.
  assert (S1 : suffix_of r2 bs) by (eapply suffix_trans; eauto). clear E1 E2.
  destruct (scheme =? 1).
  - binv H as mn r3 E3. apply read_head_suffix in E3. destruct mn as [m n].
    destruct (m =? mUInt).
    + inversion H; subst. eapply suffix_trans; eauto.
    + destruct (m =? mText); [|discriminate]. binv H as ssp r4 E4.
      assert (S2 : suffix_of r4 r3) by (apply read_raw_suffix in E4; subst; eexists; reflexivity).
      destruct (bytes_eqb ssp str_none); [discriminate|]. destruct (parse_ssp ssp) as [[nd dm]|]; [|discriminate].
      inversion H; subst. eapply suffix_trans; [exact S2|]. eapply suffix_trans; eauto.
  - destruct (scheme =? 2); [|discriminate]. binv H as l2 r3 E3. apply read_expect_suffix in E3. ifinv H as El2.
    binv H as n r4 E4. binv H as sv r5 E5.
    apply read_expect_suffix in E4, E5. inversion H; subst.
    eapply suffix_trans; [exact E5|]. eapply suffix_trans; [exact E4|]. eapply suffix_trans; eauto.
Qed.

Lemma dec_ext_suffix tc bs v r : dec_ext tc bs = Ok v r -> suffix_of r bs.
Proof.
  unfold dec_ext. intros H. destruct (read_bstr bs) as [data rest| |] eqn:E; cbn [bind nobrk] in H; try discriminate.
  apply read_bstr_suffix in E.
  match type of H with nobrk (match ?x with _ => _ end) = _ => destruct x as [v' r'| |]; cbn [nobrk] in H; try discriminate end.
  inversion H; subst. exact E.
Qed.

(* ---------------- the CRC check ---------------- *)
Definition zero_field (len : nat) (whole : list N) : list N := firstn (length whole - len) whole ++ zeros len.

Lemma check_crc_inv t bs r0 r' :
  check_crc t bs r0 = Ok tt r' -> suffix_of r0 bs ->
  exists len cv pre,
    crc_len t = Some len /\ length cv = len
    /\ consumed bs r' = pre ++ cv
    /\ cv = be_encode len (crc_value t (zero_field len (consumed bs r')))
    /\ suffix_of r' bs.
Proof.
  unfold check_crc. intros H Hs. binv H as cv rest E.
  destruct (crc_len t) as [len|] eqn:El; [|discriminate].
  destruct (Nat.eqb (length cv) len) eqn:Elen; cbn [negb] in H; [|discriminate].
  apply Nat.eqb_eq in Elen.
  match type of H with (if bytes_eqb ?x cv then _ else _) = _ => destruct (bytes_eqb x cv) eqn:Eb; [|discriminate] end.
  inversion H; subst r'. apply bytes_eqb_eq in Eb.
  apply read_bstr_inv in E. destruct E as [h Hr0]. destruct Hs as [c Hbs]. subst r0 bs.
  exists len, cv, (c ++ h). repeat split; try assumption.
  - replace (c ++ h ++ cv ++ rest) with (((c ++ h) ++ cv) ++ rest) by (rewrite <- !app_assoc; reflexivity).
    apply consumed_app.
  - symmetry. exact Eb.
  - exists (c ++ h ++ cv). rewrite <- !app_assoc. reflexivity.
Qed.

(* a canonical block accepted with a non-zero CRC type carries the CRC of its received bytes *)
Theorem dec_cblock_crc bs c r :
  dec_cblock bs = Ok c r -> c_crc c <> 0 ->
  exists len cv pre,
    crc_len (c_crc c) = Some len /\ length cv = len
    /\ consumed bs r = pre ++ cv
    /\ cv = be_encode len (crc_value (c_crc c) (zero_field len (consumed bs r)))
    /\ suffix_of r bs.
Proof.
  unfold dec_cblock. intros H Hnz. binv H as l r0 E0. ifinv H as El. binv H as tc r1 E1. binv H as num r2 E2.
  binv H as fl r3 E3. binv H as crc r4 E4. ifinv H as Ecrc. ifinv H as Epres. binv H as v r5 E5.
  apply read_expect_suffix in E0, E1, E2, E3, E4. apply dec_ext_suffix in E5.
  assert (Hs : suffix_of r5 bs).
  { eapply suffix_trans; [exact E5|]. eapply suffix_trans; [exact E4|]. eapply suffix_trans; [exact E3|].
    eapply suffix_trans; [exact E2|]. eapply suffix_trans; [exact E1|]. exact E0. }
  destruct (l =? 6) eqn:E6.
  - binv H as u r6 E7. destruct u. inversion H; subst. cbn [c_crc] in *.
    apply check_crc_inv in E7; [|exact Hs]. exact E7.
  - inversion H; subst. cbn [c_crc] in *. exfalso.
    destruct (crc =? 0) eqn:Ez; [apply N.eqb_eq in Ez; contradiction|]. cbn in Epres. discriminate.
Qed.

(* the same for the primary block *)
Theorem dec_primary_crc bs p r :
  dec_primary bs = Ok p r -> p_crc p <> 0 ->
  exists len cv pre,
    crc_len (p_crc p) = Some len /\ length cv = len
    /\ consumed bs r = pre ++ cv
    /\ cv = be_encode len (crc_value (p_crc p) (zero_field len (consumed bs r)))
    /\ suffix_of r bs.
Proof.
  unfold dec_primary. intros H Hnz. binv H as l r0 E0. ifinv H as El. binv H as ver r1 E1. ifinv H as Ever.
  binv H as fl r2 E2. binv H as crc r3 E3. ifinv H as Ecrc. ifinv H as Epres.
  binv H as dst r4 E4. binv H as src r5 E5. binv H as rpt r6 E6. binv H as l2 r7 E7. ifinv H as El2.
  binv H as tm r8 E8. binv H as sq r9 E9. binv H as life r10 E10. binv H as ot r11 E11.
  apply read_expect_suffix in E0, E1, E2, E3, E7, E8, E9, E10. apply dec_eid_suffix in E4, E5, E6.
  assert (S10 : suffix_of r10 bs).
  { repeat (eapply suffix_trans; [eassumption|]). apply suffix_refl. }
  assert (S11 : suffix_of r11 bs).
  { eapply suffix_trans; [|exact S10]. destruct ((l =? 10) || (l =? 11)).
    - binv E11 as off ra Ea. binv E11 as tot rb Eb. inversion E11; subst.
      apply read_expect_suffix in Ea, Eb. eapply suffix_trans; eauto.
    - inversion E11; subst. apply suffix_refl. }
  destruct ((l =? 9) || (l =? 11)) eqn:E9or.
  - binv H as u r12 E12. destruct u. inversion H; subst. cbn [p_crc] in *.
    apply check_crc_inv in E12; [|exact S11]. exact E12.
  - inversion H; subst. cbn [p_crc] in *. exfalso.
    destruct (crc =? 0) eqn:Ez; [apply N.eqb_eq in Ez; contradiction|]. cbn in Epres. discriminate.
Qed.
