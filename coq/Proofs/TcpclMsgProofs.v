(* TcpclMsgProofs.v - the TCPCLv4 message codec: round trip with exact consumption, stream alignment,
   code-field acceptance, no panic, allocation bounded by the bytes that arrived. *)
From DTN Require Import Base CborProofs TcpclMsg.
From Coq Require Import ZifyN ZifyNat ZifyBool.
Open Scope N_scope.

(* ------------------------------------------------------------------------------------------ *)
(* 1. primitives *)

Lemma tm_take_exact_app {A} (x r : list A) w : length x = w -> take_exact w (x ++ r) = Some (x, r).
Proof. intros <-. apply take_exact_app. Qed.

Lemma tm_u_enc w n r : n < 256 ^ N.of_nat w -> tm_u w (be_encode w n ++ r) = (TmOk n r, 0).
Proof.
  intros H. unfold tm_u. rewrite tm_take_exact_app by apply be_encode_length.
  rewrite be_decode_encode by exact H. reflexivity.
Qed.

Lemma tm_split_app d r : tm_split (nlen d) (d ++ r) = Some (d, r).
Proof.
  unfold tm_split, nlen. rewrite app_length.
  replace (N.of_nat (length d + length r) <? N.of_nat (length d)) with false by lia.
  rewrite Nat2N.id, firstn_app, Nat.sub_diag, firstn_all, skipn_app, Nat.sub_diag, skipn_all.
  cbn. rewrite app_nil_r. reflexivity.
Qed.

Lemma tm_bind_ok {A B} (p : tm_reader A) (f : A -> tm_reader B) bs a r n :
  p bs = (TmOk a r, n) -> tm_bind p f bs = (fst (f a r), n + snd (f a r)).
Proof. intros H. unfold tm_bind. rewrite H. reflexivity. Qed.

Lemma tm_bind_err {A B} (p : tm_reader A) (f : A -> tm_reader B) bs n :
  p bs = (TmErr, n) -> tm_bind p f bs = (TmErr, n).
Proof. intros H. unfold tm_bind. rewrite H. reflexivity. Qed.

Lemma tm_expect_hit t r : tm_expect t (t :: r) = (TmOk tt r, 0).
Proof.
  unfold tm_expect, tm_bind, tm_u, take_exact. cbn [length Nat.leb firstn skipn be_decode be_decode_acc].
  cbn [tm_ret fst snd]. rewrite N.mul_0_l, N.add_0_l, N.eqb_refl. reflexivity.
Qed.

Lemma tm_expect_miss t b r : b <> t -> tm_expect t (b :: r) = (TmErr, 0).
Proof.
  intros H. unfold tm_expect, tm_bind, tm_u, take_exact. cbn [length Nat.leb firstn skipn be_decode be_decode_acc].
  cbn [tm_ret fst snd]. rewrite N.mul_0_l, N.add_0_l. apply N.eqb_neq in H. rewrite H. reflexivity.
Qed.

Lemma tm_make_full_app d r : nlen d <= tm_max_alloc -> tm_make_full (nlen d) (d ++ r) = (TmOk d r, nlen d).
Proof.
  intros H. unfold tm_make_full. replace (tm_max_alloc <? nlen d) with false by lia.
  rewrite tm_split_app. reflexivity.
Qed.

Lemma tm_make_str_app d r : nlen d <= tm_max_alloc -> tm_make_str (nlen d) (d ++ r) = (TmOk d r, nlen d + nlen d).
Proof. intros H. unfold tm_make_str. rewrite tm_make_full_app by exact H. reflexivity. Qed.

Lemma tm_read_grow_app d r : nlen d < tm_i63 -> tm_read_grow (nlen d) (d ++ r) = (TmOk d r, tm_grow (nlen d)).
Proof.
  intros H. unfold tm_read_grow. replace (tm_i63 <=? nlen d) with false by lia.
  rewrite tm_split_app. reflexivity.
Qed.

Lemma tm_pow1 : 256 ^ N.of_nat 1 = tm_u8. Proof. reflexivity. Qed.
Lemma tm_pow2 : 256 ^ N.of_nat 2 = tm_u16. Proof. reflexivity. Qed.
Lemma tm_pow4 : 256 ^ N.of_nat 4 = tm_u32. Proof. reflexivity. Qed.
Lemma tm_pow8 : 256 ^ N.of_nat 8 = tm_u64. Proof. reflexivity. Qed.

(* one step of a decoder over an encoding *)
Ltac tm_step_u := erewrite tm_bind_ok by
  (apply tm_u_enc; first [rewrite tm_pow1 | rewrite tm_pow2 | rewrite tm_pow4 | rewrite tm_pow8];
   unfold tm_u8, tm_u16, tm_u32, tm_u64 in *; lia); cbn [fst snd].
Ltac tm_step_hdr := erewrite tm_bind_ok by apply tm_expect_hit; cbn [fst snd].

(* ------------------------------------------------------------------------------------------ *)
(* 2. round trip of every message type, with the exact allocation account *)

(* what decoding a well-formed message allocates by wire-given sizes *)
Definition tm_cost (m : tm_msg) : N :=
  match m with
  | TmSessInit _ _ _ n => 2 * nlen n
  | TmXferSegment _ _ d => if nlen d =? 0 then 0 else tm_grow (nlen d)
  | _ => 0
  end.

Lemma tm_contact_roundtrip f r : tm_wf (TmContact f) = true ->
  tm_dec_contact (tm_enc (TmContact f) ++ r) = (TmOk (TmContact f) r, 0).
Proof.
  cbn [tm_wf]. intros H. assert (H' : f < tm_u8) by lia. clear H. rename H' into H. unfold tm_dec_contact, tm_enc. rewrite tm_take_exact_app by reflexivity.
  cbn [tm_head app firstn skipn be_encode]. rewrite N.div_1_r.
  change (bytes_eqb [100; 116; 110; 33; 4] [100; 116; 110; 33; 4]) with true. cbv iota.
  unfold be_decode. cbn [be_decode_acc]. rewrite N.mul_0_l, N.add_0_l.
  unfold tm_u8 in H. rewrite N.mod_small by lia. reflexivity.
Qed.

Lemma tm_sess_init_roundtrip fx k s t n r : tm_wf (TmSessInit k s t n) = true ->
  tm_dec_sess_init_gen fx (tm_enc (TmSessInit k s t n) ++ r) = (TmOk (TmSessInit k s t n) r, 2 * nlen n).
Proof.
  cbn [tm_wf]. intros H. unfold tm_dec_sess_init_gen, tm_enc.
  rewrite <- !app_assoc. cbn [app].
  tm_step_hdr. do 4 tm_step_u.
  erewrite tm_bind_ok by (apply tm_make_str_app; unfold tm_max_alloc, tm_u16 in *; lia). cbn [fst snd].
  tm_step_u. rewrite N.eqb_refl.
  erewrite tm_bind_ok by reflexivity. cbn [fst snd tm_ret]. f_equal. lia.
Qed.

Lemma tm_sess_term_roundtrip f c r : tm_wf (TmSessTerm f c) = true ->
  tm_dec_sess_term (tm_enc (TmSessTerm f c) ++ r) = (TmOk (TmSessTerm f c) r, 0).
Proof.
  cbn [tm_wf]. intros H. unfold tm_dec_sess_term, tm_enc.
  rewrite <- !app_assoc. cbn [app].
  assert (Hc : c < 256) by (unfold tm_term_valid, tm_term_max in H; lia).
  tm_step_hdr. do 2 tm_step_u.
  replace (tm_term_valid c) with true by lia. reflexivity.
Qed.

Lemma tm_xfer_segment_roundtrip f t d r : tm_wf (TmXferSegment f t d) = true ->
  tm_dec_xfer_segment (tm_enc (TmXferSegment f t d) ++ r)
  = (TmOk (TmXferSegment f t d) r, tm_cost (TmXferSegment f t d)).
Proof.
  cbn [tm_wf tm_cost]. intros H. unfold tm_dec_xfer_segment, tm_dec_xfer_segment_gen, tm_enc.
  rewrite <- !app_assoc. cbn [app].
  tm_step_hdr. do 3 tm_step_u. rewrite N.eqb_refl.
  erewrite tm_bind_ok by reflexivity. cbn [fst snd].
  erewrite tm_bind_ok by (apply tm_u_enc; rewrite tm_pow8; unfold tm_u64, tm_i63 in *; lia). cbn [fst snd].
  destruct (nlen d =? 0) eqn:E.
  - assert (d = []) as -> by (destruct d; [reflexivity|cbn in E; lia]).
    erewrite tm_bind_ok by reflexivity. reflexivity.
  - unfold tm_data.
    erewrite tm_bind_ok by (apply tm_read_grow_app; lia). cbn [fst snd tm_ret]. f_equal. lia.
Qed.

Lemma tm_xfer_ack_roundtrip f t l r : tm_wf (TmXferAck f t l) = true ->
  tm_dec_xfer_ack (tm_enc (TmXferAck f t l) ++ r) = (TmOk (TmXferAck f t l) r, 0).
Proof.
  cbn [tm_wf]. intros H. unfold tm_dec_xfer_ack, tm_enc.
  rewrite <- !app_assoc. cbn [app].
  tm_step_hdr. do 3 tm_step_u. reflexivity.
Qed.

Lemma tm_xfer_refuse_roundtrip c t r : tm_wf (TmXferRefuse c t) = true ->
  tm_dec_xfer_refuse (tm_enc (TmXferRefuse c t) ++ r) = (TmOk (TmXferRefuse c t) r, 0).
Proof.
  cbn [tm_wf]. intros H. unfold tm_dec_xfer_refuse, tm_enc.
  rewrite <- !app_assoc. cbn [app].
  assert (Hc : c < 256) by (unfold tm_refuse_valid, tm_refuse_max in H; lia).
  tm_step_hdr. do 2 tm_step_u.
  replace (tm_refuse_valid c) with true by lia. reflexivity.
Qed.

Lemma tm_keepalive_roundtrip r :
  tm_dec_keepalive (tm_enc TmKeepalive ++ r) = (TmOk TmKeepalive r, 0).
Proof. unfold tm_dec_keepalive, tm_enc. cbn [app]. tm_step_hdr. reflexivity. Qed.

Lemma tm_msg_reject_roundtrip c h r : tm_wf (TmMsgReject c h) = true ->
  tm_dec_msg_reject (tm_enc (TmMsgReject c h) ++ r) = (TmOk (TmMsgReject c h) r, 0).
Proof.
  cbn [tm_wf]. intros H. unfold tm_dec_msg_reject, tm_enc.
  rewrite <- !app_assoc. cbn [app].
  assert (Hc : c < 256) by (unfold tm_reject_valid, tm_reject_max in H; lia).
  tm_step_hdr. do 2 tm_step_u.
  replace (tm_reject_valid c) with true by lia. reflexivity.
Qed.

(* ReadMessage on the encoding of any well-formed message: the value, exactly the encoder's bytes *)
Theorem tm_read_roundtrip m r : tm_wf m = true ->
  tm_read (tm_enc m ++ r) = (TmOk m r, tm_cost m).
Proof.
  intros H. destruct m as [f|k s t n|f c|f t d|f t l|c t| |c h].
  - pose proof (tm_contact_roundtrip f r H) as E.
    unfold tm_enc in *. cbn [tm_head app] in *. exact E.
  - pose proof (tm_sess_init_roundtrip true k s t n r H) as E. unfold tm_enc in *. cbn [app] in *. exact E.
  - pose proof (tm_sess_term_roundtrip f c r H) as E. unfold tm_enc in *. cbn [app] in *. exact E.
  - pose proof (tm_xfer_segment_roundtrip f t d r H) as E. unfold tm_enc in *. cbn [app] in *. exact E.
  - pose proof (tm_xfer_ack_roundtrip f t l r H) as E. unfold tm_enc in *. cbn [app] in *. exact E.
  - pose proof (tm_xfer_refuse_roundtrip c t r H) as E. unfold tm_enc in *. cbn [app] in *. exact E.
  - exact (tm_keepalive_roundtrip r).
  - pose proof (tm_msg_reject_roundtrip c h r H) as E. unfold tm_enc in *. cbn [app] in *. exact E.
Qed.

(* ------------------------------------------------------------------------------------------ *)
(* 3. a stream of messages stays aligned *)

Definition tm_enc_all (ms : list tm_msg) : list N := concat (map tm_enc ms).
Definition tm_cost_all (ms : list tm_msg) : N := fold_right (fun m a => tm_cost m + a) 0 ms.

Lemma tm_enc_cons m : exists b tl, tm_enc m = b :: tl.
Proof. destruct m; cbn [tm_enc tm_head app]; eauto. Qed.

Lemma tm_enc_all_length ms : (length ms <= length (tm_enc_all ms))%nat.
Proof.
  induction ms as [|m ms IH]; [cbn; lia|].
  unfold tm_enc_all in *. cbn [map concat]. rewrite app_length.
  destruct (tm_enc_cons m) as (b & tl & ->). cbn [length]. lia.
Qed.

Lemma tm_stream_fuel_roundtrip ms : forall fuel, Forall (fun m => tm_wf m = true) ms ->
  (length ms <= fuel)%nat ->
  tm_stream_fuel true fuel (tm_enc_all ms) = (ms, TmEof, tm_cost_all ms).
Proof.
  induction ms as [|m ms IH]; intros fuel Hwf Hf.
  - destruct fuel; reflexivity.
  - inversion Hwf as [|? ? Hm Hms]; subst.
    unfold tm_enc_all. cbn [map concat]. fold (tm_enc_all ms).
    destruct (tm_enc_cons m) as (b & tl & E).
    destruct fuel as [|fuel]; [cbn in Hf; lia|].
    rewrite E. cbn [app tm_stream_fuel].
    change (b :: tl ++ tm_enc_all ms) with ((b :: tl) ++ tm_enc_all ms). rewrite <- E.
    fold tm_read. rewrite (tm_read_roundtrip m (tm_enc_all ms) Hm).
    rewrite (IH fuel Hms) by (cbn in Hf; lia). reflexivity.
Qed.

(* reading the concatenation of the encodings returns exactly the messages and ends at the end *)
Theorem tm_stream_roundtrip ms : Forall (fun m => tm_wf m = true) ms ->
  tm_stream (tm_enc_all ms) = (ms, TmEof, tm_cost_all ms).
Proof. intros H. unfold tm_stream. apply tm_stream_fuel_roundtrip; [exact H|apply tm_enc_all_length]. Qed.

(* ------------------------------------------------------------------------------------------ *)
(* 4. code fields: accepted exactly when enumerated (for every value of the other fields) *)

Lemma tm_u1_cons b r : tm_u 1 (b :: r) = (TmOk b r, 0).
Proof.
  unfold tm_u, take_exact. cbn [length Nat.leb firstn skipn]. unfold be_decode. cbn [be_decode_acc].
  rewrite N.mul_0_l, N.add_0_l. reflexivity.
Qed.

Lemma tm_type_reject b r : tm_type_known b = false -> tm_read (b :: r) = (TmErr, 0).
Proof.
  unfold tm_type_known, tm_contact. intros H. unfold tm_read, tm_read_gen.
  unfold tm_xfer_segment, tm_xfer_ack, tm_xfer_refuse, tm_keepalive, tm_sess_term, tm_msg_reject, tm_sess_init, tm_contact.
  replace (b =? 1) with false by lia. replace (b =? 2) with false by lia. replace (b =? 3) with false by lia.
  replace (b =? 4) with false by lia. replace (b =? 5) with false by lia. replace (b =? 6) with false by lia.
  replace (b =? 7) with false by lia. replace (b =? 100) with false by lia. reflexivity.
Qed.

Lemma tm_type_accept b : tm_type_known b = true -> exists r, tm_is_ok (tm_read (b :: r)) = true.
Proof.
  unfold tm_type_known, tm_contact. intros H.
  assert (b = 1 \/ b = 2 \/ b = 3 \/ b = 4 \/ b = 5 \/ b = 6 \/ b = 7 \/ b = 100) as
    [-> | [-> | [-> | [-> | [-> | [-> | [-> | -> ]]]]]]] by lia.
  - exists (tl (tm_enc (TmXferSegment 0 0 []))). vm_compute. reflexivity.
  - exists (tl (tm_enc (TmXferAck 0 0 0))). vm_compute. reflexivity.
  - exists (tl (tm_enc (TmXferRefuse 0 0))). vm_compute. reflexivity.
  - exists []. vm_compute. reflexivity.
  - exists (tl (tm_enc (TmSessTerm 0 0))). vm_compute. reflexivity.
  - exists (tl (tm_enc (TmMsgReject 1 0))). vm_compute. reflexivity.
  - exists (tl (tm_enc (TmSessInit 0 0 0 []))). vm_compute. reflexivity.
  - exists (tl (tm_enc (TmContact 0))). vm_compute. reflexivity.
Qed.

Lemma tm_sess_term_code f c r :
  tm_read (5 :: f :: c :: r) = if tm_term_valid c then (TmOk (TmSessTerm f c) r, 0) else (TmErr, 0).
Proof.
  change (tm_read (5 :: f :: c :: r)) with (tm_dec_sess_term (tm_sess_term :: f :: c :: r)).
  unfold tm_dec_sess_term. tm_step_hdr.
  erewrite tm_bind_ok by apply tm_u1_cons. cbn [fst snd].
  erewrite tm_bind_ok by apply tm_u1_cons. cbn [fst snd].
  destruct (tm_term_valid c); reflexivity.
Qed.

Lemma tm_msg_reject_code c h r :
  tm_read (6 :: c :: h :: r) = if tm_reject_valid c then (TmOk (TmMsgReject c h) r, 0) else (TmErr, 0).
Proof.
  change (tm_read (6 :: c :: h :: r)) with (tm_dec_msg_reject (tm_msg_reject :: c :: h :: r)).
  unfold tm_dec_msg_reject. tm_step_hdr.
  erewrite tm_bind_ok by apply tm_u1_cons. cbn [fst snd].
  erewrite tm_bind_ok by apply tm_u1_cons. cbn [fst snd].
  destruct (tm_reject_valid c); reflexivity.
Qed.

Lemma tm_u_app w x r : length x = w -> tm_u w (x ++ r) = (TmOk (be_decode x) r, 0).
Proof. intros H. unfold tm_u. rewrite tm_take_exact_app by exact H. reflexivity. Qed.

Lemma tm_xfer_refuse_code c t8 r : length t8 = 8%nat ->
  tm_read (3 :: c :: t8 ++ r)
  = if tm_refuse_valid c then (TmOk (TmXferRefuse c (be_decode t8)) r, 0) else (TmErr, 0).
Proof.
  intros Hl.
  change (tm_read (3 :: c :: t8 ++ r)) with (tm_dec_xfer_refuse (tm_xfer_refuse :: c :: t8 ++ r)).
  unfold tm_dec_xfer_refuse. tm_step_hdr.
  erewrite tm_bind_ok by apply tm_u1_cons. cbn [fst snd].
  erewrite tm_bind_ok by (apply tm_u_app; exact Hl). cbn [fst snd].
  destruct (tm_refuse_valid c); reflexivity.
Qed.

(* contact header: magic and version must match octet by octet; every flags octet is taken *)
Lemma tm_contact_code a b c d e f r :
  tm_dec_contact (a :: b :: c :: d :: e :: f :: r)
  = if (a =? 100) && (b =? 116) && (c =? 110) && (d =? 33) && (e =? 4)
    then (TmOk (TmContact f) r, 0) else (TmErr, 0).
Proof.
  unfold tm_dec_contact, take_exact. cbn [length Nat.leb firstn skipn tm_head bytes_eqb list_eqb].
  unfold bytes_eqb. cbn [list_eqb]. unfold be_decode. cbn [be_decode_acc].
  rewrite N.mul_0_l, N.add_0_l, andb_true_r.
  destruct (a =? 100), (b =? 116), (c =? 110), (d =? 33), (e =? 4); reflexivity.
Qed.

Lemma tm_contact_read b c d e f r : tm_read (100 :: b :: c :: d :: e :: f :: r)
  = if (b =? 116) && (c =? 110) && (d =? 33) && (e =? 4) then (TmOk (TmContact f) r, 0) else (TmErr, 0).
Proof.
  change (tm_read (100 :: b :: c :: d :: e :: f :: r)) with (tm_dec_contact (100 :: b :: c :: d :: e :: f :: r)).
  rewrite tm_contact_code. reflexivity.
Qed.

(* the three IsValid predicates enumerate exactly the registered codes *)
Lemma tm_term_valid_enum c : tm_term_valid c = true <-> In c [0; 1; 2; 3; 4; 5].
Proof. unfold tm_term_valid, tm_term_max. cbn [In]. lia. Qed.
Lemma tm_refuse_valid_enum c : tm_refuse_valid c = true <-> In c [0; 1; 2; 3; 4; 5; 6].
Proof. unfold tm_refuse_valid, tm_refuse_max. cbn [In]. lia. Qed.
Lemma tm_reject_valid_enum c : tm_reject_valid c = true <-> In c [1; 2; 3].
Proof. unfold tm_reject_valid, tm_reject_min, tm_reject_max. cbn [In]. lia. Qed.
Lemma tm_type_known_enum b : tm_type_known b = true <-> In b [1; 2; 3; 4; 5; 6; 7; 100].
Proof. unfold tm_type_known, tm_contact. cbn [In]. lia. Qed.

(* ------------------------------------------------------------------------------------------ *)
(* 5. no panic, allocation bounded by what arrived (C04) *)

(* a reader started on bytes never panics; what it allocates is at most 8 x the bytes it consumed
   plus [co] when it succeeds, at most 8 x the bytes present plus [ce] when it fails *)
Definition tm_tri {A} (p : tm_reader A) (co ce : N) (Q : A -> Prop) : Prop :=
  forall bs, bytes_ok bs = true ->
  match p bs with
  | (TmOk a r, n) => Q a /\ bytes_ok r = true /\ nlen r <= nlen bs /\ n + 8 * nlen r <= 8 * nlen bs + co
  | (TmErr, n) => n <= 8 * nlen bs + ce
  | (TmPanic, _) => False
  end.

Lemma tm_tri_bind {A B} (p : tm_reader A) (f : A -> tm_reader B) co1 ce1 co2 ce2 Q R :
  tm_tri p co1 ce1 Q -> (forall a, Q a -> tm_tri (f a) co2 ce2 R) ->
  tm_tri (tm_bind p f) (co1 + co2) (N.max ce1 (co1 + ce2)) R.
Proof.
  intros Hp Hf bs Hb. unfold tm_bind. specialize (Hp bs Hb). destruct (p bs) as [[a r| |] n].
  - destruct Hp as (HQ & Hr & Hl & Hn). specialize (Hf a HQ r Hr).
    destruct (f a r) as [[b r'| |] n']; cbn [fst snd].
    + destruct Hf as (HR & Hr' & Hl' & Hn'). repeat split; auto; lia.
    + lia.
    + exact Hf.
  - lia.
  - exact Hp.
Qed.

Lemma tm_tri_weaken {A} (p : tm_reader A) co ce co' ce' (Q Q' : A -> Prop) :
  tm_tri p co ce Q -> co <= co' -> ce <= ce' -> (forall a, Q a -> Q' a) -> tm_tri p co' ce' Q'.
Proof.
  intros Hp H1 H2 HQ bs Hb. specialize (Hp bs Hb). destruct (p bs) as [[a r| |] n].
  - destruct Hp as (Ha & Hr & Hl & Hn). repeat split; auto; lia.
  - lia.
  - exact Hp.
Qed.

Lemma tm_tri_if {A} (c : bool) (p q : tm_reader A) co1 ce1 co2 ce2 Q :
  tm_tri p co1 ce1 Q -> tm_tri q co2 ce2 Q -> tm_tri (if c then p else q) (N.max co1 co2) (N.max ce1 ce2) Q.
Proof.
  intros Hp Hq. destruct c.
  - eapply tm_tri_weaken; [exact Hp|lia|lia|auto].
  - eapply tm_tri_weaken; [exact Hq|lia|lia|auto].
Qed.

Lemma tm_tri_ret {A} (a : A) : tm_tri (tm_ret a) 0 0 (fun _ => True).
Proof. intros bs Hb. cbn. repeat split; auto; lia. Qed.

Lemma tm_tri_fail {A} (Q : A -> Prop) : tm_tri tm_fail 0 0 Q.
Proof. intros bs Hb. cbn. lia. Qed.

Lemma tm_nlen_skipn (n : nat) (bs : list N) : (n <= length bs)%nat -> nlen (skipn n bs) + N.of_nat n = nlen bs.
Proof. intros H. unfold nlen. rewrite skipn_length. lia. Qed.

Lemma tm_tri_u w : tm_tri (tm_u w) 0 0 (fun v => v < 256 ^ N.of_nat w).
Proof.
  intros bs Hb. unfold tm_u, take_exact. destruct (Nat.leb w (length bs)) eqn:E.
  - apply Nat.leb_le in E. cbn [tm_ret].
    pose proof (tm_nlen_skipn w bs E) as Hs.
    repeat split.
    + pose proof (be_decode_acc_bound (firstn w bs) 0 (bytes_ok_firstn w bs Hb)) as Hbd.
      rewrite firstn_length, Nat.min_l in Hbd by lia. unfold be_decode. lia.
    + apply bytes_ok_skipn, Hb.
    + lia.
    + lia.
  - cbn. lia.
Qed.

Lemma tm_split_some n bs d r : tm_split n bs = Some (d, r) ->
  nlen r + n = nlen bs /\ nlen d = n /\ d = firstn (N.to_nat n) bs /\ r = skipn (N.to_nat n) bs.
Proof.
  unfold tm_split. destruct (nlen bs <? n) eqn:E; [discriminate|]. intros H. inversion H; subst; clear H.
  unfold nlen in *. rewrite skipn_length, firstn_length. repeat split; lia.
Qed.

Lemma tm_tri_make_full n : n < tm_u16 -> tm_tri (tm_make_full n) 0 65535 (fun _ => True).
Proof.
  intros Hn bs Hb. unfold tm_make_full, tm_u16, tm_max_alloc in *.
  replace (281474976710656 <? n) with false by lia.
  destruct (tm_split n bs) as [[d r]|] eqn:E.
  - destruct (tm_split_some _ _ _ _ E) as (H1 & H2 & H3 & H4). subst r.
    repeat split; [apply bytes_ok_skipn, Hb|lia|lia].
  - lia.
Qed.

Lemma tm_tri_make_str n : n < tm_u16 -> tm_tri (tm_make_str n) 0 65535 (fun _ => True).
Proof.
  intros Hn bs Hb. unfold tm_make_str, tm_make_full, tm_u16, tm_max_alloc in *.
  replace (281474976710656 <? n) with false by lia.
  destruct (tm_split n bs) as [[d r]|] eqn:E.
  - destruct (tm_split_some _ _ _ _ E) as (H1 & H2 & H3 & H4). subst r.
    repeat split; [apply bytes_ok_skipn, Hb|lia|lia].
  - lia.
Qed.

Lemma tm_tri_discard n : tm_tri (tm_discard n) 0 0 (fun _ => True).
Proof.
  intros bs Hb. unfold tm_discard.
  destruct (tm_split n bs) as [[d r]|] eqn:E.
  - destruct (tm_split_some _ _ _ _ E) as (H1 & H2 & H3 & H4). subst r. cbn [tm_ret].
    repeat split; [apply bytes_ok_skipn, Hb|lia|lia].
  - cbn. lia.
Qed.

Lemma tm_tri_read_grow n : tm_tri (tm_read_grow n) 1024 1024 (fun _ => True).
Proof.
  intros bs Hb. unfold tm_read_grow, tm_grow.
  destruct (tm_i63 <=? n); [lia|].
  destruct (tm_split n bs) as [[d r]|] eqn:E.
  - destruct (tm_split_some _ _ _ _ E) as (H1 & H2 & H3 & H4). subst r.
    repeat split; [apply bytes_ok_skipn, Hb|lia|lia].
  - lia.
Qed.

Ltac tm_tri_go :=
  lazymatch goal with
  | |- tm_tri (tm_bind _ _) _ _ _ => eapply tm_tri_bind; [tm_tri_go | intros ? ?; tm_tri_go]
  | |- tm_tri (if _ then _ else _) _ _ _ => eapply tm_tri_if; tm_tri_go
  | |- tm_tri (tm_ret _) _ _ _ => apply tm_tri_ret
  | |- tm_tri tm_fail _ _ _ => apply tm_tri_fail
  | |- tm_tri (tm_u _) _ _ _ => apply tm_tri_u
  | |- tm_tri (tm_discard _) _ _ _ => apply tm_tri_discard
  | |- tm_tri (tm_read_grow _) _ _ _ => apply tm_tri_read_grow
  | |- tm_tri (tm_make_full _) _ _ _ => apply tm_tri_make_full; assumption
  | |- tm_tri (tm_make_str _) _ _ _ => apply tm_tri_make_str; assumption
  end.

Ltac tm_tri_dec :=
  eapply tm_tri_weaken; [tm_tri_go | vm_compute; discriminate | vm_compute; discriminate | auto].

Definition tm_top {A} : A -> Prop := fun _ => True.

Lemma tm_tri_sess_init : tm_tri tm_dec_sess_init 1024 65535 tm_top.
Proof.
  unfold tm_dec_sess_init, tm_dec_sess_init_gen, tm_expect, tm_skip. change (256 ^ N.of_nat 2) with tm_u16.
  eapply tm_tri_weaken; [ | | | intros; exact I].
  - eapply tm_tri_bind; [tm_tri_go|intros ? _].
    eapply tm_tri_bind; [tm_tri_go|intros ? _].
    eapply tm_tri_bind; [tm_tri_go|intros ? _].
    eapply tm_tri_bind; [tm_tri_go|intros ? _].
    eapply tm_tri_bind; [tm_tri_go|intros nl Hnl]. change (256 ^ N.of_nat 2) with tm_u16 in Hnl.
    tm_tri_go.
  - vm_compute; discriminate.
  - vm_compute; discriminate.
Qed.

Lemma tm_tri_sess_term : tm_tri tm_dec_sess_term 1024 65535 tm_top.
Proof. unfold tm_dec_sess_term, tm_expect. tm_tri_dec. Qed.
Lemma tm_tri_xfer_segment : tm_tri tm_dec_xfer_segment 1024 65535 tm_top.
Proof. unfold tm_dec_xfer_segment, tm_dec_xfer_segment_gen, tm_expect, tm_skip, tm_data. tm_tri_dec. Qed.
Lemma tm_tri_xfer_ack : tm_tri tm_dec_xfer_ack 1024 65535 tm_top.
Proof. unfold tm_dec_xfer_ack, tm_expect. tm_tri_dec. Qed.
Lemma tm_tri_xfer_refuse : tm_tri tm_dec_xfer_refuse 1024 65535 tm_top.
Proof. unfold tm_dec_xfer_refuse, tm_expect. tm_tri_dec. Qed.
Lemma tm_tri_keepalive : tm_tri tm_dec_keepalive 1024 65535 tm_top.
Proof. unfold tm_dec_keepalive, tm_expect. tm_tri_dec. Qed.
Lemma tm_tri_msg_reject : tm_tri tm_dec_msg_reject 1024 65535 tm_top.
Proof. unfold tm_dec_msg_reject, tm_expect. tm_tri_dec. Qed.

Lemma tm_tri_contact : tm_tri tm_dec_contact 1024 65535 tm_top.
Proof.
  intros bs Hb. unfold tm_dec_contact, take_exact. destruct (Nat.leb 6 (length bs)) eqn:E.
  - apply Nat.leb_le in E. pose proof (tm_nlen_skipn 6 bs E) as Hs.
    destruct (bytes_eqb (firstn 5 (firstn 6 bs)) tm_head); cbn [tm_ret tm_fail].
    + repeat split; [apply bytes_ok_skipn, Hb|lia|lia].
    + lia.
  - cbn. lia.
Qed.

Lemma tm_tri_read : tm_tri tm_read 1024 65535 tm_top.
Proof.
  intros bs Hb. unfold tm_read, tm_read_gen. destruct bs as [|b bs']; [cbn; lia|].
  fold tm_dec_xfer_segment. fold tm_dec_sess_init.
  destruct (b =? tm_xfer_segment); [exact (tm_tri_xfer_segment _ Hb)|].
  destruct (b =? tm_xfer_ack); [exact (tm_tri_xfer_ack _ Hb)|].
  destruct (b =? tm_xfer_refuse); [exact (tm_tri_xfer_refuse _ Hb)|].
  destruct (b =? tm_keepalive); [exact (tm_tri_keepalive _ Hb)|].
  destruct (b =? tm_sess_term); [exact (tm_tri_sess_term _ Hb)|].
  destruct (b =? tm_msg_reject); [exact (tm_tri_msg_reject _ Hb)|].
  destruct (b =? tm_sess_init); [exact (tm_tri_sess_init _ Hb)|].
  destruct (b =? tm_contact); [exact (tm_tri_contact _ Hb)|].
  cbn. lia.
Qed.

(* ReadMessage on any bytes: a value or an error, never a panic *)
Theorem tm_read_no_panic bs : bytes_ok bs = true -> fst (tm_read bs) <> TmPanic.
Proof.
  intros Hb. pose proof (tm_tri_read bs Hb) as H. destruct (tm_read bs) as [[m r| |] n]; cbn [fst]; [discriminate|discriminate|contradiction].
Qed.

(* ... and what it allocates by wire-given sizes is bounded by the bytes that are there *)
Theorem tm_read_alloc_bounded bs : bytes_ok bs = true -> snd (tm_read bs) <= tm_alloc_bound (nlen bs).
Proof.
  intros Hb. pose proof (tm_tri_read bs Hb) as H. unfold tm_alloc_bound, tm_alloc_c1, tm_alloc_c0.
  destruct (tm_read bs) as [[m r| |] n]; cbn [snd]; [|lia|contradiction].
  destruct H as (_ & _ & H1 & H2). lia.
Qed.

(* ------------------------------------------------------------------------------------------ *)
(* 6. progress: every message read takes at least one byte, so the stream loop terminates and
      its fuel never runs out (for the repaired and the original code, for any list of numbers) *)

Definition tm_nonincr {A} (p : tm_reader A) : Prop :=
  forall bs a r n, p bs = (TmOk a r, n) -> (length r <= length bs)%nat.
Definition tm_decr {A} (p : tm_reader A) : Prop :=
  forall bs a r n, p bs = (TmOk a r, n) -> (length r < length bs)%nat.

Lemma tm_nonincr_bind {A B} (p : tm_reader A) (f : A -> tm_reader B) :
  tm_nonincr p -> (forall a, tm_nonincr (f a)) -> tm_nonincr (tm_bind p f).
Proof.
  intros Hp Hf bs b r n H. unfold tm_bind in H. destruct (p bs) as [[a r1| |] n1] eqn:E; try discriminate.
  specialize (Hp _ _ _ _ E). destruct (f a r1) as [[b' r2| |] n2] eqn:E2; cbn [fst snd] in H; try discriminate.
  inversion H; subst. specialize (Hf a _ _ _ _ E2). lia.
Qed.
Lemma tm_decr_bind {A B} (p : tm_reader A) (f : A -> tm_reader B) :
  tm_decr p -> (forall a, tm_nonincr (f a)) -> tm_decr (tm_bind p f).
Proof.
  intros Hp Hf bs b r n H. unfold tm_bind in H. destruct (p bs) as [[a r1| |] n1] eqn:E; try discriminate.
  specialize (Hp _ _ _ _ E). destruct (f a r1) as [[b' r2| |] n2] eqn:E2; cbn [fst snd] in H; try discriminate.
  inversion H; subst. specialize (Hf a _ _ _ _ E2). lia.
Qed.
Lemma tm_nonincr_ret {A} (a : A) : tm_nonincr (tm_ret a).
Proof. intros bs a' r n H. inversion H; subst. lia. Qed.
Lemma tm_nonincr_fail {A} : tm_nonincr (@tm_fail A).
Proof. intros bs a' r n H. discriminate. Qed.
Lemma tm_u_len w bs v r n : tm_u w bs = (TmOk v r, n) -> (length r + w = length bs)%nat.
Proof.
  unfold tm_u, take_exact. destruct (Nat.leb w (length bs)) eqn:E; [|discriminate].
  apply Nat.leb_le in E. intros H. inversion H; subst. rewrite skipn_length. lia.
Qed.
Lemma tm_nonincr_u w : tm_nonincr (tm_u w).
Proof. intros bs v r n H. apply tm_u_len in H. lia. Qed.
Lemma tm_decr_u w : (1 <= w)%nat -> tm_decr (tm_u w).
Proof. intros Hw bs v r n H. apply tm_u_len in H. lia. Qed.
Lemma tm_split_len n bs d r : tm_split n bs = Some (d, r) -> (length r <= length bs)%nat.
Proof. intros H. destruct (tm_split_some _ _ _ _ H) as (_ & _ & _ & ->). rewrite skipn_length. lia. Qed.
Lemma tm_nonincr_make_full k : tm_nonincr (tm_make_full k).
Proof.
  intros bs d r n H. unfold tm_make_full in H. destruct (tm_max_alloc <? k); [discriminate|].
  destruct (tm_split k bs) as [[d' r']|] eqn:E; [|discriminate]. inversion H; subst. eapply tm_split_len; eauto.
Qed.
Lemma tm_nonincr_make_str k : tm_nonincr (tm_make_str k).
Proof.
  intros bs d r n H. unfold tm_make_str in H.
  destruct (tm_make_full k bs) as [[d' r'| |] a] eqn:E; try discriminate. inversion H; subst.
  eapply tm_nonincr_make_full; eauto.
Qed.
Lemma tm_nonincr_discard k : tm_nonincr (tm_discard k).
Proof.
  intros bs d r n H. unfold tm_discard in H.
  destruct (tm_split k bs) as [[d' r']|] eqn:E; [|discriminate]. inversion H; subst. eapply tm_split_len; eauto.
Qed.
Lemma tm_nonincr_read_grow k : tm_nonincr (tm_read_grow k).
Proof.
  intros bs d r n H. unfold tm_read_grow in H. destruct (tm_i63 <=? k); [discriminate|].
  destruct (tm_split k bs) as [[d' r']|] eqn:E; [|discriminate]. inversion H; subst. eapply tm_split_len; eauto.
Qed.

Ltac tm_ni :=
  lazymatch goal with
  | |- tm_nonincr (tm_bind _ _) => apply tm_nonincr_bind; [tm_ni | intros ?; tm_ni]
  | |- tm_nonincr (if ?c then _ else _) => destruct c; tm_ni
  | |- tm_nonincr (tm_ret _) => apply tm_nonincr_ret
  | |- tm_nonincr tm_fail => apply tm_nonincr_fail
  | |- tm_nonincr (tm_u _) => apply tm_nonincr_u
  | |- tm_nonincr (tm_make_full _) => apply tm_nonincr_make_full
  | |- tm_nonincr (tm_make_str _) => apply tm_nonincr_make_str
  | |- tm_nonincr (tm_discard _) => apply tm_nonincr_discard
  | |- tm_nonincr (tm_read_grow _) => apply tm_nonincr_read_grow
  end.

Lemma tm_decr_expect t : tm_decr (tm_expect t).
Proof. unfold tm_expect. apply tm_decr_bind; [apply tm_decr_u; lia|intros b; tm_ni]. Qed.

Ltac tm_dc := apply tm_decr_bind; [apply tm_decr_expect | intros ?; tm_ni].

Lemma tm_decr_read fx : tm_decr (tm_read_gen fx).
Proof.
  intros bs m r n H. unfold tm_read_gen in H. destruct bs as [|b bs']; [discriminate|].
  destruct (b =? tm_xfer_segment).
  { revert H. apply (tm_decr_bind (tm_expect tm_xfer_segment)); [apply tm_decr_expect|].
    intros ?. unfold tm_skip, tm_data. destruct fx; tm_ni. }
  destruct (b =? tm_xfer_ack); [revert H; unfold tm_dec_xfer_ack; tm_dc|].
  destruct (b =? tm_xfer_refuse); [revert H; unfold tm_dec_xfer_refuse; tm_dc|].
  destruct (b =? tm_keepalive); [revert H; unfold tm_dec_keepalive; tm_dc|].
  destruct (b =? tm_sess_term); [revert H; unfold tm_dec_sess_term; tm_dc|].
  destruct (b =? tm_msg_reject); [revert H; unfold tm_dec_msg_reject; tm_dc|].
  destruct (b =? tm_sess_init).
  { revert H. apply (tm_decr_bind (tm_expect tm_sess_init)); [apply tm_decr_expect|].
    intros ?. unfold tm_skip. destruct fx; tm_ni. }
  destruct (b =? tm_contact).
  { unfold tm_dec_contact, take_exact in H. destruct (Nat.leb 6 (length (b :: bs'))) eqn:E; [|discriminate].
    apply Nat.leb_le in E. destruct (bytes_eqb _ _); [|discriminate].
    assert (Hr : r = skipn 6 (b :: bs')) by (inversion H; reflexivity).
    rewrite Hr, skipn_length. lia. }
  discriminate.
Qed.

(* any fuel of at least the input length gives the same result: fuel exhaustion is unreachable *)
Lemma tm_stream_fuel_any fx : forall f1 f2 bs, (length bs <= f1)%nat -> (length bs <= f2)%nat ->
  tm_stream_fuel fx f1 bs = tm_stream_fuel fx f2 bs.
Proof.
  induction f1 as [|f1 IH]; intros f2 bs H1 H2.
  - destruct bs; [|cbn in H1; lia]. destruct f2; reflexivity.
  - destruct bs as [|b bs']; [destruct f2; reflexivity|].
    destruct f2 as [|f2]; [cbn in H2; lia|].
    cbn [tm_stream_fuel]. destruct (tm_read_gen fx (b :: bs')) as [[m r| |] a] eqn:E; try reflexivity.
    pose proof (tm_decr_read fx _ _ _ _ E) as Hd. cbn [length] in *.
    rewrite (IH f2 r) by lia. reflexivity.
Qed.

Theorem tm_stream_fuel_enough fx fuel bs : (length bs <= fuel)%nat ->
  tm_stream_fuel fx fuel bs = tm_stream_fuel fx (length bs) bs.
Proof. intros H. apply tm_stream_fuel_any; lia. Qed.

(* the whole receive loop: no crash, allocation linear in the bytes that arrived *)
Lemma tm_stream_fuel_safe : forall fuel bs, bytes_ok bs = true -> (length bs <= fuel)%nat ->
  let '(ms, e, a) := tm_stream_fuel true fuel bs in
  e <> TmCrash /\ a <= tm_stream_c1 * nlen bs + tm_alloc_c0.
Proof.
  unfold tm_stream_c1, tm_alloc_c0.
  induction fuel as [|fuel IH]; intros bs Hb Hf.
  - destruct bs; [|cbn in Hf; lia]. cbn. split; [discriminate|lia].
  - destruct bs as [|b bs']; [cbn; split; [discriminate|lia]|].
    cbn [tm_stream_fuel]. fold tm_read.
    pose proof (tm_tri_read _ Hb) as Ht.
    destruct (tm_read (b :: bs')) as [[m r| |] a] eqn:E.
    + destruct Ht as (_ & Hr & Hl & Ha).
      pose proof (tm_decr_read true _ _ _ _ E) as Hd.
      specialize (IH r Hr ltac:(cbn [length] in *; lia)).
      destruct (tm_stream_fuel true fuel r) as [[ms e] a'].
      destruct IH as (He & Ha'). split; [exact He|].
      unfold nlen in *. cbn [length] in *. lia.
    + split; [discriminate|]. lia.
    + contradiction.
Qed.

Theorem tm_stream_safe bs : bytes_ok bs = true ->
  snd (fst (tm_stream bs)) <> TmCrash /\ snd (tm_stream bs) <= tm_stream_bound (nlen bs).
Proof.
  intros Hb. unfold tm_stream, tm_stream_bound.
  pose proof (tm_stream_fuel_safe (length bs) bs Hb ltac:(lia)) as H.
  destruct (tm_stream_fuel true (length bs) bs) as [[ms e] a]. exact H.
Qed.

(* ------------------------------------------------------------------------------------------ *)
(* 7. the code before the repairs: a 22-byte XFER_SEGMENT and a 26-byte SESS_INIT that make the node
      panic or allocate gigabytes that never arrive *)

(* XFER_SEGMENT, no extension items, data length 2^64-1: make panics *)
Definition tm_wit_segment_panic : list N := [1; 0] ++ be_encode 8 7 ++ be_encode 4 0 ++ be_encode 8 (tm_u64 - 1).
(* XFER_SEGMENT, data length 2^40: one tebibyte is allocated for bytes that never come *)
Definition tm_wit_segment_data : list N := [1; 0] ++ be_encode 8 7 ++ be_encode 4 0 ++ be_encode 8 (2 ^ 40).
(* XFER_SEGMENT, transfer extension length 2^32-1 *)
Definition tm_wit_segment_ext : list N := [1; 0] ++ be_encode 8 7 ++ be_encode 4 (tm_u32 - 1).
(* SESS_INIT, empty node id, session extension length 2^32-1 *)
Definition tm_wit_init_ext : list N :=
  [7] ++ be_encode 2 30 ++ be_encode 8 1000 ++ be_encode 8 1000 ++ be_encode 2 0 ++ be_encode 4 (tm_u32 - 1).

Example tm_orig_segment_panics : tm_read_orig tm_wit_segment_panic = (TmPanic, 0).
Proof. vm_compute. reflexivity. Qed.
Example tm_orig_segment_data_balloons :
  tm_read_orig tm_wit_segment_data = (TmErr, 2 ^ 40) /\ nlen tm_wit_segment_data = 22.
Proof. vm_compute. split; reflexivity. Qed.
Example tm_orig_segment_ext_balloons :
  tm_read_orig tm_wit_segment_ext = (TmErr, 4294967295) /\ nlen tm_wit_segment_ext = 14.
Proof. vm_compute. split; reflexivity. Qed.
Example tm_orig_init_ext_balloons :
  tm_read_orig tm_wit_init_ext = (TmErr, 4294967295) /\ nlen tm_wit_init_ext = 25.
Proof. vm_compute. split; reflexivity. Qed.

(* the property as stated is false for the original code ... *)
Theorem tm_orig_refuted :
  (exists bs, bytes_ok bs = true /\ fst (tm_read_orig bs) = TmPanic)
  /\ (exists bs, bytes_ok bs = true /\ tm_alloc_bound (nlen bs) < snd (tm_read_orig bs)).
Proof.
  split.
  - exists tm_wit_segment_panic. vm_compute. split; reflexivity.
  - exists tm_wit_init_ext. vm_compute. split; reflexivity.
Qed.

(* ... and the repaired code answers the same inputs with an error and a constant allocation *)
Example tm_fixed_witnesses :
  tm_read tm_wit_segment_panic = (TmErr, 1024) /\ tm_read tm_wit_segment_data = (TmErr, 1024)
  /\ tm_read tm_wit_segment_ext = (TmErr, 0) /\ tm_read tm_wit_init_ext = (TmErr, 0).
Proof. vm_compute. repeat split; reflexivity. Qed.

(* beyond the encoder's silent limit: a node id of 65536 bytes is written with length field 0 and all
   its bytes (uint16(len) wraps), so the decoder sees an empty node id and goes on to read the first
   four id bytes as the extension length: the value does not come back *)
Lemma tm_make_full_zero bs : tm_make_full 0 bs = (TmOk [] bs, 0).
Proof.
  unfold tm_make_full, tm_split. change (tm_max_alloc <? 0) with false. cbv iota.
  replace (nlen bs <? 0) with false by lia. reflexivity.
Qed.

Theorem tm_sess_init_overlong k s t n r : k < tm_u16 -> s < tm_u64 -> t < tm_u64 -> nlen n = 65536 ->
  be_encode 2 (nlen n) = [0; 0]
  /\ forall r' a, tm_read (tm_enc (TmSessInit k s t n) ++ r) <> (TmOk (TmSessInit k s t n) r', a).
Proof.
  intros Hk Hs Ht Hn. split; [rewrite Hn; reflexivity|]. intros r' a.
  unfold tm_enc. rewrite <- !app_assoc. cbn [app].
  change (tm_read (tm_sess_init :: ?x)) with (tm_dec_sess_init (tm_sess_init :: x)).
  unfold tm_dec_sess_init, tm_dec_sess_init_gen.
  tm_step_hdr. do 3 tm_step_u.
  rewrite Hn. change (be_encode 2 65536) with (be_encode 2 0).
  tm_step_u.
  erewrite tm_bind_ok by (unfold tm_make_str; rewrite tm_make_full_zero; reflexivity). cbn [fst snd].
  unfold tm_bind at 1.
  destruct (tm_u 4 _) as [[el r1| |] n1]; try discriminate.
  unfold tm_bind at 1.
  match goal with |- context [if ?c then _ else _] => destruct c end.
  - cbn. intros Heq. inversion Heq; subst. cbn in Hn. lia.
  - destruct (tm_skip true el r1) as [[u r2| |] n2]; cbn; try discriminate.
    intros Heq. inversion Heq; subst. cbn in Hn. lia.
Qed.

(* ------------------------------------------------------------------------------------------ *)
(* 8. the statements restated in Properties *)

Theorem tm_reject_all :
  (* message type octet *)
  (forall b r, tm_type_known b = false -> tm_read (b :: r) = (TmErr, 0))
  /\ (forall b, tm_type_known b = true -> exists r, tm_is_ok (tm_read (b :: r)) = true)
  /\ (forall b, tm_type_known b = true <-> In b [1; 2; 3; 4; 5; 6; 7; 100])
  (* SESS_TERM reason code *)
  /\ (forall f c r, tm_read (5 :: f :: c :: r)
                    = if tm_term_valid c then (TmOk (TmSessTerm f c) r, 0) else (TmErr, 0))
  /\ (forall c, tm_term_valid c = true <-> In c [0; 1; 2; 3; 4; 5])
  (* XFER_REFUSE reason code *)
  /\ (forall c t8 r, length t8 = 8%nat ->
        tm_read (3 :: c :: t8 ++ r)
        = if tm_refuse_valid c then (TmOk (TmXferRefuse c (be_decode t8)) r, 0) else (TmErr, 0))
  /\ (forall c, tm_refuse_valid c = true <-> In c [0; 1; 2; 3; 4; 5; 6])
  (* MSG_REJECT reason code *)
  /\ (forall c h r, tm_read (6 :: c :: h :: r)
                    = if tm_reject_valid c then (TmOk (TmMsgReject c h) r, 0) else (TmErr, 0))
  /\ (forall c, tm_reject_valid c = true <-> In c [1; 2; 3])
  (* contact header: magic, version, flags *)
  /\ (forall a b c d e f r, tm_dec_contact (a :: b :: c :: d :: e :: f :: r)
        = if (a =? 100) && (b =? 116) && (c =? 110) && (d =? 33) && (e =? 4)
          then (TmOk (TmContact f) r, 0) else (TmErr, 0))
  /\ (forall b c d e f r, tm_read (100 :: b :: c :: d :: e :: f :: r)
        = if (b =? 116) && (c =? 110) && (d =? 33) && (e =? 4) then (TmOk (TmContact f) r, 0) else (TmErr, 0)).
Proof.
  repeat split.
  - apply tm_type_reject.
  - apply tm_type_accept.
  - apply tm_type_known_enum.
  - apply tm_type_known_enum.
  - apply tm_sess_term_code.
  - apply tm_term_valid_enum.
  - apply tm_term_valid_enum.
  - apply tm_xfer_refuse_code.
  - apply tm_refuse_valid_enum.
  - apply tm_refuse_valid_enum.
  - apply tm_msg_reject_code.
  - apply tm_reject_valid_enum.
  - apply tm_reject_valid_enum.
  - apply tm_contact_code.
  - apply tm_contact_read.
Qed.

(* the same as a finite sweep over all 256 octet values of every code field (other fields fixed) *)
Definition tm_bytes256 : list N := map N.of_nat (seq 0 256).
Definition tm_mem (b : N) (l : list N) : bool := existsb (N.eqb b) l.
Definition tm_put (pos : nat) (b : N) (l : list N) : list N := firstn pos l ++ b :: skipn (S pos) l.
(* accepted, and exactly the given bytes consumed *)
Definition tm_ok_all (o : tm_out tm_msg) : bool := match fst o with TmOk _ [] => true | _ => false end.
Definition tm_sweep_code (b : N) : bool :=
  Bool.eqb (tm_is_ok (tm_read [5; 1; b])) (tm_mem b [0; 1; 2; 3; 4; 5])
  && Bool.eqb (tm_is_ok (tm_read [3; b; 0; 0; 0; 0; 0; 0; 0; 9])) (tm_mem b [0; 1; 2; 3; 4; 5; 6])
  && Bool.eqb (tm_is_ok (tm_read [6; b; 7])) (tm_mem b [1; 2; 3])
  && Bool.eqb (tm_ok_all (tm_read (b :: tl (tm_enc (TmXferAck 1 2 3))))) (b =? 2)
  && Bool.eqb (tm_is_ok (tm_read (b :: repeat 0 40))) (tm_mem b [1; 2; 3; 4; 5; 7])
  && (tm_mem b [1; 2; 3; 4; 5; 6; 7; 100] || negb (tm_is_ok (tm_read (b :: repeat 1 40))))
  && Bool.eqb (tm_ok_all (tm_read (tm_put 0 b (tm_enc (TmContact 1))))) (b =? 100)
  && Bool.eqb (tm_is_ok (tm_read (tm_put 1 b (tm_enc (TmContact 1))))) (b =? 116)
  && Bool.eqb (tm_is_ok (tm_read (tm_put 2 b (tm_enc (TmContact 1))))) (b =? 110)
  && Bool.eqb (tm_is_ok (tm_read (tm_put 3 b (tm_enc (TmContact 1))))) (b =? 33)
  && Bool.eqb (tm_is_ok (tm_read (tm_put 4 b (tm_enc (TmContact 1))))) (b =? 4)
  && tm_is_ok (tm_read (tm_put 5 b (tm_enc (TmContact 1)))).

Lemma tm_sweep_all : forallb tm_sweep_code tm_bytes256 = true.
Proof. vm_compute. reflexivity. Qed.

Lemma tm_bytes256_in b : b < 256 -> In b tm_bytes256.
Proof.
  intros H. unfold tm_bytes256. apply in_map_iff. exists (N.to_nat b). split; [lia|].
  apply in_seq. lia.
Qed.

Theorem tm_sweep_every_octet b : b < 256 -> tm_sweep_code b = true.
Proof. intros H. exact (proj1 (forallb_forall _ _) tm_sweep_all b (tm_bytes256_in b H)). Qed.
