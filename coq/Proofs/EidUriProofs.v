(* EidUriProofs.v - endpoint IDs as URI text (bpv7.NewEndpointID / EndpointID.String):
   printing a valid structure and parsing the text gives the structure back; whatever text is
   accepted has a valid structure, and that structure's printed form parses to it again.
   Decimal numbers: printing and strconv.ParseUint-style parsing are inverse below 2^64; the fuel
   of the digit printer (25) covers every number below 10^25. *)
From DTN Require Import Base Cbor CborProofs Eid EidProofs.
From Coq Require Import ZifyN ZifyNat ZifyBool.
Open Scope N_scope.

(* ---------------- decimal digits ---------------- *)
Lemma is_digit_of_mod n : is_digit (48 + n mod 10) = true.
Proof. unfold is_digit. pose proof (N.mod_upper_bound n 10). lia. Qed.

Lemma dec_digits_pos_digits fuel : forall n acc,
  forallb is_digit acc = true -> forallb is_digit (dec_digits_pos fuel n acc) = true.
Proof.
  induction fuel as [|f IH]; intros n acc H; cbn [dec_digits_pos]; [exact H|].
  destruct (n =? 0); [exact H|]. apply IH. cbn [forallb]. rewrite is_digit_of_mod, H. reflexivity.
Qed.

Lemma dec_digits_pos_length fuel : forall n acc, (length acc <= length (dec_digits_pos fuel n acc))%nat.
Proof.
  induction fuel as [|f IH]; intros n acc; cbn [dec_digits_pos]; [lia|].
  destruct (n =? 0); [lia|]. specialize (IH (n / 10) ((48 + n mod 10) :: acc)). cbn [length] in IH. lia.
Qed.

Lemma dec_digits_digits n : forallb is_digit (dec_digits n) = true.
Proof. unfold dec_digits. destruct (n =? 0); [reflexivity|]. apply dec_digits_pos_digits. reflexivity. Qed.

Lemma dec_digits_nonempty n : dec_digits n <> [].
Proof.
  unfold dec_digits. destruct (n =? 0) eqn:E; [discriminate|].
  pose proof (dec_digits_pos_length 24 (n / 10) [48 + n mod 10]) as H. cbn [length] in H.
  assert (Hs : dec_digits_pos 25 n [] = dec_digits_pos 24 (n / 10) [48 + n mod 10]).
  { generalize 24%nat. intros f. cbn [dec_digits_pos]. rewrite E. reflexivity. }
  intros Hn. rewrite Hs in Hn. rewrite Hn in H. cbn [length] in H. lia.
Qed.

(* reading back what the digit printer wrote in front of [acc]: the value read so far, [a], is
   shifted by the number of digits of [n] and [n] is added - provided the fuel covers [n] and the
   result fits 64 bits (every intermediate value is then smaller still) *)
Lemma parse_dec_digits_pos fuel : forall n acc, n < 10 ^ N.of_nat fuel ->
  exists k, forall a, a * 10 ^ k + n < 18446744073709551616 ->
    parse_uint_acc a (dec_digits_pos fuel n acc) = parse_uint_acc (a * 10 ^ k + n) acc.
Proof.
  induction fuel as [|f IH]; intros n acc Hn.
  - change (10 ^ N.of_nat 0) with 1 in Hn. assert (n = 0) by lia. subst. exists 0. intros a _. cbn [dec_digits_pos].
    rewrite N.pow_0_r, N.mul_1_r, N.add_0_r. reflexivity.
  - cbn [dec_digits_pos]. destruct (n =? 0) eqn:E.
    + assert (n = 0) by lia. subst. exists 0. intros a _. rewrite N.pow_0_r, N.mul_1_r, N.add_0_r. reflexivity.
    + assert (Hn' : n / 10 < 10 ^ N.of_nat f).
      { rewrite Nat2N.inj_succ, N.pow_succ_r' in Hn. apply N.div_lt_upper_bound; lia. }
      destruct (IH (n / 10) ((48 + n mod 10) :: acc) Hn') as [k Hk]. exists (N.succ k). intros a Ha.
      rewrite N.pow_succ_r' in *.
      set (p := 10 ^ k) in *.
      assert (Hq : a * (10 * p) = (a * p) * 10) by lia. rewrite Hq in *.
      pose proof (N.div_mod n 10 ltac:(lia)) as Hdm. pose proof (N.mod_upper_bound n 10 ltac:(lia)) as Hm.
      rewrite Hk by lia. cbn [parse_uint_acc].
      replace ((a * p + n / 10) * 10 + (48 + n mod 10 - 48)) with (a * p * 10 + n) by lia.
      replace (u64_ok (a * p * 10 + n)) with true by (unfold u64_ok; lia). reflexivity.
Qed.

Lemma fuel_25_covers_u64 n : u64_ok n = true -> n < 10 ^ N.of_nat 25.
Proof. unfold u64_ok. intros H. change (10 ^ N.of_nat 25) with 10000000000000000000000000. lia. Qed.

(* every number below 10^25 - in particular every uint64 - is printed in full: the 25 units of fuel
   of [dec_digits] are never what ends the digit loop *)
Theorem parse_dec_digits n : u64_ok n = true -> parse_uint_acc 0 (dec_digits n) = Some n.
Proof.
  intros H. unfold dec_digits. destruct (n =? 0) eqn:E.
  - assert (n = 0) by lia. subst. reflexivity.
  - destruct (parse_dec_digits_pos 25 n [] (fuel_25_covers_u64 n H)) as [k Hk].
    rewrite Hk by (unfold u64_ok in H; lia). cbn [parse_uint_acc]. f_equal; lia.
Qed.

Lemma parse_uint_acc_u64 s : forall a v, u64_ok a = true -> parse_uint_acc a s = Some v -> u64_ok v = true.
Proof.
  induction s as [|c s IH]; intros a v Ha H; cbn [parse_uint_acc] in H.
  - inversion H; subst. exact Ha.
  - destruct (u64_ok (a * 10 + (c - 48))) eqn:E; [|discriminate]. eapply IH; eauto.
Qed.

(* ---------------- spans ---------------- *)
Lemma span_digits_app ds rest :
  forallb is_digit ds = true ->
  (match rest with [] => true | c :: _ => negb (is_digit c) end) = true ->
  span_digits (ds ++ rest) = (ds, rest).
Proof.
  intros Hd Hr. induction ds as [|c ds IH]; cbn [app].
  - destruct rest as [|c rest]; [reflexivity|]. cbn [span_digits]. apply negb_true_iff in Hr. rewrite Hr. reflexivity.
  - cbn [forallb] in Hd. apply andb_prop in Hd. destruct Hd as [Hc Hd]. cbn [span_digits]. rewrite Hc, (IH Hd). reflexivity.
Qed.

Lemma span_digits_spec s : forall a b, span_digits s = (a, b) -> s = a ++ b /\ forallb is_digit a = true.
Proof.
  induction s as [|c s IH]; intros a b H; cbn [span_digits] in H.
  - inversion H; subst. split; reflexivity.
  - destruct (is_digit c) eqn:E.
    + destruct (span_digits s) as [a' b'] eqn:E2. inversion H; subst. destruct (IH a' b eq_refl) as [-> Hd].
      split; [reflexivity|]. cbn [forallb]. rewrite E, Hd. reflexivity.
    + inversion H; subst. split; reflexivity.
Qed.

Lemma span_node_spec s : forall a b, span_node s = (a, b) -> s = a ++ b /\ forallb is_node_char a = true.
Proof.
  induction s as [|c s IH]; intros a b H; cbn [span_node] in H.
  - inversion H; subst. split; reflexivity.
  - destruct (is_node_char c) eqn:E.
    + destruct (span_node s) as [a' b'] eqn:E2. inversion H; subst. destruct (IH a' b eq_refl) as [-> Hd].
      split; [reflexivity|]. cbn [forallb]. rewrite E, Hd. reflexivity.
    + inversion H; subst. split; reflexivity.
Qed.

Lemma strip_prefix_spec p : forall s r, strip_prefix p s = Some r -> s = p ++ r.
Proof.
  induction p as [|a p IH]; intros s r H; cbn [strip_prefix] in H.
  - inversion H; subst. reflexivity.
  - destruct s as [|b s]; [discriminate|]. destruct (a =? b) eqn:E; [|discriminate].
    apply N.eqb_eq in E. subst. cbn [app]. f_equal. apply IH, H.
Qed.
Lemma strip_prefix_app p : forall r, strip_prefix p (p ++ r) = Some r.
Proof. induction p as [|a p IH]; intros r; cbn [strip_prefix app]; [reflexivity|]. rewrite N.eqb_refl. apply IH. Qed.

(* what parse_ssp accepts is exactly "//" node "/" demux with a non-empty node of node characters
   and a demux without newline *)
Lemma parse_ssp_inv s node demux : parse_ssp s = Some (node, demux) ->
  s = ssp_bytes node demux /\ eid_valid (Dtn node demux) = true.
Proof.
  unfold parse_ssp. destruct s as [|c1 [|c2 s]]; try discriminate.
  - destruct c1 as [|p]; [discriminate|]. repeat (destruct p as [p|p|]; try discriminate).
  - destruct (N.eq_dec c1 47) as [->|Hn1].
    2:{ intros H. exfalso. destruct c1 as [|p]; [discriminate|]. repeat (destruct p as [p|p|]; try discriminate); apply Hn1; reflexivity. }
    destruct (N.eq_dec c2 47) as [->|Hn2].
    2:{ intros H. exfalso. destruct c2 as [|p]; [discriminate|]. repeat (destruct p as [p|p|]; try discriminate); apply Hn2; reflexivity. }
    destruct (span_node s) as [nd r'] eqn:E. destruct (span_node_spec s nd r' E) as [-> Hc].
    destruct nd as [|n0 nd]; [discriminate|]. destruct r' as [|c r']; [discriminate|].
    destruct (N.eq_dec c 47) as [->|Hn3].
    2:{ intros H. exfalso. destruct c as [|p]; [discriminate|]. repeat (destruct p as [p|p|]; try discriminate); apply Hn3; reflexivity. }
    destruct (no_newline r') eqn:En; [|discriminate]. intros H. inversion H; subst.
    split; [reflexivity|]. unfold eid_valid. rewrite Hc, En. reflexivity.
Qed.

(* ---------------- print then parse ---------------- *)
Theorem eid_parse_print e : eid_valid e = true -> eid_wf e = true -> eid_parse (eid_print e) = Some e.
Proof.
  intros Hv Hw. destruct e as [|node demux|n s].
  - reflexivity.
  - unfold eid_parse, eid_print. rewrite strip_prefix_app, ssp_not_none, parse_ssp_ssp by exact Hv. reflexivity.
  - cbn [eid_valid eid_wf] in *. apply andb_prop in Hv, Hw. destruct Hv as [Hn1 Hs1], Hw as [Hn Hs].
    unfold eid_parse, eid_print.
    change (strip_prefix str_dtn_colon (str_ipn_colon ++ dec_digits n ++ [46] ++ dec_digits s)) with (@None (list N)).
    rewrite strip_prefix_app.
    rewrite span_digits_app; [|apply dec_digits_digits|reflexivity].
    pose proof (dec_digits_nonempty n) as Hne. destruct (dec_digits n) as [|d0 dn] eqn:En; [congruence|]. rewrite <- En. clear Hne.
    cbn [app].
    rewrite <- (app_nil_r (dec_digits s)) at 1. rewrite span_digits_app; [|apply dec_digits_digits|reflexivity].
    pose proof (dec_digits_nonempty s) as Hne. destruct (dec_digits s) as [|e0 ds] eqn:Es; [congruence|]. rewrite <- Es. clear Hne.
    rewrite !parse_dec_digits by assumption. rewrite Hn1, Hs1. reflexivity.
Qed.

(* printing is injective on valid endpoint IDs *)
Corollary eid_print_inj a b :
  eid_valid a = true -> eid_wf a = true -> eid_valid b = true -> eid_wf b = true ->
  eid_print a = eid_print b -> a = b.
Proof.
  intros Hva Hwa Hvb Hwb H. pose proof (eid_parse_print a Hva Hwa) as Ha. rewrite H, (eid_parse_print b Hvb Hwb) in Ha.
  inversion Ha. reflexivity.
Qed.

(* ---------------- parse: what is accepted ---------------- *)
(* The shape of every accepted text.  dtn: the text *is* the printed form of the structure.
   ipn: two non-empty digit strings whose values are the two numbers, both in [1, 2^64); leading
   zeros are the only freedom (RFC 6260 allows them), e.g. ipn:01.1 and ipn:1.1 are the same endpoint. *)
Theorem eid_parse_inv uri e : eid_parse uri = Some e ->
  match e with
  | Ipn n s => exists d1 d2, uri = str_ipn_colon ++ d1 ++ [46] ++ d2
                 /\ d1 <> [] /\ d2 <> [] /\ forallb is_digit d1 = true /\ forallb is_digit d2 = true
                 /\ parse_uint_acc 0 d1 = Some n /\ parse_uint_acc 0 d2 = Some s
                 /\ 1 <= n < 18446744073709551616 /\ 1 <= s < 18446744073709551616
  | _ => uri = eid_print e /\ eid_valid e = true
  end.
Proof.
  unfold eid_parse. destruct (strip_prefix str_dtn_colon uri) as [ssp|] eqn:E1.
  - apply strip_prefix_spec in E1. subst uri.
    destruct (bytes_eqb ssp str_none) eqn:E2.
    + apply bytes_eqb_eq in E2. subst. intros H. inversion H; subst. split; reflexivity.
    + destruct (parse_ssp ssp) as [[node demux]|] eqn:E3; [|discriminate]. intros H. inversion H; subst.
      apply parse_ssp_inv in E3. destruct E3 as [-> Hv]. split; [reflexivity|exact Hv].
  - destruct (strip_prefix str_ipn_colon uri) as [r|] eqn:E2; [|discriminate].
    apply strip_prefix_spec in E2. subst uri.
    destruct (span_digits r) as [d1 r1] eqn:E3. destruct (span_digits_spec _ _ _ E3) as [-> Hd1].
    destruct d1 as [|c1 d1]; [discriminate|]. destruct r1 as [|c r2]; [discriminate|].
    destruct (N.eq_dec c 46) as [->|Hn].
    2:{ intros H. exfalso. destruct c as [|p]; [discriminate|]. repeat (destruct p as [p|p|]; try discriminate); apply Hn; reflexivity. }
    destruct (span_digits r2) as [d2 r3] eqn:E4. destruct (span_digits_spec _ _ _ E4) as [-> Hd2].
    destruct d2 as [|c2 d2]; [discriminate|]. destruct r3 as [|? ?]; [|discriminate].
    destruct (parse_uint_acc 0 (c1 :: d1)) as [n|] eqn:P1; [|discriminate].
    destruct (parse_uint_acc 0 (c2 :: d2)) as [s|] eqn:P2; [|discriminate].
    destruct ((1 <=? n) && (1 <=? s)) eqn:E5; [|discriminate]. intros H. inversion H; subst.
    apply andb_prop in E5. destruct E5 as [Hn1 Hs1].
    pose proof (parse_uint_acc_u64 _ 0 n eq_refl P1) as Hu1. pose proof (parse_uint_acc_u64 _ 0 s eq_refl P2) as Hu2.
    exists (c1 :: d1), (c2 :: d2). rewrite app_nil_r. unfold u64_ok in *.
    repeat split; try assumption; try discriminate; lia.
Qed.

(* text -> structure -> canonical text is idempotent: an accepted text has a valid structure within
   the ranges, and the printed form of that structure is accepted as the same structure *)
Theorem eid_parse_valid uri e : eid_parse uri = Some e ->
  eid_valid e = true /\ eid_parse (eid_print e) = Some e.
Proof.
  intros H. pose proof (eid_parse_inv uri e H) as Hi. destruct e as [|node demux|n s].
  - split; reflexivity.
  - destruct Hi as [_ Hv]. split; [exact Hv|].
    unfold eid_parse, eid_print. rewrite strip_prefix_app, ssp_not_none, parse_ssp_ssp by exact Hv. reflexivity.
  - destruct Hi as (d1 & d2 & _ & _ & _ & _ & _ & _ & _ & Hn & Hs).
    assert (Hv : eid_valid (Ipn n s) = true) by (cbn [eid_valid]; lia).
    split; [exact Hv|]. apply eid_parse_print; [exact Hv|]. cbn [eid_wf]. unfold u64_ok. lia.
Qed.

(* ---------------- malformed and out-of-range URIs ---------------- *)
Definition str (l : list N) := l.
Lemma eid_parse_rejects :
  let p := eid_parse in
  (* ipn 0 and numbers >= 2^64 *)
  p [105;112;110;58; 48; 46; 49] = None /\                                              (* ipn:0.1 *)
  p [105;112;110;58; 49; 46; 48] = None /\                                              (* ipn:1.0 *)
  p ([105;112;110;58] ++ [49;56;52;52;54;55;52;52;48;55;51;55;48;57;53;53;49;54;49;54] ++ [46; 49]) = None /\  (* ipn:18446744073709551616.1 *)
  p ([105;112;110;58] ++ [49;56;52;52;54;55;52;52;48;55;51;55;48;57;53;53;49;54;49;53] ++ [46; 49])
    = Some (Ipn 18446744073709551615 1) /\                                                (* ipn:18446744073709551615.1 *)
  p [105;112;110;58; 48;49; 46; 49] = Some (Ipn 1 1) /\                                  (* ipn:01.1 = ipn:1.1 *)
  (* dtn without //node/ *)
  p [100;116;110;58; 47;47; 97] = None /\                                                (* dtn://a *)
  p [100;116;110;58; 47; 97; 47] = None /\                                               (* dtn:/a/ *)
  p [100;116;110;58; 47;47;47] = None /\                                                 (* dtn:/// : empty node *)
  p [100;116;110;58; 47;47; 97; 47; 98; 10] = None /\                                    (* newline in the demux *)
  p [68;84;78;58; 47;47; 97; 47] = None /\                                               (* DTN://a/ *)
  p [100;116;110;58; 47;47; 97; 47] = Some (Dtn [97] []).                                (* dtn://a/ *)
Proof. vm_compute. repeat split. Qed.

(* in general: no text is accepted as ipn with a zero or with a number of 2^64 or more, and none as
   dtn with an empty node, a character outside [A-Za-z0-9_.-] in the node or a newline in the demux *)
Corollary eid_parse_range uri n s : eid_parse uri = Some (Ipn n s) ->
  1 <= n < 18446744073709551616 /\ 1 <= s < 18446744073709551616.
Proof. intros H. apply eid_parse_inv in H. destruct H as (d1 & d2 & H). tauto. Qed.

Corollary eid_parse_dtn uri node demux : eid_parse uri = Some (Dtn node demux) ->
  uri = str_dtn_colon ++ ssp_bytes node demux /\ node <> [] /\ forallb is_node_char node = true /\ no_newline demux = true.
Proof.
  intros H. apply eid_parse_inv in H. destruct H as [-> Hv]. split; [reflexivity|].
  unfold eid_valid in Hv. apply andb_prop in Hv. destruct Hv as [Hv Hd]. apply andb_prop in Hv. destruct Hv as [Hne Hc].
  repeat split; try assumption. destruct node; [discriminate|discriminate].
Qed.
