(* IdKeeperProofs.v - invariants of Model/IdKeeper.v behind the C14 theorems. *)
From Coq Require Import ZifyN ZifyBool.
From DTN Require Import Base IdKeeper.
Open Scope N_scope.

(* ------------------------------------------------------------------ *)
(* the association list                                                *)

Lemma ik_same_true : forall src t e, ik_same src t e = true <-> ike_src e = src /\ ike_time e = t.
Proof. intros. unfold ik_same. rewrite andb_true_iff, !N.eqb_eq. tauto. Qed.

Lemma ik_lookup_set_same : forall k src t c, ik_lookup (ik_set k src t c) src t = Some c.
Proof.
  induction k as [|e k IH]; intros; cbn [ik_set ik_lookup].
  - unfold ik_same; cbn. now rewrite !N.eqb_refl.
  - destruct (ik_same src t e) eqn:E; cbn [ik_lookup].
    + unfold ik_same; cbn. now rewrite !N.eqb_refl.
    + now rewrite E.
Qed.

Lemma ik_same_false : forall src t e, (ike_src e, ike_time e) <> (src, t) -> ik_same src t e = false.
Proof.
  intros src t e H. destruct (ik_same src t e) eqn:E; [|reflexivity].
  apply ik_same_true in E. destruct E; subst. now elim H.
Qed.

Lemma ik_lookup_set_other : forall k src t c src' t',
  (src', t') <> (src, t) -> ik_lookup (ik_set k src t c) src' t' = ik_lookup k src' t'.
Proof.
  induction k as [|e k IH]; intros src t c src' t' Hne; cbn [ik_set ik_lookup].
  - rewrite ik_same_false; [reflexivity|]. cbn. congruence.
  - destruct (ik_same src t e) eqn:E; cbn [ik_lookup].
    + apply ik_same_true in E. destruct E as [E1 E2].
      rewrite (ik_same_false src' t' e) by (rewrite E1, E2; congruence).
      rewrite ik_same_false; [reflexivity|]. cbn. congruence.
    + destruct (ik_same src' t' e); [reflexivity|]. now apply IH.
Qed.

Lemma ik_update_spec : forall k src t k' c,
  ik_update k src t = (k', c) ->
  ik_lookup k' src t = Some c
  /\ (forall c0, ik_lookup k src t = Some c0 -> c = c0 + 1)
  /\ (ik_lookup k src t = None -> c = 0).
Proof.
  intros k src t k' c H. unfold ik_update in H.
  destruct (ik_lookup k src t) as [c0|] eqn:L; inversion H; subst; clear H.
  - split; [apply ik_lookup_set_same|]. split; [|discriminate]. intros ? [= <-]. reflexivity.
  - split; [apply ik_lookup_set_same|]. split; [discriminate|reflexivity].
Qed.

Lemma ik_lookup_filter : forall f k src t,
  (forall e, ike_time e = t -> f e = true) ->
  ik_lookup (filter f k) src t = ik_lookup k src t.
Proof.
  induction k as [|e k IH]; intros src t Hf; [reflexivity|]. cbn [filter ik_lookup].
  destruct (ik_same src t e) eqn:E.
  - pose proof (proj1 (ik_same_true _ _ _) E) as [_ Ht].
    rewrite (Hf e Ht). cbn [ik_lookup]. now rewrite E.
  - destruct (f e); cbn [ik_lookup]; [rewrite E|]; now apply IH.
Qed.

Lemma ik_threshold_small : forall now, ik_window <= now -> now < ik_two64 -> ik_threshold now = now - ik_window.
Proof.
  intros now H1 H2. unfold ik_threshold.
  replace (now + ik_two64 - ik_window) with ((now - ik_window) + 1 * ik_two64) by (unfold ik_window, ik_two64 in *; lia).
  rewrite N.mod_add by (unfold ik_two64; lia). apply N.mod_small. unfold ik_window, ik_two64 in *; lia.
Qed.

Lemma ik_clean_lookup : forall now k src t,
  t = 0 \/ ik_threshold now <= t ->
  ik_lookup (ik_clean now k) src t = ik_lookup k src t.
Proof.
  intros now k src t H. unfold ik_clean. apply ik_lookup_filter.
  intros e He. unfold ik_keep, ik_epoch. rewrite He.
  destruct H as [->|H]; [now rewrite N.eqb_refl, andb_false_r|].
  apply N.ltb_ge in H. now rewrite H.
Qed.

(* ------------------------------------------------------------------ *)
(* histories                                                           *)

Definition ik_quiet_ev (t : N) (e : ik_ev) : Prop :=
  match e with
  | IkRestart => False
  | IkClean now => t = 0 \/ ik_threshold now <= t
  | _ => True
  end.
Definition ik_quiet (t : N) (h : list ik_ev) : Prop := Forall (ik_quiet_ev t) h.

Lemma ik_run_app : forall h1 h2 s s2 o,
  ik_run s (h1 ++ h2) = Some (s2, o) <->
  exists s1 o1 o2, ik_run s h1 = Some (s1, o1) /\ ik_run s1 h2 = Some (s2, o2) /\ o = o1 ++ o2.
Proof.
  induction h1 as [|e h1 IH]; intros h2 s s2 o; cbn [app ik_run].
  - split.
    + intros H. exists s, [], o. repeat split; auto.
    + intros (s1 & o1 & o2 & H1 & H2 & ->). inversion H1; subst. exact H2.
  - destruct (ik_step s e) as [[sa oa]|]; [|split; [discriminate|intros (?&?&?&H&_); discriminate]].
    split.
    + destruct (ik_run sa (h1 ++ h2)) as [[sb ob]|] eqn:R; [|discriminate].
      intros [= <- <-]. apply IH in R. destruct R as (s1 & o1 & o2 & R1 & R2 & ->).
      rewrite R1. exists s1, (oa ++ o1), o2. rewrite app_assoc. repeat split; auto.
    + intros (s1 & o1 & o2 & H1 & H2 & ->).
      destruct (ik_run sa h1) as [[sb ob]|] eqn:R; [|discriminate].
      inversion H1; subst; clear H1.
      assert (R' : ik_run sa (h1 ++ h2) = Some (s2, ob ++ o2)) by (apply IH; exists s1, ob, o2; repeat split; auto).
      rewrite R'. now rewrite app_assoc.
Qed.

Lemma ik_run_cons : forall e h s s2 o,
  ik_run s (e :: h) = Some (s2, o) <->
  exists s1 o1 o2, ik_step s e = Some (s1, o1) /\ ik_run s1 h = Some (s2, o2) /\ o = o1 ++ o2.
Proof.
  intros. cbn [ik_run]. split.
  - destruct (ik_step s e) as [[sa oa]|]; [|discriminate].
    destruct (ik_run sa h) as [[sb ob]|] eqn:R; [|discriminate].
    intros H. inversion H; subst. exists sa, oa, ob. repeat split; auto.
  - intros (s1 & o1 & o2 & H1 & H2 & H3). rewrite H1, H2, H3. reflexivity.
Qed.

(* a numbered bundle keeps its number *)
Lemma ik_thread_stable_step : forall s e s' o tid th,
  ik_step s e = Some (s', o) -> ik_thread_of (ik_threads s) tid = Some th ->
  ik_thread_of (ik_threads s') tid = Some th.
Proof.
  intros s e s' o tid th H Ht. destruct e; cbn [ik_step] in H.
  - destruct (ik_thread_of (ik_threads s) tid0) eqn:T0; [discriminate|].
    destruct (ik_update (ik_keeper s) src t) as [k c]. inversion H; subst; clear H. cbn.
    destruct (tid0 =? tid) eqn:E; [|exact Ht]. apply N.eqb_eq in E. subst. congruence.
  - inversion H; subst. exact Ht.
  - destruct (ik_thread_of (ik_threads s) tid0); [|discriminate].
    destruct (ik_item_of _ _ _ _); inversion H; subst; exact Ht.
  - destruct (ik_thread_of (ik_threads s) tid0); inversion H; subst; exact Ht.
  - destruct (ik_item_of _ _ _ _); inversion H; subst; exact Ht.
  - inversion H; subst. exact Ht.
  - inversion H; subst. exact Ht.
Qed.

Lemma ik_thread_stable_run : forall h s s' o tid th,
  ik_run s h = Some (s', o) -> ik_thread_of (ik_threads s) tid = Some th ->
  ik_thread_of (ik_threads s') tid = Some th.
Proof.
  induction h as [|e h IH]; intros s s' o tid th H Ht.
  - inversion H; subst. exact Ht.
  - apply ik_run_cons in H. destruct H as (s1 & o1 & o2 & H1 & H2 & _).
    eapply IH; [exact H2|]. eapply ik_thread_stable_step; eauto.
Qed.

(* while nothing forgets the entry of (src, t), its counter only grows *)
Lemma ik_quiet_step_mono : forall s e s' o src t c,
  ik_step s e = Some (s', o) -> ik_quiet_ev t e -> ik_lookup (ik_keeper s) src t = Some c ->
  exists c', ik_lookup (ik_keeper s') src t = Some c' /\ c <= c'.
Proof.
  intros s e s' o src t c H Q L. destruct e; cbn [ik_step] in H; cbn [ik_quiet_ev] in Q.
  - destruct (ik_thread_of (ik_threads s) tid); [discriminate|].
    destruct (ik_update (ik_keeper s) src0 t0) as [k c0] eqn:U. inversion H; subst; clear H. cbn.
    destruct (ik_update_spec _ _ _ _ _ U) as (U1 & U2 & _).
    destruct (N.eq_dec src0 src) as [->|Hs]; [destruct (N.eq_dec t0 t) as [->|Ht]|].
    + rewrite U1. exists c0. split; [reflexivity|]. rewrite (U2 _ L). lia.
    + unfold ik_update in U. destruct (ik_lookup (ik_keeper s) src t0); inversion U; subst;
        (rewrite ik_lookup_set_other by congruence); eauto using N.le_refl.
    + unfold ik_update in U. destruct (ik_lookup (ik_keeper s) src0 t0); inversion U; subst;
        (rewrite ik_lookup_set_other by congruence); eauto using N.le_refl.
  - inversion H; subst; clear H. cbn. rewrite ik_clean_lookup by exact Q. eauto using N.le_refl.
  - destruct (ik_thread_of (ik_threads s) tid); [|discriminate].
    destruct (ik_item_of _ _ _ _); inversion H; subst; cbn; eauto using N.le_refl.
  - destruct (ik_thread_of (ik_threads s) tid); inversion H; subst; eauto using N.le_refl.
  - destruct (ik_item_of _ _ _ _); inversion H; subst; eauto using N.le_refl.
  - inversion H; subst; cbn; eauto using N.le_refl.
  - contradiction.
Qed.

Lemma ik_quiet_run_mono : forall h s s' o src t c,
  ik_run s h = Some (s', o) -> ik_quiet t h -> ik_lookup (ik_keeper s) src t = Some c ->
  exists c', ik_lookup (ik_keeper s') src t = Some c' /\ c <= c'.
Proof.
  induction h as [|e h IH]; intros s s' o src t c H Q L.
  - inversion H; subst. eauto using N.le_refl.
  - apply ik_run_cons in H. destruct H as (s1 & o1 & o2 & H1 & H2 & _).
    inversion Q; subst.
    destruct (ik_quiet_step_mono _ _ _ _ _ _ _ H1 H3 L) as (c1 & L1 & Hc1).
    destruct (IH _ _ _ _ _ _ H2 H4 L1) as (c2 & L2 & Hc2).
    exists c2. split; [exact L2|lia].
Qed.

Lemma ik_assign_step : forall s tid src t s' o,
  ik_step s (IkAssign tid src t) = Some (s', o) ->
  exists c, ik_thread_of (ik_threads s') tid = Some {| th_id := tid; th_src := src; th_time := t; th_seq := c |}
    /\ ik_lookup (ik_keeper s') src t = Some c
    /\ (forall c0, ik_lookup (ik_keeper s) src t = Some c0 -> c = c0 + 1)
    /\ ik_thread_of (ik_threads s) tid = None.
Proof.
  intros s tid src t s' o H. cbn [ik_step] in H.
  destruct (ik_thread_of (ik_threads s) tid) eqn:T; [discriminate|].
  destruct (ik_update (ik_keeper s) src t) as [k c] eqn:U. inversion H; subst; clear H.
  destruct (ik_update_spec _ _ _ _ _ U) as (U1 & U2 & _).
  exists c. cbn. rewrite N.eqb_refl. auto.
Qed.

(* C14_distinct: the later of two bundles with the same source and creation time gets the larger
   number, in every interleaving, provided nothing forgot the entry in between *)
Lemma ik_distinct : forall h1 i src t h2 j h3 s outs a b,
  ik_run ik_init (h1 ++ IkAssign i src t :: h2 ++ IkAssign j src t :: h3) = Some (s, outs) ->
  ik_quiet t h2 ->
  ik_seq_of s i = Some a -> ik_seq_of s j = Some b ->
  a < b.
Proof.
  intros h1 i src t h2 j h3 s outs a b R Q Sa Sb.
  apply ik_run_app in R. destruct R as (s1 & o1 & o2 & _ & R & _).
  apply ik_run_cons in R. destruct R as (s2 & ? & ? & Ai & R & _).
  apply ik_run_app in R. destruct R as (s3 & ? & ? & R2 & R & _).
  apply ik_run_cons in R. destruct R as (s4 & ? & ? & Aj & R3 & _).
  destruct (ik_assign_step _ _ _ _ _ _ Ai) as (ci & Ti & Li & _ & _).
  destruct (ik_quiet_run_mono _ _ _ _ _ _ _ R2 Q Li) as (c' & L' & Hc').
  pose proof (ik_thread_stable_run _ _ _ _ _ _ R2 Ti) as Ti3.
  destruct (ik_assign_step _ _ _ _ _ _ Aj) as (cj & Tj & _ & Hj & Nj).
  pose proof (ik_thread_stable_step _ _ _ _ _ _ Aj Ti3) as Ti4.
  pose proof (ik_thread_stable_run _ _ _ _ _ _ R3 Ti4) as Ti5.
  pose proof (ik_thread_stable_run _ _ _ _ _ _ R3 Tj) as Tj5.
  unfold ik_seq_of in Sa, Sb. rewrite Ti5 in Sa. rewrite Tj5 in Sb. cbn in Sa, Sb.
  inversion Sa; inversion Sb; subst. rewrite (Hj _ L'). lia.
Qed.

(* ------------------------------------------------------------------ *)
(* the number in the store and on the wire is the assigned one         *)

(* what is known about the bundle `tid` when it shows up under an ID *)
Definition ik_numbered (s : ik_st) (tid src t seq : N) : Prop :=
  ik_thread_of (ik_threads s) tid = Some {| th_id := tid; th_src := src; th_time := t; th_seq := seq |}.

Definition ik_store_ok (s : ik_st) : Prop :=
  forall it, In it (ik_store s) ->
    ik_numbered s (it_tid it) (it_src it) (it_time it) (it_seq it) /\ it_fseq it = it_seq it.

Definition ik_threads_ok (s : ik_st) : Prop :=
  forall tid th, ik_thread_of (ik_threads s) tid = Some th -> th_id th = tid.

Lemma ik_thread_eta : forall s tid th,
  ik_threads_ok s -> ik_thread_of (ik_threads s) tid = Some th ->
  ik_numbered s tid (th_src th) (th_time th) (th_seq th).
Proof.
  intros s tid th TI T. unfold ik_numbered. rewrite T. f_equal.
  pose proof (TI _ _ T) as E. destruct th; cbn in *. now subst.
Qed.

Lemma ik_item_of_in : forall st src t seq it,
  ik_item_of st src t seq = Some it -> In it st /\ it_src it = src /\ it_time it = t /\ it_seq it = seq.
Proof.
  induction st as [|x st IH]; intros src t seq it H; [discriminate|]. cbn [ik_item_of] in H.
  destruct (ik_key_is src t seq x) eqn:K.
  - inversion H; subst. unfold ik_key_is in K. rewrite !andb_true_iff, !N.eqb_eq in K.
    split; [now left|tauto].
  - destruct (IH _ _ _ _ H) as (Hin & ?). split; [now right|assumption].
Qed.

Lemma ik_item_of_none : forall st src t seq it,
  ik_item_of st src t seq = None -> In it st -> (it_src it, it_time it, it_seq it) <> (src, t, seq).
Proof.
  induction st as [|x st IH]; intros src t seq it H Hin; [contradiction|]. cbn [ik_item_of] in H.
  destruct (ik_key_is src t seq x) eqn:K; [discriminate|].
  destruct Hin as [->|Hin]; [|eauto].
  intros [= E1 E2 E3]. unfold ik_key_is in K. rewrite E1, E2, E3, !N.eqb_refl in K. discriminate.
Qed.

Lemma ik_threads_ok_step : forall s e s' o, ik_step s e = Some (s', o) -> ik_threads_ok s -> ik_threads_ok s'.
Proof.
  intros s e s' o H I. destruct e; cbn [ik_step] in H.
  - destruct (ik_thread_of (ik_threads s) tid) eqn:T0; [discriminate|].
    destruct (ik_update (ik_keeper s) src t) as [k c]. inversion H; subst; clear H.
    intros tid' th. cbn. destruct (tid =? tid') eqn:E.
    + apply N.eqb_eq in E. intros [= <-]. exact E.
    + apply I.
  - inversion H; subst. exact I.
  - destruct (ik_thread_of (ik_threads s) tid); [|discriminate].
    destruct (ik_item_of _ _ _ _); inversion H; subst; exact I.
  - destruct (ik_thread_of (ik_threads s) tid); inversion H; subst; exact I.
  - destruct (ik_item_of _ _ _ _); inversion H; subst; exact I.
  - inversion H; subst. exact I.
  - inversion H; subst. exact I.
Qed.

Lemma ik_store_ok_step : forall s e s' o,
  ik_step s e = Some (s', o) -> ik_threads_ok s -> ik_store_ok s -> ik_store_ok s'.
Proof.
  intros s e s' o H TI I. unfold ik_store_ok, ik_numbered in *.
  assert (Stable : forall tid th, ik_thread_of (ik_threads s) tid = Some th -> ik_thread_of (ik_threads s') tid = Some th)
    by (intros; eapply ik_thread_stable_step; eauto).
  destruct e; cbn [ik_step] in H.
  - destruct (ik_thread_of (ik_threads s) tid) eqn:T0; [discriminate|].
    destruct (ik_update (ik_keeper s) src t) as [k c] eqn:U. inversion H; subst; clear H.
    cbn [ik_store]. intros it Hin. destruct (I it Hin) as [A B]. split; [|exact B].
    apply Stable in A. exact A.
  - inversion H; subst; clear H. exact I.
  - destruct (ik_thread_of (ik_threads s) tid) as [th|] eqn:T; [|discriminate].
    destruct (ik_item_of _ _ _ _) eqn:K; inversion H; subst; clear H; [exact I|].
    cbn [ik_store ik_threads]. intros it [<-|Hin]; [|exact (I it Hin)]. cbn.
    split; [|reflexivity]. exact (ik_thread_eta _ _ _ TI T).
  - destruct (ik_thread_of (ik_threads s) tid); inversion H; subst; exact I.
  - destruct (ik_item_of _ _ _ _); inversion H; subst; exact I.
  - inversion H; subst; clear H. cbn [ik_store ik_threads]. intros it Hin.
    apply filter_In in Hin. destruct Hin as [Hin _]. exact (I it Hin).
  - inversion H; subst; clear H. exact I.
Qed.

(* an output of a step names a bundle by the number it was assigned *)
Definition ik_out_ok (s : ik_st) (o : ik_out) : Prop :=
  ik_numbered s (o_tid o) (o_src o) (o_time o) (o_seq o).

Lemma ik_out_ok_step : forall s e s' outs,
  ik_step s e = Some (s', outs) -> ik_threads_ok s -> ik_store_ok s -> Forall (ik_out_ok s') outs.
Proof.
  intros s e s' outs H TI I. destruct e; cbn [ik_step] in H.
  - destruct (ik_thread_of (ik_threads s) tid); [discriminate|].
    destruct (ik_update (ik_keeper s) src t). inversion H; subst. constructor.
  - inversion H; subst. constructor.
  - destruct (ik_thread_of (ik_threads s) tid); [|discriminate].
    destruct (ik_item_of _ _ _ _); inversion H; subst; constructor.
  - destruct (ik_thread_of (ik_threads s) tid) as [th|] eqn:T; inversion H; subst; clear H.
    constructor; [|constructor]. unfold ik_out_ok. cbn. exact (ik_thread_eta _ _ _ TI T).
  - destruct (ik_item_of _ _ _ _) as [it|] eqn:K; inversion H; subst; clear H.
    constructor; [|constructor]. unfold ik_out_ok. cbn.
    destruct (ik_item_of_in _ _ _ _ _ K) as (Hin & E1 & E2 & E3).
    destruct (I it Hin) as [A B]. rewrite B, <- E1, <- E2. exact A.
  - inversion H; subst. constructor.
  - inversion H; subst. constructor.
Qed.

Lemma ik_numbered_stable_run : forall h s s' o tid src t seq,
  ik_run s h = Some (s', o) -> ik_numbered s tid src t seq -> ik_numbered s' tid src t seq.
Proof. unfold ik_numbered. intros. eapply ik_thread_stable_run; eauto. Qed.

Lemma ik_run_inv : forall h s s' outs,
  ik_run s h = Some (s', outs) -> ik_threads_ok s -> ik_store_ok s ->
  ik_threads_ok s' /\ ik_store_ok s' /\ Forall (ik_out_ok s') outs.
Proof.
  induction h as [|e h IH]; intros s s' outs H TI I.
  - inversion H; subst. auto.
  - apply ik_run_cons in H. destruct H as (s1 & o1 & o2 & H1 & H2 & ->).
    pose proof (ik_threads_ok_step _ _ _ _ H1 TI) as TI1.
    pose proof (ik_store_ok_step _ _ _ _ H1 TI I) as I1.
    pose proof (ik_out_ok_step _ _ _ _ H1 TI I) as O1.
    destruct (IH _ _ _ H2 TI1 I1) as (TI2 & I2 & O2).
    split; [exact TI2|]. split; [exact I2|]. apply Forall_app. split; [|exact O2].
    eapply Forall_impl; [|exact O1]. intros o Ho. eapply ik_numbered_stable_run; eauto.
Qed.

Lemma ik_init_ok : ik_threads_ok ik_init /\ ik_store_ok ik_init.
Proof. split; [intros tid th H; discriminate|intros it []]. Qed.

(* C14_same_number *)
Lemma ik_same_number : forall h s outs,
  ik_run ik_init h = Some (s, outs) ->
  (forall it, In it (ik_store s) ->
     ik_numbered s (it_tid it) (it_src it) (it_time it) (it_seq it) /\ it_fseq it = it_seq it)
  /\ (forall o, In o outs -> ik_numbered s (o_tid o) (o_src o) (o_time o) (o_seq o)).
Proof.
  intros h s outs R. destruct ik_init_ok as [A B].
  destruct (ik_run_inv _ _ _ _ R A B) as (_ & I & O). split; [exact I|].
  intros o Ho. rewrite Forall_forall in O. exact (O o Ho).
Qed.

(* ------------------------------------------------------------------ *)
(* every pair well spaced => all numbers distinct, every push lands    *)

Definition ik_spaced (h : list ik_ev) : Prop :=
  forall h1 i src t h2 j h3,
    h = h1 ++ IkAssign i src t :: h2 ++ IkAssign j src t :: h3 -> ik_quiet t h2.

Lemma ik_thread_origin : forall h s0 s outs tid th,
  ik_run s0 h = Some (s, outs) -> ik_thread_of (ik_threads s) tid = Some th ->
  ik_thread_of (ik_threads s0) tid = Some th
  \/ exists h1 h3, h = h1 ++ IkAssign tid (th_src th) (th_time th) :: h3.
Proof.
  induction h as [|e h IH]; intros s0 s outs tid th R T.
  - inversion R; subst. now left.
  - apply ik_run_cons in R. destruct R as (s1 & o1 & o2 & H1 & H2 & _).
    destruct (IH _ _ _ _ _ H2 T) as [T1|(h1 & h3 & ->)].
    + destruct (ik_thread_of (ik_threads s0) tid) as [th0|] eqn:T0.
      * left. pose proof (ik_thread_stable_step _ _ _ _ _ _ H1 T0). congruence.
      * right. destruct e; cbn [ik_step] in H1.
        -- destruct (ik_thread_of (ik_threads s0) tid0) eqn:T00; [discriminate|].
           destruct (ik_update (ik_keeper s0) src t) as [k c]. inversion H1; subst; clear H1.
           cbn in T1. destruct (tid0 =? tid) eqn:E.
           ++ apply N.eqb_eq in E. subst. inversion T1; subst. cbn. exists [], h. reflexivity.
           ++ congruence.
        -- inversion H1; subst. cbn in T1. congruence.
        -- destruct (ik_thread_of (ik_threads s0) tid0); [|discriminate].
           destruct (ik_item_of _ _ _ _); inversion H1; subst; cbn in T1; congruence.
        -- destruct (ik_thread_of (ik_threads s0) tid0); inversion H1; subst; congruence.
        -- destruct (ik_item_of _ _ _ _); inversion H1; subst; congruence.
        -- inversion H1; subst. cbn in T1. congruence.
        -- inversion H1; subst. cbn in T1. congruence.
    + right. exists (e :: h1), h3. reflexivity.
Qed.

Lemma two_splits : forall (A : Type) (a1 a3 b1 b3 : list A) (x y : A),
  a1 ++ x :: a3 = b1 ++ y :: b3 -> x <> y ->
  (exists m, a1 ++ x :: a3 = a1 ++ x :: m ++ y :: b3) \/ (exists m, a1 ++ x :: a3 = b1 ++ y :: m ++ x :: a3).
Proof.
  intros A a1. induction a1 as [|a a1 IH]; intros a3 b1 b3 x y E Hne.
  - destruct b1 as [|b b1]; cbn in *.
    + inversion E. contradiction.
    + left. inversion E; subst. exists b1. reflexivity.
  - destruct b1 as [|b b1]; cbn in *.
    + right. inversion E; subst. exists a1. reflexivity.
    + inversion E as [[E1 E2]].
      destruct (IH _ _ _ _ _ E2 Hne) as [(m & Em)|(m & Em)].
      * left. exists m. now rewrite Em.
      * right. exists m. now rewrite Em.
Qed.

(* all numbers of one (source, time) are distinct *)
Lemma ik_unique : forall h s outs i j src t a b,
  ik_run ik_init h = Some (s, outs) -> ik_spaced h ->
  ik_numbered s i src t a -> ik_numbered s j src t b -> i <> j -> a <> b.
Proof.
  intros h s outs i j src t a b R SP Ni Nj Hij.
  destruct (ik_thread_origin _ _ _ _ _ _ R Ni) as [C|(a1 & a3 & Ea)]; [discriminate|].
  destruct (ik_thread_origin _ _ _ _ _ _ R Nj) as [C|(b1 & b3 & Eb)]; [discriminate|].
  cbn in Ea, Eb.
  assert (Hne : IkAssign i src t <> IkAssign j src t) by congruence.
  assert (Sa : ik_seq_of s i = Some a) by (unfold ik_seq_of; unfold ik_numbered in Ni; now rewrite Ni).
  assert (Sb : ik_seq_of s j = Some b) by (unfold ik_seq_of; unfold ik_numbered in Nj; now rewrite Nj).
  assert (Eab : a1 ++ IkAssign i src t :: a3 = b1 ++ IkAssign j src t :: b3) by congruence.
  destruct (two_splits _ _ _ _ _ _ _ Eab Hne) as [(m & E)|(m & E)]; rewrite <- Ea in E.
  - pose proof (SP _ _ _ _ _ _ _ E) as Q. rewrite E in R.
    pose proof (ik_distinct _ _ _ _ _ _ _ _ _ _ _ R Q Sa Sb). lia.
  - pose proof (SP _ _ _ _ _ _ _ E) as Q. rewrite E in R.
    pose proof (ik_distinct _ _ _ _ _ _ _ _ _ _ _ R Q Sb Sa). lia.
Qed.

Lemma ik_spaced_prefix : forall h h', ik_spaced (h ++ h') -> ik_spaced h.
Proof.
  intros h h' SP h1 i src t h2 j h3 E. apply (SP h1 i src t h2 j (h3 ++ h')).
  rewrite E. rewrite <- !app_assoc. cbn. rewrite <- !app_assoc. reflexivity.
Qed.

(* C14_filed: right after its push a numbered bundle is in the store under its own ID *)
Lemma ik_filed : forall h tid s outs,
  ik_run ik_init (h ++ [IkPush tid]) = Some (s, outs) -> ik_spaced h ->
  exists src t seq it,
    ik_numbered s tid src t seq /\ ik_item_of (ik_store s) src t seq = Some it
    /\ it_tid it = tid /\ it_fseq it = seq.
Proof.
  intros h tid s outs R SP.
  apply ik_run_app in R. destruct R as (s1 & o1 & o2 & R1 & R2 & _).
  apply ik_run_cons in R2. destruct R2 as (s2 & ? & ? & P & R2 & _). inversion R2; subst; clear R2.
  destruct ik_init_ok as [A B]. destruct (ik_run_inv _ _ _ _ R1 A B) as (TI & I & _).
  cbn [ik_step] in P. destruct (ik_thread_of (ik_threads s1) tid) as [th|] eqn:T; [|discriminate].
  assert (N1 : ik_numbered s1 tid (th_src th) (th_time th) (th_seq th)).
  { exact (ik_thread_eta _ _ _ TI T). }
  exists (th_src th), (th_time th), (th_seq th).
  destruct (ik_item_of (ik_store s1) (th_src th) (th_time th) (th_seq th)) as [it|] eqn:K;
    inversion P; subst; clear P.
  - exists it. destruct (ik_item_of_in _ _ _ _ _ K) as (Hin & E1 & E2 & E3).
    destruct (I it Hin) as [Nit F]. rewrite E1, E2, E3 in Nit.
    repeat split; auto; [|congruence].
    destruct (N.eq_dec (it_tid it) tid) as [E|E]; [exact E|].
    exfalso. exact (ik_unique _ _ _ _ _ _ _ _ _ R1 SP Nit N1 E eq_refl).
  - eexists. cbn [ik_store ik_threads ik_item_of]. unfold ik_numbered. cbn [ik_threads].
    split; [exact N1|]. unfold ik_key_is. cbn. rewrite !N.eqb_refl. cbn. repeat split; reflexivity.
Qed.

(* C14_ids_distinct: different bundles never share a store key or a wire ID *)
Lemma ik_ids_distinct : forall h s outs,
  ik_run ik_init h = Some (s, outs) -> ik_spaced h ->
  (forall it1 it2, In it1 (ik_store s) -> In it2 (ik_store s) -> it_tid it1 <> it_tid it2 ->
     (it_src it1, it_time it1, it_seq it1) <> (it_src it2, it_time it2, it_seq it2))
  /\ (forall o1 o2, In o1 outs -> In o2 outs -> o_tid o1 <> o_tid o2 ->
     (o_src o1, o_time o1, o_seq o1) <> (o_src o2, o_time o2, o_seq o2))
  /\ (forall it o, In it (ik_store s) -> In o outs -> it_tid it <> o_tid o ->
     (it_src it, it_time it, it_seq it) <> (o_src o, o_time o, o_seq o)).
Proof.
  intros h s outs R SP. destruct (ik_same_number _ _ _ R) as [I O].
  repeat split.
  - intros it1 it2 H1 H2 Hne [= E1 E2 E3].
    destruct (I _ H1) as [N1 _]. destruct (I _ H2) as [N2 _]. rewrite E1, E2 in N1.
    exact (ik_unique _ _ _ _ _ _ _ _ _ R SP N1 N2 Hne E3).
  - intros o1 o2 H1 H2 Hne [= E1 E2 E3].
    pose proof (O _ H1) as N1. pose proof (O _ H2) as N2. rewrite E1, E2 in N1.
    exact (ik_unique _ _ _ _ _ _ _ _ _ R SP N1 N2 Hne E3).
  - intros it o H1 H2 Hne [= E1 E2 E3].
    destruct (I _ H1) as [N1 _]. pose proof (O _ H2) as N2. rewrite E1, E2 in N1.
    exact (ik_unique _ _ _ _ _ _ _ _ _ R SP N1 N2 Hne E3).
Qed.

(* ------------------------------------------------------------------ *)
(* histories driven by a clock: a creation time is 0 or the clock's reading at the submission,
   cleaning reads the same clock, a restart takes at least a millisecond *)

Fixpoint ik_clocked (c : N) (h : list ik_ev) : Prop :=
  match h with
  | [] => True
  | IkAssign _ _ t :: h => (t = 0 /\ ik_clocked c h) \/ (c <= t /\ ik_clocked t h)
  | IkClean now :: h => c <= now /\ now < ik_two64 /\ ik_clocked now h
  | IkRestart :: h => ik_clocked (c + 1) h
  | _ :: h => ik_clocked c h
  end.

Lemma ik_clocked_weaken : forall h c c', c <= c' -> ik_clocked c' h -> ik_clocked c h.
Proof.
  induction h as [|e h IH]; intros c c' Hc H; [exact I|]. destruct e; cbn [ik_clocked] in *; eauto.
  - destruct H as [[E H]|[E H]]; [left; eauto|right; split; [lia|exact H]].
  - destruct H as (H1 & H2 & H3). repeat split; auto; lia.
  - eapply IH; [|exact H]. lia.
Qed.

Lemma ik_clocked_skip : forall h1 h c, ik_clocked c (h1 ++ h) -> exists c', c <= c' /\ ik_clocked c' h.
Proof.
  induction h1 as [|e h1 IH]; intros h c H; [exists c; split; [lia|exact H]|].
  destruct e; cbn [app ik_clocked] in H.
  - destruct H as [[_ H]|[E H]].
    + exact (IH _ _ H).
    + destruct (IH _ _ H) as (c' & Hc & H'). exists c'. split; [lia|exact H'].
  - destruct H as (H1 & _ & H). destruct (IH _ _ H) as (c' & Hc & H'). exists c'. split; [lia|exact H'].
  - exact (IH _ _ H).
  - exact (IH _ _ H).
  - exact (IH _ _ H).
  - exact (IH _ _ H).
  - destruct (IH _ _ H) as (c' & Hc & H'). exists c'. split; [lia|exact H'].
Qed.

Lemma ik_clocked_until : forall h2 c j src t h3,
  ik_clocked c (h2 ++ IkAssign j src t :: h3) -> t <> 0 -> ik_window <= c ->
  c <= t /\ (In IkRestart h2 -> c < t)
  /\ Forall (fun e => match e with IkClean now => ik_threshold now <= t | _ => True end) h2.
Proof.
  induction h2 as [|e h2 IH]; intros c j src t h3 H Ht Hw.
  - cbn [app ik_clocked] in H. destruct H as [[E _]|[E _]]; [contradiction|].
    split; [exact E|]. split; [intros []|constructor].
  - destruct e; cbn [app ik_clocked] in H.
    + destruct H as [[_ H]|[E H]].
      * destruct (IH _ _ _ _ _ H Ht Hw) as (A & B & C). split; [exact A|].
        split; [intros [F|F]; [discriminate|auto]|constructor; auto].
      * assert (Hw' : ik_window <= t0) by lia.
        destruct (IH _ _ _ _ _ H Ht Hw') as (A & B & C). split; [lia|].
        split; [intros [F|F]; [discriminate|specialize (B F); lia]|constructor; auto].
    + destruct H as (H1 & H2 & H). assert (Hw' : ik_window <= now) by lia.
      destruct (IH _ _ _ _ _ H Ht Hw') as (A & B & C). split; [lia|].
      split; [intros [F|F]; [discriminate|specialize (B F); lia]|].
      constructor; [|exact C]. rewrite ik_threshold_small by assumption. lia.
    + destruct (IH _ _ _ _ _ H Ht Hw) as (A & B & C). split; [exact A|].
      split; [intros [F|F]; [discriminate|auto]|constructor; auto].
    + destruct (IH _ _ _ _ _ H Ht Hw) as (A & B & C). split; [exact A|].
      split; [intros [F|F]; [discriminate|auto]|constructor; auto].
    + destruct (IH _ _ _ _ _ H Ht Hw) as (A & B & C). split; [exact A|].
      split; [intros [F|F]; [discriminate|auto]|constructor; auto].
    + destruct (IH _ _ _ _ _ H Ht Hw) as (A & B & C). split; [exact A|].
      split; [intros [F|F]; [discriminate|auto]|constructor; auto].
    + assert (Hw' : ik_window <= c + 1) by lia.
      destruct (IH _ _ _ _ _ H Ht Hw') as (A & B & C). split; [lia|].
      split; [intros _; lia|constructor; auto].
Qed.

Lemma ik_clocked_quiet : forall c0 h1 i src t h2 j h3,
  ik_clocked c0 (h1 ++ IkAssign i src t :: h2 ++ IkAssign j src t :: h3) -> ik_window <= c0 ->
  t <> 0 \/ ~ In IkRestart h2 ->
  ik_quiet t h2.
Proof.
  intros c0 h1 i src t h2 j h3 H Hw Hyp.
  destruct (N.eq_dec t 0) as [E|Ht].
  - destruct Hyp as [Hyp|Hyp]; [contradiction|]. unfold ik_quiet. rewrite Forall_forall.
    intros e He. destruct e; cbn; auto.
  - apply ik_clocked_skip in H. destruct H as (c & Hc & H). cbn [ik_clocked] in H.
    destruct H as [[E _]|[E H]]; [contradiction|].
    assert (Hw' : ik_window <= t) by lia.
    destruct (ik_clocked_until _ _ _ _ _ _ H Ht Hw') as (_ & B & C).
    unfold ik_quiet. rewrite Forall_forall in *. intros e He. specialize (C e He).
    destruct e; cbn; auto. specialize (B He). lia.
Qed.

Lemma ik_distinct_ids : forall h1 i src t h2 j h3 s outs a b,
  ik_run ik_init (h1 ++ IkAssign i src t :: h2 ++ IkAssign j src t :: h3) = Some (s, outs) ->
  ik_quiet t h2 ->
  ik_seq_of s i = Some a -> ik_seq_of s j = Some b ->
  a < b /\ (src, t, a) <> (src, t, b).
Proof.
  intros. assert (a < b) by (eapply ik_distinct; eauto). split; [assumption|].
  intros [= E]. subst. now apply N.lt_irrefl in H3.
Qed.

Lemma ik_distinct_clocked : forall c0 h1 i src t h2 j h3 s outs a b,
  ik_run ik_init (h1 ++ IkAssign i src t :: h2 ++ IkAssign j src t :: h3) = Some (s, outs) ->
  ik_clocked c0 (h1 ++ IkAssign i src t :: h2 ++ IkAssign j src t :: h3) -> ik_window <= c0 ->
  t <> 0 \/ ~ In IkRestart h2 ->
  ik_seq_of s i = Some a -> ik_seq_of s j = Some b ->
  a < b.
Proof. intros. eapply ik_distinct; eauto. eapply ik_clocked_quiet; eauto. Qed.

(* creation times chosen by the submitter (a client whose clock is ahead, a bundle built for a
   later time): the entry is kept by every cleaning whose clock has not passed t + window - in
   particular by every cleaning while t is still ahead of the node's clock *)
Lemma ik_distinct_ahead : forall h1 i src t h2 j h3 s outs a b,
  ik_run ik_init (h1 ++ IkAssign i src t :: h2 ++ IkAssign j src t :: h3) = Some (s, outs) ->
  ~ In IkRestart h2 ->
  (forall now, In (IkClean now) h2 -> ik_window <= now /\ now < ik_two64 /\ now <= t + ik_window) ->
  ik_seq_of s i = Some a -> ik_seq_of s j = Some b ->
  a < b /\ (src, t, a) <> (src, t, b).
Proof.
  intros h1 i src t h2 j h3 s outs a b Hr Hn Hc Ha Hb.
  eapply ik_distinct_ids; eauto.
  unfold ik_quiet. rewrite Forall_forall. intros e He. destruct e; cbn; auto.
  destruct (Hc _ He) as (H1 & H2 & H3). right. rewrite ik_threshold_small by assumption. lia.
Qed.

(* the threshold is exact: an entry of a non-zero time t survives the cleaning at clock now iff
   now - window <= t *)
Lemma ik_keep_exact : forall now e, ik_window <= now -> now < ik_two64 -> ike_time e <> 0 ->
  ik_keep now e = true <-> now <= ike_time e + ik_window.
Proof.
  intros now e H1 H2 H3. unfold ik_keep, ik_epoch. rewrite ik_threshold_small by assumption.
  apply N.eqb_neq in H3. rewrite H3. cbn [negb]. rewrite andb_true_r, negb_true_iff, N.ltb_ge. lia.
Qed.

Lemma ik_restart_refuted : exists h s outs i j src a b,
  ik_run ik_init h = Some (s, outs) /\ i <> j
  /\ ik_numbered s i src 0 a /\ ik_numbered s j src 0 b /\ a = b
  /\ (forall it, In it (ik_store s) -> it_tid it <> j)
  /\ (exists o, In o outs /\ o_tid o = i /\ (o_src o, o_time o, o_seq o) = (src, 0, b)).
Proof.
  exists (ik_submit 1 7 0 1000000 [] ++ IkRestart :: ik_submit 2 7 0 1000100 [] ++ [IkRetry 7 0 0 3]).
  eexists. eexists. exists 1, 2, 7, 0, 0. vm_compute.
  split; [reflexivity|]. split; [discriminate|]. split; [reflexivity|]. split; [reflexivity|].
  split; [reflexivity|]. split.
  - intros it [<-|[]]. discriminate.
  - eexists. split; [left; reflexivity|]. split; reflexivity.
Qed.
