(* ForwardProofs.v - proofs about Model/Forward.v: what forward does to the block list in normal
   form, preservation of CheckValid and of range well-formedness, faithfulness of every
   transmitted copy, refusal at the hop limit and at the end of the lifetime, for the first pass
   and for every retry. *)
From DTN Require Import Base Cbor Crc Eid EidProofs CborProofs Bundle BundleWf BundleProofs ValidProofs Forward.
From Coq Require Import ZifyN ZifyNat ZifyBool Permutation Lia.
Open Scope N_scope.

(* ------------------------------------------------------------------------------------------ *)
(* small list facts                                                                           *)
(* ------------------------------------------------------------------------------------------ *)
Lemma NoDup_map_inj_in {A B} (f : A -> B) l x y :
  NoDup (map f l) -> In x l -> In y l -> f x = f y -> x = y.
Proof.
  induction l as [|a l IH]; cbn [map]; intros Hnd Hx Hy Hf; [destruct Hx|].
  inversion Hnd as [|? ? Hnotin Hnd']; subst.
  destruct Hx as [<-|Hx], Hy as [<-|Hy]; auto.
  - exfalso. apply Hnotin. rewrite Hf. apply in_map, Hy.
  - exfalso. apply Hnotin. rewrite <- Hf. apply in_map, Hx.
Qed.

Lemma NoDup_nodup_N l : NoDup l -> nodup_N l = true.
Proof.
  induction 1 as [|x l Hnotin Hnd IH]; cbn [nodup_N]; [reflexivity|].
  rewrite IH, andb_true_r. apply negb_true_iff. destruct (existsb (N.eqb x) l) eqn:E; [|reflexivity].
  apply existsb_exists in E. destruct E as (y & Hy & Heq). apply N.eqb_eq in Heq. subst. contradiction.
Qed.

Lemma NoDup_map_filter {A B} (f : A -> B) (p : A -> bool) l : NoDup (map f l) -> NoDup (map f (filter p l)).
Proof.
  induction l as [|a l IH]; cbn [map filter]; intros H; [constructor|].
  inversion H as [|? ? Hnotin Hnd]; subst. destruct (p a); cbn [map]; [|apply IH, Hnd].
  constructor; [|apply IH, Hnd]. intros Hin. apply Hnotin.
  apply in_map_iff in Hin. destruct Hin as (x & Hx & Hin). apply filter_In in Hin. rewrite <- Hx. apply in_map, Hin.
Qed.

Lemma last_map {A B} (f : A -> B) l d : l <> [] -> last (map f l) (f d) = f (last l d).
Proof.
  induction l as [|a l IH]; [congruence|]. intros _. destruct l as [|b l]; [reflexivity|].
  change (last (map f (b :: l)) (f d) = f (last (b :: l) d)). apply IH. discriminate.
Qed.

Lemma last_default_irrel {A} (l : list A) d d' : l <> [] -> last l d = last l d'.
Proof.
  induction l as [|a l IH]; [congruence|]. intros _. destruct l as [|b l]; [reflexivity|].
  change (last (b :: l) d = last (b :: l) d'). apply IH. discriminate.
Qed.

Lemma last_in {A} (l : list A) d : l <> [] -> In (last l d) l.
Proof.
  induction l as [|a l IH]; [congruence|]. intros _. destruct l as [|b l]; [left; reflexivity|].
  right. change (In (last (b :: l) d) (b :: l)). apply IH. discriminate.
Qed.

(* ------------------------------------------------------------------------------------------ *)
(* replacing the value of the block of one type                                                *)
(* ------------------------------------------------------------------------------------------ *)
Definition fw_upd (t : N) (v : ext) (c : cblock) : cblock := if c_type c =? t then fw_set_val c v else c.

Lemma fw_set_val_type c v : c_type (fw_set_val c v) = ext_type v.
Proof. reflexivity. Qed.
Lemma fw_upd_type t v c : ext_type v = t -> c_type (fw_upd t v c) = c_type c.
Proof. unfold fw_upd. intros H. destruct (c_type c =? t) eqn:E; [|reflexivity]. apply N.eqb_eq in E. rewrite fw_set_val_type. congruence. Qed.
Lemma fw_upd_num t v c : c_num (fw_upd t v c) = c_num c.
Proof. unfold fw_upd. destruct (c_type c =? t); reflexivity. Qed.
Lemma fw_upd_flags t v c : c_flags (fw_upd t v c) = c_flags c.
Proof. unfold fw_upd. destruct (c_type c =? t); reflexivity. Qed.
Lemma fw_upd_crc t v c : c_crc (fw_upd t v c) = c_crc c.
Proof. unfold fw_upd. destruct (c_type c =? t); reflexivity. Qed.
Lemma fw_upd_other t v c : c_type c <> t -> fw_upd t v c = c.
Proof. unfold fw_upd. intros H. apply N.eqb_neq in H. rewrite H. reflexivity. Qed.
Lemma fw_upd_same t v c : c_type c = t -> fw_upd t v c = fw_set_val c v.
Proof. unfold fw_upd. intros H. apply N.eqb_eq in H. rewrite H. reflexivity. Qed.

Lemma map_upd_types t v l : ext_type v = t -> map c_type (map (fw_upd t v) l) = map c_type l.
Proof. intros H. rewrite map_map. apply map_ext. intros c. apply fw_upd_type, H. Qed.
Lemma map_upd_nums t v l : map c_num (map (fw_upd t v) l) = map c_num l.
Proof. rewrite map_map. apply map_ext. intros c. apply fw_upd_num. Qed.

Lemma map_upd_id t v l : (forall c, In c l -> c_type c <> t) -> map (fw_upd t v) l = l.
Proof.
  intros H. rewrite <- (map_id l) at 2. apply map_ext_in. intros c Hc. apply fw_upd_other, H, Hc.
Qed.

Lemma fw_set_first_map t v l : NoDup (map c_type l) -> fw_set_first t v l = map (fw_upd t v) l.
Proof.
  induction l as [|a l IH]; cbn [fw_set_first map]; intros Hnd; [reflexivity|].
  inversion Hnd as [|? ? Hnotin Hnd']; subst. unfold fw_upd at 1.
  destruct (c_type a =? t) eqn:E.
  - apply N.eqb_eq in E. f_equal. symmetry. apply map_upd_id. intros c Hc Hct. apply Hnotin. rewrite E, <- Hct. apply in_map, Hc.
  - f_equal. apply IH, Hnd'.
Qed.

Lemma find_type_none t l : find_type t l = None -> forall c, In c l -> c_type c <> t.
Proof.
  unfold find_type. intros H c Hc Hct. apply (find_none _ _ H) in Hc. apply N.eqb_neq in Hc. contradiction.
Qed.

Lemma find_type_some_ex t l c : In c l -> c_type c = t -> exists c0, find_type t l = Some c0.
Proof.
  intros Hc Hct. destruct (find_type t l) eqn:E; [eauto|]. exfalso. exact (find_type_none _ _ E _ Hc Hct).
Qed.

Lemma find_type_unique t l c c0 :
  NoDup (map c_type l) -> find_type t l = Some c0 -> In c l -> c_type c = t -> c = c0.
Proof.
  intros Hnd Hf Hc Hct. apply find_type_in in Hf. destruct Hf as [Hin Ht].
  apply (NoDup_map_inj_in c_type l); auto. congruence.
Qed.

(* ------------------------------------------------------------------------------------------ *)
(* sortBlocks                                                                                  *)
(* ------------------------------------------------------------------------------------------ *)
Lemma fw_insert_perm x l : Permutation (fw_insert x l) (x :: l).
Proof.
  induction l as [|y l IH]; cbn [fw_insert]; [reflexivity|].
  destruct (fw_less x y); [reflexivity|]. rewrite IH. apply perm_swap.
Qed.

Lemma fw_sort_acc_perm l : forall acc, Permutation (fold_left (fun acc x => fw_insert x acc) l acc) (acc ++ l).
Proof.
  induction l as [|x l IH]; intros acc; cbn [fold_left]; [rewrite app_nil_r; reflexivity|].
  rewrite IH. rewrite fw_insert_perm. change (x :: acc) with ([x] ++ acc). rewrite <- app_assoc.
  apply Permutation_app_comm_trans || idtac.
  transitivity (acc ++ [x] ++ l); [|reflexivity].
  rewrite !app_assoc. apply Permutation_app_tail. apply Permutation_app_comm.
Qed.

Lemma fw_sort_perm l : Permutation (fw_sort l) l.
Proof. unfold fw_sort. apply (fw_sort_acc_perm l []). Qed.

(* all blocks with number 1 sit at the end *)
Fixpoint fw_ones_suffix (l : list cblock) : bool :=
  match l with
  | [] => true
  | y :: l' => if c_num y =? 1 then forallb (fun z => c_num z =? 1) l' else fw_ones_suffix l'
  end.

Lemma forallb_insert p x l : forallb p (fw_insert x l) = p x && forallb p l.
Proof.
  induction l as [|y l IH]; cbn [fw_insert forallb]; [reflexivity|].
  destruct (fw_less x y); cbn [forallb]; [reflexivity|]. rewrite IH. destruct (p x), (p y); reflexivity.
Qed.

Lemma fw_insert_ones x l : fw_ones_suffix l = true -> fw_ones_suffix (fw_insert x l) = true.
Proof.
  induction l as [|y l IH]; cbn [fw_insert fw_ones_suffix]; intros H.
  - destruct (c_num x =? 1); reflexivity.
  - destruct (fw_less x y) eqn:L.
    + cbn [fw_ones_suffix]. unfold fw_less in L. destruct (c_num x =? 1); [discriminate|]. exact H.
    + cbn [fw_ones_suffix]. destruct (c_num y =? 1) eqn:Ey.
      * rewrite forallb_insert, H, andb_true_r. unfold fw_less in L. rewrite Ey in L.
        destruct (c_num x =? 1); [reflexivity|discriminate].
      * apply IH, H.
Qed.

Lemma fw_sort_ones l : fw_ones_suffix (fw_sort l) = true.
Proof.
  unfold fw_sort. assert (G : forall acc, fw_ones_suffix acc = true ->
    fw_ones_suffix (fold_left (fun acc x => fw_insert x acc) l acc) = true).
  { induction l as [|x l IH]; intros acc Ha; cbn [fold_left]; [exact Ha|]. apply IH, fw_insert_ones, Ha. }
  apply G. reflexivity.
Qed.

Lemma fw_ones_suffix_last l d :
  fw_ones_suffix l = true -> (exists y, In y l /\ c_num y = 1) -> c_num (last l d) = 1.
Proof.
  induction l as [|y l IH]; intros H (z & Hz & Hz1); [destruct Hz|].
  cbn [fw_ones_suffix] in H. destruct (c_num y =? 1) eqn:Ey.
  - destruct l as [|y' l]; [apply N.eqb_eq, Ey|].
    rewrite forallb_forall in H. apply N.eqb_eq, H.
    change (In (last (y' :: l) d) (y' :: l)). apply last_in. discriminate.
  - destruct Hz as [<-|Hz]; [apply N.eqb_eq in Hz1; congruence|].
    destruct l as [|y' l]; [destruct Hz|].
    change (c_num (last (y' :: l) d) = 1). apply IH; [exact H|eauto].
Qed.

(* ------------------------------------------------------------------------------------------ *)
(* the smallest free block number                                                              *)
(* ------------------------------------------------------------------------------------------ *)
Lemma filter_length_lt {A} (p q : A -> bool) l a :
  (forall x, q x = true -> p x = true) -> In a l -> p a = true -> q a = false ->
  (length (filter q l) < length (filter p l))%nat.
Proof.
  intros Hqp. induction l as [|x l IH]; intros Ha Hpa Hqa; [destruct Ha|].
  assert (Hle : forall l', (length (filter q l') <= length (filter p l'))%nat).
  { induction l' as [|z l' IH']; cbn [filter]; [lia|]. destruct (q z) eqn:Eq.
    - rewrite (Hqp _ Eq). cbn [length]. lia.
    - destruct (p z); cbn [length]; lia. }
  cbn [filter]. destruct Ha as [->|Ha].
  - rewrite Hpa, Hqa. cbn [length]. specialize (Hle l). lia.
  - specialize (IH Ha Hpa Hqa). destruct (q x) eqn:Eq.
    + rewrite (Hqp _ Eq). cbn [length]. lia.
    + destruct (p x); cbn [length]; lia.
Qed.

Lemma fw_free_num_fresh fuel : forall n nums,
  (length (filter (fun x => N.leb n x) nums) < fuel)%nat ->
  existsb (N.eqb (fw_free_num fuel n nums)) nums = false.
Proof.
  induction fuel as [|fuel IH]; intros n nums Hlen; [lia|].
  cbn [fw_free_num]. destruct (existsb (N.eqb n) nums) eqn:E; [|exact E].
  apply IH. apply existsb_exists in E. destruct E as (x & Hx & Hnx). apply N.eqb_eq in Hnx. subst x.
  assert ((length (filter (fun x => N.leb (n + 1) x) nums) < length (filter (fun x => N.leb n x) nums))%nat).
  { apply (filter_length_lt _ _ nums n); auto; intros; lia. }
  lia.
Qed.

Lemma fw_free_num_bounds fuel : forall n nums, n <= fw_free_num fuel n nums <= n + N.of_nat fuel.
Proof.
  induction fuel as [|fuel IH]; intros n nums; cbn [fw_free_num]; [lia|].
  destruct (existsb (N.eqb n) nums); [|lia]. specialize (IH (n + 1) nums). lia.
Qed.

Lemma filter_length_le {A} (p : A -> bool) l : (length (filter p l) <= length l)%nat.
Proof. induction l as [|x l IH]; cbn [filter length]; [lia|]. destruct (p x); cbn [length]; lia. Qed.

(* ------------------------------------------------------------------------------------------ *)
(* the list-level part of CheckValid, and its preservation                                     *)
(* ------------------------------------------------------------------------------------------ *)
Definition fw_flags_ok (p : primary) (c : cblock) : bool :=
  negb (has (p_flags p) F_ADMIN || eid_eqb (p_src p) DtnNone) || negb (has (c_flags c) BF_REPORT).

Lemma orb_forallb {A} (a : bool) (f : A -> bool) l : a || forallb f l = forallb (fun c => a || f c) l.
Proof. induction l as [|x l IH]; cbn [forallb]; [apply orb_true_r|]. rewrite <- IH. destruct a, (f x); reflexivity. Qed.

Record fw_lok (p : primary) (bl : list cblock) : Prop := {
  lok_each : forall c, In c bl -> cblock_valid c = true /\ fw_flags_ok p c = true;
  lok_nums : NoDup (map c_num bl);
  lok_types : NoDup (map c_type bl);
  lok_last : exists pre pl, bl = pre ++ [pl] /\ c_type pl = 1 }.

Definition fw_age_present (p : primary) (bl : list cblock) : Prop :=
  p_time p = 0 -> exists c, In c bl /\ c_type c = 7.

Lemma check_valid_elim now b :
  check_valid now b = true ->
  primary_valid (b_pri b) = true /\ fw_lok (b_pri b) (b_blocks b) /\ fw_age_present (b_pri b) (b_blocks b)
  /\ lifetime_exceeded now b = false.
Proof.
  unfold check_valid. intros H.
  do 8 (apply andb_prop in H; let H2 := fresh "C" in destruct H as [H H2]).
  split; [exact H|]. split; [|split].
  - constructor.
    + intros c Hc. rewrite forallb_forall in C6. split; [apply C6, Hc|].
      unfold fw_flags_ok. rewrite orb_forallb in C4. rewrite forallb_forall in C4. apply C4, Hc.
    + apply nodup_N_NoDup, C3.
    + apply nodup_N_NoDup, C2.
    + apply last_map_split. destruct (last (map c_type (b_blocks b)) 0) as [|q] eqn:E; [discriminate|].
      destruct q; try discriminate. reflexivity.
  - intros Ht. rewrite Ht in C0. cbn in C0. destruct (find_type 7 (b_blocks b)) eqn:E; [|discriminate].
    apply find_type_in in E. eauto.
  - apply negb_true_iff, C.
Qed.

Lemma check_valid_intro now p bl :
  primary_valid p = true -> fw_lok p bl -> fw_age_present p bl ->
  lifetime_exceeded now {| b_pri := p; b_blocks := bl |} = false ->
  check_valid now {| b_pri := p; b_blocks := bl |} = true.
Proof.
  intros Hp [Heach Hnums Htypes (pre & pl & Hbl & Hpl)] Hage Hlife.
  unfold check_valid. cbn [b_pri b_blocks]. rewrite Hp, Hlife. cbn [negb andb].
  repeat (apply andb_true_intro; split); try reflexivity.
  - apply forallb_forall. intros c Hc. apply Heach, Hc.
  - subst bl. destruct pre; reflexivity.
  - rewrite orb_forallb. apply forallb_forall. intros c Hc. apply Heach, Hc.
  - apply NoDup_nodup_N, Hnums.
  - apply NoDup_nodup_N, Htypes.
  - subst bl. rewrite map_app. cbn [map]. rewrite last_last, Hpl. reflexivity.
  - destruct (p_time p =? 0) eqn:Et; [|reflexivity]. apply N.eqb_eq in Et. cbn [negb orb].
    destruct (Hage Et) as (c & Hc & Hct). destruct (find_type_some_ex _ _ _ Hc Hct) as (c0 & ->). reflexivity.
Qed.

Lemma known_not_removable c : known_type (c_type c) = true -> fw_removable c = false.
Proof. unfold fw_removable, fw_unknown. intros ->. reflexivity. Qed.

Lemma fw_strip_in c l : In c (fw_strip l) <-> In c l /\ fw_removable c = false.
Proof. unfold fw_strip. rewrite filter_In. rewrite negb_true_iff. reflexivity. Qed.

Lemma fw_lok_strip p l : fw_lok p l -> fw_lok p (fw_strip l).
Proof.
  intros [Heach Hnums Htypes (pre & pl & Hbl & Hpl)]. constructor.
  - intros c Hc. apply fw_strip_in in Hc. apply Heach, Hc.
  - apply NoDup_map_filter, Hnums.
  - apply NoDup_map_filter, Htypes.
  - exists (fw_strip pre), pl. split; [|exact Hpl]. subst l. unfold fw_strip. rewrite filter_app. cbn [filter].
    rewrite known_not_removable; [reflexivity|]. rewrite Hpl. reflexivity.
Qed.

Lemma cblock_valid_new num fl crc v :
  ext_valid v = true -> ext_type v <> 1 -> cblock_valid {| c_num := num; c_flags := fl; c_crc := crc; c_val := v |} = true.
Proof.
  intros Hval Ht. unfold cblock_valid, c_type. cbn [c_val c_num]. rewrite Hval. apply N.eqb_neq in Ht. rewrite Ht. reflexivity.
Qed.

Lemma fw_lok_upd p t v l :
  ext_type v = t -> t <> 1 -> ext_valid v = true -> fw_lok p l -> fw_lok p (map (fw_upd t v) l).
Proof.
  intros Hv Ht Hval [Heach Hnums Htypes (pre & pl & Hbl & Hpl)]. constructor.
  - intros c' Hc'. apply in_map_iff in Hc'. destruct Hc' as (c & <- & Hc). destruct (Heach c Hc) as [H1 H2].
    split.
    + unfold fw_upd. destruct (c_type c =? t) eqn:E; [|exact H1].
      apply cblock_valid_new; congruence.
    + unfold fw_flags_ok in *. rewrite fw_upd_flags. exact H2.
  - rewrite map_upd_nums. exact Hnums.
  - rewrite map_upd_types by exact Hv. exact Htypes.
  - exists (map (fw_upd t v) pre), (fw_upd t v pl). split.
    + subst l. rewrite map_app. reflexivity.
    + rewrite fw_upd_type by exact Hv. exact Hpl.
Qed.

Lemma fw_add_block_perm fl crc v l :
  exists num, existsb (N.eqb num) (map c_num l) = false
    /\ (if ext_type v =? 1 then 1 else 2) <= num <= (if ext_type v =? 1 then 1 else 2) + N.of_nat (S (length l))
    /\ Permutation (fw_add_block fl crc v l) ({| c_num := num; c_flags := fl; c_crc := crc; c_val := v |} :: l)
    /\ fw_ones_suffix (fw_add_block fl crc v l) = true.
Proof.
  unfold fw_add_block. set (start := if ext_type v =? 1 then 1 else 2).
  set (num := fw_free_num (S (length (map c_num l))) start (map c_num l)).
  exists num. split; [|split; [|split]].
  - apply fw_free_num_fresh. pose proof (filter_length_le (fun x => N.leb start x) (map c_num l)). lia.
  - pose proof (fw_free_num_bounds (S (length (map c_num l))) start (map c_num l)) as Hb.
    unfold num. rewrite map_length in *. exact Hb.
  - rewrite fw_sort_perm. rewrite Permutation_app_comm. reflexivity.
  - apply fw_sort_ones.
Qed.

Lemma fw_lok_add p v l :
  ext_type v <> 1 -> ext_valid v = true -> (forall c, In c l -> c_type c <> ext_type v) ->
  fw_lok p l -> fw_lok p (fw_add_block 0 0 v l).
Proof.
  intros Ht Hval Hnone [Heach Hnums Htypes (pre & pl & Hbl & Hpl)].
  destruct (fw_add_block_perm 0 0 v l) as (num & Hfresh & Hrange & Hperm & Hones).
  apply N.eqb_neq in Ht. rewrite Ht in Hrange. apply N.eqb_neq in Ht.
  set (nb := {| c_num := num; c_flags := 0; c_crc := 0; c_val := v |}) in *.
  assert (Hpl_in : In pl l) by (subst l; apply in_or_app; right; left; reflexivity).
  assert (Hpl_num : c_num pl = 1).
  { destruct (Heach pl Hpl_in) as [Hv _]. unfold cblock_valid in Hv. rewrite Hpl in Hv. cbn in Hv.
    apply andb_prop in Hv. destruct Hv as [_ Hv]. apply N.eqb_eq, Hv. }
  constructor.
  - intros c Hc. apply (Permutation_in _ Hperm) in Hc. destruct Hc as [<-|Hc]; [|apply Heach, Hc].
    split.
    + apply cblock_valid_new; assumption.
    + unfold fw_flags_ok, nb. cbn [c_flags]. apply orb_true_r.
  - apply (Permutation_NoDup (l := map c_num (nb :: l))); [apply Permutation_map, Permutation_sym, Hperm|].
    cbn [map]. constructor; [|exact Hnums]. intros Hin. assert (existsb (N.eqb num) (map c_num l) = true); [|congruence].
    apply existsb_exists. exists num. split; [exact Hin|apply N.eqb_refl].
  - apply (Permutation_NoDup (l := map c_type (nb :: l))); [apply Permutation_map, Permutation_sym, Hperm|].
    cbn [map]. constructor; [|exact Htypes]. intros Hin. apply in_map_iff in Hin. destruct Hin as (c & Hct & Hc).
    apply (Hnone c Hc). exact Hct.
  - set (r := fw_add_block 0 0 v l) in *.
    assert (Hne : r <> []).
    { intros E. rewrite E in Hperm. apply Permutation_nil in Hperm. discriminate. }
    exists (removelast r), (last r nb). split; [apply app_removelast_last, Hne|].
    assert (Hl1 : c_num (last r nb) = 1).
    { apply fw_ones_suffix_last; [exact Hones|]. exists pl. split; [|exact Hpl_num].
      apply (Permutation_in _ (Permutation_sym Hperm)). right. exact Hpl_in. }
    assert (Hlin : In (last r nb) (nb :: l)) by (apply (Permutation_in _ Hperm), last_in, Hne).
    destruct Hlin as [E|Hlin].
    + exfalso. rewrite <- E in Hl1. unfold nb in Hl1. cbn [c_num] in Hl1. lia.
    + assert (last r nb = pl); [|congruence].
      apply (NoDup_map_inj_in c_num l); auto. congruence.
Qed.

(* ------------------------------------------------------------------------------------------ *)
(* block values agree with block types (range well-formedness gives this)                      *)
(* ------------------------------------------------------------------------------------------ *)
Definition fw_typed (l : list cblock) : Prop :=
  forall c, In c l -> match c_val c with XGeneric tc _ => known_type tc = false | _ => True end.

Lemma wf_typed l : forallb cblock_wf l = true -> fw_typed l.
Proof.
  intros H c Hc. rewrite forallb_forall in H. specialize (H c Hc). unfold cblock_wf in H.
  destruct (c_val c) eqn:E; try exact I.
  repeat (apply andb_prop in H; destruct H as [H ?]). cbn [ext_wf] in *.
  repeat match goal with X : _ && _ = true |- _ => apply andb_prop in X; destruct X end.
  match goal with X : negb (known_type _) = true |- _ => apply negb_true_iff in X; exact X end.
Qed.

Ltac typed_tac H c Hc Ht :=
  specialize (H c Hc); unfold c_type in Ht; destruct (c_val c) eqn:?E; cbn [ext_type] in Ht;
  try discriminate Ht; try (subst; cbn in H; discriminate H); eauto.

Lemma typed_hop l c : fw_typed l -> In c l -> c_type c = 10 -> exists lim k, c_val c = XHop lim k.
Proof. intros H Hc Ht. typed_tac H c Hc Ht. Qed.
Lemma typed_age l c : fw_typed l -> In c l -> c_type c = 7 -> exists a, c_val c = XAge a.
Proof. intros H Hc Ht. typed_tac H c Hc Ht. Qed.
Lemma typed_prev l c : fw_typed l -> In c l -> c_type c = 6 -> exists e, c_val c = XPrev e.
Proof. intros H Hc Ht. typed_tac H c Hc Ht. Qed.

Lemma fw_typed_strip l : fw_typed l -> fw_typed (fw_strip l).
Proof. intros H c Hc. apply fw_strip_in in Hc. apply H, Hc. Qed.

(* ------------------------------------------------------------------------------------------ *)
(* the steps of forward                                                                        *)
(* ------------------------------------------------------------------------------------------ *)
Definition fw_plain (v : ext) : Prop := match v with XGeneric _ _ => False | _ => True end.

Definition fw_hop_rel (l : list cblock) (vh : ext) : Prop :=
  ext_type vh = 10 /\ ext_valid vh = true /\ fw_plain vh /\
  forall c, In c l -> c_type c = 10 ->
    exists lim k, c_val c = XHop lim k /\ vh = XHop lim (k + 1) /\ k + 1 <= lim /\ k <> 255.

Lemma fw_hop_step_some l l1 :
  NoDup (map c_type l) -> fw_typed l -> fw_hop_step l = Some l1 ->
  exists vh, fw_hop_rel l vh /\ l1 = map (fw_upd 10 vh) l.
Proof.
  intros Hnd Hty. unfold fw_hop_step. destruct (find_type 10 l) as [c0|] eqn:F.
  - pose proof (find_type_in _ _ _ F) as [Hin Ht0].
    destruct (typed_hop _ _ Hty Hin Ht0) as (lim & k & Hv).
    destruct c0 as [num fl crc val]. cbn [c_val] in Hv. subst val.
    destruct (k =? 255) eqn:E1; [discriminate|]. destruct (lim <? k + 1) eqn:E2; [discriminate|].
    intros H. inversion H; subst l1. clear H. exists (XHop lim (k + 1)). split.
    + split; [reflexivity|]. split; [cbn [ext_valid]; lia|]. split; [exact I|].
      intros c Hc Hct. rewrite (find_type_unique _ _ _ _ Hnd F Hc Hct). exists lim, k. cbn [c_val].
      repeat split; lia.
    + apply fw_set_first_map, Hnd.
  - intros H. inversion H; subst l1. exists (XHop 0 0). split.
    + split; [reflexivity|]. split; [reflexivity|]. split; [exact I|]. intros c Hc Hct. exfalso. exact (find_type_none _ _ F _ Hc Hct).
    + symmetry. apply map_upd_id. apply find_type_none, F.
Qed.

Lemma fw_hop_step_none l c lim k :
  NoDup (map c_type l) -> In c l -> c_val c = XHop lim k -> lim < k + 1 -> fw_hop_step l = None.
Proof.
  intros Hnd Hc Hv Hlt. unfold fw_hop_step.
  assert (Ht : c_type c = 10) by (unfold c_type; rewrite Hv; reflexivity).
  destruct (find_type_some_ex _ _ _ Hc Ht) as (c0 & F). rewrite F.
  rewrite <- (find_type_unique _ _ _ _ Hnd F Hc Ht). destruct c as [num fl crc val]. cbn [c_val] in Hv. subst val.
  destruct (k =? 255); [reflexivity|]. destruct (lim <? k + 1) eqn:E; [reflexivity|lia].
Qed.

Definition fw_age_rel (res life : N) (l : list cblock) (va : ext) : Prop :=
  ext_type va = 7 /\ fw_plain va /\
  forall c, In c l -> c_type c = 7 ->
    exists a, c_val c = XAge a /\ va = XAge (fw_u64 (a + res)) /\ fw_u64 (a + res) < life.

Lemma fw_age_step_some res life l l2 :
  NoDup (map c_type l) -> fw_typed l -> fw_age_step res life l = Some l2 ->
  exists va, fw_age_rel res life l va /\ l2 = map (fw_upd 7 va) l.
Proof.
  intros Hnd Hty. unfold fw_age_step. destruct (find_type 7 l) as [c0|] eqn:F.
  - pose proof (find_type_in _ _ _ F) as [Hin Ht0].
    destruct (typed_age _ _ Hty Hin Ht0) as (a & Hv).
    destruct c0 as [num fl crc val]. cbn [c_val] in Hv. subst val.
    destruct (life <=? fw_u64 (a + res)) eqn:E1; [discriminate|].
    intros H. inversion H; subst l2. clear H. exists (XAge (fw_u64 (a + res))). split.
    + split; [reflexivity|]. split; [exact I|].
      intros c Hc Hct. rewrite (find_type_unique _ _ _ _ Hnd F Hc Hct). exists a. cbn [c_val].
      repeat split; lia.
    + apply fw_set_first_map, Hnd.
  - intros H. inversion H; subst l2. exists (XAge 0). split.
    + split; [reflexivity|]. split; [exact I|]. intros c Hc Hct. exfalso. exact (find_type_none _ _ F _ Hc Hct).
    + symmetry. apply map_upd_id. apply find_type_none, F.
Qed.

Lemma fw_age_step_none res life l c a :
  NoDup (map c_type l) -> In c l -> c_val c = XAge a -> life <= fw_u64 (a + res) -> fw_age_step res life l = None.
Proof.
  intros Hnd Hc Hv Hle. unfold fw_age_step.
  assert (Ht : c_type c = 7) by (unfold c_type; rewrite Hv; reflexivity).
  destruct (find_type_some_ex _ _ _ Hc Ht) as (c0 & F). rewrite F.
  rewrite <- (find_type_unique _ _ _ _ Hnd F Hc Ht). destruct c as [num fl crc val]. cbn [c_val] in Hv. subst val.
  destruct (life <=? fw_u64 (a + res)) eqn:E; [reflexivity|lia].
Qed.

(* set the value of the block of type [ext_type v], or add such a block: previous node, spray *)
Definition fw_set_or_add (v : ext) (l : list cblock) : list cblock :=
  match find_type (ext_type v) l with
  | Some _ => fw_set_first (ext_type v) v l
  | None => fw_add_block 0 0 v l
  end.

Lemma fw_prev_step_eq node l : fw_prev_step node l = fw_set_or_add (XPrev node) l.
Proof. reflexivity. Qed.

Lemma fw_lok_set_or_add p v l :
  ext_type v <> 1 -> ext_valid v = true -> fw_lok p l -> fw_lok p (fw_set_or_add v l).
Proof.
  intros Ht Hval Hl. unfold fw_set_or_add. destruct (find_type (ext_type v) l) eqn:F.
  - rewrite fw_set_first_map by apply Hl. apply fw_lok_upd; auto.
  - apply fw_lok_add; auto. apply find_type_none, F.
Qed.

(* membership in the result *)
Lemma fw_set_or_add_inv v l c' :
  NoDup (map c_type l) -> In c' (fw_set_or_add v l) ->
  (exists c, In c l /\ c' = fw_upd (ext_type v) v c)
  \/ ((forall c, In c l -> c_type c <> ext_type v)
      /\ exists num, c' = {| c_num := num; c_flags := 0; c_crc := 0; c_val := v |} /\ ~ In num (map c_num l)).
Proof.
  intros Hnd. unfold fw_set_or_add. destruct (find_type (ext_type v) l) eqn:F.
  - rewrite fw_set_first_map by exact Hnd. rewrite in_map_iff. intros (c1 & <- & Hc). left. eauto.
  - pose proof (find_type_none _ _ F) as Hnone.
    destruct (fw_add_block_perm 0 0 v l) as (num & Hfresh & _ & Hperm & _).
    assert (Hnotin : ~ In num (map c_num l)).
    { intros Hin. assert (existsb (N.eqb num) (map c_num l) = true); [|congruence].
      apply existsb_exists. exists num. split; [exact Hin|apply N.eqb_refl]. }
    intros Hc'. apply (Permutation_in _ Hperm) in Hc'. destruct Hc' as [<-|Hc'].
    + right. split; [exact Hnone|]. eauto.
    + left. exists c'. split; [exact Hc'|]. symmetry. apply fw_upd_other, Hnone, Hc'.
Qed.

Lemma fw_set_or_add_old v l c :
  NoDup (map c_type l) -> In c l -> In (fw_upd (ext_type v) v c) (fw_set_or_add v l).
Proof.
  intros Hnd Hc. unfold fw_set_or_add. destruct (find_type (ext_type v) l) eqn:F.
  - rewrite fw_set_first_map by exact Hnd. apply in_map, Hc.
  - pose proof (find_type_none _ _ F) as Hnone. rewrite fw_upd_other by (apply Hnone, Hc).
    destruct (fw_add_block_perm 0 0 v l) as (num & _ & _ & Hperm & _).
    apply (Permutation_in _ (Permutation_sym Hperm)). right. exact Hc.
Qed.

(* the result always has a block carrying [v] *)
Lemma fw_set_or_add_has v l :
  NoDup (map c_type l) ->
  exists c', In c' (fw_set_or_add v l) /\ c_val c' = v
    /\ (forall c, In c l -> c_type c = ext_type v -> c' = fw_set_val c v)
    /\ ((forall c, In c l -> c_type c <> ext_type v) -> c_flags c' = 0 /\ c_crc c' = 0 /\ ~ In (c_num c') (map c_num l)).
Proof.
  intros Hnd. unfold fw_set_or_add. destruct (find_type (ext_type v) l) as [c0|] eqn:F.
  - pose proof (find_type_in _ _ _ F) as [Hin Ht]. exists (fw_set_val c0 v).
    rewrite fw_set_first_map by exact Hnd. split; [|split; [reflexivity|split]].
    + apply in_map_iff. exists c0. split; [apply fw_upd_same, Ht|exact Hin].
    + intros c Hc Hct. rewrite (find_type_unique _ _ _ _ Hnd F Hc Hct). reflexivity.
    + intros Hnone. exfalso. exact (Hnone _ Hin Ht).
  - pose proof (find_type_none _ _ F) as Hnone.
    destruct (fw_add_block_perm 0 0 v l) as (num & Hfresh & _ & Hperm & _).
    exists {| c_num := num; c_flags := 0; c_crc := 0; c_val := v |}. split; [|split; [reflexivity|split]].
    + apply (Permutation_in _ (Permutation_sym Hperm)). left. reflexivity.
    + intros c Hc Hct. exfalso. exact (Hnone _ Hc Hct).
    + intros _. cbn [c_flags c_crc c_num]. repeat split.
      intros Hin. assert (existsb (N.eqb num) (map c_num l) = true); [|congruence].
      apply existsb_exists. exists num. split; [exact Hin|apply N.eqb_refl].
Qed.

Lemma fw_typed_upd t v l : fw_plain v -> fw_typed l -> fw_typed (map (fw_upd t v) l).
Proof.
  intros Hp Hty c' Hc'. apply in_map_iff in Hc'. destruct Hc' as (c & <- & Hc). unfold fw_upd.
  destruct (c_type c =? t); [|apply Hty, Hc]. cbn [fw_set_val c_val]. destruct v; try exact I. destruct Hp.
Qed.

(* ------------------------------------------------------------------------------------------ *)
(* forward: the transmitted block list in normal form                                          *)
(* ------------------------------------------------------------------------------------------ *)
Lemma fw_forward_send_inv node now res b b' :
  fw_forward node now res b = FwSend b' ->
  exists l1 l2, fw_hop_step (fw_strip (b_blocks b)) = Some l1
    /\ lifetime_exceeded now {| b_pri := b_pri b; b_blocks := l1 |} = false
    /\ fw_age_step res (p_life (b_pri b)) l1 = Some l2
    /\ b' = {| b_pri := b_pri b; b_blocks := fw_prev_step node l2 |}.
Proof.
  unfold fw_forward. destruct (fw_hop_step (fw_strip (b_blocks b))) as [l1|] eqn:E1; [|discriminate].
  destruct (lifetime_exceeded now _) eqn:L; [discriminate|].
  destruct (fw_age_step res (p_life (b_pri b)) l1) as [l2|] eqn:E2; [|discriminate].
  intros H. inversion H. exists l1, l2. auto.
Qed.

Definition fw_l2 (vh va : ext) (l : list cblock) : list cblock :=
  map (fw_upd 7 va) (map (fw_upd 10 vh) (fw_strip l)).

Lemma fw_forward_send_spec node now res b b' :
  fw_lok (b_pri b) (b_blocks b) -> fw_typed (b_blocks b) ->
  fw_forward node now res b = FwSend b' ->
  exists vh va,
    fw_hop_rel (fw_strip (b_blocks b)) vh
    /\ fw_age_rel res (p_life (b_pri b)) (fw_strip (b_blocks b)) va
    /\ lifetime_exceeded now {| b_pri := b_pri b; b_blocks := map (fw_upd 10 vh) (fw_strip (b_blocks b)) |} = false
    /\ b' = {| b_pri := b_pri b; b_blocks := fw_set_or_add (XPrev node) (fw_l2 vh va (b_blocks b)) |}.
Proof.
  intros Hlok Hty H. apply fw_forward_send_inv in H. destruct H as (l1 & l2 & Hh & Hl & Ha & ->).
  pose proof (fw_lok_strip _ _ Hlok) as Hlok0. pose proof (fw_typed_strip _ Hty) as Hty0.
  destruct (fw_hop_step_some _ _ (lok_types _ _ Hlok0) Hty0 Hh) as (vh & Hrel & ->).
  destruct Hrel as (Hvt & Hvv & Hvp & Hrel).
  assert (Hnd1 : NoDup (map c_type (map (fw_upd 10 vh) (fw_strip (b_blocks b))))).
  { rewrite map_upd_types by exact Hvt. apply Hlok0. }
  destruct (fw_age_step_some _ _ _ _ Hnd1 (fw_typed_upd _ _ _ Hvp Hty0) Ha) as (va & (Hat & Hap & Harel) & ->).
  exists vh, va. split; [repeat split; assumption|]. split; [|split; [exact Hl|reflexivity]].
  split; [exact Hat|]. split; [exact Hap|]. intros c Hc Hct. apply Harel; [|exact Hct].
  apply in_map_iff. exists c. split; [|exact Hc]. apply fw_upd_other. lia.
Qed.

Lemma fw_l2_lok p vh va l :
  ext_type vh = 10 -> ext_valid vh = true -> ext_type va = 7 -> fw_lok p l -> fw_lok p (fw_l2 vh va l).
Proof.
  intros H1 H2 H3 Hl. unfold fw_l2. apply fw_lok_upd; [exact H3|lia| |].
  - destruct va; try discriminate H3; reflexivity.
  - apply fw_lok_upd; [exact H1|lia|exact H2|]. apply fw_lok_strip, Hl.
Qed.

Lemma fw_l2_in vh va l c2 :
  In c2 (fw_l2 vh va l) <-> exists c, In c l /\ fw_removable c = false /\ c2 = fw_upd 7 va (fw_upd 10 vh c).
Proof.
  unfold fw_l2. rewrite in_map_iff. split.
  - intros (c1 & <- & H1). apply in_map_iff in H1. destruct H1 as (c & <- & Hc). apply fw_strip_in in Hc. exists c. tauto.
  - intros (c & Hc & Hr & ->). exists (fw_upd 10 vh c). split; [reflexivity|]. apply in_map. apply fw_strip_in. tauto.
Qed.

(* the three replacements do not interfere *)
Definition fw_G (vh va vp : ext) (c : cblock) : cblock := fw_upd 6 vp (fw_upd 7 va (fw_upd 10 vh c)).

Lemma fw_G_type vh va vp c : ext_type vh = 10 -> ext_type va = 7 -> ext_type vp = 6 -> c_type (fw_G vh va vp c) = c_type c.
Proof. intros. unfold fw_G. rewrite !fw_upd_type; auto. Qed.
Lemma fw_G_10 vh va vp c : ext_type vh = 10 -> c_type c = 10 -> fw_G vh va vp c = fw_set_val c vh.
Proof.
  intros Hv Hc. unfold fw_G. rewrite (fw_upd_same 10 vh c Hc).
  rewrite (fw_upd_other 7); [|rewrite fw_set_val_type; lia]. apply fw_upd_other. rewrite fw_set_val_type. lia.
Qed.
Lemma fw_G_7 vh va vp c : ext_type va = 7 -> c_type c = 7 -> fw_G vh va vp c = fw_set_val c va.
Proof.
  intros Hv Hc. unfold fw_G. rewrite (fw_upd_other 10) by lia. rewrite (fw_upd_same 7 va c Hc).
  apply fw_upd_other. rewrite fw_set_val_type. lia.
Qed.
Lemma fw_G_6 vh va vp c : c_type c = 6 -> fw_G vh va vp c = fw_set_val c vp.
Proof.
  intros Hc. unfold fw_G. rewrite (fw_upd_other 10) by lia. rewrite (fw_upd_other 7) by lia. apply fw_upd_same, Hc.
Qed.
Lemma fw_G_other vh va vp c : c_type c <> 10 -> c_type c <> 7 -> c_type c <> 6 -> fw_G vh va vp c = c.
Proof. intros. unfold fw_G. rewrite (fw_upd_other 10) by assumption. rewrite (fw_upd_other 7) by assumption. apply fw_upd_other. assumption. Qed.

(* ------------------------------------------------------------------------------------------ *)
(* faithfulness                                                                                *)
(* ------------------------------------------------------------------------------------------ *)
Definition fw_special (owned : bool) (t : N) : bool :=
  (t =? 6) || (t =? 7) || (t =? 10) || (owned && (t =? 192)).

(* [b'] is a faithful copy of [b] made by node [node] after a residence of [res] ms; [owned]: the
   routing algorithm's own block (type 192) may have been added or rewritten *)
Record fw_faithful (node : eid) (res : N) (owned : bool) (b b' : bundle) : Prop := {
  ff_primary : b_pri b' = b_pri b;
  ff_kept : forall c, In c (b_blocks b) -> fw_special owned (c_type c) = false -> fw_removable c = false ->
            In c (b_blocks b');
  ff_only : forall c', In c' (b_blocks b') -> fw_special owned (c_type c') = false ->
            In c' (b_blocks b) /\ fw_removable c' = false;
  ff_hop : forall c, In c (b_blocks b) -> c_type c = 10 ->
           exists lim k, c_val c = XHop lim k /\ k + 1 <= lim /\ In (fw_set_val c (XHop lim (k + 1))) (b_blocks b');
  ff_hop_only : forall c', In c' (b_blocks b') -> c_type c' = 10 ->
           exists c lim k, In c (b_blocks b) /\ c_val c = XHop lim k /\ c' = fw_set_val c (XHop lim (k + 1));
  ff_age : forall c, In c (b_blocks b) -> c_type c = 7 ->
           exists a, c_val c = XAge a /\ In (fw_set_val c (XAge (fw_u64 (a + res)))) (b_blocks b');
  ff_age_only : forall c', In c' (b_blocks b') -> c_type c' = 7 ->
           exists c a, In c (b_blocks b) /\ c_val c = XAge a /\ c' = fw_set_val c (XAge (fw_u64 (a + res)));
  ff_prev : exists c', In c' (b_blocks b') /\ c_val c' = XPrev node
            /\ (forall c'', In c'' (b_blocks b') -> c_type c'' = 6 -> c'' = c')
            /\ (forall c, In c (b_blocks b) -> c_type c = 6 -> c' = fw_set_val c (XPrev node))
            /\ ((forall c, In c (b_blocks b) -> c_type c <> 6) -> c_flags c' = 0 /\ c_crc c' = 0) }.

Lemma fw_special_false owned t : fw_special owned t = false -> t <> 6 /\ t <> 7 /\ t <> 10 /\ (owned = true -> t <> 192).
Proof. unfold fw_special. destruct owned; cbn [andb]; lia. Qed.

Lemma fw_known_6_7_10 c : c_type c = 6 \/ c_type c = 7 \/ c_type c = 10 -> fw_removable c = false.
Proof. intros H. apply known_not_removable. destruct H as [->|[->| ->]]; reflexivity. Qed.

Lemma fw_forward_faithful node now res b b' :
  eid_valid node = true ->
  fw_lok (b_pri b) (b_blocks b) -> fw_typed (b_blocks b) ->
  fw_forward node now res b = FwSend b' -> fw_faithful node res false b b'.
Proof.
  intros Hnode Hlok Hty H. destruct (fw_forward_send_spec _ _ _ _ _ Hlok Hty H) as (vh & va & Hh & Ha & _ & ->).
  destruct Hh as (Hvt & Hvv & _ & Hh). destruct Ha as (Hat & _ & Ha).
  set (vp := XPrev node). set (l := b_blocks b) in *.
  pose proof (fw_l2_lok (b_pri b) vh va l Hvt Hvv Hat Hlok) as Hlok2.
  pose proof (lok_types _ _ Hlok2) as Hnd2.
  assert (Hold : forall c, In c l -> fw_removable c = false -> In (fw_G vh va vp c) (fw_set_or_add vp (fw_l2 vh va l))).
  { intros c Hc Hr. unfold fw_G. apply (fw_set_or_add_old vp _ _ Hnd2). apply fw_l2_in. eauto. }
  assert (Hinv : forall c', In c' (fw_set_or_add vp (fw_l2 vh va l)) ->
            (exists c, In c l /\ fw_removable c = false /\ c' = fw_G vh va vp c)
            \/ (c_type c' = 6 /\ forall c, In c l -> c_type c <> 6)).
  { intros c' Hc'. destruct (fw_set_or_add_inv vp _ _ Hnd2 Hc') as [(c2 & Hc2 & ->)|(Hnone & num & -> & _)].
    - left. apply fw_l2_in in Hc2. destruct Hc2 as (c & Hc & Hr & ->). exists c. auto.
    - right. split; [reflexivity|]. intros c Hc Hct. apply (Hnone (fw_upd 7 va (fw_upd 10 vh c))).
      + apply fw_l2_in. exists c. split; [exact Hc|]. split; [apply fw_known_6_7_10; auto|reflexivity].
      + rewrite !fw_upd_type; auto. }
  assert (Hstrip_h : forall c, In c l -> c_type c = 10 -> In c (fw_strip l)).
  { intros c Hc Hct. apply fw_strip_in. split; [exact Hc|]. apply fw_known_6_7_10; auto. }
  assert (Hstrip_a : forall c, In c l -> c_type c = 7 -> In c (fw_strip l)).
  { intros c Hc Hct. apply fw_strip_in. split; [exact Hc|]. apply fw_known_6_7_10; auto. }
  constructor; cbn [b_pri b_blocks].
  - reflexivity.
  - intros c Hc Hs Hr. apply fw_special_false in Hs. destruct Hs as (H6 & H7 & H10 & _).
    rewrite <- (fw_G_other vh va vp c H10 H7 H6). apply Hold; assumption.
  - intros c' Hc' Hs. apply fw_special_false in Hs. destruct Hs as (H6 & H7 & H10 & _).
    destruct (Hinv c' Hc') as [(c & Hc & Hr & ->)|(Ht & _)]; [|contradiction].
    rewrite fw_G_type in H6, H7, H10 by auto. rewrite fw_G_other by assumption. auto.
  - intros c Hc Hct. destruct (Hh c (Hstrip_h c Hc Hct) Hct) as (lim & k & Hv & -> & Hle & _).
    exists lim, k. split; [exact Hv|]. split; [exact Hle|].
    rewrite <- (fw_G_10 (XHop lim (k + 1)) va vp c eq_refl Hct). apply Hold; [exact Hc|]. apply fw_known_6_7_10; auto.
  - intros c' Hc' Hct. destruct (Hinv c' Hc') as [(c & Hc & Hr & ->)|(Ht & _)]; [|lia].
    rewrite fw_G_type in Hct by auto.
    destruct (Hh c (Hstrip_h c Hc Hct) Hct) as (lim & k & Hv & -> & _).
    exists c, lim, k. split; [exact Hc|]. split; [exact Hv|]. apply fw_G_10; auto.
  - intros c Hc Hct. destruct (Ha c (Hstrip_a c Hc Hct) Hct) as (a & Hv & -> & _).
    exists a. split; [exact Hv|].
    rewrite <- (fw_G_7 vh (XAge (fw_u64 (a + res))) vp c eq_refl Hct). apply Hold; [exact Hc|]. apply fw_known_6_7_10; auto.
  - intros c' Hc' Hct. destruct (Hinv c' Hc') as [(c & Hc & Hr & ->)|(Ht & _)]; [|lia].
    rewrite fw_G_type in Hct by auto.
    destruct (Ha c (Hstrip_a c Hc Hct) Hct) as (a & Hv & -> & _).
    exists c, a. split; [exact Hc|]. split; [exact Hv|]. apply fw_G_7; auto.
  - destruct (fw_set_or_add_has vp _ Hnd2) as (c' & Hc' & Hv' & Hsame & Hnew).
    exists c'. split; [exact Hc'|]. split; [exact Hv'|].
    assert (Hlok3 : fw_lok (b_pri b) (fw_set_or_add vp (fw_l2 vh va l))).
    { apply fw_lok_set_or_add; [cbn; lia|exact Hnode|exact Hlok2]. }
    split; [|split].
    + intros c'' Hc'' Hct. apply (NoDup_map_inj_in c_type _ _ _ (lok_types _ _ Hlok3) Hc'' Hc').
      rewrite Hct. unfold c_type. rewrite Hv'. reflexivity.
    + intros c Hc Hct. rewrite (Hsame (fw_upd 7 va (fw_upd 10 vh c))).
      * rewrite (fw_upd_other 10) by lia. rewrite (fw_upd_other 7) by lia. reflexivity.
      * apply fw_l2_in. exists c. split; [exact Hc|]. split; [apply fw_known_6_7_10; auto|reflexivity].
      * rewrite !fw_upd_type; auto.
    + intros Hnone. destruct Hnew as (Hf & Hcrc & _); [|auto].
      intros c2 Hc2. apply fw_l2_in in Hc2. destruct Hc2 as (c & Hc & _ & ->). rewrite !fw_upd_type; auto.
Qed.

(* ------------------------------------------------------------------------------------------ *)
(* the transmitted bundle passes CheckValid                                                    *)
(* ------------------------------------------------------------------------------------------ *)
Lemma lifetime_nonzero now p bl bl' :
  p_time p <> 0 ->
  lifetime_exceeded now {| b_pri := p; b_blocks := bl |} = lifetime_exceeded now {| b_pri := p; b_blocks := bl' |}.
Proof. intros H. unfold lifetime_exceeded. cbn [b_pri b_blocks]. apply N.eqb_neq in H. rewrite H. reflexivity. Qed.

Lemma lifetime_zero now p bl c a :
  NoDup (map c_type bl) -> p_time p = 0 -> In c bl -> c_val c = XAge a ->
  lifetime_exceeded now {| b_pri := p; b_blocks := bl |} = (p_life p <? a).
Proof.
  intros Hnd Ht Hc Hv. unfold lifetime_exceeded. cbn [b_pri b_blocks]. rewrite Ht. cbn [N.eqb].
  assert (Hct : c_type c = 7) by (unfold c_type; rewrite Hv; reflexivity).
  destruct (find_type_some_ex _ _ _ Hc Hct) as (c0 & F). rewrite F.
  rewrite <- (find_type_unique _ _ _ _ Hnd F Hc Hct). destruct c as [num fl crc val]. cbn [c_val] in Hv. subst val. reflexivity.
Qed.

Lemma fw_forward_valid node now res b b' :
  eid_valid node = true -> primary_valid (b_pri b) = true ->
  fw_lok (b_pri b) (b_blocks b) -> fw_typed (b_blocks b) -> fw_age_present (b_pri b) (b_blocks b) ->
  fw_forward node now res b = FwSend b' ->
  check_valid now b' = true /\ fw_lok (b_pri b') (b_blocks b').
Proof.
  intros Hnode Hpv Hlok Hty Hap H.
  destruct (fw_forward_send_spec _ _ _ _ _ Hlok Hty H) as (vh & va & Hh & Ha & Hl & ->).
  destruct Hh as (Hvt & Hvv & _ & Hh). destruct Ha as (Hat & _ & Ha).
  set (vp := XPrev node). set (l := b_blocks b) in *. set (p := b_pri b) in *.
  pose proof (fw_l2_lok p vh va l Hvt Hvv Hat Hlok) as Hlok2.
  assert (Hlok3 : fw_lok p (fw_set_or_add vp (fw_l2 vh va l))).
  { apply fw_lok_set_or_add; [cbn; lia|exact Hnode|exact Hlok2]. }
  split; [|exact Hlok3].
  assert (Hage : forall c, In c l -> c_type c = 7 ->
            exists a, c_val c = XAge a /\ fw_u64 (a + res) < p_life p
                      /\ In (fw_set_val c (XAge (fw_u64 (a + res)))) (fw_set_or_add vp (fw_l2 vh va l))).
  { intros c Hc Hct. assert (Hr : fw_removable c = false) by (apply fw_known_6_7_10; auto).
    destruct (Ha c) as (a & Hv & -> & Hlt); [apply fw_strip_in; auto|exact Hct|].
    exists a. split; [exact Hv|]. split; [exact Hlt|].
    rewrite <- (fw_G_7 vh (XAge (fw_u64 (a + res))) vp c eq_refl Hct). unfold fw_G.
    apply (fw_set_or_add_old vp _ _ (lok_types _ _ Hlok2)). apply fw_l2_in. eauto. }
  apply check_valid_intro; [exact Hpv|exact Hlok3| |].
  - intros Ht. destruct (Hap Ht) as (c & Hc & Hct). destruct (Hage c Hc Hct) as (a & _ & _ & Hin).
    eexists. split; [exact Hin|reflexivity].
  - destruct (N.eq_dec (p_time p) 0) as [Ht|Ht].
    + destruct (Hap Ht) as (c & Hc & Hct). destruct (Hage c Hc Hct) as (a & _ & Hlt & Hin).
      rewrite (lifetime_zero now p _ _ (fw_u64 (a + res)) (lok_types _ _ Hlok3) Ht Hin eq_refl). lia.
    + rewrite <- Hl. apply lifetime_nonzero, Ht.
Qed.

(* ------------------------------------------------------------------------------------------ *)
(* ... and is in the range of the codec (so that it encodes, and parses back to itself)        *)
(* ------------------------------------------------------------------------------------------ *)
Definition fw_val_ok (v : ext) : bool :=
  ext_wf v && match enc_ext_inner v with Some i => len_ok i | None => false end.

Lemma cblock_wf_set_val c v : cblock_wf c = true -> fw_val_ok v = true -> cblock_wf (fw_set_val c v) = true.
Proof.
  unfold cblock_wf, fw_val_ok. intros H Hv. cbn [fw_set_val c_num c_flags c_crc c_val].
  rewrite !andb_true_iff in H. destruct H as ((((H1 & H2) & H3) & _) & _).
  apply andb_prop in Hv. destruct Hv as [Hv1 Hv2]. rewrite H1, H2, H3, Hv1, Hv2. reflexivity.
Qed.

Lemma head_bytes_length m n : (length (head_bytes m n) <= 9)%nat.
Proof.
  unfold head_bytes. repeat match goal with |- context [if ?c then _ else _] => destruct c end;
    cbn [length]; rewrite ?be_encode_length; lia.
Qed.

Lemma len_ok_small d : (length d <= 100)%nat -> len_ok d = true.
Proof. unfold len_ok, nlen, max_raw. intros H. lia. Qed.

Lemma fw_val_ok_hop lim k : lim <= 255 -> k <= 255 -> fw_val_ok (XHop lim k) = true.
Proof.
  intros H1 H2. unfold fw_val_ok. cbn [ext_wf enc_ext_inner]. apply andb_true_intro. split; [lia|].
  apply len_ok_small. rewrite !app_length. unfold enc_arr, enc_uint.
  pose proof (head_bytes_length mArray 2). pose proof (head_bytes_length mUInt lim). pose proof (head_bytes_length mUInt k). lia.
Qed.

Lemma fw_val_ok_uint_age n : fw_val_ok (XAge (fw_u64 n)) = true.
Proof.
  unfold fw_val_ok. cbn [ext_wf enc_ext_inner]. apply andb_true_intro. split.
  - unfold u64_ok, fw_u64. apply N.ltb_lt. apply N.mod_lt. discriminate.
  - apply len_ok_small. unfold enc_uint. pose proof (head_bytes_length mUInt (fw_u64 n)). lia.
Qed.

Lemma fw_val_ok_spray n : u64_ok n = true -> fw_val_ok (XSpray n) = true.
Proof.
  intros H. unfold fw_val_ok. cbn [ext_wf enc_ext_inner]. rewrite H. cbn [andb].
  apply len_ok_small. unfold enc_uint. pose proof (head_bytes_length mUInt n). lia.
Qed.

Definition fw_small (l : list cblock) : Prop := nlen l < 4294967296.

Lemma fw_set_or_add_wf v l :
  NoDup (map c_type l) -> ext_type v <> 1 -> fw_val_ok v = true -> nlen l < 4611686018427387904 ->
  forallb cblock_wf l = true -> forallb cblock_wf (fw_set_or_add v l) = true.
Proof.
  intros Hnd Ht Hv Hs Hwf. rewrite forallb_forall in *. intros c' Hc'. unfold fw_set_or_add in Hc'.
  destruct (find_type (ext_type v) l) eqn:F.
  - rewrite fw_set_first_map in Hc' by exact Hnd. apply in_map_iff in Hc'. destruct Hc' as (c1 & <- & Hc).
    unfold fw_upd. destruct (c_type c1 =? ext_type v); [|apply Hwf, Hc]. apply cblock_wf_set_val; [apply Hwf, Hc|exact Hv].
  - destruct (fw_add_block_perm 0 0 v l) as (num & _ & Hrange & Hperm & _).
    apply (Permutation_in _ Hperm) in Hc'. destruct Hc' as [<-|Hc']; [|apply Hwf, Hc'].
    apply N.eqb_neq in Ht. rewrite Ht in Hrange. unfold nlen in Hs.
    unfold cblock_wf. cbn [c_num c_flags c_crc c_val]. unfold fw_val_ok in Hv. apply andb_prop in Hv. destruct Hv as [Hv1 Hv2].
    rewrite Hv1, Hv2. unfold u64_ok, crc_type_ok. repeat (apply andb_true_intro; split); try reflexivity; lia.
Qed.

Lemma fw_small_l2 vh va l : fw_small l -> fw_small (fw_l2 vh va l).
Proof.
  unfold fw_small, fw_l2, nlen, fw_strip. rewrite !map_length. pose proof (filter_length_le (fun c => negb (fw_removable c)) l). lia.
Qed.

Definition fw_node_ok (node : eid) : bool := eid_valid node && fw_val_ok (XPrev node).

Lemma wf_hop_range c lim k : cblock_wf c = true -> c_val c = XHop lim k -> lim <= 255 /\ k <= 255.
Proof.
  unfold cblock_wf. intros H Hv. rewrite Hv in H. cbn [ext_wf] in H.
  rewrite !andb_true_iff in H. lia.
Qed.

Lemma fw_forward_wf node now res b b' :
  fw_node_ok node = true -> bundle_wf b = true -> fw_small (b_blocks b) ->
  fw_lok (b_pri b) (b_blocks b) ->
  fw_forward node now res b = FwSend b' -> bundle_wf b' = true.
Proof.
  intros Hnode Hwf Hs Hlok H.
  unfold bundle_wf in Hwf. apply andb_prop in Hwf. destruct Hwf as [Hwp Hwb].
  pose proof (wf_typed _ Hwb) as Hty.
  destruct (fw_forward_send_spec _ _ _ _ _ Hlok Hty H) as (vh & va & Hh & Ha & _ & ->).
  destruct Hh as (Hvt & Hvv & _ & Hh). destruct Ha as (Hat & _ & Ha).
  unfold fw_node_ok in Hnode. apply andb_prop in Hnode. destruct Hnode as [Hnv Hnok].
  unfold bundle_wf. cbn [b_pri b_blocks]. rewrite Hwp. cbn [andb].
  pose proof (fw_l2_lok (b_pri b) vh va (b_blocks b) Hvt Hvv Hat Hlok) as Hlok2.
  apply fw_set_or_add_wf; [apply Hlok2|cbn; lia|exact Hnok|pose proof (fw_small_l2 vh va _ Hs) as Hs2; unfold fw_small in Hs2; lia|].
  apply forallb_forall. intros c2 Hc2. apply fw_l2_in in Hc2. destruct Hc2 as (c & Hc & Hr & ->).
  rewrite forallb_forall in Hwb. pose proof (Hwb c Hc) as Hwc.
  assert (Hc0 : In c (fw_strip (b_blocks b))) by (apply fw_strip_in; auto).
  destruct (N.eq_dec (c_type c) 10) as [E10|E10].
  - rewrite (fw_upd_same 10 vh c E10). rewrite fw_upd_other by (rewrite fw_set_val_type; lia).
    destruct (Hh c Hc0 E10) as (lim & k & Hv & -> & Hle & _). destruct (wf_hop_range _ _ _ Hwc Hv).
    apply cblock_wf_set_val; [exact Hwc|]. apply fw_val_ok_hop; lia.
  - rewrite (fw_upd_other 10) by exact E10. destruct (N.eq_dec (c_type c) 7) as [E7|E7].
    + rewrite (fw_upd_same 7 va c E7). destruct (Ha c Hc0 E7) as (a & Hv & -> & _).
      apply cblock_wf_set_val; [exact Hwc|]. apply fw_val_ok_uint_age.
    + rewrite fw_upd_other by exact E7. exact Hwc.
Qed.

(* ------------------------------------------------------------------------------------------ *)
(* the routing algorithm's own block                                                           *)
(* ------------------------------------------------------------------------------------------ *)
Definition fw_is_some {A} (o : option A) : bool := match o with Some _ => true | None => false end.
Definition fw_copies_ok (c : option N) : Prop := match c with Some n => u64_ok n = true | None => True end.

Lemma fw_alg_touch_some n b :
  fw_alg_touch (Some n) b = {| b_pri := b_pri b; b_blocks := fw_set_or_add (XSpray n) (b_blocks b) |}.
Proof. reflexivity. Qed.

Lemma find_type_same t l l' :
  NoDup (map c_type l) -> NoDup (map c_type l') ->
  (forall c, c_type c = t -> (In c l <-> In c l')) -> find_type t l = find_type t l'.
Proof.
  intros Hnd Hnd' Hiff. destruct (find_type t l) as [c0|] eqn:F.
  - pose proof (find_type_in _ _ _ F) as [Hin Ht]. apply (Hiff _ Ht) in Hin.
    destruct (find_type_some_ex _ _ _ Hin Ht) as (c1 & F'). rewrite F'. f_equal.
    exact (find_type_unique _ _ _ _ Hnd' F' Hin Ht).
  - destruct (find_type t l') as [c1|] eqn:F'; [|reflexivity]. exfalso.
    pose proof (find_type_in _ _ _ F') as [Hin Ht]. apply (Hiff _ Ht) in Hin. exact (find_type_none _ _ F _ Hin Ht).
Qed.

Lemma fw_set_or_add_other_iff v l c :
  NoDup (map c_type l) -> c_type c <> ext_type v -> (In c l <-> In c (fw_set_or_add v l)).
Proof.
  intros Hnd Hct. split.
  - intros Hc. rewrite <- (fw_upd_other (ext_type v) v c Hct). apply fw_set_or_add_old; assumption.
  - intros Hc. destruct (fw_set_or_add_inv v l c Hnd Hc) as [(c0 & Hc0 & ->)|(_ & num & -> & _)].
    + rewrite fw_upd_type in Hct by reflexivity. rewrite fw_upd_other by exact Hct. exact Hc0.
    + exfalso. apply Hct. reflexivity.
Qed.

Lemma fw_touch_faithful node res b b' copies :
  fw_lok (b_pri b') (b_blocks b') -> fw_faithful node res false b b' ->
  fw_faithful node res (fw_is_some copies) b (fw_alg_touch copies b').
Proof.
  intros Hlok F. destruct copies as [n|]; [|exact F]. rewrite fw_alg_touch_some. cbn [fw_is_some].
  pose proof (lok_types _ _ Hlok) as Hnd.
  assert (Hiff : forall c, c_type c <> 192 -> (In c (b_blocks b') <-> In c (fw_set_or_add (XSpray n) (b_blocks b')))).
  { intros c Hc. apply fw_set_or_add_other_iff; [exact Hnd|exact Hc]. }
  destruct F as [Fp Fk Fo Fh Fho Fa Fao Fpr]. constructor; cbn [b_pri b_blocks].
  - exact Fp.
  - intros c Hc Hs Hr. pose proof (fw_special_false _ _ Hs) as (H6 & H7 & H10 & H192).
    apply Hiff; [auto|]. apply Fk; auto. unfold fw_special in *. cbn [andb]. lia.
  - intros c' Hc' Hs. pose proof (fw_special_false _ _ Hs) as (H6 & H7 & H10 & H192).
    apply Fo; [apply Hiff; auto|]. unfold fw_special in *. cbn [andb]. lia.
  - intros c Hc Hct. destruct (Fh c Hc Hct) as (lim & k & Hv & Hle & Hin). exists lim, k. repeat split; auto.
    apply Hiff; [rewrite fw_set_val_type; cbn; lia|exact Hin].
  - intros c' Hc' Hct. apply Fho; [|exact Hct]. apply Hiff; [lia|exact Hc'].
  - intros c Hc Hct. destruct (Fa c Hc Hct) as (a & Hv & Hin). exists a. split; auto.
    apply Hiff; [rewrite fw_set_val_type; cbn; lia|exact Hin].
  - intros c' Hc' Hct. apply Fao; [|exact Hct]. apply Hiff; [lia|exact Hc'].
  - destruct Fpr as (c' & Hc' & Hv' & Huniq & Hsame & Hnew). exists c'.
    assert (Hct' : c_type c' = 6) by (unfold c_type; rewrite Hv'; reflexivity).
    split; [apply Hiff; [lia|exact Hc']|]. split; [exact Hv'|]. split; [|split; [exact Hsame|exact Hnew]].
    intros c'' Hc'' Hct''. apply Huniq; [|exact Hct'']. apply Hiff; [lia|exact Hc''].
Qed.

Lemma fw_touch_valid now b' copies :
  check_valid now b' = true -> check_valid now (fw_alg_touch copies b') = true.
Proof.
  intros H. destruct copies as [n|]; [|exact H]. rewrite fw_alg_touch_some.
  destruct (check_valid_elim _ _ H) as (Hp & Hlok & Hap & Hl).
  pose proof (lok_types _ _ Hlok) as Hnd.
  assert (Hlok' : fw_lok (b_pri b') (fw_set_or_add (XSpray n) (b_blocks b'))).
  { apply fw_lok_set_or_add; [cbn; lia|reflexivity|exact Hlok]. }
  apply check_valid_intro; [exact Hp|exact Hlok'| |].
  - intros Ht. destruct (Hap Ht) as (c & Hc & Hct). exists c. split; [|exact Hct].
    apply fw_set_or_add_other_iff; [exact Hnd|cbn; lia|exact Hc].
  - rewrite <- Hl. destruct b' as [p bl]. cbn [b_pri b_blocks] in *. unfold lifetime_exceeded. cbn [b_pri b_blocks].
    rewrite (find_type_same 7 (fw_set_or_add (XSpray n) bl) bl); [reflexivity|apply Hlok'|exact Hnd|].
    intros c Hct. symmetry. apply fw_set_or_add_other_iff; [exact Hnd|cbn; lia].
Qed.

Lemma fw_set_or_add_length v l : NoDup (map c_type l) -> (length (fw_set_or_add v l) <= S (length l))%nat.
Proof.
  intros Hnd. unfold fw_set_or_add. destruct (find_type (ext_type v) l).
  - rewrite fw_set_first_map by exact Hnd. rewrite map_length. lia.
  - destruct (fw_add_block_perm 0 0 v l) as (num & _ & _ & Hperm & _). rewrite (Permutation_length Hperm). cbn [length]. lia.
Qed.

Lemma fw_touch_wf b' copies :
  fw_copies_ok copies -> NoDup (map c_type (b_blocks b')) -> nlen (b_blocks b') < 4611686018427387904 ->
  bundle_wf b' = true -> bundle_wf (fw_alg_touch copies b') = true.
Proof.
  intros Hc Hnd Hs H. destruct copies as [n|]; [|exact H]. rewrite fw_alg_touch_some.
  unfold bundle_wf in *. cbn [b_pri b_blocks]. apply andb_prop in H. destruct H as [H1 H2]. rewrite H1. cbn [andb].
  apply fw_set_or_add_wf; [exact Hnd|cbn; lia|apply fw_val_ok_spray, Hc|exact Hs|exact H2].
Qed.

(* ------------------------------------------------------------------------------------------ *)
(* the first pass (receive) and the retries reduce to forward on the accepted bundle           *)
(* ------------------------------------------------------------------------------------------ *)
Lemma fw_receive_blocks_strip l r : fw_receive_blocks l = Some r -> r = fw_strip l.
Proof.
  revert r. induction l as [|c l IH]; cbn [fw_receive_blocks]; intros r H; [inversion H; reflexivity|].
  destruct (fw_receive_blocks l) as [r0|]; [|discriminate]. specialize (IH r0 eq_refl). subst r0.
  unfold fw_strip. cbn [filter]. unfold fw_removable at 1.
  destruct (fw_unknown c); cbn [negb andb] in *; [|inversion H; reflexivity].
  destruct (has (c_flags c) BF_DELETE); [discriminate|].
  destruct (has (c_flags c) BF_REMOVE); cbn [negb]; inversion H; reflexivity.
Qed.

Lemma fw_strip_idem l : fw_strip (fw_strip l) = fw_strip l.
Proof.
  unfold fw_strip. induction l as [|c l IH]; cbn [filter]; [reflexivity|].
  destruct (negb (fw_removable c)) eqn:E; cbn [filter]; [rewrite E, IH; reflexivity|exact IH].
Qed.

Lemma fw_forward_strip node now res p l :
  fw_forward node now res {| b_pri := p; b_blocks := fw_strip l |} = fw_forward node now res {| b_pri := p; b_blocks := l |}.
Proof. unfold fw_forward. cbn [b_pri b_blocks]. rewrite fw_strip_idem. reflexivity. Qed.

Lemma fw_receive_cases node now res b :
  fw_receive node now res b = FwRefuse FwUnsupported \/ fw_receive node now res b = fw_forward node now res b.
Proof.
  unfold fw_receive. destruct (fw_receive_blocks (b_blocks b)) as [r|] eqn:E; [|left; reflexivity].
  right. rewrite (fw_receive_blocks_strip _ _ E). rewrite fw_forward_strip. destruct b; reflexivity.
Qed.

Lemma fw_receive_send node now res b b' :
  fw_receive node now res b = FwSend b' -> fw_forward node now res b = FwSend b'.
Proof. intros H. destruct (fw_receive_cases node now res b) as [E|E]; rewrite E in H; [discriminate|exact H]. Qed.

Lemma fw_retry_send node now res b b' :
  fw_retry node now res b = FwSend b' -> fw_forward node now res b = FwSend b'.
Proof. unfold fw_retry. destruct (check_valid now b); [auto|discriminate]. Qed.

(* ------------------------------------------------------------------------------------------ *)
(* refusal                                                                                     *)
(* ------------------------------------------------------------------------------------------ *)
Definition fw_hop_over (b : bundle) : Prop :=
  exists c lim k, In c (b_blocks b) /\ c_val c = XHop lim k /\ lim < k + 1.
Definition fw_time_over (now : N) (b : bundle) : Prop :=
  p_time (b_pri b) <> 0 /\ lifetime_exceeded now b = true.
Definition fw_age_over (res : N) (b : bundle) : Prop :=
  exists c a, In c (b_blocks b) /\ c_val c = XAge a /\ a + res < 18446744073709551616 /\ p_life (b_pri b) <= a + res.
Definition fw_must_refuse (now res : N) (b : bundle) : Prop :=
  fw_hop_over b \/ fw_time_over now b \/ fw_age_over res b.

Lemma fw_forward_refuse node now res b :
  fw_lok (b_pri b) (b_blocks b) -> fw_typed (b_blocks b) -> fw_must_refuse now res b ->
  exists r, r <> FwLoad /\ fw_forward node now res b = FwRefuse r.
Proof.
  intros Hlok Hty Hm. pose proof (fw_lok_strip _ _ Hlok) as Hlok0. pose proof (lok_types _ _ Hlok0) as Hnd0.
  unfold fw_forward. destruct (fw_hop_step (fw_strip (b_blocks b))) as [l1|] eqn:Eh;
    [|exists FwHopLimit; split; [discriminate|reflexivity]].
  destruct Hm as [(c & lim & k & Hc & Hv & Hlt)|[(Ht & Hl)|(c & a & Hc & Hv & Hfit & Hle)]].
  - exfalso. assert (Hc0 : In c (fw_strip (b_blocks b))).
    { apply fw_strip_in. split; [exact Hc|]. apply fw_known_6_7_10. unfold c_type. rewrite Hv. auto. }
    rewrite (fw_hop_step_none _ _ _ _ Hnd0 Hc0 Hv Hlt) in Eh. discriminate.
  - rewrite (lifetime_nonzero now (b_pri b) l1 (b_blocks b) Ht). destruct b as [p bl]. cbn [b_pri b_blocks] in *.
    rewrite Hl. exists FwLifetime. split; [discriminate|reflexivity].
  - destruct (lifetime_exceeded now _); [exists FwLifetime; split; [discriminate|reflexivity]|].
    destruct (fw_hop_step_some _ _ Hnd0 (fw_typed_strip _ Hty) Eh) as (vh & (Hvt & _) & ->).
    assert (Hct : c_type c = 7) by (unfold c_type; rewrite Hv; reflexivity).
    assert (Hc1 : In c (map (fw_upd 10 vh) (fw_strip (b_blocks b)))).
    { apply in_map_iff. exists c. split; [apply fw_upd_other; lia|]. apply fw_strip_in. split; [exact Hc|].
      apply fw_known_6_7_10; auto. }
    rewrite (fw_age_step_none res (p_life (b_pri b)) _ c a); [exists FwAge; split; [discriminate|reflexivity]| |exact Hc1|exact Hv|].
    + rewrite map_upd_types by exact Hvt. exact Hnd0.
    + unfold fw_u64. rewrite N.mod_small by exact Hfit. exact Hle.
Qed.

Lemma fw_store_after_refuse b keep r : r <> FwLoad -> fw_store_after b keep (FwRefuse r) = None.
Proof. destruct r; try reflexivity. congruence. Qed.

Lemma check_valid_time now0 now b :
  check_valid now0 b = true -> check_valid now b = negb (lifetime_exceeded now b).
Proof.
  unfold check_valid. cbv zeta. intros H. apply andb_prop in H. destruct H as [H _]. rewrite H. reflexivity.
Qed.

Lemma lifetime_zero_indep now now' b : p_time (b_pri b) = 0 -> lifetime_exceeded now b = lifetime_exceeded now' b.
Proof. intros H. unfold lifetime_exceeded. rewrite H. reflexivity. Qed.

Lemma fw_store_expired_mono now now' b :
  p_time (b_pri b) <> 0 -> lifetime_exceeded now b = true -> now <= now' -> fw_store_expired now' b = true.
Proof.
  intros Ht Hl Hle. unfold lifetime_exceeded in Hl. apply N.eqb_neq in Ht. rewrite Ht in Hl.
  unfold fw_store_expired. apply Z.ltb_lt in Hl. apply Z.ltb_lt. unfold ms1970to2k in *. lia.
Qed.

(* ------------------------------------------------------------------------------------------ *)
(* histories of one accepted bundle                                                            *)
(* ------------------------------------------------------------------------------------------ *)
Definition fw_accepted (now : N) (b : bundle) : Prop :=
  bundle_wf b = true /\ check_valid now b = true /\ fw_small (b_blocks b).

(* an output is the first pass or a retry, always computed from the accepted bundle itself *)
Definition fw_out_of (node : eid) (b : bundle) (o : fw_out) : Prop :=
  fo_result o = fw_touch_result (fo_copies o) (fw_receive node (fo_now o) (fo_res o) b)
  \/ fo_result o = fw_touch_result (fo_copies o) (fw_retry node (fo_now o) (fo_res o) b).

Lemma fw_store_after_inv b keep r : fw_store_after b keep r = None \/ fw_store_after b keep r = Some b.
Proof. destruct r as [[]|]; destruct keep; cbn; auto. Qed.

Lemma fw_step_inv node b st e st' outs :
  (st = None \/ st = Some b) -> fw_step node st e = (st', outs) ->
  (st' = None \/ st' = Some b) /\ forall o, In o outs -> fw_out_of node b o.
Proof.
  intros [->| ->]; cbn [fw_step]; intros H.
  - inversion H; subst. split; [auto|intros o []].
  - destruct e as [now res copies keep|now]; inversion H; subst; clear H.
    + split; [apply fw_store_after_inv|]. intros o [<-|[]]. right. reflexivity.
    + split; [|intros o []]. destruct (negb (p_time (b_pri b) =? 0) && fw_store_expired now b); auto.
Qed.

Lemma fw_run_inv node b es : forall st st' outs,
  (st = None \/ st = Some b) -> fw_run node st es = (st', outs) ->
  (st' = None \/ st' = Some b) /\ forall o, In o outs -> fw_out_of node b o.
Proof.
  induction es as [|e es IH]; intros st st' outs Hst H; cbn [fw_run] in H.
  - inversion H; subst. split; [exact Hst|intros o []].
  - destruct (fw_step node st e) as [st1 o1] eqn:E1. destruct (fw_run node st1 es) as [st2 o2] eqn:E2.
    inversion H; subst; clear H. destruct (fw_step_inv _ _ _ _ _ _ Hst E1) as [Hst1 Ho1].
    destruct (IH _ _ _ Hst1 E2) as [Hst2 Ho2]. split; [exact Hst2|].
    intros o Ho. apply in_app_or in Ho. destruct Ho; auto.
Qed.

Lemma fw_history_inv node now res copies keep b es st outs :
  fw_history node now res copies keep b es = (st, outs) ->
  (st = None \/ st = Some b) /\ forall o, In o outs -> fw_out_of node b o.
Proof.
  unfold fw_history, fw_accept. intros H.
  destruct (fw_run node _ es) as [st2 o2] eqn:E2. inversion H; subst; clear H.
  destruct (fw_run_inv _ _ _ _ _ _ (fw_store_after_inv b keep _) E2) as [Hst Ho]. split; [exact Hst|].
  intros o [<-|Ho']; [left; reflexivity|auto].
Qed.

Lemma fw_touch_result_send copies r b'' :
  fw_touch_result copies r = FwSend b'' -> exists b', r = FwSend b' /\ b'' = fw_alg_touch copies b'.
Proof. destruct r as [rr|b']; cbn; intros H; [discriminate|]. inversion H. eauto. Qed.

Lemma fw_out_send node b o b'' :
  fw_out_of node b o -> fo_result o = FwSend b'' ->
  exists b', fw_forward node (fo_now o) (fo_res o) b = FwSend b' /\ b'' = fw_alg_touch (fo_copies o) b'.
Proof.
  intros [E|E] H; rewrite E in H; apply fw_touch_result_send in H; destruct H as (b' & Hr & ->); exists b'; split; auto.
  - apply fw_receive_send, Hr.
  - apply fw_retry_send, Hr.
Qed.

Lemma fw_accepted_parts now b :
  fw_accepted now b ->
  primary_valid (b_pri b) = true /\ fw_lok (b_pri b) (b_blocks b) /\ fw_typed (b_blocks b)
  /\ fw_age_present (b_pri b) (b_blocks b).
Proof.
  intros (Hwf & Hv & _). destruct (check_valid_elim _ _ Hv) as (Hp & Hlok & Hap & _).
  unfold bundle_wf in Hwf. apply andb_prop in Hwf. destruct Hwf as [_ Hwb].
  split; [exact Hp|]. split; [exact Hlok|]. split; [apply wf_typed, Hwb|exact Hap].
Qed.

Lemma fw_forward_length node now res b b' :
  fw_lok (b_pri b) (b_blocks b) -> fw_typed (b_blocks b) ->
  fw_forward node now res b = FwSend b' -> (length (b_blocks b') <= S (length (b_blocks b)))%nat.
Proof.
  intros Hlok Hty H. destruct (fw_forward_send_spec _ _ _ _ _ Hlok Hty H) as (vh & va & Hh & Ha & _ & ->).
  destruct Hh as (Hvt & Hvv & _). destruct Ha as (Hat & _). cbn [b_blocks].
  pose proof (fw_l2_lok (b_pri b) vh va _ Hvt Hvv Hat Hlok) as Hlok2.
  pose proof (fw_set_or_add_length (XPrev node) _ (lok_types _ _ Hlok2)).
  unfold fw_l2 in *. rewrite !map_length in *. pose proof (filter_length_le (fun c => negb (fw_removable c)) (b_blocks b)).
  unfold fw_strip in *. lia.
Qed.

(* the payload block, as found by Bundle.PayloadBlock *)
Lemma fw_faithful_payload node res owned b b' :
  NoDup (map c_type (b_blocks b)) -> NoDup (map c_type (b_blocks b')) ->
  fw_faithful node res owned b b' -> payload_of b' = payload_of b.
Proof.
  intros Hnd Hnd' F. unfold payload_of. rewrite (find_type_same 1 (b_blocks b') (b_blocks b) Hnd' Hnd); [reflexivity|].
  intros c Hct. assert (Hs : fw_special owned (c_type c) = false) by (rewrite Hct; destruct owned; reflexivity).
  split.
  - intros Hc. apply (ff_only _ _ _ _ _ F c Hc Hs).
  - intros Hc. apply (ff_kept _ _ _ _ _ F c Hc Hs). apply known_not_removable. rewrite Hct. reflexivity.
Qed.

Theorem fw_send_facts node now0 b o b'' :
  fw_node_ok node = true -> fw_accepted now0 b -> fw_out_of node b o -> fw_copies_ok (fo_copies o) ->
  fo_result o = FwSend b'' ->
  check_valid (fo_now o) b'' = true /\ bundle_wf b'' = true
  /\ fw_faithful node (fo_res o) (fw_is_some (fo_copies o)) b b''.
Proof.
  intros Hnode Hacc Hof Hcop Hres.
  destruct (fw_out_send _ _ _ _ Hof Hres) as (b' & Hf & ->).
  destruct (fw_accepted_parts _ _ Hacc) as (Hpv & Hlok & Hty & Hap). destruct Hacc as (Hwf & _ & Hsmall).
  pose proof Hnode as Hnode'. unfold fw_node_ok in Hnode'. apply andb_prop in Hnode'. destruct Hnode' as [Hnv _].
  destruct (fw_forward_valid _ _ _ _ _ Hnv Hpv Hlok Hty Hap Hf) as [Hv' Hlok'].
  pose proof (fw_forward_wf _ _ _ _ _ Hnode Hwf Hsmall Hlok Hf) as Hwf'.
  pose proof (fw_forward_faithful _ _ _ _ _ Hnv Hlok Hty Hf) as Hff.
  pose proof (fw_forward_length _ _ _ _ _ Hlok Hty Hf) as Hlen.
  split; [apply fw_touch_valid, Hv'|]. split.
  - apply fw_touch_wf; [exact Hcop|apply Hlok'| |exact Hwf']. unfold fw_small, nlen in *. lia.
  - apply fw_touch_faithful; [exact Hlok'|exact Hff].
Qed.

(* the three properties of a transmitted copy that the text of C06 names first *)
Corollary fw_send_parses node now0 b o b'' :
  fw_node_ok node = true -> fw_accepted now0 b -> fw_out_of node b o -> fw_copies_ok (fo_copies o) ->
  fo_result o = FwSend b'' ->
  enc_bundle b'' = Some (bundle_bytes b'')
  /\ dec_bundle (fo_now o) (bundle_bytes b'') = Some (b'', [])
  /\ primary_bytes (b_pri b'') = primary_bytes (b_pri b)
  /\ payload_of b'' = payload_of b.
Proof.
  intros Hnode Hacc Hof Hcop Hres.
  destruct (fw_send_facts _ _ _ _ _ Hnode Hacc Hof Hcop Hres) as (Hv & Hwf & Hff).
  split; [apply enc_bundle_ok, Hwf|]. split.
  - rewrite <- (app_nil_r (bundle_bytes b'')) at 1. apply dec_bundle_enc; assumption.
  - split; [rewrite (ff_primary _ _ _ _ _ Hff); reflexivity|].
    destruct (fw_accepted_parts _ _ Hacc) as (_ & Hlok & _).
    destruct (check_valid_elim _ _ Hv) as (_ & Hlok'' & _).
    apply (fw_faithful_payload _ _ _ _ _ (lok_types _ _ Hlok) (lok_types _ _ Hlok'') Hff).
Qed.

(* refusal: never transmitted *)
Theorem fw_out_refuse node now0 b o :
  fw_accepted now0 b -> fw_out_of node b o -> fw_must_refuse (fo_now o) (fo_res o) b ->
  exists r, fo_result o = FwRefuse r.
Proof.
  intros Hacc Hof Hm. destruct (fw_accepted_parts _ _ Hacc) as (_ & Hlok & Hty & _).
  destruct (fw_forward_refuse node _ _ _ Hlok Hty Hm) as (r & _ & Hr).
  destruct Hof as [E|E]; rewrite E.
  - destruct (fw_receive_cases node (fo_now o) (fo_res o) b) as [E'|E']; rewrite E'; [eexists; reflexivity|].
    rewrite Hr. eexists; reflexivity.
  - unfold fw_retry. destruct (check_valid (fo_now o) b); [rewrite Hr|]; eexists; reflexivity.
Qed.

(* ... and dropped from the store: at once, or (a stored copy that no longer loads because its
   creation-time lifetime is over) by the next clean_store sweep *)
Definition fw_gone_or_swept (node : eid) (now : N) (b : bundle) (st : option bundle) : Prop :=
  st = None
  \/ (st = Some b /\ p_time (b_pri b) <> 0 /\ lifetime_exceeded now b = true
      /\ forall now', now <= now' -> fw_step node st (FwEvClean now') = (None, [])).

Lemma fw_swept node now b :
  p_time (b_pri b) <> 0 -> lifetime_exceeded now b = true ->
  forall now', now <= now' -> fw_step node (Some b) (FwEvClean now') = (None, []).
Proof.
  intros Ht Hl now' Hle. cbn [fw_step]. rewrite (fw_store_expired_mono _ _ _ Ht Hl Hle).
  apply N.eqb_neq in Ht. rewrite Ht. reflexivity.
Qed.

Theorem fw_accept_purges node now0 now res copies keep b :
  fw_accepted now0 b -> fw_must_refuse now res b ->
  fst (fw_accept node now res copies keep b) = None.
Proof.
  intros Hacc Hm. destruct (fw_accepted_parts _ _ Hacc) as (_ & Hlok & Hty & _).
  destruct (fw_forward_refuse node _ _ _ Hlok Hty Hm) as (r & Hnl & Hr).
  unfold fw_accept. cbn [fst]. destruct (fw_receive_cases node now res b) as [E|E]; rewrite E; [reflexivity|].
  rewrite Hr. cbn [fw_touch_result]. apply fw_store_after_refuse, Hnl.
Qed.

Theorem fw_retry_purges node now0 now res copies keep b :
  fw_accepted now0 b -> fw_must_refuse now res b ->
  fw_gone_or_swept node now b (fst (fw_step node (Some b) (FwEvRetry now res copies keep))).
Proof.
  intros Hacc Hm. destruct (fw_accepted_parts _ _ Hacc) as (_ & Hlok & Hty & _).
  destruct (fw_forward_refuse node _ _ _ Hlok Hty Hm) as (r & Hnl & Hr).
  cbn [fw_step fst]. unfold fw_retry. destruct Hacc as (_ & Hv0 & _).
  rewrite (check_valid_time now0 now b Hv0). destruct (lifetime_exceeded now b) eqn:L; cbn [negb].
  - right. cbn [fw_touch_result fw_store_after]. split; [reflexivity|].
    assert (Ht : p_time (b_pri b) <> 0).
    { intros Ht. rewrite (lifetime_zero_indep now now0 b Ht) in L.
      destruct (check_valid_elim _ _ Hv0) as (_ & _ & _ & L0). congruence. }
    split; [exact Ht|]. split; [exact L|]. apply fw_swept; assumption.
  - left. rewrite Hr. cbn [fw_touch_result]. apply fw_store_after_refuse, Hnl.
Qed.

(* ------------------------------------------------------------------------------------------ *)
(* the statements of Properties/C06.v                                                          *)
(* ------------------------------------------------------------------------------------------ *)
Theorem fw_C06_faithful :
  forall node now0 res0 copies0 keep0 b es st outs o b'',
    fw_node_ok node = true -> fw_accepted now0 b ->
    fw_history node now0 res0 copies0 keep0 b es = (st, outs) ->
    In o outs -> fw_copies_ok (fo_copies o) -> fo_result o = FwSend b'' ->
    (enc_bundle b'' = Some (bundle_bytes b'')
     /\ dec_bundle (fo_now o) (bundle_bytes b'') = Some (b'', [])
     /\ primary_bytes (b_pri b'') = primary_bytes (b_pri b)
     /\ payload_of b'' = payload_of b)
    /\ check_valid (fo_now o) b'' = true
    /\ fw_faithful node (fo_res o) (fw_is_some (fo_copies o)) b b''.
Proof.
  intros node now0 res0 copies0 keep0 b es st outs o b'' Hn Ha Hh Ho Hc Hr.
  destruct (fw_history_inv _ _ _ _ _ _ _ _ _ Hh) as [_ Hof].
  split; [exact (fw_send_parses _ _ _ _ _ Hn Ha (Hof o Ho) Hc Hr)|].
  destruct (fw_send_facts _ _ _ _ _ Hn Ha (Hof o Ho) Hc Hr) as (Hv & _ & Hf). split; assumption.
Qed.

Theorem fw_C06_age_fits : forall n, n < 18446744073709551616 -> fw_u64 n = n.
Proof. intros n H. unfold fw_u64. apply N.mod_small, H. Qed.

Theorem fw_C06_refuse :
  forall node now0 res0 copies0 keep0 b es st outs o,
    fw_accepted now0 b ->
    fw_history node now0 res0 copies0 keep0 b es = (st, outs) ->
    In o outs -> fw_must_refuse (fo_now o) (fo_res o) b ->
    exists r, fo_result o = FwRefuse r.
Proof.
  intros node now0 res0 copies0 keep0 b es st outs o Ha Hh Ho Hm.
  destruct (fw_history_inv _ _ _ _ _ _ _ _ _ Hh) as [_ Hof].
  exact (fw_out_refuse _ _ _ _ Ha (Hof o Ho) Hm).
Qed.

Theorem fw_C06_purged_stays : forall node es, fw_run node None es = (None, []).
Proof. intros node es. induction es as [|e es IH]; cbn [fw_run fw_step]; [reflexivity|]. rewrite IH. reflexivity. Qed.

(* ------------------------------------------------------------------------------------------ *)
(* timed histories: the reception time of the stored item, and the same bundle handed in again *)
(* ------------------------------------------------------------------------------------------ *)
(* a duplicate of a stored bundle: nothing is transmitted, the stored copy and its reception time stay *)
Theorem fw_dup_ignored node it b wall delay now copies keep :
  fw_tstep node (Some it) (FwTRecv b wall delay now copies keep) = (Some it, []).
Proof. reflexivity. Qed.

Lemma fw_tlift_cases rx b s :
  (s = None \/ s = Some b) -> fw_tlift rx s = None \/ fw_tlift rx s = Some {| ti_b := b; ti_rx := rx |}.
Proof. intros [->| ->]; cbn; auto. Qed.

(* while the bundle is stored, no event changes the stored copy or its reception time *)
Theorem fw_titem_stable node it e st' outs :
  fw_tstep node (Some it) e = (st', outs) -> st' = None \/ st' = Some it.
Proof.
  destruct it as [b rx]. destruct e as [b2 wall delay now copies keep|wall now copies keep|now]; cbn [fw_tstep ti_b ti_rx]; intros H.
  - inversion H; auto.
  - destruct (fw_step node (Some b) (FwEvRetry now (wall - rx) copies keep)) as [s o] eqn:E. inversion H; subst; clear H.
    destruct (fw_step_inv node b _ _ _ _ (or_intror eq_refl) E) as [Hs _]. apply (fw_tlift_cases rx b s Hs).
  - destruct (fw_step node (Some b) (FwEvClean now)) as [s o] eqn:E. inversion H; subst; clear H.
    destruct (fw_step_inv node b _ _ _ _ (or_intror eq_refl) E) as [Hs _]. apply (fw_tlift_cases rx b s Hs).
Qed.

(* a retry at [wall] works on the stored copy with the residence time counted from ITS reception *)
Theorem fw_tretry_residence node it wall now copies keep st' outs o :
  fw_tstep node (Some it) (FwTRetry wall now copies keep) = (st', outs) -> In o outs ->
  fo_res o = wall - ti_rx it /\ fo_now o = now /\ fo_copies o = copies
  /\ fo_result o = fw_touch_result copies (fw_retry node now (wall - ti_rx it) (ti_b it)).
Proof.
  cbn [fw_tstep fw_step]. intros H. inversion H; subst; clear H. intros [<-|[]]. cbn. auto.
Qed.

Lemma fw_trun_app node es1 : forall st es2,
  fw_trun node st (es1 ++ es2) =
  let '(st1, o1) := fw_trun node st es1 in let '(st2, o2) := fw_trun node st1 es2 in (st2, o1 ++ o2).
Proof.
  induction es1 as [|e es1 IH]; intros st es2; cbn [fw_trun app].
  - destruct (fw_trun node st es2); reflexivity.
  - destruct (fw_tstep node st e) as [st1 o1]. rewrite IH.
    destruct (fw_trun node st1 es1) as [st2 o2]. destruct (fw_trun node st2 es2) as [st3 o3]. rewrite app_assoc. reflexivity.
Qed.

(* a duplicate that arrives while the bundle is stored leaves no trace in the rest of the history:
   everything transmitted later (in particular every age) is what it would be without it *)
Theorem fw_dup_transparent node st es1 it o1 b wall delay now copies keep es2 :
  fw_trun node st es1 = (Some it, o1) ->
  fw_trun node st (es1 ++ FwTRecv b wall delay now copies keep :: es2) = fw_trun node st (es1 ++ es2).
Proof.
  intros H. rewrite !fw_trun_app, H. cbn [fw_trun fw_tstep]. destruct (fw_trun node (Some it) es2); reflexivity.
Qed.

(* every output of a timed history is computed from a bundle that was handed in (or was stored at the start) *)
Definition fw_tsrc (st : option fw_titem) (es : list fw_tevent) : list bundle :=
  match st with Some it => [ti_b it] | None => [] end ++ fw_thanded es.

Lemma fw_tstep_src node st e st' outs :
  fw_tstep node st e = (st', outs) ->
  (forall o, In o outs -> exists b, In b (fw_tsrc st [e]) /\ fw_out_of node b o)
  /\ (forall it', st' = Some it' -> In (ti_b it') (fw_tsrc st [e])).
Proof.
  destruct st as [[b rx]|].
  - intros H. pose proof (fw_titem_stable _ _ _ _ _ H) as Hst. split.
    + destruct e as [b2 wall delay now copies keep|wall now copies keep|now]; cbn [fw_tstep ti_b ti_rx] in H.
      * inversion H; subst. intros o [].
      * destruct (fw_step node (Some b) (FwEvRetry now (wall - rx) copies keep)) as [s o'] eqn:E. inversion H; subst; clear H.
        destruct (fw_step_inv node b _ _ _ _ (or_intror eq_refl) E) as [_ Ho]. intros o Hi. exists b. split; [left; reflexivity|auto].
      * destruct (fw_step node (Some b) (FwEvClean now)) as [s o'] eqn:E. inversion H; subst; clear H.
        destruct (fw_step_inv node b _ _ _ _ (or_intror eq_refl) E) as [_ Ho]. intros o Hi. exists b. split; [left; reflexivity|auto].
    + intros it' ->. destruct Hst as [Hst|Hst]; [discriminate|]. inversion Hst; subst. left. reflexivity.
  - destruct e as [b2 wall delay now copies keep|wall now copies keep|now]; cbn [fw_tstep]; intros H.
    + unfold fw_accept in H. inversion H; subst; clear H. split.
      * intros o [<-|[]]. exists b2. split; [left; reflexivity|left; reflexivity].
      * intros it' Hl. destruct (fw_store_after_inv b2 keep (fw_touch_result copies (fw_receive node now delay b2))) as [E|E];
          rewrite E in Hl; cbn in Hl; [discriminate|]. inversion Hl; subst. left. reflexivity.
    + inversion H; subst. split; [intros o []|intros it' Hd; discriminate].
    + inversion H; subst. split; [intros o []|intros it' Hd; discriminate].
Qed.

Lemma fw_tsrc_cons st e es st1 :
  (forall it', st1 = Some it' -> In (ti_b it') (fw_tsrc st [e])) ->
  forall b, In b (fw_tsrc st1 es) -> In b (fw_tsrc st (e :: es)).
Proof.
  intros Hst b Hb. unfold fw_tsrc in *. apply in_app_or in Hb. destruct Hb as [Hb|Hb].
  - destruct st1 as [it1|]; [|destruct Hb]. destruct Hb as [<-|[]]. specialize (Hst it1 eq_refl).
    apply in_app_or in Hst. apply in_or_app. destruct Hst as [Hs|Hs]; [left; exact Hs|right].
    destruct e; cbn in *; try contradiction. destruct Hs as [<-|[]]. left. reflexivity.
  - apply in_or_app. right. destruct e; cbn; auto.
Qed.

Lemma fw_tsrc_head st e es b : In b (fw_tsrc st [e]) -> In b (fw_tsrc st (e :: es)).
Proof.
  unfold fw_tsrc. intros Hb. apply in_app_or in Hb. apply in_or_app. destruct Hb as [Hb|Hb]; [left; exact Hb|right].
  destruct e; cbn in *; try contradiction. destruct Hb as [<-|[]]. left. reflexivity.
Qed.

Lemma fw_trun_src node es : forall st st' outs,
  fw_trun node st es = (st', outs) ->
  forall o, In o outs -> exists b, In b (fw_tsrc st es) /\ fw_out_of node b o.
Proof.
  induction es as [|e es IH]; intros st st' outs H o Ho; cbn [fw_trun] in H.
  - inversion H; subst. destruct Ho.
  - destruct (fw_tstep node st e) as [st1 o1] eqn:E1. destruct (fw_trun node st1 es) as [st2 o2] eqn:E2.
    inversion H; subst; clear H. destruct (fw_tstep_src _ _ _ _ _ E1) as [Ho1 Hst1].
    apply in_app_or in Ho. destruct Ho as [Ho|Ho].
    + destruct (Ho1 o Ho) as (b & Hb & Hof). exists b. split; [apply fw_tsrc_head, Hb|exact Hof].
    + destruct (IH _ _ _ E2 o Ho) as (b & Hb & Hof). exists b. split; [apply (fw_tsrc_cons st e es st1 Hst1), Hb|exact Hof].
Qed.

(* C06_faithful / C06_refuse for histories with duplicates, re-receptions and reception times *)
Theorem fw_C06_timed_faithful :
  forall node es st outs o b'',
    fw_node_ok node = true ->
    (forall b, In b (fw_thanded es) -> exists now0, fw_accepted now0 b) ->
    fw_trun node None es = (st, outs) ->
    In o outs -> fw_copies_ok (fo_copies o) -> fo_result o = FwSend b'' ->
    exists b, In b (fw_thanded es)
    /\ (enc_bundle b'' = Some (bundle_bytes b'')
        /\ dec_bundle (fo_now o) (bundle_bytes b'') = Some (b'', [])
        /\ primary_bytes (b_pri b'') = primary_bytes (b_pri b)
        /\ payload_of b'' = payload_of b)
    /\ check_valid (fo_now o) b'' = true
    /\ fw_faithful node (fo_res o) (fw_is_some (fo_copies o)) b b''.
Proof.
  intros node es st outs o b'' Hn Hall Hh Ho Hc Hr.
  destruct (fw_trun_src _ _ _ _ _ Hh o Ho) as (b & Hb & Hof). exists b. unfold fw_tsrc in Hb. cbn [app] in Hb.
  destruct (Hall b Hb) as [now0 Ha]. split; [exact Hb|].
  split; [exact (fw_send_parses _ _ _ _ _ Hn Ha Hof Hc Hr)|].
  destruct (fw_send_facts _ _ _ _ _ Hn Ha Hof Hc Hr) as (Hv & _ & Hf). split; assumption.
Qed.

Theorem fw_C06_timed_refuse :
  forall node es st outs o,
    (forall b, In b (fw_thanded es) -> exists now0, fw_accepted now0 b) ->
    fw_trun node None es = (st, outs) -> In o outs ->
    exists b, In b (fw_thanded es) /\ fw_out_of node b o
              /\ (fw_must_refuse (fo_now o) (fo_res o) b -> exists r, fo_result o = FwRefuse r).
Proof.
  intros node es st outs o Hall Hh Ho.
  destruct (fw_trun_src _ _ _ _ _ Hh o Ho) as (b & Hb & Hof). exists b. unfold fw_tsrc in Hb. cbn [app] in Hb.
  destruct (Hall b Hb) as [now0 Ha]. split; [exact Hb|]. split; [exact Hof|].
  intros Hm. exact (fw_out_refuse _ _ _ _ Ha Hof Hm).
Qed.
